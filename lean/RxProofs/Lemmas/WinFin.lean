import RxModel.WinFin
/-!
# Helper lemmas for C40 (`RxModel/WinFin.lean`)

Style: every Python procedure of the model has a closed form (`…_eq`) or is unfolded after the flags that
decide its branches have been case-split; invariants are structures whose fields `simp_all` closes.
-/
namespace WinFin

@[simp] theorem isTermEmit_emit {α} (n : Notif α) (r : Bool) : (Eff.emit n r).isTermEmit = n.isTerminal := rfl
@[simp] theorem isTermEmit_act {α} (k : ActK) (a : Option (Notif α)) (r : Bool) : (Eff.act k a r).isTermEmit = false := rfl
@[simp] theorem isTermEmit_res {α} : (Eff.resDispose : Eff α).isTermEmit = false := rfl
@[simp] theorem isTermEmit_src {α} : (Eff.srcDispose : Eff α).isTermEmit = false := rfl
@[simp] theorem isTermEmit_esc {α} (e : Err) : (Eff.escape e : Eff α).isTermEmit = false := rfl
@[simp] theorem isResDispose_emit {α} (n : Notif α) (r : Bool) : (Eff.emit n r).isResDispose = false := rfl
@[simp] theorem isResDispose_act {α} (k : ActK) (a : Option (Notif α)) (r : Bool) : (Eff.act k a r).isResDispose = false := rfl
@[simp] theorem isResDispose_res {α} : (Eff.resDispose : Eff α).isResDispose = true := rfl
@[simp] theorem isResDispose_src {α} : (Eff.srcDispose : Eff α).isResDispose = false := rfl
@[simp] theorem isResDispose_esc {α} (e : Err) : (Eff.escape e : Eff α).isResDispose = false := rfl
@[simp] theorem isTerminal_next {α} (v : α) : (Notif.next v).isTerminal = false := rfl
@[simp] theorem isTerminal_error {α} (e : Err) : (Notif.error e : Notif α).isTerminal = true := rfl
@[simp] theorem isTerminal_completed {α} : (Notif.completed : Notif α).isTerminal = true := rfl


@[simp] theorem resCount_append {α} (a b : List (Eff α)) : resCount (a ++ b) = resCount a + resCount b := by
  simp [resCount]
@[simp] theorem hasTerm_append {α} (a b : List (Eff α)) : hasTerm (a ++ b) = (hasTerm a || hasTerm b) := by
  simp [hasTerm]
@[simp] theorem resCount_nil {α} : resCount ([] : List (Eff α)) = 0 := rfl
@[simp] theorem hasTerm_nil {α} : hasTerm ([] : List (Eff α)) = false := rfl
@[simp] theorem resCount_cons {α} (e : Eff α) (l) : resCount (e :: l) = e.isResDispose.toNat + resCount l := by
  cases e <;> simp [resCount, Eff.isResDispose, List.filter] <;> omega
@[simp] theorem hasTerm_cons {α} (e : Eff α) (l) : hasTerm (e :: l) = (e.isTermEmit || hasTerm l) := by
  simp [hasTerm]

@[simp] theorem isAct_emit {α} (k : ActK) (n : Notif α) (r : Bool) : (Eff.emit n r).isAct k = false := rfl
@[simp] theorem isAct_res {α} (k : ActK) : (Eff.resDispose : Eff α).isAct k = false := rfl
@[simp] theorem isAct_src {α} (k : ActK) : (Eff.srcDispose : Eff α).isAct k = false := rfl
@[simp] theorem isAct_esc {α} (k : ActK) (e : Err) : (Eff.escape e : Eff α).isAct k = false := rfl
@[simp] theorem isAct_act {α} (k k' : ActK) (a : Option (Notif α)) (r : Bool) : (Eff.act k' a r).isAct k = (k == k') := rfl
@[simp] theorem actCount_append {α} (k : ActK) (a b : List (Eff α)) : actCount k (a ++ b) = actCount k a + actCount k b := by
  simp [actCount]
@[simp] theorem actCount_nil {α} (k : ActK) : actCount k ([] : List (Eff α)) = 0 := rfl
@[simp] theorem actCount_cons {α} (k : ActK) (e : Eff α) (l) : actCount k (e :: l) = (e.isAct k).toNat + actCount k l := by
  cases h : e.isAct k <;> simp [actCount, List.filter, h] <;> omega

/-- `U.dispose()` as a state update -/
def uDisp (u : USt) : USt := { u with stopped := true, sad := true, cur := u.sad && u.cur }
def srcIf {α} (b : Bool) : List (Eff α) := if b then [.srcDispose] else []
def uSubDisp (u : USt) : USt := if u.subDisposed then u else uDisp { u with subDisposed := true }

@[simp] theorem uDisp_sad (u : USt) : (uDisp u).sad = true := rfl
@[simp] theorem uSubDisp_sad (u : USt) : (uSubDisp u).sad = (!u.subDisposed || u.sad) := by
  cases h : u.subDisposed <;> simp [uSubDisp, h]
@[simp] theorem uDisp_subDisposed (u : USt) : (uDisp u).subDisposed = u.subDisposed := rfl
@[simp] theorem uSubDisp_subDisposed (u : USt) : (uSubDisp u).subDisposed = true := by
  cases h : u.subDisposed <;> simp [uSubDisp, h]

@[simp] theorem resCount_srcIf {α} (b : Bool) : resCount (srcIf b : List (Eff α)) = 0 := by
  cases b <;> simp [srcIf, Eff.isResDispose]
@[simp] theorem hasTerm_srcIf {α} (b : Bool) : hasTerm (srcIf b : List (Eff α)) = false := by
  cases b <;> simp [srcIf]
@[simp] theorem actCount_srcIf {α} (k : ActK) (b : Bool) : actCount k (srcIf b : List (Eff α)) = 0 := by
  cases b <;> simp [srcIf]

/-- no fault: `dispose()` of the source's subscription does not raise -/
class NoSrcFault (c : Cfg) : Prop where
  out : c.srcDisposeRaises = false

instance (c : Cfg) [h : NoSrcFault c] : NoSrcFault c.ident := ⟨by simpa [Cfg.ident] using h.out⟩

/-- exception of `U.dispose()`: that of the source subscription's `dispose()`, if it is called and the fault is on -/
def srcExn (c : Cfg) (b : Bool) : Option Err := if b && c.srcDisposeRaises then some c.srcdErr else none

theorem uDispose_gen {α} (c : Cfg) (s : St α) :
    uDispose c s = ({ s with u := uDisp s.u, log := s.log ++ srcIf (!s.u.sad && s.u.cur) },
      srcExn c (!s.u.sad && s.u.cur)) := by
  obtain ⟨d, ⟨us, usad, ucur, usub, ulive⟩, o, log⟩ := s
  cases usad <;> cases ucur <;> simp [uDispose, uDisp, srcIf, srcDisposeP, srcExn]

theorem uSubDispose_gen {α} (c : Cfg) (s : St α) :
    uSubDispose c s = ({ s with u := uSubDisp s.u, log := s.log ++ srcIf (!s.u.subDisposed && !s.u.sad && s.u.cur) },
      srcExn c (!s.u.subDisposed && !s.u.sad && s.u.cur)) := by
  obtain ⟨d, ⟨us, usad, ucur, usub, ulive⟩, o, log⟩ := s
  cases usub <;> simp [uSubDispose, uDispose_gen, uSubDisp, srcIf, srcExn]

@[simp] theorem srcExn_nofault (c : Cfg) [h : NoSrcFault c] (b : Bool) : srcExn c b = none := by
  simp [srcExn, h.out]
@[simp] theorem srcExn_false (c : Cfg) : srcExn c false = none := by simp [srcExn]

theorem srcDisposeP_eq {α} (c : Cfg) [h : NoSrcFault c] (s : St α) :
    srcDisposeP c s = ({ s with log := s.log ++ [.srcDispose] }, none) := by
  simp [srcDisposeP, h.out]

theorem uDispose_eq {α} (c : Cfg) [NoSrcFault c] (s : St α) :
    uDispose c s = ({ s with u := uDisp s.u, log := s.log ++ srcIf (!s.u.sad && s.u.cur) }, none) := by
  rw [uDispose_gen, srcExn_nofault]

theorem uSubDispose_eq {α} (c : Cfg) [NoSrcFault c] (s : St α) :
    uSubDispose c s = ({ s with u := uSubDisp s.u, log := s.log ++ srcIf (!s.u.subDisposed && !s.u.sad && s.u.cur) }, none) := by
  rw [uSubDispose_gen, srcExn_nofault]

def resIf {α} (c : Cfg) : List (Eff α) := if c.hasRes then [.resDispose] else []

theorem rDispose_using {α} (c : Cfg) [NoSrcFault c] (hc : c.oper = .using) (s : St α) :
    rDispose c s = if s.o.rDisposed then (s, none) else
      ({ s with o.rDisposed := true, u := uSubDisp s.u,
                log := s.log ++ srcIf (!s.u.subDisposed && !s.u.sad && s.u.cur) ++ resIf c }, none) := by
  simp only [rDispose, hc, seq, uSubDispose_eq, resDisposeP, logE, resIf]
  split
  · rfl
  · split <;> simp

/-- invariant of `using` at event boundaries once `subscribe` has returned a handle -/
structure UsingInv {α} (c : Cfg) (s : St α) (b : Bool) : Prop where
  cnt : resCount s.log = (s.o.rDisposed && c.hasRes).toNat
  sad : s.d.sad = s.o.rDisposed
  cur : s.d.cur = !s.d.sad
  dst : s.d.stopped = s.d.sad
  ust : s.u.stopped = true → s.d.sad = true
  trg : s.d.sad = (hasTerm s.log || s.d.retDisposed)
  hdl : s.d.handle = true
  ret : s.d.retDisposed = b
  lv : s.u.live = true ∨ s.d.sad = true
  sad2 : s.d.sad = true → s.u.sad = true              -- `R` disposed ⇒ `U` disposed
  nsub : s.d.sad = false → s.u.subDisposed = false

theorem resCount_resIf {α} (c : Cfg) [NoSrcFault c] : resCount (resIf c : List (Eff α)) = (c.hasRes).toNat := by
  simp only [resIf]; split <;> simp_all [Eff.isResDispose]
@[simp] theorem hasTerm_resIf {α} (c : Cfg) [NoSrcFault c] : hasTerm (resIf c : List (Eff α)) = false := by
  simp only [resIf]; split <;> simp

theorem using_dispose_inv {α} (c : Cfg) [NoSrcFault c] (hc : c.oper = .using) (s : St α) (b : Bool)
    (h : UsingInv c s b) : UsingInv c (step c s .dispose) true := by
  obtain ⟨cnt, sad, cur, dst, ust, trg, hdl, ret, lv, sad2, nsub⟩ := h
  cases hrd : s.d.retDisposed
  · cases hsad : s.d.sad <;>
    (rw [hsad] at cur dst sad
     simp [step, swallow, handleDispose, dDispose, rDispose_using c hc, hdl, hrd, hsad, cur, ← sad]
     constructor <;> simp_all [resCount_resIf])
  · simp [step, swallow, handleDispose, hrd]; exact ⟨cnt, sad, cur, dst, ust, trg, hdl, hrd, lv, sad2, nsub⟩

theorem using_src_inv {α} (c : Cfg) [NoSrcFault c] (hc : c.oper = .using) (s : St α) (n : Notif α) (b : Bool)
    (h : UsingInv c s b) : UsingInv c (step c s (.src n)) b := by
  obtain ⟨cnt, sad, cur, dst, ust, trg, hdl, ret, lv, sad2, nsub⟩ := h
  cases hl : s.u.live
  · simp [step, hl]; exact ⟨cnt, sad, cur, dst, ust, trg, hdl, ret, lv, sad2, nsub⟩
  cases hus : s.u.stopped
  · cases hds : s.d.stopped <;> cases hr : c.subRaises s.d.cbs <;> cases n <;>
    (have hsad := dst.symm; rw [hds] at hsad; rw [hsad] at cur sad
     simp [step, swallow, uNotify, hNext, hTerminal, hError, hCompleted, dNext, dTerminal, userCb, tryFinally, hc,
      dDispose, rDispose_using c hc, uDispose_eq, hus, hds, hr, hsad, cur, hl, ← sad]
     constructor <;> simp_all [Notif.isTerminal, Eff.isResDispose, uDisp, resCount_resIf])
  · simp [step, swallow, uNotify, hus, hl]; exact ⟨cnt, sad, cur, dst, ust, trg, hdl, ret, lv, sad2, nsub⟩

/-- operators that hand `D`'s own methods to the source (`source.subscribe(observer)` or
`observer.on_next, observer.on_error, observer.on_completed`) -/
def Direct (c : Cfg) : Prop :=
  c.oper = .using ∨ c.oper = .finallyAction ∨ c.oper = .doOnDispose ∨
  (c.oper = .doAction ∧ c.hasNext = false ∧ c.hasError = false ∧ c.hasCompleted = false)   -- `Cfg.ident`

/-- invariant of the `Direct` operators while the source's `subscribe` body runs (`R` does not exist yet) -/
structure UsingSync {α} (s : St α) : Prop where
  cur : s.d.cur = false
  rd : s.o.rDisposed = false
  cnt : resCount s.log = 0 ∧ actCount .fin s.log = 0 ∧ actCount .dispose s.log = 0
  dst : s.d.stopped = s.d.sad
  trg : s.d.sad = hasTerm s.log
  ust : s.u.stopped = true → s.d.stopped = true
  ret : s.d.retDisposed = false
  hdl : s.d.handle = false
  live : s.u.live = false
  ucur : s.u.cur = false                              -- the source's subscription has not been handed to `U` yet
  usd : s.u.sad = true → s.u.stopped = true
  nsub : s.u.subDisposed = false                      -- `Disposable(U.dispose)` does not exist / is untouched

theorem using_sync_notify {α} (c : Cfg) (hd : Direct c) (s : St α) (n : Notif α)
    (h : UsingSync s) : UsingSync (uNotify c n s).1 := by
  obtain ⟨cur, rd, cnt, dst, trg, ust, ret, hdl, live, ucur, usd, nsub⟩ := h
  cases hus : s.u.stopped
  · rcases hd with hc | hc | hc | ⟨hc, hn1, hn2, hn3⟩ <;>
    cases hds : s.d.stopped <;> cases hr : c.subRaises s.d.cbs <;> cases n <;>
    (have hsad := dst.symm; rw [hds] at hsad
     simp [uNotify, hNext, hTerminal, hError, hCompleted, dNext, dTerminal, userCb, tryFinally, hc, *,
      dDispose, uDispose_gen, hus, hds, hr, hsad, cur, ucur]
     constructor <;> simp_all [uDisp])
  · simp [uNotify, hus]; exact ⟨cur, rd, cnt, dst, trg, ust, ret, hdl, live, ucur, usd, nsub⟩

theorem usingSync_escape {α} (s : St α) (e : Err) (h : UsingSync s) :
    UsingSync { s with log := s.log ++ [.escape e] } := by
  obtain ⟨cur, rd, cnt, dst, trg, ust, ret, hdl, live, ucur, usd, nsub⟩ := h
  constructor <;> simp_all [Eff.isResDispose]

theorem using_sync_emit {α} (c : Cfg) (hc : Direct c) (prop : Bool) (ns : List (Notif α)) (s : St α)
    (h : UsingSync s) : UsingSync (emitSync c prop ns s).1 := by
  induction ns generalizing s with
  | nil => simpa [emitSync] using h
  | cons n ns ih =>
    have h1 := using_sync_notify c hc s n h
    simp only [emitSync]
    rcases hn : uNotify c n s with ⟨s', _ | e⟩
    · rw [hn] at h1; exact ih _ h1
    · rw [hn] at h1
      cases prop
      · exact ih _ (usingSync_escape _ e h1)
      · simpa using h1

/-- a terminal delivered to `D` during the subscribe phase, or `D` already stopped: in either case `D` is stopped afterwards -/
theorem using_sync_hError {α} (c : Cfg) (hd : Direct c) (s : St α) (e : Err)
    (h : UsingSync s) : UsingSync (hError c e { s with u.stopped := true }).1 ∧
      (hError c e { s with u.stopped := true }).1.d.stopped = true := by
  obtain ⟨cur, rd, cnt, dst, trg, ust, ret, hdl, live, ucur, usd, nsub⟩ := h
  rcases hd with hc | hc | hc | ⟨hc, hn1, hn2, hn3⟩ <;>
  cases hds : s.d.stopped <;> cases hr : c.subRaises s.d.cbs <;>
    (have hsad := dst.symm; rw [hds] at hsad
     simp [hError, dTerminal, userCb, tryFinally, hc, *, dDispose, hds, hr, hsad, cur]
     try constructor <;> simp_all)

/-- what `using`'s own `subscribe` leaves: no `R` yet, and if it raised then `D` is already stopped -/
structure UsingSub {α} (r : St α × Option Err) : Prop where
  cur : r.1.d.cur = false
  rd : r.1.o.rDisposed = false
  cnt : resCount r.1.log = 0 ∧ actCount .fin r.1.log = 0 ∧ actCount .dispose r.1.log = 0
  dst : r.1.d.stopped = r.1.d.sad
  trg : r.1.d.sad = hasTerm r.1.log
  ust : r.1.u.stopped = true → r.1.d.stopped = true
  ret : r.1.d.retDisposed = false
  hdl : r.1.d.handle = false
  exn : ∀ e, r.2 = some e → r.1.d.stopped = true ∧ (r.1.u.live = false ∨ r.1.u.stopped = true)
  nrm : r.2 = none → r.1.u.live = true ∨ r.1.d.stopped = true
  nsub : r.1.u.subDisposed = false
  usd : r.1.u.sad = true → r.1.u.stopped = true
  exl : ∀ e, r.2 = some e → r.1.u.live = false ∨ r.1.u.sad = true

theorem using_srcSubscribe {α} (c : Cfg) (hc : Direct c) (sp : SyncPhase α) (s : St α)
    (h : UsingSync s) : UsingSub (srcSubscribe c sp s) := by
  have h1 := using_sync_emit c hc sp.propagate sp.emits s h
  simp only [srcSubscribe]
  have body : ∀ (e : Err) (s1 : St α), UsingSync s1 →
      UsingSub (if s1.u.stopped = true then (s1, some e) else hError c e { s1 with u.stopped := true }) := by
    intro e s1 h1
    split
    · rename_i hst
      obtain ⟨cur, rd, cnt, dst, trg, ust, ret, hdl, live, ucur, usd, nsub⟩ := h1
      exact ⟨cur, rd, cnt, dst, trg, ust, ret, hdl, fun _ _ => ⟨ust hst, Or.inl live⟩, fun _ => Or.inr (ust hst), nsub, usd, fun _ _ => Or.inl live⟩
    · obtain ⟨⟨cur, rd, cnt, dst, trg, ust, ret, hdl, live, ucur, usd, nsub⟩, hst⟩ := using_sync_hError c hc s1 e h1
      exact ⟨cur, rd, cnt, dst, trg, ust, ret, hdl, fun _ _ => ⟨hst, Or.inl live⟩, fun _ => Or.inr hst, nsub, usd, fun _ _ => Or.inl live⟩
  rcases he : emitSync c sp.propagate sp.emits s with ⟨s1, _ | e⟩
  · rw [he] at h1
    simp only
    cases hx : sp.exn with
    | some e => simpa using body e s1 h1
    | none =>
      obtain ⟨cur, rd, cnt, dst, trg, ust, ret, hdl, live, ucur, usd, nsub⟩ := h1
      simp only
      cases hf : c.srcDisposeRaises <;> split <;> constructor <;> simp_all [srcDisposeP, Eff.isResDispose]
  · rw [he] at h1; simpa using body e s1 h1

theorem usingSync_act {α} (s : St α) (k : ActK) (r : Bool) (h : UsingSync s)
    (hk : k = .resf ∨ k = .obsf) :
    UsingSync { s with log := s.log ++ [.act k none r] } := by
  rcases hk with rfl | rfl
  all_goals
  obtain ⟨cur, rd, cnt, dst, trg, ust, ret, hdl, live, ucur, usd, nsub⟩ := h
  constructor <;> simp_all [Eff.isResDispose]

theorem usingSync_init {α} : UsingSync ({} : St α) := by constructor <;> simp

theorem using_opSubscribe {α} (c : Cfg) [NoSrcFault c] (hc : c.oper = .using) (sp : SyncPhase α) :
    UsingSub (opSubscribe c sp ({} : St α)) := by
  have a1 := fun r => usingSync_act ({} : St α) .resf r usingSync_init (Or.inl rfl)
  have hd : Direct c := Or.inl hc
  simp only [opSubscribe, hc]
  cases c.resf <;> simp only [seq, logE]
  · cases c.obsfRaises <;> exact using_srcSubscribe c hd _ _ (usingSync_act _ .obsf _ (a1 _) (Or.inr rfl))
  · cases c.obsfRaises <;> exact using_srcSubscribe c hd _ _ (usingSync_act _ .obsf _ (a1 _) (Or.inr rfl))
  · exact using_srcSubscribe c hd _ _ (a1 _)

/-- the subscriber holds no handle and the source is not connected: nothing can happen any more -/
structure Frozen {α} (s : St α) : Prop where
  hdl : s.d.handle = false
  dead : s.u.live = false ∨ s.u.stopped = true

theorem frozen_step {α} (c : Cfg) (s : St α) (e : Ev α) (h : Frozen s) : step c s e = s := by
  cases e with
  | dispose => simp [step, swallow, handleDispose, h.hdl]
  | src n =>
    rcases h.dead with hl | hs
    · simp [step, hl]
    · cases hl : s.u.live <;> simp [step, swallow, uNotify, hs, hl]

theorem frozen_run {α} (c : Cfg) (s : St α) (evs : List (Ev α)) (h : Frozen s) : runFrom c s evs = s := by
  induction evs with
  | nil => rfl
  | cons e es ih => simp [runFrom, frozen_step c s e h, ih]

theorem using_subscribePhase {α} (c : Cfg) [NoSrcFault c] (hc : c.oper = .using) (sp : SyncPhase α) :
    UsingInv c (subscribePhase c sp : St α) false ∨
    (Frozen (subscribePhase c sp : St α) ∧ resCount (subscribePhase c sp : St α).log = 0) := by
  have h := using_opSubscribe (α := α) c hc sp
  simp only [subscribePhase, outerSubscribe]
  rcases ho : opSubscribe c sp ({} : St α) with ⟨s1, _ | e⟩
  · rw [ho] at h
    obtain ⟨cur, rd, cnt, dst, trg, ust, ret, hdl, exn, nrm, nsub, usd, exl⟩ := h
    simp only at cur rd cnt dst trg ust ret hdl
    left
    cases hsad : s1.d.sad
    · simp only [hsad]
      constructor <;> simp_all
    · simp only [hsad, rDispose_using c hc, rd]
      constructor <;> simp_all [resCount_resIf]
  · rw [ho] at h
    obtain ⟨cur, rd, cnt, dst, trg, ust, ret, hdl, exn, nrm, nsub, usd, exl⟩ := h
    obtain ⟨hst, hlive⟩ := exn e rfl
    simp only at cur rd cnt dst trg ust ret hdl hst hlive
    right
    simp only [hst]
    exact ⟨by constructor <;> simp_all, by simp_all [Eff.isResDispose]⟩


theorem using_run_inv {α} (c : Cfg) [NoSrcFault c] (hc : c.oper = .using) (evs : List (Ev α)) (s : St α) (b : Bool)
    (h : UsingInv c s b) : UsingInv c (runFrom c s evs) (b || hasDispose evs) := by
  induction evs generalizing s b with
  | nil => simpa [runFrom, hasDispose] using h
  | cons e es ih =>
    cases e with
    | src n =>
      have := ih _ _ (using_src_inv c hc s n b h)
      simpa [runFrom, hasDispose] using this
    | dispose =>
      have := ih _ _ (using_dispose_inv c hc s b h)
      simpa [runFrom, hasDispose] using this


theorem using_step_sad {α} (c : Cfg) [NoSrcFault c] (hc : c.oper = .using) (s : St α) (e : Ev α) (b : Bool)
    (h : UsingInv c s b)
    (ht : s.d.sad = true ∨ (match e with | .src n => n.isTerminal | .dispose => true) = true) :
    (step c s e).d.sad = true := by
  obtain ⟨cnt, sad, cur, dst, ust, trg, hdl, ret, lv, sad2, nsub⟩ := h
  cases hsad : s.d.sad
  · rw [hsad] at cur dst sad
    simp only [hsad, Bool.false_eq_true, false_or] at ht lv
    cases e with
    | dispose =>
      have hrd : s.d.retDisposed = false := by cases hb : s.d.retDisposed <;> simp_all
      simp [step, swallow, handleDispose, dDispose, rDispose_using c hc, hdl, hrd, hsad, cur, ← sad]
    | src n =>
      have hus : s.u.stopped = false := by cases hb : s.u.stopped <;> simp_all
      cases hr : c.subRaises s.d.cbs <;> cases n <;>
        simp_all [step, swallow, uNotify, hTerminal, hError, hCompleted, dTerminal, userCb, tryFinally,
          dDispose, rDispose_using c hc, uDispose_eq, Notif.isTerminal]
  · cases e with
    | dispose =>
      cases hrd : s.d.retDisposed <;>
        simp [step, swallow, handleDispose, dDispose, hdl, hrd, hsad]
    | src n =>
      have hds : s.d.stopped = true := by rw [dst, hsad]
      cases hl : s.u.live
      · simp [step, hl, hsad]
      cases hus : s.u.stopped
      · cases n <;>
          simp [step, swallow, uNotify, hNext, hTerminal, hError, hCompleted, dNext, dTerminal, hc, uDispose_eq,
            tryFinally, hus, hds, hl, hsad]
      · simp [step, swallow, uNotify, hus, hl, hsad]

theorem using_run_sad {α} (c : Cfg) [NoSrcFault c] (hc : c.oper = .using) (evs : List (Ev α)) (s : St α) (b : Bool)
    (h : UsingInv c s b) (ht : s.d.sad = true ∨ hasSrcTerminal evs = true ∨ hasDispose evs = true) :
    (runFrom c s evs).d.sad = true := by
  induction evs generalizing s b with
  | nil => simpa [runFrom, hasSrcTerminal, hasDispose] using ht
  | cons e es ih =>
    simp only [runFrom]
    cases e with
    | src n =>
      refine ih _ _ (using_src_inv c hc s n b h) ?_
      cases hn : n.isTerminal
      · rcases ht with ht | ht | ht
        · exact Or.inl (using_step_sad c hc s _ b h (Or.inl ht))
        · simp [hasSrcTerminal, hn] at ht; exact Or.inr (Or.inl (by simpa [hasSrcTerminal] using ht))
        · simp [hasDispose] at ht; exact Or.inr (Or.inr (by simpa [hasDispose] using ht))
      · exact Or.inl (using_step_sad c hc s _ b h (Or.inr (by simpa using hn)))
    | dispose =>
      exact ih _ _ (using_dispose_inv c hc s b h) (Or.inl (using_step_sad c hc s _ b h (Or.inr rfl)))

/-! ## ordering observation -/


@[simp] theorem isEmit_emit {α} (n : Notif α) (r : Bool) : (Eff.emit n r).isEmit = true := rfl
@[simp] theorem isEmit_act {α} (k : ActK) (a : Option (Notif α)) (r : Bool) : (Eff.act k a r).isEmit = false := rfl
@[simp] theorem isEmit_res {α} : (Eff.resDispose : Eff α).isEmit = false := rfl
@[simp] theorem isEmit_src {α} : (Eff.srcDispose : Eff α).isEmit = false := rfl
@[simp] theorem isEmit_esc {α} (e : Err) : (Eff.escape e : Eff α).isEmit = false := rfl

theorem any_isAct_eq {α} (k : ActK) (l : List (Eff α)) : l.any (Eff.isAct k) = decide (0 < actCount k l) := by
  induction l with
  | nil => simp
  | cons e l ih => cases he : e.isAct k <;> simp [ih, he] <;> omega

theorem noEmitAfterAct_append {α} (k : ActK) (a b : List (Eff α)) :
    noEmitAfterAct k (a ++ b) =
      (noEmitAfterAct k a && noEmitAfterAct k b && (!a.any (Eff.isAct k) || b.all (fun x => !x.isEmit))) := by
  induction a with
  | nil => simp [noEmitAfterAct]
  | cons e a ih =>
    simp only [List.cons_append, noEmitAfterAct, ih, List.all_append, List.any_cons]
    cases he : e.isAct k <;> cases h1 : noEmitAfterAct k a <;> cases h2 : noEmitAfterAct k b <;>
      cases h3 : a.any (Eff.isAct k) <;> cases h4 : b.all (fun x => !x.isEmit) <;>
      cases h5 : a.all (fun x => !x.isEmit) <;> simp_all

theorem any_isAct_of_count_zero {α} (k : ActK) (l : List (Eff α)) (h : actCount k l = 0) :
    l.any (Eff.isAct k) = false := by
  rw [any_isAct_eq, h]; rfl

@[simp] theorem noEmitAfterAct_srcIf {α} (k : ActK) (b : Bool) : noEmitAfterAct k (srcIf b : List (Eff α)) = true := by
  cases b <;> simp [srcIf, noEmitAfterAct]
@[simp] theorem all_notEmit_srcIf {α} (b : Bool) : (srcIf b : List (Eff α)).all (fun x => !x.isEmit) = true := by
  cases b <;> simp [srcIf]
@[simp] theorem any_isAct_srcIf {α} (k : ActK) (b : Bool) : (srcIf b : List (Eff α)).any (Eff.isAct k) = false := by
  cases b <;> simp [srcIf]

theorem noEmitAfterAct_of_count_zero {α} (k : ActK) (l : List (Eff α)) (h : actCount k l = 0) :
    noEmitAfterAct k l = true := by
  induction l with
  | nil => rfl
  | cons e l ih =>
    cases he : e.isAct k <;> simp_all [noEmitAfterAct]

/-! ## finally_action -/

/-! State projections that do not depend on which exceptions fly (for `try … finally` chains): used to cover the
fault "the inner subscription's `dispose()` raises". -/

theorem tryFinally_fst {α} (a b : P α) (s : St α) : (tryFinally a b s).1 = (b (a s).1).1 := by
  simp only [tryFinally]
  rcases a s with ⟨s1, x⟩
  rcases hb : b s1 with ⟨s2, _ | e⟩ <;> rfl

theorem uDispose_fst {α} (c : Cfg) (s : St α) :
    (uDispose c s).1 = { s with u := uDisp s.u, log := s.log ++ srcIf (!s.u.sad && s.u.cur) } := by
  rw [uDispose_gen]

theorem uSubDispose_fst {α} (c : Cfg) (s : St α) :
    (uSubDispose c s).1 = { s with u := uSubDisp s.u, log := s.log ++ srcIf (!s.u.subDisposed && !s.u.sad && s.u.cur) } := by
  rw [uSubDispose_gen]

theorem userCb_fst {α} (c : Cfg) (n : Notif α) (s : St α) :
    (userCb c n s).1 = { s with d.cbs := s.d.cbs + 1, log := s.log ++ [.emit n (c.subRaises s.d.cbs)] } := rfl

theorem action_fst {α} (c : Cfg) (k : ActK) (a : Option (Notif α)) (s : St α) :
    (action c k a s).1 = { s with o.acts := s.o.acts + 1, log := s.log ++ [.act k a (c.actRaises s.o.acts)] } := rfl

/-- the escaping exception is recorded; nothing else changes -/
def esc {α} (x : Option Err) (s : St α) : St α :=
  match x with
  | none => s
  | some e => { s with log := s.log ++ [.escape e] }

theorem swallow_eq {α} (p : P α) (s : St α) : swallow p s = esc (p s).2 (p s).1 := by
  simp only [swallow, esc]
  rcases p s with ⟨s1, _ | e⟩ <;> rfl

/-- `finally_action`'s `Disposable(dispose)`: `try: subscription.dispose() finally: action()` — the state does not
depend on whether the inner dispose raises -/
theorem rDispose_fin_fst {α} (c : Cfg) (hc : c.oper = .finallyAction) (s : St α) :
    (rDispose c s).1 = if s.o.rDisposed then s else
      { s with o.rDisposed := true, o.acts := s.o.acts + 1, u := uSubDisp s.u,
               log := s.log ++ srcIf (!s.u.subDisposed && !s.u.sad && s.u.cur) ++ [.act .fin none (c.actRaises s.o.acts)] } := by
  simp only [rDispose, hc]
  split
  · rfl
  · rw [tryFinally_fst, uSubDispose_fst, action_fst]

/-- closed form without the fault (used by the transparency proof) -/
theorem rDispose_fin {α} (c : Cfg) [NoSrcFault c] (hc : c.oper = .finallyAction) (s : St α) :
    rDispose c s = if s.o.rDisposed then (s, none) else
      ({ s with o.rDisposed := true, o.acts := s.o.acts + 1, u := uSubDisp s.u,
                log := s.log ++ srcIf (!s.u.subDisposed && !s.u.sad && s.u.cur) ++ [.act .fin none (c.actRaises s.o.acts)] },
       if c.actRaises s.o.acts then some (c.actErr s.o.acts) else none) := by
  simp only [rDispose, hc, tryFinally, uSubDispose_eq, action]
  split
  · rfl
  · cases hr : c.actRaises s.o.acts <;> simp

theorem dDispose_fst {α} (c : Cfg) (s : St α) :
    (dDispose c s).1 = if s.d.sad then { s with d.stopped := true }
      else if s.d.cur then (rDispose c { s with d.stopped := true, d.sad := true, d.cur := false }).1
      else { s with d.stopped := true, d.sad := true, d.cur := false } := by
  simp only [dDispose]
  split
  · rfl
  · split <;> rfl

theorem dTerminal_fst {α} (c : Cfg) (n : Notif α) (s : St α) :
    (dTerminal c n s).1 = if s.d.stopped then s else (dDispose c (userCb c n { s with d.stopped := true }).1).1 := by
  simp only [dTerminal]; split
  · rfl
  · rw [tryFinally_fst]

theorem dNext_fst {α} (c : Cfg) (v : α) (s : St α) :
    (dNext c v s).1 = if s.d.stopped then s else (userCb c (.next v) s).1 := by
  simp only [dNext]; split <;> rfl

/-- invariant of `finally_action` at event boundaries once `R` has been handed to `D` -/
structure FinInv {α} (s : St α) (b : Bool) : Prop where
  cnt : actCount .fin s.log = s.o.rDisposed.toNat
  sad : s.d.sad = s.o.rDisposed
  cur : s.d.cur = !s.d.sad
  dst : s.d.stopped = s.d.sad
  ust : s.u.stopped = true → s.d.sad = true
  trg : s.d.sad = (hasTerm s.log || s.d.retDisposed)
  ret : s.d.retDisposed = (b && s.d.handle)
  nh : s.d.handle = false → s.d.sad = true
  ord : noEmitAfterAct .fin s.log = true
  sad2 : s.d.sad = true → s.u.sad = true              -- `R` disposed ⇒ `U` disposed (also when the inner dispose raises)
  nsub : s.d.sad = false → s.u.subDisposed = false

theorem finInv_esc {α} (x : Option Err) (s : St α) (b : Bool) (h : FinInv s b) : FinInv (esc x s) b := by
  cases x with
  | none => exact h
  | some e =>
    obtain ⟨cnt, sad, cur, dst, ust, trg, ret, nh, ord, sad2, nsub⟩ := h
    simp only [esc]
    constructor <;> simp_all [noEmitAfterAct_append, noEmitAfterAct]

theorem fin_dispose_inv {α} (c : Cfg) (hc : c.oper = .finallyAction) (s : St α) (b : Bool)
    (h : FinInv s b) : FinInv (step c s .dispose) true := by
  obtain ⟨cnt, sad, cur, dst, ust, trg, ret, nh, ord, sad2, nsub⟩ := h
  cases hh : s.d.handle
  · simp [step, swallow, handleDispose, hh]
    exact ⟨cnt, sad, cur, dst, ust, trg, by simp_all, nh, ord, sad2, nsub⟩
  cases hrd : s.d.retDisposed
  · simp only [step, swallow_eq]
    apply finInv_esc
    cases hsad : s.d.sad <;>
    (rw [hsad] at cur dst sad
     have ha := any_isAct_of_count_zero .fin s.log
     simp [handleDispose, dDispose_fst, rDispose_fin_fst c hc, hh, hrd, hsad, cur, ← sad]
     constructor <;> simp_all [noEmitAfterAct_append, noEmitAfterAct])
  · simp [step, swallow, handleDispose, hrd, hh]
    exact ⟨cnt, sad, cur, dst, ust, trg, by simp_all, nh, ord, sad2, nsub⟩

theorem fin_src_inv {α} (c : Cfg) (hc : c.oper = .finallyAction) (s : St α) (n : Notif α) (b : Bool)
    (h : FinInv s b) : FinInv (step c s (.src n)) b := by
  obtain ⟨cnt, sad, cur, dst, ust, trg, ret, nh, ord, sad2, nsub⟩ := h
  cases hl : s.u.live
  · simp [step, hl]; exact ⟨cnt, sad, cur, dst, ust, trg, ret, nh, ord, sad2, nsub⟩
  cases hus : s.u.stopped
  · simp only [step, hl, if_true, swallow_eq]
    apply finInv_esc
    cases hds : s.d.stopped <;> cases n <;>
    (have hsad := dst.symm; rw [hds] at hsad; rw [hsad] at cur sad
     have ha := any_isAct_of_count_zero .fin s.log
     simp [uNotify, hNext, hTerminal, hError, hCompleted, dNext_fst, dTerminal_fst, userCb_fst, tryFinally_fst, hc,
      dDispose_fst, rDispose_fin_fst c hc, uDispose_fst, hus, hds, hsad, cur, ← sad]
     constructor <;> simp_all [uDisp, noEmitAfterAct_append, noEmitAfterAct])
  · simp [step, swallow, uNotify, hus, hl]; exact ⟨cnt, sad, cur, dst, ust, trg, ret, nh, ord, sad2, nsub⟩

theorem fin_run_inv {α} (c : Cfg) (hc : c.oper = .finallyAction) (evs : List (Ev α)) (s : St α) (b : Bool)
    (h : FinInv s b) : FinInv (runFrom c s evs) (b || hasDispose evs) := by
  induction evs generalizing s b with
  | nil => simpa [runFrom, hasDispose] using h
  | cons e es ih =>
    cases e with
    | src n =>
      have := ih _ _ (fin_src_inv c hc s n b h)
      simpa [runFrom, hasDispose] using this
    | dispose =>
      have := ih _ _ (fin_dispose_inv c hc s b h)
      simpa [runFrom, hasDispose] using this

/-- `finally_action_`'s own `subscribe` raised (after running the action in its `except`): no handle, and the
source is not connected or `U` is stopped -/
structure FinFrozen {α} (s : St α) : Prop where
  frz : Frozen s
  cnt : actCount .fin s.log = 1
  trm : hasTerm s.log = true
  ord : noEmitAfterAct .fin s.log = true
  rel : s.u.live = false ∨ s.u.sad = true

theorem fin_subscribePhase {α} (c : Cfg) (hc : c.oper = .finallyAction) (sp : SyncPhase α) :
    FinInv (subscribePhase c sp : St α) false ∨ FinFrozen (subscribePhase c sp : St α) := by
  have h := using_srcSubscribe (α := α) c (Or.inr (Or.inl hc)) sp {} usingSync_init
  simp only [subscribePhase, outerSubscribe, opSubscribe, hc]
  rcases ho : srcSubscribe c sp ({} : St α) with ⟨s1, _ | e⟩
  · rw [ho] at h
    obtain ⟨cur, rd, ⟨-, cnt, -⟩, dst, trg, ust, ret, hdl, exn, nrm, nsub, usd, exl⟩ := h
    simp only at cur rd cnt dst trg ust ret hdl nrm
    have ha := any_isAct_of_count_zero .fin s1.log cnt
    have hb := noEmitAfterAct_of_count_zero .fin s1.log cnt
    left
    cases hsad : s1.d.sad
    · simp only [hsad]
      constructor <;> simp_all
    · simp only [hsad, if_true]
      have hfst := rDispose_fin_fst c hc s1
      rcases hr : rDispose c s1 with ⟨s2, _ | e2⟩ <;> rw [hr] at hfst <;> simp only [rd, Bool.false_eq_true, if_false] at hfst <;>
        subst hfst <;> constructor <;> simp_all [noEmitAfterAct_append, noEmitAfterAct]
  · rw [ho] at h
    obtain ⟨cur, rd, ⟨-, cnt, -⟩, dst, trg, ust, ret, hdl, exn, nrm, nsub, usd, exl⟩ := h
    obtain ⟨hst, hlive⟩ := exn e rfl
    have hrel := exl e rfl
    simp only at cur rd cnt dst trg ust ret hdl hst hlive hrel
    have ha := any_isAct_of_count_zero .fin s1.log cnt
    have hb := noEmitAfterAct_of_count_zero .fin s1.log cnt
    right
    cases hra : c.actRaises s1.o.acts <;>
    (simp only [action, hra]
     refine ⟨⟨by simp_all, by simp_all⟩, by simp_all, by simp_all, ?_, by simp_all⟩
     simp_all [noEmitAfterAct_append, noEmitAfterAct])

/-! ## do_finally (fixed handler: flag set before the action; the action may raise) -/

/-- both variants of the guard coincide when the action does not raise (used by the transparency proof) -/
theorem finGuard_eq {α} (c : Cfg) [NoSrcFault c] (hnr : ∀ k, c.actRaises k = false) (s : St α) :
    finGuard c s = if s.o.wasInvoked then (s, none) else
      ({ s with o.acts := s.o.acts + 1, o.wasInvoked := true, log := s.log ++ [.act .fin none false] }, none) := by
  cases h : c.doFinallyAsIs <;> cases hw : s.o.wasInvoked <;>
    simp [finGuard, finGuardAsIs, finGuardFixed, seq, action, hnr, h, hw]

theorem finGuard_fixed {α} (c : Cfg) [NoSrcFault c] (hfx : c.doFinallyAsIs = false) (s : St α) :
    finGuard c s = if s.o.wasInvoked then (s, none) else
      ({ s with o.acts := s.o.acts + 1, o.wasInvoked := true, log := s.log ++ [.act .fin none (c.actRaises s.o.acts)] },
       if c.actRaises s.o.acts then some (c.actErr s.o.acts) else none) := by
  cases hw : s.o.wasInvoked <;> simp [finGuard, hfx, finGuardFixed, action, hw]

/-- used by the transparency proof -/
theorem rDispose_dofin_nr {α} (c : Cfg) [NoSrcFault c] (hc : c.oper = .doFinally) (hnr : ∀ k, c.actRaises k = false) (s : St α) :
    rDispose c s = if s.o.rDisposed then (s, none) else
      if s.o.wasInvoked then
        ({ s with o.rDisposed := true, u := uSubDisp s.u,
                  log := s.log ++ srcIf (!s.u.subDisposed && !s.u.sad && s.u.cur) }, none)
      else
        ({ s with o.rDisposed := true, o.acts := s.o.acts + 1, o.wasInvoked := true, u := uSubDisp s.u,
                  log := s.log ++ [.act .fin none false] ++ srcIf (!s.u.subDisposed && !s.u.sad && s.u.cur) }, none) := by
  simp only [rDispose, hc, seq, finGuard_eq c hnr, uSubDispose_eq]
  cases s.o.rDisposed <;> cases s.o.wasInvoked <;> simp

/-- `CompositeDisposable([OnDispose, subscription]).dispose()`: if the action raises, the loop over the items is
left and the source subscription is *not* disposed by this call. -/
theorem rDispose_dofin {α} (c : Cfg) [NoSrcFault c] (hc : c.oper = .doFinally) (hfx : c.doFinallyAsIs = false) (s : St α) :
    rDispose c s = if s.o.rDisposed then (s, none) else
      if s.o.wasInvoked then
        ({ s with o.rDisposed := true, u := uSubDisp s.u,
                  log := s.log ++ srcIf (!s.u.subDisposed && !s.u.sad && s.u.cur) }, none)
      else if c.actRaises s.o.acts then
        ({ s with o.rDisposed := true, o.acts := s.o.acts + 1, o.wasInvoked := true,
                  log := s.log ++ [.act .fin none true] }, some (c.actErr s.o.acts))
      else
        ({ s with o.rDisposed := true, o.acts := s.o.acts + 1, o.wasInvoked := true, u := uSubDisp s.u,
                  log := s.log ++ [.act .fin none false] ++ srcIf (!s.u.subDisposed && !s.u.sad && s.u.cur) }, none) := by
  simp only [rDispose, hc, seq, finGuard_fixed c hfx, uSubDispose_eq]
  cases s.o.rDisposed <;> cases s.o.wasInvoked <;> cases c.actRaises s.o.acts <;> simp

/-- invariant of `do_finally` while the source's `subscribe` body runs -/
structure DoFinSync {α} (s : St α) : Prop where
  cur : s.d.cur = false
  rd : s.o.rDisposed = false
  cnt : actCount .fin s.log = s.o.wasInvoked.toNat
  wi : s.o.wasInvoked = true → s.d.stopped = true
  dst : s.d.stopped = s.d.sad
  trg : s.d.sad = hasTerm s.log
  ust : s.u.stopped = s.d.stopped
  ret : s.d.retDisposed = false
  hdl : s.d.handle = false
  live : s.u.live = false
  ord : noEmitAfterAct .fin s.log = true

theorem dofin_sync_notify {α} (c : Cfg) [NoSrcFault c] (hc : c.oper = .doFinally) (hfx : c.doFinallyAsIs = false)
    (s : St α) (n : Notif α) (h : DoFinSync s) : DoFinSync (uNotify c n s).1 := by
  obtain ⟨cur, rd, cnt, wi, dst, trg, ust, ret, hdl, live, ord⟩ := h
  cases hus : s.u.stopped
  · have hds : s.d.stopped = false := by rw [← ust, hus]
    have hw : s.o.wasInvoked = false := by cases hw : s.o.wasInvoked <;> simp_all
    have hsad := dst.symm; rw [hds] at hsad
    rw [hw] at cnt
    have ha := any_isAct_of_count_zero .fin s.log cnt
    cases hr : c.subRaises s.d.cbs <;> cases hra : c.actRaises s.o.acts <;> cases n <;>
    (simp [uNotify, hNext, hTerminal, hError, hCompleted, dNext, dTerminal, userCb, tryFinally, tryCatch, seq, hc,
      dDispose, finGuard_fixed c hfx, uDispose_eq, hus, hds, hr, hra, hsad, cur, hw]
     constructor <;> simp_all [uDisp, noEmitAfterAct_append, noEmitAfterAct])
  · simp [uNotify, hus]; exact ⟨cur, rd, cnt, wi, dst, trg, ust, ret, hdl, live, ord⟩

theorem dofinSync_escape {α} (s : St α) (e : Err) (h : DoFinSync s) :
    DoFinSync { s with log := s.log ++ [.escape e] } := by
  obtain ⟨cur, rd, cnt, wi, dst, trg, ust, ret, hdl, live, ord⟩ := h
  constructor <;> simp_all [noEmitAfterAct_append, noEmitAfterAct]

theorem dofin_sync_emit {α} (c : Cfg) [NoSrcFault c] (hc : c.oper = .doFinally) (hfx : c.doFinallyAsIs = false)
    (prop : Bool) (ns : List (Notif α)) (s : St α)
    (h : DoFinSync s) : DoFinSync (emitSync c prop ns s).1 := by
  induction ns generalizing s with
  | nil => simpa [emitSync] using h
  | cons n ns ih =>
    have h1 := dofin_sync_notify c hc hfx s n h
    simp only [emitSync]
    rcases hn : uNotify c n s with ⟨s', _ | e⟩
    · rw [hn] at h1; exact ih _ h1
    · rw [hn] at h1
      cases prop
      · exact ih _ (dofinSync_escape _ e h1)
      · simpa using h1

theorem dofin_sync_hError {α} (c : Cfg) [NoSrcFault c] (hc : c.oper = .doFinally) (hfx : c.doFinallyAsIs = false)
    (s : St α) (e : Err) (h : DoFinSync s) (hus : s.u.stopped = false) :
    DoFinSync (hError c e { s with u.stopped := true }).1 ∧
      (hError c e { s with u.stopped := true }).1.d.stopped = true := by
  obtain ⟨cur, rd, cnt, wi, dst, trg, ust, ret, hdl, live, ord⟩ := h
  have hds : s.d.stopped = false := by rw [← ust, hus]
  have hw : s.o.wasInvoked = false := by cases hw : s.o.wasInvoked <;> simp_all
  have hsad := dst.symm; rw [hds] at hsad
  rw [hw] at cnt
  have ha := any_isAct_of_count_zero .fin s.log cnt
  cases hr : c.subRaises s.d.cbs <;> cases hra : c.actRaises s.o.acts <;>
    (simp [hError, dTerminal, userCb, tryFinally, tryCatch, seq, hc, dDispose, finGuard_fixed c hfx, hds, hr, hra, hsad, cur, hw]
     try constructor <;> simp_all [noEmitAfterAct_append, noEmitAfterAct])

/-- what `do_finally`'s `subscribe` leaves -/
structure DoFinSub {α} (r : St α × Option Err) : Prop where
  cur : r.1.d.cur = false
  rd : r.1.o.rDisposed = false
  cnt : actCount .fin r.1.log = r.1.o.wasInvoked.toNat
  wi : r.1.o.wasInvoked = true → r.1.d.stopped = true
  dst : r.1.d.stopped = r.1.d.sad
  trg : r.1.d.sad = hasTerm r.1.log
  ust : r.1.u.stopped = r.1.d.stopped
  ret : r.1.d.retDisposed = false
  hdl : r.1.d.handle = false
  ord : noEmitAfterAct .fin r.1.log = true
  exn : ∀ e, r.2 = some e → r.1.d.stopped = true ∧ r.1.u.live = false

theorem dofin_srcSubscribe {α} (c : Cfg) [NoSrcFault c] (hc : c.oper = .doFinally) (hfx : c.doFinallyAsIs = false)
    (sp : SyncPhase α) (s : St α) (h : DoFinSync s) : DoFinSub (srcSubscribe c sp s) := by
  have h1 := dofin_sync_emit c hc hfx sp.propagate sp.emits s h
  simp only [srcSubscribe]
  have body : ∀ (e : Err) (s1 : St α), DoFinSync s1 →
      DoFinSub (if s1.u.stopped = true then (s1, some e) else hError c e { s1 with u.stopped := true }) := by
    intro e s1 h1
    split
    · rename_i hst
      obtain ⟨cur, rd, cnt, wi, dst, trg, ust, ret, hdl, live, ord⟩ := h1
      exact ⟨cur, rd, cnt, wi, dst, trg, ust, ret, hdl, ord, fun _ _ => ⟨by rw [← ust]; exact hst, live⟩⟩
    · rename_i hst
      obtain ⟨⟨cur, rd, cnt, wi, dst, trg, ust, ret, hdl, live, ord⟩, hst'⟩ :=
        dofin_sync_hError c hc hfx s1 e h1 (by simpa using hst)
      exact ⟨cur, rd, cnt, wi, dst, trg, ust, ret, hdl, ord, fun _ _ => ⟨hst', live⟩⟩
  rcases he : emitSync c sp.propagate sp.emits s with ⟨s1, _ | e⟩
  · rw [he] at h1
    simp only
    cases hx : sp.exn with
    | some e => simpa using body e s1 h1
    | none =>
      obtain ⟨cur, rd, cnt, wi, dst, trg, ust, ret, hdl, live, ord⟩ := h1
      simp only
      split <;> constructor <;> simp_all [srcDisposeP_eq, noEmitAfterAct_append, noEmitAfterAct]
  · rw [he] at h1; simpa using body e s1 h1

theorem dofinSync_init {α} : DoFinSync ({} : St α) := by constructor <;> simp [noEmitAfterAct]

/-- invariant of `do_finally` at event boundaries once `R` has been handed to `D` (if the action raised while `R`
was disposed at that very moment, `subscribe` raised and there is no handle: `nh`) -/
structure DoFinInv {α} (s : St α) (b : Bool) : Prop where
  cnt : actCount .fin s.log = s.o.wasInvoked.toNat
  wi : s.o.wasInvoked = s.o.rDisposed
  sad : s.d.sad = s.o.rDisposed
  cur : s.d.cur = !s.d.sad
  dst : s.d.stopped = s.d.sad
  ust : s.u.stopped = true → s.d.sad = true
  trg : s.d.sad = (hasTerm s.log || s.d.retDisposed)
  ret : s.d.retDisposed = (b && s.d.handle)
  nh : s.d.handle = false → s.d.sad = true
  ord : noEmitAfterAct .fin s.log = true

theorem dofin_dispose_inv {α} (c : Cfg) [NoSrcFault c] (hc : c.oper = .doFinally) (hfx : c.doFinallyAsIs = false)
    (s : St α) (b : Bool) (h : DoFinInv s b) : DoFinInv (step c s .dispose) true := by
  obtain ⟨cnt, wi, sad, cur, dst, ust, trg, ret, nh, ord⟩ := h
  cases hh : s.d.handle
  · simp [step, swallow, handleDispose, hh]
    exact ⟨cnt, wi, sad, cur, dst, ust, trg, by simp_all, nh, ord⟩
  cases hrd : s.d.retDisposed
  · cases hsad : s.d.sad <;> cases hra : c.actRaises s.o.acts <;>
    (rw [hsad] at cur dst sad; rw [← sad] at wi; rw [wi] at cnt
     have ha := any_isAct_of_count_zero .fin s.log
     simp [step, swallow, handleDispose, dDispose, rDispose_dofin c hc hfx, hh, hrd, hsad, hra, cur, ← sad, wi]
     constructor <;> simp_all [noEmitAfterAct_append, noEmitAfterAct])
  · simp [step, swallow, handleDispose, hrd, hh]
    exact ⟨cnt, wi, sad, cur, dst, ust, trg, by simp_all, nh, ord⟩

theorem dofin_src_inv {α} (c : Cfg) [NoSrcFault c] (hc : c.oper = .doFinally) (hfx : c.doFinallyAsIs = false)
    (s : St α) (n : Notif α) (b : Bool) (h : DoFinInv s b) : DoFinInv (step c s (.src n)) b := by
  obtain ⟨cnt, wi, sad, cur, dst, ust, trg, ret, nh, ord⟩ := h
  cases hl : s.u.live
  · simp [step, hl]; exact ⟨cnt, wi, sad, cur, dst, ust, trg, ret, nh, ord⟩
  cases hus : s.u.stopped
  · cases hds : s.d.stopped <;> cases hr : c.subRaises s.d.cbs <;> cases hra : c.actRaises s.o.acts <;> cases n <;>
    (have hsad := dst.symm; rw [hds] at hsad; rw [hsad] at cur sad; rw [← sad] at wi; rw [wi] at cnt
     have ha := any_isAct_of_count_zero .fin s.log
     simp [step, swallow, uNotify, hNext, hTerminal, hError, hCompleted, dNext, dTerminal, userCb, tryFinally, tryCatch,
      seq, hc, dDispose, rDispose_dofin c hc hfx, finGuard_fixed c hfx, uDispose_eq, hus, hds, hr, hra, hsad, cur, hl, ← sad, wi]
     constructor <;> simp_all [uDisp, noEmitAfterAct_append, noEmitAfterAct])
  · simp [step, swallow, uNotify, hus, hl]; exact ⟨cnt, wi, sad, cur, dst, ust, trg, ret, nh, ord⟩

theorem dofin_run_inv {α} (c : Cfg) [NoSrcFault c] (hc : c.oper = .doFinally) (hfx : c.doFinallyAsIs = false)
    (evs : List (Ev α)) (s : St α) (b : Bool)
    (h : DoFinInv s b) : DoFinInv (runFrom c s evs) (b || hasDispose evs) := by
  induction evs generalizing s b with
  | nil => simpa [runFrom, hasDispose] using h
  | cons e es ih =>
    cases e with
    | src n =>
      have := ih _ _ (dofin_src_inv c hc hfx s n b h)
      simpa [runFrom, hasDispose] using this
    | dispose =>
      have := ih _ _ (dofin_dispose_inv c hc hfx s b h)
      simpa [runFrom, hasDispose] using this

/-- `do_finally`'s `subscribe` raised before returning its `CompositeDisposable`: the `OnDispose` hook is lost -/
structure DoFinFrozen {α} (s : St α) : Prop where
  frz : Frozen s
  cnt : actCount .fin s.log ≤ 1
  ord : noEmitAfterAct .fin s.log = true

theorem dofin_subscribePhase {α} (c : Cfg) [NoSrcFault c] (hc : c.oper = .doFinally) (hfx : c.doFinallyAsIs = false)
    (sp : SyncPhase α) :
    DoFinInv (subscribePhase c sp : St α) false ∨ DoFinFrozen (subscribePhase c sp : St α) := by
  have h := dofin_srcSubscribe (α := α) c hc hfx sp {} dofinSync_init
  simp only [subscribePhase, outerSubscribe, opSubscribe, hc]
  rcases ho : srcSubscribe c sp ({} : St α) with ⟨s1, _ | e⟩
  · rw [ho] at h
    obtain ⟨cur, rd, cnt, wi, dst, trg, ust, ret, hdl, ord, exn⟩ := h
    simp only at cur rd cnt wi dst trg ust ret hdl ord
    left
    cases hsad : s1.d.sad
    · have hw : s1.o.wasInvoked = false := by cases hw : s1.o.wasInvoked <;> simp_all
      simp only [hsad]
      constructor <;> simp_all
    · cases hw : s1.o.wasInvoked <;> cases hra : c.actRaises s1.o.acts <;>
      (rw [hw] at cnt
       have ha := any_isAct_of_count_zero .fin s1.log
       simp only [hsad, rDispose_dofin c hc hfx, rd, hw, hra]
       constructor <;> simp_all [noEmitAfterAct_append, noEmitAfterAct])
  · rw [ho] at h
    obtain ⟨cur, rd, cnt, wi, dst, trg, ust, ret, hdl, ord, exn⟩ := h
    obtain ⟨hst, hlive⟩ := exn e rfl
    simp only at cur rd cnt wi dst trg ust ret hdl ord hst hlive
    right
    simp only [hst]
    refine ⟨⟨by simp_all, by simp_all⟩, ?_, by simp_all [noEmitAfterAct_append, noEmitAfterAct]⟩
    cases hw : s1.o.wasInvoked <;> simp_all

theorem noEmitAfterAct_spec {α} (k : ActK) (l pre post : List (Eff α)) (e : Eff α)
    (h : noEmitAfterAct k l = true) (hl : l = pre ++ e :: post) (he : e.isAct k = true) :
    ∀ x ∈ post, x.isEmit = false := by
  subst hl
  rw [noEmitAfterAct_append] at h
  simp only [noEmitAfterAct, he, Bool.not_true, Bool.false_or, Bool.and_eq_true, List.all_eq_true,
    Bool.not_eq_eq_eq_not, Bool.not_true] at h
  exact h.1.2.1



/-! ## transparency: simulation against the operator-free pipeline -/

@[simp] theorem view_append {α} (a b : List (Eff α)) : view (a ++ b) = view a ++ view b := by simp [view]
@[simp] theorem view_nil {α} : view ([] : List (Eff α)) = [] := rfl
@[simp] theorem view_emit {α} (n : Notif α) (r : Bool) : view [Eff.emit n r] = [Eff.emit n r] := rfl
@[simp] theorem view_act {α} (k : ActK) (a : Option (Notif α)) (r : Bool) : view [Eff.act k a r] = [] := rfl
@[simp] theorem view_res {α} : view [(Eff.resDispose : Eff α)] = [] := rfl
@[simp] theorem view_src {α} : view [(Eff.srcDispose : Eff α)] = [Eff.srcDispose] := rfl
@[simp] theorem view_esc {α} (e : Err) : view [(Eff.escape e : Eff α)] = [Eff.escape e] := rfl
@[simp] theorem view_cons_emit {α} (n : Notif α) (r : Bool) (l) : view (Eff.emit n r :: l) = Eff.emit n r :: view l := rfl
@[simp] theorem view_cons_act {α} (k : ActK) (a : Option (Notif α)) (r : Bool) (l) : view (Eff.act k a r :: l) = view l := rfl
@[simp] theorem view_cons_res {α} (l) : view ((Eff.resDispose : Eff α) :: l) = view l := rfl
@[simp] theorem view_cons_src {α} (l) : view ((Eff.srcDispose : Eff α) :: l) = Eff.srcDispose :: view l := rfl
@[simp] theorem view_cons_esc {α} (e : Err) (l) : view ((Eff.escape e : Eff α) :: l) = Eff.escape e :: view l := rfl
@[simp] theorem view_srcIf {α} (b : Bool) : view (srcIf b : List (Eff α)) = srcIf b := by cases b <;> rfl

/-- operators whose returned disposable has its own `is_disposed` flag -/
def Cfg.guarded (c : Cfg) : Bool :=
  match c.oper with
  | .using | .finallyAction | .doFinally | .doOnDispose => true
  | _ => false

structure Rel {α} (c : Cfg) (s t : St α) : Prop where
  d : s.d = t.d
  u : s.u = t.u
  v : view s.log = view t.log
  o : s.o.rDisposed = (c.guarded && s.u.subDisposed)

def Sim {α} (c : Cfg) (p q : P α) : Prop :=
  ∀ s t, Rel c s t → Rel c (p s).1 (q t).1 ∧ (p s).2 = (q t).2

/-- a step of the operator pipeline that the reference pipeline does not make (a non-raising callback) -/
def SimL {α} (c : Cfg) (p : P α) : Prop :=
  ∀ s t, Rel c s t → Rel c (p s).1 t ∧ (p s).2 = none

theorem sim_seq {α} {c : Cfg} {a b a' b' : P α} (ha : Sim c a a') (hb : Sim c b b') : Sim c (seq a b) (seq a' b') := by
  intro s t h
  obtain ⟨h1, h2⟩ := ha s t h
  simp only [seq]
  rcases hx : a s with ⟨s1, _ | e⟩ <;> rcases hy : a' t with ⟨t1, _ | e'⟩ <;> simp_all
  exact hb _ _ h1

theorem sim_tryFinally {α} {c : Cfg} {a b a' b' : P α} (ha : Sim c a a') (hb : Sim c b b') :
    Sim c (tryFinally a b) (tryFinally a' b') := by
  intro s t h
  obtain ⟨h1, h2⟩ := ha s t h
  simp only [tryFinally]
  rcases hx : a s with ⟨s1, x⟩
  rcases hy : a' t with ⟨t1, y⟩
  rw [hx, hy] at h1 h2
  simp only at h1 h2
  subst h2
  obtain ⟨h3, h4⟩ := hb _ _ h1
  rcases hx2 : b s1 with ⟨s2, _ | e⟩ <;> rcases hy2 : b' t1 with ⟨t2, _ | e'⟩ <;> simp_all

theorem sim_tryCatch {α} {c : Cfg} {a a' : P α} {h h' : Err → P α} (ha : Sim c a a') (hh : ∀ e, Sim c (h e) (h' e)) :
    Sim c (tryCatch a h) (tryCatch a' h') := by
  intro s t hr
  obtain ⟨h1, h2⟩ := ha s t hr
  simp only [tryCatch]
  rcases hx : a s with ⟨s1, _ | e⟩ <;> rcases hy : a' t with ⟨t1, _ | e'⟩ <;> simp_all
  exact hh _ _ _ h1

theorem sim_seqL_left {α} {c : Cfg} {p a a' : P α} (hp : SimL c p) (ha : Sim c a a') : Sim c (seq p a) a' := by
  intro s t h
  obtain ⟨h1, h2⟩ := hp s t h
  simp only [seq]
  rcases hx : p s with ⟨s1, _ | e⟩ <;> simp_all
  exact ha _ _ h1

theorem sim_seqL_right {α} {c : Cfg} {p a a' : P α} (ha : Sim c a a') (hp : SimL c p) : Sim c (seq a p) a' := by
  intro s t h
  obtain ⟨h1, h2⟩ := ha s t h
  simp only [seq]
  rcases hx : a s with ⟨s1, _ | e⟩ <;> rcases hy : a' t with ⟨t1, _ | e'⟩ <;> simp_all
  obtain ⟨h3, h4⟩ := hp _ _ h1
  rcases hz : p s1 with ⟨s2, _ | e⟩ <;> simp_all

theorem simL_tryCatch {α} {c : Cfg} {p : P α} {h : Err → P α} (hp : SimL c p) : SimL c (tryCatch p h) := by
  intro s t hr
  obtain ⟨h1, h2⟩ := hp s t hr
  simp only [tryCatch]
  rcases hx : p s with ⟨s1, _ | e⟩ <;> simp_all


theorem simL_action {α} (c : Cfg) [NoSrcFault c] (hnr : ∀ k, c.actRaises k = false) (k : ActK) (a : Option (Notif α)) :
    SimL c (action c k a) := by
  intro s t ⟨hd, hu, hv, ho⟩
  simp only [action, hnr]
  exact ⟨⟨hd, hu, by simpa using hv, ho⟩, by simp⟩

theorem simL_finGuard {α} (c : Cfg) [NoSrcFault c] (hnr : ∀ k, c.actRaises k = false) : SimL (α := α) c (finGuard c) := by
  intro s t ⟨hd, hu, hv, ho⟩
  rw [finGuard_eq c hnr]
  split
  · exact ⟨⟨hd, hu, hv, ho⟩, rfl⟩
  · exact ⟨⟨hd, hu, by simpa using hv, ho⟩, rfl⟩

theorem sim_userCb {α} (c : Cfg) [NoSrcFault c] (n : Notif α) : Sim c (userCb c n) (userCb c.ident n) := by
  intro s t ⟨hd, hu, hv, ho⟩
  simp only [userCb, Cfg.ident, hd]
  exact ⟨⟨by simp, hu, by simp [hv], ho⟩, rfl⟩

theorem rDispose_ident {α} (c : Cfg) [NoSrcFault c] (s : St α) : rDispose c.ident s = uSubDispose c.ident s := by
  simp [rDispose, Cfg.ident]

theorem sim_uDispose {α} (c : Cfg) [NoSrcFault c] : Sim (α := α) c (uDispose c) (uDispose c.ident) := by
  intro s t ⟨hd, hu, hv, ho⟩
  rw [uDispose_eq, uDispose_eq, hu]
  refine ⟨⟨hd, rfl, by simp [hv], ?_⟩, rfl⟩
  simp only [uDisp]; rw [ho, hu]

theorem sim_rDispose_using {α} (c : Cfg) [NoSrcFault c] (hop : c.oper = .using) :
    Sim (α := α) c (rDispose c) (rDispose c.ident) := by
  intro s t ⟨hd, hu, hv, ho⟩
  rw [rDispose_ident, uSubDispose_eq, rDispose_using c hop]
  simp only [Cfg.guarded, hop, Bool.true_and] at ho
  rw [← hu]
  cases hsd : s.u.subDisposed <;> rw [hsd] at ho <;> simp only [ho]
  · refine ⟨⟨hd, rfl, ?_, ?_⟩, rfl⟩
    · simp [hv, resIf]; split <;> simp
    · simp [Cfg.guarded, hop, uSubDisp, hsd, uDisp]
  · refine ⟨⟨hd, ?_, ?_, ?_⟩, rfl⟩ <;> simp_all [uSubDisp, srcIf, Cfg.guarded]

theorem sim_rDispose_fin {α} (c : Cfg) [NoSrcFault c] (hop : c.oper = .finallyAction) (hnr : ∀ k, c.actRaises k = false) :
    Sim (α := α) c (rDispose c) (rDispose c.ident) := by
  intro s t ⟨hd, hu, hv, ho⟩
  rw [rDispose_ident, uSubDispose_eq, rDispose_fin c hop]
  simp only [Cfg.guarded, hop, Bool.true_and] at ho
  rw [← hu]
  cases hsd : s.u.subDisposed <;> rw [hsd] at ho <;> simp only [ho, hnr]
  · refine ⟨⟨hd, rfl, ?_, ?_⟩, by simp⟩
    · simp [hv]
    · simp [Cfg.guarded, hop, uSubDisp, hsd, uDisp]
  · refine ⟨⟨hd, ?_, ?_, ?_⟩, by simp⟩ <;> simp_all [uSubDisp, srcIf, Cfg.guarded]

theorem sim_rDispose_dofin {α} (c : Cfg) [NoSrcFault c] (hop : c.oper = .doFinally) (hnr : ∀ k, c.actRaises k = false) :
    Sim (α := α) c (rDispose c) (rDispose c.ident) := by
  intro s t ⟨hd, hu, hv, ho⟩
  rw [rDispose_ident, uSubDispose_eq, rDispose_dofin_nr c hop hnr]
  simp only [Cfg.guarded, hop, Bool.true_and] at ho
  rw [← hu]
  cases hsd : s.u.subDisposed <;> rw [hsd] at ho <;> simp only [ho]
  · cases hw : s.o.wasInvoked <;>
    (refine ⟨⟨hd, rfl, ?_, ?_⟩, by simp⟩
     · simp [hv]
     · simp [Cfg.guarded, hop, uSubDisp, hsd, uDisp])
  · refine ⟨⟨hd, ?_, ?_, ?_⟩, by simp⟩ <;> simp_all [uSubDisp, srcIf, Cfg.guarded]

theorem rDispose_ondispose {α} (c : Cfg) [NoSrcFault c] (hc : c.oper = .doOnDispose) (hnr : ∀ k, c.actRaises k = false) (s : St α) :
    rDispose c s = if s.o.rDisposed then (s, none) else
      ({ s with o.rDisposed := true, o.acts := s.o.acts + 1, u := uSubDisp s.u,
                log := s.log ++ [.act .dispose none false] ++ srcIf (!s.u.subDisposed && !s.u.sad && s.u.cur) }, none) := by
  simp only [rDispose, hc, seq, action, hnr, uSubDispose_eq]
  split <;> simp

theorem sim_rDispose_ondispose {α} (c : Cfg) [NoSrcFault c] (hop : c.oper = .doOnDispose) (hnr : ∀ k, c.actRaises k = false) :
    Sim (α := α) c (rDispose c) (rDispose c.ident) := by
  intro s t ⟨hd, hu, hv, ho⟩
  rw [rDispose_ident, uSubDispose_eq, rDispose_ondispose c hop hnr]
  simp only [Cfg.guarded, hop, Bool.true_and] at ho
  rw [← hu]
  cases hsd : s.u.subDisposed <;> rw [hsd] at ho <;> simp only [ho]
  · refine ⟨⟨hd, rfl, ?_, ?_⟩, by simp⟩
    · simp [hv]
    · simp [Cfg.guarded, hop, uSubDisp, hsd, uDisp]
  · refine ⟨⟨hd, ?_, ?_, ?_⟩, by simp⟩ <;> simp_all [uSubDisp, srcIf, Cfg.guarded]

theorem sim_rDispose_plain {α} (c : Cfg) [NoSrcFault c] (hg : c.guarded = false) :
    Sim (α := α) c (rDispose c) (rDispose c.ident) := by
  intro s t ⟨hd, hu, hv, ho⟩
  have : rDispose c s = uSubDispose c s := by
    cases hop : c.oper <;> simp_all [rDispose, Cfg.guarded]
  rw [rDispose_ident, this, uSubDispose_eq, uSubDispose_eq, ← hu]
  simp only [hg, Bool.false_and] at ho
  exact ⟨⟨hd, rfl, by simp [hv], by simp [hg, ho]⟩, rfl⟩

theorem sim_rDispose {α} (c : Cfg) [NoSrcFault c] (hnr : ∀ k, c.actRaises k = false) :
    Sim (α := α) c (rDispose c) (rDispose c.ident) := by
  cases hop : c.oper
  · exact sim_rDispose_using c hop
  · exact sim_rDispose_fin c hop hnr
  · exact sim_rDispose_dofin c hop hnr
  all_goals first
    | exact sim_rDispose_ondispose c hop hnr
    | exact sim_rDispose_plain c (by simp [Cfg.guarded, hop])

theorem rel_updD {α} {c : Cfg} {s t : St α} (h : Rel c s t) (f : DSt → DSt) :
    Rel c { s with d := f s.d } { t with d := f t.d } := by
  obtain ⟨hd, hu, hv, ho⟩ := h
  exact ⟨by simp [hd], hu, hv, ho⟩

theorem rel_updU {α} {c : Cfg} {s t : St α} (h : Rel c s t) (f : USt → USt)
    (hf : ∀ u, (f u).subDisposed = u.subDisposed) :
    Rel c { s with u := f s.u } { t with u := f t.u } := by
  obtain ⟨hd, hu, hv, ho⟩ := h
  exact ⟨hd, by simp [hu], hv, by simp [hf, ho]⟩

theorem rel_log {α} {c : Cfg} {s t : St α} (h : Rel c s t) (e : Eff α) :
    Rel c { s with log := s.log ++ [e] } { t with log := t.log ++ [e] } := by
  obtain ⟨hd, hu, hv, ho⟩ := h
  exact ⟨hd, hu, by simp [hv], ho⟩

theorem sim_dDispose {α} (c : Cfg) [NoSrcFault c] (hnr : ∀ k, c.actRaises k = false) :
    Sim (α := α) c (dDispose c) (dDispose c.ident) := by
  intro s t h
  have hd := h.d
  simp only [dDispose, hd]
  cases hsad : t.d.sad
  · cases hcur : t.d.cur
    · exact ⟨by simpa [hd] using rel_updD h (fun d => { d with stopped := true, sad := true, cur := false }), rfl⟩
    · have := sim_rDispose c hnr _ _ (rel_updD h (fun d => { d with stopped := true, sad := true, cur := false }))
      simpa [hd] using this
  · exact ⟨by simpa [hd, hsad] using rel_updD h (fun d => { d with stopped := true }), rfl⟩

theorem sim_dNext {α} (c : Cfg) [NoSrcFault c] (v : α) : Sim c (dNext c v) (dNext c.ident v) := by
  intro s t h
  have hd := h.d
  simp only [dNext, hd]
  cases t.d.stopped
  · simpa using sim_userCb c (.next v) s t h
  · exact ⟨h, rfl⟩

theorem sim_dTerminal {α} (c : Cfg) [NoSrcFault c] (hnr : ∀ k, c.actRaises k = false) (n : Notif α) :
    Sim c (dTerminal c n) (dTerminal c.ident n) := by
  intro s t h
  have hd := h.d
  simp only [dTerminal, hd]
  cases t.d.stopped
  · have := sim_tryFinally (sim_userCb c n) (sim_dDispose c hnr) _ _ (rel_updD h (fun d => { d with stopped := true }))
    simpa [hd] using this
  · exact ⟨h, rfl⟩

theorem dNext_noraise {α} (c : Cfg) [NoSrcFault c] (hsr : ∀ k, c.subRaises k = false) (v : α) (s : St α) : (dNext c v s).2 = none := by
  simp only [dNext, userCb, hsr]; split <;> simp

theorem sim_hNext {α} (c : Cfg) [NoSrcFault c] (hnr : ∀ k, c.actRaises k = false)
    (hsr : c.oper = .doAfterNext → ∀ k, c.subRaises k = false) (v : α) :
    Sim c (hNext c v) (hNext c.ident v) := by
  have hid : hNext c.ident v = dNext c.ident v := by simp [hNext, Cfg.ident]
  rw [hid]
  cases hop : c.oper <;> simp only [hNext, hop]
  case doAction =>
    cases c.hasNext
    · simpa using sim_dNext c v
    · simpa using sim_seqL_left (simL_tryCatch (simL_action c hnr _ _)) (sim_dNext c v)
  case doAfterNext =>
    intro s t h
    obtain ⟨h1, h2⟩ := sim_seqL_right (sim_dNext c v) (simL_action c hnr .afterNext (some (.next v))) s t h
    have h3 : (dNext c.ident v t).2 = none := dNext_noraise c.ident (by simpa [Cfg.ident] using hsr hop) v t
    rw [h3] at h2
    simp only [tryCatch]
    rcases hx : seq (dNext c v) (action c .afterNext (some (.next v))) s with ⟨s1, _ | e⟩
    · rw [hx] at h1; exact ⟨h1, h3.symm⟩
    · rw [hx] at h2; cases h2
  all_goals exact sim_dNext c v

theorem sim_hError {α} (c : Cfg) [NoSrcFault c] (hnr : ∀ k, c.actRaises k = false) (e : Err) :
    Sim (α := α) c (hError c e) (hError c.ident e) := by
  have hid : hError (α := α) c.ident e = dTerminal c.ident (.error e) := by simp [hError, Cfg.ident]
  rw [hid]
  cases hop : c.oper <;> simp only [hError, hop]
  case doAction =>
    cases c.hasError
    · simpa using sim_dTerminal c hnr (.error e)
    · simpa using sim_seqL_left (simL_tryCatch (simL_action c hnr _ _)) (sim_dTerminal c hnr (.error e))
  case doOnTerminate =>
    intro s t h
    have := sim_seqL_left (simL_action c hnr .terminate none) (sim_dTerminal c hnr (.error e)) s t h
    simpa [seq, action, hnr] using this
  case doAfterTerminate =>
    exact sim_seqL_right (sim_dTerminal c hnr _) (simL_tryCatch (simL_action c hnr _ _))
  case doFinally =>
    exact sim_seqL_right (sim_dTerminal c hnr _) (simL_tryCatch (simL_finGuard c hnr))
  all_goals exact sim_dTerminal c hnr _

theorem sim_hCompleted {α} (c : Cfg) [NoSrcFault c] (hnr : ∀ k, c.actRaises k = false) :
    Sim (α := α) c (hCompleted c) (hCompleted c.ident) := by
  have hid : hCompleted (α := α) c.ident = dTerminal c.ident .completed := by simp [hCompleted, Cfg.ident]
  rw [hid]
  cases hop : c.oper <;> simp only [hCompleted, hop]
  case doAction =>
    cases c.hasCompleted
    · simpa using sim_dTerminal c hnr .completed
    · simpa using sim_seqL_left (simL_tryCatch (simL_action c hnr _ _)) (sim_dTerminal c hnr .completed)
  case doOnTerminate =>
    intro s t h
    have := sim_seqL_left (simL_action c hnr .terminate none) (sim_dTerminal c hnr .completed) s t h
    simpa [seq, action, hnr] using this
  case doAfterTerminate =>
    exact sim_seqL_right (sim_dTerminal c hnr _) (simL_tryCatch (simL_action c hnr _ _))
  case doFinally =>
    exact sim_seqL_right (sim_dTerminal c hnr _) (simL_tryCatch (simL_finGuard c hnr))
  all_goals exact sim_dTerminal c hnr _

theorem sim_hTerminal {α} (c : Cfg) [NoSrcFault c] (q : Quiet c) (n : Notif α) : Sim c (hTerminal c n) (hTerminal c.ident n) := by
  cases n with
  | next v => exact sim_hNext c q.nr q.an v
  | error e => exact sim_hError c q.nr e
  | completed => exact sim_hCompleted c q.nr

theorem sim_uNotify {α} (c : Cfg) [NoSrcFault c] (q : Quiet c) (n : Notif α) : Sim c (uNotify c n) (uNotify c.ident n) := by
  intro s t h
  have hu := h.u
  simp only [uNotify, hu]
  cases hst : t.u.stopped
  · cases n with
    | next v => simpa using sim_hNext c q.nr q.an v s t h
    | error e =>
      have := sim_tryFinally (sim_hTerminal c q (.error e)) (sim_uDispose c) _ _
        (rel_updU h (fun u => { u with stopped := true }) (fun _ => rfl))
      simpa [hu] using this
    | completed =>
      have := sim_tryFinally (sim_hTerminal c q (.completed)) (sim_uDispose c) _ _
        (rel_updU h (fun u => { u with stopped := true }) (fun _ => rfl))
      simpa [hu] using this
  · exact ⟨h, rfl⟩

theorem sim_emitSync {α} (c : Cfg) [NoSrcFault c] (q : Quiet c) (prop : Bool) (ns : List (Notif α)) :
    Sim c (emitSync c prop ns) (emitSync c.ident prop ns) := by
  induction ns with
  | nil => intro s t h; exact ⟨h, rfl⟩
  | cons n ns ih =>
    intro s t h
    obtain ⟨h1, h2⟩ := sim_uNotify c q n s t h
    simp only [emitSync]
    rcases hx : uNotify c n s with ⟨s1, _ | e⟩ <;> rcases hy : uNotify c.ident n t with ⟨t1, _ | e'⟩ <;>
      rw [hx, hy] at h1 h2 <;> simp only at h1 h2
    · exact ih _ _ h1
    · cases h2
    · cases h2
    · cases h2
      cases prop
      · exact ih _ _ (rel_log h1 _)
      · exact ⟨h1, rfl⟩

theorem sim_srcSubscribe {α} (c : Cfg) [NoSrcFault c] (q : Quiet c) (sp : SyncPhase α) :
    Sim c (srcSubscribe c sp) (srcSubscribe c.ident sp) := by
  intro s t h
  obtain ⟨h1, h2⟩ := sim_emitSync c q sp.propagate sp.emits s t h
  simp only [srcSubscribe]
  have body : ∀ (e : Err) (s1 t1 : St α), Rel c s1 t1 →
      Rel c (if s1.u.stopped = true then (s1, some e) else hError c e { s1 with u.stopped := true }).1
            (if t1.u.stopped = true then (t1, some e) else hError c.ident e { t1 with u.stopped := true }).1 ∧
      (if s1.u.stopped = true then (s1, some e) else hError c e { s1 with u.stopped := true }).2 =
      (if t1.u.stopped = true then (t1, some e) else hError c.ident e { t1 with u.stopped := true }).2 := by
    intro e s1 t1 h1
    have hu := h1.u
    rw [hu]
    cases t1.u.stopped
    · have := sim_hError c q.nr e _ _ (rel_updU h1 (fun u => { u with stopped := true }) (fun _ => rfl))
      simpa [hu] using this
    · exact ⟨h1, rfl⟩
  rcases hx : emitSync c sp.propagate sp.emits s with ⟨s1, _ | e⟩ <;>
    rcases hy : emitSync c.ident sp.propagate sp.emits t with ⟨t1, _ | e'⟩ <;>
    rw [hx, hy] at h1 h2 <;> simp only at h1 h2
  · cases sp.exn with
    | some e => exact body e s1 t1 h1
    | none =>
      have hu := h1.u
      simp only [hu]
      cases hsad : t1.u.sad
      · exact ⟨by simpa [hu, hsad] using rel_updU h1 (fun u => { u with cur := true, live := true }) (fun _ => rfl), rfl⟩
      · simp only [srcDisposeP_eq]
        exact ⟨by simpa [hu, hsad] using rel_log (rel_updU h1 (fun u => { u with live := true }) (fun _ => rfl)) .srcDispose, rfl⟩
  · cases h2
  · cases h2
  · cases h2; exact body e s1 t1 h1

theorem simL_logAct {α} (c : Cfg) [NoSrcFault c] (k : ActK) (r : Bool) : SimL (α := α) c (logE (.act k none r)) := by
  intro s t ⟨hd, hu, hv, ho⟩
  exact ⟨⟨hd, hu, by simpa [logE] using hv, ho⟩, rfl⟩

theorem sim_opSubscribe {α} (c : Cfg) [NoSrcFault c] (q : Quiet c) (sp : SyncPhase α) :
    Sim c (opSubscribe c sp) (opSubscribe c.ident sp) := by
  have hid : opSubscribe c.ident sp = srcSubscribe c.ident sp := by simp [opSubscribe, Cfg.ident]
  rw [hid]
  cases hop : c.oper <;> simp only [opSubscribe, hop]
  case «using» =>
    obtain ⟨h1, h2⟩ := q.us hop
    cases hr : c.resf
    · simp only [h2]
      exact sim_seqL_left (simL_logAct c _ _) (sim_seqL_left (simL_logAct c _ _) (sim_srcSubscribe c q sp))
    · simp only [h2]
      exact sim_seqL_left (simL_logAct c _ _) (sim_seqL_left (simL_logAct c _ _) (sim_srcSubscribe c q sp))
    · exact absurd hr h1
  case finallyAction =>
    intro s t h
    obtain ⟨h1, h2⟩ := sim_srcSubscribe c q sp s t h
    rcases hx : srcSubscribe c sp s with ⟨s1, _ | e⟩ <;> rcases hy : srcSubscribe c.ident sp t with ⟨t1, _ | e'⟩ <;>
      rw [hx, hy] at h1 h2 <;> simp only at h1 h2
    · simp only [hx]; exact ⟨h1, trivial⟩
    · cases h2
    · cases h2
    · cases h2
      obtain ⟨h3, h4⟩ := simL_action c q.nr .fin none s1 t1 h1
      rcases hz : action c .fin none s1 with ⟨s2, _ | e2⟩ <;> rw [hz] at h3 h4 <;> simp only at h3 h4
      · simp only [hx, hz]; exact ⟨h3, trivial⟩
      · cases h4
  case doOnSubscribe => exact sim_seqL_left (simL_action c q.nr _ _) (sim_srcSubscribe c q sp)
  all_goals exact sim_srcSubscribe c q sp

theorem sim_outerSubscribe {α} (c : Cfg) [NoSrcFault c] (q : Quiet c) (sp : SyncPhase α) :
    Sim c (outerSubscribe c sp) (outerSubscribe c.ident sp) := by
  intro s t h
  obtain ⟨h1, h2⟩ := sim_opSubscribe c q sp s t h
  simp only [outerSubscribe]
  rcases hx : opSubscribe c sp s with ⟨s1, _ | e⟩ <;> rcases hy : opSubscribe c.ident sp t with ⟨t1, _ | e'⟩ <;>
    rw [hx, hy] at h1 h2 <;> simp only at h1 h2
  · have hd := h1.d
    simp only [hd]
    cases hsad : t1.d.sad
    · exact ⟨by simpa [hd, hsad] using rel_updD h1 (fun d => { d with cur := true }), rfl⟩
    · simpa using sim_rDispose c q.nr s1 t1 h1
  · cases h2
  · cases h2
  · cases h2
    have hd := h1.d
    simp only [hd]
    cases hst : t1.d.stopped
    · have := sim_userCb c (.error e) _ _ (rel_updD h1 (fun d => { d with stopped := true }))
      simpa [hd] using this
    · exact ⟨h1, rfl⟩

theorem rel_init {α} (c : Cfg) [NoSrcFault c] : Rel c ({} : St α) ({} : St α) := ⟨rfl, rfl, rfl, by simp⟩

theorem sim_subscribePhase {α} (c : Cfg) [NoSrcFault c] (q : Quiet c) (sp : SyncPhase α) :
    Rel c (subscribePhase c sp : St α) (subscribePhase c.ident sp) := by
  obtain ⟨h1, h2⟩ := sim_outerSubscribe c q sp _ _ (rel_init (α := α) c)
  simp only [subscribePhase]
  rcases hx : outerSubscribe c sp ({} : St α) with ⟨s1, _ | e⟩ <;>
    rcases hy : outerSubscribe c.ident sp ({} : St α) with ⟨t1, _ | e'⟩ <;>
    rw [hx, hy] at h1 h2 <;> simp only at h1 h2
  · exact rel_updD h1 (fun d => { d with handle := true })
  · cases h2
  · cases h2
  · cases h2; exact rel_log h1 _

theorem sim_step {α} (c : Cfg) [NoSrcFault c] (q : Quiet c) (e : Ev α) (s t : St α) (h : Rel c s t) :
    Rel c (step c s e) (step c.ident t e) := by
  have swl : ∀ (p p' : P α), Sim c p p' → ∀ s t, Rel c s t → Rel c (swallow p s) (swallow p' t) := by
    intro p p' hp s t h
    obtain ⟨h1, h2⟩ := hp s t h
    simp only [swallow]
    rcases hx : p s with ⟨s1, _ | e⟩ <;> rcases hy : p' t with ⟨t1, _ | e'⟩ <;>
      rw [hx, hy] at h1 h2 <;> simp only at h1 h2
    · exact h1
    · cases h2
    · cases h2
    · cases h2; exact rel_log h1 _
  cases e with
  | src n =>
    simp only [step, h.u]
    cases t.u.live
    · simpa using h
    · simpa using swl _ _ (sim_uNotify c q n) s t h
  | dispose =>
    simp only [step]
    apply swl _ _ _ s t h
    intro s t h
    have hd := h.d
    simp only [handleDispose, hd]
    cases (!t.d.handle || t.d.retDisposed)
    · have := sim_dDispose c q.nr _ _ (rel_updD h (fun d => { d with retDisposed := true }))
      simpa [hd] using this
    · exact ⟨h, rfl⟩

theorem sim_run {α} (c : Cfg) [NoSrcFault c] (q : Quiet c) (sp : SyncPhase α) (evs : List (Ev α)) :
    Rel c (run c sp evs) (run c.ident sp evs) := by
  simp only [run]
  have h0 := sim_subscribePhase c q sp
  generalize subscribePhase c sp = s at h0
  generalize subscribePhase c.ident sp = t at h0
  induction evs generalizing s t with
  | nil => exact h0
  | cons e es ih => exact ih _ _ (sim_step c q e s t h0)


theorem delivered_view {α} (l : List (Eff α)) : delivered (view l) = delivered l := by
  induction l with
  | nil => rfl
  | cons e l ih => cases e <;> simp_all [delivered, view, List.filter, Eff.common]


set_option linter.unusedSimpArgs false


/-! ## per-callback order for the operators that return the source subscription -/

theorem rDispose_plain {α} (c : Cfg) [NoSrcFault c] (hp : Plain c) (s : St α) : rDispose c s = uSubDispose c s := by
  rcases hp with h | h | h | h | h <;> simp [rDispose, h]

@[simp] theorem filter_isCb_srcIf {α} (b : Bool) : (srcIf b : List (Eff α)).filter Eff.isCb = [] := by
  cases b <;> simp [srcIf, Eff.isCb]
@[simp] theorem filter_isEmit_srcIf {α} (b : Bool) : (srcIf b : List (Eff α)).filter Eff.isEmit = [] := by
  cases b <;> simp [srcIf]

/-- the pipeline is running: nobody is stopped, nothing disposed; `a` = `R` has been handed to `D` -/
structure Live {α} (a : Bool) (s : St α) : Prop where
  us : s.u.stopped = false
  ds : s.d.stopped = false
  sad : s.d.sad = false
  cur : s.d.cur = a
  sub : s.u.subDisposed = false
  usad : s.u.sad = false

/-- both observers are stopped: nothing is delivered and no callback runs any more -/
structure Dead {α} (s : St α) : Prop where
  us : s.u.stopped = true
  ds : s.d.stopped = true

structure Good {α} (c : Cfg) (s : St α) (k : Nat) : Prop where
  shp : cbShape c s.log
  cnt : actCount .subscribe s.log = k
  hd : k = 1 → s.log.head? = some (.act .subscribe none false)

theorem good_append {α} (c : Cfg) [NoSrcFault c] (s s' : St α) (k : Nat) (x : List (Eff α)) (h : Good c s k)
    (hlog : s'.log = s.log ++ x)
    (hx : x.filter Eff.isCb = (x.filter Eff.isEmit).flatMap (expect c)) (hc : actCount .subscribe x = 0) :
    Good c s' k := by
  obtain ⟨shp, cnt, hd⟩ := h
  refine ⟨?_, by simp [hlog, cnt, hc], ?_⟩
  · simp only [cbShape] at shp ⊢
    simp [hlog, shp, hx]
  · intro hk
    have := hd hk
    rw [hlog]
    cases hl : s.log with
    | nil => rw [hl] at this; cases this
    | cons e l => rw [hl] at this; simpa using this

theorem notify_dead {α} (c : Cfg) [NoSrcFault c] (n : Notif α) (s : St α) (h : Dead s) : uNotify c n s = (s, none) := by
  simp [uNotify, h.us]

/-- `(Live a ∨ Dead) ∧ Good` — what every step of a `Plain` operator preserves -/
def Ok {α} (c : Cfg) (a : Bool) (k : Nat) (s : St α) : Prop := (Live a s ∨ Dead s) ∧ Good c s k

macro "plain_step" : tactic => `(tactic|
  (first
    | (refine ⟨Or.inl ⟨by simp_all, by simp_all, by simp_all, by simp_all, by simp_all, by simp_all⟩, ?_⟩)
    | (refine ⟨Or.inr ⟨by simp_all [uDisp], by simp_all⟩, ?_⟩)))

/-- a terminal notification that passed `U`'s `is_stopped` test, up to (not including) `U`'s own `finally: dispose()` -/
def termStep {α} (c : Cfg) (t : Notif α) (s : St α) : St α × Option Err := hTerminal c t { s with u.stopped := true }

theorem next_live {α} (c : Cfg) [NoSrcFault c] (hp : Plain c) (q : Quiet c)
    (a : Bool) (k : Nat) (s : St α) (v : α) (hl : Live a s) (hg : Good c s k) :
    Live a (hNext c v s).1 ∧ Good c (hNext c v s).1 k := by
  obtain ⟨us, ds, sad, cur, sub, usad⟩ := hl
  have hnr := q.nr
  rcases hp with hop | hop | hop | hop | hop
  · cases hr : c.subRaises s.d.cbs <;> cases hh : c.hasNext <;>
    (simp [hNext, dNext, userCb, tryCatch, seq, action, hnr, hop, ds, hr, hh]
     refine ⟨⟨by simp_all, by simp_all, by simp_all, by simp_all, by simp_all, by simp_all⟩,
         good_append c s _ k _ hg rfl (by simp [List.filter, Eff.isCb, Eff.isEmit, expect, hop, hh]) (by simp)⟩)
  · have hsr := q.an hop
    simp [hNext, dNext, userCb, tryCatch, seq, action, hnr, hsr, hop, ds]
    refine ⟨⟨by simp_all, by simp_all, by simp_all, by simp_all, by simp_all, by simp_all⟩,
         good_append c s _ k _ hg rfl (by simp [List.filter, Eff.isCb, Eff.isEmit, expect, hop]) (by simp)⟩
  all_goals
    (cases hr : c.subRaises s.d.cbs <;>
     (simp [hNext, dNext, userCb, hop, ds, hr]
      refine ⟨⟨by simp_all, by simp_all, by simp_all, by simp_all, by simp_all, by simp_all⟩,
         good_append c s _ k _ hg rfl (by simp [List.filter, Eff.isCb, Eff.isEmit, expect, hop]) (by simp)⟩))

theorem term_live {α} (c : Cfg) [NoSrcFault c] (hp : Plain c) (q : Quiet c)
    (a : Bool) (k : Nat) (s : St α) (t : Notif α) (ht : t.isTerminal = true) (hl : Live a s) (hg : Good c s k) :
    Dead (termStep c t s).1 ∧ Good c (termStep c t s).1 k := by
  obtain ⟨us, ds, sad, cur, sub, usad⟩ := hl
  have hnr := q.nr
  have hp' := hp
  cases t with
  | next v => cases ht
  | error e =>
    rcases hp with hop | hop | hop | hop | hop
    · cases a <;> cases hr : c.subRaises s.d.cbs <;> cases hh : c.hasError <;>
      (simp [termStep, hTerminal, hError, dTerminal, dDispose, rDispose_plain c hp', uSubDispose_eq,
         userCb, tryCatch, tryFinally, seq, action, hnr, hop, ds, sad, cur, hr, hh]
       refine ⟨⟨by simp [uDisp, uSubDisp, sub], by simp⟩,
         good_append c s _ k _ hg (by simp; rfl) (by simp [List.filter, Eff.isCb, Eff.isEmit, expect, hop, hh]) (by simp)⟩)
    all_goals
      (cases a <;> cases hr : c.subRaises s.d.cbs <;>
       (simp [termStep, hTerminal, hError, dTerminal, dDispose, rDispose_plain c hp', uSubDispose_eq,
         userCb, tryCatch, tryFinally, seq, action, hnr, hop, ds, sad, cur, hr]
        refine ⟨⟨by simp [uDisp, uSubDisp, sub], by simp⟩,
         good_append c s _ k _ hg (by simp; rfl) (by simp [List.filter, Eff.isCb, Eff.isEmit, expect, hop]) (by simp)⟩))
  | completed =>
    rcases hp with hop | hop | hop | hop | hop
    · cases a <;> cases hr : c.subRaises s.d.cbs <;> cases hh : c.hasCompleted <;>
      (simp [termStep, hTerminal, hCompleted, dTerminal, dDispose, rDispose_plain c hp', uSubDispose_eq,
         userCb, tryCatch, tryFinally, seq, action, hnr, hop, ds, sad, cur, hr, hh]
       refine ⟨⟨by simp [uDisp, uSubDisp, sub], by simp⟩,
         good_append c s _ k _ hg (by simp; rfl) (by simp [List.filter, Eff.isCb, Eff.isEmit, expect, hop, hh]) (by simp)⟩)
    all_goals
      (cases a <;> cases hr : c.subRaises s.d.cbs <;>
       (simp [termStep, hTerminal, hCompleted, dTerminal, dDispose, rDispose_plain c hp', uSubDispose_eq,
         userCb, tryCatch, tryFinally, seq, action, hnr, hop, ds, sad, cur, hr]
        refine ⟨⟨by simp [uDisp, uSubDisp, sub], by simp⟩,
         good_append c s _ k _ hg (by simp; rfl) (by simp [List.filter, Eff.isCb, Eff.isEmit, expect, hop]) (by simp)⟩))

theorem dead_uDispose {α} (c : Cfg) [NoSrcFault c] (k : Nat) (s : St α) (hd : Dead s) (hg : Good c s k) :
    Dead (uDispose c s).1 ∧ Good c (uDispose c s).1 k := by
  rw [uDispose_eq]
  exact ⟨⟨by simp [uDisp], hd.ds⟩, good_append c s _ k _ hg rfl (by simp) (by simp)⟩

theorem ok_notify {α} (c : Cfg) [NoSrcFault c] (hp : Plain c) (q : Quiet c) (a : Bool) (k : Nat) (s : St α) (n : Notif α)
    (h : Ok c a k s) : Ok c a k (uNotify c n s).1 := by
  obtain ⟨hl | hd, hg⟩ := h
  · have hus := hl.us
    cases n with
    | next v =>
      simp only [uNotify, hus, Bool.false_eq_true, if_false]
      obtain ⟨h1, h2⟩ := next_live c hp q a k s v hl hg
      exact ⟨Or.inl h1, h2⟩
    | error e =>
      obtain ⟨h1, h2⟩ := term_live c hp q a k s (.error e) rfl hl hg
      simp only [termStep] at h1 h2
      simp only [uNotify, hus, Bool.false_eq_true, if_false, tryFinally]
      rcases hx : hTerminal c (.error e) { s with u.stopped := true } with ⟨s2, x⟩
      rw [hx] at h1 h2
      obtain ⟨h3, h4⟩ := dead_uDispose c k s2 h1 h2
      rcases hy : uDispose c s2 with ⟨s3, _ | e3⟩ <;> rw [hy] at h3 h4 <;> exact ⟨Or.inr h3, h4⟩
    | completed =>
      obtain ⟨h1, h2⟩ := term_live c hp q a k s .completed rfl hl hg
      simp only [termStep] at h1 h2
      simp only [uNotify, hus, Bool.false_eq_true, if_false, tryFinally]
      rcases hx : hTerminal c .completed { s with u.stopped := true } with ⟨s2, x⟩
      rw [hx] at h1 h2
      obtain ⟨h3, h4⟩ := dead_uDispose c k s2 h1 h2
      rcases hy : uDispose c s2 with ⟨s3, _ | e3⟩ <;> rw [hy] at h3 h4 <;> exact ⟨Or.inr h3, h4⟩
  · rw [notify_dead c n s hd]; exact ⟨Or.inr hd, hg⟩

theorem ok_escape {α} (c : Cfg) [NoSrcFault c] (a : Bool) (k : Nat) (s : St α) (e : Err) (h : Ok c a k s) :
    Ok c a k { s with log := s.log ++ [.escape e] } := by
  obtain ⟨hl | hd, hg⟩ := h
  · exact ⟨Or.inl ⟨hl.us, hl.ds, hl.sad, hl.cur, hl.sub, hl.usad⟩,
      good_append c s _ k _ hg rfl (by simp [List.filter, Eff.isCb, Eff.isEmit]) (by simp)⟩
  · exact ⟨Or.inr ⟨hd.us, hd.ds⟩, good_append c s _ k _ hg rfl (by simp [List.filter, Eff.isCb, Eff.isEmit]) (by simp)⟩

theorem ok_emitSync {α} (c : Cfg) [NoSrcFault c] (hp : Plain c) (q : Quiet c) (k : Nat) (prop : Bool) (ns : List (Notif α))
    (s : St α) (h : Ok c false k s) : Ok c false k (emitSync c prop ns s).1 := by
  induction ns generalizing s with
  | nil => simpa [emitSync] using h
  | cons n ns ih =>
    have h1 := ok_notify c hp q false k s n h
    simp only [emitSync]
    rcases hn : uNotify c n s with ⟨s', _ | e⟩
    · rw [hn] at h1; exact ih _ h1
    · rw [hn] at h1
      cases prop
      · exact ih _ (ok_escape c false k _ e h1)
      · simpa using h1

/-- after `source.subscribe(...)`: still `Ok`, and if it raised both observers are stopped -/
theorem ok_srcSubscribe {α} (c : Cfg) [NoSrcFault c] (hp : Plain c) (q : Quiet c) (k : Nat) (sp : SyncPhase α) (s : St α)
    (h : Ok c false k s) :
    Ok c false k (srcSubscribe c sp s).1 ∧ (∀ e, (srcSubscribe c sp s).2 = some e → Dead (srcSubscribe c sp s).1) := by
  have h1 := ok_emitSync c hp q k sp.propagate sp.emits s h
  simp only [srcSubscribe]
  have body : ∀ (e : Err) (s1 : St α), Ok c false k s1 →
      Ok c false k (if s1.u.stopped = true then (s1, some e) else hError c e { s1 with u.stopped := true }).1 ∧
      Dead (if s1.u.stopped = true then (s1, some e) else hError c e { s1 with u.stopped := true }).1 := by
    intro e s1 h1
    obtain ⟨hl | hd, hg⟩ := h1
    · obtain ⟨h2, h3⟩ := term_live c hp q false k s1 (.error e) rfl hl hg
      simp only [termStep, hTerminal] at h2 h3
      simp only [hl.us, Bool.false_eq_true, if_false]
      exact ⟨⟨Or.inr h2, h3⟩, h2⟩
    · simp only [hd.us, if_true]; exact ⟨⟨Or.inr hd, hg⟩, hd⟩
  rcases he : emitSync c sp.propagate sp.emits s with ⟨s1, _ | e⟩
  · rw [he] at h1
    simp only
    cases hx : sp.exn with
    | some e => exact ⟨(body e s1 h1).1, fun _ _ => (body e s1 h1).2⟩
    | none =>
      simp only
      obtain ⟨hl | hd, hg⟩ := h1
      · rw [if_neg (by have := hl.usad; simp_all)]
        exact ⟨⟨Or.inl ⟨hl.us, hl.ds, hl.sad, hl.cur, hl.sub, hl.usad⟩, ⟨hg.shp, hg.cnt, hg.hd⟩⟩, fun _ h => by cases h⟩
      · simp only [srcDisposeP_eq]
        split
        · exact ⟨⟨Or.inr ⟨hd.us, hd.ds⟩, good_append c s1 _ k _ hg rfl (by simp [List.filter, Eff.isCb, Eff.isEmit]) (by simp)⟩,
            fun _ h => by cases h⟩
        · exact ⟨⟨Or.inr ⟨hd.us, hd.ds⟩, ⟨hg.shp, hg.cnt, hg.hd⟩⟩, fun _ h => by cases h⟩
  · rw [he] at h1; exact ⟨(body e s1 h1).1, fun _ _ => (body e s1 h1).2⟩

theorem dead_uSubDispose {α} (c : Cfg) [NoSrcFault c] (k : Nat) (s : St α) (hd : s.d.stopped = true) (hg : Good c s k)
    (hu : s.u.stopped = true ∨ s.u.subDisposed = false) :
    Dead (uSubDispose c s).1 ∧ Good c (uSubDispose c s).1 k ∧ (uSubDispose c s).2 = none := by
  rw [uSubDispose_eq]
  refine ⟨⟨?_, hd⟩, good_append c s _ k _ hg rfl (by simp) (by simp), rfl⟩
  simp only [uSubDisp]
  split
  · rcases hu with h | h
    · exact h
    · simp_all
  · simp [uDisp]

def kOf (c : Cfg) : Nat := if c.oper = .doOnSubscribe then 1 else 0

theorem ok_init {α} (c : Cfg) [NoSrcFault c] : Ok c false 0 ({} : St α) :=
  ⟨Or.inl ⟨rfl, rfl, rfl, rfl, rfl, rfl⟩, ⟨by simp [cbShape], rfl, fun h => by cases h⟩⟩

theorem ok_opSubscribe {α} (c : Cfg) [NoSrcFault c] (hp : Plain c) (q : Quiet c) (sp : SyncPhase α) :
    Ok c false (kOf c) (opSubscribe c sp ({} : St α)).1 ∧
    (∀ e, (opSubscribe c sp ({} : St α)).2 = some e → Dead (opSubscribe c sp ({} : St α)).1) := by
  rcases hp with hop | hop | hop | hop | hop
  case inr.inr.inr.inr =>
    have h0 : Ok c false 1 ({ log := [.act .subscribe none false], o := { acts := 1 } } : St α) :=
      ⟨Or.inl ⟨rfl, rfl, rfl, rfl, rfl, rfl⟩, ⟨by simp [cbShape, List.filter, Eff.isCb, Eff.isEmit], by simp, fun _ => rfl⟩⟩
    have := ok_srcSubscribe c (Or.inr (Or.inr (Or.inr (Or.inr hop)))) q 1 sp _ h0
    simpa [opSubscribe, hop, seq, action, q.nr, kOf] using this
  all_goals
    (have := ok_srcSubscribe c (by simp [Plain, hop]) q 0 sp _ (ok_init c)
     simpa [opSubscribe, hop, kOf] using this)

theorem ok_subscribePhase {α} (c : Cfg) [NoSrcFault c] (hp : Plain c) (q : Quiet c) (sp : SyncPhase α) :
    Ok c true (kOf c) (subscribePhase c sp : St α) := by
  obtain ⟨h1, h2⟩ := ok_opSubscribe (α := α) c hp q sp
  simp only [subscribePhase, outerSubscribe]
  rcases ho : opSubscribe c sp ({} : St α) with ⟨s1, _ | e⟩
  · rw [ho] at h1
    replace h1 : Ok c false (kOf c) s1 := h1
    obtain ⟨hl | hd, hg⟩ := h1
    · have hsad := hl.sad
      simp only [hsad, Bool.false_eq_true, if_false]
      exact ⟨Or.inl ⟨by simpa using hl.us, by simpa using hl.ds, by simp, by simp, by simpa using hl.sub,
        by simpa using hl.usad⟩, ⟨by simpa using hg.shp, by simpa using hg.cnt, by simpa using hg.hd⟩⟩
    · cases hsad : s1.d.sad
      · simp only [hsad, Bool.false_eq_true, if_false]
        exact ⟨Or.inr ⟨by simpa using hd.us, by simpa using hd.ds⟩,
          ⟨by simpa using hg.shp, by simpa using hg.cnt, by simpa using hg.hd⟩⟩
      · simp only [hsad, if_true, rDispose_plain c hp]
        obtain ⟨h3, h4, h5⟩ := dead_uSubDispose c _ s1 hd.ds hg (Or.inl hd.us)
        rcases hx : uSubDispose c s1 with ⟨s2, _ | e⟩ <;> rw [hx] at h3 h4 h5
        · replace h3 : Dead s2 := h3
          replace h4 : Good c s2 (kOf c) := h4
          exact ⟨Or.inr ⟨by simpa using h3.us, by simpa using h3.ds⟩,
            ⟨by simpa using h4.shp, by simpa using h4.cnt, by simpa using h4.hd⟩⟩
        · cases h5
  · rw [ho] at h1 h2
    have hd : Dead s1 := h2 e rfl
    replace h1 : Ok c false (kOf c) s1 := h1
    simp only [hd.ds, if_true]
    exact ok_escape c true _ s1 e ⟨Or.inr hd, h1.2⟩

theorem ok_step {α} (c : Cfg) [NoSrcFault c] (hp : Plain c) (q : Quiet c) (k : Nat) (s : St α) (e : Ev α)
    (h : Ok c true k s) : Ok c true k (step c s e) := by
  have swl : ∀ (p : P α) (s : St α), Ok c true k (p s).1 → Ok c true k (swallow p s) := by
    intro p s h
    simp only [swallow]
    rcases hx : p s with ⟨s1, _ | e⟩ <;> rw [hx] at h
    · exact h
    · exact ok_escape c true k s1 e h
  cases e with
  | src n =>
    simp only [step]
    split
    · exact swl _ _ (ok_notify c hp q true k s n h)
    · exact h
  | dispose =>
    simp only [step]
    apply swl
    simp only [handleDispose]
    split
    · exact h
    · obtain ⟨hl | hd, hg⟩ := h
      · simp only [dDispose, hl.sad, hl.cur, Bool.false_eq_true, if_false, if_true, rDispose_plain c hp]
        obtain ⟨h3, h4, h5⟩ := dead_uSubDispose c k
          { s with d := { s.d with retDisposed := true, stopped := true, sad := true, cur := false } } rfl
          ⟨hg.shp, hg.cnt, hg.hd⟩ (Or.inr hl.sub)
        exact ⟨Or.inr h3, h4⟩
      · simp only [dDispose]
        cases hsad : s.d.sad
        · cases hcur : s.d.cur
          · simp only [hsad, hcur, Bool.false_eq_true, if_false]
            exact ⟨Or.inr ⟨hd.us, rfl⟩, ⟨hg.shp, hg.cnt, hg.hd⟩⟩
          · simp only [hsad, hcur, Bool.false_eq_true, if_false, if_true, rDispose_plain c hp]
            obtain ⟨h3, h4, h5⟩ := dead_uSubDispose c k
              { s with d := { s.d with retDisposed := true, stopped := true, sad := true, cur := false } } rfl
              ⟨hg.shp, hg.cnt, hg.hd⟩ (Or.inl hd.us)
            exact ⟨Or.inr h3, h4⟩
        · simp only [hsad, if_true]
          exact ⟨Or.inr ⟨hd.us, rfl⟩, ⟨hg.shp, hg.cnt, hg.hd⟩⟩

theorem ok_run {α} (c : Cfg) [NoSrcFault c] (hp : Plain c) (q : Quiet c) (sp : SyncPhase α) (evs : List (Ev α)) :
    Ok c true (kOf c) (run c sp evs) := by
  simp only [run]
  have h0 := ok_subscribePhase (α := α) c hp q sp
  generalize subscribePhase c sp = s at h0
  induction evs generalizing s with
  | nil => exact h0
  | cons e es ih => exact ih _ (ok_step c hp q _ s e h0)



/-! ## do_on_dispose (the action does not raise) -/

/-- invariant of `do_on_dispose` at event boundaries once `subscribe` has returned a handle -/
structure DodInv {α} (s : St α) (b : Bool) : Prop where
  cnt : actCount .dispose s.log = s.o.rDisposed.toNat
  sad : s.d.sad = s.o.rDisposed
  cur : s.d.cur = !s.d.sad
  dst : s.d.stopped = s.d.sad
  ust : s.u.stopped = true → s.d.sad = true
  trg : s.d.sad = (hasTerm s.log || s.d.retDisposed)
  hdl : s.d.handle = true
  ret : s.d.retDisposed = b
  ord : noEmitAfterAct .dispose s.log = true
  sad2 : s.d.sad = true → s.u.sad = true
  nsub : s.d.sad = false → s.u.subDisposed = false

theorem dod_dispose_inv {α} (c : Cfg) [NoSrcFault c] (hc : c.oper = .doOnDispose) (hnr : ∀ k, c.actRaises k = false)
    (s : St α) (b : Bool) (h : DodInv s b) : DodInv (step c s .dispose) true := by
  obtain ⟨cnt, sad, cur, dst, ust, trg, hdl, ret, ord, sad2, nsub⟩ := h
  cases hrd : s.d.retDisposed
  · cases hsad : s.d.sad <;>
    (rw [hsad] at cur dst sad
     have ha := any_isAct_of_count_zero .dispose s.log
     simp [step, swallow, handleDispose, dDispose, rDispose_ondispose c hc hnr, hdl, hrd, hsad, cur, ← sad]
     constructor <;> simp_all [noEmitAfterAct_append, noEmitAfterAct])
  · simp [step, swallow, handleDispose, hrd]
    exact ⟨cnt, sad, cur, dst, ust, trg, hdl, hrd, ord, sad2, nsub⟩

theorem dod_src_inv {α} (c : Cfg) [NoSrcFault c] (hc : c.oper = .doOnDispose) (hnr : ∀ k, c.actRaises k = false)
    (s : St α) (n : Notif α) (b : Bool) (h : DodInv s b) : DodInv (step c s (.src n)) b := by
  obtain ⟨cnt, sad, cur, dst, ust, trg, hdl, ret, ord, sad2, nsub⟩ := h
  cases hl : s.u.live
  · simp [step, hl]; exact ⟨cnt, sad, cur, dst, ust, trg, hdl, ret, ord, sad2, nsub⟩
  cases hus : s.u.stopped
  · cases hds : s.d.stopped <;> cases hr : c.subRaises s.d.cbs <;> cases n <;>
    (have hsad := dst.symm; rw [hds] at hsad; rw [hsad] at cur sad
     have ha := any_isAct_of_count_zero .dispose s.log
     simp [step, swallow, uNotify, hNext, hTerminal, hError, hCompleted, dNext, dTerminal, userCb, tryFinally,
      hc, dDispose, rDispose_ondispose c hc hnr, uDispose_eq, hus, hds, hr, hsad, cur, hl, ← sad]
     constructor <;> simp_all [uDisp, noEmitAfterAct_append, noEmitAfterAct])
  · simp [step, swallow, uNotify, hus, hl]; exact ⟨cnt, sad, cur, dst, ust, trg, hdl, ret, ord, sad2, nsub⟩

theorem dod_run_inv {α} (c : Cfg) [NoSrcFault c] (hc : c.oper = .doOnDispose) (hnr : ∀ k, c.actRaises k = false)
    (evs : List (Ev α)) (s : St α) (b : Bool)
    (h : DodInv s b) : DodInv (runFrom c s evs) (b || hasDispose evs) := by
  induction evs generalizing s b with
  | nil => simpa [runFrom, hasDispose] using h
  | cons e es ih =>
    cases e with
    | src n =>
      have := ih _ _ (dod_src_inv c hc hnr s n b h)
      simpa [runFrom, hasDispose] using this
    | dispose =>
      have := ih _ _ (dod_dispose_inv c hc hnr s b h)
      simpa [runFrom, hasDispose] using this

theorem dod_subscribePhase {α} (c : Cfg) [NoSrcFault c] (hc : c.oper = .doOnDispose) (hnr : ∀ k, c.actRaises k = false)
    (sp : SyncPhase α) :
    DodInv (subscribePhase c sp : St α) false ∨
    (Frozen (subscribePhase c sp : St α) ∧ actCount .dispose (subscribePhase c sp : St α).log = 0) := by
  have h := using_srcSubscribe (α := α) c (Or.inr (Or.inr (Or.inl hc))) sp {} usingSync_init
  simp only [subscribePhase, outerSubscribe, opSubscribe, hc]
  rcases ho : srcSubscribe c sp ({} : St α) with ⟨s1, _ | e⟩
  · rw [ho] at h
    obtain ⟨cur, rd, ⟨-, -, cnt⟩, dst, trg, ust, ret, hdl, exn, nrm, nsub, usd, exl⟩ := h
    simp only at cur rd cnt dst trg ust ret hdl nrm
    have ha := any_isAct_of_count_zero .dispose s1.log cnt
    have hb := noEmitAfterAct_of_count_zero .dispose s1.log cnt
    left
    cases hsad : s1.d.sad
    · simp only [hsad]
      constructor <;> simp_all
    · simp only [hsad, rDispose_ondispose c hc hnr, rd]
      constructor <;> simp_all [noEmitAfterAct_append, noEmitAfterAct]
  · rw [ho] at h
    obtain ⟨cur, rd, ⟨-, -, cnt⟩, dst, trg, ust, ret, hdl, exn, nrm, nsub, usd, exl⟩ := h
    obtain ⟨hst, hlive⟩ := exn e rfl
    simp only at cur rd cnt dst trg ust ret hdl hst hlive
    right
    simp only [hst]
    exact ⟨⟨by simp_all, by simp_all⟩, by simp_all⟩

end WinFin

import RxProofs.Lemmas.DispC26
/-!
# Invariants behind C26 for SerialDisposable, MultipleAssignmentDisposable and the fixed
SingleAssignmentDisposable (they share `ASh`, `aCommon`)
-/
namespace Disp

def aPendW (i : Nat) : ATh → Nat
  | (.pend l _, _) => l.count i
  | _ => 0

def aProgSets (i : Nat) : ATh → Nat
  | (_, p) => p.count (.set i)

def aProgDisp : ATh → Nat
  | (_, p) => p.count .dispose

theorem aOut_sh (s : ASh) (ev l r p) : (ASh.out s ev l r p).1.cnt = s.cnt ∧ (ASh.out s ev l r p).1.current = s.current
   ∧ (ASh.out s ev l r p).1.given = s.given ∧ (ASh.out s ev l r p).1.isDisposed = s.isDisposed
   ∧ (ASh.out s ev l r p).1.dcalls = s.dcalls ∧ (ASh.out s ev l r p).1.dropped = s.dropped
   ∧ (ASh.out s ev l r p).1.accepted = s.accepted ∧ (ASh.out s ev l r p).1.rej = s.rej
   ∧ (ASh.out s ev l r p).1.tookSome = s.tookSome := by
  cases l <;> simp [ASh.out]

theorem aOut_pend (i : Nat) (s : ASh) (ev l r p) : aPendW i (ASh.out s ev l r p).2 = l.count i := by
  cases l <;> simp [ASh.out, aPendW]

theorem aOut_sets (i : Nat) (s : ASh) (ev l r p) : aProgSets i (ASh.out s ev l r p).2 = p.count (.set i) := by
  cases l <;> simp [ASh.out, aProgSets]

theorem aOut_disp (s : ASh) (ev l r p) : aProgDisp (ASh.out s ev l r p).2 = p.count .dispose := by
  cases l <;> simp [ASh.out, aProgDisp]

/-- the three step functions this file is about -/
def IsAStep (f : ASh → ATh → ASh × ATh) : Prop := f = serStep ∨ f = madStep ∨ f = sadStep

def AInv1 (s : Sys ASh ATh) : Prop :=
  ∀ i, s.sh.cnt i + wsum (aPendW i) s.pcs + s.sh.current.toList.count i + s.sh.dropped i = s.sh.given i

theorem a1_step (f : ASh → ATh → ASh × ATh) (hf : IsAStep f)
    (s : Sys ASh ATh) (tid : Nat) (h1 : AInv1 s) : AInv1 (s.step f tid) := by
  apply Sys.step_cases f s tid AInv1 h1
  intro p hp i
  obtain ⟨rest, e1, e2⟩ := wsum_split (aPendW i) s.pcs tid p hp
  have h := h1 i; rw [e1] at h
  simp only [e2]
  clear e1 e2 h1 hp
  obtain ⟨pc, prog⟩ := p
  rcases hf with rfl | rfl | rfl <;>
  cases pc with
  | idle =>
    cases prog with
    | nil => simpa [serStep, madStep, sadStep] using h
    | cons op prog =>
      cases op with
      | set j =>
        cases hc : s.sh.current <;> simp only [serStep, madStep, sadStep, hc] <;> repeat' split
        all_goals simp only [aOut_sh, aOut_pend]
        all_goals simp [aPendW, count_bump, hc, List.count_cons] at h ⊢
        all_goals first | omega | (exfalso; simp_all)
      | get =>
        simp only [serStep, madStep, sadStep, aCommon, aOut_sh, aOut_pend]; simp [aPendW] at h ⊢; omega
      | dispose =>
        simp only [serStep, madStep, sadStep, aCommon]
        split <;> simp only [aOut_sh, aOut_pend] <;> simp [aPendW] at h ⊢ <;> omega
  | pend l r =>
    match l with
    | [] => simpa [serStep, madStep, sadStep, aCommon, aPendW] using h
    | [j] => simp [serStep, madStep, sadStep, aCommon, aPendW, count_bump] at h ⊢; omega
    | j :: k :: l => simp [serStep, madStep, sadStep, aCommon, aPendW, count_bump, List.count_cons] at h ⊢; omega
  | chk1 j => simpa [serStep, madStep, sadStep, aCommon, aPendW] using h
  | chk0 => simpa [serStep, madStep, sadStep, aCommon, aPendW] using h
  | after j => simpa [serStep, madStep, sadStep, aCommon, aPendW] using h

/-- flag ⇒ nothing held; an executed dispose() ⇒ flag; the "at most one stored assignment" bookkeeping -/
def AInv2 (s : Sys ASh ATh) : Prop :=
  (s.sh.isDisposed = true → s.sh.current = none) ∧ (0 < s.sh.dcalls → s.sh.isDisposed = true) ∧
  (s.sh.tookSome = true → s.sh.isDisposed = true)

theorem a2_step (f : ASh → ATh → ASh × ATh) (hf : IsAStep f)
    (s : Sys ASh ATh) (tid : Nat) (h : AInv2 s) : AInv2 (s.step f tid) := by
  apply Sys.step_cases f s tid AInv2 h
  intro p _
  obtain ⟨h1, h2, h3⟩ := h
  obtain ⟨pc, prog⟩ := p
  unfold AInv2
  rcases hf with rfl | rfl | rfl <;>
  cases pc with
  | idle =>
    cases prog with
    | nil => exact ⟨h1, h2, h3⟩
    | cons op prog =>
      cases op with
      | set j =>
        simp only [serStep, madStep, sadStep] <;> repeat' split
        all_goals simp only [aOut_sh]
        all_goals simp_all
      | get => simp only [serStep, madStep, sadStep, aCommon, aOut_sh]; exact ⟨h1, h2, h3⟩
      | dispose =>
        simp only [serStep, madStep, sadStep, aCommon]
        split <;> simp only [aOut_sh] <;> simp_all
  | pend l r =>
    match l with
    | [] => exact ⟨h1, h2, h3⟩
    | [j] => exact ⟨h1, h2, h3⟩
    | j :: k :: l => exact ⟨h1, h2, h3⟩
  | chk1 j => exact ⟨h1, h2, h3⟩
  | chk0 => exact ⟨h1, h2, h3⟩
  | after j => exact ⟨h1, h2, h3⟩

/-- bookkeeping against the programs -/
def AInv3 (G : Nat → Nat) (D : Nat) (s : Sys ASh ATh) : Prop :=
  (∀ i, s.sh.given i + s.sh.rej i + wsum (aProgSets i) s.pcs = G i) ∧ s.sh.dcalls + wsum aProgDisp s.pcs = D

theorem a3_step (f : ASh → ATh → ASh × ATh) (hf : IsAStep f) (G : Nat → Nat) (D : Nat)
    (s : Sys ASh ATh) (tid : Nat) (h : AInv3 G D s) : AInv3 G D (s.step f tid) := by
  apply Sys.step_cases f s tid (AInv3 G D) h
  intro p hp
  obtain ⟨hg, hd⟩ := h
  obtain ⟨rd, d1, d2⟩ := wsum_split aProgDisp s.pcs tid p hp
  rw [d1] at hd
  refine ⟨fun i => ?_, ?_⟩
  · obtain ⟨rest, e1, e2⟩ := wsum_split (aProgSets i) s.pcs tid p hp
    have h := hg i; rw [e1] at h
    simp only [e2]
    clear e1 e2 hg hp d1 d2 hd
    obtain ⟨pc, prog⟩ := p
    rcases hf with rfl | rfl | rfl <;>
    cases pc with
    | idle =>
      cases prog with
      | nil => simpa [serStep, madStep, sadStep] using h
      | cons op prog =>
        cases op with
        | set j =>
          simp only [serStep, madStep, sadStep] <;> repeat' split
          all_goals simp only [aOut_sh, aOut_sets]
          all_goals simp only [aProgSets, List.count_cons] at h ⊢
          all_goals by_cases hij : j = i <;> simp [count_bump, hij] at h ⊢ <;> omega
        | get => simp only [serStep, madStep, sadStep, aCommon, aOut_sh, aOut_sets]; simp [aProgSets] at h ⊢; omega
        | dispose =>
          simp only [serStep, madStep, sadStep, aCommon]
          split <;> simp only [aOut_sh, aOut_sets] <;> simp [aProgSets] at h ⊢ <;> omega
    | pend l r =>
      match l with
      | [] => simpa [serStep, madStep, sadStep, aCommon, aProgSets] using h
      | [j] => simpa [serStep, madStep, sadStep, aCommon, aProgSets] using h
      | j :: k :: l => simpa [serStep, madStep, sadStep, aCommon, aProgSets] using h
    | chk1 j => simpa [serStep, madStep, sadStep, aCommon, aProgSets] using h
    | chk0 => simpa [serStep, madStep, sadStep, aCommon, aProgSets] using h
    | after j => simpa [serStep, madStep, sadStep, aCommon, aProgSets] using h
  · simp only [d2]
    clear d1 d2 hg hp
    obtain ⟨pc, prog⟩ := p
    rcases hf with rfl | rfl | rfl <;>
    cases pc with
    | idle =>
      cases prog with
      | nil => simpa [serStep, madStep, sadStep] using hd
      | cons op prog =>
        cases op with
        | set j =>
          simp only [serStep, madStep, sadStep] <;> repeat' split
          all_goals simp only [aOut_sh, aOut_disp]
          all_goals simp [aProgDisp] at hd ⊢ <;> omega
        | get => simp only [serStep, madStep, sadStep, aCommon, aOut_sh, aOut_disp]; simp [aProgDisp] at hd ⊢; omega
        | dispose =>
          simp only [serStep, madStep, sadStep, aCommon]
          split <;> simp only [aOut_sh, aOut_disp] <;> simp [aProgDisp] at hd ⊢ <;> omega
    | pend l r =>
      match l with
      | [] => simpa [serStep, madStep, sadStep, aCommon, aProgDisp] using hd
      | [j] => simpa [serStep, madStep, sadStep, aCommon, aProgDisp] using hd
      | j :: k :: l => simpa [serStep, madStep, sadStep, aCommon, aProgDisp] using hd
    | chk1 j => simpa [serStep, madStep, sadStep, aCommon, aProgDisp] using hd
    | chk0 => simpa [serStep, madStep, sadStep, aCommon, aProgDisp] using hd
    | after j => simpa [serStep, madStep, sadStep, aCommon, aProgDisp] using hd

def aTotalSets (progs : List (List AOp)) (i : Nat) : Nat := wsum (fun p => p.count (AOp.set i)) progs
def aTotalDisp (progs : List (List AOp)) : Nat := wsum (fun p => p.count AOp.dispose) progs

def AInv (progs : List (List AOp)) (s : Sys ASh ATh) : Prop :=
  AInv1 s ∧ AInv2 s ∧ AInv3 (aTotalSets progs) (aTotalDisp progs) s

theorem aInv_init (progs : List (List AOp)) : AInv progs (aInit progs) := by
  refine ⟨fun i => ?_, ⟨by simp [aInit], by simp [aInit], by simp [aInit]⟩, fun i => ?_, ?_⟩
  · have : wsum (aPendW i) (aInit progs).pcs = 0 := by
      apply wsum_eq_zero; intro a ha; simp [aInit] at ha; obtain ⟨p, _, rfl⟩ := ha; rfl
    rw [this]; simp [aInit]
  · simp [aInit, aTotalSets, wsum_map, aProgSets]
  · simp [aInit, aTotalDisp, wsum_map, aProgDisp]

theorem aInv_run (f : ASh → ATh → ASh × ATh) (hf : IsAStep f) (progs : List (List AOp)) (sched : List Nat) :
    AInv progs ((aInit progs).run f sched) := by
  obtain ⟨a, b, c⟩ := aInv_init progs
  exact ⟨Sys.run_inv f AInv1 (a1_step f hf) _ sched a, Sys.run_inv f AInv2 (a2_step f hf) _ sched b,
    Sys.run_inv f (AInv3 _ _) (a3_step f hf _ _) _ sched c⟩

def aQuiet (s : Sys ASh ATh) : Prop := ∀ t ∈ s.pcs, t = (CPc.idle, [])
instance (s : Sys ASh ATh) : Decidable (aQuiet s) := by unfold aQuiet; infer_instance

theorem aQuiet_zero (s : Sys ASh ATh) (h : aQuiet s) (i : Nat) :
    wsum (aPendW i) s.pcs = 0 ∧ wsum (aProgSets i) s.pcs = 0 ∧ wsum aProgDisp s.pcs = 0 := by
  refine ⟨?_, ?_, ?_⟩ <;> (apply wsum_eq_zero; intro a ha; rw [h a ha]; rfl)

/-! ### class-specific facts -/

/-- Serial and (fixed) SingleAssignment never drop an item; Serial and MultipleAssignment never raise -/
def NoDrop (s : Sys ASh ATh) : Prop := ∀ i, s.sh.dropped i = 0
def NoRej (s : Sys ASh ATh) : Prop := ∀ i, s.sh.rej i = 0

theorem noDrop_step (f : ASh → ATh → ASh × ATh) (hf : f = serStep ∨ f = sadStep)
    (s : Sys ASh ATh) (tid : Nat) (h : NoDrop s) : NoDrop (s.step f tid) := by
  apply Sys.step_cases f s tid NoDrop h
  intro p _ i
  have h := h i
  obtain ⟨pc, prog⟩ := p
  rcases hf with rfl | rfl <;>
  cases pc with
  | idle =>
    cases prog with
    | nil => exact h
    | cons op prog =>
      cases op with
      | set j => simp only [serStep, sadStep] <;> repeat' split
                 all_goals simp only [aOut_sh]
                 all_goals exact h
      | get => simp only [serStep, sadStep, aCommon, aOut_sh]; exact h
      | dispose => simp only [serStep, sadStep, aCommon]; split <;> simp only [aOut_sh] <;> exact h
  | pend l r =>
    match l with
    | [] => exact h
    | [j] => exact h
    | j :: k :: l => exact h
  | chk1 j => exact h
  | chk0 => exact h
  | after j => exact h

theorem noRej_step (f : ASh → ATh → ASh × ATh) (hf : f = serStep ∨ f = madStep)
    (s : Sys ASh ATh) (tid : Nat) (h : NoRej s) : NoRej (s.step f tid) := by
  apply Sys.step_cases f s tid NoRej h
  intro p _ i
  have h := h i
  obtain ⟨pc, prog⟩ := p
  rcases hf with rfl | rfl <;>
  cases pc with
  | idle =>
    cases prog with
    | nil => exact h
    | cons op prog =>
      cases op with
      | set j => simp only [serStep, madStep] <;> repeat' split
                 all_goals simp only [aOut_sh]
                 all_goals exact h
      | get => simp only [serStep, madStep, aCommon, aOut_sh]; exact h
      | dispose => simp only [serStep, madStep, aCommon]; split <;> simp only [aOut_sh] <;> exact h
  | pend l r =>
    match l with
    | [] => exact h
    | [j] => exact h
    | j :: k :: l => exact h
  | chk1 j => exact h
  | chk0 => exact h
  | after j => exact h

/-- fixed SingleAssignmentDisposable: every assignment that was stored is either still in `current`
or was swapped out by `dispose()` -/
def SadOnce (s : Sys ASh ATh) : Prop :=
  s.sh.accepted = s.sh.current.isSome.toNat + s.sh.tookSome.toNat ∧
  (s.sh.tookSome = true → s.sh.isDisposed = true) ∧ (s.sh.isDisposed = true → s.sh.current = none)

theorem sadOnce_step (s : Sys ASh ATh) (tid : Nat) (h : SadOnce s) : SadOnce (s.step sadStep tid) := by
  apply Sys.step_cases sadStep s tid SadOnce h
  intro p _
  obtain ⟨h1, h2, h3⟩ := h
  obtain ⟨pc, prog⟩ := p
  unfold SadOnce
  cases pc with
  | idle =>
    cases prog with
    | nil => exact ⟨h1, h2, h3⟩
    | cons op prog =>
      cases op with
      | set j =>
        cases hc : s.sh.current <;> cases hd : s.sh.isDisposed <;> cases ht : s.sh.tookSome <;>
          simp only [sadStep, hc, hd, Option.isSome_none, Option.isSome_some, Bool.false_eq_true, ↓reduceIte] <;>
          (try simp only [aOut_sh]) <;> simp_all
      | get => simp only [sadStep, aCommon, aOut_sh]; exact ⟨h1, h2, h3⟩
      | dispose =>
        cases hc : s.sh.current <;> cases hd : s.sh.isDisposed <;> cases ht : s.sh.tookSome <;>
          simp only [sadStep, aCommon, hc, hd, Bool.false_eq_true, ↓reduceIte] <;>
          (try simp only [aOut_sh]) <;> simp_all
  | pend l r =>
    match l with
    | [] => exact ⟨h1, h2, h3⟩
    | [j] => exact ⟨h1, h2, h3⟩
    | j :: k :: l => exact ⟨h1, h2, h3⟩
  | chk1 j => exact ⟨h1, h2, h3⟩
  | chk0 => exact ⟨h1, h2, h3⟩
  | after j => exact ⟨h1, h2, h3⟩

end Disp

import RxModel.Thr2Aio
/-!
# Lemmas for C33 — soundness of the reachable-set argument

If a finite list `R` of states contains the initial state and is closed under every action
(`Closed c R`, a decidable check), every schedule ends in a state of `R`; a predicate that holds on all
of `R` therefore holds after every schedule.
-/

namespace Thr2Aio

theorem step_none_of_not_act (c : Cfg) (s : St) (a : Nat) (h : a ∉ acts) : step c s a = none := by
  simp only [acts, List.mem_cons, List.not_mem_nil, or_false, not_or] at h
  obtain ⟨h0, h1, h2, h3, h4, h5⟩ := h
  match a, h0, h1, h2, h3, h4, h5 with
  | a + 6, _, _, _, _, _, _ => simp [step, stepL]

theorem closed_step (c : Cfg) (R : List St) (h : Closed c R = true) (s : St) (hs : s ∈ R) (a : Nat) :
    (step c s a).getD s ∈ R := by
  simp only [Closed, Bool.and_eq_true, List.all_eq_true] at h
  by_cases ha : a ∈ acts
  · have := h.2 s hs a ha
    cases hst : step c s a with
    | none => simpa using hs
    | some t => simp only [hst] at this; simpa using this
  · rw [step_none_of_not_act c s a ha]; simpa using hs

theorem closed_run (c : Cfg) (R : List St) (h : Closed c R = true) :
    ∀ (sch : List Nat) (s : St), s ∈ R → run c s sch ∈ R := by
  intro sch
  induction sch with
  | nil => intro s hs; exact hs
  | cons a as ih => intro s hs; exact ih _ (closed_step c R h s hs a)

theorem inv_of_closed (c : Cfg) (R : List St) (P : St → Bool) (h : Closed c R = true)
    (hP : R.all P = true) (sch : List Nat) : P (run c (init c) sch) = true := by
  have hinit : init c ∈ R := by
    simp only [Closed, Bool.and_eq_true] at h
    simpa using h.1
  exact (List.all_eq_true.1 hP) _ (closed_run c R h sch _ hinit)

/-- the user thread never starts the action -/
theorem userStep_started (c : Cfg) (s t : St) (l : String) (h : userStep c s = some (t, l)) :
    t.started = s.started := by
  unfold userStep at h
  repeat' split at h
  all_goals (cases h; try rfl)

/-- moving a timer to the ready queue does not start the action -/
theorem collectStep_started (c : Cfg) (s t : St) (l : String) (h : collectStep c s = some (t, l)) :
    t.started = s.started := by
  unfold collectStep at h
  repeat' split at h
  all_goals (cases h; try rfl)

/-- all configurations of the repaired code -/
def fixedCfgs : List Cfg :=
  [Flavour.plain, .ts].flatMap fun f => [Kind.soon, .rel].flatMap fun k =>
    [SMode.onLoop, .foreign, .pre].flatMap fun sm =>
      [Mode.onLoop, .foreign, .notRunning].map fun m => ⟨f, k, sm, m, .fixed⟩

theorem mem_fixedCfgs (c : Cfg) (h : c.test = .fixed) : c ∈ fixedCfgs := by
  obtain ⟨f, k, sm, m, t⟩ := c
  simp only at h; subst h
  cases f <;> cases k <;> cases sm <;> cases m <;> decide

/-- The kernel computes the reachable set of every repaired configuration, checks that it is closed under
all six actions and that every state in it is safe (no late start, no early start). -/
theorem fixed_reach_ok : fixedCfgs.all (fun c => Closed c (reach c) && (reach c).all safe) = true := by decide

theorem fixed_safe (c : Cfg) (h : c.test = .fixed) (sch : List Nat) : safe (run c (init c) sch) = true := by
  have := (List.all_eq_true.1 fixed_reach_ok) c (mem_fixedCfgs c h)
  simp only [Bool.and_eq_true] at this
  exact inv_of_closed c (reach c) safe this.1 this.2 sch

end Thr2Aio

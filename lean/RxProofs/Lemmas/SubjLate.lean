import RxProofs.Lemmas.SubjThm
/-!
# Inside `subscribe`: nobody can detach the subscriber before `subscribe` returns

`RunsTo cfg st pre st'`: executing the agenda prefix `pre` — and everything it spawns — to completion
(no exception escaping to the emitter) leads from `st` to `st'`.  While an observer `j` is still inside
its own `subscribe` (it has no handle yet) nothing that its callbacks' reactions (or anybody's) do can
stop its AutoDetachObserver or touch its log: the handle is only handed out when `subscribe` returns.
Used for the late AsyncSubject subscriber, who is handed the value *and then* the completion.
-/

namespace Subj
variable {α : Type}

inductive RunsTo (cfg : Cfg) : St α → List (Task α) → St α → Prop
  | nil {st : St α} : RunsTo cfg st [] st
  | cons {st st2 st3 : St α} {t : Task α} {ts : List (Task α)} :
      (step1 cfg st t).2.2 = false → RunsTo cfg (step1 cfg st t).1 (step1 cfg st t).2.1 st2 → RunsTo cfg st2 ts st3 →
      RunsTo cfg st (t :: ts) st3

/-- `RunsTo` is a special case of reachability: the rest of the agenda is untouched. -/
theorem RunsTo.reach {cfg : Cfg} {st st' : St α} {pre : List (Task α)} (h : RunsTo cfg st pre st') (rest : List (Task α)) :
    Reach cfg st (pre ++ rest) st' rest := by
  induction h generalizing rest with
  | nil => exact Reach.init
  | @cons st st2 st3 t ts hne _ _ ih1 ih2 =>
    have s1 : Reach cfg st (t :: ts ++ rest) (step1 cfg st t).1 (nextAgenda (step1 cfg st t) (ts ++ rest)) :=
      Reach.step Reach.init
    have e : nextAgenda (step1 cfg st t) (ts ++ rest) = (step1 cfg st t).2.1 ++ (ts ++ rest) := by
      simp [nextAgenda, hne]
    rw [e] at s1
    exact (s1.trans (ih1 (ts ++ rest))).trans (ih2 rest)

/-- Tasks that cannot concern observer `j` while it has no handle: no top-level emission, no delivery to
/ completion of the subscription of / disposal for `j`. -/
def NotJ (j : Id) : Task α → Prop
  | .emit _ => False
  | .act _ _ => True
  | .deliver i _ => i ≠ j
  | .finish i _ => i ≠ j
  | .sadDispose i => i ≠ j

theorem step1_notJ (cfg : Cfg) (j : Id) (st : St α) (t : Task α) (ht : NotJ j t) (hseen : st.seen j = true)
    (hh : st.handle j = false) :
    (step1 cfg st t).1.log j = st.log j ∧ (step1 cfg st t).1.adoStopped j = st.adoStopped j ∧
    (step1 cfg st t).1.handle j = false ∧ (step1 cfg st t).1.seen j = true ∧
    ∀ t' ∈ (step1 cfg st t).2.1, NotJ j t' := by
  cases t with
  | emit n => exact absurd ht id
  | act who a =>
    cases a with
    | unsub k =>
      have : doUnsub st k = st ∨ k ≠ j := by
        by_cases hk : k = j
        · subst hk; left; simp [doUnsub, hh]
        · exact Or.inr hk
      rcases this with h' | hk
      · simp [step1, h', hh, hseen]
      · unfold step1 doUnsub adoDispose sadDispose innerDispose
        dsimp only
        have hjk : j ≠ k := fun e => hk e.symm
        repeat' split
        all_goals simp [hjk, hh, hseen]
    | dispose => simp [step1, subjDispose, hh, hseen]
    | sub k =>
      by_cases hk : st.seen k = true
      · simp [step1, doSub, hk, hh, hseen]
      · have hk' : st.seen k = false := by simpa using hk
        have hjk : j ≠ k := fun e => by subst e; rw [hseen] at hk'; exact absurd hk' (by simp)
        have hkj : k ≠ j := fun e => hjk e.symm
        unfold step1 doSub callback raiseTo reactions
        dsimp only
        repeat' split
        all_goals simp_all [NotJ]
        all_goals (rintro t' (⟨a, _, rfl⟩ | rfl) <;> simp_all)
  | deliver i n =>
    have hij : i ≠ j := ht
    have hji : j ≠ i := fun e => hij e.symm
    unfold step1 deliver callback sadDispose innerDispose reactions
    dsimp only
    repeat' split
    all_goals simp_all [NotJ]
    all_goals (rintro t' (⟨a, _, rfl⟩ | rfl) <;> simp_all)
  | finish i hfin =>
    have hij : i ≠ j := ht
    have hji : j ≠ i := fun e => hij e.symm
    unfold step1 finish innerDispose
    dsimp only
    repeat' split
    all_goals simp_all
  | sadDispose i =>
    have hij : i ≠ j := ht
    unfold step1 sadDispose innerDispose
    dsimp only
    repeat' split
    all_goals simp_all

/-- Running any `NotJ j` agenda to completion leaves `j` (handle-less) exactly as it was. -/
theorem RunsTo.frame {cfg : Cfg} {j : Id} {st st' : St α} {pre : List (Task α)} (h : RunsTo cfg st pre st')
    (hpre : ∀ t ∈ pre, NotJ j t) (hseen : st.seen j = true) (hh : st.handle j = false) :
    st'.log j = st.log j ∧ st'.adoStopped j = st.adoStopped j ∧ st'.handle j = false ∧ st'.seen j = true := by
  induction h with
  | nil => exact ⟨rfl, rfl, hh, hseen⟩
  | @cons st st2 st3 t ts _ _ _ ih1 ih2 =>
    have s := step1_notJ cfg j st t (hpre t (by simp)) hseen hh
    have a := ih1 s.2.2.2.2 s.2.2.2.1 s.2.2.1
    have b := ih2 (fun t' ht' => hpre t' (by simp [ht'])) a.2.2.2 a.2.2.1
    exact ⟨b.1.trans (a.1.trans s.1), b.2.1.trans (a.2.1.trans s.2.1), b.2.2.1, b.2.2.2⟩

/-- **Late AsyncSubject subscriber, completed with a value.**  Whatever the reactions of `j`'s own callback
to the value do (they run to completion inside `subscribe`), `j` is then handed the completion: its log
is exactly `[next x, completed]` when `subscribe` gets to assign the handle. -/
theorem async_late_both {cfg : Cfg} {v : Option α} (hv : InitOK cfg v) {st : St α} {rest : List (Task α)}
    (hk : cfg.kind = .async) (who : Option Id) (j : Id) (x : α)
    (h : Reachable cfg v st (.act who (.sub j) :: rest))
    (hs : st.stopped = true) (hd : st.disposed = false) (hj : st.seen j = false)
    (hx : lastNext st.tr = some x) (hc : terminated st.tr = some .completed) :
    let r1 := step1 cfg st (.act who (.sub j))
    let r2 := step1 cfg r1.1 (.deliver j (.next x))
    r2.2.2 = false ∧
    ∀ st', RunsTo cfg r2.1 r2.2.1 st' →
      (step1 cfg st' (.deliver j .completed)).1.log j = [.next x, .completed] ∧
      Reachable cfg v st' (.deliver j .completed :: .finish j (some .noop) :: rest) := by
  intro r1 r2
  have base := async_late_value hv hk who j x h hs hd hj hx hc
  simp only at base
  obtain ⟨b1, b2, b3, b4, b5⟩ := base
  have hI := (reachable_inv h).1
  have hf := hI.fresh j hj
  have hr1 : r1.1 = { st with seen := upd st.seen j true } := by
    have hV := reachable_vinv hv h
    have ha := hV.asy hk hd
    have hterm := (hV.term hd).1 hs
    have hexc : st.exception = none := by
      rw [hc] at hterm
      unfold termOf at hterm
      cases hxx : st.exception with
      | none => rfl
      | some e => simp [hxx] at hterm
    have h1 : st.value = some x := by rw [ha.1, hx]
    have h2 : st.hasValue = true := by rw [ha.2, hx]; rfl
    simp [r1, step1, doSub, hj, hd, hs, hexc, hk, h1, h2]
  have hst1 : r1.1.adoStopped j = false := by rw [hr1]; exact hf.1
  have hseen1 : r1.1.seen j = true := by rw [hr1]; simp
  have hh1 : r1.1.handle j = false := by rw [hr1]; exact hf.2.1
  have hr2 : r2 = (callback r1.1 j (.next x), reactions cfg r1.1 j, false) := by
    simp [r2, step1, deliver, hst1]
  refine ⟨by rw [hr2], ?_⟩
  intro st' hrun
  have hpre : ∀ t ∈ r2.2.1, NotJ j t := by
    rw [hr2]; intro t ht
    simp only [reactions, List.mem_map] at ht
    obtain ⟨a, _, rfl⟩ := ht
    trivial
  have fr := hrun.frame hpre (by rw [hr2]; simpa [callback] using hseen1) (by rw [hr2]; simpa [callback] using hh1)
  have hlog : st'.log j = [.next x] := by rw [fr.1]; exact b4
  have hado : st'.adoStopped j = false := by rw [fr.2.1, hr2]; simpa [callback] using hst1
  refine ⟨by simp [step1, deliver, hado, callback, hlog], ?_⟩
  have hreach := hrun.reach (.deliver j .completed :: .finish j (some .noop) :: rest)
  have e : nextAgenda r2 (.deliver j .completed :: .finish j (some .noop) :: rest) =
      r2.2.1 ++ (.deliver j .completed :: .finish j (some .noop) :: rest) := by
    simp [nextAgenda, hr2]
  rw [e] at b5
  exact Reach.trans b5 hreach

end Subj

import RxModel.VtsTimer
import RxProofs.Lemmas.VtsPQ
/-! Helper lemmas for the `timer(duetime, period)` model: termination weight, the chain invariant. -/

namespace Tmr
open Vts

def Iter.st : Iter → St
  | .exit s => s
  | .next s => s
  | .stuck s => s

theorem weight_split (T : Int) (pre post : List (Item × Int)) (e : Item × Int) :
    weight T (pre ++ e :: post) = ((T + 1 - e.1.due).toNat + 1) + weight T (pre ++ post) := by
  simp only [weight, List.map_append, List.map_cons, List.sum_append, List.sum_cons]; omega

theorem nextDue_gt (p due now : Int) (hp : 1 ≤ p) (h : due ≤ now) : now < nextDue p due now ∧ due + p ≤ nextDue p due now := by
  simp only [nextDue]; split <;> omega

theorem iter_next_weight {p : Int} {cost : Nat → Nat} {T : Int} {s s' : St} (h : iter p cost T s = .next s') :
    weight T s'.queue.items < weight T s.queue.items := by
  simp only [iter] at h
  split at h
  · simp at h
  · split at h
    · simp at h
    · next x q' hd =>
      obtain ⟨pre, post, c, hl, hr⟩ := PQ.dequeue_split_list Item.due hd
      have hw : weight T s.queue.items = ((T + 1 - x.due).toNat + 1) + weight T q'.items := by
        rw [hl, hr]; exact weight_split T pre post (x, c)
      have hge : x.due ≤ (if x.due > s.clock then x.due else s.clock) := by split <;> omega
      generalize (if x.due > s.clock then x.due else s.clock) = now at h hge
      split at h
      · simp at h
      · next hdue =>
        split at h
        · simp at h; subst h; simp only; omega
        · split at h
          · simp at h
          · next k _ hp =>
            simp at h; subst h
            have hn := nextDue_gt p x.due now (by omega) hge
            generalize nextDue p x.due now = nd at hn ⊢
            simp only [enqueue, PQ.enqueue, weight, List.map_append, List.map_cons, List.map_nil, List.sum_append,
              List.sum_cons, List.sum_nil] at hw ⊢
            omega

theorem loopFuel_enough (p : Int) (cost : Nat → Nat) (T : Int) :
    ∀ (n m : Nat) (s : St), weight T s.queue.items < n → weight T s.queue.items < m →
      loopFuel p cost T n s = loopFuel p cost T m s := by
  intro n
  induction n with
  | zero => intro m s h; omega
  | succ n ih =>
    intro m s hn hm
    cases m with
    | zero => omega
    | succ m =>
      simp only [loopFuel]
      cases hi : iter p cost T s with
      | next s' =>
        have := iter_next_weight hi
        exact ih m s' (by omega) (by omega)
      | _ => rfl

/-! ### the chain of ticks -/

def tickOf (e : Item × Int) : Option (Nat × Int) :=
  match e.1.kind with
  | .tick k => some (k, e.1.due)
  | .block _ => none

/-- the pending timer ticks `(k, due)` -/
def ticks (l : List (Item × Int)) : List (Nat × Int) := l.filterMap tickOf

/-- the emissions, in order, are `k, k+1, …`; the first had due time `n`; each ran at or after its due time; and
each due time follows from the previous one by the re-basing rule `nextDue` -/
def ChainOK (p : Int) : Nat → Int → List Ran → Prop
  | _, _, [] => True
  | k, n, e :: es => e.k = k ∧ e.due = n ∧ n ≤ e.at_ ∧ ChainOK p (k + 1) (nextDue p n e.at_) es

/-- the tick that is pending after those emissions -/
def chainEnd (p : Int) : Nat → Int → List Ran → Nat × Int
  | k, n, [] => (k, n)
  | k, n, e :: es => chainEnd p (k + 1) (nextDue p n e.at_) es

theorem chain_append (p : Int) : ∀ (l : List Ran) (k : Nat) (n : Int) (e : Ran),
    (ChainOK p k n (l ++ [e]) ↔ ChainOK p k n l ∧ e.k = (chainEnd p k n l).1 ∧ e.due = (chainEnd p k n l).2 ∧
      (chainEnd p k n l).2 ≤ e.at_) ∧
    chainEnd p k n (l ++ [e]) = ((chainEnd p k n l).1 + 1, nextDue p (chainEnd p k n l).2 e.at_) := by
  intro l
  induction l with
  | nil => intro k n e; simp [ChainOK, chainEnd]
  | cons a l ih =>
    intro k n e
    have := ih (k + 1) (nextDue p n a.at_) e
    simp only [List.cons_append, ChainOK, chainEnd, this.1, this.2]
    exact ⟨by constructor <;> (intro h; simp_all), trivial⟩

/-- the invariant of every run: the log is a chain starting with tick 0 due at `d0`, and exactly one timer tick
is pending — the one the chain ends in -/
def GInv (p d0 : Int) (s : St) : Prop :=
  ChainOK p 0 d0 s.log ∧ ticks s.queue.items = [chainEnd p 0 d0 s.log]

theorem ticks_append (a b : List (Item × Int)) : ticks (a ++ b) = ticks a ++ ticks b := by
  simp [ticks, List.filterMap_append]

theorem ginv_iter (p : Int) (cost : Nat → Nat) (T : Int) (d0 : Int) (s : St) (h : GInv p d0 s) :
    GInv p d0 (iter p cost T s).st := by
  simp only [iter]
  split
  · exact h
  · split
    · exact h
    · next x q' hd =>
      obtain ⟨pre, post, c, hl, hr⟩ := PQ.dequeue_split_list Item.due hd
      obtain ⟨h1, h2⟩ := h
      split
      · exact ⟨h1, h2⟩
      · split
        · next sl hk =>
          -- a blocker: the ticks are untouched
          refine ⟨h1, ?_⟩
          show ticks q'.items = [chainEnd p 0 d0 s.log]
          rw [← h2, hl, hr, ticks_append, ticks_append]
          simp [ticks, tickOf, hk]
        · next k hk =>
          split
          · exact ⟨h1, h2⟩
          · -- the timer's tick: it is the pending one
            rw [hl, ticks_append] at h2
            have hx : ticks ((x, c) :: post) = (k, x.due) :: ticks post := by
              simp [ticks, tickOf, hk]
            rw [hx] at h2
            have hpre : ticks pre = [] := by
              cases hp : ticks pre with
              | nil => rfl
              | cons a l => rw [hp] at h2; simp at h2
            rw [hpre] at h2
            simp only [List.nil_append, List.cons.injEq] at h2
            obtain ⟨hke, hpost⟩ := h2
            have hce1 : (chainEnd p 0 d0 s.log).1 = k := by rw [← hke]
            have hce2 : (chainEnd p 0 d0 s.log).2 = x.due := by rw [← hke]
            have hca := chain_append p s.log 0 d0 { k := k, at_ := if x.due > s.clock then x.due else s.clock, due := x.due }
            refine ⟨?_, ?_⟩
            · show ChainOK p 0 d0 (s.log ++ [_])
              rw [hca.1]
              exact ⟨h1, hce1.symm, hce2.symm, by rw [hce2]; simp only; split <;> omega⟩
            · show ticks (q'.items ++ [_]) = [chainEnd p 0 d0 (s.log ++ [_])]
              rw [hca.2, hr, ticks_append, ticks_append, hpre, hpost, hce1, hce2]
              simp [ticks, tickOf]

theorem ginv_loop (p : Int) (cost : Nat → Nat) (T : Int) (d0 : Int) : ∀ (n : Nat) (s : St), GInv p d0 s →
    GInv p d0 (loopFuel p cost T n s).1 := by
  intro n
  induction n with
  | zero => intro s h; exact h
  | succ n ih =>
    intro s h
    have hi := ginv_iter p cost T d0 s h
    simp only [loopFuel]
    cases hit : iter p cost T s with
    | exit s' => rw [hit] at hi; exact hi
    | next s' => rw [hit] at hi; exact ih s' hi
    | stuck s' => rw [hit] at hi; exact hi

/-- while no tick runs a period or more late, the chain stays on the grid `n, n + p, n + 2p, …` -/
theorem chain_on_grid (p : Int) : ∀ (l : List Ran) (k : Nat) (n : Int), ChainOK p k n l →
    (∀ e ∈ l, e.at_ < e.due + p) →
    (∀ e ∈ l, e.due = n + ((e.k : Int) - k) * p) ∧ chainEnd p k n l = (k + l.length, n + (l.length : Int) * p) := by
  intro l
  induction l with
  | nil => intro k n _ _; simp [chainEnd]
  | cons a l ih =>
    intro k n h hl
    obtain ⟨hk, hd, hle, hrest⟩ := h
    have ha := hl a (by simp)
    have hnext : nextDue p n a.at_ = n + p := by
      simp only [nextDue]; rw [hd] at ha; split <;> omega
    rw [hnext] at hrest
    obtain ⟨ih1, ih2⟩ := ih (k + 1) (n + p) hrest (fun e he => hl e (by simp [he]))
    refine ⟨?_, ?_⟩
    · intro e he
      rcases List.mem_cons.1 he with rfl | he
      · rw [hd, hk]; simp
      · rw [ih1 e he]; push_cast; rw [Int.sub_mul, Int.sub_mul, Int.add_mul]; omega
    · simp only [chainEnd, hnext, ih2, List.length_cons]
      refine Prod.ext (by simp only; omega) ?_
      simp only; push_cast; rw [Int.add_mul]; omega

/-- consecutive emissions: numbered consecutively, and the later due time is the earlier one re-based by `nextDue` -/
theorem chain_step (p : Int) : ∀ (l : List Ran) (k : Nat) (n : Int), ChainOK p k n l →
    ∀ (i : Nat) (a b : Ran), l[i]? = some a → l[i + 1]? = some b →
      b.k = a.k + 1 ∧ b.due = nextDue p a.due a.at_ ∧ a.due ≤ a.at_ := by
  intro l
  induction l with
  | nil => intro k n _ i a b ha; simp at ha
  | cons x l ih =>
    intro k n h i a b ha hb
    obtain ⟨hk, hd, hle, hrest⟩ := h
    cases i with
    | zero =>
      simp at ha; subst ha
      simp only [List.getElem?_cons_succ] at hb
      cases l with
      | nil => simp at hb
      | cons y l =>
        simp at hb; subst hb
        obtain ⟨hk2, hd2, _, _⟩ := hrest
        exact ⟨by rw [hk2, hk], by rw [hd2, hd], by rw [hd]; exact hle⟩
    | succ i =>
      simp only [List.getElem?_cons_succ] at ha hb
      exact ih (k + 1) _ hrest i a b ha hb

theorem ticks_blocks (l : List (Int × Nat)) (s : St) :
    ticks (l.foldl (fun s b => scheduleBlock s b.1 b.2) s).queue.items = ticks s.queue.items := by
  induction l generalizing s with
  | nil => rfl
  | cons b l ih =>
    rw [List.foldl_cons, ih]
    simp [scheduleBlock, enqueue, PQ.enqueue, ticks_append, ticks, tickOf]

theorem log_blocks (l : List (Int × Nat)) (s : St) :
    (l.foldl (fun s b => scheduleBlock s b.1 b.2) s).log = s.log ∧
    (l.foldl (fun s b => scheduleBlock s b.1 b.2) s).clock = s.clock ∧
    (l.foldl (fun s b => scheduleBlock s b.1 b.2) s).enabled = s.enabled := by
  induction l generalizing s with
  | nil => exact ⟨rfl, rfl, rfl⟩
  | cons b l ih => rw [List.foldl_cons]; exact ih _

end Tmr

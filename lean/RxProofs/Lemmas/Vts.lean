import RxModel.Vts
import RxProofs.Lemmas.VtsPQ
/-!
Helper lemmas for the `VTS` model (C28, C29, C42): unfolding of the well-founded `loop`, case analysis of
one iteration, and a generic invariant principle (`IterInv`/`loop_inv2`) that reduces "P holds after any
run" to "P is preserved by the primitive effects" (dequeue+clock update, log, enqueue, cancel, stop, sleep,
handler call).
-/

namespace Vts


theorem loop_unfold (cfg : Cfg) (tgt : Option Int) (s : St) :
    loop cfg tgt s =
      match iter cfg tgt s with
      | .exit s' => (s', .ok)
      | .next _ s' => loop cfg tgt s'
      | .raised s' e => (s', .raised e)
      | .stuck s' => (s', .stuck) := by
  rw [loop]
  split <;> simp_all

theorem loop_inv {cfg : Cfg} {tgt : Option Int} (P : St → Prop)
    (h : ∀ s, P s → P (iter cfg tgt s).st) : ∀ s, P s → P (loop cfg tgt s).1 := by
  intro s
  induction hn : s.queue.nodes using Nat.strongRecOn generalizing s with
  | _ n ih =>
    intro hp
    rw [loop_unfold]
    have := h s hp
    cases hi : iter cfg tgt s with
    | exit s' => simpa [hi, Iter.st] using this
    | next x s' =>
      simp only [hi, Iter.st] at this ⊢
      exact ih _ (by subst hn; exact iter_next_nodes hi) s' rfl this
    | raised s' e => simpa [hi, Iter.st] using this
    | stuck s' => simpa [hi, Iter.st] using this

theorem loop_eq_loopFuel (cfg : Cfg) (tgt : Option Int) : ∀ (n : Nat) (s : St), s.queue.nodes < n →
    loop cfg tgt s = loopFuel cfg tgt n s := by
  intro n
  induction n with
  | zero => intro s h; omega
  | succ n ih =>
    intro s h
    rw [loop_unfold, loopFuel]
    cases hi : iter cfg tgt s with
    | next x s' =>
      simp only
      exact ih s' (by have := iter_next_nodes hi; omega)
    | _ => rfl


/-- the clock right after the locked block of one iteration, for dequeued item `x` -/
def tickClock (cfg : Cfg) (tgt : Option Int) (s : St) (x : Item) : Int :=
  if x.due > s.clock then x.due
  else if tgt.isNone && decide (s.spin > cfg.maxSpin) then s.clock + cfg.bump
  else s.clock

theorem tick_cases {cfg : Cfg} {tgt : Option Int} {s s1 : St} {x : Item} {q' : PQ Item}
    (h : tick cfg tgt s x q' = some s1) :
    ∃ sp, s1 = { s with clock := tickClock cfg tgt s x, spin := sp, queue := q' } := by
  simp only [tick] at h
  simp only [tickClock]
  split at h
  · simp at h; subst h; exact ⟨(if tgt.isNone then 0 else s.spin), by simp [*]⟩
  · split at h
    · split at h
      · simp at h
      · simp at h; subst h; exact ⟨0, by simp [*]⟩
    · simp at h; subst h; exact ⟨s.spin, by simp [*]⟩

theorem iter_cases (cfg : Cfg) (tgt : Option Int) (s : St) :
    (iter cfg tgt s = .exit s ∧
      (s.enabled = false ∨ s.queue.items = [] ∨
        ∃ x q', s.queue.dequeue? Item.due = some (x, q') ∧ pastTarget tgt x = true)) ∨
    (∃ x q', s.enabled = true ∧ s.queue.dequeue? Item.due = some (x, q') ∧ pastTarget tgt x = false ∧
      ((tick cfg tgt s x q' = none ∧ iter cfg tgt s = .stuck s) ∨
        ∃ s1, tick cfg tgt s x q' = some s1 ∧ iter cfg tgt s = fin cfg tgt s1 x)) := by
  simp only [iter]
  by_cases hen : s.enabled = false
  · left; simp [hen]
  · simp only [hen, if_false]
    cases hd : s.queue.dequeue? Item.due with
    | none => left; simp [(PQ.dequeue_none Item.due).1 hd]
    | some xq =>
      obtain ⟨x, q'⟩ := xq
      simp only
      by_cases hpt : pastTarget tgt x = true
      · left; simp [hpt]
      · right
        refine ⟨x, q', by simpa using hen, rfl, by simpa using hpt, ?_⟩
        simp only [hpt, if_false]
        cases ht : tick cfg tgt s x q' with
        | none => left; simp
        | some s1 => right; exact ⟨s1, rfl, rfl⟩

theorem fin_cases (cfg : Cfg) (tgt : Option Int) (s : St) (x : Item) :
    (x.cancelled = true ∧ fin cfg tgt s x =
        .next x { s with skipped := s.skipped ++ [x.id], spin := if tgt.isNone then s.spin + 1 else s.spin }) ∨
    (x.cancelled = false ∧
      ((∃ s', invoke cfg x s = (s', none) ∧ fin cfg tgt s x =
          .next x { s' with spin := if tgt.isNone then s'.spin + 1 else s'.spin }) ∨
       (∃ s' e, invoke cfg x s = (s', some e) ∧ fin cfg tgt s x = .raised s' e))) := by
  simp only [fin]
  cases hc : x.cancelled with
  | true => left; simp
  | false =>
    right
    refine ⟨rfl, ?_⟩
    cases hi : invoke cfg x s with
    | mk s' r =>
      cases r with
      | none => left; exact ⟨s', rfl, by simp⟩
      | some e => right; exact ⟨s', e, rfl, by simp⟩

theorem invoke_cases (cfg : Cfg) (x : Item) (s : St) :
    let r := exec x.wrapped x.body
      { s with log := s.log ++ [{ id := x.id, at_ := s.clock, due := x.due, seq := x.seq }] }
    (r.2 = none ∧ invoke cfg x s = (r.1.attachRet x.id x.body.retOf, none)) ∨
    (∃ e, r.2 = some e ∧ x.wrapped = false ∧ invoke cfg x s = (r.1, some e)) ∨
    (∃ e, r.2 = some e ∧ x.wrapped = true ∧
      invoke cfg x s = ({ r.1 with hlog := r.1.hlog ++ [e] }, if cfg.handler r.1.hlog.length e then none else some e)) := by
  intro r
  simp only [invoke]
  rcases hr : r with ⟨s1, o⟩
  have : exec x.wrapped x.body
      { s with log := s.log ++ [{ id := x.id, at_ := s.clock, due := x.due, seq := x.seq }] } = (s1, o) := hr
  rw [this]
  cases o with
  | none => left; simp
  | some e =>
    right
    cases hw : x.wrapped with
    | false => left; exact ⟨e, rfl, rfl, by simp⟩
    | true =>
      right
      refine ⟨e, rfl, rfl, ?_⟩
      simp only [if_true]
      split <;> simp

/-- shallow description of one step of an action body -/
inductive Step where
  | raise (e : Err)
  | sched (via : Via) (m : Mode) (t : Int) (cid : Nat)
  | cancel (id : Nat)
  | stop
  | sleep (t : Int)
  | ctl (c : Ctl)

/-- every step of the action and of all its descendants satisfies `φ` -/
def Act.All (φ : Step → Prop) : Act → Prop
  | .done => True
  | .raise e => φ (.raise e)
  | .sched via m t cid c r => φ (.sched via m t cid) ∧ c.All φ ∧ r.All φ
  | .cancel id r => φ (.cancel id) ∧ r.All φ
  | .stop r => φ .stop ∧ r.All φ
  | .sleep t r => φ (.sleep t) ∧ r.All φ
  | .ctl c r => φ (.ctl c) ∧ r.All φ
  | .ret _ => True

/-- where an exception escaping an action body can come from: a `raise`, a negative `sleep`, an out-of-range
re-entrant `advance_to`/`advance_by` that the action does not catch -/
def RaisedBy (φ : Step → Prop) (e : Err) : Prop :=
  φ (.raise e) ∨ (∃ t, φ (.sleep t) ∧ t < 0 ∧ e = aoor) ∨ (∃ c, φ (.ctl c) ∧ e = aoor)

/-- every pending action satisfies `φ` hereditarily -/
def QAll (φ : Step → Prop) (s : St) : Prop := ∀ e ∈ s.queue.items, e.1.body.All φ

theorem qall_enqueue {φ} {s : St} (h : QAll φ s) (id : Nat) (due : Int) (b : Act) (w : Bool) (hb : b.All φ) :
    QAll φ (s.enqueue id due b w) := by
  intro e he
  simp only [St.enqueue, PQ.enqueue, List.mem_append, List.mem_singleton] at he
  rcases he with he | rfl
  · exact h e he
  · exact hb

theorem qall_cancel {φ} {s : St} (h : QAll φ s) (id : Nat) : QAll φ (s.cancel id) := by
  intro e he
  simp only [St.cancel, List.mem_map] at he
  obtain ⟨e0, he0, rfl⟩ := he
  have := h e0 he0
  simp only [cancelEntry]
  split <;> exact this

theorem foldl_cancel_inv {R : St → Prop} (hcancel : ∀ s id, R s → R (s.cancel id)) :
    ∀ (l : List Nat) (s : St), R s → R (l.foldl St.cancel s) := by
  intro l
  induction l with
  | nil => intro s h; exact h
  | cons a l ih => intro s h; exact ih _ (hcancel s a h)

/-- whatever is preserved by disposing one handle is preserved by `dispose` (the handle and what it returned, transitively) -/
theorem dispose_inv {R : St → Prop} (hcancel : ∀ s id, R s → R (s.cancel id)) (s : St) (id : Nat) (h : R s) :
    R (s.dispose id) :=
  foldl_cancel_inv hcancel _ s h

theorem qall_dispose {φ} {s : St} (h : QAll φ s) (id : Nat) : QAll φ (s.dispose id) :=
  dispose_inv (R := QAll φ) (fun _ id h => qall_cancel h id) s id h

/-- … and by attaching the disposable an action returned, if it is also insensitive to the `links` bookkeeping -/
theorem attachRet_inv {R : St → Prop} (hcancel : ∀ s id, R s → R (s.cancel id))
    (hlink : ∀ s l, R s → R { s with links := l }) (s : St) (id : Nat) (r : Option Nat) (h : R s) :
    R (s.attachRet id r) := by
  cases r with
  | none => exact h
  | some c =>
    simp only [St.attachRet]
    split
    · exact dispose_inv hcancel _ c (hlink s _ h)
    · exact hlink s _ h

/-- The effect of running an action body, step by step: `R` is preserved by the primitive effects. -/
theorem exec_inv (φ : Step → Prop) (R : St → Prop) (w : Bool)
    (henq : ∀ s via m t cid child, φ (.sched via m t cid) → child.All φ → R s →
      R (s.enqueue cid (dueOf s.clock m t) child (childWrapped w via)))
    (hcancel : ∀ s id, R s → R (s.cancel id))
    (hstop : ∀ s, φ .stop → R s → R { s with enabled := false })
    (hsleep : ∀ s t, φ (.sleep t) → 0 ≤ t → R s → R { s with clock := s.clock + t }) :
    ∀ (a : Act) (s : St), a.All φ → QAll φ s → R s →
      R (exec w a s).1 ∧ QAll φ (exec w a s).1 ∧
      (∀ e, (exec w a s).2 = some e → RaisedBy φ e) := by
  intro a
  induction a with
  | done => intro s _ hq hr; simp [exec, hq, hr]
  | raise e => intro s ha hq hr; simp only [exec]; exact ⟨hr, hq, by intro e' he'; simp at he'; subst he'; exact Or.inl ha⟩
  | sched via m t cid child rest _ ih =>
    intro s ha hq hr
    obtain ⟨h1, h2, h3⟩ := ha
    simp only [exec]
    exact ih _ h3 (qall_enqueue hq _ _ _ _ h2) (henq s via m t cid child h1 h2 hr)
  | cancel id rest ih =>
    intro s ha hq hr
    simp only [exec]
    exact ih _ ha.2 (qall_dispose hq id) (dispose_inv hcancel s id hr)
  | stop rest ih =>
    intro s ha hq hr
    simp only [exec]
    exact ih _ ha.2 hq (hstop s ha.1 hr)
  | sleep t rest ih =>
    intro s ha hq hr
    simp only [exec]
    split
    · next hlt => exact ⟨hr, hq, by intro e he; simp at he; exact Or.inr (Or.inl ⟨t, ha.1, hlt, he.symm⟩)⟩
    · next hge => exact ih _ ha.2 hq (hsleep s t ha.1 (by omega) hr)
  | ctl c rest ih =>
    intro s ha hq hr
    simp only [exec]
    split
    · exact ⟨hr, hq, by intro e he; simp at he; exact Or.inr (Or.inr ⟨c, ha.1, he.symm⟩)⟩
    · exact ih _ ha.2 hq hr
  | ret c => intro s _ hq hr; simp [exec, hq, hr]

/-- What has to be shown for an invariant `P` (between iterations) / `R x` (while item `x` runs). -/
structure IterInv (cfg : Cfg) (tgt : Option Int) (φ : Step → Prop) (P : St → Prop) (R : Item → St → Prop) : Prop where
  skip : ∀ s x q' sp, P s → QAll φ s → s.enabled = true → s.queue.dequeue? Item.due = some (x, q') →
    pastTarget tgt x = false → x.cancelled = true →
    P { s with clock := tickClock cfg tgt s x, spin := sp, queue := q', skipped := s.skipped ++ [x.id] }
  begin : ∀ s x q' sp, P s → QAll φ s → s.enabled = true → s.queue.dequeue? Item.due = some (x, q') →
    pastTarget tgt x = false → x.cancelled = false →
    R x { s with clock := tickClock cfg tgt s x, spin := sp, queue := q',
                 log := s.log ++ [{ id := x.id, at_ := tickClock cfg tgt s x, due := x.due, seq := x.seq }] }
  enq : ∀ x s via m t cid child, φ (.sched via m t cid) → child.All φ → R x s →
    R x (s.enqueue cid (dueOf s.clock m t) child (childWrapped x.wrapped via))
  cancel : ∀ x s id, R x s → R x (s.cancel id)
  /-- the bookkeeping of returned disposables (`links`) does not matter -/
  link : ∀ x s l, R x s → R x { s with links := l }
  stop : ∀ x s, φ .stop → R x s → R x { s with enabled := false }
  sleep : ∀ x s t, φ (.sleep t) → 0 ≤ t → R x s → R x { s with clock := s.clock + t }
  handled : ∀ x s e, x.wrapped = true → RaisedBy φ e → R x s →
    R x { s with hlog := s.hlog ++ [e] }
  finish : ∀ x s sp, R x s → P { s with spin := sp }

theorem dequeue_mem {q q' : PQ Item} {x : Item} (h : q.dequeue? Item.due = some (x, q')) :
    (∃ c, (x, c) ∈ q.items) ∧ ∀ e ∈ q'.items, e ∈ q.items := by
  simp only [PQ.dequeue?] at h
  cases hp : popMinBy (PQ.entryLt Item.due) q.items with
  | none => rw [hp] at h; simp at h
  | some mr =>
    obtain ⟨m, r⟩ := mr
    rw [hp] at h
    simp at h
    obtain ⟨rfl, rfl⟩ := h
    obtain ⟨pre, post, hl, hr, _, _⟩ :=
      popMinBy_split _ (PQ.entryLt_trans Item.due) (PQ.entryLt_negtrans Item.due) _ _ _ hp
    refine ⟨⟨m.2, by rw [hl]; simp⟩, ?_⟩
    intro e he
    simp only at he
    rw [hr] at he
    rw [hl]
    simp only [List.mem_append, List.mem_cons] at he ⊢
    rcases he with he | he
    · exact Or.inl he
    · exact Or.inr (Or.inr he)

theorem iter_inv {cfg : Cfg} {tgt : Option Int} {φ : Step → Prop} {P : St → Prop} {R : Item → St → Prop}
    (I : IterInv cfg tgt φ P R) (s : St) (hP : P s) (hQ : QAll φ s) :
    P (iter cfg tgt s).st ∧ QAll φ (iter cfg tgt s).st := by
  rcases iter_cases cfg tgt s with ⟨he, _⟩ | ⟨x, q', hen, hd, hpt, ⟨_, hst⟩ | ⟨s1, ht, hi⟩⟩
  · rw [he]; exact ⟨hP, hQ⟩
  · rw [hst]; exact ⟨hP, hQ⟩
  · rw [hi]
    obtain ⟨sp, rfl⟩ := tick_cases ht
    obtain ⟨⟨c, hxc⟩, hq'⟩ := dequeue_mem hd
    have hxall : x.body.All φ := hQ _ hxc
    have hQ' : ∀ (st : St), st.queue = q' → QAll φ st := by
      intro st hst e he; rw [hst] at he; exact hQ e (hq' e he)
    rcases fin_cases cfg tgt { s with clock := tickClock cfg tgt s x, spin := sp, queue := q' } x with
      ⟨hc, hf⟩ | ⟨hc, ⟨s', hinv, hf⟩ | ⟨s', e, hinv, hf⟩⟩
    · rw [hf]
      exact ⟨I.skip s x q' _ hP hQ hen hd hpt hc, hQ' _ rfl⟩
    all_goals
      rw [hf]
      simp only [Iter.st]
      have hR := I.begin s x q' sp hP hQ hen hd hpt hc
      have hex := exec_inv φ (R x) x.wrapped (I.enq x) (I.cancel x) (I.stop x) (I.sleep x) x.body _ hxall
        (hQ' { s with clock := tickClock cfg tgt s x, spin := sp, queue := q',
                      log := s.log ++ [{ id := x.id, at_ := tickClock cfg tgt s x, due := x.due, seq := x.seq }] } rfl) hR
      obtain ⟨hR', hQ'', hraise⟩ := hex
      rcases invoke_cases cfg x { s with clock := tickClock cfg tgt s x, spin := sp, queue := q' } with
        ⟨_, h2⟩ | ⟨e', h1, _, h2⟩ | ⟨e', h1, hw, h2⟩
      all_goals
        rw [hinv] at h2
        simp only [Prod.mk.injEq] at h2
        obtain ⟨rfl, h2b⟩ := h2
      all_goals try (simp at h2b; done)
    · exact ⟨I.finish x _ _ (attachRet_inv (I.cancel x) (I.link x) _ _ _ hR'),
        attachRet_inv (R := QAll φ) (fun _ id h => qall_cancel h id) (fun _ _ h => h) _ _ _ hQ''⟩
    · exact ⟨I.finish x _ _ (I.handled x _ e' hw (hraise e' h1) hR'), hQ''⟩
    · have := I.finish x _ (exec x.wrapped x.body
        { s with clock := tickClock cfg tgt s x, spin := sp, queue := q',
                 log := s.log ++ [{ id := x.id, at_ := tickClock cfg tgt s x, due := x.due, seq := x.seq }] }).1.spin hR'
      exact ⟨this, hQ''⟩
    · have := I.finish x _ (exec x.wrapped x.body
        { s with clock := tickClock cfg tgt s x, spin := sp, queue := q',
                 log := s.log ++ [{ id := x.id, at_ := tickClock cfg tgt s x, due := x.due, seq := x.seq }] }).1.spin
          (I.handled x _ e' hw (hraise e' h1) hR')
      exact ⟨this, hQ''⟩

/-- an invariant of the iterations holds after the whole loop -/
theorem loop_inv2 {cfg : Cfg} {tgt : Option Int} {φ : Step → Prop} {P : St → Prop} {R : Item → St → Prop}
    (I : IterInv cfg tgt φ P R) (s : St) (hP : P s) (hQ : QAll φ s) :
    P (loop cfg tgt s).1 ∧ QAll φ (loop cfg tgt s).1 :=
  loop_inv (fun s => P s ∧ QAll φ s) (fun s h => iter_inv I s h.1 h.2) s ⟨hP, hQ⟩

/-- when the loop ends normally, its own exit test holds in the final state -/
theorem loop_ok_exit {cfg : Cfg} {tgt : Option Int} : ∀ (s s' : St), loop cfg tgt s = (s', .ok) →
    iter cfg tgt s' = .exit s' := by
  intro s
  induction hn : s.queue.nodes using Nat.strongRecOn generalizing s with
  | _ n ih =>
    intro s' h
    rw [loop_unfold] at h
    cases hi : iter cfg tgt s with
    | exit s1 =>
      rw [hi] at h
      simp at h
      subst h
      rcases iter_cases cfg tgt s with ⟨he, _⟩ | ⟨x, q', _, _, _, ⟨_, hst⟩ | ⟨s2, _, hf⟩⟩
      · rw [he] at hi; simp at hi; subst hi; exact he
      · rw [hst] at hi; simp at hi
      · rw [hf] at hi
        rcases fin_cases cfg tgt s2 x with ⟨_, h2⟩ | ⟨_, ⟨_, _, h2⟩ | ⟨_, _, _, h2⟩⟩ <;> rw [h2] at hi <;> simp at hi
    | next x s1 =>
      rw [hi] at h
      exact ih _ (by subst hn; exact iter_next_nodes hi) s1 rfl s' h
    | raised s1 e => rw [hi] at h; simp at h
    | stuck s1 => rw [hi] at h; simp at h



def anyStep : Step → Prop := fun _ => True

theorem all_any (a : Act) : a.All anyStep := by
  induction a <;> simp_all [Act.All, anyStep]

theorem qall_any (s : St) : QAll anyStep s := fun e _ => all_any e.1.body

/-- running an action body leaves `log`, `skipped`, `hlog`, `spin` alone -/
theorem exec_frame (w : Bool) (a : Act) (s : St) :
    (exec w a s).1.log = s.log ∧ (exec w a s).1.skipped = s.skipped ∧ (exec w a s).1.hlog = s.hlog ∧
    (exec w a s).1.spin = s.spin := by
  have := exec_inv anyStep (fun s' => s'.log = s.log ∧ s'.skipped = s.skipped ∧ s'.hlog = s.hlog ∧ s'.spin = s.spin) w
    (by intro s' via m t cid child _ _ h; simpa [St.enqueue] using h)
    (by intro s' id h; simpa [St.cancel] using h)
    (by intro s' _ h; simpa using h)
    (by intro s' t _ _ h; simpa using h) a s (all_any a) (qall_any s) ⟨rfl, rfl, rfl, rfl⟩
  exact this.1

/-- attaching a returned disposable touches only the pending items' `cancelled` marks and the handle bookkeeping -/
theorem attachRet_frame (s : St) (id : Nat) (r : Option Nat) :
    (s.attachRet id r).log = s.log ∧ (s.attachRet id r).skipped = s.skipped ∧ (s.attachRet id r).hlog = s.hlog ∧
    (s.attachRet id r).spin = s.spin ∧ (s.attachRet id r).clock = s.clock ∧ (s.attachRet id r).enabled = s.enabled ∧
    (s.attachRet id r).nsched = s.nsched ∧ (s.attachRet id r).queue.items.length = s.queue.items.length ∧
    (s.attachRet id r).queue.count = s.queue.count :=
  attachRet_inv (R := fun s' => s'.log = s.log ∧ s'.skipped = s.skipped ∧ s'.hlog = s.hlog ∧ s'.spin = s.spin ∧
      s'.clock = s.clock ∧ s'.enabled = s.enabled ∧ s'.nsched = s.nsched ∧
      s'.queue.items.length = s.queue.items.length ∧ s'.queue.count = s.queue.count)
    (by intro s' id h; simpa [St.cancel] using h) (by intro s' l h; exact h) s id r
    ⟨rfl, rfl, rfl, rfl, rfl, rfl, rfl, rfl, rfl⟩

theorem invoke_log (cfg : Cfg) (x : Item) (s : St) :
    (invoke cfg x s).1.log = s.log ++ [{ id := x.id, at_ := s.clock, due := x.due, seq := x.seq }] := by
  have hf := exec_frame x.wrapped x.body
    { s with log := s.log ++ [{ id := x.id, at_ := s.clock, due := x.due, seq := x.seq }] }
  rcases invoke_cases cfg x s with ⟨_, h⟩ | ⟨e, _, _, h⟩ | ⟨e, _, _, h⟩ <;> rw [h] <;> simp [hf.1, (attachRet_frame _ _ _).1]

/-- One iteration appends at most one entry to the log, and that entry belongs to the item the queue
handed out (which was not cancelled and not past the target), stamped with the clock of `tickClock`. -/
theorem iter_log (cfg : Cfg) (tgt : Option Int) (s : St) :
    (iter cfg tgt s).st.log = s.log ∨
    ∃ x q', s.enabled = true ∧ s.queue.dequeue? Item.due = some (x, q') ∧ pastTarget tgt x = false ∧
      x.cancelled = false ∧
      (iter cfg tgt s).st.log = s.log ++ [{ id := x.id, at_ := tickClock cfg tgt s x, due := x.due, seq := x.seq }] := by
  rcases iter_cases cfg tgt s with ⟨he, _⟩ | ⟨x, q', hen, hd, hpt, ⟨_, hst⟩ | ⟨s1, ht, hi⟩⟩
  · left; rw [he]; rfl
  · left; rw [hst]; rfl
  · obtain ⟨sp, rfl⟩ := tick_cases ht
    rw [hi]
    rcases fin_cases cfg tgt { s with clock := tickClock cfg tgt s x, spin := sp, queue := q' } x with
      ⟨hc, hf⟩ | ⟨hc, ⟨s', hinv, hf⟩ | ⟨s', e, hinv, hf⟩⟩
    · left; rw [hf]; rfl
    · right
      refine ⟨x, q', hen, hd, hpt, hc, ?_⟩
      rw [hf]
      have := invoke_log cfg x { s with clock := tickClock cfg tgt s x, spin := sp, queue := q' }
      rw [hinv] at this
      simpa [Iter.st] using this
    · right
      refine ⟨x, q', hen, hd, hpt, hc, ?_⟩
      rw [hf]
      have := invoke_log cfg x { s with clock := tickClock cfg tgt s x, spin := sp, queue := q' }
      rw [hinv] at this
      simpa [Iter.st] using this

theorem tickClock_ge (cfg : Cfg) (hb : 0 ≤ cfg.bump) (tgt : Option Int) (s : St) (x : Item) :
    s.clock ≤ tickClock cfg tgt s x ∧ x.due ≤ tickClock cfg tgt s x := by
  simp only [tickClock]
  split
  · omega
  · split <;> omega



def noSleep : Step → Prop
  | .sleep _ => False
  | _ => True

/-- without `sleep` inside actions the loop of `advance_to(T)` never moves the clock beyond `T` -/
theorem loop_adv_clock_le (cfg : Cfg) (T : Int) (φ : Step → Prop) (hφ : ∀ st, φ st → noSleep st) (s : St)
    (hq : QAll φ s) (h : s.clock ≤ T) : (loop cfg (some T) s).1.clock ≤ T := by
  have I : IterInv cfg (some T) φ (fun s => s.clock ≤ T) (fun _ s => s.clock ≤ T) := {
    skip := by
      intro s x q' sp hP _ _ _ hpt _
      simp only [pastTarget, decide_eq_false_iff_not] at hpt
      simp only [tickClock, Option.isNone_some, Bool.false_and, Bool.false_eq_true, if_false]
      split <;> omega
    begin := by
      intro s x q' sp hP _ _ _ hpt _
      simp only [pastTarget, decide_eq_false_iff_not] at hpt
      simp only [tickClock, Option.isNone_some, Bool.false_and, Bool.false_eq_true, if_false]
      split <;> omega
    enq := by intro x s via m t cid child _ _ h; simpa [St.enqueue] using h
    cancel := by intro x s id h; simpa [St.cancel] using h
    link := by intro x s l h; exact h
    stop := by intro x s _ h; simpa using h
    sleep := by intro x s t hs _ _; exact absurd (hφ _ hs) (by simp [noSleep])
    handled := by intro x s e _ _ h; simpa using h
    finish := by intro x s sp h; simpa using h }
  exact (loop_inv2 I s h hq).1

/-- `top id mode t` constrains the top-level scheduling calls, `φ` the steps of all actions -/
def Op.AllT (top : Nat → Mode → Int → Prop) (φ : Step → Prop) : Op → Prop
  | .sched _ m t id body => top id m t ∧ body.All φ
  | _ => True

def Op.All (φ : Step → Prop) : Op → Prop := Op.AllT (fun _ _ _ => True) φ

/-- Script-level invariant principle.  `P` must be preserved by the iterations of both loops (`IterInv`),
by the flag/spin bookkeeping, by top-level scheduling and cancelling, and by the clock assignments of
`sleep`/`advance_to` — either `P` ignores the clock, or it tolerates forward moves and no action sleeps. -/
theorem doOp_inv {cfg : Cfg} {φ : Step → Prop} {top : Nat → Mode → Int → Prop} {P : St → Prop}
    {R : Option Int → Item → St → Prop}
    (I : ∀ tgt, IterInv cfg tgt φ P (R tgt))
    (hflag : ∀ s b sp, P s → P { s with enabled := b, spin := sp })
    (henq : ∀ s id m t b w, top id m t → b.All φ → P s → P (s.enqueue id (dueOf s.clock m t) b w))
    (hcancel : ∀ s id, P s → P (s.cancel id))
    (hclk : (∀ s c, P s → P { s with clock := c }) ∨
            ((∀ s c, s.clock ≤ c → P s → P { s with clock := c }) ∧ ∀ st, φ st → noSleep st))
    (s : St) (op : Op) (hop : op.AllT top φ) (hP : P s) (hQ : QAll φ s) :
    P (doOp cfg s op).1 ∧ QAll φ (doOp cfg s op).1 := by
  have hfl : ∀ (s : St) b sp, QAll φ s → QAll φ { s with enabled := b, spin := sp } := fun _ _ _ h => h
  cases op with
  | sched w m t id body => exact ⟨henq s id m t body w hop.1 hop.2 hP, qall_enqueue hQ _ _ _ _ hop.2⟩
  | cancel id => exact ⟨dispose_inv hcancel s id hP, qall_dispose hQ id⟩
  | stop =>
    have := hflag s false s.spin hP
    exact ⟨this, hQ⟩
  | sleep t =>
    simp only [doOp, sleep]
    split
    · exact ⟨hP, hQ⟩
    · refine ⟨?_, hQ⟩
      rcases hclk with h | ⟨h, _⟩
      · exact h s _ hP
      · exact h s _ (by omega) hP
  | start =>
    simp only [doOp, start]
    split
    · exact ⟨hP, hQ⟩
    · have h1 := loop_inv2 (I none) { s with enabled := true, spin := 0 } (hflag s true 0 hP) hQ
      split
      · next s' heq =>
        rw [heq] at h1
        have := hflag s' false s'.spin h1.1
        exact ⟨this, h1.2⟩
      · next r hne =>
        rcases hr : loop cfg none { s with enabled := true, spin := 0 } with ⟨s', o⟩
        rw [hr] at h1
        exact h1
  | advanceTo T =>
    simp only [doOp, advanceTo]
    split
    · exact ⟨hP, hQ⟩
    · split
      · exact ⟨hP, hQ⟩
      · next hle hne =>
        have h1 := loop_inv2 (I (some T)) { s with enabled := true } (hflag s true s.spin hP) hQ
        split
        · next s' heq =>
          rw [heq] at h1
          refine ⟨?_, h1.2⟩
          have h2 := hflag s' false s'.spin h1.1
          rcases hclk with h | ⟨h, hns⟩
          · exact h _ T h2
          · have := loop_adv_clock_le cfg T φ hns { s with enabled := true } hQ (by simp only; omega)
            rw [heq] at this
            exact h { s' with enabled := false } T this h2
        · rcases hr : loop cfg (some T) { s with enabled := true } with ⟨s', o⟩
          rw [hr] at h1
          exact h1
  | advanceBy t =>
    simp only [doOp, advanceBy, advanceTo]
    split
    · exact ⟨hP, hQ⟩
    · split
      · exact ⟨hP, hQ⟩
      · next hle hne =>
        have h1 := loop_inv2 (I (some (s.clock + t))) { s with enabled := true } (hflag s true s.spin hP) hQ
        split
        · next s' heq =>
          rw [heq] at h1
          refine ⟨?_, h1.2⟩
          have h2 := hflag s' false s'.spin h1.1
          rcases hclk with h | ⟨h, hns⟩
          · exact h _ _ h2
          · have := loop_adv_clock_le cfg (s.clock + t) φ hns { s with enabled := true } hQ (by simp only; omega)
            rw [heq] at this
            exact h { s' with enabled := false } _ this h2
        · rcases hr : loop cfg (some (s.clock + t)) { s with enabled := true } with ⟨s', o⟩
          rw [hr] at h1
          exact h1

theorem runOps_inv {cfg : Cfg} {φ : Step → Prop} {top : Nat → Mode → Int → Prop} {P : St → Prop}
    {R : Option Int → Item → St → Prop}
    (I : ∀ tgt, IterInv cfg tgt φ P (R tgt))
    (hflag : ∀ s b sp, P s → P { s with enabled := b, spin := sp })
    (henq : ∀ s id m t b w, top id m t → b.All φ → P s → P (s.enqueue id (dueOf s.clock m t) b w))
    (hcancel : ∀ s id, P s → P (s.cancel id))
    (hclk : (∀ s c, P s → P { s with clock := c }) ∨
            ((∀ s c, s.clock ≤ c → P s → P { s with clock := c }) ∧ ∀ st, φ st → noSleep st)) :
    ∀ (ops : List Op) (s : St), (∀ op ∈ ops, op.AllT top φ) → P s → QAll φ s →
      P (runOps cfg s ops).1 ∧ QAll φ (runOps cfg s ops).1 := by
  intro ops
  induction ops with
  | nil => intro s _ hP hQ; exact ⟨hP, hQ⟩
  | cons op ops ih =>
    intro s hops hP hQ
    have h1 := doOp_inv I hflag henq hcancel hclk s op (hops op (by simp)) hP hQ
    simp only [runOps]
    rcases hd : doOp cfg s op with ⟨s', o⟩
    rw [hd] at h1
    cases o with
    | stuck => exact h1
    | ok => exact ih s' (fun op h => hops op (by simp [h])) h1.1 h1.2
    | raised e => exact ih s' (fun op h => hops op (by simp [h])) h1.1 h1.2

/-! fuel versions of `start`/`advance_to` (evaluable by `decide`) -/

def startFuel (cfg : Cfg) (n : Nat) (s : St) : St × Out :=
  if s.enabled then (s, .ok)
  else
    match loopFuel cfg none n { s with enabled := true, spin := 0 } with
    | (s', .ok) => ({ s' with enabled := false }, .ok)
    | r => r

def advanceToFuel (cfg : Cfg) (n : Nat) (T : Int) (s : St) : St × Out :=
  if s.clock > T then (s, .raised aoor)
  else if s.clock = T ∨ s.enabled = true then (s, .ok)
  else
    match loopFuel cfg (some T) n { s with enabled := true } with
    | (s', .ok) => ({ s' with enabled := false, clock := T }, .ok)
    | r => r

theorem start_eq_fuel (cfg : Cfg) (n : Nat) (s : St) (h : s.queue.nodes < n) :
    start cfg s = startFuel cfg n s := by
  simp only [start, startFuel]
  rw [loop_eq_loopFuel cfg none n _ (by simpa using h)]
  rfl

theorem advanceTo_eq_fuel (cfg : Cfg) (n : Nat) (T : Int) (s : St) (h : s.queue.nodes < n) :
    advanceTo cfg T s = advanceToFuel cfg n T s := by
  simp only [advanceTo, advanceToFuel]
  rw [loop_eq_loopFuel cfg (some T) n _ (by simpa using h)]
  rfl

def noStop : Step → Prop
  | .stop => False
  | _ => True

end Vts

import RxProofs.Lemmas.WinRel3
/-!
# `SrcKept`: while the underlying disposable is alive the windowed source stays subscribed (Base-level lemmas).
-/
namespace Win
variable {α : Type}

/-- as long as the underlying disposable is alive, the windowed source (id 0) is still subscribed. -/
def SrcKept (b : Base α) : Prop := b.rcDisposed = false → 0 ∈ b.live

namespace Base

theorem SK_same {b b' : Base α} (hr : b'.rcDisposed = b.rcDisposed) (hl : b'.live = b.live) (h : SrcKept b) : SrcKept b' := by
  intro hd; rw [hl]; exact h (hr ▸ hd)

theorem SK_emit (b : Base α) (o) (h : SrcKept b) : SrcKept (b.emit o) := SK_same rfl rfl h
theorem SK_now (b : Base α) (t) (h : SrcKept b) : SrcKept ({ b with now := t } : Base α) := SK_same rfl rfl h
theorem SK_subscribe (b : Base α) (k) (h : SrcKept b) : SrcKept (b.subscribe k) := by
  intro hd; have := h hd; simp [subscribe, emit, this]
theorem SK_unsub (b : Base α) (k : Nat) (hk : k ≠ 0) (h : SrcKept b) : SrcKept (b.unsub k) := by
  intro hd
  have hf := unsub_fields b k
  have h0 := h (hf.2.2.2.1 ▸ hd)
  unfold unsub; split
  · simp only [emit]; exact (List.mem_erase_of_ne (Ne.symm hk)).mpr h0
  · exact h0
theorem SK_dead (b : Base α) (hd : b.rcDisposed = true) : SrcKept b := by intro h; rw [hd] at h; cases h
theorem SK_disposeUnderlying (b : Base α) (hd : b.rcDisposed = true) : SrcKept b.disposeUnderlying := by
  apply SK_dead; unfold disposeUnderlying; rw [(foldl_unsub_fields b.live b).2.2.2.1]; exact hd
theorem SK_rcDispose (b : Base α) (h : SrcKept b) : SrcKept b.rcDispose := by
  unfold rcDispose; split; exact h; split; exact h
  simp only []; split
  · exact SK_disposeUnderlying _ rfl
  · exact SK_same rfl rfl h
theorem SK_rcRelease (b : Base α) (h : SrcKept b) : SrcKept b.rcRelease := by
  unfold rcRelease; split; exact h
  simp only []; split
  · exact SK_disposeUnderlying _ rfl
  · exact SK_same rfl rfl h
theorem SK_outerEnd (b : Base α) (e) (h : SrcKept b) : SrcKept (b.outerEnd e) := by
  unfold outerEnd; split; exact h
  exact SK_rcDispose _ (SK_same (b := b) rfl rfl h)
theorem SK_outerDispose (b : Base α) (h : SrcKept b) : SrcKept b.outerDispose := by
  unfold outerDispose; exact SK_rcDispose _ (SK_same (b := b) rfl rfl h)
theorem SK_outerNext (b : Base α) (i) (h : SrcKept b) : SrcKept (b.outerNext i) := by
  have := ctl_outerNext b i
  simp only [ctl, Prod.mk.injEq] at this
  exact SK_same this.2.1 this.2.2 h
theorem SK_newWin (b : Base α) (h : SrcKept b) : SrcKept b.newWin.1 := SK_same rfl rfl h
theorem SK_winNext (b : Base α) (i x) (h : SrcKept b) : SrcKept (b.winNext i x) := by
  have := ctl_winNext b i x
  simp only [ctl, Prod.mk.injEq] at this
  exact SK_same this.2.1 this.2.2 h
theorem SK_winEnd (b : Base α) (i e) (h : SrcKept b) : SrcKept (b.winEnd i e) := by
  unfold winEnd; split; exact h; split; exact h
  simp only []; split
  · exact SK_rcRelease _ (SK_same (b := b) rfl rfl h)
  · exact SK_same (b := b) rfl rfl h
theorem SK_winDetach (b : Base α) (i) (h : SrcKept b) : SrcKept (b.winDetach i) := by
  unfold winDetach; split; exact h; split
  · exact SK_rcRelease _ (SK_same (b := b) rfl rfl h)
  · exact h
theorem SK_foldl {β : Type} (f : Base α → β → Base α) (hf : ∀ b x, SrcKept b → SrcKept (f b x)) (l : List β) (b : Base α)
    (h : SrcKept b) : SrcKept (l.foldl f b) := by
  induction l generalizing b with
  | nil => exact h
  | cons x l ih => exact ih _ (hf b x h)
theorem SK_disposeEv (b : Base α) (w) (h : SrcKept b) : SrcKept (b.disposeEv w) := by
  unfold disposeEv; simp only []; split
  · exact SK_foldl _ (fun b i hb => SK_winDetach b i hb) _ _ (SK_outerDispose b h)
  · exact SK_outerDispose b h
theorem SK_open (b : Base α) (h : SrcKept b) : SrcKept (b.newWin.1.outerNext b.newWin.2) := SK_outerNext _ _ (SK_newWin b h)

end Base

/-- an event that is not a terminal of the windowed source. -/
def Ev.notSrcTerminal : Ev α → Bool
  | .src 0 (.error _) => false
  | .src 0 .completed => false
  | _ => true

end Win

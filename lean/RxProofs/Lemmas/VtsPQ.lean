import RxModel.VtsPQ
/-! Helper lemmas about `popMinBy` and the `PQ` model (C28). -/

namespace Vts

theorem popMinBy_eq_none {β} (lt : β → β → Bool) (l : List β) : popMinBy lt l = none ↔ l = [] := by
  cases l with
  | nil => simp [popMinBy]
  | cons x xs =>
    simp only [popMinBy]
    cases popMinBy lt xs with
    | none => simp
    | some mr => obtain ⟨m, r⟩ := mr; simp only; split <;> simp

/-- `popMinBy` on a strict weak order: the result is the *first* least element; the rest keeps its order. -/
theorem popMinBy_split {β} (lt : β → β → Bool)
    (trans : ∀ a b c, lt a b = true → lt b c = true → lt a c = true)
    (negtrans : ∀ a b c, lt a c = true → lt a b = true ∨ lt b c = true) :
    ∀ (l : List β) (m : β) (r : List β), popMinBy lt l = some (m, r) →
      ∃ pre post, l = pre ++ m :: post ∧ r = pre ++ post ∧
        (∀ y ∈ pre, lt m y = true) ∧ (∀ y ∈ post, lt y m = false) := by
  intro l
  induction l with
  | nil => intro m r h; simp [popMinBy] at h
  | cons x xs ih =>
    intro m r h
    simp only [popMinBy] at h
    cases hp : popMinBy lt xs with
    | none =>
      rw [hp] at h
      have hx := (popMinBy_eq_none lt xs).1 hp
      subst hx
      simp at h
      obtain ⟨rfl, rfl⟩ := h
      exact ⟨[], [], by simp⟩
    | some mr =>
      obtain ⟨m', r'⟩ := mr
      rw [hp] at h
      simp only at h
      obtain ⟨pre, post, hl, hr, hpre, hpost⟩ := ih m' r' hp
      by_cases hlt : lt m' x = true
      · rw [if_pos hlt] at h
        simp at h
        obtain ⟨rfl, rfl⟩ := h
        refine ⟨x :: pre, post, by simp [hl], by simp [hr], ?_, hpost⟩
        intro y hy
        rcases List.mem_cons.1 hy with rfl | hy
        · exact hlt
        · exact hpre y hy
      · rw [if_neg hlt] at h
        simp at h
        obtain ⟨rfl, rfl⟩ := h
        refine ⟨[], xs, by simp, by simp, by simp, ?_⟩
        intro y hy
        cases hyx : lt y x with
        | false => rfl
        | true =>
          exfalso
          -- y < x and ¬ m' < x  ⇒  y < m'
          have h1 : lt y m' = true := by
            rcases negtrans y m' x hyx with h | h
            · exact h
            · exact absurd h hlt
          rw [hl] at hy
          rcases List.mem_append.1 hy with hy | hy
          · exact hlt (trans _ _ _ (hpre y hy) hyx)
          · rcases List.mem_cons.1 hy with rfl | hy
            · exact hlt hyx
            · have := hpost y hy; rw [h1] at this; cases this

namespace PQ
variable {α : Type}

theorem entryLt_iff (due : α → Int) (a b : α × Int) :
    entryLt due a b = true ↔ due a.1 < due b.1 ∨ (due a.1 = due b.1 ∧ a.2 < b.2) := by
  simp only [entryLt]
  split <;> simp <;> omega

theorem entryLt_trans (due : α → Int) (a b c : α × Int) :
    entryLt due a b = true → entryLt due b c = true → entryLt due a c = true := by
  simp only [entryLt_iff]; omega

theorem entryLt_negtrans (due : α → Int) (a b c : α × Int) :
    entryLt due a c = true → entryLt due a b = true ∨ entryLt due b c = true := by
  simp only [entryLt_iff]; omega

/-- Invariant: the counts in the queue increase strictly in insertion order and stay below `count`.
It makes the least `(due, count)` entry unique, so the heap's array layout is unobservable. -/
def WF (q : PQ α) : Prop :=
  q.items.Pairwise (fun a b => a.2 < b.2) ∧ ∀ e ∈ q.items, e.2 < q.count

theorem wf_empty : (({} : PQ α)).WF := by simp [WF]

theorem wf_enqueue {q : PQ α} (h : q.WF) (x : α) : (q.enqueue x).WF := by
  obtain ⟨h1, h2⟩ := h
  refine ⟨?_, ?_⟩
  · simp only [enqueue, List.pairwise_append]
    refine ⟨h1, by simp, ?_⟩
    intro a ha b hb
    simp at hb; subst hb
    exact h2 a ha
  · intro e he
    simp only [enqueue, List.mem_append, List.mem_singleton] at he ⊢
    rcases he with he | rfl
    · have := h2 e he; omega
    · simp only; omega

theorem wf_of_sublist {q : PQ α} (h : q.WF) {r : List (α × Int)} (hs : r.Sublist q.items) (c : Int)
    (hc : r = [] ∨ c = q.count) : ({ items := r, count := c } : PQ α).WF := by
  obtain ⟨h1, h2⟩ := h
  refine ⟨h1.sublist hs, ?_⟩
  intro e he
  rcases hc with rfl | rfl
  · simp at he
  · exact h2 e (hs.subset he)

/-- What `dequeue` returns, in terms of insertion order: the entry `(x, c)` splits the queue into the
entries enqueued before it, all of strictly later due time, and those enqueued after it, none of earlier
due time.  I.e. `x` has least due time and is the first-enqueued among the entries of that due time. -/
theorem dequeue_split (due : α → Int) {q q' : PQ α} {x : α} (hwf : q.WF)
    (h : q.dequeue? due = some (x, q')) :
    ∃ pre post c, q.items = pre ++ (x, c) :: post ∧ q'.items = pre ++ post ∧
      (∀ y ∈ pre, due x < due y.1) ∧ (∀ y ∈ post, due x ≤ due y.1) ∧
      (q'.count = if (pre ++ post).isEmpty then MIN_COUNT else q.count) := by
  simp only [dequeue?] at h
  cases hp : popMinBy (entryLt due) q.items with
  | none => rw [hp] at h; simp at h
  | some mr =>
    obtain ⟨m, r⟩ := mr
    rw [hp] at h
    simp at h
    obtain ⟨rfl, rfl⟩ := h
    obtain ⟨pre, post, hl, hr, hpre, hpost⟩ :=
      popMinBy_split _ (entryLt_trans due) (entryLt_negtrans due) _ _ _ hp
    refine ⟨pre, post, m.2, by simpa using hl, hr, ?_, ?_, by simp [hr]⟩
    · intro y hy
      have hlt := (entryLt_iff due m y).1 (hpre y hy)
      -- y was enqueued before m, so its count is smaller
      have hc : y.2 < m.2 := by
        have := hwf.1
        rw [hl, List.pairwise_append] at this
        exact this.2.2 y hy m (by simp)
      omega
    · intro y hy
      have hnlt := hpost y hy
      have : ¬ (due y.1 < due m.1 ∨ (due y.1 = due m.1 ∧ y.2 < m.2)) := by
        rw [← entryLt_iff]; simp [hnlt]
      omega

theorem wf_dequeue (due : α → Int) {q q' : PQ α} {x : α} (hwf : q.WF)
    (h : q.dequeue? due = some (x, q')) : q'.WF := by
  obtain ⟨pre, post, c, hl, hr, _, _, hc⟩ := dequeue_split due hwf h
  have hs : (pre ++ post).Sublist q.items := by
    rw [hl]; exact List.Sublist.append (List.Sublist.refl _) (List.sublist_cons_self _ _)
  have := wf_of_sublist hwf hs q'.count (by
    rw [hc]; cases hpp : (pre ++ post) with
    | nil => left; rfl
    | cons a b => right; simp)
  rw [← hr] at this
  exact this

theorem dequeue_none (due : α → Int) {q : PQ α} : q.dequeue? due = none ↔ q.items = [] := by
  simp only [dequeue?]
  cases hp : popMinBy (entryLt due) q.items with
  | none => simpa using (popMinBy_eq_none _ _).1 hp
  | some mr =>
    simp
    intro h
    rw [h] at hp
    simp [popMinBy] at hp

end PQ
end Vts

namespace Vts
namespace PQ
variable {α : Type}
/-- `dequeue` removes exactly one entry and keeps the others in their order (no hypothesis on the counts) -/
theorem dequeue_split_list (due : α → Int) {q q' : PQ α} {x : α} (h : q.dequeue? due = some (x, q')) :
    ∃ pre post c, q.items = pre ++ (x, c) :: post ∧ q'.items = pre ++ post := by
  simp only [dequeue?] at h
  cases hp : popMinBy (entryLt due) q.items with
  | none => rw [hp] at h; simp at h
  | some mr =>
    obtain ⟨m, r⟩ := mr
    rw [hp] at h
    simp at h
    obtain ⟨rfl, rfl⟩ := h
    obtain ⟨pre, post, hl, hr, _, _⟩ :=
      popMinBy_split _ (entryLt_trans due) (entryLt_negtrans due) _ _ _ hp
    exact ⟨pre, post, m.2, by simpa using hl, hr⟩
end PQ
end Vts

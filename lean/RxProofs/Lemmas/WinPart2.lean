import RxProofs.Lemmas.WinPart
import RxModel.WinBnd
import RxModel.WinTime
/-!
# The routing specification for `window_`, `window_when_`, `window_toggle_`, `window_with_time_`, `window_with_time_or_count_`.
-/
namespace Win
variable {α : Type}

theorem single_delta (b : Base α) (cur id : Nat) (x : α) (hl : b.live.contains 0 = true) :
    (b.winNext cur x).pushedOf id = b.pushedOf id ++
      (if b.live.contains 0 = true ∧ id ∈ [cur] ∧ id < b.wins.length ∧ b.endedOf id = none then [x] else []) := by
  rw [Base.pushedOf_winNext]
  by_cases h : cur = id
  · subst h; simp only [hl, List.mem_singleton, true_and]; split <;> simp
  · have : ¬ id = cur := fun e => h e.symm
    simp [h, this]

namespace Bnd
theorem delta_step (s : Bnd α) (t : Nat) (e : Ev α) (id : Nat) :
    ((Bnd.mach).step s t e).b.pushedOf id =
      s.b.pushedOf id ++ delta (fun s : Bnd α => s.b) (fun s => [s.cur]) s e id := by
  simp only [mach]
  cases e with
  | src k n =>
    simp only [step]
    split
    · rename_i hc
      cases n with
      | next x =>
        by_cases hk : k = 0
        · subst hk
          simp only [Bool.or_eq_true, Bool.and_eq_true, beq_self_eq_true, true_or, true_and] at hc
          simp only [beq_self_eq_true, if_true, delta]
          exact single_delta ({ s.b with now := t } : Base α) s.cur id x hc
        · have : (k == 0) = false := by simpa using hk
          simp only [this]
          cases k with
          | zero => exact absurd rfl hk
          | succ k => simp [onBoundary, Base.pushedOf_newWin, delta]
      | error e => cases k <;> simp [onEnd, delta]
      | completed => cases k <;> simp [onEnd, delta]
    · rename_i hc
      cases k with
      | zero =>
        have : ¬ (0 ∈ s.b.live) := by simpa using hc
        cases n <;> simp [delta, this]
      | succ k => simp [delta]
  | dispose w => simp [step, delta]
  | tick => simp [step, delta]
end Bnd

end Win
namespace Win
variable {α : Type}

namespace Whn
theorem createClosingF_pushedOf (r : Option Nat) (pool : Nat) (fuel : Nat) (s : Whn α) (j) :
    (createClosingF r pool fuel s).b.pushedOf j = s.b.pushedOf j := by
  induction fuel generalizing s with
  | zero => rfl
  | succ fuel ih =>
    simp only [createClosingF]
    split
    · simp [onEnd]
    · split
      · rw [ih]; split <;> simp [Base.pushedOf_newWin]
      · split <;> simp [onEnd]
      · split <;> split <;> (try split) <;> simp

theorem createClosing_pushedOf (r : Option Nat) (pool : Nat) (s : Whn α) (j) :
    (createClosing r pool s).b.pushedOf j = s.b.pushedOf j := createClosingF_pushedOf r pool _ s j

theorem delta_step (r : Option Nat) (pool : Nat) (s : Whn α) (t : Nat) (e : Ev α) (id : Nat) :
    ((Whn.mach r pool).step s t e).b.pushedOf id =
      s.b.pushedOf id ++ delta (fun s : Whn α => s.b) (fun s => [s.cur]) s e id := by
  simp only [mach]
  cases e with
  | src k n =>
    simp only [step]
    split
    · rename_i hc
      cases k with
      | zero =>
        cases n with
        | next x => simp only [beq_self_eq_true, if_true, delta]; exact single_delta ({ s.b with now := t } : Base α) s.cur id x hc
        | error e => simp [onEnd, delta]
        | completed => simp [onEnd, delta]
      | succ k =>
        cases n <;> simp [onEnd, onClose, createClosing_pushedOf, Base.pushedOf_newWin, delta]
    · rename_i hc
      cases k with
      | zero =>
        have : ¬ (0 ∈ s.b.live) := by simpa using hc
        cases n <;> simp [delta, this]
      | succ k => simp [delta]
  | dispose w => simp [step, delta]
  | tick => simp [step, delta]
end Whn

end Win
namespace Win
variable {α : Type}

namespace Toc
@[simp] theorem sync_b (st : Toc α) : (sync st).b = st.b := by unfold sync; split <;> rfl
@[simp] theorem sync_s (st : Toc α) : (sync st).s = st.s := by unfold sync; split <;> rfl
@[simp] theorem createTimer_b (span : Nat) (st : Toc α) (i) : (createTimer span st i).b = st.b := rfl
theorem roll_pushedOf (st : Toc α) (j) : (roll st).b.pushedOf j = st.b.pushedOf j := by
  simp [roll, Base.pushedOf_newWin]

theorem delta_step (span count : Nat) (s : Toc α) (t : Nat) (e : Ev α) (id : Nat) :
    ((Toc.mach span count).step s t e).b.pushedOf id =
      s.b.pushedOf id ++ delta (fun s : Toc α => s.b) (fun s => [s.s]) s e id := by
  simp only [mach]
  cases e with
  | src k n =>
    cases k with
    | zero =>
      simp only [step]
      split
      · rename_i hc
        cases n with
        | next x =>
          simp only [delta, sync_b, onNext]
          split
          · simp only [createTimer_b, sync_b, roll_pushedOf]
            exact single_delta ({ s.b with now := t } : Base α) s.s id x hc
          · exact single_delta ({ s.b with now := t } : Base α) s.s id x hc
        | error e => simp [onEnd, delta]
        | completed => simp [onEnd, delta]
      · rename_i hc
        have : ¬ (0 ∈ s.b.live) := by simpa using hc
        cases n <;> simp [delta, this]
    | succ k => simp [step, delta]
  | dispose w => simp [step, delta]
  | tick =>
    simp only [step, delta, sync_b, onTick, List.append_nil]
    split
    · rfl
    · split
      · rfl
      · simp [roll_pushedOf]
end Toc

end Win
namespace Win
variable {α : Type}

namespace Tim
def Good (s : Tim α) : Prop := s.queue.Nodup ∧ ∀ id ∈ s.queue, id < s.b.wins.length

@[simp] theorem sync_b (s : Tim α) : (sync s).b = s.b := by unfold sync; split <;> rfl
@[simp] theorem sync_queue (s : Tim α) : (sync s).queue = s.queue := by unfold sync; split <;> rfl
@[simp] theorem createTimer_b (shift : Nat) (s : Tim α) : (createTimer shift s).b = s.b := rfl
@[simp] theorem createTimer_queue (shift : Nat) (s : Tim α) : (createTimer shift s).queue = s.queue := rfl

theorem onTick_pushedOf (shift : Nat) (s : Tim α) (j) : (onTick shift s).b.pushedOf j = s.b.pushedOf j := by
  unfold onTick
  split
  · rfl
  · rename_i tk _
    simp only []
    cases tk.isShift <;> cases tk.isSpan <;> simp only [Bool.false_eq_true, if_false, if_true]
    · rfl
    · split <;> simp
    · simp [Base.pushedOf_newWin]
    · split <;> simp [Base.pushedOf_newWin]

theorem good_onTick (shift : Nat) (s : Tim α) (hg : Good s) : Good (onTick shift s) := by
  unfold onTick
  split
  · exact hg
  · rename_i tk _
    simp only []
    have hnew : Good ({ s with timer := none, b := (s.b.newWin.1).outerNext s.b.newWin.2,
                               queue := s.queue ++ [s.b.newWin.2] } : Tim α) := by
      refine ⟨List.nodup_append.mpr ⟨hg.1, by simp, ?_⟩, ?_⟩
      · intro a ha b hb; simp at hb; subst hb; have := hg.2 a ha; omega
      · intro id hid
        simp only [Base.length_outerNext, Base.length_newWin]
        rcases List.mem_append.mp hid with h | h
        · have := hg.2 id h; omega
        · simp at h; omega
    have hpop : ∀ s' : Tim α, Good s' →
        Good (match s'.queue with
          | [] => { s' with b := s'.b.emit (.escaped "IndexError") }
          | id :: q => createTimer shift { s' with b := s'.b.winEnd id none, queue := q }) := by
      intro s' hs'
      cases hq : s'.queue with
      | nil => exact ⟨by simp, by simp⟩
      | cons id q =>
        have hnd := hs'.1; rw [hq] at hnd
        refine ⟨(List.nodup_cons.mp hnd).2, fun i hi => ?_⟩
        have := hs'.2 i (by rw [hq]; exact List.mem_cons_of_mem _ hi)
        simpa using this
    cases tk.isShift <;> cases tk.isSpan <;> simp only [Bool.false_eq_true, if_false, if_true]
    · exact hg
    · exact hpop { s with timer := none } hg
    · exact hnew
    · exact hpop _ hnew

theorem onEnd_pushedOf (s : Tim α) (e j) : (onEnd s e).b.pushedOf j = s.b.pushedOf j := by
  simp [onEnd, (Base.foldl_winEnd s.queue e s.b).2.1]
theorem onEnd_len (s : Tim α) (e) : (onEnd s e).b.wins.length = s.b.wins.length := by
  simp [onEnd, (Base.foldl_winEnd s.queue e s.b).1]

theorem good_step (shift : Nat) (s : Tim α) (t : Nat) (e : Ev α) (hg : Good s) :
    Good ((Tim.mach shift).step s t e) := by
  have hg' : Good ({ s with b := { s.b with now := t } } : Tim α) := hg
  simp only [mach]
  cases e with
  | src k n =>
    cases k with
    | zero =>
      simp only [step]; split
      · cases n with
        | next x => exact ⟨hg.1, fun i hi => by simpa using hg.2 i hi⟩
        | error e => exact ⟨by simpa [onEnd] using hg.1, fun i hi => by
            have := hg.2 i (by simpa [onEnd] using hi); simpa [onEnd_len] using this⟩
        | completed => exact ⟨by simpa [onEnd] using hg.1, fun i hi => by
            have := hg.2 i (by simpa [onEnd] using hi); simpa [onEnd_len] using this⟩
      · exact hg'
    | succ k => exact hg'
  | dispose w => exact ⟨by simpa [step] using hg.1, fun i hi => by
      have := hg.2 i (by simpa [step] using hi); simpa [step] using this⟩
  | tick =>
    have := good_onTick shift _ hg'
    exact ⟨by simpa [step] using this.1, fun i hi => by
      have := this.2 i (by simpa [step] using hi); simpa [step] using this⟩

theorem delta_step (shift : Nat) (s : Tim α) (t : Nat) (e : Ev α) (id : Nat) (hg : Good s) :
    ((Tim.mach shift).step s t e).b.pushedOf id =
      s.b.pushedOf id ++ delta (fun s : Tim α => s.b) (fun s => s.queue) s e id := by
  simp only [mach]
  cases e with
  | src k n =>
    cases k with
    | zero =>
      simp only [step]
      split
      · rename_i hc
        have hc' : s.b.live.contains 0 = true := hc
        cases n with
        | next x =>
          simp only [delta, hc', true_and]
          rw [Base.pushedOf_foldl_winNext _ hg.1]
          show (if id ∈ s.queue ∧ id < s.b.wins.length ∧ s.b.endedOf id = none then s.b.pushedOf id ++ [x] else s.b.pushedOf id) = _
          split <;> simp
        | error e => simp [onEnd_pushedOf, delta]
        | completed => simp [onEnd_pushedOf, delta]
      · rename_i hc
        have : ¬ (0 ∈ s.b.live) := by simpa using hc
        cases n <;> simp [delta, this]
    | succ k => simp [step, delta]
  | dispose w => simp [step, delta]
  | tick => simp [step, delta, onTick_pushedOf]
end Tim

end Win
namespace Win
variable {α : Type}

namespace Tgl
def openOf (s : Tgl α) : List Nat := s.leftMap.map (·.2)
def Good (s : Tgl α) : Prop := (openOf s).Nodup ∧ ∀ id ∈ openOf s, id < s.b.wins.length

theorem foldl_snd (l : List (Nat × Nat)) (b : Base α) (f : Base α → Nat → Base α) :
    l.foldl (fun b p => f b p.2) b = (l.map (·.2)).foldl f b := by
  rw [List.foldl_map]

theorem errAll_leftMap (s : Tgl α) (e) : (errAll s e).leftMap = s.leftMap := rfl
theorem errAll_pushedOf (s : Tgl α) (e j) : (errAll s e).b.pushedOf j = s.b.pushedOf j := by
  simp only [errAll, Base.pushedOf_outerEnd]
  rw [foldl_snd s.leftMap s.b (fun b id => b.winEnd id (some e))]
  exact (Base.foldl_winEnd _ _ _).2.1 j
theorem errAll_len (s : Tgl α) (e) : (errAll s e).b.wins.length = s.b.wins.length := by
  simp only [errAll, Base.length_outerEnd]
  rw [foldl_snd s.leftMap s.b (fun b id => b.winEnd id (some e))]
  exact (Base.foldl_winEnd _ _ _).1

theorem good_errAll (s : Tgl α) (e) (hg : Good s) : Good (errAll s e) :=
  ⟨hg.1, fun i hi => by rw [errAll_len]; exact hg.2 i hi⟩

theorem expire_pushedOf (s : Tgl α) (i j) : (expire s i).b.pushedOf j = s.b.pushedOf j := by
  unfold expire; split <;> simp
theorem expire_len (s : Tgl α) (i) : (expire s i).b.wins.length = s.b.wins.length := by
  unfold expire; split <;> simp
theorem good_expire (s : Tgl α) (i) (hg : Good s) : Good (expire s i) := by
  have hsub : ((s.leftMap.filter (·.1 != i)).map (·.2)).Sublist (s.leftMap.map (·.2)) :=
    (List.filter_sublist).map _
  unfold expire; split
  · refine ⟨hg.1.sublist hsub, fun id hid => ?_⟩
    have := hg.2 id (hsub.subset hid)
    simpa using this
  · exact hg

theorem onOpen_pushedOf (r : Option Nat) (pool : Nat) (s : Tgl α) (j) : (onOpen r pool s).b.pushedOf j = s.b.pushedOf j := by
  unfold onOpen; simp only []
  split
  · rw [errAll_pushedOf]; simp [Base.pushedOf_newWin]
  · split
    · rw [expire_pushedOf]; simp [Base.pushedOf_newWin]
    · rw [errAll_pushedOf]; simp [Base.pushedOf_newWin]
    · split
      · split <;> simp [Base.pushedOf_newWin]
      · simp [Base.pushedOf_newWin]

theorem good_onOpen (r : Option Nat) (pool : Nat) (s : Tgl α) (hg : Good s) : Good (onOpen r pool s) := by
  have hnew : Good ({ s with b := s.b.newWin.1.outerNext s.b.newWin.2, leftId := s.leftId + 1,
                             leftMap := s.leftMap ++ [(s.leftId, s.b.newWin.2)] } : Tgl α) := by
    refine ⟨?_, ?_⟩
    · simp only [openOf, List.map_append, List.map_cons, List.map_nil]
      refine List.nodup_append.mpr ⟨hg.1, by simp, ?_⟩
      intro a ha b hb; simp at hb; subst hb; have := hg.2 a ha; omega
    · intro id hid
      simp only [openOf, List.map_append, List.map_cons, List.map_nil] at hid
      simp only [Base.length_outerNext, Base.length_newWin]
      rcases List.mem_append.mp hid with h | h
      · have := hg.2 id h; omega
      · simp at h; omega
  unfold onOpen; simp only []
  split
  · exact good_errAll _ _ hnew
  · split
    · exact good_expire _ _ hnew
    · exact good_errAll _ _ hnew
    · split
      · split
        · exact ⟨hnew.1, fun i hi => by simpa using hnew.2 i hi⟩
        · exact ⟨hnew.1, fun i hi => by simpa using hnew.2 i hi⟩
      · exact hnew

theorem good_step (r : Option Nat) (pool : Nat) (s : Tgl α) (t : Nat) (e : Ev α) (hg : Good s) :
    Good ((Tgl.mach r pool).step s t e) := by
  have hg' : Good ({ s with b := { s.b with now := t } } : Tgl α) := hg
  have hb : ∀ (s' : Tgl α) (b' : Base α), Good s' → b'.wins.length = s'.b.wins.length → Good { s' with b := b' } :=
    fun s' b' h hl => ⟨h.1, fun i hi => by rw [hl]; exact h.2 i hi⟩
  simp only [mach]
  cases e with
  | src k n =>
    simp only [step]; split
    · split
      · cases n with
        | next x =>
          refine hb _ _ hg' ?_
          rw [foldl_snd _ _ (fun b id => b.winNext id x)]; simp
        | error e => exact hb _ _ (good_errAll _ _ hg') (by simp)
        | completed => exact hb _ _ hg' (by simp)
      · split
        · cases n with
          | next x => exact good_onOpen _ _ _ hg'
          | error e => exact hb _ _ (good_errAll _ _ hg') (by simp)
          | completed => exact hb _ _ hg' (by simp)
        · cases n with
          | next x => exact hb _ _ (good_expire _ _ hg') (by simp)
          | error e => exact hb _ _ (good_errAll _ _ hg') (by simp)
          | completed => exact hb _ _ (good_expire _ _ hg') (by simp)
    · exact hg'
  | dispose w => exact hb _ _ hg' (by simp)
  | tick => exact hg'

theorem delta_step (r : Option Nat) (pool : Nat) (s : Tgl α) (t : Nat) (e : Ev α) (id : Nat) (hg : Good s) :
    ((Tgl.mach r pool).step s t e).b.pushedOf id =
      s.b.pushedOf id ++ delta (fun s : Tgl α => s.b) openOf s e id := by
  simp only [mach]
  cases e with
  | src k n =>
    simp only [step]
    split
    · rename_i hc
      cases k with
      | zero =>
        have hc' : s.b.live.contains 0 = true := hc
        cases n with
        | next x =>
          simp only [beq_self_eq_true, if_true, delta, hc', true_and]
          rw [foldl_snd _ _ (fun b id => b.winNext id x)]
          have hnd : (List.map (fun x => x.snd) s.leftMap).Nodup := hg.1
          rw [Base.pushedOf_foldl_winNext _ hnd]
          show (if id ∈ openOf s ∧ id < s.b.wins.length ∧ s.b.endedOf id = none then s.b.pushedOf id ++ [x] else s.b.pushedOf id) = _
          split <;> simp
        | error e => simp [errAll_pushedOf, delta]
        | completed => simp [delta]
      | succ k =>
        cases k with
        | zero => cases n <;> simp [errAll_pushedOf, onOpen_pushedOf, delta]
        | succ k => cases n <;> simp [errAll_pushedOf, expire_pushedOf, delta]
    · rename_i hc
      cases k with
      | zero =>
        have : ¬ (0 ∈ s.b.live) := by simpa using hc
        cases n <;> simp [delta, this]
      | succ k => simp [delta]
  | dispose w => simp [step, delta]
  | tick => simp [step, delta]
end Tgl

end Win

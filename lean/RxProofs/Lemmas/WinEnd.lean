import RxProofs.Lemmas.WinPart2
/-!
# `Mach.run` follows an explicit schedule; untimed `run`s are folds; "all open windows end with the source".
-/
namespace Win
variable {σ α : Type}

theorem Mach.run_eq_fold (m : Mach σ α) (horizon : Nat) :
    ∀ (fuel : Nat) (s : σ) (evs : List (Nat × Ev α)), m.run horizon fuel s evs = m.fold s (m.sched horizon fuel s evs) := by
  intro fuel
  induction fuel with
  | zero => intro s evs; simp [Mach.run, Mach.sched, Mach.fold]
  | succ fuel ih =>
    intro s evs
    cases evs with
    | nil =>
      simp only [Mach.run, Mach.sched]
      cases m.pending s with
      | none => simp [Mach.fold]
      | some d =>
        simp only []
        split
        · rw [ih]; simp [Mach.fold]
        · simp [Mach.fold]
    | cons te es =>
      obtain ⟨t, e⟩ := te
      simp only [Mach.run, Mach.sched]
      cases m.pending s with
      | none => simp only []; rw [ih]; simp [Mach.fold]
      | some d =>
        simp only []
        split
        · rw [ih]; simp [Mach.fold]
        · rw [ih]; simp [Mach.fold]

theorem Cnt.run_eq_fold (count skip : Nat) (s : Cnt α) (evs : List (Nat × Ev α)) :
    Cnt.run count skip s evs = (Cnt.mach count skip).fold s evs := by
  induction evs generalizing s with
  | nil => rfl
  | cons te es ih => obtain ⟨t, e⟩ := te; simp only [Cnt.run, Mach.fold, List.foldl_cons]; rw [ih]; rfl

theorem Bnd.run_eq_fold (s : Bnd α) (evs : List (Nat × Ev α)) : Bnd.run s evs = Bnd.mach.fold s evs := by
  induction evs generalizing s with
  | nil => rfl
  | cons te es ih => obtain ⟨t, e⟩ := te; simp only [Bnd.run, Mach.fold, List.foldl_cons]; rw [ih]; rfl

theorem Whn.run_eq_fold (r : Option Nat) (pool : Nat) (s : Whn α) (evs : List (Nat × Ev α)) :
    Whn.run r pool s evs = (Whn.mach r pool).fold s evs := by
  induction evs generalizing s with
  | nil => rfl
  | cons te es ih => obtain ⟨t, e⟩ := te; simp only [Whn.run, Mach.fold, List.foldl_cons]; rw [ih]; rfl

theorem Tgl.run_eq_fold (r : Option Nat) (pool : Nat) (s : Tgl α) (evs : List (Nat × Ev α)) :
    Tgl.run r pool s evs = (Tgl.mach r pool).fold s evs := by
  induction evs generalizing s with
  | nil => rfl
  | cons te es ih => obtain ⟨t, e⟩ := te; simp only [Tgl.run, Mach.fold, List.foldl_cons]; rw [ih]; rfl

end Win
namespace Win
variable {α : Type}

namespace Base
@[simp] theorem os_emit (b : Base α) (o) : (b.emit o).outerStopped = b.outerStopped := rfl
@[simp] theorem os_unsub (b : Base α) (k) : (b.unsub k).outerStopped = b.outerStopped := by unfold unsub; split <;> rfl
theorem os_foldl_unsub (l : List Nat) (b : Base α) : (l.foldl unsub b).outerStopped = b.outerStopped := by
  induction l generalizing b with
  | nil => rfl
  | cons k l ih => simp [List.foldl_cons, ih]
@[simp] theorem os_disposeUnderlying (b : Base α) : b.disposeUnderlying.outerStopped = b.outerStopped := os_foldl_unsub _ _
@[simp] theorem os_rcDispose (b : Base α) : b.rcDispose.outerStopped = b.outerStopped := by
  unfold rcDispose; split; rfl; split; rfl; simp only []; split <;> simp
theorem os_outerEnd (b : Base α) (e) : (b.outerEnd e).outerStopped = true := by
  unfold outerEnd; split
  · assumption
  · simp
end Base

/-- "every window of `l` that is still open in `b` gets the terminal `e`". -/
def EndsAll (b b' : Base α) (l : List Nat) (e : Option Err) : Prop :=
  ∀ id ∈ l, id < b.wins.length → b.endedOf id = none → b'.endedOf id = some e

theorem endsAll_foldl (b : Base α) (l : List Nat) (e : Option Err) :
    EndsAll b (l.foldl (fun b id => b.winEnd id e) b) l e := by
  intro id hid hlt hn
  rw [(Base.foldl_winEnd l e b).2.2.2 id hlt hn, if_pos hid]

theorem endsAll_single (b : Base α) (cur : Nat) (e : Option Err) : EndsAll b (b.winEnd cur e) [cur] e := by
  intro id hid hlt hn
  have : id = cur := by simpa using hid
  subst this
  rw [Base.endedOf_winEnd, if_pos ⟨rfl, hlt, hn⟩]

namespace Cnt
theorem ends (count skip : Nat) (s : Cnt α) (t : Nat) (n : Notif α) (e : Option Err)
    (hn : n = endNotif e) (hl : s.b.live.contains 0 = true) :
    EndsAll s.b ((Cnt.mach count skip).step s t (.src 0 n)).b s.q e ∧
      ((Cnt.mach count skip).step s t (.src 0 n)).b.outerStopped = true := by
  have hl' : ({ s with b := { s.b with now := t } } : Cnt α).b.live.contains 0 = true := hl
  subst hn
  cases e with
  | none =>
    simp only [mach, step, hl', if_true, endNotif, onEnd, Base.os_unsub, Base.os_outerEnd, and_true]
    intro id hid hlt hnn
    simp only [Base.endedOf_unsub, Base.endedOf_outerEnd]
    exact endsAll_foldl ({ s.b with now := t } : Base α) s.q none id hid hlt hnn
  | some err =>
    simp only [mach, step, hl', if_true, endNotif, onEnd, Base.os_unsub, Base.os_outerEnd, and_true]
    intro id hid hlt hnn
    simp only [Base.endedOf_unsub, Base.endedOf_outerEnd]
    exact endsAll_foldl ({ s.b with now := t } : Base α) s.q (some err) id hid hlt hnn
end Cnt

namespace Tim
theorem ends (shift : Nat) (s : Tim α) (t : Nat) (n : Notif α) (e : Option Err)
    (hn : n = endNotif e) (hl : s.b.live.contains 0 = true) :
    EndsAll s.b ((Tim.mach shift).step s t (.src 0 n)).b s.queue e ∧
      ((Tim.mach shift).step s t (.src 0 n)).b.outerStopped = true := by
  have hl' : ({ s with b := { s.b with now := t } } : Tim α).b.live.contains 0 = true := hl
  subst hn
  cases e with
  | none =>
    simp only [mach, step, hl', if_true, endNotif, onEnd, sync_b, Base.os_unsub, Base.os_outerEnd, and_true]
    intro id hid hlt hnn
    simp only [Base.endedOf_unsub, Base.endedOf_outerEnd]
    exact endsAll_foldl ({ s.b with now := t } : Base α) s.queue none id hid hlt hnn
  | some err =>
    simp only [mach, step, hl', if_true, endNotif, onEnd, sync_b, Base.os_unsub, Base.os_outerEnd, and_true]
    intro id hid hlt hnn
    simp only [Base.endedOf_unsub, Base.endedOf_outerEnd]
    exact endsAll_foldl ({ s.b with now := t } : Base α) s.queue (some err) id hid hlt hnn
end Tim

namespace Toc
theorem ends (span count : Nat) (s : Toc α) (t : Nat) (n : Notif α) (e : Option Err)
    (hn : n = endNotif e) (hl : s.b.live.contains 0 = true) :
    EndsAll s.b ((Toc.mach span count).step s t (.src 0 n)).b [s.s] e ∧
      ((Toc.mach span count).step s t (.src 0 n)).b.outerStopped = true := by
  have hl' : ({ s with b := { s.b with now := t } } : Toc α).b.live.contains 0 = true := hl
  subst hn
  cases e with
  | none =>
    simp only [mach, step, hl', if_true, endNotif, onEnd, sync_b, Base.os_unsub, Base.os_outerEnd, and_true]
    intro id hid hlt hnn
    simp only [Base.endedOf_unsub, Base.endedOf_outerEnd]
    exact endsAll_single ({ s.b with now := t } : Base α) s.s none id hid hlt hnn
  | some err =>
    simp only [mach, step, hl', if_true, endNotif, onEnd, sync_b, Base.os_unsub, Base.os_outerEnd, and_true]
    intro id hid hlt hnn
    simp only [Base.endedOf_unsub, Base.endedOf_outerEnd]
    exact endsAll_single ({ s.b with now := t } : Base α) s.s (some err) id hid hlt hnn
end Toc

end Win
namespace Win
variable {α : Type}

namespace Bnd
/-- a terminal of the source (k = 0) or of the boundaries (k = 1). -/
theorem ends (s : Bnd α) (t k : Nat) (n : Notif α) (e : Option Err) (hk : k = 0 ∨ k = 1)
    (hn : n = endNotif e) (hl : s.b.live.contains k = true) :
    EndsAll s.b (Bnd.mach.step s t (.src k n)).b [s.cur] e ∧ (Bnd.mach.step s t (.src k n)).b.outerStopped = true := by
  have hl' : ({ s with b := { s.b with now := t } } : Bnd α).b.live.contains k = true := hl
  have hk' : (k == 0 || k == 1) = true := by rcases hk with rfl | rfl <;> rfl
  subst hn
  cases e with
  | none =>
    simp only [mach, step, hl', hk', Bool.and_self, if_true, endNotif, onEnd, Base.os_unsub, Base.os_outerEnd, and_true]
    intro id hid hlt hnn
    simp only [Base.endedOf_unsub, Base.endedOf_outerEnd]
    exact endsAll_single ({ s.b with now := t } : Base α) s.cur none id hid hlt hnn
  | some err =>
    simp only [mach, step, hl', hk', Bool.and_self, if_true, endNotif, onEnd, Base.os_unsub, Base.os_outerEnd, and_true]
    intro id hid hlt hnn
    simp only [Base.endedOf_unsub, Base.endedOf_outerEnd]
    exact endsAll_single ({ s.b with now := t } : Base α) s.cur (some err) id hid hlt hnn
end Bnd

namespace Whn
theorem ends (r : Option Nat) (pool : Nat) (s : Whn α) (t : Nat) (n : Notif α) (e : Option Err)
    (hn : n = endNotif e) (hl : s.b.live.contains 0 = true) :
    EndsAll s.b ((Whn.mach r pool).step s t (.src 0 n)).b [s.cur] e ∧
      ((Whn.mach r pool).step s t (.src 0 n)).b.outerStopped = true := by
  have hl' : ({ s with b := { s.b with now := t } } : Whn α).b.live.contains 0 = true := hl
  subst hn
  cases e with
  | none =>
    simp only [mach, step, hl', if_true, beq_self_eq_true, endNotif, onEnd, Base.os_unsub, Base.os_outerEnd, and_true]
    intro id hid hlt hnn
    simp only [Base.endedOf_unsub, Base.endedOf_outerEnd]
    exact endsAll_single ({ s.b with now := t } : Base α) s.cur none id hid hlt hnn
  | some err =>
    simp only [mach, step, hl', if_true, beq_self_eq_true, endNotif, onEnd, Base.os_unsub, Base.os_outerEnd, and_true]
    intro id hid hlt hnn
    simp only [Base.endedOf_unsub, Base.endedOf_outerEnd]
    exact endsAll_single ({ s.b with now := t } : Base α) s.cur (some err) id hid hlt hnn
end Whn

namespace Tgl
/-- the source FAILS while toggle windows are open: they all get the error, then the outer observer. -/
theorem ends_error (r : Option Nat) (pool : Nat) (s : Tgl α) (t : Nat) (err : Err) (hl : s.b.live.contains 0 = true) :
    EndsAll s.b ((Tgl.mach r pool).step s t (.src 0 (.error err))).b (openOf s) (some err) ∧
      ((Tgl.mach r pool).step s t (.src 0 (.error err))).b.outerStopped = true := by
  have hl' : ({ s with b := { s.b with now := t } } : Tgl α).b.live.contains 0 = true := hl
  simp only [mach, step, hl', if_true, beq_self_eq_true, errAll, Base.os_unsub, Base.os_outerEnd, and_true]
  intro id hid hlt hnn
  simp only [Base.endedOf_unsub, Base.endedOf_outerEnd]
  rw [foldl_snd _ _ (fun b id => b.winEnd id (some err))]
  exact endsAll_foldl ({ s.b with now := t } : Base α) _ (some err) id hid hlt hnn
end Tgl

end Win
namespace Win
variable {α : Type}
namespace Cnt

theorem run_append (count skip : Nat) (s : Cnt α) (l1 l2 : List (Nat × Ev α)) :
    run count skip s (l1 ++ l2) = run count skip (run count skip s l1) l2 := by
  induction l1 generalizing s with
  | nil => rfl
  | cons te l ih => obtain ⟨t, e⟩ := te; simp only [List.cons_append, run]; exact ih _

theorem ctl_run_nexts (count skip : Nat) (tx : List (Nat × α)) (s : Cnt α) (h : s.b.primary = false) :
    (run count skip s (nexts tx)).b.ctl = s.b.ctl := by
  induction tx generalizing s with
  | nil => rfl
  | cons p tx ih =>
    obtain ⟨t, x⟩ := p
    simp only [nexts, List.map_cons, run]
    have hstep : (step count skip ({ s with b := { s.b with now := t } } : Cnt α) (.src 0 (.next x))).b.ctl = s.b.ctl := by
      simp only [step]; split
      · have h2 : ({ s with b := { s.b with now := t } } : Cnt α).b.primary = false := h
        rw [ctl_onNext _ _ _ _ h2]; rfl
      · rfl
    have hp : (step count skip ({ s with b := { s.b with now := t } } : Cnt α) (.src 0 (.next x))).b.primary = false := by
      have := hstep; simp only [Base.ctl, Prod.mk.injEq] at this; rw [this.1]; exact h
    have := ih _ hp
    simp only [nexts] at this
    rw [this, hstep]

end Cnt
end Win
namespace Win
variable {α : Type}
namespace Cnt

theorem ended_kept (count skip : Nat) (s : Cnt α) (t : Nat) (e : Option Err) (hl : s.b.live.contains 0 = true)
    (j : Nat) (hj : (s.b.endedOf j).isSome = true) :
    ((Cnt.mach count skip).step s t (.src 0 (endNotif e))).b.endedOf j = s.b.endedOf j := by
  have hl' : ({ s with b := { s.b with now := t } } : Cnt α).b.live.contains 0 = true := hl
  cases e with
  | none =>
    simp only [mach, step, hl', if_true, endNotif, onEnd, Base.endedOf_unsub, Base.endedOf_outerEnd]
    exact (Base.foldl_winEnd s.q none ({ s.b with now := t } : Base α)).2.2.1 j hj
  | some err =>
    simp only [mach, step, hl', if_true, endNotif, onEnd, Base.endedOf_unsub, Base.endedOf_outerEnd]
    exact (Base.foldl_winEnd s.q (some err) ({ s.b with now := t } : Base α)).2.2.1 j hj

end Cnt
end Win

import RxProofs.Lemmas.VtsPeriodic2
/-! Periodic model, part 3: script-level `Dead` preservation, the tick count relation, the closed form. -/
namespace Per
open Vts
variable {σ : Type}

theorem getTask_append_some (s : St σ) (pid : Nat) (t : Task) (extra : List (Nat × Task)) (h : getTask s pid = some t) :
    getTask { s with tasks := s.tasks ++ extra } pid = some t := by
  simp only [getTask] at h ⊢
  rw [List.find?_append]
  cases hf : s.tasks.find? (fun x => x.1 == pid) with
  | none => rw [hf] at h; simp at h
  | some p => rw [hf] at h; simpa using h

/-- top-level calls keep a dead task dead and never invoke it (unless the id is scheduled anew) -/
theorem doOp_dead (handler : Err → Bool) (f : Nat → σ → Tick σ) (pid : Nat) (s : St σ) (op : Op σ)
    (hop : match op with | .periodic pid' _ _ _ => pid' ≠ pid | _ => True) (h : Dead pid s) :
    Dead pid (doOp handler f s op).1 ∧ logOf pid (doOp handler f s op).1 = logOf pid s := by
  cases op with
  | periodic pid' p st c =>
    simp only at hop
    refine ⟨?_, rfl⟩
    simp only [doOp, schedulePeriodic]
    apply dead_enqueue
    · intro hk; simp only [isTick_tick, beq_iff_eq] at hk; exact absurd hk hop
    · obtain ⟨⟨t0, h1, h2⟩, h3⟩ := h
      exact ⟨⟨t0, getTask_append_some s pid t0 _ h1, h2⟩, h3⟩
  | disposeAt t pid' =>
    refine ⟨?_, rfl⟩
    simp only [doOp, scheduleDispose]
    exact dead_enqueue _ (by intro hk; simp [isTick] at hk) h
  | disposeNow pid' => exact ⟨dead_disposeTask _ h, by simp only [doOp, logOf, disposeTask_log]⟩
  | advanceTo T => exact advanceTo_dead handler f T pid s h
  | stop => exact ⟨dead_congr rfl rfl h, rfl⟩

theorem runOps_dead (handler : Err → Bool) (f : Nat → σ → Tick σ) (pid : Nat) :
    ∀ (ops : List (Op σ)) (s : St σ),
      (∀ op ∈ ops, match op with | .periodic pid' _ _ _ => pid' ≠ pid | _ => True) → Dead pid s →
      Dead pid (runOps handler f s ops).1 ∧ logOf pid (runOps handler f s ops).1 = logOf pid s := by
  intro ops
  induction ops with
  | nil => intro s _ h; exact ⟨h, rfl⟩
  | cons op ops ih =>
    intro s hops h
    have h1 := doOp_dead handler f pid s op (hops op (by simp)) h
    simp only [runOps]
    rcases hd : doOp handler f s op with ⟨s', o⟩
    rw [hd] at h1
    cases o with
    | stuck => exact h1
    | ok =>
      have := ih s' (fun op h => hops op (by simp [h])) h1.1
      exact ⟨this.1, this.2.trans h1.2⟩
    | raised e =>
      have := ih s' (fun op h => hops op (by simp [h])) h1.1
      exact ⟨this.1, this.2.trans h1.2⟩

/-- one iteration that gets a live, uncancelled tick of task `pid` (period ≥ 1) due at or before `T`
runs `runTick` at the clock `max clock due` -/
theorem iter_tick (handler : Err → Bool) (f : Nat → σ → Tick σ) (T : Int) (s : St σ) (x : Item σ) (q' : PQ (Item σ))
    (pid : Nat) (st : σ) (t : Task)
    (hen : s.enabled = true) (hd : s.queue.dequeue? Item.due = some (x, q')) (hdue : x.due ≤ T)
    (hc : x.cancelled = false) (hk : x.kind = .tick pid st) (hg : getTask s pid = some t) (hp : 1 ≤ t.period) :
    iter handler f T s =
      match runTick handler f { s with clock := if x.due > s.clock then x.due else s.clock, queue := q' } pid t st with
      | (s2, none) => .next s2
      | (s2, some e) => .raised s2 e := by
  have hg' : getTask { s with clock := if x.due > s.clock then x.due else s.clock, queue := q' } pid = some t := hg
  have h1 : ¬ x.due > T := by omega
  have h2 : ¬ t.period ≤ 0 := by omega
  have hg2 : (s.tasks.find? (·.1 == pid)).map (·.2) = some t := hg
  simp only [iter, hen, hd, h1, hc, hk, getTask, hg2, h2]
  simp only [Bool.false_eq_true, if_false, Bool.true_eq_false]
  rcases runTick handler f _ pid t st with ⟨s2, _ | e⟩ <;> rfl

theorem ticks_count (T p : Int) (d : Int) (k : Nat) (h : Ticks T p d k) (hp : 1 ≤ p) :
    (∀ i : Nat, i < k → d + i * p ≤ T) ∧ d + k * p > T := by
  induction h with
  | done d hgt => exact ⟨fun i hi => by omega, by simpa using hgt⟩
  | step d k hle _ ih =>
    obtain ⟨ih1, ih2⟩ := ih
    refine ⟨?_, ?_⟩
    · intro i hi
      cases i with
      | zero => simpa using hle
      | succ i =>
        have := ih1 i (by omega)
        push_cast
        rw [Int.add_mul]
        omega
    · push_cast
      rw [Int.add_mul]
      omega

/-- for every start and target there is such a `k` (so the closed form always applies) -/
theorem ticks_exists (T p : Int) (hp : 1 ≤ p) : ∀ (n : Nat) (d : Int), (T + 1 - d).toNat ≤ n → ∃ k, Ticks T p d k := by
  intro n
  induction n with
  | zero => intro d h; exact ⟨0, .done d (by omega)⟩
  | succ n ih =>
    intro d h
    by_cases hgt : d > T
    · exact ⟨0, .done d hgt⟩
    · obtain ⟨k, hk⟩ := ih (d + p) (by omega)
      exact ⟨k + 1, .step d k (by omega) hk⟩

theorem iterate_succ_int : ∀ (i : Nat) (a : Int), iterate (fun v : Int => v + 1) i a = a + i := by
  intro i
  induction i with
  | zero => intro a; simp [iterate]
  | succ i ih => intro a; simp only [iterate, ih]; push_cast; omega

/-- the closed form: a periodic task scheduled at clock `t0` on an otherwise idle scheduler whose action
returns `F state`, does not dispose its handle and sleeps at most one period inside each call -/
theorem periodic_closed_form (handler : Err → Bool) (f : Nat → σ → Tick σ) (pid : Nat) (t0 p : Int) (st0 : σ) (c : Bool)
    (T : Int) (F : σ → σ) (hp : 1 ≤ p) (hT : t0 < T)
    (hf : ∀ st, (f pid st).next = .ok (F st) ∧ (f pid st).dispose = false ∧ ((f pid st).sleep : Int) ≤ p)
    (k : Nat) (hk : Ticks T p (t0 + p) k) :
    (advanceTo handler f T (schedulePeriodic { clock := t0 } pid p st0 c)).2 = .ok ∧
    (advanceTo handler f T (schedulePeriodic { clock := t0 } pid p st0 c)).1.log = ideal pid p F (t0 + p) st0 k ∧
    (advanceTo handler f T (schedulePeriodic { clock := t0 } pid p st0 c)).1.clock = T ∧
    (advanceTo handler f T (schedulePeriodic { clock := t0 } pid p st0 c)).1.hlog = [] := by
  let t : Task := { period := p, catch_ := c }
  let s0 : St σ := schedulePeriodic { clock := t0 } pid p st0 c
  have hsolo : Solo pid t { s0 with enabled := true } (t0 + p) st0 := by
    refine ⟨rfl, ⟨PQ.MIN_COUNT, ?_⟩, ?_, ?_⟩
    · simp [s0, schedulePeriodic, enqueue, PQ.enqueue]; rfl
    · simp [s0, schedulePeriodic, enqueue, getTask, t]
    · simp [s0, schedulePeriodic, enqueue]; omega
  have hf' : ∀ st, (f pid st).next = .ok (F st) ∧ (f pid st).dispose = false ∧ ((f pid st).sleep : Int) ≤ t.period := hf
  have key := solo_loop handler f T pid t F hp rfl rfl hf' k (t0 + p) hk { s0 with enabled := true } st0 hsolo
    (max (weight T s0.queue.items) k + 1) (by omega)
  have hfuel := loopFuel_enough handler f T (weight T s0.queue.items + 1) (max (weight T s0.queue.items) k + 1)
    { s0 with enabled := true } (by simp only; omega) (by simp only; omega)
  have hclk : ¬ (s0.clock > T) := by simp [s0, schedulePeriodic, enqueue]; omega
  have hne : ¬ (s0.clock = T ∨ s0.enabled = true) := by simp [s0, schedulePeriodic, enqueue]; omega
  show (advanceTo handler f T s0).2 = .ok ∧ (advanceTo handler f T s0).1.log = _ ∧ (advanceTo handler f T s0).1.clock = T ∧
    (advanceTo handler f T s0).1.hlog = []
  simp only [advanceTo, if_neg hclk, if_neg hne]
  rw [hfuel]
  rcases hl : loopFuel handler f T (max (weight T s0.queue.items) k + 1) { s0 with enabled := true } with ⟨s', o⟩
  rw [hl] at key
  obtain ⟨k1, k2, k3⟩ := key
  simp only at k1 k2 k3
  subst k1
  refine ⟨rfl, ?_, rfl, ?_⟩
  · simp only [k2]; simp [s0, schedulePeriodic, enqueue]; rfl
  · simp only [k3]; simp [s0, schedulePeriodic, enqueue]
end Per

import RxProofs.Lemmas.ThrELD
/-!
# EventLoopScheduler model: initial state, runs, thread-creation count — C31
-/
namespace Thr.EL
open Thr

def nSpawn : List Ev → Nat
  | [] => 0
  | .enq _ _ _ _ (some _) :: r => 1 + nSpawn r
  | _ :: r => nSpawn r

/-- without exit_if_empty the scheduler creates at most one thread, ever -/
theorem thStep_spawn (me nth : Nat) (sh : Sh) (th : Th) (h : nSpawn sh.log = sh.thread.isSome.toNat) :
    nSpawn (thStep false me nth sh th).1.log = (thStep false me nth sh th).1.thread.isSome.toNat := by
  unfold thStep
  repeat' split
  all_goals simp_all [nSpawn]
  all_goals (try (cases ht : sh.thread <;> simp_all [nSpawn]))

theorem e1_init (progs : List (List Op)) (clock : Int) : E1 (Sys.init progs clock) := by
  have hz : sumBy nLoopT (progs.map fun p => ({ stack := [Frame.act none p] } : Th)) = 0 := by
    apply sumBy_eq_zero_of_forall
    intro x hx
    simp only [List.mem_map] at hx
    obtain ⟨p, _, rfl⟩ := hx
    simp [nLoopT, nLoop]
  refine ⟨?_, ?_, ?_, ?_, ?_⟩
  · intro th hth
    simp only [Sys.init, List.mem_map] at hth
    obtain ⟨p, _, rfl⟩ := hth
    exact Shape.client _ rfl
  · simp only [Sys.init]; rw [hz]; simp
  · simp [Sys.init]
  · simp [Sys.init]
  · simp [Sys.init]

theorem ra_init (progs : List (List Op)) : readyAll (progs.map fun p => ({ stack := [Frame.act none p] } : Th)) = [] := by
  simp only [readyAll, List.flatMap_eq_nil_iff, List.mem_map]
  intro x ⟨p, _, hx⟩; subst hx; simp [readyT, readyOf]

theorem e2_init (progs : List (List Op)) (clock : Int) : E2 (Sys.init progs clock) := by
  have := ra_init progs
  constructor <;> simp [Sys.init, this, immEnq, immPop, tPop, okCancel, okDisp]

structure EInv (s : Sys) : Prop where
  e1 : E1 s
  e2 : E2 s

theorem einv_run (xie : Bool) (s : Sys) (sched : List (Nat × Nat)) (h : EInv s) : EInv (s.run xie sched) := by
  induction sched generalizing s with
  | nil => exact h
  | cons p ps ih => exact ih _ ⟨e1_step xie s p.1 p.2 h.e1, e2_step xie s p.1 p.2 h.e1 h.e2⟩

theorem spawn_run (s : Sys) (sched : List (Nat × Nat)) (h : nSpawn s.sh.log = s.sh.thread.isSome.toNat) :
    nSpawn (s.run false sched).sh.log = (s.run false sched).sh.thread.isSome.toNat := by
  induction sched generalizing s with
  | nil => exact h
  | cons p ps ih =>
    apply ih
    simp only [Sys.step]
    split
    · exact h
    · rename_i th hth
      exact thStep_spawn p.1 s.ths.length _ th (by simpa using h)

theorem nRun_le_nLoop_sum (l : List Th) (h : ∀ th ∈ l, Shape th.stack) : sumBy nRunT l ≤ sumBy nLoopT l := by
  induction l with
  | nil => simp
  | cons x xs ih =>
    have := (shape_counts (h x (by simp))).1
    have := ih (fun t ht => h t (by simp [ht]))
    simp [nRunT, nLoopT] at *; omega

/-- no immediate item is gathered before a timed item that is due earlier -/
def CrossOk (a b : Item) : Prop := ¬ (a.imm = true ∧ b.imm = false ∧ b.due < a.due)

theorem takeWhile_all {α} (p : α → Bool) (l : List α) : ∀ x ∈ l.takeWhile p, p x = true := by
  induction l with
  | nil => simp
  | cons y ys ih =>
    intro x hx
    by_cases h : p y = true
    · simp [List.takeWhile_cons, h] at hx
      rcases hx with rfl | hx
      · exact h
      · exact ih x hx
    · simp [List.takeWhile_cons, h] at hx

theorem merge_cross (t : Int) (qs rl : List Item) (hr : ∀ r ∈ rl, r.imm = true) (hq : ∀ q ∈ qs, q.imm = false)
    (hs : qs.Pairwise (fun a b => a.due ≤ b.due)) : (merge t qs rl).1.Pairwise CrossOk := by
  induction qs generalizing rl with
  | nil =>
    simp only [merge]
    apply List.Pairwise.imp_of_mem (R := fun _ _ => True)
    · intro a b _ hb _ h; have := hr b hb; simp [this] at h
    · exact List.pairwise_of_forall (fun _ _ => trivial)
  | cons q qs ih =>
    have hq0 : q.imm = false := hq q (by simp)
    have hqs : ∀ x ∈ qs, x.imm = false := fun x hx => hq x (by simp [hx])
    rw [List.pairwise_cons] at hs
    have hA : ∀ r ∈ rl.takeWhile (fun r => decide (q.due > r.due)), r.imm = true ∧ r.due < q.due := by
      intro r hx
      refine ⟨hr r ((List.takeWhile_sublist _).subset hx), ?_⟩
      have := takeWhile_all _ _ r hx
      simpa using this
    have hD : ∀ r ∈ rl.dropWhile (fun r => decide (q.due > r.due)), r.imm = true :=
      fun r hx => hr r ((List.dropWhile_sublist _).subset hx)
    simp only [merge]
    split
    · -- break: only immediate items gathered
      apply List.Pairwise.imp_of_mem (R := fun _ _ => True)
      · intro a b _ hb _ h
        have : b.imm = true := by
          simp only [List.mem_append] at hb
          rcases hb with hb | hb
          · exact (hA b hb).1
          · exact hD b hb
        simp [this] at h
      · exact List.pairwise_of_forall (fun _ _ => trivial)
    · have ihh := ih _ hD hqs hs.2
      obtain ⟨mp1, mp2⟩ := merge_props t qs _ hD hqs
      rw [List.pairwise_append]
      refine ⟨?_, ?_, ?_⟩
      · apply List.Pairwise.imp_of_mem (R := fun _ _ => True)
        · intro a b _ hb _ h; simp [(hA b hb).1] at h
        · exact List.pairwise_of_forall (fun _ _ => trivial)
      · rw [List.pairwise_cons]
        exact ⟨fun b _ h => by simp [hq0] at h, ihh⟩
      · intro a ha b hb h
        obtain ⟨_, hbt, hlt⟩ := h
        have had := (hA a ha).2
        simp only [List.mem_cons] at hb
        rcases hb with rfl | hb
        · omega
        · -- b timed in g: b ∈ qs, so q.due ≤ b.due
          have : b ∈ qs := by
            have : b ∈ (merge t qs (rl.dropWhile fun r => decide (q.due > r.due))).1.filter (fun x => !x.imm) := by
              simp [List.mem_filter, hb, hbt]
            rw [← mp2]; simp [this]
          have := hs.1 b this; omega

end Thr.EL

import RxModel.WinGrp
/-!
# C09 over the `group_by_until` machine of the `win` family (`RxModel/WinGrp.lean`, read-only)

The three mapper `try` blocks (+ the subject factory) all end in `errorAll`:
`for wrt in writers.values(): wrt.on_error(e)` then `observer.on_error(e)`.  This file proves what `errorAll` does,
through a frame relation preserved by every helper of the machine.
-/
namespace WinGrp
variable {α κ β : Type}

def isEsc : Eff κ β → Bool
  | .escaped _ => true
  | _ => false
/-- exceptions that escaped to the emitter so far -/
def escs (s : St κ β) : List (Eff κ β) := s.out.filter isEsc
/-- writer #i exists and is stopped (its `Subject.is_stopped`) -/
def stoppedAt (s : St κ β) (i : Nat) : Prop := ∃ r, s.groups[i]? = some r ∧ r.stopped = true

/-- frame: the outer observer's flag and the escaped exceptions are untouched, the log only grows, no group is lost and
stopped writers stay stopped -/
structure Fr (s s' : St κ β) : Prop where
  outS : s'.outStopped = s.outStopped
  esc : escs s' = escs s
  grow : ∃ l, s'.out = s.out ++ l
  len : s'.groups.length = s.groups.length
  stop : ∀ i, stoppedAt s i → stoppedAt s' i
  wr : s'.writers = s.writers

theorem Fr.refl (s : St κ β) : Fr s s := ⟨rfl, rfl, ⟨[], by simp⟩, rfl, fun _ h => h, rfl⟩
theorem Fr.trans {a b c : St κ β} (h1 : Fr a b) (h2 : Fr b c) : Fr a c :=
  ⟨h2.outS.trans h1.outS, h2.esc.trans h1.esc,
   by obtain ⟨l1, e1⟩ := h1.grow; obtain ⟨l2, e2⟩ := h2.grow; exact ⟨l1 ++ l2, by rw [e2, e1, List.append_assoc]⟩,
   h2.len.trans h1.len, fun i h => h2.stop i (h1.stop i h), h2.wr.trans h1.wr⟩

theorem fr_emit (s : St κ β) (e : Eff κ β) (h : isEsc e = false) : Fr s (emit s e) :=
  ⟨rfl, by simp [emit, escs, List.filter_append, h], ⟨[e], rfl⟩, rfl, fun _ h => h, rfl⟩

theorem fr_modGrp (s : St κ β) (g : Nat) (f : Grp κ β → Grp κ β) (hf : ∀ r, r.stopped = true → (f r).stopped = true) :
    Fr s (modGrp s g f) := by
  refine ⟨rfl, rfl, ⟨[], by simp [modGrp]⟩, by simp [modGrp], ?_, rfl⟩
  intro i ⟨r, hr, hs⟩
  simp only [stoppedAt, modGrp, List.getElem?_modify, hr, Option.map_eq_map, Option.map_some]
  by_cases h : g = i
  · exact ⟨f r, by simp [h], hf r hs⟩
  · exact ⟨r, by simp [h], hs⟩

theorem fr_fields (s : St κ β) (s' : St κ β) (h1 : s'.groups = s.groups) (h2 : s'.out = s.out) (h3 : s'.outStopped = s.outStopped)
    (h4 : s'.writers = s.writers) : Fr s s' :=
  ⟨h3, by simp [escs, h2], ⟨[], by simp [h2]⟩, by rw [h1], fun i ⟨r, hr, hs⟩ => ⟨r, by rw [h1]; exact hr, hs⟩, h4⟩

theorem fr_closeDur (s : St κ β) (g : Nat) : Fr s (closeDur s g) := by
  unfold closeDur
  split
  · split
    · refine Fr.trans ?_ (fr_emit _ _ rfl); exact fr_modGrp s g _ (fun _ h => h)
    · exact Fr.refl s
  · exact Fr.refl s

theorem fr_closeSrc (s : St κ β) : Fr s (closeSrc s) := by
  unfold closeSrc; split
  · refine Fr.trans ?_ (fr_emit _ _ rfl); exact fr_fields s _ rfl rfl rfl rfl
  · exact Fr.refl s

theorem fr_foldl_closeDur (l : List Nat) (s : St κ β) : Fr s (l.foldl closeDur s) := by
  induction l generalizing s with
  | nil => exact Fr.refl s
  | cons g l ih => exact (fr_closeDur s g).trans (ih _)

theorem fr_gdDispose (s : St κ β) : Fr s (gdDispose s) := by
  show Fr s (List.foldl closeDur (closeSrc { s with srcStopped := true }) _)
  refine Fr.trans ?_ (fr_foldl_closeDur _ _)
  refine Fr.trans ?_ (fr_closeSrc _)
  exact fr_fields s _ rfl rfl rfl rfl

theorem fr_rcdRelease (s : St κ β) : Fr s (rcdRelease s) := by
  unfold rcdRelease; split
  · exact Fr.refl s
  · simp only; split
    · refine Fr.trans ?_ (fr_gdDispose _); exact fr_fields s _ rfl rfl rfl rfl
    · exact fr_fields s _ rfl rfl rfl rfl

theorem fr_rcdDispose (s : St κ β) : Fr s (rcdDispose s) := by
  unfold rcdDispose; split
  · exact Fr.refl s
  · split
    · simp only; split
      · refine Fr.trans ?_ (fr_gdDispose _); exact fr_fields s _ rfl rfl rfl rfl
      · exact fr_fields s _ rfl rfl rfl rfl
    · exact Fr.refl s

theorem fr_subEnd (s : St κ β) (g : Nat) : Fr s (subEnd s g) := by
  unfold subEnd; split
  · simp only; split
    · refine Fr.trans ?_ (fr_rcdRelease _); exact fr_modGrp s g _ (fun _ h => h)
    · exact fr_modGrp s g _ (fun _ h => h)
  · exact Fr.refl s

theorem fr_writerTerm (s : St κ β) (g : Nat) (n : Notif β) : Fr s (writerTerm s g n) := by
  unfold writerTerm; split
  · split
    · exact Fr.refl s
    · simp only; split
      · refine Fr.trans ?_ (fr_subEnd _ g)
        refine Fr.trans ?_ (fr_emit _ _ rfl)
        refine Fr.trans ?_ (fr_modGrp _ g _ (fun _ h => h))
        refine Fr.trans ?_ (fr_emit _ _ rfl)
        exact fr_modGrp s g _ (fun _ _ => rfl)
      · refine Fr.trans ?_ (fr_emit _ _ rfl); exact fr_modGrp s g _ (fun _ _ => rfl)
  · exact Fr.refl s

/-- `writer.on_error(e)` / `on_completed()` stops writer #g -/
theorem writerTerm_stops (s : St κ β) (g : Nat) (n : Notif β) (hg : g < s.groups.length) : stoppedAt (writerTerm s g n) g := by
  obtain ⟨r, hr⟩ : ∃ r, s.groups[g]? = some r := ⟨s.groups[g], by simp [hg]⟩
  by_cases hs : r.stopped = true
  · exact (fr_writerTerm s g n).stop g ⟨r, hr, hs⟩
  · have h1 : stoppedAt (emit (modGrp s g fun r => { r with stopped := true, exc := excOf n, wlog := r.wlog ++ [n] }) (.tap g n)) g := by
      refine ⟨{ r with stopped := true, exc := excOf n, wlog := r.wlog ++ [n] }, ?_, rfl⟩
      simp [emit, modGrp, List.getElem?_modify, hr]
    unfold writerTerm
    simp only [hr, hs, Bool.false_eq_true, if_false]
    split
    · refine (fr_subEnd _ g).stop g ?_
      refine (fr_emit _ _ rfl).stop g ?_
      exact (fr_modGrp _ g (fun r => { r with seen := r.seen ++ [n] }) (fun _ h => h)).stop g h1
    · exact h1

theorem fr_foldl_writerTerm (l : List Nat) (s : St κ β) (n : Notif β) : Fr s (l.foldl (fun s g => writerTerm s g n) s) := by
  induction l generalizing s with
  | nil => exact Fr.refl s
  | cons g l ih => exact (fr_writerTerm s g n).trans (ih _)

theorem foldl_writerTerm_stops (l : List Nat) (s : St κ β) (n : Notif β) (hl : ∀ g ∈ l, g < s.groups.length) :
    ∀ g ∈ l, stoppedAt (l.foldl (fun s g => writerTerm s g n) s) g := by
  induction l generalizing s with
  | nil => intro g hg; cases hg
  | cons a l ih =>
    intro g hg
    simp only [List.foldl_cons]
    have hlen := (fr_writerTerm s a n).len
    rcases List.mem_cons.1 hg with h | h
    · subst h
      exact (fr_foldl_writerTerm l _ n).stop g (writerTerm_stops s g n (hl g List.mem_cons_self))
    · exact ih _ (fun g' hg' => by rw [hlen]; exact hl g' (List.mem_cons_of_mem _ hg')) g h

theorem fr_termAll (s : St κ β) (n : Notif β) : Fr s (termAll s n) := fr_foldl_writerTerm _ s n

/-- **what the failure path `errorAll` does** (all three mapper `except` blocks and the subject factory's): with the outer
subscriber not yet terminated,
* the outer subscriber receives `on_error e` and its observer is stopped,
* every writer in `writers` (every open group) is stopped — its subscribers got the terminal (`writerTerm`),
* nothing escaped to the emitter, no earlier output is lost, no group is dropped. -/
theorem errorAll_spec (s : St κ β) (e : Err) (hout : s.outStopped = false)
    (hw : ∀ p ∈ s.writers, p.2 < s.groups.length) :
    (errorAll s e).outStopped = true
    ∧ Eff.outer (.error e) ∈ (errorAll s e).out
    ∧ (∀ p ∈ s.writers, stoppedAt (errorAll s e) p.2)
    ∧ escs (errorAll s e) = escs s
    ∧ (∃ l, (errorAll s e).out = s.out ++ l) := by
  have h0 : Fr s ({ s with failed := true } : St κ β) := fr_fields s _ rfl rfl rfl rfl
  have h1 : Fr s (termAll ({ s with failed := true } : St κ β) (.error e)) := h0.trans (fr_termAll _ (.error e))
  have hso : (termAll ({ s with failed := true } : St κ β) (Notif.error e : Notif β)).outStopped = false := by
    rw [h1.outS]; exact hout
  have h2 : Fr (emit { termAll ({ s with failed := true } : St κ β) (Notif.error e : Notif β) with outStopped := true }
      (.outer (.error e))) (errorAll s e) := by
    unfold errorAll outerTerm; rw [if_neg (by simp [hso])]; exact fr_rcdDispose _
  have hst : ∀ p ∈ s.writers, stoppedAt (termAll ({ s with failed := true } : St κ β) (Notif.error e : Notif β)) p.2 := by
    intro p hp
    exact foldl_writerTerm_stops _ ({ s with failed := true } : St κ β) _ (fun g hg => by
      obtain ⟨q, hq, rfl⟩ := List.mem_map.1 hg; exact hw q hq) p.2 (List.mem_map.2 ⟨p, hp, rfl⟩)
  refine ⟨by rw [h2.outS]; rfl, ?_, ?_, ?_, ?_⟩
  · obtain ⟨l, hl⟩ := h2.grow; rw [hl]; simp [emit]
  · intro p hp
    apply h2.stop
    obtain ⟨r, hr, hs⟩ := hst p hp
    exact ⟨r, by simpa [emit] using hr, hs⟩
  · rw [h2.esc]; simp [emit, escs, List.filter_append, isEsc]; exact h1.esc
  · obtain ⟨l1, e1⟩ := h1.grow; obtain ⟨l2, e2⟩ := h2.grow
    exact ⟨l1 ++ [.outer (.error e)] ++ l2, by rw [e2]; simp [emit, e1]⟩

end WinGrp

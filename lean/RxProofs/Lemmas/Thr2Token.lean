import RxProofs.Lemmas.Thr2Lock
import RxModel.Thr2Merge
/-!
# Lemmas for C43 — exclusion by a token instead of a lock (n-ary `amb`)

Programs made of atomic steps outside any lock (`free`) and unlocked downstream calls (`ucall`).
Every thread `i` has a *token* predicate `W i` on the shared state; tokens are stable under every update the
programs can make and mutually exclusive.  `Tok W K p`: given that the stable fact `K` holds now, program `p`
reaches a downstream call only when it knows its token (knowledge is refined after each atomic step by what
the step established — `K'`, itself stable).  Then at most one thread is ever inside the observer.
-/

set_option linter.unusedSimpArgs false

namespace Thr2

variable {σ α : Type}

def Stable (Upd : (σ → σ) → Prop) (K : σ → Prop) : Prop := ∀ v, Upd v → ∀ t, K t → K (v t)

inductive Tok (Upd : (σ → σ) → Prop) (W : σ → Prop) : (σ → Prop) → TProg σ α → Prop
  | halt {K} : Tok Upd W K .halt
  | free {K u n} (K' : σ → σ → Prop) : Upd u → (∀ s, K s → Stable Upd (K' s) ∧ K' s (u s)) →
      (∀ s, K s → Tok Upd W (K' s) (n s)) → Tok Upd W K (.free u n)
  | ucall {K o k} : (∀ s, K s → W s) → Tok Upd W K k → Tok Upd W K (.ucall o k)

theorem Tok.weaken {Upd : (σ → σ) → Prop} {W K K' : σ → Prop} {p : TProg σ α} (h : Tok Upd W K p)
    (hk : ∀ s, K' s → K s) : Tok Upd W K' p := by
  induction h generalizing K' with
  | halt => exact .halt
  | free K'' hu h1 _ ih => exact .free K'' hu (fun s hs => h1 s (hk s hs)) (fun s hs => ih s (hk s hs) (fun _ h => h))
  | ucall h1 _ ih => exact .ucall (fun s hs => h1 s (hk s hs)) (ih hk)

def TokTS (Upd : (σ → σ) → Prop) (W K : σ → Prop) : TS σ α → Prop
  | .run p => Tok Upd W K p
  | .uChk _ k | .uIn k => Tok Upd W K k
  | .crit .. | .critChk .. | .critIn .. => False

/-- every thread has stable knowledge under which its program is token-guarded, and holds its token while
inside the observer -/
def TInv (Upd : (σ → σ) → Prop) (W : Nat → σ → Prop) (S : Sys σ α) : Prop :=
  ∀ j, ∃ K : σ → Prop, Stable Upd K ∧ K S.st ∧ TokTS Upd (W j) K (S.thr j) ∧ ((S.thr j).inObs = true → W j S.st)

theorem TInv_X (Upd : (σ → σ) → Prop) (W : Nat → σ → Prop) (hex : ∀ i j s, W i s → W j s → i = j)
    (S : Sys σ α) (h : TInv Upd W S) : X S := by
  intro j k hj hk
  obtain ⟨_, _, _, _, wj⟩ := h j
  obtain ⟨_, _, _, _, wk⟩ := h k
  exact hex j k S.st (wj hj) (wk hk)

theorem step_TInv (Upd : (σ → σ) → Prop) (W : Nat → σ → Prop) (hst : ∀ j, Stable Upd (W j))
    (S S' : Sys σ α) (i : Nat) (hI : TInv Upd W S) (hs : step S i = some S') : TInv Upd W S' := by
  obtain ⟨K, hKs, hK, hT, hWi⟩ := hI i
  -- the shared state is unchanged; thread i moves to t' under the same knowledge
  have same : ∀ (t' : TS σ α) (S'' : Sys σ α), S''.thr = upd S.thr i t' → S''.st = S.st →
      TokTS Upd (W i) K t' → (t'.inObs = true → W i S.st) → TInv Upd W S'' := by
    intro t' S'' ht hst' hg hw j
    by_cases hji : j = i
    · subst hji
      exact ⟨K, hKs, by rw [hst']; exact hK, by rw [ht]; simpa using hg, by rw [ht, hst']; simpa using hw⟩
    · obtain ⟨Kj, a, b, c, d⟩ := hI j
      exact ⟨Kj, a, by rw [hst']; exact b, by rw [ht, upd_other _ _ _ _ hji]; exact c,
        by rw [ht, upd_other _ _ _ _ hji, hst']; exact d⟩
  unfold step at hs
  split at hs
  · cases hs
  · next u n h =>
    cases hs
    rw [h] at hT
    cases hT with | free K' hu h1 h2 =>
    obtain ⟨hs1, hs2⟩ := h1 S.st hK
    intro j
    by_cases hji : j = i
    · subst hji
      exact ⟨K' S.st, hs1, hs2, by simpa [TokTS] using h2 S.st hK, by simp [TS.inObs]⟩
    · obtain ⟨Kj, a, b, c, d⟩ := hI j
      refine ⟨Kj, a, a u hu _ b, by simpa [upd_other _ _ _ _ hji] using c, ?_⟩
      simp only [upd_other _ _ _ _ hji]
      exact fun hin => hst j u hu _ (d hin)
  · next b k h => rw [h] at hT; cases hT
  · next o k h =>
    rw [h] at hT
    cases hT with | ucall h1 h2 =>
    split at hs
    · cases hs
      exact same (.run k) _ rfl rfl h2 (by simp [TS.inObs])
    · next c hc =>
      cases hs
      cases hstp : S.stopped
      · exact same (.uChk c k) _ (by simp [Sys.callStep, hstp]) (by simp [Sys.callStep, hstp]) h2 (fun _ => h1 _ hK)
      · exact same (.run k) _ (by simp [Sys.callStep, hstp]) (by simp [Sys.callStep, hstp]) h2 (by simp [TS.inObs])
  · next c k h =>
    cases hs
    rw [h] at hT hWi
    exact same (.uIn k) _ rfl rfl hT (fun _ => hWi (by simp [TS.inObs]))
  · next k h =>
    cases hs
    rw [h] at hT
    exact same (.run k) _ rfl rfl hT (by simp [TS.inObs])
  · next k h => rw [h] at hT; exact hT.elim
  · next u o n k h => rw [h] at hT; exact hT.elim
  · next c b k h => rw [h] at hT; exact hT.elim
  · next b k h => rw [h] at hT; exact hT.elim

/-! ### n-ary amb -/

def AUpd (u : AS → AS) : Prop := ∃ j d, u = tas j d

/-- source `i` (of `n`) is the choice of every stage it passes through: left at its own, right at the later ones -/
def AW (n i : Nat) (s : AS) : Prop := i < n ∧ ∀ j, i ≤ j → j < n → s j = some (decide (j ≠ i))

/-- … of the stages before `j` -/
def AK (n i j : Nat) (s : AS) : Prop := i < n ∧ ∀ j', i ≤ j' → j' < j → s j' = some (decide (j' ≠ i))

theorem tas_keeps (j : Nat) (d : Bool) (s : AS) (j' : Nat) (b : Bool) (h : s j' = some b) : tas j d s j' = some b := by
  unfold tas
  split
  · next hn =>
    by_cases hjj : j' = j
    · subst hjj; rw [h] at hn; cases hn
    · rw [upd_other _ _ _ _ hjj]; exact h
  · exact h

theorem AK_stable (n i j : Nat) : Stable AUpd (AK n i j) := by
  rintro v ⟨j0, d0, rfl⟩ t ⟨h1, h2⟩
  exact ⟨h1, fun j' a b => tas_keeps _ _ _ _ _ (h2 j' a b)⟩

theorem AW_stable (n i : Nat) : Stable AUpd (AW n i) := by
  rintro v ⟨j0, d0, rfl⟩ t ⟨h1, h2⟩
  exact ⟨h1, fun j' a b => tas_keeps _ _ _ _ _ (h2 j' a b)⟩

theorem AW_excl (n : Nat) (i j : Nat) (s : AS) (hi : AW n i s) (hj : AW n j s) : i = j := by
  rcases Nat.lt_trichotomy i j with h | h | h
  · have a := hi.2 j (Nat.le_of_lt h) hj.1
    have b := hj.2 j (Nat.le_refl _) hj.1
    rw [a] at b
    have : j ≠ i := fun e => by omega
    simp [this] at b
  · exact h
  · have a := hj.2 i (Nat.le_of_lt h) hi.1
    have b := hi.2 i (Nat.le_refl _) hi.1
    rw [a] at b
    have : i ≠ j := fun e => by omega
    simp [this] at b

/-- the knowledge after the test-and-set of stage `j` from pre-state `s` -/
def AKnext (n i j : Nat) (d : Bool) (s : AS) : AS → Prop :=
  fun t => if tas j d s j = some d then AK n i (j + 1) t else i < n

theorem AKnext_ok (n i j : Nat) (d : Bool) (hd : d = decide (j ≠ i)) (s : AS) (hs : AK n i j s) :
    Stable AUpd (AKnext n i j d s) ∧ AKnext n i j d s (tas j d s) := by
  unfold AKnext
  split
  · next hp =>
    refine ⟨AK_stable n i (j + 1), hs.1, fun j' a b => ?_⟩
    by_cases hjj : j' = j
    · subst hjj; rw [hp, hd]
    · exact tas_keeps _ _ _ _ _ (hs.2 j' a (by omega))
  · exact ⟨fun _ _ _ h => h, hs.1⟩

theorem tok_ambPass (n i : Nat) (k : TProg AS α) (hk : Tok AUpd (AW n i) (fun _ => i < n) k) (c : Notif α) :
    ∀ (m j : Nat) (d : Bool), j + m + 1 = n → i ≤ j → d = decide (j ≠ i) →
      Tok AUpd (AW n i) (AK n i j) (ambPass d j m c k) := by
  intro m
  induction m with
  | zero =>
    intro j d hjm hij hd
    refine .free (AKnext n i j d) ⟨j, d, rfl⟩ (fun s hs => AKnext_ok n i j d hd s hs) (fun s hs => ?_)
    unfold AKnext
    split
    · next hp =>
      refine .ucall (fun t ht => ⟨ht.1, fun j' a b => ht.2 j' a (by omega)⟩) (hk.weaken (fun t ht => ht.1))
    · exact hk.weaken (fun _ h => h)
  | succ m ih =>
    intro j d hjm hij hd
    refine .free (AKnext n i j d) ⟨j, d, rfl⟩ (fun s hs => AKnext_ok n i j d hd s hs) (fun s hs => ?_)
    unfold AKnext
    split
    · next hp =>
      have hne : j + 1 ≠ i := by omega
      simpa [ambPass, hp] using ih (j + 1) true (by omega) (by omega) (by simp [hne])
    · next hp => simpa [ambPass, hp] using hk.weaken (fun _ h => h)

theorem tok_ambSrc (n i : Nat) (hi : i < n) (cs : List (Notif α)) :
    Tok AUpd (AW n i) (fun _ => i < n) (ambSrc n i cs) := by
  induction cs with
  | nil => exact .halt
  | cons c cs ih =>
    have := tok_ambPass n i (ambSrc n i cs) ih c (n - 1 - i) i false (by omega) (Nat.le_refl _) (by simp)
    exact this.weaken (fun s hs => ⟨hs, fun j' a b => by omega⟩)

theorem init_TInv_amb (n : Nat) (srcs : Nat → List (Notif α)) :
    TInv AUpd (AW n) (init (fun _ => none) (ambNProgs n srcs)) := by
  intro j
  by_cases hj : j < n
  · exact ⟨fun _ => j < n, fun _ _ _ h => h, hj, by simpa [init, ambNProgs, hj, TokTS] using tok_ambSrc n j hj (srcs j),
      by simp [init, TS.inObs]⟩
  · exact ⟨fun _ => True, fun _ _ _ h => h, trivial, by simpa [init, ambNProgs, hj, TokTS] using Tok.halt,
      by simp [init, TS.inObs]⟩

end Thr2

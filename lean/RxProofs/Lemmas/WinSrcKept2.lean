import RxProofs.Lemmas.WinSrcKept
import RxProofs.Lemmas.WinEnd
/-!
# `SrcKept` is preserved by every step that is not a terminal of the windowed source (generated from WinBufJ2.lean).
-/
namespace Win
variable {α : Type}
open Base


namespace Cnt
theorem SK_createWindow (s : Cnt α) (h : SrcKept s.b) : SrcKept s.createWindow.b := SK_open s.b h
theorem SK_fin (skip : Nat) (s : Cnt α) (h : SrcKept s.b) : SrcKept (fin skip s).b := by
  unfold fin; split
  · exact SK_createWindow s h
  · exact h
theorem SK_onNext (count skip : Nat) (s : Cnt α) (x : α) (h : SrcKept s.b) : SrcKept (onNext count skip s x).b := by
  have h1 : SrcKept (s.q.foldl (fun b id => b.winNext id x) s.b) := SK_foldl _ (fun b i hb => SK_winNext b i x hb) _ _ h
  rw [onNext_eq]; split
  · split
    · exact SK_emit _ _ h1
    · exact SK_fin _ _ (SK_winEnd _ _ _ (by assumption))
  · exact SK_fin _ _ h1
theorem SK_onEnd (s : Cnt α) (e) (h : SrcKept s.b) : SrcKept (onEnd s e).b :=
  SK_outerEnd _ _ (SK_foldl _ (fun b i hb => SK_winEnd b i e hb) _ _ h)
theorem SK_step (count skip : Nat) (s : Cnt α) (t : Nat) (ev : Ev α) (hns : ev.notSrcTerminal = true) (h : SrcKept s.b) : SrcKept ((Cnt.mach count skip).step s t ev).b := by
  have h' : SrcKept ({ s with b := { s.b with now := t } } : Cnt α).b := SK_now _ _ h
  simp only [mach]
  cases ev with
  | src k n =>
    cases k with
    | zero =>
      simp only [step]; split
      · cases n with
        | next x => exact SK_onNext _ _ _ _ h'
        | error e => exact SK_unsub _ _ (by first | omega | (intro h0; simp_all [Ev.notSrcTerminal])) (SK_onEnd _ _ h')
        | completed => exact SK_unsub _ _ (by first | omega | (intro h0; simp_all [Ev.notSrcTerminal])) (SK_onEnd _ _ h')
      · exact h'
    | succ k => exact h'
  | dispose w => exact SK_disposeEv _ _ h'
  | tick => exact h'
end Cnt

end Win
namespace Win
variable {α : Type}
open Base

namespace Bnd
theorem SK_step (s : Bnd α) (t : Nat) (ev : Ev α) (hns : ev.notSrcTerminal = true) (h : SrcKept s.b) : SrcKept (Bnd.mach.step s t ev).b := by
  have h' : SrcKept ({ s with b := { s.b with now := t } } : Bnd α).b := SK_now _ _ h
  simp only [mach]
  cases ev with
  | src k n =>
    simp only [step]; split
    · cases n with
      | next x =>
        by_cases hk : (k == 0) = true
        · simp only [hk, if_true]; exact SK_winNext _ _ _ h'
        · simp only [hk, Bool.false_eq_true, if_false, onBoundary]; exact SK_open _ (SK_winEnd _ _ _ h')
      | error e => exact SK_unsub _ _ (by first | omega | (intro h0; simp_all [Ev.notSrcTerminal])) (SK_outerEnd _ _ (SK_winEnd _ _ _ h'))
      | completed => exact SK_unsub _ _ (by first | omega | (intro h0; simp_all [Ev.notSrcTerminal])) (SK_outerEnd _ _ (SK_winEnd _ _ _ h'))
    · exact h'
  | dispose w => exact SK_disposeEv _ _ h'
  | tick => exact h'
end Bnd

namespace Whn
theorem SK_onEnd (s : Whn α) (e) (h : SrcKept s.b) : SrcKept (onEnd s e).b := SK_outerEnd _ _ (SK_winEnd _ _ _ h)
theorem SK_createClosingF (r : Option Nat) (pool : Nat) (fuel : Nat) (s : Whn α) (h : SrcKept s.b) : SrcKept (createClosingF r pool fuel s).b := by
  induction fuel generalizing s with
  | zero => exact h
  | succ fuel ih =>
    simp only [createClosingF]
    split
    · exact SK_outerEnd _ _ (SK_winEnd _ _ _ h)
    · have h1 : SrcKept (if s.calls ≥ 1 then s.b.unsub s.calls else s.b) := by split; exact SK_unsub _ _ (by first | omega | (intro h0; simp_all [Ev.notSrcTerminal])) h; exact h
      generalize (if s.calls ≥ 1 then s.b.unsub s.calls else s.b) = b1 at h1 ⊢
      split
      · exact ih _ (SK_open _ (SK_winEnd _ _ _ h1))
      · exact SK_outerEnd _ _ (SK_winEnd _ _ _ h1)
      · simp only []
        split
        · split
          · exact SK_unsub _ _ (by first | omega | (intro h0; simp_all [Ev.notSrcTerminal])) (SK_subscribe _ _ h1)
          · exact SK_subscribe _ _ h1
        · exact h1
theorem SK_createClosing (r : Option Nat) (pool : Nat) (s : Whn α) (h : SrcKept s.b) : SrcKept (createClosing r pool s).b :=
  SK_createClosingF r pool _ s h
theorem SK_onClose (r : Option Nat) (pool : Nat) (s : Whn α) (h : SrcKept s.b) : SrcKept (onClose r pool s).b :=
  SK_createClosing _ _ _ (SK_open _ (SK_winEnd _ _ _ h))
theorem SK_step (r : Option Nat) (pool : Nat) (s : Whn α) (t : Nat) (ev : Ev α) (hns : ev.notSrcTerminal = true) (h : SrcKept s.b) :
    SrcKept ((Whn.mach r pool).step s t ev).b := by
  have h' : SrcKept ({ s with b := { s.b with now := t } } : Whn α).b := SK_now _ _ h
  simp only [mach]
  cases ev with
  | src k n =>
    simp only [step]; split
    · split
      · cases n with
        | next x => exact SK_winNext _ _ _ h'
        | error e => exact SK_unsub _ _ (by first | omega | (intro h0; simp_all [Ev.notSrcTerminal])) (SK_onEnd _ _ h')
        | completed => exact SK_unsub _ _ (by first | omega | (intro h0; simp_all [Ev.notSrcTerminal])) (SK_onEnd _ _ h')
      · cases n with
        | next x => exact SK_unsub _ _ (by first | omega | (intro h0; simp_all [Ev.notSrcTerminal])) (SK_onClose _ _ _ h')
        | error e => exact SK_unsub _ _ (by first | omega | (intro h0; simp_all [Ev.notSrcTerminal])) (SK_onEnd _ _ h')
        | completed => exact SK_unsub _ _ (by first | omega | (intro h0; simp_all [Ev.notSrcTerminal])) (SK_onClose _ _ _ h')
    · exact h'
  | dispose w => exact SK_disposeEv _ _ h'
  | tick => exact h'
end Whn

namespace Tgl
theorem SK_errAll (s : Tgl α) (e) (h : SrcKept s.b) : SrcKept (errAll s e).b :=
  SK_outerEnd _ _ (SK_foldl _ (fun b p hb => SK_winEnd b p.2 (some e) hb) _ _ h)
theorem SK_expire (s : Tgl α) (i) (h : SrcKept s.b) : SrcKept (expire s i).b := by
  unfold expire; split
  · exact SK_winEnd _ _ _ h
  · exact h
theorem SK_onOpen (r : Option Nat) (pool : Nat) (s : Tgl α) (h : SrcKept s.b) : SrcKept (onOpen r pool s).b := by
  have h1 : SrcKept (s.b.newWin.1.outerNext s.b.newWin.2) := SK_open _ h
  unfold onOpen; simp only []
  split
  · exact SK_errAll _ _ h1
  · split
    · exact SK_expire _ _ h1
    · exact SK_errAll _ _ h1
    · split
      · split
        · exact SK_unsub _ _ (by first | omega | (intro h0; simp_all [Ev.notSrcTerminal])) (SK_subscribe _ _ h1)
        · exact SK_subscribe _ _ h1
      · exact h1
theorem SK_step (r : Option Nat) (pool : Nat) (s : Tgl α) (t : Nat) (ev : Ev α) (hns : ev.notSrcTerminal = true) (h : SrcKept s.b) :
    SrcKept ((Tgl.mach r pool).step s t ev).b := by
  have h' : SrcKept ({ s with b := { s.b with now := t } } : Tgl α).b := SK_now _ _ h
  simp only [mach]
  cases ev with
  | src k n =>
    simp only [step]; split
    · split
      · cases n with
        | next x => exact SK_foldl _ (fun b p hb => SK_winNext b p.2 x hb) _ _ h'
        | error e => exact SK_unsub _ _ (by first | omega | (intro h0; simp_all [Ev.notSrcTerminal])) (SK_errAll _ _ h')
        | completed => exact SK_unsub _ _ (by first | omega | (intro h0; simp_all [Ev.notSrcTerminal])) h'
      · split
        · cases n with
          | next x => exact SK_onOpen _ _ _ h'
          | error e => exact SK_unsub _ _ (by first | omega | (intro h0; simp_all [Ev.notSrcTerminal])) (SK_errAll _ _ h')
          | completed => exact SK_unsub _ _ (by first | omega | (intro h0; simp_all [Ev.notSrcTerminal])) (SK_outerEnd _ _ h')
        · cases n with
          | next x => exact SK_unsub _ _ (by first | omega | (intro h0; simp_all [Ev.notSrcTerminal])) (SK_expire _ _ h')
          | error e => exact SK_unsub _ _ (by first | omega | (intro h0; simp_all [Ev.notSrcTerminal])) (SK_errAll _ _ h')
          | completed => exact SK_unsub _ _ (by first | omega | (intro h0; simp_all [Ev.notSrcTerminal])) (SK_expire _ _ h')
    · exact h'
  | dispose w => exact SK_disposeEv _ _ h'
  | tick => exact h'
end Tgl

namespace Tim
theorem SK_onEnd (s : Tim α) (e) (h : SrcKept s.b) : SrcKept (onEnd s e).b :=
  SK_outerEnd _ _ (SK_foldl _ (fun b i hb => SK_winEnd b i e hb) _ _ h)
theorem SK_onTick (shift : Nat) (s : Tim α) (h : SrcKept s.b) : SrcKept (onTick shift s).b := by
  unfold onTick; split
  · exact h
  · rename_i tk _
    simp only []
    have hnew : SrcKept (s.b.newWin.1.outerNext s.b.newWin.2) := SK_open _ h
    cases tk.isShift <;> cases tk.isSpan <;> simp only [Bool.false_eq_true, if_false, if_true]
    · exact h
    · split
      · exact SK_emit _ _ h
      · exact SK_winEnd _ _ _ h
    · exact hnew
    · split
      · exact SK_emit _ _ hnew
      · exact SK_winEnd _ _ _ hnew
theorem SK_step (shift : Nat) (s : Tim α) (t : Nat) (ev : Ev α) (hns : ev.notSrcTerminal = true) (h : SrcKept s.b) : SrcKept ((Tim.mach shift).step s t ev).b := by
  have h' : SrcKept ({ s with b := { s.b with now := t } } : Tim α).b := SK_now _ _ h
  simp only [mach]
  cases ev with
  | src k n =>
    cases k with
    | zero =>
      simp only [step]; split
      · cases n with
        | next x => exact SK_foldl _ (fun b i hb => SK_winNext b i x hb) _ _ h'
        | error e => rw [sync_b]; exact SK_unsub _ _ (by first | omega | (intro h0; simp_all [Ev.notSrcTerminal])) (SK_onEnd _ _ h')
        | completed => rw [sync_b]; exact SK_unsub _ _ (by first | omega | (intro h0; simp_all [Ev.notSrcTerminal])) (SK_onEnd _ _ h')
      · exact h'
    | succ k => exact h'
  | dispose w => simp only [step, sync_b]; exact SK_disposeEv _ _ h'
  | tick => simp only [step, sync_b]; exact SK_onTick _ _ h'
end Tim

namespace Toc
theorem SK_roll (st : Toc α) (h : SrcKept st.b) : SrcKept (roll st).b := SK_open _ (SK_winEnd _ _ _ h)
theorem SK_step (span count : Nat) (s : Toc α) (t : Nat) (ev : Ev α) (hns : ev.notSrcTerminal = true) (h : SrcKept s.b) :
    SrcKept ((Toc.mach span count).step s t ev).b := by
  have h' : SrcKept ({ s with b := { s.b with now := t } } : Toc α).b := SK_now _ _ h
  simp only [mach]
  cases ev with
  | src k n =>
    cases k with
    | zero =>
      simp only [step]; split
      · cases n with
        | next x =>
          simp only [sync_b, onNext]; split
          · simp only [createTimer_b, sync_b]; exact SK_roll _ (SK_winNext _ _ _ h')
          · exact SK_winNext _ _ _ h'
        | error e => simp only [sync_b, onEnd]; exact SK_unsub _ _ (by first | omega | (intro h0; simp_all [Ev.notSrcTerminal])) (SK_outerEnd _ _ (SK_winEnd _ _ _ h'))
        | completed => simp only [sync_b, onEnd]; exact SK_unsub _ _ (by first | omega | (intro h0; simp_all [Ev.notSrcTerminal])) (SK_outerEnd _ _ (SK_winEnd _ _ _ h'))
      · exact h'
    | succ k => exact h'
  | dispose w => simp only [step, sync_b]; exact SK_disposeEv _ _ h'
  | tick =>
    simp only [step, sync_b, onTick]; split
    · exact h'
    · split
      · exact h'
      · simp only [createTimer_b, sync_b]; exact SK_roll _ h'
end Toc


end Win

namespace Win
variable {α : Type}
open Base

theorem Base.SK_subscribe0 (b : Base α) : SrcKept (b.subscribe 0) := by
  intro _; simp [Base.subscribe, Base.emit]

theorem Cnt.SK_init (t0 : Nat) : SrcKept (Cnt.init (α := α) t0).b := Base.SK_subscribe0 _
theorem Bnd.SK_init (t0 : Nat) (bsync : Option (Notif Unit)) : SrcKept (Bnd.init (α := α) t0 bsync).b := by
  have h0 : SrcKept ((({ now := t0 } : Base α).newWin.1.outerNext ({ now := t0 } : Base α).newWin.2).subscribe 0) :=
    Base.SK_subscribe0 _
  cases bsync with
  | none => simp only [Bnd.init]; exact SK_subscribe _ _ h0
  | some n =>
    cases n with
    | next u => simp only [Bnd.init, Bnd.onBoundary]; exact SK_open _ (SK_winEnd _ _ _ h0)
    | error e => simp only [Bnd.init, Bnd.onEnd]; exact SK_outerEnd _ _ (SK_winEnd _ _ _ h0)
    | completed => simp only [Bnd.init, Bnd.onEnd]; exact SK_outerEnd _ _ (SK_winEnd _ _ _ h0)
theorem Whn.SK_init (r : Option Nat) (pool t0 : Nat) (sync : List (Option (Option Err))) :
    SrcKept (Whn.init (α := α) r pool t0 sync).b :=
  Whn.SK_createClosing _ _ _ (Base.SK_subscribe0 _)
theorem Tgl.SK_init (t0 : Nat) (sync : List (Option (Option Err))) : SrcKept (Tgl.init (α := α) t0 sync).b :=
  Base.SK_subscribe0 _
theorem Tim.SK_init (span shift t0 : Nat) : SrcKept (Tim.init (α := α) span shift t0).b := Base.SK_subscribe0 _
theorem Toc.SK_init (span t0 : Nat) : SrcKept (Toc.init (α := α) span t0).b := Base.SK_subscribe0 _

end Win

import RxProofs.Lemmas.ThrTrampB
/-!
# Trampolines shared between threads / one per thread: system-level invariants (C30)
-/
namespace Thr.Tramp

theorem thStep_mono (fixed : Bool) (tr : Tr) (g : Glob) (th : Th) :
    g.clock ≤ (thStep fixed tr g th).2.1.clock ∧ g.nsched ≤ (thStep fixed tr g th).2.1.nsched ∧
    ∃ cs, (thStep fixed tr g th).2.1.cancelled = cs ++ g.cancelled := by
  unfold thStep
  repeat' split
  all_goals
    refine ⟨?_, ?_, ?_⟩
    · simp only []; omega
    · simp only []; omega
    · first
      | exact ⟨[], rfl⟩
      | exact ⟨[_], rfl⟩

/-- the effect of a thread step on the global state is an `env` action for everybody else -/
theorem thStep_env (fixed : Bool) (tr : Tr) (g : Glob) (th : Th) :
    ∃ (dt dn : Nat) (cs : List Nat),
      (thStep fixed tr g th).2.1 = { clock := g.clock + dt, cancelled := cs ++ g.cancelled, nsched := g.nsched + dn } := by
  obtain ⟨h1, h2, cs, h3⟩ := thStep_mono fixed tr g th
  refine ⟨((thStep fixed tr g th).2.1.clock - g.clock).toNat, (thStep fixed tr g th).2.1.nsched - g.nsched, cs, ?_⟩
  generalize (thStep fixed tr g th).2.1 = g' at *
  rcases g' with ⟨c, ca, n⟩
  simp only at h1 h2 h3
  simp only [Glob.mk.injEq]
  refine ⟨by omega, h3, by omega⟩

/-- drain-frame count of a thread vs the idle flag of its trampoline -/
theorem thStep_drain (fixed : Bool) (tr : Tr) (g : Glob) (th : Th) (h : 1 ≤ nDrain th.stack → tr.idle = false) :
    nDrain (thStep fixed tr g th).2.2.stack + (!tr.idle).toNat
      = nDrain th.stack + (!(thStep fixed tr g th).1.idle).toNat := by
  unfold thStep
  repeat' split
  all_goals simp_all [nDrain]
  all_goals omega

theorem thStep_idle_empty (fixed : Bool) (tr : Tr) (g : Glob) (th : Th) (h : tr.idle = true → tr.queue = []) :
    (thStep fixed tr g th).1.idle = true → (thStep fixed tr g th).1.queue = [] := by
  unfold thStep
  repeat' split
  all_goals simp_all

def nEnq : List Ev → Nat
  | [] => 0
  | .enq .. :: rest => 1 + nEnq rest
  | _ :: rest => nEnq rest

/-- items taken out of the ready batch: started, or found cancelled -/
def nOut : List Ev → Nat
  | [] => 0
  | .start .. :: rest => 1 + nOut rest
  | .skip .. :: rest => 1 + nOut rest
  | _ :: rest => nOut rest

/-- a drain frame holds a non-empty ready batch only in its `exec` phase -/
def readyOk (fixed : Bool) (rg : Bool) : List Frame → Prop
  | [] => True
  | .drain ph r :: rest =>
    (ph ≠ .exec → r = []) ∧ (fixed = true → ph ≠ .final) ∧ (ph = .abort → rg = true) ∧ readyOk fixed rg rest
  | _ :: rest => readyOk fixed rg rest

theorem readyOk_mono (fixed : Bool) (st : List Frame) (h : readyOk fixed false st) : readyOk fixed true st := by
  induction st with
  | nil => trivial
  | cons f fs ih => cases f <;> simp_all [readyOk]

theorem readyOk_weaken (fixed : Bool) (a b : Bool) (st : List Frame) (h : readyOk fixed a st) (hab : a = true → b = true) :
    readyOk fixed b st := by
  cases a <;> cases b <;> simp_all
  exact readyOk_mono fixed st h

theorem thStep_raised_mono (fixed : Bool) (tr : Tr) (g : Glob) (th : Th) :
    tr.raisedG = true → (thStep fixed tr g th).1.raisedG = true := by
  unfold thStep
  repeat' split
  all_goals simp_all

theorem enqueue_length (q : List Item) (n : Item) : (enqueue q n).length = q.length + 1 := by
  induction q with
  | nil => rfl
  | cons x xs ih => simp only [enqueue]; split <;> simp [ih]

theorem take_drop_length {α} (p : α → Bool) (q : List α) : (q.takeWhile p).length + (q.dropWhile p).length = q.length := by
  rw [← List.length_append, List.takeWhile_append_dropWhile]

theorem thStep_readyOk (fixed : Bool) (tr : Tr) (g : Glob) (th : Th) (h : readyOk fixed tr.raisedG th.stack) :
    readyOk fixed (thStep fixed tr g th).1.raisedG (thStep fixed tr g th).2.2.stack := by
  unfold thStep
  repeat' split
  all_goals simp_all [readyOk]
  all_goals (try (cases fixed <;> simp_all))
  all_goals (try (cases hr : tr.raisedG <;> simp_all [readyOk_mono]))

/-- conservation of items for the FIXED exit path: enqueued = taken out + ready + queued -/
theorem thStep_cons (tr : Tr) (g : Glob) (th : Th) (h : readyOk true tr.raisedG th.stack)
    (hnr : (thStep true tr g th).1.raisedG = false) :
    nEnq (thStep true tr g th).2.2.log + (nOut th.log + (readyOf th.stack).length) + tr.queue.length
      = nEnq th.log + (nOut (thStep true tr g th).2.2.log + (readyOf (thStep true tr g th).2.2.stack).length)
        + (thStep true tr g th).1.queue.length := by
  revert hnr
  unfold thStep
  repeat' split
  all_goals simp_all [nEnq, nOut, readyOf, readyOk, enqueue_length]
  all_goals (try omega)
  all_goals (try (have := take_drop_length (isDue g.clock) tr.queue; omega))


/-! ## system level: several threads, several trampolines -/

def drainsOn (k : Nat) (p : Nat × Th) : Nat := if p.1 = k then nDrain p.2.stack else 0
def enqOn (k : Nat) (p : Nat × Th) : Nat := if p.1 = k then nEnq p.2.log else 0
def outOn (k : Nat) (p : Nat × Th) : Nat := if p.1 = k then nOut p.2.log + (readyOf p.2.stack).length else 0

structure MInv (fixed : Bool) (s : Sys) : Prop where
  /-- per trampoline: #drain loops active over all threads = (not idle) -/
  mutex : ∀ (k : Nat) (tr : Tr), s.trs[k]? = some tr → sumBy (drainsOn k) s.ths = (!tr.idle).toNat
  idleEmpty : ∀ (k : Nat) (tr : Tr), s.trs[k]? = some tr → tr.idle = true → tr.queue = []
  rok : ∀ p ∈ s.ths, ∀ (tr : Tr), s.trs[p.1]? = some tr → readyOk fixed tr.raisedG p.2.stack
  cons : fixed = true → ∀ (k : Nat) (tr : Tr), s.trs[k]? = some tr → tr.raisedG = false →
    sumBy (enqOn k) s.ths = sumBy (outOn k) s.ths + tr.queue.length

theorem Sys.step_eq (fixed : Bool) (s : Sys) (i dt k : Nat) (th : Th) (tr : Tr)
    (hi : s.ths[i]? = some (k, th)) (hk : s.trs[k]? = some tr) :
    s.step fixed i dt =
      { g := (thStep fixed tr { s.g with clock := s.g.clock + dt } th).2.1,
        trs := s.trs.set k (thStep fixed tr { s.g with clock := s.g.clock + dt } th).1,
        ths := s.ths.set i (k, (thStep fixed tr { s.g with clock := s.g.clock + dt } th).2.2) } := by
  simp [Sys.step, hi, hk]

theorem minv_step (fixed : Bool) (s : Sys) (i dt : Nat) (h : MInv fixed s) : MInv fixed (s.step fixed i dt) := by
  cases hi : s.ths[i]? with
  | none => simp [Sys.step, hi]; exact h
  | some p =>
    rcases p with ⟨k, th⟩
    cases hk : s.trs[k]? with
    | none => simp [Sys.step, hi, hk]; exact h
    | some tr =>
      rw [Sys.step_eq fixed s i dt k th tr hi hk]
      generalize hg : ({ s.g with clock := s.g.clock + dt } : Glob) = g0
      obtain ⟨mutex, idleEmpty, rok, cons⟩ := h
      have hmem : (k, th) ∈ s.ths := List.mem_of_getElem? hi
      have hD := sumBy_set (drainsOn k) s.ths i (k, th) (k, (thStep fixed tr g0 th).2.2) hi
      have hDle := sumBy_le_mem (drainsOn k) s.ths i (k, th) hi
      have hmk := mutex k tr hk
      simp only [drainsOn, if_true] at hD hDle
      have hdr : 1 ≤ nDrain th.stack → tr.idle = false := by
        intro h1; cases hid : tr.idle
        · rfl
        · simp [hid] at hmk; omega
      have hstep := thStep_drain fixed tr g0 th hdr
      have hklt : k < s.trs.length := by
        have := List.getElem?_eq_some_iff.mp hk; exact this.1
      refine ⟨?_, ?_, ?_, ?_⟩
      · intro k' tr' hk'
        by_cases hkk : k' = k
        · subst hkk
          simp only [List.getElem?_set_self hklt, Option.some.injEq] at hk'
          subst hk'
          dsimp only; omega
        · simp only [List.getElem?_set_ne (Ne.symm hkk)] at hk'
          have h0 := sumBy_set (drainsOn k') s.ths i (k, th) (k, (thStep fixed tr g0 th).2.2) hi
          have hne : ¬ (k = k') := fun e => hkk e.symm
          simp only [drainsOn, hne, if_false] at h0
          have := mutex k' tr' hk'
          dsimp only; omega
      · intro k' tr' hk'
        by_cases hkk : k' = k
        · subst hkk
          simp only [List.getElem?_set_self hklt, Option.some.injEq] at hk'
          subst hk'
          exact thStep_idle_empty fixed tr g0 th (idleEmpty k' tr hk)
        · simp only [List.getElem?_set_ne (Ne.symm hkk)] at hk'
          exact idleEmpty k' tr' hk'
      · intro p hp tr2 htr2
        have hmono := thStep_raised_mono fixed tr g0 th
        rcases List.mem_or_eq_of_mem_set hp with hp | hp
        · by_cases hkk : p.1 = k
          · rw [hkk, List.getElem?_set_self hklt] at htr2
            cases htr2
            exact readyOk_weaken fixed _ _ _ (rok p hp tr (by rw [hkk]; exact hk)) hmono
          · rw [List.getElem?_set_ne (fun e => hkk e.symm)] at htr2
            exact rok p hp tr2 htr2
        · subst hp
          simp only [List.getElem?_set_self hklt, Option.some.injEq] at htr2
          subst htr2
          exact thStep_readyOk fixed tr g0 th (rok _ hmem tr hk)
      · intro hf k' tr' hk' hnr'
        subst hf
        by_cases hkk : k' = k
        · subst hkk
          simp only [List.getElem?_set_self hklt, Option.some.injEq] at hk'
          subst hk'
          have hE := sumBy_set (enqOn k') s.ths i (k', th) (k', (thStep true tr g0 th).2.2) hi
          have hO := sumBy_set (outOn k') s.ths i (k', th) (k', (thStep true tr g0 th).2.2) hi
          simp only [enqOn, outOn, if_true] at hE hO
          have hnr0 : tr.raisedG = false := by
            cases hr : tr.raisedG
            · rfl
            · have := thStep_raised_mono true tr g0 th hr; rw [this] at hnr'; cases hnr'
          have hc := thStep_cons tr g0 th (rok _ hmem tr hk) hnr'
          have := cons rfl k' tr hk hnr0
          dsimp only; omega
        · simp only [List.getElem?_set_ne (Ne.symm hkk)] at hk'
          have hE := sumBy_set (enqOn k') s.ths i (k, th) (k, (thStep true tr g0 th).2.2) hi
          have hO := sumBy_set (outOn k') s.ths i (k, th) (k, (thStep true tr g0 th).2.2) hi
          have hne : ¬ (k = k') := fun e => hkk e.symm
          simp only [enqOn, outOn, hne, if_false] at hE hO
          have := cons rfl k' tr' hk' hnr'
          dsimp only; omega


theorem minv_run (fixed : Bool) (s : Sys) (sched : List (Nat × Nat)) (h : MInv fixed s) : MInv fixed (s.run fixed sched) := by
  induction sched generalizing s with
  | nil => exact h
  | cons p ps ih => exact ih _ (minv_step fixed s p.1 p.2 h)

theorem minv_init (fixed : Bool) (ntr : Nat) (progs : List (Nat × List Op)) (clock : Int) :
    MInv fixed (Sys.init ntr progs clock) := by
  have hz : ∀ (f : Nat × Th → Nat), (∀ k p, f (k, { stack := [Frame.act none p], log := [] }) = 0) →
      sumBy f (progs.map fun (k, p) => (k, ({ stack := [Frame.act none p] } : Th))) = 0 := by
    intro f hf
    apply sumBy_eq_zero_of_forall
    intro x hx
    simp only [List.mem_map] at hx
    obtain ⟨⟨k, p⟩, _, rfl⟩ := hx
    exact hf k p
  have htr : ∀ (k : Nat) (tr : Tr), (List.replicate ntr ({} : Tr))[k]? = some tr → tr = {} := by
    intro k tr h
    have := List.mem_of_getElem? h
    exact (List.mem_replicate.mp this).2
  refine ⟨?_, ?_, ?_, ?_⟩
  · intro k tr hk
    rw [htr k tr hk]
    simp only [Sys.init]
    rw [hz]
    · rfl
    · intro k' p; simp [drainsOn, nDrain]
  · intro k tr hk _; rw [htr k tr hk]
  · intro p hp tr _
    simp only [Sys.init, List.mem_map] at hp
    obtain ⟨⟨k, q⟩, _, rfl⟩ := hp
    simp [readyOk]
  · intro _ k tr hk _
    rw [htr k tr hk]
    simp only [Sys.init]
    rw [hz, hz]
    · rfl
    · intro k' p; simp [outOn, nOut, readyOf]
    · intro k' p; simp [enqOn, nEnq]

/-! ## a thread that owns its trampoline evolves like the single-thread machine -/

def Sys.proj (s : Sys) (i k : Nat) : Option St :=
  match s.ths[i]?, s.trs[k]? with
  | some (_, th), some tr => some { tr := tr, g := s.g, th := th }
  | _, _ => none

/-- thread `i` uses trampoline `k` and no other thread does -/
def Sys.owns (s : Sys) (i k : Nat) : Prop :=
  (∃ th, s.ths[i]? = some (k, th)) ∧ (∃ tr, s.trs[k]? = some tr) ∧
    ∀ j p, j ≠ i → s.ths[j]? = some p → p.1 ≠ k

theorem envStep_zero (s : St) : envStep s 0 0 [] = s := by
  rcases s with ⟨tr, ⟨c, ca, n⟩, th⟩
  simp [envStep]

theorem proj_step (fixed : Bool) (s : Sys) (i k j dt : Nat) (ho : s.owns i k) :
    ∃ a st, s.proj i k = some st ∧ (s.step fixed j dt).proj i k = some (stepA fixed st a) ∧ (s.step fixed j dt).owns i k := by
  obtain ⟨⟨th, hi⟩, ⟨tr, hk⟩, hex⟩ := ho
  have hproj : s.proj i k = some { tr := tr, g := s.g, th := th } := by simp [Sys.proj, hi, hk]
  have hklt : k < s.trs.length := (List.getElem?_eq_some_iff.mp hk).1
  have hilt : i < s.ths.length := (List.getElem?_eq_some_iff.mp hi).1
  by_cases hji : j = i
  · subst hji
    refine ⟨.go dt, _, hproj, ?_, ?_⟩
    · rw [Sys.step_eq fixed s j dt k th tr hi hk]
      simp [Sys.proj, List.getElem?_set_self hklt, List.getElem?_set_self hilt, stepA, step]
    · rw [Sys.step_eq fixed s j dt k th tr hi hk]
      refine ⟨⟨_, List.getElem?_set_self hilt⟩, ⟨_, List.getElem?_set_self hklt⟩, ?_⟩
      intro j' p hne hp
      simp only [List.getElem?_set_ne (Ne.symm hne)] at hp
      exact hex j' p hne hp
  · cases hj : s.ths[j]? with
    | none =>
      refine ⟨.env 0 0 [], _, hproj, ?_, ?_⟩
      · simp [Sys.step, hj, stepA, envStep_zero, hproj]
      · simp only [Sys.step, hj]; exact ⟨⟨th, hi⟩, ⟨tr, hk⟩, hex⟩
    | some p =>
      rcases p with ⟨k', th'⟩
      have hkk : k' ≠ k := hex j (k', th') hji hj
      cases hk' : s.trs[k']? with
      | none =>
        refine ⟨.env 0 0 [], _, hproj, ?_, ?_⟩
        · simp [Sys.step, hj, hk', stepA, envStep_zero, hproj]
        · simp only [Sys.step, hj, hk']; exact ⟨⟨th, hi⟩, ⟨tr, hk⟩, hex⟩
      | some tr' =>
        obtain ⟨dt', dn, cs, hg⟩ := thStep_env fixed tr' { s.g with clock := s.g.clock + dt } th'
        refine ⟨.env (dt + dt') dn cs, _, hproj, ?_, ?_⟩
        · rw [Sys.step_eq fixed s j dt k' th' tr' hj hk']
          simp only [Sys.proj, List.getElem?_set_ne hji, List.getElem?_set_ne hkk, hi, hk, stepA, envStep, hg]
          simp only [Option.some.injEq, St.mk.injEq, Glob.mk.injEq, true_and, and_true]
          push_cast; omega
        · rw [Sys.step_eq fixed s j dt k' th' tr' hj hk']
          refine ⟨⟨th, by simp [List.getElem?_set_ne hji, hi]⟩, ⟨tr, by simp [List.getElem?_set_ne hkk, hk]⟩, ?_⟩
          intro j' p hne hp
          by_cases hjj : j' = j
          · subst hjj
            have hjlt : j' < s.ths.length := (List.getElem?_eq_some_iff.mp hj).1
            simp only [List.getElem?_set_self hjlt, Option.some.injEq] at hp
            subst hp; exact hkk
          · simp only [List.getElem?_set_ne (Ne.symm hjj)] at hp
            exact hex j' p hne hp

theorem proj_run (fixed : Bool) (s : Sys) (i k : Nat) (sched : List (Nat × Nat)) (ho : s.owns i k) :
    ∃ acts st, s.proj i k = some st ∧ (s.run fixed sched).proj i k = some (runA fixed st acts) := by
  induction sched generalizing s with
  | nil =>
    obtain ⟨⟨th, hi⟩, ⟨tr, hk⟩, _⟩ := ho
    exact ⟨[], { tr := tr, g := s.g, th := th }, by simp [Sys.proj, hi, hk], by simp [Sys.run, runA, Sys.proj, hi, hk]⟩
  | cons p ps ih =>
    obtain ⟨a, st, h1, h2, h3⟩ := proj_step fixed s i k p.1 p.2 ho
    obtain ⟨acts, st', h4, h5⟩ := ih (s.step fixed p.1 p.2) h3
    rw [h2] at h4
    cases h4
    exact ⟨a :: acts, st, h1, by simpa [Sys.run, runA] using h5⟩
end Thr.Tramp


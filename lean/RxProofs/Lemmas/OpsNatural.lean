import RxProofs.Lemmas.OpsElem
/-!
# Naturality lemmas (C08): the reference semantics commute with renaming the elements
-/
open Ops

namespace Ops
variable {α α' β β' κ κ' : Type}

/-- rename every element of a notification list -/
def mapN (ρ : α → α') (l : List (Notif α)) : List (Notif α') := l.map (Notif.map ρ)

@[simp] theorem elems_mapN (ρ : α → α') (raw : List (Notif α)) : elems (mapN ρ raw) = (elems raw).map ρ := by
  induction raw with
  | nil => rfl
  | cons n r ih => cases n <;> simp_all [mapN, elems, Notif.map]

@[simp] theorem fin_mapN (ρ : α → α') (raw : List (Notif α)) : fin (mapN ρ raw) = fin raw := by
  induction raw with
  | nil => rfl
  | cons n r ih => cases n <;> simp_all [mapN, fin, Notif.map]

@[simp] theorem mapN_outSeq (ρ : α → α') (ys : List α) (e : End) : mapN ρ (outSeq ys e) = outSeq (ys.map ρ) e := by
  cases e <;> simp [mapN, outSeq, End.toNotifs, Notif.map, Function.comp_def]

@[simp] theorem mapN_toNotifs (ρ : α → α') (e : End) : mapN ρ (e.toNotifs : List (Notif α)) = e.toNotifs := by
  cases e <;> rfl

theorem mapN_cons_next (ρ : α → α') (x : α) (l) : mapN ρ (.next x :: l) = .next (ρ x) :: mapN ρ l := rfl

theorem refFilter_natural (ρ : α → α') (p : α → Except Err Bool) (p' : α' → Except Err Bool)
    (hp : ∀ x, p' (ρ x) = p x) (xs : List α) (e : End) :
    refFilter p' (xs.map ρ) e = mapN ρ (refFilter p xs e) := by
  induction xs with
  | nil => simp [refFilter]
  | cons x xs ih =>
    simp only [List.map_cons, refFilter, hp]
    cases p x with
    | error er => rfl
    | ok b => cases b <;> simp [ih, mapN_cons_next]

theorem refFilterIdx_natural (ρ : α → α') (p : α → Nat → Except Err Bool) (p' : α' → Nat → Except Err Bool)
    (hp : ∀ x i, p' (ρ x) i = p x i) (i : Nat) (xs : List α) (e : End) :
    refFilterIdx p' i (xs.map ρ) e = mapN ρ (refFilterIdx p i xs e) := by
  induction xs generalizing i with
  | nil => simp [refFilterIdx]
  | cons x xs ih =>
    simp only [List.map_cons, refFilterIdx, hp]
    cases p x i with
    | error er => rfl
    | ok b => cases b <;> simp [ih, mapN_cons_next]

theorem refMap_natural (ρ : α → α') (σ : β → β') (f : α → Except Err β) (f' : α' → Except Err β')
    (hf : ∀ x, f' (ρ x) = (f x).map σ) (xs : List α) (e : End) :
    refMap f' (xs.map ρ) e = mapN σ (refMap f xs e) := by
  induction xs with
  | nil => simp [refMap]
  | cons x xs ih =>
    simp only [List.map_cons, refMap, hf]
    cases f x with
    | error er => rfl
    | ok y => simp [Except.map, ih, mapN_cons_next]

theorem refTakeWhile_natural (ρ : α → α') (p : α → Except Err Bool) (p' : α' → Except Err Bool)
    (hp : ∀ x, p' (ρ x) = p x) (incl : Bool) (xs : List α) (e : End) :
    refTakeWhile p' incl (xs.map ρ) e = mapN ρ (refTakeWhile p incl xs e) := by
  induction xs with
  | nil => simp [refTakeWhile]
  | cons x xs ih =>
    simp only [List.map_cons, refTakeWhile, hp]
    cases p x with
    | error er => rfl
    | ok b => cases b <;> cases incl <;> simp [ih, mapN_cons_next, mapN, Notif.map]

theorem refSkipWhile_natural (ρ : α → α') (p : α → Except Err Bool) (p' : α' → Except Err Bool)
    (hp : ∀ x, p' (ρ x) = p x) (xs : List α) (e : End) :
    refSkipWhile p' (xs.map ρ) e = mapN ρ (refSkipWhile p xs e) := by
  induction xs with
  | nil => simp [refSkipWhile]
  | cons x xs ih =>
    simp only [List.map_cons, refSkipWhile, hp]
    cases p x with
    | error er => rfl
    | ok b =>
      cases b
      · simp only [Bool.false_eq_true, if_false]; rw [← List.map_cons, mapN_outSeq]
      · simp [ih]

theorem anyMatch_natural (τ : κ → κ') (cmp : κ → κ → Except Err Bool) (cmp' : κ' → κ' → Except Err Bool)
    (hc : ∀ a b, cmp' (τ a) (τ b) = cmp a b) (k : κ) (seen : List κ) :
    anyMatch cmp' (τ k) (seen.map τ) = anyMatch cmp k seen := by
  induction seen with
  | nil => rfl
  | cons a rest ih =>
    simp only [List.map_cons, anyMatch, hc]
    cases cmp a k with
    | error er => rfl
    | ok b => cases b <;> simp [ih]

theorem refDistinct_natural (ρ : α → α') (τ : κ → κ') (key : α → Except Err κ) (key' : α' → Except Err κ')
    (cmp : κ → κ → Except Err Bool) (cmp' : κ' → κ' → Except Err Bool)
    (hk : ∀ x, key' (ρ x) = (key x).map τ) (hc : ∀ a b, cmp' (τ a) (τ b) = cmp a b)
    (seen : List κ) (xs : List α) (e : End) :
    refDistinct key' cmp' (seen.map τ) (xs.map ρ) e = mapN ρ (refDistinct key cmp seen xs e) := by
  induction xs generalizing seen with
  | nil => simp [refDistinct]
  | cons x xs ih =>
    simp only [List.map_cons, refDistinct, hk]
    cases key x with
    | error er => rfl
    | ok k =>
      simp only [Except.map, anyMatch_natural τ cmp cmp' hc]
      cases anyMatch cmp k seen with
      | error er => rfl
      | ok b =>
        cases b
        · have := ih (seen ++ [k])
          simp only [List.map_append, List.map_cons, List.map_nil] at this
          simp [this, mapN_cons_next]
        · simp [ih]

theorem refDUC_natural (ρ : α → α') (τ : κ → κ') (key : α → Except Err κ) (key' : α' → Except Err κ')
    (cmp : κ → κ → Except Err Bool) (cmp' : κ' → κ' → Except Err Bool) (hk : ∀ x, key' (ρ x) = (key x).map τ)
    (hc : ∀ a b, cmp' (τ a) (τ b) = cmp a b) (cur : Option κ) (xs : List α) (e : End) :
    refDUC key' cmp' (cur.map τ) (xs.map ρ) e = mapN ρ (refDUC key cmp cur xs e) := by
  induction xs generalizing cur with
  | nil => simp [refDUC]
  | cons x xs ih =>
    simp only [List.map_cons, refDUC, hk]
    cases key x with
    | error er => rfl
    | ok k =>
      cases cur with
      | none => have := ih (some k); simp_all [Except.map, mapN_cons_next]
      | some c =>
        simp only [Except.map, Option.map_some, hc]
        cases cmp c k with
        | error er => rfl
        | ok eq =>
          cases eq
          · have := ih (some k); simp_all [mapN_cons_next]
          · have := ih (some c); simp_all

theorem refFind_natural (ρ : α → α') (σ : β → β') (p : α → Nat → Except Err Bool) (p' : α' → Nat → Except Err Bool)
    (yes : α → Nat → β) (yes' : α' → Nat → β') (no : β) (no' : β')
    (hp : ∀ x i, p' (ρ x) i = p x i) (hy : ∀ x i, yes' (ρ x) i = σ (yes x i)) (hn : no' = σ no)
    (i : Nat) (xs : List α) (e : End) :
    refFind p' yes' no' i (xs.map ρ) e = mapN σ (refFind p yes no i xs e) := by
  induction xs generalizing i with
  | nil => cases e <;> simp [refFind, hn, mapN, Notif.map, End.toNotifs]
  | cons x xs ih =>
    simp only [List.map_cons, refFind, hp]
    cases p x i with
    | error er => rfl
    | ok b => cases b <;> simp [ih, hy, mapN, Notif.map]


theorem refMapIdx_natural (ρ : α → α') (σ : β → β') (f : α → Nat → Except Err β) (f' : α' → Nat → Except Err β')
    (hf : ∀ x i, f' (ρ x) i = (f x i).map σ) (i : Nat) (xs : List α) (e : End) :
    refMapIdx f' i (xs.map ρ) e = mapN σ (refMapIdx f i xs e) := by
  induction xs generalizing i with
  | nil => simp [refMapIdx]
  | cons x xs ih =>
    simp only [List.map_cons, refMapIdx, hf]
    cases f x i with
    | error er => rfl
    | ok y => simp [Except.map, ih, mapN_cons_next]

theorem lastN_map (f : α → β) (k : Nat) (zs : List α) : lastN k (zs.map f) = (lastN k zs).map f := by
  simp [lastN, List.map_drop]

theorem butLastN_map (f : α → β) (k : Nat) (zs : List α) : butLastN k (zs.map f) = (butLastN k zs).map f := by
  simp [butLastN, List.map_take]

theorem refElementAt_natural (ρ : α → α') (i : Nat) (d : Option α) (xs : List α) (e : End) :
    refElementAt i (d.map ρ) (xs.map ρ) e = mapN ρ (refElementAt i d xs e) := by
  unfold refElementAt
  rw [List.getElem?_map]
  cases xs[i]? with
  | some x => rfl
  | none => cases e <;> cases d <;> rfl

theorem refMaterialize_natural (ρ : α → α') (xs : List α) (e : End) :
    refMaterialize (xs.map ρ) e = mapN (Notif.map ρ) (refMaterialize xs e) := by
  cases e <;> simp [refMaterialize, mapN, Notif.map, Function.comp_def]

theorem refTakeWhileIdx_natural (ρ : α → α') (p : α → Nat → Except Err Bool) (p' : α' → Nat → Except Err Bool)
    (hp : ∀ x i, p' (ρ x) i = p x i) (incl : Bool) (i : Nat) (xs : List α) (e : End) :
    refTakeWhileIdx p' incl i (xs.map ρ) e = mapN ρ (refTakeWhileIdx p incl i xs e) := by
  induction xs generalizing i with
  | nil => simp [refTakeWhileIdx]
  | cons x xs ih =>
    simp only [List.map_cons, refTakeWhileIdx, hp]
    cases p x i with
    | error er => rfl
    | ok b => cases b <;> cases incl <;> simp [ih, mapN_cons_next, mapN, Notif.map]

theorem refSkipWhileIdx_natural (ρ : α → α') (p : α → Nat → Except Err Bool) (p' : α' → Nat → Except Err Bool)
    (hp : ∀ x i, p' (ρ x) i = p x i) (i : Nat) (xs : List α) (e : End) :
    refSkipWhileIdx p' i (xs.map ρ) e = mapN ρ (refSkipWhileIdx p i xs e) := by
  induction xs generalizing i with
  | nil => simp [refSkipWhileIdx]
  | cons x xs ih =>
    simp only [List.map_cons, refSkipWhileIdx, hp]
    cases p x i with
    | error er => rfl
    | ok b =>
      cases b
      · simp only [Bool.false_eq_true, if_false]; rw [← List.map_cons, mapN_outSeq]
      · simp [ih]

theorem cut_mapN (ρ : α → α') (l : List (Notif α)) : cut (mapN ρ l) = mapN ρ (cut l) := by
  induction l with
  | nil => rfl
  | cons n l ih => cases n <;> simp_all [mapN, Notif.map]

end Ops

import RxModel.TimedShift
import RxProofs.Lemmas.TimedShift
/-! Helper lemmas for `C15.delay_shift`: the queue/active/timer invariant of `observable_delay_timespan`. -/

namespace Timed

/-- Between two handler invocations: no exception recorded, not running, the queue sorted by due time and bounded
by `hi`, and `active` / the pending action exactly when the queue is non-empty, the action being due at the head. -/
structure DInv {α} (s : DelaySt α) (hi : Nat) : Prop where
  exc : s.exc = none
  running : s.running = false
  sorted : SortedQ s.queue
  bound : ∀ q ∈ s.queue, q.1 ≤ hi
  head : match s.queue with
    | [] => s.active = false ∧ s.timer = none
    | q :: _ => s.active = true ∧ s.timer = some q.1

theorem DInv.init {α} (hi : Nat) : DInv ({} : DelaySt α) hi :=
  ⟨rfl, rfl, List.Pairwise.nil, by simp, by simp⟩

theorem takeWhile_append_all {α} (p : α → Bool) (a b : List α) (h : ∀ x ∈ a, p x = true) :
    (a ++ b).takeWhile p = a ++ b.takeWhile p := by
  induction a with
  | nil => rfl
  | cons x a ih =>
    have hx := h x (List.mem_cons_self ..)
    simp [List.takeWhile_cons, hx, ih (fun y hy => h y (List.mem_cons_of_mem _ hy))]

theorem dropWhile_append_all {α} (p : α → Bool) (a b : List α) (h : ∀ x ∈ a, p x = true) :
    (a ++ b).dropWhile p = b.dropWhile p := by
  induction a with
  | nil => rfl
  | cons x a ih =>
    have hx := h x (List.mem_cons_self ..)
    simp [List.dropWhile_cons, hx, ih (fun y hy => h y (List.mem_cons_of_mem _ hy))]

theorem mem_takeWhile_of {α} (p : α → Bool) (l : List α) : ∀ x ∈ l.takeWhile p, p x = true := by
  induction l with
  | nil => intro x hx; cases hx
  | cons a l ih =>
    intro x hx
    by_cases h : p a = true
    · simp only [List.takeWhile_cons, h, if_true, List.mem_cons] at hx
      rcases hx with rfl | hx
      · exact h
      · exact ih x hx
    · simp [List.takeWhile_cons, h] at hx

theorem delayAction_nil {α} (s : DelaySt α) (due : Nat) (hexc : s.exc = none)
    (hr : s.queue.dropWhile (fun q => decide (q.1 ≤ due)) = []) :
    delayAction due s = ({ s with queue := [], active := false, timer := none },
      (s.queue.takeWhile (fun q => decide (q.1 ≤ due))).map (·.2)) := by
  unfold delayAction; simp [hexc, hr]

theorem delayAction_cons {α} (s : DelaySt α) (due : Nat) (hexc : s.exc = none) (r : Nat × Notif α) (rs : List (Nat × Notif α))
    (hr : s.queue.dropWhile (fun q => decide (q.1 ≤ due)) = r :: rs) :
    delayAction due s = ({ s with queue := r :: rs, timer := some (max r.1 due) },
      (s.queue.takeWhile (fun q => decide (q.1 ≤ due))).map (·.2)) := by
  unfold delayAction; simp [hexc, hr]

/-- one run of the action at the head's due time: pops exactly the entries due then, each delivered at its own due time -/
theorem action_spec {α} (s : DelaySt α) (hi due : Nat) (n : Notif α) (q' : List (Nat × Notif α))
    (hI : DInv s hi) (hq : s.queue = (due, n) :: q') :
    at_ due (delayAction due s).2 = s.queue.takeWhile (fun q => decide (q.1 ≤ due))
    ∧ (delayAction due s).1.queue = s.queue.dropWhile (fun q => decide (q.1 ≤ due))
    ∧ DInv (delayAction due s).1 hi := by
  have hsorted := hI.sorted
  have hpop : ∀ q ∈ s.queue.takeWhile (fun q => decide (q.1 ≤ due)), q.1 = due := by
    intro q hq'
    have h1 := mem_takeWhile_of _ _ q hq'
    have h2 : q ∈ s.queue := (List.takeWhile_sublist _).subset hq'
    rw [hq] at h2 hsorted
    have h3 : due ≤ q.1 := by
      rcases List.mem_cons.1 h2 with rfl | h2
      · exact Nat.le_refl _
      · exact (List.pairwise_cons.1 hsorted).1 q h2
    simp at h1; omega
  have hout : ∀ (l : List (Nat × Notif α)), (∀ q ∈ l, q.1 = due) → at_ due (l.map (·.2)) = l := by
    intro l hl
    induction l with
    | nil => rfl
    | cons a l ih =>
      have := hl a (List.mem_cons_self ..)
      simp only [at_, List.map_cons, List.map_map] at ih ⊢
      rw [ih (fun q hq => hl q (List.mem_cons_of_mem _ hq))]
      cases a; simp_all
  have hdsub : (s.queue.dropWhile (fun q => decide (q.1 ≤ due))).Sublist s.queue := List.dropWhile_sublist _
  cases hr : s.queue.dropWhile (fun q => decide (q.1 ≤ due)) with
  | nil =>
    rw [delayAction_nil s due hI.exc hr]
    refine ⟨hout _ hpop, rfl, ?_⟩
    exact ⟨hI.exc, hI.running, List.Pairwise.nil, by simp, by simp⟩
  | cons r rs =>
    rw [delayAction_cons s due hI.exc r rs hr]
    refine ⟨hout _ hpop, rfl, ?_⟩
    have hr1 : due < r.1 := by
      have := List.head?_dropWhile_not (fun q : Nat × Notif α => decide (q.1 ≤ due)) s.queue
      rw [hr] at this
      simp at this; omega
    refine ⟨hI.exc, hI.running, ?_, ?_, ?_⟩
    · show SortedQ (r :: rs); rw [← hr]; exact List.Pairwise.sublist hdsub hsorted
    · intro q hq'; apply hI.bound; apply hdsub.subset; rw [hr]; exact hq'
    · have hact : s.active = true := by have := hI.head; rw [hq] at this; exact this.1
      show s.active = true ∧ some (max r.1 due) = some r.1
      exact ⟨hact, by rw [Nat.max_eq_left (Nat.le_of_lt hr1)]⟩

theorem loop_spec {α} (limit : Option Nat) (hi : Nat) : ∀ (fuel : Nat) (s : DelaySt α), DInv s hi → s.queue.length < fuel →
    (delayLoop fuel limit s).2 = s.queue.takeWhile (fun q => beforeLimit limit q.1)
    ∧ (delayLoop fuel limit s).1.queue = s.queue.dropWhile (fun q => beforeLimit limit q.1)
    ∧ DInv (delayLoop fuel limit s).1 hi := by
  intro fuel
  induction fuel with
  | zero => intro s _ hl; exact absurd hl (Nat.not_lt_zero _)
  | succ fuel ih =>
    intro s hI hl
    cases hq : s.queue with
    | nil =>
      have := hI.head; rw [hq] at this
      have e : delayLoop (fuel + 1) limit s = (s, []) := by simp [delayLoop, this.2]
      rw [e]
      exact ⟨by simp, by simp [hq], hI⟩
    | cons a q' =>
      obtain ⟨due, n⟩ := a
      have hh := hI.head; rw [hq] at hh
      have htimer : s.timer = some due := hh.2
      by_cases hb : beforeLimit limit due = true
      · obtain ⟨a1, a2, a3⟩ := action_spec s hi due n q' hI hq
        have hsplit := List.takeWhile_append_dropWhile (p := fun q : Nat × Notif α => decide (q.1 ≤ due)) (l := s.queue)
        have hlen : (delayAction due s).1.queue.length < fuel := by
          rw [a2, hq]
          have : (List.dropWhile (fun q : Nat × Notif α => decide (q.1 ≤ due)) ((due, n) :: q')) = q'.dropWhile (fun q => decide (q.1 ≤ due)) := by
            simp [List.dropWhile_cons]
          rw [this]
          have := (List.dropWhile_sublist (fun q : Nat × Notif α => decide (q.1 ≤ due)) (l := q')).length_le
          rw [hq] at hl; simp only [List.length_cons] at hl; omega
        obtain ⟨b1, b2, b3⟩ := ih (delayAction due s).1 a3 hlen
        have hall : ∀ x ∈ s.queue.takeWhile (fun q => decide (q.1 ≤ due)), beforeLimit limit x.1 = true := by
          intro x hx
          have h1 := mem_takeWhile_of _ _ x hx
          cases limit with
          | none => rfl
          | some t => simp [beforeLimit] at hb h1 ⊢; omega
        simp only [delayLoop, htimer, hb, if_true]
        rw [a1, b1, b2, a2, ← hq]
        refine ⟨?_, ?_, b3⟩
        · conv => rhs; rw [← hsplit]
          rw [takeWhile_append_all _ _ _ hall]
        · conv => rhs; rw [← hsplit]
          rw [dropWhile_append_all _ _ _ hall]
      · simp only [Bool.not_eq_true] at hb
        have e : delayLoop (fuel + 1) limit s = (s, []) := by simp [delayLoop, htimer, hb]
        rw [e]
        exact ⟨by simp [hb], by simp [hq, hb], hI⟩

theorem advance_spec {α} (limit : Option Nat) (hi : Nat) (s : DelaySt α) (hI : DInv s hi) :
    (delayAdvance limit s).2 = s.queue.takeWhile (fun q => beforeLimit limit q.1)
    ∧ (delayAdvance limit s).1.queue = s.queue.dropWhile (fun q => beforeLimit limit q.1)
    ∧ DInv (delayAdvance limit s).1 hi :=
  loop_spec limit hi _ s hI (by omega)

theorem enqueue_inv {α} (d t hi : Nat) (s : DelaySt α) (n : Notif α) (hI : DInv s hi) (hhi : hi ≤ t + d) :
    (delayEnqueue d t s n).queue = s.queue ++ [(t + d, n)] ∧ DInv (delayEnqueue d t s n) (t + d) := by
  have hq : (delayEnqueue d t s n).queue = s.queue ++ [(t + d, n)] := by
    unfold delayEnqueue; cases s.active <;> simp [hI.exc]
  refine ⟨hq, ?_⟩
  have hexc : (delayEnqueue d t s n).exc = none := by
    unfold delayEnqueue; cases s.active <;> simp [hI.exc]
  have hrun : (delayEnqueue d t s n).running = false := by
    unfold delayEnqueue; cases s.active <;> simp [hI.exc, hI.running]
  refine ⟨hexc, hrun, ?_, ?_, ?_⟩
  · rw [hq]; exact sortedQ_snoc n hI.sorted (fun e he => Nat.le_trans (hI.bound e he) hhi)
  · rw [hq]; intro q hq'
    rcases List.mem_append.1 hq' with hm | hm
    · exact Nat.le_trans (hI.bound q hm) hhi
    · rw [List.mem_singleton] at hm; subst hm; exact Nat.le_refl _
  · have hh := hI.head
    rw [hq]
    cases hs : s.queue with
    | nil =>
      rw [hs] at hh
      simp only [List.nil_append]
      unfold delayEnqueue; simp [hh.1, hI.exc]
    | cons a q' =>
      rw [hs] at hh
      simp only [List.cons_append]
      unfold delayEnqueue; simp [hh.1, hh.2]

/-- the raw output from a state with queue `q`, declaratively -/
def delayG {α} (d : Nat) (q : List (Nat × Notif α)) (msgs : TL α) : TL α :=
  match firstTerminal msgs with
  | none => q ++ (nexts msgs).map (shiftEl d)
  | some (tc, .completed) => q ++ (nexts msgs).map (shiftEl d) ++ [(tc + d, .completed)]
  | some (te, n) => (q ++ (nexts msgs).map (shiftEl d)).filter (fun x => decide (x.1 < te)) ++ [(te, n)]

theorem takeWhile_true {α} (l : List α) : l.takeWhile (fun _ => true) = l := by
  induction l with
  | nil => rfl
  | cons a l ih => simp [List.takeWhile_cons, ih]

theorem delay_raw_eq_G {α} (d : Nat) (msgs : TL α) (s : DelaySt α) (lo : Nat) (hI : DInv s (lo + d)) (h : Mono lo msgs) :
    delayRaw d s msgs = delayG d s.queue msgs := by
  induction msgs generalizing s lo with
  | nil =>
    obtain ⟨a1, _, _⟩ := advance_spec none (lo + d) s hI
    simp only [delayRaw, a1, delayG, firstTerminal, nexts, List.map_nil, List.append_nil, beforeLimit]
    exact takeWhile_true _
  | cons a r ih =>
    obtain ⟨t, n⟩ := a
    obtain ⟨a1, a2, a3⟩ := advance_spec (some t) (lo + d) s hI
    have hsplit := List.takeWhile_append_dropWhile (p := fun q : Nat × Notif α => beforeLimit (some t) q.1) (l := s.queue)
    have hlt : ∀ x ∈ s.queue.takeWhile (fun q => beforeLimit (some t) q.1), x.1 < t := by
      intro x hx; have := mem_takeWhile_of _ _ x hx; simpa [beforeLimit] using this
    have hhi : lo + d ≤ t + d := Nat.add_le_add_right h.1 d
    cases n with
    | next v =>
      obtain ⟨e1, e2⟩ := enqueue_inv d t (lo + d) (delayAdvance (some t) s).1 (.next v) a3 hhi
      rw [delayRaw, ih _ t e2 h.2, a1, e1, a2]
      simp only [delayG, firstTerminal, nexts, List.map_cons, shiftEl]
      cases hf : firstTerminal r with
      | none =>
        simp only [List.append_assoc, List.singleton_append]
        rw [← List.append_assoc, hsplit]
      | some Tn =>
        obtain ⟨T, m⟩ := Tn
        have hT : t ≤ T := firstTerminal_ge h.2 hf
        have efil : (s.queue.takeWhile (fun q => beforeLimit (some t) q.1)).filter (fun x => decide (x.1 < T))
            = s.queue.takeWhile (fun q => beforeLimit (some t) q.1) := by
          rw [List.filter_eq_self]; intro x hx; have := hlt x hx; simp; omega
        cases m with
        | completed =>
          simp only [List.append_assoc, List.singleton_append]
          rw [← List.append_assoc, hsplit]
        | next w =>
          conv => rhs; rw [← hsplit]
          simp only [List.filter_append, List.append_assoc, efil, List.singleton_append]
        | error e =>
          conv => rhs; rw [← hsplit]
          simp only [List.filter_append, List.append_assoc, efil, List.singleton_append]
    | completed =>
      obtain ⟨e1, e2⟩ := enqueue_inv d t (lo + d) (delayAdvance (some t) s).1 .completed a3 hhi
      obtain ⟨b1, _, _⟩ := advance_spec none (t + d) _ e2
      simp only [delayRaw, a1, b1, e1, a2, delayG, firstTerminal, nexts, List.map_nil, List.append_nil, beforeLimit]
      rw [takeWhile_true, ← List.append_assoc]
      congr 1
    | error e =>
      have hrun : (delayAdvance (some t) s).1.running = false := a3.running
      simp only [delayRaw, a1, delayOnError, hrun, delayG, firstTerminal, nexts, List.map_nil, List.append_nil, at_,
        Bool.not_false, if_true, List.map_cons]
      congr 1
      have := takeWhile_eq_filter_sorted t s.queue hI.sorted
      simpa [beforeLimit] using this

theorem conform_shift_append {α} (d : Nat) (l : List (Nat × α)) (rest : TL α) :
    conform (l.map (shiftEl d) ++ rest) = l.map (shiftEl d) ++ conform rest := by
  induction l with
  | nil => rfl
  | cons a l ih => simp [shiftEl, conform, ih]

theorem firstTerminal_not_next {α} (msgs : TL α) (T : Nat) (v : α) : firstTerminal msgs ≠ some (T, .next v) := by
  induction msgs with
  | nil => simp [firstTerminal]
  | cons a r ih =>
    obtain ⟨t, n⟩ := a
    cases n <;> simp [firstTerminal, ih]

theorem delay_run_eq_spec {α} (d lo : Nat) (msgs : TL α) (h : Mono lo msgs) : delayRun d msgs = delaySpec d msgs := by
  unfold delayRun
  rw [delay_raw_eq_G d msgs {} lo (DInv.init _) h]
  unfold delayG delaySpec
  cases hf : firstTerminal msgs with
  | none => simpa [conform] using conform_shift_append d (nexts msgs) []
  | some Tn =>
    obtain ⟨T, n⟩ := Tn
    cases n with
    | next v => exact absurd hf (firstTerminal_not_next msgs T v)
    | completed =>
      simp only [List.nil_append]
      rw [conform_shift_append]; rfl
    | error e =>
      simp only [List.nil_append]
      have : ((nexts msgs).map (shiftEl d)).filter (fun x => decide (x.1 < T))
          = ((nexts msgs).filter (fun e => decide (e.1 + d < T))).map (shiftEl d) := by
        rw [List.filter_map]; rfl
      rw [this, conform_shift_append]; rfl

end Timed

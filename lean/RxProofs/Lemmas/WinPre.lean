import RxProofs.Lemmas.Win
import RxModel.WinBuf
/-!
# The log of a window machine only grows (`Pre`).
-/
namespace Win
variable {α : Type}

/-- the log only grows: `b.log` extends `L`. -/
def Pre (L : List (Nat × Out α)) (b : Base α) : Prop := ∃ l, b.log = L ++ l

theorem Pre.trans {L : List (Nat × Out α)} {b b' : Base α} (h : Pre L b) (h' : Pre b.log b') : Pre L b' := by
  obtain ⟨l, hl⟩ := h; obtain ⟨l', hl'⟩ := h'
  exact ⟨l ++ l', by rw [hl', hl, List.append_assoc]⟩

theorem Pre.refl (b : Base α) : Pre b.log b := ⟨[], by simp⟩

namespace Base
variable {L : List (Nat × Out α)}

theorem ext_emit (b : Base α) (o) : Pre b.log (b.emit o) := ⟨[(b.now, o)], rfl⟩
theorem ext_unsub (b : Base α) (k) : Pre b.log (b.unsub k) := by
  unfold unsub; split
  · exact ⟨[(b.now, .unsub k)], rfl⟩
  · exact Pre.refl b
theorem ext_foldl {β : Type} (f : Base α → β → Base α) (hf : ∀ b x, Pre b.log (f b x)) (l : List β) (b : Base α) :
    Pre b.log (l.foldl f b) := by
  induction l generalizing b with
  | nil => exact Pre.refl b
  | cons x l ih => exact (hf b x).trans (ih _)
theorem ext_disposeUnderlying (b : Base α) : Pre b.log b.disposeUnderlying := ext_foldl _ ext_unsub _ _
theorem ext_rcDispose (b : Base α) : Pre b.log b.rcDispose := by
  unfold rcDispose; split; exact Pre.refl b; split; exact Pre.refl b
  simp only []; split
  · exact ext_disposeUnderlying _
  · exact ⟨[], by simp⟩
theorem ext_rcRelease (b : Base α) : Pre b.log b.rcRelease := by
  unfold rcRelease; split; exact Pre.refl b
  simp only []; split
  · exact ext_disposeUnderlying _
  · exact ⟨[], by simp⟩
theorem ext_outerEnd (b : Base α) (e) : Pre b.log (b.outerEnd e) := by
  unfold outerEnd; split; exact Pre.refl b
  exact Pre.trans (b := emit { b with outerStopped := true } (.outer (endNotif e))) ⟨[(b.now, _)], rfl⟩ (ext_rcDispose _)
theorem ext_outerDispose (b : Base α) : Pre b.log b.outerDispose := by
  unfold outerDispose; exact ext_rcDispose ({ b with outerStopped := true } : Base α)
theorem ext_outerNext (b : Base α) (i) : Pre b.log (b.outerNext i) := by
  unfold outerNext; split; exact Pre.refl b
  simp only [emit]; by_cases hr : b.rcDisposed = true <;> simp only [hr] <;> exact ⟨[(b.now, _)], rfl⟩
theorem ext_winNext (b : Base α) (i x) : Pre b.log (b.winNext i x) := by
  unfold winNext; split; exact Pre.refl b; split; exact Pre.refl b
  simp only []; split
  · exact ⟨[(b.now, _)], rfl⟩
  · exact ⟨[], by simp⟩
theorem ext_winEnd (b : Base α) (i e) : Pre b.log (b.winEnd i e) := by
  unfold winEnd; split; exact Pre.refl b; split; exact Pre.refl b
  simp only []; split
  · rename_i w _ _ _
    exact Pre.trans (b := emit { b with wins := b.wins.set i { w with ended := some e, attached := false } } (.win i (endNotif e)))
      ⟨[(b.now, _)], rfl⟩ (ext_rcRelease _)
  · exact ⟨[], by simp⟩
theorem ext_winDetach (b : Base α) (i) : Pre b.log (b.winDetach i) := by
  unfold winDetach; split; exact Pre.refl b; split
  · rename_i w _ _
    exact ext_rcRelease ({ b with wins := b.wins.set i { w with attached := false } } : Base α)
  · exact Pre.refl b
theorem ext_disposeEv (b : Base α) (w) : Pre b.log (b.disposeEv w) := by
  unfold disposeEv; simp only []; split
  · exact (ext_outerDispose b).trans (ext_foldl _ ext_winDetach _ _)
  · exact ext_outerDispose b

/-! unary forms (same shapes as the `J_*` lemmas) -/
theorem Pre_emit (b : Base α) (o) (h : Pre L b) : Pre L (b.emit o) := h.trans (ext_emit b o)
theorem Pre_now (b : Base α) (t) (h : Pre L b) : Pre L ({ b with now := t } : Base α) := h
theorem Pre_subscribe (b : Base α) (k) (h : Pre L b) : Pre L (b.subscribe k) :=
  h.trans (b' := b.subscribe k) ⟨[(b.now, .sub k)], rfl⟩
theorem Pre_unsub (b : Base α) (k) (h : Pre L b) : Pre L (b.unsub k) := h.trans (ext_unsub b k)
theorem Pre_foldl {β : Type} (f : Base α → β → Base α) (hf : ∀ b x, Pre L b → Pre L (f b x)) (l : List β) (b : Base α) (h : Pre L b) :
    Pre L (l.foldl f b) := by
  induction l generalizing b with
  | nil => exact h
  | cons x l ih => exact ih _ (hf b x h)
theorem Pre_outerEnd (b : Base α) (e) (h : Pre L b) : Pre L (b.outerEnd e) := h.trans (ext_outerEnd b e)
theorem Pre_outerDispose (b : Base α) (h : Pre L b) : Pre L b.outerDispose := h.trans (ext_outerDispose b)
theorem Pre_winNext (b : Base α) (i x) (h : Pre L b) : Pre L (b.winNext i x) := h.trans (ext_winNext b i x)
theorem Pre_winEnd (b : Base α) (i e) (h : Pre L b) : Pre L (b.winEnd i e) := h.trans (ext_winEnd b i e)
theorem Pre_winDetach (b : Base α) (i) (h : Pre L b) : Pre L (b.winDetach i) := h.trans (ext_winDetach b i)
theorem Pre_disposeEv (b : Base α) (w) (h : Pre L b) : Pre L (b.disposeEv w) := h.trans (ext_disposeEv b w)
theorem Pre_open (b : Base α) (h : Pre L b) : Pre L (b.newWin.1.outerNext b.newWin.2) :=
  (show Pre L b.newWin.1 from h).trans (ext_outerNext _ _)

end Base
end Win

import RxProofs.Lemmas.AggOps
/-!
# to_set / to_dict with unhashable values: the element is skipped (and `TypeError` raised into the emitter)
-/
namespace Agg

/-- keep everything but the `on_next`s whose value fails `ok` -/
def keepNext {α} (ok : α → Bool) : Notif α → Bool
  | .next v => ok v
  | _ => true

theorem cut_filter_keep {α} (ok : α → Bool) (raw : List (Notif α)) :
    cut (raw.filter (keepNext ok)) = (cut raw).filter (keepNext ok) := by
  induction raw with
  | nil => rfl
  | cons n ns ih =>
    cases n with
    | next v => cases h : ok v <;> simp [List.filter_cons, keepNext, h, ih]
    | error e => simp [List.filter_cons, keepNext]
    | completed => simp [List.filter_cons, keepNext]

theorem toSetHO_feed {α} (h : α → Bool) (eq : α → α → Bool) (s : List α) (ns : List (Notif α)) :
    (toSetHO h eq).feed s ns = (toSetO eq).feed s (ns.filter (keepNext h)) := by
  induction ns generalizing s with
  | nil => rfl
  | cons n ns ih =>
    cases n with
    | next v =>
      cases hv : h v
      · simp only [List.filter_cons, keepNext, hv, Bool.false_eq_true, if_false]
        have := ih s
        simp only [Op.feed, Op.handle, toSetHO, hv, Bool.false_eq_true, if_false, List.nil_append] at this ⊢
        exact this
      · simp only [List.filter_cons, keepNext, hv, if_true]
        have := ih (setAdd eq s v)
        simp only [Op.feed, Op.handle, toSetHO, toSetO, hv, if_true, List.nil_append] at this ⊢
        exact this
    | error e =>
      have := ih s
      simp only [List.filter_cons, keepNext, if_true, Op.feed, Op.handle, toSetHO, toSetO] at this ⊢
      rw [this]
    | completed =>
      have := ih s
      simp only [List.filter_cons, keepNext, if_true, Op.feed, Op.handle, toSetHO, toSetO] at this ⊢
      rw [this]

theorem toSetHO_out {α} (h : α → Bool) (eq : α → α → Bool) (lag : Bool) (raw : List (Notif α)) :
    (toSetHO h eq).out lag raw = (toSetO eq).out lag (raw.filter (keepNext h)) := by
  rw [Op.out_eq, Op.out_eq, cut_filter_keep]
  show cut ((toSetHO h eq).feed [] _) = cut ((toSetO eq).feed [] _)
  rw [toSetHO_feed]

theorem elems_filter_keep {α} (ok : α → Bool) (raw : List (Notif α)) :
    elems (raw.filter (keepNext ok)) = (elems raw).filter ok := by
  induction raw with
  | nil => rfl
  | cons n ns ih =>
    cases n with
    | next v => cases h : ok v <;> simp [List.filter_cons, keepNext, h, ih]
    | error e => simp [List.filter_cons, keepNext]
    | completed => simp [List.filter_cons, keepNext]

theorem ending_filter_keep {α} (ok : α → Bool) (raw : List (Notif α)) :
    ending (raw.filter (keepNext ok)) = ending raw := by
  induction raw with
  | nil => rfl
  | cons n ns ih =>
    cases n with
    | next v => cases h : ok v <;> simp [List.filter_cons, keepNext, h, ih]
    | error e => simp [List.filter_cons, keepNext]
    | completed => simp [List.filter_cons, keepNext]

end Agg

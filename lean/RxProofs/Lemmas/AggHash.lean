import RxProofs.Lemmas.AggOps
/-!
# to_set / to_dict with unhashable values: the element is skipped (and `TypeError` raised into the emitter)
-/
namespace Agg

/-- keep everything but the `on_next`s whose value fails `ok` -/
def keepNext {α} (ok : α → Bool) : Notif α → Bool
  | .next v => ok v
  | _ => true

theorem cut_filter_keep {α} (ok : α → Bool) (raw : List (Notif α)) :
    cut (raw.filter (keepNext ok)) = (cut raw).filter (keepNext ok) := by
  induction raw with
  | nil => rfl
  | cons n ns ih =>
    cases n with
    | next v => cases h : ok v <;> simp [List.filter_cons, keepNext, h, ih]
    | error e => simp [List.filter_cons, keepNext]
    | completed => simp [List.filter_cons, keepNext]

theorem toSetAsIsO_feed {α} (h : α → Bool) (eq : α → α → Bool) (s : List α) (ns : List (Notif α)) :
    (toSetAsIsO h eq).feed s ns = (toSetO eq).feed s (ns.filter (keepNext h)) := by
  induction ns generalizing s with
  | nil => rfl
  | cons n ns ih =>
    cases n with
    | next v =>
      cases hv : h v
      · simp only [List.filter_cons, keepNext, hv, Bool.false_eq_true, if_false]
        have := ih s
        simp only [Op.feed, Op.handle, toSetAsIsO, hv, Bool.false_eq_true, if_false, List.nil_append] at this ⊢
        exact this
      · simp only [List.filter_cons, keepNext, hv, if_true]
        have := ih (setAdd eq s v)
        simp only [Op.feed, Op.handle, toSetAsIsO, toSetO, hv, if_true, List.nil_append] at this ⊢
        exact this
    | error e =>
      have := ih s
      simp only [List.filter_cons, keepNext, if_true, Op.feed, Op.handle, toSetAsIsO, toSetO] at this ⊢
      rw [this]
    | completed =>
      have := ih s
      simp only [List.filter_cons, keepNext, if_true, Op.feed, Op.handle, toSetAsIsO, toSetO] at this ⊢
      rw [this]

theorem toSetAsIsO_out {α} (h : α → Bool) (eq : α → α → Bool) (lag : Bool) (raw : List (Notif α)) :
    (toSetAsIsO h eq).out lag raw = (toSetO eq).out lag (raw.filter (keepNext h)) := by
  rw [Op.out_eq, Op.out_eq, cut_filter_keep]
  show cut ((toSetAsIsO h eq).feed [] _) = cut ((toSetO eq).feed [] _)
  rw [toSetAsIsO_feed]

theorem elems_filter_keep {α} (ok : α → Bool) (raw : List (Notif α)) :
    elems (raw.filter (keepNext ok)) = (elems raw).filter ok := by
  induction raw with
  | nil => rfl
  | cons n ns ih =>
    cases n with
    | next v => cases h : ok v <;> simp [List.filter_cons, keepNext, h, ih]
    | error e => simp [List.filter_cons, keepNext]
    | completed => simp [List.filter_cons, keepNext]

theorem ending_filter_keep {α} (ok : α → Bool) (raw : List (Notif α)) :
    ending (raw.filter (keepNext ok)) = ending raw := by
  induction raw with
  | nil => rfl
  | cons n ns ih =>
    cases n with
    | next v => cases h : ok v <;> simp [List.filter_cons, keepNext, h, ih]
    | error e => simp [List.filter_cons, keepNext]
    | completed => simp [List.filter_cons, keepNext]

/-! ### the repaired operators: folds with a `TypeError` step -/

theorem toSetHO_feed {α} (h : α → Bool) (eq : α → α → Bool) (s : List α) (xs : List α) (t : Ending) :
    cut ((toSetHO h eq).feed s (xs.map .next ++ t.notifs)) = foldRef (xs.foldlM (setStepH h eq) s) id t := by
  induction xs generalizing s with
  | nil => cases t <;> simp [Op.feed, Op.handle, toSetHO, Ending.notifs, foldRef, pure, Except.pure]
  | cons x xs ih =>
    simp only [List.map_cons, List.cons_append, Op.feed, Op.handle, toSetHO, List.foldlM_cons]
    cases hx : setStepH h eq s x with
    | error e => simp [foldRef, bind, Except.bind]
    | ok s' =>
      have := ih s'
      simp only [toSetHO] at this
      simp only [List.nil_append, bind, Except.bind]
      exact this

theorem toSetHO_out {α} (h : α → Bool) (eq : α → α → Bool) (lag : Bool) (raw : List (Notif α)) :
    (toSetHO h eq).out lag raw = foldRef ((elems raw).foldlM (setStepH h eq) []) id (ending raw) := by
  rw [Op.out_conf]; exact toSetHO_feed h eq [] _ _

theorem toDictHO_feed {α κ ν} (h : κ → Bool) (eq : κ → κ → Bool) (key : α → Except Err κ) (elem : α → Except Err ν)
    (s : List (κ × ν)) (xs : List α) (t : Ending) :
    cut ((toDictHO h eq key elem).feed s (xs.map .next ++ t.notifs))
      = foldRef (xs.foldlM (dictStepH h eq key elem) s) id t := by
  induction xs generalizing s with
  | nil => cases t <;> simp [Op.feed, Op.handle, toDictHO, Ending.notifs, foldRef, pure, Except.pure]
  | cons x xs ih =>
    simp only [List.map_cons, List.cons_append, Op.feed, Op.handle, toDictHO, List.foldlM_cons]
    cases hx : dictStepH h eq key elem s x with
    | error e => simp [foldRef, bind, Except.bind]
    | ok s' =>
      have := ih s'
      simp only [toDictHO] at this
      simp only [List.nil_append, bind, Except.bind]
      exact this

theorem toDictHO_out {α κ ν} (h : κ → Bool) (eq : κ → κ → Bool) (key : α → Except Err κ) (elem : α → Except Err ν) (lag : Bool)
    (raw : List (Notif α)) :
    (toDictHO h eq key elem).out lag raw = foldRef ((elems raw).foldlM (dictStepH h eq key elem) []) id (ending raw) := by
  rw [Op.out_conf]; exact toDictHO_feed h eq key elem _ _ _

/-- on hashable input the guarded fold is the plain `set(xs)` fold -/
theorem setStepH_hashable {α} (h : α → Bool) (eq : α → α → Bool) (xs : List α) (s : List α) (hh : ∀ x ∈ xs, h x = true) :
    xs.foldlM (setStepH h eq) s = .ok (xs.foldl (setAdd eq) s) := by
  induction xs generalizing s with
  | nil => rfl
  | cons x xs ih =>
    simp only [List.foldlM_cons, setStepH, hh x List.mem_cons_self, if_true, bind, Except.bind, List.foldl_cons]
    exact ih _ (fun y hy => hh y (List.mem_cons_of_mem _ hy))

/-- the first unhashable element fails the fold with `TypeError` -/
theorem setStepH_unhashable {α} (h : α → Bool) (eq : α → α → Bool) (pre : List α) (x : α) (post : List α) (s : List α)
    (hpre : ∀ y ∈ pre, h y = true) (hx : h x = false) :
    (pre ++ x :: post).foldlM (setStepH h eq) s = .error "TypeError" := by
  rw [List.foldlM_append, setStepH_hashable h eq pre s hpre]
  simp [List.foldlM_cons, setStepH, hx, bind, Except.bind]

end Agg

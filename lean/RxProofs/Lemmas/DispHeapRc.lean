import RxProofs.Lemmas.DispHeap
import RxProofs.Lemmas.DispC27
/-!
# `Pipe.apply` on the heap of one RefCountDisposable: `underlying leaf, refcount node, dependents…` (C26Heap)
-/
namespace Pipe
open Disp (Dep depLive wsum)

def rcNode (pd rel : Bool) : Node := { kind := .refcount, done := pd, released := rel, owned := [0] }

/-- a dependent handed out by `RefCountDisposable.disposable` as a heap node -/
def depNode : Dep → Node
  | .inner b => { kind := .inner, done := !b, parent := some 1 }
  | .inert b => { kind := .leaf, done := b }

/-- `ud`: underlying leaf done; `pd`: primary disposed; `rel`: released -/
def rcH (ud pd rel : Bool) (deps : List Dep) : Heap := leafN ud :: rcNode pd rel :: deps.map depNode

def iter (f : Heap → Heap) : Nat → Heap → Heap
  | 0, h => h
  | n + 1, h => iter f n (f h)

theorem iter_fix (f : Heap → Heap) (h : Heap) (hf : f h = h) (n : Nat) : iter f n h = h := by
  induction n with
  | zero => rfl
  | succ n ih => simp [iter, hf, ih]

/-- if propagation is stationary after `m` rounds, `settle` is `m` rounds -/
theorem settleFuel_iter (m : Nat) : ∀ (h : Heap) (n : Nat), pending h ≤ n →
    iter propagate (m + 1) h = iter propagate m h → settleFuel n h = iter propagate m h := by
  induction m with
  | zero =>
    intro h n _ hfix
    have : propagate h = h := by simpa [iter] using hfix
    cases n <;> simp [settleFuel, this, iter]
  | succ m ih =>
    intro h n hn hfix
    by_cases he : propagate h = h
    · rw [iter_fix propagate h he]
      cases n <;> simp [settleFuel, he]
    · have hlt := pending_propagate_lt h he
      cases n with
      | zero => omega
      | succ n =>
        simp only [settleFuel, he, if_false]
        exact ih (propagate h) n (by omega) (by simpa [iter] using hfix)

theorem settle_iter (m : Nat) (h : Heap) (hfix : iter propagate (m + 1) h = iter propagate m h) :
    settle h = iter propagate m h := settleFuel_iter m h _ (Nat.le_refl _) hfix

theorem depNode_owned (d : Dep) : (depNode d).owned = [] := by cases d <;> rfl
theorem depNode_not_rc (d : Dep) : ((depNode d).kind == Kind.refcount) = false := by cases d <;> rfl

theorem obf_rcH (ud pd rel : Bool) (deps : List Dep) (y : Nat) :
    ownedByFiring (rcH ud pd rel deps) y = (rel && y == 0) := by
  have : (deps.map depNode).any (fun x => x.fires && x.owned.contains y) = false := by
    rw [List.any_eq_false]
    intro x hx
    obtain ⟨d, _, rfl⟩ := List.mem_map.mp hx
    simp [depNode_owned]
  simp only [ownedByFiring, rcH, List.any_cons, this]
  simp [leafN, rcNode, Node.fires]
  cases rel <;> simp
  all_goals (cases y <;> rfl)

theorem liveInners_rcH (ud pd rel : Bool) (deps : List Dep) :
    liveInners (rcH ud pd rel deps) 1 = wsum depLive deps := by
  simp only [liveInners, rcH, List.filter_cons]
  simp only [leafN, rcNode]
  simp
  induction deps with
  | nil => rfl
  | cons d ds ih =>
    simp only [List.map_cons, List.filter_cons, Disp.wsum_cons]
    cases d with
    | inert b => simp [depNode, depLive, ih]
    | inner b => cases b <;> simp [depNode, depLive, ih] <;> omega

theorem map_zipIdx_id {α} (g : α × Nat → α) (l : List α) (k : Nat) (h : ∀ x ∈ l.zipIdx k, g x = x.1) :
    (l.zipIdx k).map g = l := by
  rw [List.map_congr_left h, List.zipIdx_map_fst]

theorem propDone_rcH (ud pd rel : Bool) (deps : List Dep) :
    propDone (rcH ud pd rel deps) = rcH (ud || rel) pd rel deps := by
  have hob := obf_rcH ud pd rel deps
  unfold propDone
  generalize hH : rcH ud pd rel deps = H at hob ⊢
  have hz : H.zipIdx = (leafN ud, 0) :: (rcNode pd rel, 1) :: (deps.map depNode).zipIdx 2 := by
    rw [← hH]; rfl
  rw [hz]
  simp only [List.map_cons, rcH]
  congr 1
  · simp [stepDone, hob, leafN]
  · congr 1
    · simp [stepDone, hob, rcNode]
    · apply map_zipIdx_id
      intro x hx
      have h2 := List.le_snd_of_mem_zipIdx hx
      have : (x.2 == 0) = false := by simp; omega
      simp [stepDone, hob, this]

theorem propReleased_rcH (ud pd rel : Bool) (deps : List Dep) :
    propReleased (rcH ud pd rel deps) = rcH ud pd (rel || (pd && wsum depLive deps == 0)) deps := by
  have hli := liveInners_rcH ud pd rel deps
  unfold propReleased
  generalize hH : rcH ud pd rel deps = H at hli ⊢
  have hz : H.zipIdx = (leafN ud, 0) :: (rcNode pd rel, 1) :: (deps.map depNode).zipIdx 2 := by
    rw [← hH]; rfl
  rw [hz]
  simp only [List.map_cons, rcH]
  have h0 : stepReleased H (leafN ud, 0) = leafN ud := by simp [stepReleased, leafN]
  have h1 : stepReleased H (rcNode pd rel, 1) = rcNode pd (rel || (pd && wsum depLive deps == 0)) := by
    simp [stepReleased, rcNode, hli]
  have h2 : List.map (stepReleased H) ((List.map depNode deps).zipIdx 2) = List.map depNode deps := by
    apply map_zipIdx_id
    intro x hx
    obtain ⟨d, _, hd⟩ := List.mem_map.mp (List.fst_mem_of_mem_zipIdx hx)
    simp [stepReleased, ← hd, depNode_not_rc]
  rw [h0, h1, h2]

theorem propagate_rcH (ud pd rel : Bool) (deps : List Dep) :
    propagate (rcH ud pd rel deps) = rcH (ud || rel) pd (rel || (pd && wsum depLive deps == 0)) deps := by
  unfold propagate
  rw [propDone_rcH, propReleased_rcH]

/-- nested disposal on a RefCountDisposable heap: two rounds (release, then the underlying resource) -/
theorem settle_rcH (ud pd rel : Bool) (deps : List Dep) :
    settle (rcH ud pd rel deps) =
      rcH (ud || rel || (pd && wsum depLive deps == 0)) pd (rel || (pd && wsum depLive deps == 0)) deps := by
  rw [settle_iter 2]
  · simp only [iter, propagate_rcH]
    generalize (wsum depLive deps == 0) = z
    cases ud <;> cases rel <;> cases pd <;> cases z <;> rfl
  · simp only [iter, propagate_rcH]
    generalize (wsum depLive deps == 0) = z
    cases ud <;> cases rel <;> cases pd <;> cases z <;> rfl


/-- `dispose()` on a dependent -/
def depDone : Dep → Dep
  | .inner _ => .inner false
  | .inert _ => .inert true

theorem depNode_done (d : Dep) : { depNode d with done := true } = depNode (depDone d) := by
  cases d <;> rfl

theorem markDone_nil (h : Heap) : markDone h [] = h := by
  unfold markDone
  apply map_zipIdx_id
  intro x _; simp

theorem markDone_rc_primary (ud pd rel : Bool) (deps : List Dep) :
    markDone (rcH ud pd rel deps) [1] = rcH ud true rel deps := by
  unfold markDone
  have hz : (rcH ud pd rel deps).zipIdx = (leafN ud, 0) :: (rcNode pd rel, 1) :: (deps.map depNode).zipIdx 2 := rfl
  rw [hz]
  simp only [List.map_cons, rcH]
  have h2 : List.map (fun p : Node × Nat => if [1].contains p.2 then { p.1 with done := true } else p.1)
      ((List.map depNode deps).zipIdx 2) = List.map depNode deps := by
    apply map_zipIdx_id
    intro x hx
    have := List.le_snd_of_mem_zipIdx hx
    have : x.2 ≠ 1 := by omega
    simp [this]
  rw [h2]
  simp [rcNode]

theorem markDone_rc_dep (ud pd rel : Bool) (deps : List Dep) (j : Nat) (d : Dep) (hd : deps[j]? = some d) :
    markDone (rcH ud pd rel deps) [2 + j] = rcH ud pd rel (deps.set j (depDone d)) := by
  unfold markDone
  have hz : (rcH ud pd rel deps).zipIdx = (leafN ud, 0) :: (rcNode pd rel, 1) :: (deps.map depNode).zipIdx 2 := rfl
  rw [hz]
  simp only [List.map_cons, rcH]
  have h0 : (0 : Nat) ≠ 2 + j := by omega
  have h1 : (1 : Nat) ≠ 2 + j := by omega
  have h2 : List.map (fun p : Node × Nat => if [2 + j].contains p.2 then { p.1 with done := true } else p.1)
      ((List.map depNode deps).zipIdx 2) = List.map depNode (deps.set j (depDone d)) := by
    apply List.ext_getElem?
    intro i
    simp only [List.getElem?_map, List.getElem?_zipIdx, List.getElem?_set]
    by_cases hij : j = i
    · subst hij
      have hlt : j < deps.length := by
        rcases Nat.lt_or_ge j deps.length with h | h
        · exact h
        · rw [List.getElem?_eq_none h] at hd; cases hd
      have hg : deps[j] = d := by rw [List.getElem?_eq_getElem hlt] at hd; exact Option.some.inj hd
      simp [hlt, depNode_done, hg]
    · have : 2 + i ≠ 2 + j := by omega
      cases hdi : deps[i]? <;> simp [hij]
      intro h; exact absurd h.symm hij
  rw [h2]
  simp [h0, h1]

theorem push_rcH (ud pd rel : Bool) (deps : List Dep) (d : Dep) :
    rcH ud pd rel deps ++ [depNode d] = rcH ud pd rel (deps ++ [d]) := by
  simp [rcH]

theorem getRc_rcH (ud pd rel : Bool) (deps : List Dep) : (rcH ud pd rel deps)[1]? = some (rcNode pd rel) := rfl

/-! ### closed forms of the three calls -/

theorem apply_getInner (ud pd rel : Bool) (deps : List Dep) :
    apply (rcH ud pd rel deps) (.getInner 1) =
      (settle (rcH ud pd rel (deps ++ [if rel then Dep.inert false else Dep.inner true])), .ok) := by
  simp only [apply, applyRaw, effect, getRc_rcH, rcNode]
  cases rel
  · simp only [bne_self_eq_false, Bool.false_eq_true, if_false, applyEff, markDone_nil]
    rw [← push_rcH]; rfl
  · simp only [bne_self_eq_false, Bool.false_eq_true, if_false, if_true, applyEff, markDone_nil]
    rw [← push_rcH]; rfl

theorem apply_dispose_rc (ud pd rel : Bool) (deps : List Dep) :
    apply (rcH ud pd rel deps) (.dispose 1) = (settle (rcH ud true rel deps), .ok) := by
  simp only [apply, applyRaw, effect, applyEff, markDone_rc_primary]

theorem apply_dispose_dep (ud pd rel : Bool) (deps : List Dep) (j : Nat) (d : Dep) (hd : deps[j]? = some d) :
    apply (rcH ud pd rel deps) (.dispose (2 + j)) = (settle (rcH ud pd rel (deps.set j (depDone d))), .ok) := by
  simp only [apply, applyRaw, effect, applyEff, markDone_rc_dep ud pd rel deps j d hd]

end Pipe

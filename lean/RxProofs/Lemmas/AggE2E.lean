import RxProofs.Lemmas.AggC09
import RxProofs.Lemmas.AggFold
/-!
# End-to-end delivery of a raising callback, generically and compositionally (C09)

Three properties of an operator, all about what its subscriber sees, all closed under `⨾`:
* `TermProp g`  — when `g`'s source terminates, `g`'s subscriber gets a terminal;
* `ErrThrough g` — an `on_error` of the source of a live `g` reaches its subscriber as that `on_error`, nothing follows;
* `RaisesAt f lag pre x e` — after `pre`, if `f` is still live, the element `x` makes the subscriber's sequence end with
  `on_error e` (the callback invoked for `x` raised `e`), whatever follows.
-/

namespace Agg

def noTerm {β} (l : List (Notif β)) : Prop := l.any (·.isTerminal) = false

theorem ending_open_iff {β} (l : List (Notif β)) : ending l = .open ↔ noTerm l := by
  induction l with
  | nil => simp [noTerm]
  | cons n ns ih => cases n <;> simp_all [noTerm, ending, Notif.isTerminal]

theorem cut_out {α β} (op : Op α β) (lag : Bool) (raw : List (Notif α)) : cut (op.out lag raw) = op.out lag raw := by
  rw [Op.out_eq, cut_cut]

/-- a live output is a list of `next`s -/
theorem out_nexts {α β} (op : Op α β) (lag : Bool) (raw : List (Notif α)) (h : noTerm (op.out lag raw)) :
    op.out lag raw = (elems (op.out lag raw)).map .next := by
  have := cut_eq_elems_ending (op.out lag raw)
  rw [cut_out, (ending_open_iff _).2 h] at this
  simpa [Ending.notifs] using this

theorem noTerm_map_next {β} (ws : List β) : noTerm (ws.map (Notif.next)) := by
  induction ws with
  | nil => rfl
  | cons w ws ih => simpa [noTerm, Notif.isTerminal] using ih

theorem out_depends_on_cut {α β} (op : Op α β) (lag : Bool) (a b : List (Notif α)) (h : cut a = cut b) :
    op.out lag a = op.out lag b := by rw [Op.out_eq, Op.out_eq, h]

def Op.TermProp {α β} (g : Op α β) : Prop :=
  ∀ lag raw, ending raw ≠ .open → ¬ noTerm (g.out lag raw)

def Op.ErrThrough {α β} (g : Op α β) : Prop :=
  ∀ lag (ws : List α) (e : Err) (post : List (Notif α)), noTerm (g.out lag (ws.map .next)) →
    g.out lag (ws.map .next ++ .error e :: post) = g.out lag (ws.map .next) ++ [.error e]

def Op.RaisesAt {α β} (f : Op α β) (lag : Bool) (pre : List (Notif α)) (x : α) (e : Err) : Prop :=
  noTerm (f.out lag pre) → ∀ post, f.out lag (pre ++ .next x :: post) = f.out lag pre ++ [.error e]

/-! ### primitives -/

theorem Op.final_live {α β} (op : Op α β) (lag : Bool) (pre : List (Notif α))
    (hpre : ∀ n ∈ pre, n.isTerminal = false) (hlive : noTerm (op.out lag pre)) :
    (op.final lag pre).up = false ∧ (op.final lag pre).down = false := by
  have hd : (op.final lag pre).down = false := by rw [Op.final_down_iff]; exact hlive
  exact ⟨Op.final_up_false op lag pre hpre hd, hd⟩

/-- handler-level (B) ⇒ `RaisesAt` -/
theorem Op.raisesAt_of_handler {α β} (op : Op α β) (lag : Bool) (pre : List (Notif α)) (x : α) (e : Err)
    (hpre : ∀ n ∈ pre, n.isTerminal = false)
    (hB : (op.handle (op.final lag pre).s (.next x)).calls = [.error e]) : op.RaisesAt lag pre x e := by
  intro hlive post
  obtain ⟨hup, hd⟩ := op.final_live lag pre hpre hlive
  have := (Op.raise_delivered op lag pre post (.next x) [] e hup hd (by simpa using hB) (by simp)).1
  simpa using this

theorem Op.errThrough_of_fwd {α β} (op : Op α β) (h : op.FwdErr) : op.ErrThrough := by
  intro lag ws e post hlive
  obtain ⟨hup, hd⟩ := op.final_live lag (ws.map .next) (by simp [Notif.isTerminal]) hlive
  have := (Op.raise_delivered op lag (ws.map .next) post (.error e) [] e hup hd (by simpa [Op.handle] using h _ e) (by simp)).1
  simpa using this

/-! ### closure under `⨾` -/

theorem Op.TermProp.comp {α β γ} {f : Op α β} {g : Op β γ} (hf : f.TermProp) (hg : g.TermProp) : (f ⨾ g).TermProp := by
  intro lag raw hraw
  rw [Op.out_comp f g lag lag lag]
  apply hg
  intro h
  exact hf lag raw hraw ((ending_open_iff _).1 h)

theorem comp_first_live {α β γ} (f : Op α β) (g : Op β γ) (hg : g.TermProp) (lag : Bool) (raw : List (Notif α))
    (hlive : noTerm ((f ⨾ g).out lag raw)) : noTerm (f.out lag raw) := by
  rw [Op.out_comp f g lag lag lag] at hlive
  rw [← ending_open_iff]
  cases h : ending (f.out lag raw) with
  | «open» => rfl
  | done => exact absurd hlive (hg lag _ (by rw [h]; simp))
  | err e => exact absurd hlive (hg lag _ (by rw [h]; simp))

theorem Op.ErrThrough.comp {α β γ} {f : Op α β} {g : Op β γ} (hf : f.ErrThrough) (hg : g.ErrThrough) (hgt : g.TermProp) :
    (f ⨾ g).ErrThrough := by
  intro lag ws e post hlive
  have hfl := comp_first_live f g hgt lag _ hlive
  rw [Op.out_comp f g lag lag lag, hf lag ws e post hfl, Op.out_comp f g lag lag lag] at *
  rw [out_nexts f lag _ hfl] at hlive ⊢
  exact hg lag _ e [] hlive

theorem Op.RaisesAt.comp {α β γ} {f : Op α β} {g : Op β γ} {lag : Bool} {pre : List (Notif α)} {x : α} {e : Err}
    (hf : f.RaisesAt lag pre x e) (hg : g.ErrThrough) (hgt : g.TermProp) : (f ⨾ g).RaisesAt lag pre x e := by
  intro hlive post
  have hfl := comp_first_live f g hgt lag _ hlive
  rw [Op.out_comp f g lag lag lag, hf hfl post, Op.out_comp f g lag lag lag] at *
  rw [out_nexts f lag _ hfl] at hlive ⊢
  exact hg lag _ e [] hlive

/-! ### the end-to-end statement -/

theorem Op.final_prompt_up {α β} (op : Op α β) (raw : List (Notif α)) (h : (op.final false raw).down = true) :
    (op.final false raw).up = true := by
  have key : ∀ (raw : List (Notif α)) (st : RunSt op.σ), (st.down = true → st.up = true) →
      ((op.finalFrom false st raw).down = true → (op.finalFrom false st raw).up = true) := by
    intro raw
    induction raw with
    | nil => intro st h; exact h
    | cons n ns ih =>
      intro st hst
      simp only [Op.finalFrom]
      apply ih
      unfold Op.step
      split
      · exact hst
      · intro hd; simp only at hd ⊢; simp [hd]
  exact key raw op.start (by intro h; cases h) h

/-- **Generic end-to-end theorem.**  `op` never raises into its emitter (A) and the callback invoked for `x` after
`pre` raises `e` (`RaisesAt`, obtained from the handler-level (B) and closed under `⨾`).  If the subscriber has not been
terminated by `pre`, then: it receives exactly `on_error e` after what it had and nothing afterwards (whatever the
source sends next), nothing escapes to the emitter, the downstream observer is stopped and — with prompt disposal —
so is the source's observer. -/
theorem Op.raise_end_to_end {α β} (op : Op α β) (hA : op.NoEsc) (lag : Bool) (pre post : List (Notif α)) (x : α) (e : Err)
    (hB : op.RaisesAt lag pre x e) (hlive : noTerm (op.out lag pre)) :
    op.out lag (pre ++ .next x :: post) = op.out lag pre ++ [.error e]
    ∧ op.escapes lag (pre ++ .next x :: post) = []
    ∧ (op.final lag (pre ++ .next x :: post)).down = true
    ∧ (lag = false → (op.final lag (pre ++ .next x :: post)).up = true) := by
  have h1 := hB hlive post
  have hd : (op.final lag (pre ++ .next x :: post)).down = true := by
    rw [Op.final_down_iff, h1]; simp [Notif.isTerminal]
  refine ⟨h1, Op.escapes_nil op hA lag _, hd, ?_⟩
  intro hl; subst hl; exact Op.final_prompt_up op _ hd

/-! ### `TermProp` / `ErrThrough` of the catalogue -/

theorem notifs_term {β} (c : Conf β) (h : c.2 ≠ .open) : ¬ noTerm c.notifs := by
  intro hn
  have := (ending_open_iff c.notifs).2 hn
  simp [Conf.notifs] at this
  exact h this

theorem mapC_ending {α β} (f : α → Except Err β) (xs : List α) (t : Ending) (h : t ≠ .open) : (mapC f xs t).2 ≠ .open := by
  induction xs with
  | nil => exact h
  | cons x xs ih => simp only [mapC]; cases f x <;> simp [ih]

theorem filterC_ending {α} (p : α → Except Err Bool) (xs : List α) (t : Ending) (h : t ≠ .open) : (filterC p xs t).2 ≠ .open := by
  induction xs with
  | nil => exact h
  | cons x xs ih =>
    simp only [filterC]
    cases p x with
    | error e => simp
    | ok b => cases b <;> simp [ih]

theorem scanC_ending {α β} (f : β → α → Except Err β) (seed : Option β) (inj : α → β) (s : Option β) (xs : List α) (t : Ending)
    (h : t ≠ .open) : (scanC f seed inj s xs t).2 ≠ .open := by
  induction xs generalizing s with
  | nil => exact h
  | cons x xs ih => simp only [scanC]; cases scanProj f seed inj s x <;> simp [ih]

theorem mapO_termProp {α β} (f : α → Except Err β) : (mapO f).TermProp := fun lag raw h => by
  rw [mapO_out]; exact notifs_term _ (mapC_ending f _ _ h)
theorem filterO_termProp {α} (p : α → Except Err Bool) : (filterO p).TermProp := fun lag raw h => by
  rw [filterO_out]; exact notifs_term _ (filterC_ending p _ _ h)
theorem scanO_termProp {α β} (f : β → α → Except Err β) (seed : Option β) (inj : α → β) : (scanO f seed inj).TermProp :=
  fun lag raw h => by rw [scanO_out]; exact notifs_term _ (scanC_ending f seed inj none _ _ h)

theorem lastOrDefaultO_termProp {α} (d : Option α) : (lastOrDefaultO d).TermProp := fun lag raw h => by
  rw [lastOrDefaultO_out, lastRef]
  cases ht : ending raw with
  | «open» => exact absurd ht h
  | done => cases (elems raw).getLast? <;> cases d <;> simp [valueOrDefault, noTerm, Notif.isTerminal]
  | err e => simp [noTerm, Notif.isTerminal]
theorem firstOrDefaultO_termProp {α} (d : Option α) : (firstOrDefaultO d).TermProp := fun lag raw h => by
  rw [firstOrDefaultO_out]; unfold firstRef
  cases hx : elems raw with
  | cons x xs => simp [noTerm, Notif.isTerminal]
  | nil =>
    cases ht : ending raw with
    | «open» => exact absurd ht h
    | done => cases d <;> simp [valueOrDefault, noTerm, Notif.isTerminal]
    | err e => simp [noTerm, Notif.isTerminal]
theorem singleOrDefaultO_termProp {α} (d : Option α) : (singleOrDefaultO d).TermProp := fun lag raw h => by
  rw [singleOrDefaultO_out]
  cases ht : ending raw with
  | «open» => exact absurd ht h
  | done =>
    match elems raw with
    | [] => cases d <;> simp [singleRef, valueOrDefault, noTerm, Notif.isTerminal]
    | [x] => simp [singleRef, noTerm, Notif.isTerminal]
    | x :: y :: xs => simp [singleRef, noTerm, Notif.isTerminal]
  | err e =>
    match elems raw with
    | [] => simp [singleRef, noTerm, Notif.isTerminal]
    | [x] => simp [singleRef, noTerm, Notif.isTerminal]
    | x :: y :: xs => simp [singleRef, noTerm, Notif.isTerminal]
theorem someOp_termProp {α} : (someOp : Op α Bool).TermProp := fun lag raw h => by
  rw [someOp_out]; unfold someRef
  cases hx : elems raw with
  | cons x xs => simp [noTerm, Notif.isTerminal]
  | nil =>
    cases ht : ending raw with
    | «open» => exact absurd ht h
    | done => simp [noTerm, Notif.isTerminal]
    | err e => simp [noTerm, Notif.isTerminal]

/-- `first` / `some` forward the source's error while undecided (after the decision they ignore it — the out-level form of
`ErrThrough` needs no handler-level `FwdErr`) -/
theorem firstOrDefaultO_errThrough {α} (d : Option α) : (firstOrDefaultO d).ErrThrough := by
  intro lag ws e post hlive
  rw [firstOrDefaultO_out] at hlive ⊢
  rw [firstOrDefaultO_out]
  cases ws with
  | nil => simp [firstRef, elems, ending]
  | cons w ws => simp [firstRef, noTerm, Notif.isTerminal] at hlive

theorem someOp_errThrough {α} : (someOp : Op α Bool).ErrThrough := by
  intro lag ws e post hlive
  rw [someOp_out] at hlive ⊢
  rw [someOp_out]
  cases ws with
  | nil => simp [someRef, elems, ending]
  | cons w ws => simp [someRef, noTerm, Notif.isTerminal] at hlive

theorem reduceO_termProp {α β} (f : β → α → Except Err β) (seed : Option β) (inj : α → β) : (reduceO f seed inj).TermProp := by
  cases seed <;> exact (scanO_termProp f _ inj).comp (lastOrDefaultO_termProp _)
theorem reduceO_errThrough {α β} (f : β → α → Except Err β) (seed : Option β) (inj : α → β) : (reduceO f seed inj).ErrThrough := by
  cases seed <;>
    exact (Op.errThrough_of_fwd _ (scanO_fwd f _ inj)).comp (Op.errThrough_of_fwd _ (lastOrDefaultO_fwd _)) (lastOrDefaultO_termProp _)

/-- the end-to-end statement as one proposition -/
def Op.DeliversAt {α β} (op : Op α β) (lag : Bool) (pre : List (Notif α)) (x : α) (e : Err) : Prop :=
  noTerm (op.out lag pre) → ∀ post,
    op.out lag (pre ++ .next x :: post) = op.out lag pre ++ [.error e]
    ∧ op.escapes lag (pre ++ .next x :: post) = []
    ∧ (op.final lag (pre ++ .next x :: post)).down = true
    ∧ (lag = false → (op.final lag (pre ++ .next x :: post)).up = true)

theorem Op.deliversAt {α β} (op : Op α β) (hA : op.NoEsc) {lag : Bool} {pre : List (Notif α)} {x : α} {e : Err}
    (hB : op.RaisesAt lag pre x e) : op.DeliversAt lag pre x e :=
  fun hlive post => Op.raise_end_to_end op hA lag pre post x e hB hlive

end Agg

import RxProofs.Lemmas.Ops
import RxModel.OpsFb
/-!
# Re-entrant (feedback) runs: `runFb = sequential semantics` for operators that commit their state before their
downstream calls (`ROp.Safe`), for every input list and every nesting bound (`runFb_eq_sem`).
-/
namespace Ops
variable {α β : Type}

def noNext (l : List (Notif β)) : Bool := l.all Notif.isTerminal

/-- "state committed before the downstream call": the conditions under which a re-entrant run of a split operator
is its sequential run on the arrival order. `done s` = the operator has decided to terminate. -/
structure ROp.Safe (r : ROp α β) where
  done : r.σ → Bool
  init_not_done : done r.init = false
  /-- once done, `on_next` does nothing at all -/
  done_noop : ∀ s x, done s = true →
    (r.onNext s x).st = s ∧ (r.onNext s x).calls = [] ∧ ∀ d, (r.onNext s x).post d = []
  /-- at most one element is emitted per `on_next`, and it is emitted first -/
  one_next : ∀ s x, done s = false → noNext (r.onNext s x).calls.tail = true
  post_terminal : ∀ s x d, noNext ((r.onNext s x).post d) = true
  post_not_done : ∀ s x d, done d = false → (r.onNext s x).post d = []
  post_done : ∀ s x d, done d = true → done (r.onNext s x).st = true →
    (r.onNext s x).post d = (r.onNext s x).post (r.onNext s x).st
  /-- if a terminal follows the emitted element, the decision was committed before the element was emitted -/
  committed : ∀ s x y ts, done s = false → (r.onNext s x).calls = .next y :: ts →
    ts ++ (r.onNext s x).post (r.onNext s x).st ≠ [] → done (r.onNext s x).st = true
  /-- becoming done emits a terminal -/
  done_terminates : ∀ s x, done s = false → done (r.onNext s x).st = true →
    hasTerminal ((r.onNext s x).calls ++ (r.onNext s x).post (r.onNext s x).st) = true

/-! ### the observers -/
theorem ado_next_open (k : Nat) (v : β) :
    Ado.step noRaise { stopped := false, cbs := k } (ObsCall.next v)
      = ({ stopped := false, cbs := k + 1 }, ⟨some (.next v), false, 0⟩) := by simp [Ado.step, noRaise]

theorem ado_stopped (k : Nat) (c : Notif β) :
    Ado.step noRaise { stopped := true, cbs := k } (toCall c) = ({ stopped := true, cbs := k }, ⟨none, false, 0⟩) := by
  cases c <;> simp [Ado.step, toCall]

/-! ### feeding calls -/
section
variable {σ : Type} (reenter : FS σ α → α → FS σ α × List (Notif β)) (cn : Bool)

theorem feedCall_down_stopped (s : FS σ α) (c : Notif β) (h : s.down.stopped = true) :
    feedCall reenter cn s c = (s, []) := by
  obtain ⟨up, st, ⟨ds, dk⟩, p⟩ := s
  simp only at h; subst h
  simp [feedCall, ado_stopped]

theorem feedCalls_down_stopped (s : FS σ α) (cs : List (Notif β)) (h : s.down.stopped = true) :
    feedCalls reenter cn s cs = (s, []) := by
  induction cs with
  | nil => rfl
  | cons c cs ih => simp [feedCalls, feedCall_down_stopped reenter cn s c h, ih]

/-- a terminal call into an open subscriber: delivered, subscriber stopped, source subscription disposed -/
theorem feedCall_terminal (s : FS σ α) (c : Notif β) (hc : c.isTerminal = true) (h : s.down.stopped = false) :
    (feedCall reenter cn s c).2 = [c] ∧ (feedCall reenter cn s c).1.down.stopped = true ∧
    (feedCall reenter cn s c).1.up.stopped = true ∧ (feedCall reenter cn s c).1.st = s.st ∧
    (feedCall reenter cn s c).1.pending = s.pending := by
  obtain ⟨up, st, ⟨ds, dk⟩, p⟩ := s
  simp only at h; subst h
  cases c with
  | next v => simp [Notif.isTerminal] at hc
  | error e => simp [feedCall, Ado.step, toCall, disposeAdo]
  | completed => simp [feedCall, Ado.step, toCall, disposeAdo]

/-- a list of terminal calls into an open subscriber: exactly the first is seen -/
theorem feedCalls_terminals (s : FS σ α) (ts : List (Notif β)) (hts : noNext ts = true) (h : s.down.stopped = false) :
    (feedCalls reenter cn s ts).2 = cut ts ∧
    (feedCalls reenter cn s ts).1.st = s.st ∧ (feedCalls reenter cn s ts).1.pending = s.pending ∧
    (ts ≠ [] → (feedCalls reenter cn s ts).1.down.stopped = true ∧ (feedCalls reenter cn s ts).1.up.stopped = true) ∧
    (ts = [] → feedCalls reenter cn s ts = (s, [])) := by
  cases ts with
  | nil => simp [feedCalls]
  | cons c cs =>
    have hc : c.isTerminal = true := by simp [noNext] at hts; exact hts.1
    obtain ⟨h1, h2, h3, h4, h5⟩ := feedCall_terminal reenter cn s c hc h
    have hrest := feedCalls_down_stopped reenter cn (feedCall reenter cn s c).1 cs h2
    simp only [feedCalls, hrest, h1]
    refine ⟨?_, h4, h5, fun _ => ⟨h2, h3⟩, fun hn => by simp at hn⟩
    cases c <;> simp_all [Notif.isTerminal]
end

/-! ### the future of a run state: what the sequential (atomic) run still shows -/
def Fut (r : ROp α β) (S : FS r.σ α) : List (Notif β) :=
  if S.up.stopped || S.down.stopped then [] else cut (r.toOp.emits S.st S.pending)

theorem toOp_handle (r : ROp α β) (s : r.σ) (n : Notif α) :
    r.toOp.handle s n = (r.handle s n).atomic := by cases n <;> rfl

theorem emits_toOp_cons (r : ROp α β) (s : r.σ) (n : Notif α) (p : List (Notif α)) :
    r.toOp.emits s (n :: p) = ((r.handle s n).calls ++ (r.handle s n).post (r.handle s n).st) ++
      (if n.isTerminal then [] else r.toOp.emits (r.handle s n).st p) := by
  simp [Op.emits, toOp_handle, HOutR.atomic]

theorem noNext_hasTerminal (l : List (Notif β)) (h : noNext l = true) (hne : l ≠ []) : hasTerminal l = true := by
  cases l with
  | nil => exact absurd rfl hne
  | cons c cs => cases c <;> simp_all [noNext, Notif.isTerminal]

theorem noNext_append (a b : List (Notif β)) (ha : noNext a = true) (hb : noNext b = true) : noNext (a ++ b) = true := by
  simp_all [noNext]

/-- what `deliver` guarantees, by the class of the state it is entered in -/
structure DeliverOK (r : ROp α β) (sf : r.Safe) (S : FS r.σ α) (n : Notif α) (R : FS r.σ α × List (Notif β)) : Prop where
  len : R.1.pending.length ≤ S.pending.length
  up_stopped : S.up.stopped = true → R.2 = [] ∧ R.1.up.stopped = true ∧ R.1.down = S.down ∧ R.1.st = S.st
  down_stopped : S.down.stopped = true → R.2 = [] ∧ R.1.down.stopped = true
  done_noop : S.up.stopped = false → S.down.stopped = false → sf.done S.st = true → n.isTerminal = false →
    R.2 = [] ∧ R.1.st = S.st ∧ R.1.down = S.down ∧ R.1.pending = S.pending ∧ R.1.up.stopped = false
  main : S.up.stopped = false → S.down.stopped = false → sf.done S.st = false →
    R.2 ++ Fut r R.1 = cut (r.toOp.emits S.st (n :: S.pending)) ∧
    (n.isTerminal = true → R.1.up.stopped = true) ∧
    (n.isTerminal = false → sf.done R.1.st = true → R.1.down.stopped = true)

section
variable {σ : Type} (reenter : FS σ α → α → FS σ α × List (Notif β)) (cn : Bool)

/-- an element delivered to an open subscriber: either nothing is fed back, or the next pending element re-enters -/
theorem feedCall_next (s : FS σ α) (y : β) (h : s.down.stopped = false) :
    ∃ d' : Ado, d'.stopped = false ∧
      ((feedCall reenter cn s (.next y) = ({ s with down := d' }, [.next y])) ∨
       (∃ x rest, s.pending = .next x :: rest ∧
          feedCall reenter cn s (.next y) =
            ((reenter { s with down := d', pending := rest } x).1,
             .next y :: (reenter { s with down := d', pending := rest } x).2))) := by
  obtain ⟨up, st, ⟨ds, dk⟩, p⟩ := s
  simp only at h; subst h
  refine ⟨{ stopped := false, cbs := dk + 1 }, rfl, ?_⟩
  cases p with
  | nil => left; simp [feedCall, toCall, ado_next_open]
  | cons n rest =>
    cases n with
    | next x =>
      cases cn
      · left; simp [feedCall, toCall, ado_next_open]
      · right; exact ⟨x, rest, rfl, by simp [feedCall, toCall, ado_next_open]⟩
    | error e => left; simp [feedCall, toCall, ado_next_open]
    | completed => left; simp [feedCall, toCall, ado_next_open]
end

section
variable (r : ROp α β) (sf : r.Safe) (cn : Bool) (fuel : Nat)
  (reenter : FS r.σ α → α → FS r.σ α × List (Notif β))
  (hre : ∀ t x, t.pending.length < fuel → DeliverOK r sf t (.next x) (reenter t x))
include hre

/-- calls made while the source subscription is already closed (a terminal handler, or after disposal): whatever is
fed back is dropped by the source's observer, so the subscriber sees exactly the grammar cut of the calls -/
theorem feedCalls_up_stopped (s : FS r.σ α) (cs : List (Notif β)) (hu : s.up.stopped = true)
    (hl : s.pending.length < fuel + 1) :
    (feedCalls reenter cn s cs).2 = (if s.down.stopped then [] else cut cs) ∧
    (feedCalls reenter cn s cs).1.up.stopped = true ∧
    (feedCalls reenter cn s cs).1.pending.length ≤ s.pending.length ∧
    (feedCalls reenter cn s cs).1.down.stopped = (s.down.stopped || hasTerminal cs) ∧
    (feedCalls reenter cn s cs).1.st = s.st := by
  induction cs generalizing s with
  | nil => cases hd : s.down.stopped <;> simp [feedCalls, hu, hd]
  | cons c cs ih =>
    cases hd : s.down.stopped
    · cases c with
      | next y =>
        obtain ⟨d', hd', hcase⟩ := feedCall_next reenter cn s y hd
        rcases hcase with h1 | ⟨x, rest, hp, h1⟩
        · have := ih { s with down := d' } hu hl
          simp only [feedCalls, h1, hd', hd] at this ⊢
          simpa using this
        · have ok := hre { s with down := d', pending := rest } x (by simp [hp] at hl ⊢; omega)
          obtain ⟨hv, hup, hdn, hst⟩ := ok.up_stopped hu
          have hlen := ok.len
          simp only at hlen hdn hst
          have := ih (reenter { s with down := d', pending := rest } x).1 hup (by simp [hp] at hl; omega)
          simp only [feedCalls, h1, hv, hdn, hst, hd', hd] at this ⊢
          refine ⟨by simpa using this.1, this.2.1, ?_, by simpa using this.2.2.2.1, this.2.2.2.2⟩
          have := this.2.2.1; simp [hp]; omega
      | error e =>
        obtain ⟨h1, h2, h3, h4, h5⟩ := feedCall_terminal reenter cn s (.error e) rfl hd
        have hrest := feedCalls_down_stopped reenter cn (feedCall reenter cn s (.error e)).1 cs h2
        simp [feedCalls, hrest, h1, h2, h3, h4, h5, hd]
      | completed =>
        obtain ⟨h1, h2, h3, h4, h5⟩ := feedCall_terminal reenter cn s .completed rfl hd
        have hrest := feedCalls_down_stopped reenter cn (feedCall reenter cn s .completed).1 cs h2
        simp [feedCalls, hrest, h1, h2, h3, h4, h5, hd]
    · simp [feedCalls_down_stopped reenter cn s (c :: cs) hd, hu, hd]
end


theorem deliver_succ (r : ROp α β) (bound fuel depth : Nat) (S : FS r.σ α) (n : Notif α) :
    r.deliver bound (fuel + 1) depth S n =
      (match (Ado.step noRaise S.up (toCall n)).2.delivered with
       | none => ({ S with up := (Ado.step noRaise S.up (toCall n)).1 }, [])
       | some m =>
         let h := r.handle S.st m
         let s1 : FS r.σ α := { S with up := (Ado.step noRaise S.up (toCall n)).1, st := h.st }
         let reenter := fun (t : FS r.σ α) (x : α) => r.deliver bound fuel (depth + 1) t (.next x)
         let a := feedCalls reenter (decide (depth < bound)) s1 h.calls
         let b := feedCalls reenter (decide (depth < bound)) a.1 (h.post a.1.st)
         (b.1, a.2 ++ b.2)) := rfl

theorem cut_terminals_append (ts rest : List (Notif β)) (h : noNext ts = true) (hne : ts ≠ []) :
    cut (ts ++ rest) = cut ts := cut_append_of_terminal _ _ (noNext_hasTerminal ts h hne)

theorem ado_terminal_open (k : Nat) (n : Notif α) (hn : n.isTerminal = true) :
    Ado.step noRaise { stopped := false, cbs := k } (toCall n)
      = ({ stopped := true, cbs := k + 1 }, ⟨some n, false, 1⟩) := by
  cases n <;> simp_all [Ado.step, toCall, noRaise, Notif.isTerminal]

theorem cut_append_cases (a b : List (Notif β)) :
    cut (a ++ b) = cut a ++ (if hasTerminal a then [] else cut b) := by
  cases h : hasTerminal a
  · simp [cut_append_of_no_terminal _ _ h, cut_of_no_terminal _ h]
  · simp [cut_append_of_terminal _ _ h]

/-- a terminal notification reaching an open operator with an open subscriber -/
theorem deliver_open_terminal (r : ROp α β) (sf : r.Safe) (bound fuel depth : Nat)
    (reenter : FS r.σ α → α → FS r.σ α × List (Notif β)) (cn : Bool)
    (hR : (fun (t : FS r.σ α) (x : α) => r.deliver bound fuel (depth + 1) t (.next x)) = reenter)
    (hcn : decide (depth < bound) = cn)
    (hre : ∀ t x, t.pending.length < fuel → DeliverOK r sf t (.next x) (reenter t x))
    (n : Notif α) (hn : n.isTerminal = true) (uk : Nat) (st : r.σ) (dk : Nat) (p : List (Notif α))
    (hl : p.length < fuel + 1) :
    DeliverOK r sf ⟨⟨false, uk⟩, st, ⟨false, dk⟩, p⟩ n
      (r.deliver bound (fuel + 1) depth ⟨⟨false, uk⟩, st, ⟨false, dk⟩, p⟩ n) := by
  rw [deliver_succ, hR, hcn]
  simp only [ado_terminal_open uk n hn]
  generalize hh : r.handle st n = h
  have fa := feedCalls_up_stopped r sf cn fuel reenter hre ⟨⟨true, uk + 1⟩, h.st, ⟨false, dk⟩, p⟩ h.calls rfl hl
  generalize feedCalls reenter cn ⟨⟨true, uk + 1⟩, h.st, ⟨false, dk⟩, p⟩ h.calls = a at fa
  obtain ⟨fa1, fa2, fa3, fa4, fa5⟩ := fa
  simp only at fa1 fa3 fa4 fa5
  have fb := feedCalls_up_stopped r sf cn fuel reenter hre a.1 (h.post a.1.st) fa2 (by omega)
  generalize feedCalls reenter cn a.1 (h.post a.1.st) = b at fb
  obtain ⟨fb1, fb2, fb3, fb4, fb5⟩ := fb
  refine ⟨by simp only; omega, fun hh => by simp at hh, fun hh => by simp at hh, fun _ _ _ hh => by simp [hn] at hh, ?_⟩
  intro _ _ _
  refine ⟨?_, fun _ => fb2, fun hh => by simp [hn] at hh⟩
  have hF : Fut r b.1 = [] := by simp [Fut, fb2]
  rw [hF, emits_toOp_cons, hh, hn, if_pos rfl, fa1, fb1, fa4, fa5]
  simp [cut_append_cases]

section
variable {σ : Type} (reenter : FS σ α → α → FS σ α × List (Notif β)) (cn : Bool)

/-- the calls that end a handler which has decided to terminate: trailing terminals, then the post-read calls -/
theorem finish_terminals (q : FS σ α) (ts : List (Notif β)) (post : σ → List (Notif β))
    (hts : noNext ts = true) (hpost : ∀ d, noNext (post d) = true) (hq : q.down.stopped = false)
    (hT : ts ++ post q.st ≠ []) :
    let a := feedCalls reenter cn q ts
    let b := feedCalls reenter cn a.1 (post a.1.st)
    a.2 ++ b.2 = cut (ts ++ post q.st) ∧ b.1.down.stopped = true ∧ b.1.pending = q.pending ∧ b.1.st = q.st := by
  intro a b
  obtain ⟨a1, a2, a3, a4, a5⟩ := feedCalls_terminals reenter cn q ts hts hq
  by_cases hne : ts = []
  · subst hne
    have ha : a = (q, []) := a5 rfl
    have hp : post q.st ≠ [] := by simpa using hT
    obtain ⟨b1, b2, b3, b4, b5⟩ := feedCalls_terminals reenter cn q (post q.st) (hpost _) hq
    simp only [b, ha, List.nil_append]
    exact ⟨b1, (b4 hp).1, b3, b2⟩
  · have hst := (a4 hne).1
    have hb : b = (a.1, []) := feedCalls_down_stopped reenter cn a.1 _ hst
    simp only [hb, List.append_nil]
    refine ⟨?_, hst, a3, a2⟩
    rw [a1, cut_terminals_append ts _ hts hne]
end

theorem DeliverOK.mk_main (r : ROp α β) (sf : r.Safe) (S : FS r.σ α) (n : Notif α) (R : FS r.σ α × List (Notif β))
    (hup : S.up.stopped = false) (hdn : S.down.stopped = false) (hnd : sf.done S.st = false) (hnt : n.isTerminal = false)
    (len : R.1.pending.length ≤ S.pending.length)
    (main : R.2 ++ Fut r R.1 = cut (r.toOp.emits S.st (n :: S.pending)))
    (inv : sf.done R.1.st = true → R.1.down.stopped = true) : DeliverOK r sf S n R :=
  ⟨len, fun h => by simp [hup] at h, fun h => by simp [hdn] at h, fun _ _ h => by simp [hnd] at h,
    fun _ _ _ => ⟨main, fun h => by simp [hnt] at h, fun _ => inv⟩⟩

/-- an element reaching an open operator with an open subscriber -/
theorem deliver_open_next (r : ROp α β) (sf : r.Safe) (bound fuel depth : Nat)
    (reenter : FS r.σ α → α → FS r.σ α × List (Notif β)) (cn : Bool)
    (hR : (fun (t : FS r.σ α) (x : α) => r.deliver bound fuel (depth + 1) t (.next x)) = reenter)
    (hcn : decide (depth < bound) = cn)
    (hre : ∀ t x, t.pending.length < fuel → DeliverOK r sf t (.next x) (reenter t x))
    (x0 : α) (uk : Nat) (st : r.σ) (dk : Nat) (p : List (Notif α)) (hl : p.length < fuel + 1) :
    DeliverOK r sf ⟨⟨false, uk⟩, st, ⟨false, dk⟩, p⟩ (.next x0)
      (r.deliver bound (fuel + 1) depth ⟨⟨false, uk⟩, st, ⟨false, dk⟩, p⟩ (.next x0)) := by
  rw [deliver_succ, hR, hcn]
  simp only [toCall, ado_next_open]
  have hhandle : r.handle st (.next x0) = r.onNext st x0 := rfl
  rw [hhandle]
  cases hd : sf.done st
  case true =>
    obtain ⟨h1, h2, h3⟩ := sf.done_noop st x0 hd
    simp only [h2, h3, feedCalls, h1, List.append_nil]
    exact ⟨Nat.le_refl _, fun h => by simp at h, fun h => by simp at h,
      fun _ _ _ _ => ⟨rfl, rfl, rfl, rfl, rfl⟩, fun _ _ h => by simp [hd] at h⟩
  case false =>
    have hone := sf.one_next st x0 hd
    have hpt := sf.post_terminal st x0
    have hpnd := sf.post_not_done st x0
    have hcom := sf.committed st x0
    have hdt := sf.done_terminates st x0 hd
    have hem := emits_toOp_cons r st (.next x0) p
    rw [hhandle] at hem
    generalize r.onNext st x0 = h at *
    have hopen : ∀ (q : FS r.σ α), q.up.stopped = false → q.down.stopped = false →
        Fut r q = cut (r.toOp.emits q.st q.pending) := by
      intro q h1 h2; simp [Fut, h1, h2]
    cases hc : h.calls with
    | nil =>
      rw [hc] at hem hdt
      simp only [feedCalls, List.nil_append]
      obtain ⟨b1, b2, b3, b4, b5⟩ := feedCalls_terminals reenter cn ⟨⟨false, uk + 1⟩, h.st, ⟨false, dk⟩, p⟩ (h.post h.st) (hpt _) rfl
      apply DeliverOK.mk_main r sf _ _ _ rfl rfl hd rfl
      · simp only [b3]; exact Nat.le_refl _
      · by_cases hp0 : h.post h.st = []
        · rw [b5 hp0, hopen _ rfl rfl, hem, hp0]; simp [Notif.isTerminal]
        · have hF : Fut r (feedCalls reenter cn ⟨⟨false, uk + 1⟩, h.st, ⟨false, dk⟩, p⟩ (h.post h.st)).1 = [] := by
            simp [Fut, (b4 hp0).1]
          rw [hF, b1, hem]; simp [cut_terminals_append _ _ (hpt _) hp0]
      · intro hdone
        by_cases hp0 : h.post h.st = []
        · have := hdt (by simpa [b2] using hdone); simp [hp0] at this
        · exact (b4 hp0).1
    | cons c ts =>
      rw [hc] at hone hem hdt
      have hts : noNext ts = true := by simpa using hone
      cases c with
      | error e =>
        have hall : noNext (Notif.error e :: ts) = true := by simp [noNext, Notif.isTerminal] at hts ⊢; exact hts
        obtain ⟨a1, a2, a3, a4, a5⟩ := feedCalls_terminals reenter cn ⟨⟨false, uk + 1⟩, h.st, ⟨false, dk⟩, p⟩ _ hall rfl
        have hst := (a4 (by simp)).1
        simp only [feedCalls_down_stopped reenter cn _ _ hst, List.append_nil]
        apply DeliverOK.mk_main r sf _ _ _ rfl rfl hd rfl
        · simp only [a3]; exact Nat.le_refl _
        · rw [show Fut r _ = [] by simp [Fut, hst], a1, hem]; simp
        · intro _; exact hst
      | completed =>
        have hall : noNext (Notif.completed :: ts) = true := by simp [noNext, Notif.isTerminal] at hts ⊢; exact hts
        obtain ⟨a1, a2, a3, a4, a5⟩ := feedCalls_terminals reenter cn ⟨⟨false, uk + 1⟩, h.st, ⟨false, dk⟩, p⟩ _ hall rfl
        have hst := (a4 (by simp)).1
        simp only [feedCalls_down_stopped reenter cn _ _ hst, List.append_nil]
        apply DeliverOK.mk_main r sf _ _ _ rfl rfl hd rfl
        · simp only [a3]; exact Nat.le_refl _
        · rw [show Fut r _ = [] by simp [Fut, hst], a1, hem]; simp
        · intro _; exact hst
      | next y =>
        have hcomm := hcom y ts hd hc
        obtain ⟨d', hd', hcase⟩ := feedCall_next reenter cn ⟨⟨false, uk + 1⟩, h.st, ⟨false, dk⟩, p⟩ y rfl
        have hTt : noNext (ts ++ h.post h.st) = true := noNext_append _ _ hts (hpt _)
        simp only [feedCalls]
        by_cases hT : ts ++ h.post h.st = []
        · -- nothing follows the element: the operator goes on
          have hts0 : ts = [] := (List.append_eq_nil_iff.mp hT).1
          have hp0 : h.post h.st = [] := (List.append_eq_nil_iff.mp hT).2
          have hnd1 : sf.done h.st = false := by
            cases hx : sf.done h.st
            · rfl
            · have := hdt hx; simp [hts0, hp0] at this
          subst hts0
          rcases hcase with h1 | ⟨x1, rest, hp, h1⟩
          · simp only [h1, feedCalls, hp0, List.append_nil]
            apply DeliverOK.mk_main r sf _ _ _ rfl rfl hd rfl
            · exact Nat.le_refl _
            · rw [hopen _ rfl hd', hem, hp0]; simp [Notif.isTerminal]
            · intro hx; simp [hnd1] at hx
          · simp only at hp
            have ok := hre ⟨⟨false, uk + 1⟩, h.st, d', rest⟩ x1 (by simp [hp] at hl ⊢; omega)
            obtain ⟨m1, _, m3⟩ := ok.main rfl hd' hnd1
            have hb : feedCalls reenter cn (reenter ⟨⟨false, uk + 1⟩, h.st, d', rest⟩ x1).1
                (h.post (reenter ⟨⟨false, uk + 1⟩, h.st, d', rest⟩ x1).1.st)
                = ((reenter ⟨⟨false, uk + 1⟩, h.st, d', rest⟩ x1).1, []) := by
              cases hx : sf.done (reenter ⟨⟨false, uk + 1⟩, h.st, d', rest⟩ x1).1.st
              · rw [hpnd _ hx]; rfl
              · exact feedCalls_down_stopped _ _ _ _ (m3 rfl hx)
            simp only [h1, feedCalls, hb, List.append_nil]
            apply DeliverOK.mk_main r sf _ _ _ rfl rfl hd rfl
            · have := ok.len; simp only at this; simp [hp]; omega
            · simp only [List.cons_append, m1]
              rw [hem, hp0, hp]; simp [Notif.isTerminal]
            · exact m3 rfl
        · -- a terminal follows the element: the decision was committed before the element was emitted
          have hdone := hcomm hT
          have hfin : ∀ (q : FS r.σ α), q.down.stopped = false → q.st = h.st → q.pending.length ≤ p.length →
              DeliverOK r sf ⟨⟨false, uk⟩, st, ⟨false, dk⟩, p⟩ (.next x0)
                ((feedCalls reenter cn (feedCalls reenter cn q ts).1 (h.post (feedCalls reenter cn q ts).1.st)).1,
                 ([Notif.next y] ++ (feedCalls reenter cn q ts).2) ++
                   (feedCalls reenter cn (feedCalls reenter cn q ts).1 (h.post (feedCalls reenter cn q ts).1.st)).2) := by
            intro q hq hqst hqlen
            obtain ⟨f1, f2, f3, f4⟩ := finish_terminals reenter cn q ts h.post hts hpt hq (by rw [hqst]; exact hT)
            apply DeliverOK.mk_main r sf _ _ _ rfl rfl hd rfl
            · simp only [f3]; exact hqlen
            · rw [show Fut r _ = [] by simp [Fut, f2], List.append_nil, List.append_assoc, f1, hqst, hem]
              simp only [List.cons_append, List.append_assoc, cut_next]
              rw [← List.append_assoc, cut_terminals_append _ _ hTt hT]; simp
            · intro _; exact f2
          rcases hcase with h1 | ⟨x1, rest, hp, h1⟩
          · rw [h1]; exact hfin _ hd' rfl (Nat.le_refl _)
          · simp only at hp
            have ok := hre ⟨⟨false, uk + 1⟩, h.st, d', rest⟩ x1 (by simp [hp] at hl ⊢; omega)
            obtain ⟨n1, n2, n3, n4, n5⟩ := ok.done_noop rfl hd' hdone rfl
            simp only at n2 n3 n4
            rw [h1, n1]
            exact hfin _ (by rw [n3]; exact hd') n2 (by rw [n4, hp]; simp)

/-- **deliver_ok.** -/
theorem deliver_ok (r : ROp α β) (sf : r.Safe) (bound : Nat) :
    ∀ fuel depth (S : FS r.σ α) (n : Notif α), S.pending.length < fuel →
      DeliverOK r sf S n (r.deliver bound fuel depth S n) := by
  intro fuel
  induction fuel with
  | zero => intro _ S _ h; exact absurd h (Nat.not_lt_zero _)
  | succ fuel ih =>
    intro depth S n hl
    have hre : ∀ t x, t.pending.length < fuel →
        DeliverOK r sf t (.next x) ((fun (t : FS r.σ α) (x : α) => r.deliver bound fuel (depth + 1) t (.next x)) t x) :=
      fun t x ht => ih (depth + 1) t (.next x) ht
    generalize hR : (fun (t : FS r.σ α) (x : α) => r.deliver bound fuel (depth + 1) t (.next x)) = reenter at hre
    generalize hcn : decide (depth < bound) = cn
    obtain ⟨⟨us, uk⟩, st, ⟨ds, dk⟩, p⟩ := S
    simp only at hl
    cases us
    case true =>
      -- the source subscription is closed: the notification is dropped
      have e : r.deliver bound (fuel + 1) depth ⟨⟨true, uk⟩, st, ⟨ds, dk⟩, p⟩ n = (⟨⟨true, uk⟩, st, ⟨ds, dk⟩, p⟩, []) := by
        rw [deliver_succ]; simp [ado_stopped]
      rw [e]
      exact ⟨Nat.le_refl _, fun _ => ⟨rfl, rfl, rfl, rfl⟩, fun h => ⟨rfl, h⟩, fun h => by simp at h, fun h => by simp at h⟩
    case false =>
      cases ds
      case true =>
        -- the subscriber is stopped: handlers run, nothing is seen
        have e : ∃ u' st', r.deliver bound (fuel + 1) depth ⟨⟨false, uk⟩, st, ⟨true, dk⟩, p⟩ n = (⟨u', st', ⟨true, dk⟩, p⟩, []) := by
          rw [deliver_succ, hR, hcn]
          cases n <;> simp [Ado.step, toCall, feedCalls_down_stopped]
        obtain ⟨u', st', e⟩ := e
        rw [e]
        exact ⟨Nat.le_refl _, fun h => by simp at h, fun _ => ⟨rfl, rfl⟩, fun _ h => by simp at h, fun _ h => by simp at h⟩
      case false =>
        cases n with
        | next x0 => exact deliver_open_next r sf bound fuel depth reenter cn hR hcn hre x0 uk st dk p hl
        | error e => exact deliver_open_terminal r sf bound fuel depth reenter cn hR hcn hre (.error e) rfl uk st dk p hl
        | completed => exact deliver_open_terminal r sf bound fuel depth reenter cn hR hcn hre .completed rfl uk st dk p hl

theorem loop_eq (r : ROp α β) (sf : r.Safe) (bound fuel : Nat) :
    ∀ k (S : FS r.σ α),
      (S.up.stopped = true ∨ S.down.stopped = true ∨ sf.done S.st = false) →
      S.pending.length ≤ k → S.pending.length ≤ fuel → r.loop bound fuel k S = Fut r S := by
  intro k
  induction k with
  | zero =>
    intro S _ hk _
    have : S.pending = [] := List.length_eq_zero_iff.mp (Nat.le_zero.mp hk)
    simp [ROp.loop, Fut, this, Op.emits]
  | succ k ih =>
    intro S hJ hk hf
    obtain ⟨up, st, down, p⟩ := S
    cases p with
    | nil => simp [ROp.loop, Fut, Op.emits]
    | cons n rest =>
      simp only [List.length_cons] at hk hf
      have ok := deliver_ok r sf bound fuel 1 ⟨up, st, down, rest⟩ n (by simp only; omega)
      have hlen := ok.len
      simp only at hlen
      simp only [ROp.loop]
      cases hu : up.stopped
      case true =>
        obtain ⟨h1, h2, _, _⟩ := ok.up_stopped hu
        rw [h1, ih _ (Or.inl h2) (by omega) (by omega)]
        simp [Fut, hu, h2]
      case false =>
        cases hd : down.stopped
        case true =>
          obtain ⟨h1, h2⟩ := ok.down_stopped hd
          rw [h1, ih _ (Or.inr (Or.inl h2)) (by omega) (by omega)]
          simp [Fut, hd, h2]
        case false =>
          have hnd : sf.done st = false := by
            rcases hJ with h | h | h
            · simp [hu] at h
            · simp [hd] at h
            · exact h
          obtain ⟨m1, m2, m3⟩ := ok.main hu hd hnd
          have hJ' : (r.deliver bound fuel 1 ⟨up, st, down, rest⟩ n).1.up.stopped = true ∨
              (r.deliver bound fuel 1 ⟨up, st, down, rest⟩ n).1.down.stopped = true ∨
              sf.done (r.deliver bound fuel 1 ⟨up, st, down, rest⟩ n).1.st = false := by
            cases hn : n.isTerminal
            · cases hx : sf.done (r.deliver bound fuel 1 ⟨up, st, down, rest⟩ n).1.st
              · exact Or.inr (Or.inr rfl)
              · exact Or.inr (Or.inl (m3 hn hx))
            · exact Or.inl (m2 hn)
          rw [ih _ hJ' (by omega) (by omega), m1]
          simp [Fut, hu, hd]

/-- **runFb_eq_sem.**  For an operator that commits its state before its downstream calls (`ROp.Safe`), the run over a
re-entrant feedback source — every input list, every nesting bound — shows the subscriber exactly what the
sequential run of the arrival order shows: the atomic operator's semantics. -/
theorem runFb_eq_sem (r : ROp α β) (sf : r.Safe) (bound : Nat) (raw : List (Notif α)) :
    r.runFb bound raw = r.toOp.sem raw := by
  unfold ROp.runFb
  obtain ⟨hv, hd, hs⟩ := feed_fresh 0 r.pre
  have h0 : ({} : Ado) = { stopped := false, cbs := 0 } := rfl
  rw [h0]
  generalize hf : feed { stopped := false, cbs := 0 } r.pre = f at hv hd hs
  obtain ⟨dn, vis, disp⟩ := f
  simp only at hv hd hs ⊢
  subst hv hd
  have hpre : r.toOp.pre = r.pre := rfl
  have hsub : r.toOp.sub = r.sub := rfl
  have hinit : r.toOp.init = r.init := rfl
  rw [loop_eq r sf bound (raw.length + 1) (raw.length + 1) _ (Or.inr (Or.inr sf.init_not_done)) (by simp) (by simp)]
  simp only [Op.sem, hpre, hsub, hinit, Fut, hs]
  cases hT : hasTerminal r.pre
  · rw [cut_append_of_no_terminal _ _ hT, cut_of_no_terminal _ hT]
    cases hsb : r.sub <;> simp [disposeAdo, Ado.step]
  · simp [cut_append_of_terminal _ _ hT]

end Ops

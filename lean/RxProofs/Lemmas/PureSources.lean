import RxModel.PureSources
/-! Helper lemmas for C37 (source factories): closed form of the range length, and the per-producer
`chainFrom` unfolding lemmas (induction over the number of scheduled actions). -/
open Pure.Sources
namespace Pure.Sources

/-! ### range -/
theorem pyLen_pos_spec (lo hi step : Int) (hs : 0 < step) (i : Nat) :
    i < pyLen lo hi step ↔ lo + (i : Int) * step < hi := by
  unfold pyLen
  by_cases hlt : lo < hi
  · rw [if_pos ⟨hs, hlt⟩]
    have hnn : 0 ≤ (hi - lo - 1) / step := Int.ediv_nonneg (by omega) (by omega)
    have key : (i : Int) ≤ (hi - lo - 1) / step ↔ (i : Int) * step ≤ hi - lo - 1 :=
      Int.le_ediv_iff_mul_le hs
    constructor
    · intro h
      have : (i : Int) ≤ (hi - lo - 1) / step := by omega
      have := key.1 this
      omega
    · intro h
      have : (i : Int) * step ≤ hi - lo - 1 := by omega
      have := key.2 this
      omega
  · have h2 : ¬ (0 < step ∧ lo < hi) := fun h => hlt h.2
    have h3 : ¬ (step < 0 ∧ hi < lo) := fun h => by omega
    rw [if_neg h2, if_neg h3]
    have : 0 ≤ (i : Int) * step := Int.mul_nonneg (by omega) (by omega)
    constructor
    · intro h; omega
    · intro h; omega

theorem pyLen_neg (lo hi step : Int) (hs : step < 0) : pyLen lo hi step = pyLen (-lo) (-hi) (-step) := by
  unfold pyLen
  have h1 : ¬ (0 < step ∧ lo < hi) := fun h => by omega
  have h2 : ¬ (- step < 0 ∧ -hi < -lo) := fun h => by omega
  rw [if_neg h1]
  by_cases h : hi < lo
  · rw [if_pos ⟨hs, h⟩, if_pos ⟨by omega, by omega⟩]
    congr 2; congr 1; omega
  · rw [if_neg (fun hh => h hh.2), if_neg (fun hh => h (by omega)), if_neg h2]

theorem pyLen_spec' (lo hi step : Int) (i : Nat) :
    i < pyLen lo hi step ↔
      (0 < step ∧ lo + (i : Int) * step < hi) ∨ (step < 0 ∧ hi < lo + (i : Int) * step) := by
  rcases Int.lt_trichotomy step 0 with hs | hs | hs
  · rw [pyLen_neg lo hi step hs, pyLen_pos_spec (-lo) (-hi) (-step) (by omega) i]
    have : (i : Int) * -step = -((i : Int) * step) := Int.mul_neg _ _
    constructor
    · intro h; right; exact ⟨hs, by omega⟩
    · rintro (h | h)
      · omega
      · omega
  · subst hs
    simp [pyLen]
  · rw [pyLen_pos_spec lo hi step hs i]
    constructor
    · intro h; left; exact ⟨hs, h⟩
    · rintro (h | h)
      · exact h.2
      · omega

theorem range_chainFrom (lo hi step : Int) (k : Nat) (cur : Int) (n : Nat) (hn : k + 1 ≤ n) (t : Int) :
    chainFrom (rangeP lo hi step) n t (cur, k, step) =
      ((List.range k).map (fun (i : Nat) => (t, Notif.next (cur + (i : Int) * step)))) ++ [(t, .completed)] := by
  induction k generalizing cur n with
  | zero =>
    obtain ⟨m, rfl⟩ : ∃ m, n = m + 1 := ⟨n - 1, by omega⟩
    simp [chainFrom, rangeP]
  | succ k ih =>
    obtain ⟨m, rfl⟩ : ∃ m, n = m + 1 := ⟨n - 1, by omega⟩
    have := ih (cur + step) m (by omega)
    simp only [chainFrom, rangeP, wait, Int.add_zero] at this ⊢
    rw [this, List.range_succ_eq_map]
    simp only [List.map_cons, List.map_map, List.cons_append, List.nil_append,
      Int.natCast_zero, Int.zero_mul, Int.add_zero, List.map_nil]
    congr 2
    apply List.map_congr_left
    intro i _
    simp only [Function.comp, Nat.succ_eq_add_one, Int.natCast_add, Int.natCast_one, Int.add_mul, Int.one_mul]
    congr 2
    omega

theorem range_chain (lo hi step : Int) (n : Nat) (hn : pyLen lo hi step + 1 ≤ n) (t : Int) :
    chain (rangeP lo hi step) n t =
      (pyRange lo hi step).map (fun x => (t, Notif.next x)) ++ [(t, .completed)] := by
  simp only [chain, rangeP, wait, Int.add_zero]
  have := range_chainFrom lo hi step (pyLen lo hi step) lo n hn t
  simp only [rangeP] at this
  rw [this, pyRange, List.map_map]
  rfl

/-! ### generate -/
theorem generate_chainFrom {α} (f : GenFns α) (init : α) (n : Nat) (t : Int) (s : α) :
    chainFrom (generateP init f) n t (true, s) = (whileLoop f n s).map (fun x => (t, x)) ∧
    chainFrom (generateP init f) n t (false, s) =
      (match n with
       | 0 => []
       | _ + 1 =>
         match f.iter s with
         | .error e => [(t, Notif.error e)]
         | .ok s' => (whileLoop f n s').map (fun x => (t, x))) := by
  induction n generalizing s with
  | zero => simp [chainFrom, whileLoop]
  | succ n ih =>
    have hW : ∀ s, chainFrom (generateP init f) (n + 1) t (true, s) = (whileLoop f (n + 1) s).map (fun x => (t, x)) := by
      intro s
      simp only [chainFrom, generateP, whileLoop, if_true]
      cases hc : f.cond s with
      | error e => simp
      | ok b =>
        cases b with
        | false => simp
        | true =>
          have := (ih s).2
          simp only [generateP] at this
          simp only [wait, Int.add_zero, List.map_cons, List.map_nil, List.cons_append, List.nil_append, this]
          cases n with
          | zero => simp
          | succ m =>
            simp only
            cases f.iter s <;> simp
    refine ⟨hW s, ?_⟩
    simp only
    cases hi : f.iter s with
    | error e => simp [chainFrom, generateP, hi]
    | ok s' =>
      have := hW s'
      simp only [chainFrom, generateP, whileLoop, if_true] at this
      simp only [chainFrom, generateP, whileLoop, hi, Bool.false_eq_true, if_false]
      exact this

/-! ### generate_with_relative_time -/
theorem gwrt_chainFrom {α} (f : GenFns α) (tm : α → Except Err Int) (init : α) (n : Nat) (t : Int) (s r0 : α) :
    chainFrom (gwrtP init f tm) n t ⟨true, s, false, r0⟩ = delayLoop f tm n t s ∧
    chainFrom (gwrtP init f tm) n t ⟨false, s, true, s⟩ =
      (match n with
       | 0 => []
       | _ + 1 =>
         (t, Notif.next s) ::
           match f.iter s with
           | .error e => [(t, Notif.error e)]
           | .ok s' => delayLoop f tm n t s') := by
  induction n generalizing s t r0 with
  | zero => simp [chainFrom, delayLoop]
  | succ n ih =>
    -- the part shared by both: from a freshly computed state `s` (emission prefix `pre` already out)
    have hW : ∀ (t : Int) (s r0 : α),
        chainFrom (gwrtP init f tm) (n + 1) t ⟨true, s, false, r0⟩ = delayLoop f tm (n + 1) t s := by
      intro t s r0
      simp only [chainFrom, gwrtP, gwrtStep, delayLoop, if_true, Bool.false_eq_true, if_false, List.nil_append]
      cases hc : f.cond s with
      | error e => simp
      | ok b =>
        cases b with
        | false => simp
        | true =>
          cases ht : tm s with
          | error e => simp
          | ok d =>
            have := (ih (t + wait (some d)) s s).2
            simp only [gwrtP] at this
            simp only [Bool.true_eq_false, and_false, if_false, List.map_nil, List.nil_append, this]
            cases n with
            | zero => rfl
            | succ m => rfl
    refine ⟨hW t s r0, ?_⟩
    simp only
    have h2 := hW
    simp only [chainFrom, gwrtP, gwrtStep, delayLoop, if_true, Bool.false_eq_true, if_false, List.nil_append] at h2
    simp only [chainFrom, gwrtP, gwrtStep, if_true, Bool.false_eq_true, if_false]
    cases hi : f.iter s with
    | error e => simp
    | ok s' =>
      have h3 := h2 t s' s'
      simp only [delayLoop]
      cases hc : f.cond s' with
      | error e => simp
      | ok b =>
        cases b with
        | false => simp
        | true =>
          cases ht : tm s' with
          | error e => simp
          | ok d =>
            simp only [hc, ht] at h3
            simp only [Bool.true_eq_false, and_false, if_false, List.map_cons, List.map_nil,
              List.cons_append, List.nil_append] at h3 ⊢
            rw [h3]

theorem gwrt_chain {α} (f : GenFns α) (tm : α → Except Err Int) (init : α) (n : Nat) (t : Int) :
    chain (gwrtP init f tm) n t = delayLoop f tm n t init := by
  have := (gwrt_chainFrom f tm init n t init init).1
  simp only [chain, gwrtP, wait, Int.lt_irrefl, if_false, Int.add_zero] at this ⊢
  exact this

theorem gwrtStep_no_escape {α} (f : GenFns α) (tm : α → Except Err Int) (q : State4 α) :
    (gwrtStep f tm true q).escapes = none := by
  simp only [gwrtStep]
  split
  · rfl
  · split
    · rfl
    · rfl
    · split
      · rfl
      · simp

/-! ### repeat_value -/
theorem repeat_chainFrom {α} (v : α) (count : Option Int) (k : Nat) (n : Nat) (hn : 2 * k + 1 ≤ n) (t : Int) :
    chainFrom (repeatValueP v count) n t (.outer (some k)) =
      List.replicate k (t, Notif.next v) ++ [(t, .completed)] := by
  induction k generalizing n with
  | zero =>
    obtain ⟨m, rfl⟩ : ∃ m, n = m + 1 := ⟨n - 1, by omega⟩
    simp [chainFrom, repeatValueP]
  | succ k ih =>
    obtain ⟨m, rfl⟩ : ∃ m, n = m + 2 := ⟨n - 2, by omega⟩
    have := ih m (by omega)
    simp only [repeatValueP] at this
    simp only [chainFrom, repeatValueP, wait, Int.add_zero, List.map_nil, List.nil_append, List.map_cons,
      List.cons_append, this, List.replicate_succ]

theorem repeat_forever_chainFrom {α} (v : α) (count : Option Int) (m : Nat) (t : Int) :
    chainFrom (repeatValueP v count) (2 * m) t (.outer none) = List.replicate m (t, Notif.next v) := by
  induction m with
  | zero => simp [chainFrom]
  | succ m ih =>
    have : 2 * (m + 1) = 2 * m + 2 := by omega
    rw [this]
    simp only [repeatValueP] at ih
    simp only [chainFrom, repeatValueP, wait, Int.add_zero, List.map_nil, List.nil_append, List.map_cons,
      List.cons_append, ih, List.replicate_succ]


/-! ## the virtual-time run vs the isolated chain -/


/-- terminal notifications only in last position -/
def wfEmits {α} : List (Notif α) → Bool
  | [] => true
  | [_] => true
  | x :: y :: r => !x.isTerminal && wfEmits (y :: r)

def endsTerm {α} : List (Notif α) → Bool
  | [] => false
  | [x] => x.isTerminal
  | _ :: y :: r => endsTerm (y :: r)

theorem deliver_wf {α} (t : Int) (emits : List (Notif α)) (h : wfEmits emits = true) :
    Sim.deliver t false emits = (endsTerm emits, emits.map (fun x => (t, x))) := by
  induction emits with
  | nil => rfl
  | cons x r ih =>
    cases r with
    | nil => simp [Sim.deliver, endsTerm]
    | cons y r' =>
      simp only [wfEmits, Bool.and_eq_true, Bool.not_eq_true'] at h
      have := ih h.2
      simp only [Sim.deliver, h.1, this, endsTerm, List.map_cons]

/-- the run from this action on is "quiet": every action runs strictly before the dispose time, the
scheduler's spin counter (`k` = its value when this action is dequeued, after a possible reset) never
exceeds 100, no exception escapes, emissions are well-formed, and the chain ends within `n` actions. -/
def quiet {σ α} (P : Producer σ α) (disp : Int) : Nat → Int → Nat → σ → Bool
  | 0, _, _, _ => false
  | n + 1, t, k, s =>
    let r := P.step s
    decide (t < disp) && decide (k ≤ 100) && r.escapes.isNone && wfEmits r.emits &&
      (match r.next with
       | none => true
       | some (s', d) =>
         !endsTerm r.emits &&
           quiet P disp n (t + wait d) (if t + d.getD 0 > t then 0 else k + 1) s')

theorem wait_eq (t : Int) (d : Option Int) : t + wait d = if t + d.getD 0 > t then t + d.getD 0 else t := by
  cases d with
  | none => simp [wait]
  | some d =>
    simp only [wait, Option.getD_some]
    by_cases h : d > 0
    · have : t + d > t := by omega
      simp [h, this]
    · have : ¬ (t + d > t) := by omega
      simp [h, this]

open Sim in
theorem run_disp_only {σ α} (P : Producer σ α) (fuel : Nat) (st : St σ α) (disp : Int)
    (hq : st.queue = [(disp, .disp)]) : (run P fuel st).out = st.out := by
  cases fuel with
  | zero => rfl
  | succ f =>
    simp only [run, hq]
    cases f with
    | zero => rfl
    | succ f' => simp [run]

open Sim in
theorem run_prod {σ α} (P : Producer σ α) (disp : Int) (n : Nat) :
    ∀ (fuel : Nat) (c : Int) (k : Nat) (due : Int) (s : σ) (o : List (Int × Notif α)),
      quiet P disp n (if due > c then due else c) (if due > c then 0 else k) s = true →
      n + 1 ≤ fuel →
      (run P fuel { clock := c, spin := k, queue := [(due, .prod s), (disp, .disp)], subscribed := true,
                    stopped := false, out := o, escaped := none }).out
        = o ++ chainFrom P n (if due > c then due else c) s := by
  induction n with
  | zero => intro fuel c k due s o hq; simp [quiet] at hq
  | succ n ih =>
    intro fuel c k due s o hq hf
    obtain ⟨f, rfl⟩ : ∃ f, fuel = f + 1 := ⟨fuel - 1, by omega⟩
    simp only [quiet, Bool.and_eq_true, decide_eq_true_eq, Option.isNone_iff_eq_none] at hq
    obtain ⟨⟨⟨⟨ht, hk⟩, hesc⟩, hwf⟩, hnext⟩ := hq
    -- the dequeue: clock and spin
    have hclock : (if due > c then (due, 0) else if k > 100 then (c + 1, 0) else (c, k)) =
        ((if due > c then due else c), (if due > c then 0 else k)) := by
      by_cases h : due > c
      · simp [h]
      · simp only [h, if_false] at hk ⊢
        have : ¬ k > 100 := by omega
        simp [this]
    simp only [run, hclock, Bool.false_eq_true, if_false, deliver_wf _ _ hwf, hesc, chainFrom]
    generalize ht' : (if due > c then due else c) = t at *
    generalize hk' : (if due > c then 0 else k) = k' at *
    cases hn : (P.step s).next with
    | none =>
      simp only [hn] at hnext ⊢
      have : (if endsTerm (P.step s).emits = true then [(disp, Act.disp)] else schedule t [(disp, Act.disp)] (none : Option (σ × Option Int))) = [(disp, Act.disp)] := by
        split <;> rfl
      rw [this, run_disp_only P f _ disp rfl]
      simp
    | some sd =>
      obtain ⟨s', d⟩ := sd
      simp only [hn, Bool.and_eq_true, Bool.not_eq_true'] at hnext ⊢
      obtain ⟨hnt, hq'⟩ := hnext
      simp only [hnt, Bool.false_eq_true, if_false, schedule]
      -- the next item is due before the dispose action
      have hq'' := hq'
      rw [wait_eq] at hq''
      have hdue : t + d.getD 0 < disp := by
        cases n with
        | zero => simp [quiet] at hq''
        | succ m =>
          simp only [quiet, Bool.and_eq_true, decide_eq_true_eq] at hq''
          have := hq''.1.1.1.1
          split at this <;> omega
      have henq : enqueue [(disp, Act.disp)] (t + d.getD 0, (Act.prod s' : Act σ)) =
          [(t + d.getD 0, Act.prod s'), (disp, Act.disp)] := by
        simp [enqueue, hdue]
      rw [henq]
      have := ih f t (k' + 1) (t + d.getD 0) s' (o ++ List.map (fun x => (t, x)) (P.step s).emits) hq'' (by omega)
      rw [this, wait_eq, List.append_assoc]

open Sim in
/-- the recorded run equals the producer's isolated chain when the run is quiet -/
theorem record_eq_chain {σ α} (P : Producer σ α) (n fuel : Nat) (sub disp : Int) (h0 : 0 ≤ sub) (hlt : sub < disp)
    (hq : match P.first with
          | none => True
          | some (s, d) => quiet P disp n (sub + wait d) (if sub + d.getD 0 > sub then 0 else 1) s = true)
    (hf : n + 2 ≤ fuel) :
    (record P fuel sub disp).out = chain P n sub := by
  obtain ⟨f, rfl⟩ : ∃ f, fuel = f + 1 := ⟨fuel - 1, by omega⟩
  have hq0 : enqueue (enqueue ([] : List (Int × Act σ)) (disp, .disp)) (sub, .sub) = [(sub, .sub), (disp, .disp)] := by
    simp [enqueue, hlt]
  have hclock : (if sub > 0 then (sub, 0) else if (0 : Nat) > 100 then ((0 : Int) + 1, 0) else ((0 : Int), (0 : Nat))) = (sub, 0) := by
    by_cases h : sub > 0
    · simp [h]
    · have : sub = 0 := by omega
      subst this; simp
  simp only [record, hq0, run, hclock, chain]
  cases hfirst : P.first with
  | none =>
    simp only [schedule]
    rw [run_disp_only P f _ disp rfl]
  | some sd =>
    obtain ⟨s, d⟩ := sd
    simp only [hfirst] at hq
    rw [wait_eq] at hq
    have hdue : sub + d.getD 0 < disp := by
      cases n with
      | zero => simp [quiet] at hq
      | succ m =>
        simp only [quiet, Bool.and_eq_true, decide_eq_true_eq] at hq
        have := hq.1.1.1.1
        split at this <;> omega
    have henq : enqueue [(disp, Act.disp)] (sub + d.getD 0, (Act.prod s : Act σ)) =
        [(sub + d.getD 0, Act.prod s), (disp, Act.disp)] := by
      simp [enqueue, hdue]
    simp only [schedule, henq]
    have := run_prod P disp n f sub (0 + 1) (sub + d.getD 0) s [] hq (by omega)
    rw [wait_eq]
    simpa using this


/-! ## the virtual-time run in general: dispose cut and spin limit -/


/-- the producer's chain as the virtual-time scheduler really runs it next to the harness' dispose
action: an action due at or after `disp` never runs (the dispose goes first and cancels it); the
clock moves to the due time, or by one after more than 100 consecutive same-instant items (`k` is
the spin counter); emissions pass the AutoDetachObserver. -/
def chainSpin {σ α} (P : Producer σ α) (disp : Int) : Nat → Int → Nat → Int → σ → List (Int × Notif α)
  | 0, _, _, _, _ => []
  | n + 1, c, k, due, s =>
    if due < disp then
      let tk : Int × Nat := if due > c then (due, 0) else if k > 100 then (c + 1, 0) else (c, k)
      let r := P.step s
      let so := Sim.deliver tk.1 false r.emits
      so.2 ++
        (match r.escapes with
         | some _ => []
         | none =>
           if so.1 then []
           else
             match r.next with
             | none => []
             | some (s', d) => chainSpin P disp n tk.1 (tk.2 + 1) (tk.1 + d.getD 0) s')
    else []

open Sim in
theorem run_disp_first {σ α} (P : Producer σ α) (fuel : Nat) (c : Int) (k : Nat) (disp due : Int) (s : σ)
    (o : List (Int × Notif α)) :
    (run P fuel { clock := c, spin := k, queue := [(disp, .disp), (due, .prod s)], subscribed := true,
                  stopped := false, out := o, escaped := none }).out = o := by
  cases fuel with
  | zero => rfl
  | succ f =>
    simp only [run]
    cases f with
    | zero => rfl
    | succ f' =>
      simp only [run, Bool.or_true, if_true]
      cases f' <;> simp [run]

open Sim in
theorem run_general {σ α} (P : Producer σ α) (disp : Int) (fuel : Nat) :
    ∀ (c : Int) (k : Nat) (due : Int) (s : σ) (o : List (Int × Notif α)),
      (run P fuel { clock := c, spin := k, queue := enqueue [(disp, .disp)] (due, .prod s), subscribed := true,
                    stopped := false, out := o, escaped := none }).out
        = o ++ chainSpin P disp fuel c k due s := by
  induction fuel with
  | zero => intro c k due s o; simp [run, chainSpin]
  | succ f ih =>
    intro c k due s o
    by_cases hd : due < disp
    · have henq : enqueue [(disp, Act.disp)] (due, (Act.prod s : Act σ)) = [(due, Act.prod s), (disp, Act.disp)] := by
        simp [enqueue, hd]
      rw [henq]
      simp only [run, chainSpin, hd, if_true, Bool.false_eq_true, if_false]
      generalize htk : (if due > c then (due, 0) else if k > 100 then (c + 1, 0) else (c, k) : Int × Nat) = tk
      obtain ⟨t, k'⟩ := tk
      simp only
      generalize hso : deliver t false (P.step s).emits = so
      obtain ⟨stopped, o'⟩ := so
      simp only
      cases hesc : (P.step s).escapes with
      | some e => simp
      | none =>
        simp only
        cases stopped with
        | true =>
          simp only [if_true]
          rw [run_disp_only P f _ disp rfl]; simp
        | false =>
          simp only [Bool.false_eq_true, if_false]
          cases hn : (P.step s).next with
          | none =>
            simp only [schedule]
            rw [run_disp_only P f _ disp rfl]; simp
          | some sd =>
            obtain ⟨s', d⟩ := sd
            simp only [schedule]
            rw [ih t (k' + 1) (t + d.getD 0) s' (o ++ o'), List.append_assoc]
    · have henq : enqueue [(disp, Act.disp)] (due, (Act.prod s : Act σ)) = [(disp, Act.disp), (due, Act.prod s)] := by
        simp [enqueue, hd]
      rw [henq, run_disp_first P (f + 1) c k disp due s o]
      simp [chainSpin, hd]

open Sim in
/-- the recording in general: subscribe at `0 ≤ sub < disp`, any fuel, dispose cut and spin included -/
theorem record_eq_chainSpin {σ α} (P : Producer σ α) (fuel : Nat) (sub disp : Int) (h0 : 0 ≤ sub) (hlt : sub < disp) :
    (record P (fuel + 1) sub disp).out =
      match P.first with
      | none => []
      | some (s, d) => chainSpin P disp fuel sub 1 (sub + d.getD 0) s := by
  have hq0 : enqueue (enqueue ([] : List (Int × Act σ)) (disp, .disp)) (sub, .sub) = [(sub, .sub), (disp, .disp)] := by
    simp [enqueue, hlt]
  have hclock : (if sub > 0 then (sub, 0) else if (0 : Nat) > 100 then ((0 : Int) + 1, 0) else ((0 : Int), (0 : Nat))) = (sub, 0) := by
    by_cases h : sub > 0
    · simp [h]
    · have : sub = 0 := by omega
      subst this; simp
  simp only [record, hq0, run, hclock]
  cases hfirst : P.first with
  | none =>
    simp only [schedule]
    rw [run_disp_only P fuel _ disp rfl]
  | some sd =>
    obtain ⟨s, d⟩ := sd
    simp only [schedule]
    have := run_general P disp fuel sub (0 + 1) (sub + d.getD 0) s []
    simpa using this

/-- producers whose actions emit a terminal only last, and never re-schedule after one -/
def WFP {σ α} (P : Producer σ α) : Prop :=
  ∀ s, wfEmits (P.step s).emits = true ∧ (endsTerm (P.step s).emits = true → (P.step s).next = none)

/-- dispose and spin never change WHAT is delivered, only when and how much: the notifications of
the scheduler-run chain are a prefix of those of the isolated chain -/
theorem chainSpin_prefix {σ α} (P : Producer σ α) (hP : WFP P) (disp : Int) (n : Nat) :
    ∀ (c : Int) (k : Nat) (due t : Int) (s : σ),
      ((chainSpin P disp n c k due s).map (·.2)) <+: ((chainFrom P n t s).map (·.2)) := by
  induction n with
  | zero => intro c k due t s; simp [chainSpin, chainFrom]
  | succ n ih =>
    intro c k due t s
    simp only [chainSpin, chainFrom]
    split
    · obtain ⟨hwf, hterm⟩ := hP s
      rw [deliver_wf _ _ hwf]
      simp only [List.map_append, List.map_map]
      have e1 : (List.map ((fun x => x.2) ∘ fun x => (((if due > c then (due, 0) else if k > 100 then (c + 1, 0) else (c, k)) : Int × Nat).1, x)) (P.step s).emits)
          = (P.step s).emits := by simp [Function.comp_def]
      have e2 : (List.map ((fun x => x.2) ∘ fun x => (t, x)) (P.step s).emits) = (P.step s).emits := by
        simp [Function.comp_def]
      rw [e1, e2]
      apply List.prefix_append_right_inj _ |>.2
      cases hesc : (P.step s).escapes with
      | some e => simp
      | none =>
        simp only
        cases hend : endsTerm (P.step s).emits with
        | true => simp [hterm hend]
        | false =>
          simp only [Bool.false_eq_true, if_false]
          cases hn : (P.step s).next with
          | none => simp
          | some sd => obtain ⟨s', d⟩ := sd; exact ih _ _ _ _ _
    · simp

theorem wfp_range (lo hi st : Int) : WFP (rangeP lo hi st) := by
  intro ⟨cur, left, step⟩
  cases left <;> simp [rangeP, wfEmits, endsTerm, Notif.isTerminal]

theorem wfp_generate {α} (init : α) (f : GenFns α) : WFP (generateP init f) := by
  intro ⟨first, state⟩
  simp only [generateP]
  split
  · simp [wfEmits, endsTerm, Notif.isTerminal]
  · split <;> simp [wfEmits, endsTerm, Notif.isTerminal]

theorem wfp_gwrt {α} (init : α) (f : GenFns α) (tm : α → Except Err Int) : WFP (gwrtP init f tm) := by
  intro q
  simp only [gwrtP, gwrtStep]
  cases q.hasResult <;> simp only [Bool.false_eq_true, if_false, if_true, List.nil_append, List.cons_append] <;>
    (split
     · simp [wfEmits, endsTerm, Notif.isTerminal]
     · split
       · simp [wfEmits, endsTerm, Notif.isTerminal]
       · simp [wfEmits, endsTerm, Notif.isTerminal]
       · split
         · simp [wfEmits, endsTerm, Notif.isTerminal]
         · simp [wfEmits, endsTerm, Notif.isTerminal])

theorem wfp_timer (d : Int) : WFP (timerP d) := by
  intro s; simp [timerP, wfEmits, endsTerm, Notif.isTerminal]

theorem wfp_repeat {α} (v : α) (count : Option Int) : WFP (repeatValueP v count) := by
  intro s
  cases s with
  | outer l =>
    cases l with
    | none => simp [repeatValueP, wfEmits, endsTerm]
    | some k => cases k <;> simp [repeatValueP, wfEmits, endsTerm, Notif.isTerminal]
  | inner l => simp [repeatValueP, wfEmits, endsTerm, Notif.isTerminal]

end Pure.Sources

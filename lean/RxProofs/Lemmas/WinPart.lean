import RxProofs.Lemmas.WinCount
import RxModel.WinBuf
/-!
# The routing specification (`Win.routed`) and its proof for each window machine.
-/
namespace Win
variable {σ α : Type}

/-- what one event contributes to window `id` according to the routing specification. -/
def delta (base : σ → Base α) (openOf : σ → List Nat) (s : σ) (e : Ev α) (id : Nat) : List α :=
  match e with
  | .src 0 (.next x) =>
    if (base s).live.contains 0 ∧ id ∈ openOf s ∧ id < (base s).wins.length ∧ (base s).endedOf id = none then [x] else []
  | _ => []

theorem routed_cons (m : Mach σ α) (base : σ → Base α) (openOf : σ → List Nat) (s : σ) (t : Nat) (e : Ev α)
    (es : List (Nat × Ev α)) (id : Nat) :
    routed m base openOf s ((t, e) :: es) id = delta base openOf s e id ++ routed m base openOf (m.step s t e) es id := by
  cases e with
  | src k n => cases k <;> cases n <;> rfl
  | dispose w => rfl
  | tick => rfl

theorem partition_of_step (m : Mach σ α) (base : σ → Base α) (openOf : σ → List Nat) (Good : σ → Prop)
    (hgood : ∀ s t e, Good s → Good (m.step s t e))
    (hdelta : ∀ s t e id, Good s → (base (m.step s t e)).pushedOf id = (base s).pushedOf id ++ delta base openOf s e id) :
    ∀ (evs : List (Nat × Ev α)) (s : σ) (id : Nat), Good s →
      (base (m.fold s evs)).pushedOf id = (base s).pushedOf id ++ routed m base openOf s evs id := by
  intro evs
  induction evs with
  | nil => intro s id _; simp [Mach.fold, routed]
  | cons te es ih =>
    intro s id hg
    obtain ⟨t, e⟩ := te
    have := ih (m.step s t e) id (hgood s t e hg)
    simp only [Mach.fold, List.foldl_cons] at this ⊢
    rw [this, hdelta s t e id hg, routed_cons, List.append_assoc]

/-! ### window_with_count_ -/
namespace Cnt

def Good (s : Cnt α) : Prop := s.q.Nodup ∧ ∀ id ∈ s.q, id < s.b.wins.length

theorem fin_q_len (skip : Nat) (s : Cnt α) (hg : Good s) : Good (fin skip s) := by
  unfold fin; split
  · refine ⟨?_, ?_⟩
    · rw [createWindow_q]
      refine List.nodup_append.mpr ⟨hg.1, by simp, ?_⟩
      intro a ha b hb; simp at hb; subst hb
      have := hg.2 a ha; omega
    · intro id hid; rw [createWindow_q] at hid; rw [createWindow_len]
      rcases List.mem_append.mp hid with h | h
      · have := hg.2 id h; omega
      · simp at h; omega
  · exact hg

theorem fin_pushedOf (skip : Nat) (s : Cnt α) (j) : (fin skip s).b.pushedOf j = s.b.pushedOf j := by
  unfold fin; split <;> simp

theorem good_onNext (count skip : Nat) (s : Cnt α) (x : α) (hg : Good s) : Good (onNext count skip s x) := by
  rw [onNext_eq]; split
  · cases hq : s.q with
    | nil => simp only []; exact ⟨by simp, by simp⟩
    | cons id q' =>
      simp only []
      apply fin_q_len
      have hnd := hg.1; rw [hq] at hnd
      refine ⟨(List.nodup_cons.mp hnd).2, ?_⟩
      intro i hi
      have := hg.2 i (by rw [hq]; exact List.mem_cons_of_mem _ hi)
      simpa using this
  · apply fin_q_len
    exact ⟨hg.1, fun i hi => by simpa using hg.2 i hi⟩

theorem pushedOf_onNext (count skip : Nat) (s : Cnt α) (x : α) (hg : Good s) (j : Nat) :
    (onNext count skip s x).b.pushedOf j =
      if j ∈ s.q ∧ j < s.b.wins.length ∧ s.b.endedOf j = none then s.b.pushedOf j ++ [x] else s.b.pushedOf j := by
  rw [onNext_eq]; split
  · cases hq : s.q with
    | nil => simp
    | cons id q' =>
      simp only []
      rw [fin_pushedOf]; simp only [Base.pushedOf_winEnd]
      rw [← hq, Base.pushedOf_foldl_winNext _ hg.1]
  · rw [fin_pushedOf]; simp only []
    rw [Base.pushedOf_foldl_winNext _ hg.1]

theorem onEnd_q (s : Cnt α) (e) : (onEnd s e).q = [] := rfl
theorem onEnd_pushedOf (s : Cnt α) (e j) : (onEnd s e).b.pushedOf j = s.b.pushedOf j := by
  simp [onEnd, (Base.foldl_winEnd s.q e s.b).2.1]
theorem onEnd_len (s : Cnt α) (e) : (onEnd s e).b.wins.length = s.b.wins.length := by
  simp [onEnd, (Base.foldl_winEnd s.q e s.b).1]

theorem good_step (count skip : Nat) (s : Cnt α) (t : Nat) (e : Ev α) (hg : Good s) :
    Good ((Cnt.mach count skip).step s t e) := by
  have hg' : Good ({ s with b := { s.b with now := t } } : Cnt α) := hg
  simp only [mach]
  cases e with
  | src k n =>
    cases k with
    | zero =>
      simp only [step]; split
      · cases n with
        | next x => exact good_onNext _ _ _ _ hg'
        | error e => exact ⟨by simp [onEnd_q], by simp [onEnd_q]⟩
        | completed => exact ⟨by simp [onEnd_q], by simp [onEnd_q]⟩
      · exact hg'
    | succ k => exact hg'
  | dispose w => exact ⟨hg.1, fun i hi => by simpa [step] using hg.2 i hi⟩
  | tick => exact hg'

theorem delta_step (count skip : Nat) (s : Cnt α) (t : Nat) (e : Ev α) (id : Nat) (hg : Good s) :
    ((Cnt.mach count skip).step s t e).b.pushedOf id =
      s.b.pushedOf id ++ delta (fun s : Cnt α => s.b) (fun s => s.q) s e id := by
  have hg' : Good ({ s with b := { s.b with now := t } } : Cnt α) := hg
  simp only [mach]
  cases e with
  | src k n =>
    cases k with
    | zero =>
      simp only [step]
      by_cases hl : s.b.live.contains 0 = true
      · have hl' : ({ s with b := { s.b with now := t } } : Cnt α).b.live.contains 0 = true := hl
        rw [if_pos hl']
        cases n with
        | next x =>
          rw [pushedOf_onNext _ _ _ _ hg']; simp only [delta, hl, true_and]
          split <;> simp_all
        | error e => simp [delta, onEnd_pushedOf]
        | completed => simp [delta, onEnd_pushedOf]
      · have hl' : ¬ ({ s with b := { s.b with now := t } } : Cnt α).b.live.contains 0 = true := hl
        rw [if_neg hl']
        have hl2 : ¬ (0 ∈ s.b.live) := by simpa using hl
        cases n with
        | next x => simp [delta, hl2]
        | error e => simp [delta]
        | completed => simp [delta]
    | succ k => simp [step, delta]
  | dispose w => simp [step, delta]
  | tick => simp [step, delta]

end Cnt
end Win

import RxProofs.Lemmas.VtsC42c
/-! Helper lemmas and definitions for C42 (CatchScheduler): the "everything is wrapped" invariant, lifting of
`invoke` facts to loop iterations, and the erasure bisimulation at loop/script level. -/

namespace Vts
/-- if the loop ends with an exception, some reachable state (satisfying the invariant) raised it -/
theorem loop_raised_inv {cfg : Cfg} {tgt : Option Int} {φ : Step → Prop} {P : St → Prop} {R : Item → St → Prop}
    (I : IterInv cfg tgt φ P R) : ∀ (s : St), P s → QAll φ s → ∀ s' e, loop cfg tgt s = (s', .raised e) →
      ∃ s1, P s1 ∧ QAll φ s1 ∧ iter cfg tgt s1 = .raised s' e := by
  intro s
  induction hn : s.queue.nodes using Nat.strongRecOn generalizing s with
  | _ n ih =>
    intro hP hQ s' e h
    rw [loop_unfold] at h
    cases hi : iter cfg tgt s with
    | exit s1 => rw [hi] at h; simp at h
    | next x s1 =>
      rw [hi] at h
      have := iter_inv I s hP hQ
      rw [hi] at this
      exact ih _ (by subst hn; exact iter_next_nodes hi) s1 rfl this.1 this.2 s' e h
    | raised s1 e1 =>
      rw [hi] at h
      simp at h
      obtain ⟨rfl, rfl⟩ := h
      exact ⟨s, hP, hQ, hi⟩
    | stuck s1 => rw [hi] at h; simp at h
end Vts

namespace C42
open Vts

/-- actions never schedule on the raw inner scheduler (they use the scheduler handed to them, or the
outer CatchScheduler) -/
def viaCatch : Step → Prop
  | .sched via _ _ _ => via ≠ .inner
  | _ => True

/-- every pending action is a CatchScheduler `wrapped_action` -/
def AllWrapped (s : St) : Prop := ∀ e ∈ s.queue.items, e.1.wrapped = true

theorem allWrapped_iter (cfg : Cfg) (tgt : Option Int) :
    IterInv cfg tgt viaCatch AllWrapped (fun x s => x.wrapped = true ∧ AllWrapped s) where
  skip := by intro s x q' sp h _ _ hd _ _; exact fun e he => h e ((dequeue_mem hd).2 e he)
  begin := by
    intro s x q' sp h _ _ hd _ _
    obtain ⟨⟨c, hxc⟩, hq'⟩ := dequeue_mem hd
    exact ⟨h _ hxc, fun e he => h e (hq' e he)⟩
  enq := by
    intro x s via m t cid child hφ _ ⟨hx, h⟩
    refine ⟨hx, ?_⟩
    intro e he
    simp only [St.enqueue, PQ.enqueue, List.mem_append, List.mem_singleton] at he
    rcases he with he | rfl
    · exact h e he
    · simp only [viaCatch] at hφ
      cases via <;> simp_all [childWrapped]
  cancel := by
    intro x s id ⟨hx, h⟩
    refine ⟨hx, ?_⟩
    intro e he
    simp only [St.cancel, List.mem_map] at he
    obtain ⟨e0, he0, rfl⟩ := he
    simp only [cancelEntry]
    split <;> simp [h e0 he0]
  link := by intro x s l h; exact h
  stop := by intro x s _ h; exact h
  sleep := by intro x s t _ _ h; exact h
  handled := by intro x s e _ _ h; exact h
  finish := by intro x s sp h; exact h.2

/-- what one iteration does once the queue has handed out an uncancelled item `x` that is not past the
target: it invokes `x` in the state `s1` produced by the clock update -/
theorem iter_invokes {cfg : Cfg} {tgt : Option Int} {s s1 : St} {x : Item} {q' : PQ Item}
    (hen : s.enabled = true) (hd : s.queue.dequeue? Item.due = some (x, q')) (hpt : pastTarget tgt x = false)
    (ht : tick cfg tgt s x q' = some s1) (hc : x.cancelled = false) :
    iter cfg tgt s =
      match invoke cfg x s1 with
      | (s', none) => .next x { s' with spin := if tgt.isNone then s'.spin + 1 else s'.spin }
      | (s', some e) => .raised s' e := by
  simp only [iter, hen, hd, hpt, ht, fin, hc]
  rcases invoke cfg x s1 with ⟨s', _ | e⟩ <;> simp

def trivInv (cfg : Cfg) (tgt : Option Int) (φ : Step → Prop) : IterInv cfg tgt φ (fun _ => True) (fun _ _ => True) where
  skip := by intros; trivial
  begin := by intros; trivial
  enq := by intros; trivial
  cancel := by intros; trivial
  link := by intro x s l h; exact h
  stop := by intros; trivial
  sleep := by intros; trivial
  handled := by intros; trivial
  finish := by intros; trivial

theorem loop_erase (cfg : Cfg) (tgt : Option Int) : ∀ (s s' : St), QAll noRaise s → eraseW s = eraseW s' →
    eraseW (loop cfg tgt s).1 = eraseW (loop cfg tgt s').1 ∧ (loop cfg tgt s).2 = (loop cfg tgt s').2 := by
  intro s
  induction hn : s.queue.nodes using Nat.strongRecOn generalizing s with
  | _ n ih =>
    intro s' hq h
    have hi := iter_erase cfg tgt s s' hq h
    rw [loop_unfold cfg tgt s, loop_unfold cfg tgt s']
    cases h1 : iter cfg tgt s with
    | exit a =>
      cases h2 : iter cfg tgt s' <;> rw [h1, h2] at hi <;> simp only [eraseIter] at hi <;> try cases hi
      injection hi with hi
      exact ⟨hi, rfl⟩
    | next x a =>
      cases h2 : iter cfg tgt s' <;> rw [h1, h2] at hi <;> simp only [eraseIter] at hi <;> try cases hi
      injection hi with _ hi
      have hq' := (iter_inv (trivInv cfg tgt noRaise) s trivial hq).2
      rw [h1] at hq'
      exact ih _ (by subst hn; exact iter_next_nodes h1) a rfl _ hq' hi
    | raised a e =>
      cases h2 : iter cfg tgt s' <;> rw [h1, h2] at hi <;> simp only [eraseIter] at hi <;> try cases hi
      injection hi with hi he
      subst he
      exact ⟨hi, rfl⟩
    | stuck a =>
      cases h2 : iter cfg tgt s' <;> rw [h1, h2] at hi <;> simp only [eraseIter] at hi <;> try cases hi
      injection hi with hi
      exact ⟨hi, rfl⟩

/-- the script with every top-level call made on the inner scheduler instead of the CatchScheduler -/
def unwrapOp : Op → Op
  | .sched _ m t id body => .sched false m t id body
  | op => op

theorem advanceTo_erase (cfg : Cfg) (T : Int) (s s' : St) (hq : QAll noRaise s) (h : eraseW s = eraseW s') :
    eraseW (advanceTo cfg T s).1 = eraseW (advanceTo cfg T s').1 ∧ (advanceTo cfg T s).2 = (advanceTo cfg T s').2 := by
  obtain ⟨h1, h3, h4, h5, h6, h7, h8, h2, hm⟩ := erase_fields h
  by_cases hgt : s.clock > T
  · have hgt' : s'.clock > T := h1 ▸ hgt
    simp only [advanceTo, if_pos hgt, if_pos hgt']; exact ⟨h, trivial⟩
  · have hgt' : ¬ s'.clock > T := h1 ▸ hgt
    by_cases hc : s.clock = T ∨ s.enabled = true
    · have hc' : s'.clock = T ∨ s'.enabled = true := by rw [← h1, ← h3]; exact hc
      simp only [advanceTo, if_neg hgt, if_neg hgt', if_pos hc, if_pos hc']; exact ⟨h, trivial⟩
    · have hc' : ¬ (s'.clock = T ∨ s'.enabled = true) := by rw [← h1, ← h3]; exact hc
      simp only [advanceTo, if_neg hgt, if_neg hgt', if_neg hc, if_neg hc']
      have hl := loop_erase cfg (some T) { s with enabled := true } { s' with enabled := true } hq
        (erase_mk h1 rfl h4 h5 h6 h7 h8 h2 hm)
      rcases e1 : loop cfg (some T) { s with enabled := true } with ⟨a, o⟩
      rcases e2 : loop cfg (some T) { s' with enabled := true } with ⟨a', o'⟩
      rw [e1, e2] at hl
      obtain ⟨hl1, hl2⟩ := hl
      simp only at hl1 hl2
      subst hl2
      obtain ⟨k1, k3, k4, k5, k6, k7, k8, k2, km⟩ := erase_fields hl1
      cases o with
      | ok => exact ⟨erase_mk rfl rfl k4 k5 k6 k7 k8 k2 km, rfl⟩
      | raised e => exact ⟨hl1, rfl⟩
      | stuck => exact ⟨hl1, rfl⟩

theorem start_erase (cfg : Cfg) (s s' : St) (hq : QAll noRaise s) (h : eraseW s = eraseW s') :
    eraseW (start cfg s).1 = eraseW (start cfg s').1 ∧ (start cfg s).2 = (start cfg s').2 := by
  obtain ⟨h1, h3, h4, h5, h6, h7, h8, h2, hm⟩ := erase_fields h
  by_cases hen : s.enabled = true
  · have hen' : s'.enabled = true := h3 ▸ hen
    simp only [start, if_pos hen, if_pos hen']; exact ⟨h, trivial⟩
  · have hen' : ¬ s'.enabled = true := h3 ▸ hen
    simp only [start, if_neg hen, if_neg hen']
    have hl := loop_erase cfg none { s with enabled := true, spin := 0 } { s' with enabled := true, spin := 0 } hq
      (erase_mk h1 rfl rfl h5 h6 h7 h8 h2 hm)
    rcases e1 : loop cfg none { s with enabled := true, spin := 0 } with ⟨a, o⟩
    rcases e2 : loop cfg none { s' with enabled := true, spin := 0 } with ⟨a', o'⟩
    rw [e1, e2] at hl
    obtain ⟨hl1, hl2⟩ := hl
    simp only at hl1 hl2
    subst hl2
    obtain ⟨k1, k3, k4, k5, k6, k7, k8, k2, km⟩ := erase_fields hl1
    cases o with
    | ok => exact ⟨erase_mk k1 rfl k4 k5 k6 k7 k8 k2 km, rfl⟩
    | raised e => exact ⟨hl1, rfl⟩
    | stuck => exact ⟨hl1, rfl⟩

theorem doOp_erase (cfg : Cfg) (s s' : St) (op : Op) (hq : QAll noRaise s) (hop : op.All noRaise)
    (h : eraseW s = eraseW s') :
    eraseW (doOp cfg s op).1 = eraseW (doOp cfg s' (unwrapOp op)).1 ∧ (doOp cfg s op).2 = (doOp cfg s' (unwrapOp op)).2 := by
  obtain ⟨h1, h3, h4, h5, h6, h7, h8, h2, hm⟩ := erase_fields h
  cases op with
  | sched w m t id body =>
    refine ⟨?_, rfl⟩
    show eraseW (s.enqueue id (dueOf s.clock m t) body w) = eraseW (s'.enqueue id (dueOf s'.clock m t) body false)
    rw [erase_enqueue, erase_enqueue, h, h1]
  | cancel id =>
    refine ⟨?_, rfl⟩
    show eraseW (s.dispose id) = eraseW (s'.dispose id)
    rw [erase_dispose, erase_dispose, h]
  | stop =>
    refine ⟨?_, rfl⟩
    show eraseW { s with enabled := false } = eraseW { s' with enabled := false }
    exact erase_mk h1 rfl h4 h5 h6 h7 h8 h2 hm
  | sleep t =>
    show eraseW (sleep t s).1 = eraseW (sleep t s').1 ∧ (sleep t s).2 = (sleep t s').2
    simp only [sleep]
    split
    · exact ⟨h, rfl⟩
    · exact ⟨erase_mk (by simp only [h1]) h3 h4 h5 h6 h7 h8 h2 hm, rfl⟩
  | start => exact start_erase cfg s s' hq h
  | advanceTo T => exact advanceTo_erase cfg T s s' hq h
  | advanceBy t =>
    show eraseW (advanceTo cfg (s.clock + t) s).1 = eraseW (advanceTo cfg (s'.clock + t) s').1 ∧
      (advanceTo cfg (s.clock + t) s).2 = (advanceTo cfg (s'.clock + t) s').2
    rw [← h1]
    exact advanceTo_erase cfg _ s s' hq h

theorem qall_doOp (cfg : Cfg) (s : St) (op : Op) (hq : QAll noRaise s) (hop : op.All noRaise) :
    QAll noRaise (doOp cfg s op).1 :=
  (doOp_inv (P := fun _ => True) (R := fun _ _ _ => True) (fun tgt => trivInv cfg tgt noRaise)
    (fun _ _ _ _ => trivial) (fun _ _ _ _ _ _ _ _ _ => trivial) (fun _ _ _ => trivial)
    (Or.inl (fun _ _ _ => trivial)) s op hop trivial hq).2

end C42

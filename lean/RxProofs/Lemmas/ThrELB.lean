import RxProofs.Lemmas.ThrELA
/-!
# EventLoopScheduler model: system-level invariants, part 1 (threads, wake-ups) — C31
-/
namespace Thr.EL
open Thr

theorem merge_nil_queue (t : Int) (rl : List Item) : (merge t [] rl).2 = [] := rfl

theorem notify_ne (w : WS) : notify w ≠ .waitingU := by cases w <;> simp [notify]

theorem thStep_w (xie : Bool) (me nth : Nat) (sh : Sh) (th : Th)
    (h : sh.wstate = .waitingU → sh.readyList = [] ∧ sh.queue = []) :
    (thStep xie me nth sh th).1.wstate = .waitingU →
      (thStep xie me nth sh th).1.readyList = [] ∧ (thStep xie me nth sh th).1.queue = [] := by
  unfold thStep
  repeat' split
  all_goals simp_all [notify_ne]
  · rename_i heq
    intro hw
    obtain ⟨h1, h2⟩ := h hw
    rw [h2, merge] at heq; cases heq; rfl

theorem thStep_pt (xie : Bool) (me nth : Nat) (sh : Sh) (th : Th)
    (h : sh.readyList ≠ [] ∨ sh.queue ≠ [] → sh.thread ≠ none) :
    (thStep xie me nth sh th).1.readyList ≠ [] ∨ (thStep xie me nth sh th).1.queue ≠ [] →
      (thStep xie me nth sh th).1.thread ≠ none := by
  unfold thStep
  repeat' split
  all_goals simp_all
  all_goals (try (intro h1 h2; split at h2 <;> simp_all))
  · rename_i heq
    intro hq hn
    apply h
    by_cases hq0 : sh.queue = []
    · rw [hq0, merge] at heq; cases heq; simp at hq
    · exact Or.inr hq0
    · exact hn


theorem thStep_misc (xie : Bool) (me nth : Nat) (sh : Sh) (th : Th) :
    ((thStep xie me nth sh th).1.disposed = false → sh.disposed = false) ∧
    (nLoop (thStep xie me nth sh th).2.1.stack < nLoop th.stack →
      (thStep xie me nth sh th).1.disposed = true ∨ (thStep xie me nth sh th).1.thread = none) ∧
    ((thStep xie me nth sh th).2.2 = false →
      (thStep xie me nth sh th).1.thread = sh.thread ∨ (thStep xie me nth sh th).1.thread = none) ∧
    ((thStep xie me nth sh th).2.2 = true → (thStep xie me nth sh th).1.thread = some nth) := by
  unfold thStep
  repeat' split
  all_goals simp_all [nLoop]
  all_goals (try omega)
  all_goals (try (intro h; split <;> simp_all))

theorem sumBy_append {β} (f : β → Nat) (a b : List β) : sumBy f (a ++ b) = sumBy f a + sumBy f b := by
  induction a with
  | nil => simp
  | cons x xs ih => simp [ih]; omega

def nLoopT (th : Th) : Nat := nLoop th.stack
def nRunT (th : Th) : Nat := nRun th.stack

structure E1 (s : Sys) : Prop where
  shapes : ∀ th ∈ s.ths, Shape th.stack
  mx : sumBy nLoopT s.ths ≤ 1 ∧ (s.sh.thread = none → sumBy nLoopT s.ths = 0)
  w : s.sh.wstate = .waitingU → s.sh.readyList = [] ∧ s.sh.queue = []
  pt : s.sh.readyList ≠ [] ∨ s.sh.queue ≠ [] → s.sh.thread ≠ none
  al : ∀ t, s.sh.thread = some t → s.sh.disposed = false → ∃ th, s.ths[t]? = some th ∧ nLoop th.stack = 1

theorem Sys.step_eq (xie : Bool) (s : Sys) (i dt : Nat) (th : Th) (hi : s.ths[i]? = some th) :
    s.step xie i dt =
      { sh := (thStep xie i s.ths.length { s.sh with clock := s.sh.clock + dt } th).1,
        ths := if (thStep xie i s.ths.length { s.sh with clock := s.sh.clock + dt } th).2.2
          then s.ths.set i (thStep xie i s.ths.length { s.sh with clock := s.sh.clock + dt } th).2.1 ++ [{ stack := [.loop .top []] }]
          else s.ths.set i (thStep xie i s.ths.length { s.sh with clock := s.sh.clock + dt } th).2.1 } := by
  simp [Sys.step, hi]

theorem e1_step (xie : Bool) (s : Sys) (i dt : Nat) (h : E1 s) : E1 (s.step xie i dt) := by
  cases hi : s.ths[i]? with
  | none => simp [Sys.step, hi]; exact h
  | some th =>
    rw [Sys.step_eq xie s i dt th hi]
    obtain ⟨shapes, mx, w, pt, al⟩ := h
    generalize hsh : ({ s.sh with clock := s.sh.clock + dt } : Sh) = sh0
    have e_w : sh0.wstate = s.sh.wstate := by rw [← hsh]
    have e_rl : sh0.readyList = s.sh.readyList := by rw [← hsh]
    have e_q : sh0.queue = s.sh.queue := by rw [← hsh]
    have e_t : sh0.thread = s.sh.thread := by rw [← hsh]
    have e_d : sh0.disposed = s.sh.disposed := by rw [← hsh]
    have hmem : th ∈ s.ths := List.mem_of_getElem? hi
    have hshape := thStep_shape xie i s.ths.length sh0 th (shapes th hmem)
    obtain ⟨l1, l2, l3⟩ := thStep_loops xie i s.ths.length sh0 th
    obtain ⟨m1, m2, m3, m4⟩ := thStep_misc xie i s.ths.length sh0 th
    have hw := thStep_w xie i s.ths.length sh0 th (by rw [e_w, e_rl, e_q]; exact w)
    have hpt := thStep_pt xie i s.ths.length sh0 th (by rw [e_rl, e_q, e_t]; exact pt)
    have hS := sumBy_set nLoopT s.ths i th (thStep xie i s.ths.length sh0 th).2.1 hi
    have hLe := sumBy_le_mem nLoopT s.ths i th hi
    have hc := (shape_counts (shapes th hmem)).2
    have hilt : i < s.ths.length := (List.getElem?_eq_some_iff.mp hi).1
    simp only [nLoopT] at hS hLe
    generalize hr : thStep xie i s.ths.length sh0 th = r at *
    rcases r with ⟨sh', th', spawn⟩
    simp only at *
    cases spawn with
    | true =>
      obtain ⟨t0, t1⟩ := l2 rfl
      have ht0 : s.sh.thread = none := by rw [← e_t]; exact t0
      have hz := mx.2 ht0
      simp only [if_true]
      refine ⟨?_, ?_, hw, hpt, ?_⟩
      · intro x hx
        simp only [List.mem_append, List.mem_singleton] at hx
        rcases hx with hx | rfl
        · rcases List.mem_or_eq_of_mem_set hx with hx | rfl
          · exact shapes x hx
          · exact hshape
        · exact Shape.loop _ _ (by simp)
      · rw [sumBy_append]; simp only [sumBy_cons, sumBy_nil, nLoopT, nLoop]
        refine ⟨by omega, fun hn => absurd hn t1⟩
      · intro t ht hd
        have := m4 rfl
        rw [this] at ht; cases ht
        refine ⟨{ stack := [.loop .top []] }, ?_, by simp [nLoop]⟩
        rw [List.getElem?_append_right (by simp)]
        simp
    | false =>
      simp only [Bool.false_eq_true, if_false]
      refine ⟨?_, ?_, hw, hpt, ?_⟩
      · intro x hx
        rcases List.mem_or_eq_of_mem_set hx with hx | rfl
        · exact shapes x hx
        · exact hshape
      · dsimp only
        refine ⟨by omega, ?_⟩
        intro hn
        rcases l3 hn with ⟨h1, _⟩ | h1
        · have := mx.2 (by rw [← e_t]; exact h1); omega
        · omega
      · intro t ht hd
        have hd0 : s.sh.disposed = false := by rw [← e_d]; exact m1 hd
        rcases m3 rfl with h1 | h1
        · rw [h1, e_t] at ht
          obtain ⟨tht, g1, g2⟩ := al t ht hd0
          by_cases hti : t = i
          · subst hti
            rw [hi] at g1; cases g1
            refine ⟨th', by simp [List.getElem?_set_self hilt], ?_⟩
            by_cases hlt : nLoop th'.stack < nLoop th.stack
            · rcases m2 hlt with h2 | h2
              · rw [hd] at h2; cases h2
              · rw [h1, e_t, ht] at h2; cases h2
            · omega
          · exact ⟨tht, by simp [List.getElem?_set_ne (Ne.symm hti), g1], g2⟩
        · rw [h1] at ht; cases ht
end Thr.EL

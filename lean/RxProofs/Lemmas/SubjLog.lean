import RxProofs.Lemmas.SubjInv
/-!
# Logs, values and terminal state of the subject machine, read off the ghost trace
-/

namespace Subj
variable {α : Type}

/-- Does the *user* of observer `i` see this notification?  (Without an `on_error` handler an error
goes to `default_error`, which raises instead.) -/
def userSees (cfg : Cfg) (i : Id) : Notif α → Bool
  | .error _ => cfg.hasErr i
  | _ => true

/-- Notifications observer i's AutoDetachObserver passed on, oldest first. -/
def recvs (i : Id) : List (Ev α) → List (Notif α)
  | [] => []
  | .recv j n :: tr => if j = i then recvs i tr ++ [n] else recvs i tr
  | _ :: tr => recvs i tr

/-- The latest notification the subject accepted. -/
def lastEmit : List (Ev α) → Option (Notif α)
  | [] => none
  | .emit n :: _ => some n
  | _ :: tr => lastEmit tr

/-- The value of the latest `on_next` the subject accepted. -/
def lastNext : List (Ev α) → Option α
  | [] => none
  | .emit (.next v) :: _ => some v
  | _ :: tr => lastNext tr

/-- The terminal notification the subject accepted, if any. -/
def terminated (tr : List (Ev α)) : Option (Notif α) :=
  match lastEmit tr with
  | some (.error e) => some (.error e)
  | some .completed => some .completed
  | _ => none

/-- The late-subscriber notification the code computes from `exception`. -/
def termOf (st : St α) : Notif α :=
  match st.exception with
  | some e => .error e
  | none => .completed

/-- Log / value invariant. `v0` = initial value (BehaviorSubject). -/
structure VInv (cfg : Cfg) (v0 : Option α) (st : St α) : Prop where
  log : ∀ i, st.log i = (recvs i st.tr).filter (userSees cfg i)
  term : st.disposed = false →
    (st.stopped = true → terminated st.tr = some (termOf st)) ∧
      (st.stopped = false → terminated st.tr = none ∧ st.exception = none)
  beh : cfg.kind = .behavior → st.disposed = false → st.value = (lastNext st.tr <|> v0)
  asy : cfg.kind = .async → st.disposed = false → st.value = lastNext st.tr ∧ st.hasValue = (lastNext st.tr).isSome
  asy0 : cfg.kind = .async → v0 = none
  sub : cfg.kind = .subject → st.value = none

macro "vinv_crush" : tactic => `(tactic| (
  all_goals try dsimp only at *
  all_goals first
    | done
    | grind [recvs, userSees, lastEmit, lastNext, terminated, termOf, Notif.isTerminal]))

theorem VInv.congr {cfg : Cfg} {v0 : Option α} {st st' : St α} (h : VInv cfg v0 st) (h1 : st'.log = st.log)
    (h2 : st'.tr = st.tr) (h3 : st'.disposed = st.disposed) (h4 : st'.stopped = st.stopped)
    (h5 : st'.exception = st.exception) (h6 : st'.value = st.value) (h7 : st'.hasValue = st.hasValue) :
    VInv cfg v0 st' := by
  obtain ⟨a1,a2,a3,a4,a5,a6⟩ := h
  refine ⟨?_,?_,?_,?_,?_,?_⟩ <;> simp_all [termOf]

theorem subjDispose_vinv {cfg : Cfg} {v0 : Option α} {st : St α} (hV : VInv cfg v0 st) : VInv cfg v0 (subjDispose st) := by
  obtain ⟨a1,a2,a3,a4,a5,a6⟩ := hV
  unfold subjDispose
  refine ⟨?_,?_,?_,?_,?_,?_⟩
  vinv_crush

theorem sadDispose_vinv {cfg : Cfg} {v0 : Option α} {st : St α} (i : Id) (hV : VInv cfg v0 st) : VInv cfg v0 (sadDispose st i) := by
  unfold sadDispose innerDispose
  dsimp only
  repeat' split
  all_goals exact hV.congr rfl rfl rfl rfl rfl rfl rfl

theorem doUnsub_vinv {cfg : Cfg} {v0 : Option α} {st : St α} (j : Id) (hV : VInv cfg v0 st) : VInv cfg v0 (doUnsub st j) := by
  obtain ⟨a1,a2,a3,a4,a5,a6⟩ := hV
  unfold doUnsub adoDispose sadDispose innerDispose
  dsimp only
  repeat' split
  all_goals refine ⟨?_,?_,?_,?_,?_,?_⟩
  vinv_crush

theorem finish_vinv {cfg : Cfg} {v0 : Option α} {st : St α} (j : Id) (h : Option Held) (hV : VInv cfg v0 st) :
    VInv cfg v0 (finish st j h) := by
  unfold finish innerDispose
  dsimp only
  repeat' split
  all_goals exact hV.congr rfl rfl rfl rfl rfl rfl rfl

theorem deliver_vinv (cfg : Cfg) {v0 : Option α} {st : St α} (i : Id) (n : Notif α) (hV : VInv cfg v0 st) :
    VInv cfg v0 (deliver cfg st i n).1 := by
  obtain ⟨a1,a2,a3,a4,a5,a6⟩ := hV
  unfold deliver callback sadDispose innerDispose
  dsimp only
  repeat' split
  all_goals refine ⟨?_,?_,?_,?_,?_,?_⟩
  vinv_crush

theorem emit_vinv (cfg : Cfg) {v0 : Option α} {st : St α} (n : Notif α) (hV : VInv cfg v0 st) :
    VInv cfg v0 (emit cfg st n).1 := by
  obtain ⟨a1,a2,a3,a4,a5,a6⟩ := hV
  unfold emit
  dsimp only
  repeat' split
  all_goals refine ⟨?_,?_,?_,?_,?_,?_⟩
  vinv_crush

theorem doSub_vinv (cfg : Cfg) {v0 : Option α} {st : St α} (who : Option Id) (j : Id) (hV : VInv cfg v0 st) :
    VInv cfg v0 (doSub cfg st who j).1 := by
  obtain ⟨a1,a2,a3,a4,a5,a6⟩ := hV
  unfold doSub callback raiseTo
  dsimp only
  repeat' split
  all_goals refine ⟨?_,?_,?_,?_,?_,?_⟩
  vinv_crush

theorem step1_vinv (cfg : Cfg) {v0 : Option α} {st : St α} (t : Task α) (hV : VInv cfg v0 st) :
    VInv cfg v0 (step1 cfg st t).1 := by
  cases t with
  | emit n => exact emit_vinv cfg n hV
  | act who a =>
    cases a with
    | sub j => exact doSub_vinv cfg who j hV
    | unsub j => exact doUnsub_vinv j hV
    | dispose => exact subjDispose_vinv hV
  | deliver i n => exact deliver_vinv cfg i n hV
  | finish j h => exact finish_vinv j h hV
  | sadDispose i => exact sadDispose_vinv i hV

theorem reach_vinv {cfg : Cfg} {v0 : Option α} {s0 st : St α} {ag0 ag : List (Task α)} (h0 : VInv cfg v0 s0)
    (h : Reach cfg s0 ag0 st ag) : VInv cfg v0 st := by
  induction h with
  | init => exact h0
  | call c _ ih => exact ih.congr rfl rfl rfl rfl rfl rfl rfl
  | step _ ih => exact step1_vinv cfg _ ih
  | oof _ ih => exact ih.congr rfl rfl rfl rfl rfl rfl rfl

/-- `v` is a legal constructor argument: a BehaviorSubject has an initial value, the others none. -/
def InitOK (cfg : Cfg) (v : Option α) : Prop :=
  match cfg.kind with
  | .behavior => v.isSome = true
  | _ => v = none

theorem init_vinv (cfg : Cfg) (v : Option α) (hv : InitOK cfg v) : VInv cfg v (init cfg v) := by
  unfold init InitOK at *
  split <;> refine ⟨?_,?_,?_,?_,?_,?_⟩ <;> simp_all [recvs, terminated, lastEmit, lastNext]

theorem reachable_vinv {cfg : Cfg} {v : Option α} (hv : InitOK cfg v) {st : St α} {ag : List (Task α)}
    (h : Reachable cfg v st ag) : VInv cfg v st :=
  reach_vinv (init_vinv cfg v hv) h

end Subj

namespace Subj
variable {α : Type}

/-! ## Frame facts -/

/-- A stopped AutoDetachObserver never hands anything on again, whatever happens. -/
theorem step1_silent (cfg : Cfg) {st : St α} (t : Task α) (hI : SInv st) (j : Id) (hs : st.adoStopped j = true) :
    (step1 cfg st t).1.log j = st.log j ∧ (step1 cfg st t).1.adoStopped j = true := by
  have hf := hI.fresh j
  cases t with
  | emit n => unfold step1 emit; dsimp only; repeat' split
              all_goals simp [hs]
  | act who a =>
    cases a with
    | sub k =>
      unfold step1 doSub callback raiseTo; dsimp only; repeat' split
      all_goals (try dsimp only at *)
      all_goals grind
    | unsub k =>
      unfold step1 doUnsub adoDispose sadDispose innerDispose; dsimp only; repeat' split
      all_goals (try dsimp only at *)
      all_goals grind
    | dispose => simp [step1, subjDispose, hs]
  | deliver i n =>
    unfold step1 deliver callback sadDispose innerDispose; dsimp only; repeat' split
    all_goals (try dsimp only at *)
    all_goals grind
  | finish k h =>
    unfold step1 finish innerDispose; dsimp only; repeat' split
    all_goals simp [hs]
  | sadDispose i =>
    unfold step1 sadDispose innerDispose; dsimp only; repeat' split
    all_goals simp [hs]

theorem reach_silent {cfg : Cfg} {s0 st : St α} {ag0 ag : List (Task α)} (h0 : SInv s0) (ha : ∀ t ∈ ag0, TaskOK s0 t)
    (h : Reach cfg s0 ag0 st ag) (j : Id) (hs : s0.adoStopped j = true) :
    st.log j = s0.log j ∧ st.adoStopped j = true := by
  induction h with
  | init => exact ⟨rfl, hs⟩
  | call c _ ih => exact ih
  | @step st t ts hr ih =>
    have hI := (reach_inv h0 ha hr).1
    have := step1_silent cfg t hI j ih.2
    exact ⟨this.1.trans ih.1, this.2⟩
  | oof _ ih => exact ih

/-- Disposal is permanent. -/
theorem step1_disposed (cfg : Cfg) {st : St α} (t : Task α) (hd : st.disposed = true) :
    (step1 cfg st t).1.disposed = true := by
  cases t with
  | emit n => simp [step1, emit, hd]
  | act who a =>
    cases a with
    | sub k =>
      unfold step1 doSub callback raiseTo; dsimp only; repeat' split
      all_goals simp_all
    | unsub k =>
      unfold step1 doUnsub adoDispose sadDispose innerDispose; dsimp only; repeat' split
      all_goals simp_all
    | dispose => simp [step1, subjDispose]
  | deliver i n =>
    unfold step1 deliver callback sadDispose innerDispose; dsimp only; repeat' split
    all_goals simp_all
  | finish k h =>
    unfold step1 finish innerDispose; dsimp only; repeat' split
    all_goals simp_all
  | sadDispose i =>
    unfold step1 sadDispose innerDispose; dsimp only; repeat' split
    all_goals simp_all

theorem reach_disposed {cfg : Cfg} {s0 st : St α} {ag0 ag : List (Task α)} (h : Reach cfg s0 ag0 st ag)
    (hd : s0.disposed = true) : st.disposed = true := by
  induction h with
  | init => exact hd
  | call c _ ih => exact ih
  | step _ ih => exact step1_disposed cfg _ ih
  | oof _ ih => exact ih

end Subj

import RxProofs.Lemmas.SubjReplayInv
/-!
# ReplaySubject: what a subscriber's ScheduledObserver is fed, and what reaches the user
-/

namespace SubjReplay
open Subj (Action Call upd disposedExn upd_apply)
variable {α : Type}

/-! ## closed forms of the per-observer loops (ghost `enq` = everything ever queued for an observer) -/

theorem soPush_enq (st : St α) (i k : Id) (n : Notif α) :
    (soPush st i n).enq k = if k = i ∧ st.soStopped i = false then st.enq k ++ [n] else st.enq k := by
  unfold soPush
  split <;> simp_all

theorem soPush_soStopped_other (st : St α) (i k : Id) (n : Notif α) (h : k ≠ i) :
    (soPush st i n).soStopped k = st.soStopped k := by
  unfold soPush
  split
  · rfl
  · dsimp only; split <;> simp [h]

theorem pushAll_enq (n : Notif α) (l : List Id) (hl : l.Nodup) (st : St α) (k : Id) :
    (pushAll n l st).enq k = if k ∈ l ∧ st.soStopped k = false then st.enq k ++ [n] else st.enq k := by
  induction l generalizing st with
  | nil => simp [pushAll]
  | cons i is ih =>
    simp only [pushAll]
    rw [ih (List.nodup_cons.mp hl).2, soPush_enq]
    have hi : i ∉ is := (List.nodup_cons.mp hl).1
    by_cases hk : k = i
    · subst hk
      simp [hi]
    · rw [soPush_soStopped_other _ _ _ _ hk]
      simp [hk]

theorem ensureActive_enq (st : St α) (i : Id) : (ensureActive st i).enq = st.enq :=
  (ensureActive_frame st i).2.2.2.2.2.2.2.2.1

theorem ensureActive_soStopped (st : St α) (i : Id) : (ensureActive st i).soStopped = st.soStopped :=
  (ensureActive_frame st i).2.2.2.2.2.2.2.2.2.2.2.1

theorem ensureActive_observers (st : St α) (i : Id) : (ensureActive st i).observers = st.observers :=
  (ensureActive_frame st i).2.2.2.2.2.2.2.2.2.1

theorem ensureAll_enq (l : List Id) (st : St α) : (ensureAll l st).enq = st.enq := by
  induction l generalizing st with
  | nil => rfl
  | cons i is ih => simp only [ensureAll]; rw [ih, ensureActive_enq]

theorem pushEnsureAll_enq (n : Notif α) (l : List Id) (hl : l.Nodup) (st : St α) (k : Id) :
    (pushEnsureAll n l st).enq k = if k ∈ l ∧ st.soStopped k = false then st.enq k ++ [n] else st.enq k := by
  induction l generalizing st with
  | nil => simp [pushEnsureAll]
  | cons i is ih =>
    simp only [pushEnsureAll]
    rw [ih (List.nodup_cons.mp hl).2, ensureActive_enq, ensureActive_soStopped, soPush_enq]
    have hi : i ∉ is := (List.nodup_cons.mp hl).1
    by_cases hk : k = i
    · subst hk
      simp [hi]
    · rw [soPush_soStopped_other _ _ _ _ hk]
      simp [hk]

/-- **Live notifications.**  A notification accepted by the subject is queued — exactly once — for exactly
the observers in `observers` (whose ScheduledObserver is not stopped), and for nobody else. -/
theorem emit_enq (cfg : Cfg α) {st : St α} (h : RInv cfg st) (who : Option Id) (n : Notif α) (hd : st.disposed = false)
    (hs : st.stopped = false) (k : Id) :
    (emit cfg st who n).enq k = if k ∈ st.observers then st.enq k ++ [n] else st.enq k := by
  have hlive := h.live hs
  unfold emit
  simp only [hd, hs, Bool.false_eq_true, if_false]
  cases n with
  | next v =>
    dsimp only
    rw [ensureAll_enq, pushAll_enq _ _ h.nodup]
    by_cases hk : k ∈ st.observers
    · simp [hk, hlive k hk]
    · simp [hk]
  | error e =>
    dsimp only
    rw [pushEnsureAll_enq _ _ h.nodup]
    by_cases hk : k ∈ st.observers
    · simp [hk, hlive k hk]
    · simp [hk]
  | completed =>
    dsimp only
    rw [pushEnsureAll_enq _ _ h.nodup]
    by_cases hk : k ∈ st.observers
    · simp [hk, hlive k hk]
    · simp [hk]

theorem pushList_enq (j : Id) (ns : List (Notif α)) (st : St α) (hn : ∀ n ∈ ns, n.isTerminal = false)
    (hs : st.soStopped j = false) :
    (pushList st j ns).enq j = st.enq j ++ ns ∧ (pushList st j ns).soStopped j = false ∧
    (pushList st j ns).exception = st.exception ∧ (pushList st j ns).stopped = st.stopped ∧
    (pushList st j ns).observers = st.observers := by
  induction ns generalizing st with
  | nil => simp [pushList, hs]
  | cons n ns ih =>
    simp only [pushList]
    have hn0 : n.isTerminal = false := hn n (by simp)
    have h1 : (soPush st j n).soStopped j = false := by simp [soPush, hs, hn0]
    have h2 : (soPush st j n).enq j = st.enq j ++ [n] := by simp [soPush_enq, hs]
    have h3 : (soPush st j n).exception = st.exception ∧ (soPush st j n).stopped = st.stopped ∧
        (soPush st j n).observers = st.observers := by
      unfold soPush; split <;> simp
    have := ih (soPush st j n) (fun m hm => hn m (by simp [hm])) h1
    rw [this.1, this.2.1, this.2.2.1, this.2.2.2.1, this.2.2.2.2, h2, h3.1, h3.2.1, h3.2.2]
    simp

/-- The terminal a late subscriber is told about. -/
def terminalOf (st : St α) : List (Notif α) :=
  match st.exception with
  | some e => [.error e]
  | none => if st.stopped then [.completed] else []

theorem subscribeCore_enq (cfg : Cfg α) (st : St α) (j : Id) (hs : st.soStopped j = false) (he : st.enq j = []) :
    (subscribeCore cfg st j).enq j =
      (trim cfg st.clock st.queue).map (fun it => Notif.next it.2) ++ terminalOf st ∧
    (subscribeCore cfg st j).observers = st.observers ++ [j] := by
  have hpa := pushList_enq j ((trim cfg st.clock st.queue).map fun (it : Nat × α) => Notif.next it.2)
    { st with queue := trim cfg st.clock st.queue, lastNow := st.clock, observers := st.observers ++ [j] }
    (by intro n hn; simp only [List.mem_map] at hn; obtain ⟨_, _, rfl⟩ := hn; rfl) hs
  unfold subscribeCore
  dsimp only at hpa ⊢
  generalize pushList _ j _ = s3 at hpa ⊢
  obtain ⟨p1, p2, p3, p4, p5⟩ := hpa
  have hso : ∀ (s : St α) n, (soPush s j n).observers = s.observers := by
    intro s n; unfold soPush; split <;> rfl
  refine ⟨?_, ?_⟩
  · rw [ensureActive_enq]
    unfold terminalOf
    rw [p3, p4]
    cases hx : st.exception with
    | some e => simp [soPush_enq, p2, p1, he]
    | none =>
      simp only
      cases hst : st.stopped with
      | true => simp [soPush_enq, p2, p1, he]
      | false => simp [p1, he]
  · rw [ensureActive_observers]
    split
    · rw [hso, p5]
    · split
      · rw [hso, p5]
      · rw [p5]

/-- **Replay at subscription.**  A new subscriber (on an undisposed subject) is queued, in order, the
values `_trim(now)` retains, then the terminal notification if the subject has terminated. -/
theorem doSub_enq (cfg : Cfg α) {st : St α} (h : RInv cfg st) (who : Option Id) (j : Id)
    (hj : st.seen j = false) (hd : st.disposed = false) :
    (doSub cfg st who j).1.enq j =
      (trim cfg st.clock st.queue).map (fun it => Notif.next it.2) ++ terminalOf st ∧
    (doSub cfg st who j).1.observers = st.observers ++ [j] ∧
    (doSub cfg st who j).2 = [] := by
  have hf := h.fresh j hj
  have := subscribeCore_enq cfg { st with seen := upd st.seen j true, evs := st.evs ++ [EvR.sub j st.clock] } j hf.2.2.2.1 hf.2.1
  unfold doSub
  rw [if_neg (by simp [hj])]
  dsimp only
  rw [if_neg (by simp [hd])]
  exact ⟨this.1, this.2, rfl⟩

end SubjReplay

namespace SubjReplay
open Subj (Action Call upd disposedExn upd_apply)
variable {α : Type}

/-! ## the AutoDetachObserver layer: what reaches the user -/

def notifs (l : List (Nat × Notif α)) : List (Notif α) := l.map (·.2)

/-- Per observer: as long as its AutoDetachObserver is not stopped the user has seen exactly what was
handed to it (`fed`); afterwards a prefix of it. -/
structure UInv (st : St α) : Prop where
  all : ∀ i, st.adoStopped i = false → notifs (st.log i) = st.fed i
  pre : ∀ i, notifs (st.log i) <+: st.fed i

/-- Steps that do not touch the user-facing fields. -/
def UFrame (st st' : St α) : Prop :=
  st'.log = st.log ∧ st'.fed = st.fed ∧ st'.adoStopped = st.adoStopped

theorem UInv.frame {st st' : St α} (h : UInv st) (f : UFrame st st') : UInv st' := by
  obtain ⟨f1, f2, f3⟩ := f
  exact ⟨by rw [f1, f2, f3]; exact h.all, by rw [f1, f2]; exact h.pre⟩

theorem UFrame.refl (st : St α) : UFrame st st := ⟨rfl, rfl, rfl⟩
theorem UFrame.trans {a b c : St α} (h1 : UFrame a b) (h2 : UFrame b c) : UFrame a c :=
  ⟨h2.1.trans h1.1, h2.2.1.trans h1.2.1, h2.2.2.trans h1.2.2⟩

theorem soPush_uframe (st : St α) (i : Id) (n : Notif α) : UFrame st (soPush st i n) := by
  unfold soPush; split <;> exact ⟨rfl, rfl, rfl⟩

theorem ensureActive_uframe (st : St α) (i : Id) : UFrame st (ensureActive st i) := by
  have f := ensureActive_frame st i
  exact ⟨f.2.2.2.2.2.2.2.2.2.2.2.2.1, f.2.2.2.2.2.2.1, f.2.2.2.2.2.2.2.2.2.2.2.2.2.1⟩

theorem pushAll_uframe (n : Notif α) (l : List Id) (st : St α) : UFrame st (pushAll n l st) :=
  pushAll_ind (P := fun s => UFrame st s) n l st (fun s i _ h => h.trans (soPush_uframe s i n)) (UFrame.refl st)

theorem ensureAll_uframe (l : List Id) (st : St α) : UFrame st (ensureAll l st) :=
  ensureAll_ind (P := fun s => UFrame st s) l st (fun s i _ h => h.trans (ensureActive_uframe s i)) (UFrame.refl st)

theorem pushEnsureAll_uframe (n : Notif α) (l : List Id) (st : St α) : UFrame st (pushEnsureAll n l st) :=
  pushEnsureAll_ind (P := fun s => UFrame st s) n l st (fun s i _ h => h.trans (soPush_uframe s i n))
    (fun s i _ h => h.trans (ensureActive_uframe s i)) (UFrame.refl st)

theorem pushList_uframe (j : Id) (ns : List (Notif α)) (st : St α) : UFrame st (pushList st j ns) :=
  pushList_ind (P := fun s => UFrame st s) j ns st (fun s n _ h => h.trans (soPush_uframe s j n)) (UFrame.refl st)

theorem emit_uframe (cfg : Cfg α) (st : St α) (who : Option Id) (n : Notif α) : UFrame st (emit cfg st who n) := by
  unfold emit
  split
  · cases who <;> exact ⟨rfl, rfl, rfl⟩
  · split
    · exact UFrame.refl st
    · dsimp only
      split
      · refine UFrame.trans ?_ (ensureAll_uframe _ _)
        refine UFrame.trans ?_ (pushAll_uframe _ _ _)
        exact ⟨rfl, rfl, rfl⟩
      · refine UFrame.trans ?_ (pushEnsureAll_uframe _ _ _)
        exact ⟨rfl, rfl, rfl⟩

theorem subscribeCore_uframe (cfg : Cfg α) (st : St α) (j : Id) : UFrame st (subscribeCore cfg st j) := by
  unfold subscribeCore
  dsimp only
  refine UFrame.trans (b := ensureActive _ j) ?_ ⟨rfl, rfl, rfl⟩
  refine UFrame.trans ?_ (ensureActive_uframe _ j)
  have hp := pushList_uframe j ((trim cfg st.clock st.queue).map fun (it : Nat × α) => Notif.next it.2)
    { st with queue := trim cfg st.clock st.queue, lastNow := st.clock, observers := st.observers ++ [j] }
  have h0 : UFrame st (pushList { st with queue := trim cfg st.clock st.queue, lastNow := st.clock, observers := st.observers ++ [j] } j
      ((trim cfg st.clock st.queue).map fun (it : Nat × α) => Notif.next it.2)) := UFrame.trans ⟨rfl, rfl, rfl⟩ hp
  split
  · exact h0.trans (soPush_uframe _ _ _)
  · split
    · exact h0.trans (soPush_uframe _ _ _)
    · exact h0

theorem sadDispose_uframe (st : St α) (i : Id) : UFrame st (sadDispose st i) := by
  unfold sadDispose removableDispose soDispose
  dsimp only
  repeat' split
  all_goals exact ⟨rfl, rfl, rfl⟩

theorem doSub_uinv (cfg : Cfg α) {st : St α} (hI : RInv cfg st) (who : Option Id) (j : Id) (h : UInv st) :
    UInv (doSub cfg st who j).1 := by
  unfold doSub
  split
  · exact h
  · rename_i hj
    have hf := hI.fresh j (by simpa using hj)
    dsimp only
    split
    · have hbase : UInv { st with seen := upd st.seen j true, evs := st.evs ++ [EvR.sub j st.clock], adoStopped := upd st.adoStopped j true, enq := upd st.enq j [.error disposedExn], fed := upd st.fed j [.error disposedExn] } := by
        obtain ⟨h1, h2⟩ := h
        refine ⟨?_, ?_⟩
        · intro i hi
          by_cases hij : i = j
          · subst hij; simp at hi
          · simpa [hij] using h1 i (by simpa [hij] using hi)
        · intro i
          by_cases hij : i = j
          · subst hij; simp [notifs, hf.2.2.2.2.1]
          · simpa [hij] using h2 i
      split
      · obtain ⟨h1, h2⟩ := hbase
        unfold callback
        refine ⟨?_, ?_⟩
        · intro i hi
          by_cases hij : i = j
          · subst hij; simp at hi
          · have := h1 i (by simpa [hij] using hi)
            simpa [hij] using this
        · intro i
          by_cases hij : i = j
          · subst hij
            simp [notifs, hf.2.2.2.2.1]
          · simpa [hij] using h2 i
      · cases who <;> exact hbase.frame ⟨rfl, rfl, rfl⟩
    · refine h.frame (UFrame.trans (b := { st with seen := upd st.seen j true, evs := st.evs ++ [EvR.sub j st.clock] }) ⟨rfl, rfl, rfl⟩ ?_)
      exact subscribeCore_uframe cfg _ j

theorem doUnsub_uinv {st : St α} (j : Id) (h : UInv st) : UInv (doUnsub st j) := by
  unfold doUnsub
  split
  · have : UInv { st with adoStopped := upd st.adoStopped j true, evs := st.evs ++ [EvR.unsub j] } := by
      obtain ⟨h1, h2⟩ := h
      refine ⟨?_, h2⟩
      intro i hi
      by_cases hij : i = j
      · subst hij; simp at hi
      · exact h1 i (by simpa [hij] using hi)
    exact this.frame (sadDispose_uframe _ j)
  · exact h

theorem doTask_uinv (cfg : Cfg α) {st : St α} (hI : RInv cfg st) (t : Task α) (h : UInv st) : UInv (doTask cfg st t) := by
  cases t with
  | act who a =>
    cases a with
    | emit n =>
      simp only [doTask]
      refine h.frame (UFrame.trans ?_ (emit_uframe cfg _ who n))
      cases who <;> exact ⟨rfl, rfl, rfl⟩
    | base a =>
    cases a with
    | sub j => exact (doSub_uinv cfg hI who j h).frame ⟨rfl, rfl, rfl⟩
    | unsub j => exact doUnsub_uinv j h
    | dispose => exact h.frame ⟨rfl, rfl, rfl⟩
  | sadDispose i => exact h.frame (sadDispose_uframe st i)
  | resched i => exact h.frame ⟨rfl, rfl, rfl⟩
  | handle j => exact h.frame ⟨rfl, rfl, rfl⟩

theorem adoDeliver_uinv (cfg : Cfg α) {st : St α} (i : Id) (n : Notif α) (rest : List (Notif α)) (h : UInv st) :
    UInv (adoDeliver cfg { st with soQueue := upd st.soQueue i rest, fed := upd st.fed i (st.fed i ++ [n]) } i n).1 := by
  obtain ⟨h1, h2⟩ := h
  have hpre : ∀ k, k ≠ i → (notifs (st.log k) <+: (upd st.fed i (st.fed i ++ [n])) k) := by
    intro k hk; simpa [hk] using h2 k
  by_cases hs : st.adoStopped i = true
  · have : adoDeliver cfg { st with soQueue := upd st.soQueue i rest, fed := upd st.fed i (st.fed i ++ [n]) } i n =
        ({ st with soQueue := upd st.soQueue i rest, fed := upd st.fed i (st.fed i ++ [n]) }, [], none) := by
      simp [adoDeliver, hs]
    rw [this]
    refine ⟨?_, ?_⟩
    · intro k hk
      by_cases hki : k = i
      · subst hki; rw [hs] at hk; exact absurd hk (by simp)
      · simpa [hki] using h1 k hk
    · intro k
      by_cases hki : k = i
      · subst hki
        simp only [upd_apply, if_true]
        exact (h2 k).trans (List.prefix_append _ _)
      · exact hpre k hki
  · have hs : st.adoStopped i = false := by simpa using hs
    have hlog := h1 i hs
    -- the callback appends n to the log of i
    have hcb : ∀ (ad : Id → Bool), (∀ k, k ≠ i → ad k = false → notifs (st.log k) = st.fed k) →
        UInv (callback { st with soQueue := upd st.soQueue i rest, fed := upd st.fed i (st.fed i ++ [n]), adoStopped := ad } i n) := by
      intro ad hall
      refine ⟨?_, ?_⟩
      · intro k hk
        by_cases hki : k = i
        · subst hki
          simp [callback, notifs, hlog.symm]
        · have := hall k hki (by simpa [callback] using hk)
          simpa [callback, hki] using this
      · intro k
        by_cases hki : k = i
        · subst hki
          simp [callback, notifs, hlog.symm]
        · simpa [callback, hki] using h2 k
    have hstop : UInv { st with soQueue := upd st.soQueue i rest, fed := upd st.fed i (st.fed i ++ [n]), adoStopped := upd st.adoStopped i true } := by
      refine ⟨?_, ?_⟩
      · intro k hk
        by_cases hki : k = i
        · subst hki; simp at hk
        · simpa [hki] using h1 k (by simpa [hki] using hk)
      · intro k
        by_cases hki : k = i
        · subst hki
          simp only [upd_apply, if_true]
          exact (h2 k).trans (List.prefix_append _ _)
        · exact hpre k hki
    cases n with
    | next v =>
      simp only [adoDeliver, hs, Bool.false_eq_true, if_false]
      exact hcb st.adoStopped (fun k _ hk => h1 k hk)
    | completed =>
      simp only [adoDeliver, hs, Bool.false_eq_true, if_false]
      exact hcb (upd st.adoStopped i true) (fun k hki hk => h1 k (by simpa [hki] using hk))
    | error e =>
      simp only [adoDeliver, hs, Bool.false_eq_true, if_false]
      split
      · exact hcb (upd st.adoStopped i true) (fun k hki hk => h1 k (by simpa [hki] using hk))
      · exact hstop.frame (sadDispose_uframe _ i)

theorem soRun_uinv (cfg : Cfg α) {st : St α} (i : Id) (h : UInv st) : UInv (soRun cfg st i) := by
  unfold soRun
  split
  · exact h.frame ⟨rfl, rfl, rfl⟩
  · rename_i n rest hq
    have key := adoDeliver_uinv cfg i n rest h
    dsimp only
    generalize adoDeliver cfg _ i n = r at key ⊢
    split
    · exact key.frame ⟨rfl, rfl, rfl⟩
    · exact key.frame ⟨rfl, rfl, rfl⟩

theorem step_uinv (cfg : Cfg α) {st : St α} (hI : RInv cfg st) (h : UInv st) : UInv (step cfg st) := by
  unfold step
  split
  · exact h
  · split
    · rename_i t ts hag
      have hI2 : RInv cfg { st with agenda := ts } :=
        hI.congr rfl rfl (Nat.le_refl _) rfl rfl rfl rfl rfl rfl rfl rfl rfl rfl rfl rfl rfl rfl rfl
          (fun j hj => by rw [hag]; exact List.mem_cons_of_mem _ hj) (fun h => h)
      exact doTask_uinv cfg hI2 t (h.frame ⟨rfl, rfl, rfl⟩)
    · split
      · exact h
      · rename_i it rest hp
        have h2 : UInv (advance { st with pending := rest } it.due) := by
          refine h.frame ?_
          unfold advance
          dsimp only
          repeat' split
          all_goals exact ⟨rfl, rfl, rfl⟩
        unfold invoke
        split
        · exact h2
        · split
          · rename_i k c hk
            unfold doCall
            cases c with
            | next v => exact h2.frame (UFrame.trans (b := { (advance { st with pending := rest } it.due) with curCall := k, evs := (advance { st with pending := rest } it.due).evs ++ [EvR.call k (advance { st with pending := rest } it.due).clock (advance { st with pending := rest } it.due).observers.length (.next v)] }) ⟨rfl, rfl, rfl⟩ (emit_uframe cfg _ none _))
            | error e => exact h2.frame (UFrame.trans (b := { (advance { st with pending := rest } it.due) with curCall := k, evs := (advance { st with pending := rest } it.due).evs ++ [EvR.call k (advance { st with pending := rest } it.due).clock (advance { st with pending := rest } it.due).observers.length (.error e)] }) ⟨rfl, rfl, rfl⟩ (emit_uframe cfg _ none _))
            | completed => exact h2.frame (UFrame.trans (b := { (advance { st with pending := rest } it.due) with curCall := k, evs := (advance { st with pending := rest } it.due).evs ++ [EvR.call k (advance { st with pending := rest } it.due).clock (advance { st with pending := rest } it.due).observers.length .completed] }) ⟨rfl, rfl, rfl⟩ (emit_uframe cfg _ none _))
            | sub i => exact h2.frame ⟨rfl, rfl, rfl⟩
            | unsub i => exact h2.frame ⟨rfl, rfl, rfl⟩
            | dispose => exact h2.frame ⟨rfl, rfl, rfl⟩
          · exact soRun_uinv cfg _ h2

theorem schedule_go_frame (cs : List (Nat × Call α)) (k : Nat) (st : St α) : UFrame st (schedule.go cs k st) := by
  induction cs generalizing k st with
  | nil => exact UFrame.refl st
  | cons c cs ih =>
    obtain ⟨t, c⟩ := c
    simp only [schedule.go]
    exact UFrame.trans ⟨rfl, rfl, rfl⟩ (ih _ _)

theorem reach_uinv {cfg : Cfg α} {calls : List (Nat × Call α)} {st : St α} (h : Reach cfg calls st) : UInv st := by
  induction h with
  | init =>
    have h0 : UInv ({} : St α) := ⟨fun _ _ => rfl, fun _ => by simp [notifs]⟩
    exact h0.frame (schedule_go_frame calls 0 {})
  | step hr ih => exact step_uinv cfg (reach_inv hr) ih

/-- Observer i's user-visible log is untouched and its AutoDetachObserver stays stopped. -/
def Quiet (i : Id) (st st' : St α) : Prop :=
  st'.log i = st.log i ∧ st'.adoStopped i = true

theorem UFrame.quiet {i : Id} {st st' : St α} (f : UFrame st st') (hs : st.adoStopped i = true) : Quiet i st st' :=
  ⟨by rw [f.1], by rw [f.2.2]; exact hs⟩

theorem doSub_quiet (cfg : Cfg α) {st : St α} (hI : RInv cfg st) (who : Option Id) (j i : Id) (hs : st.adoStopped i = true) :
    Quiet i st (doSub cfg st who j).1 := by
  unfold doSub
  split
  · exact ⟨rfl, hs⟩
  · rename_i hj
    have hf := hI.fresh j (by simpa using hj)
    have hij : i ≠ j := by intro e; subst e; rw [hf.2.2.2.2.2.1] at hs; exact absurd hs (by simp)
    dsimp only
    split
    · split
      · simp [Quiet, callback, hij, hs]
      · cases who <;> simp [Quiet, raiseTo, hij, hs]
    · exact (UFrame.trans (b := { st with seen := upd st.seen j true, evs := st.evs ++ [EvR.sub j st.clock] }) ⟨rfl, rfl, rfl⟩
        (subscribeCore_uframe cfg _ j)).quiet hs

theorem doUnsub_quiet {st : St α} (j i : Id) (hs : st.adoStopped i = true) : Quiet i st (doUnsub st j) := by
  unfold doUnsub
  split
  · have f := sadDispose_uframe { st with adoStopped := upd st.adoStopped j true, evs := st.evs ++ [EvR.unsub j] } j
    refine ⟨by rw [f.1], ?_⟩
    rw [f.2.2]
    by_cases hij : i = j <;> simp [hij, hs]
  · exact ⟨rfl, hs⟩

theorem adoDeliver_quiet (cfg : Cfg α) {st : St α} (k i : Id) (n : Notif α) (hs : st.adoStopped i = true) :
    Quiet i st (adoDeliver cfg st k n).1 := by
  by_cases hk : st.adoStopped k = true
  · simp [adoDeliver, hk, Quiet, hs]
  · have hk' : st.adoStopped k = false := by simpa using hk
    have hik : i ≠ k := by intro e; subst e; rw [hs] at hk'; exact absurd hk' (by simp)
    cases n with
    | next v => simp [adoDeliver, hk', Quiet, callback, hik, hs]
    | completed => simp [adoDeliver, hk', Quiet, callback, hik, hs]
    | error e =>
      simp only [adoDeliver, hk', Bool.false_eq_true, if_false]
      split
      · simp [Quiet, callback, hik, hs]
      · have f := sadDispose_uframe { st with adoStopped := upd st.adoStopped k true } k
        refine ⟨by rw [f.1], ?_⟩
        rw [f.2.2]
        simp [hik, hs]

theorem soRun_quiet (cfg : Cfg α) {st : St α} (k i : Id) (hs : st.adoStopped i = true) : Quiet i st (soRun cfg st k) := by
  unfold soRun
  split
  · exact ⟨rfl, hs⟩
  · rename_i n rest hq
    have key := adoDeliver_quiet cfg (st := { st with soQueue := upd st.soQueue k rest, fed := upd st.fed k (st.fed k ++ [n]) }) k i n hs
    dsimp only
    generalize adoDeliver cfg _ k n = r at key ⊢
    split <;> exact key

/-- **replay_dispose_stops** (frame form): once an observer's AutoDetachObserver is stopped — it was
unsubscribed, or handed a terminal — no step of the scheduler, whatever is still queued in its
ScheduledObserver, changes what its user has seen. -/
theorem step_silent (cfg : Cfg α) {st : St α} (hI : RInv cfg st) (i : Id) (hs : st.adoStopped i = true) :
    (step cfg st).log i = st.log i ∧ (step cfg st).adoStopped i = true := by
  show Quiet i st (step cfg st)
  unfold step
  split
  · exact ⟨rfl, hs⟩
  · split
    · rename_i t ts hag
      have hI2 : RInv cfg { st with agenda := ts } :=
        hI.congr rfl rfl (Nat.le_refl _) rfl rfl rfl rfl rfl rfl rfl rfl rfl rfl rfl rfl rfl rfl rfl
          (fun j hj => by rw [hag]; exact List.mem_cons_of_mem _ hj) (fun h => h)
      cases t with
      | act who a =>
        cases a with
        | emit n =>
          simp only [doTask]
          refine (UFrame.trans ?_ (emit_uframe cfg _ who n)).quiet hs
          cases who <;> exact ⟨rfl, rfl, rfl⟩
        | base a =>
        cases a with
        | sub j => exact doSub_quiet cfg hI2 who j i hs
        | unsub j => exact doUnsub_quiet j i hs
        | dispose => exact ⟨rfl, hs⟩
      | sadDispose k => exact (sadDispose_uframe _ k).quiet hs
      | resched k => exact ⟨rfl, hs⟩
      | handle j => exact ⟨rfl, hs⟩
    · split
      · exact ⟨rfl, hs⟩
      · rename_i it rest hp
        have f2 : UFrame st (advance { st with pending := rest } it.due) := by
          unfold advance
          dsimp only
          repeat' split
          all_goals exact ⟨rfl, rfl, rfl⟩
        have hs2 : (advance { st with pending := rest } it.due).adoStopped i = true := by rw [f2.2.2]; exact hs
        have q2 : ∀ s', Quiet i (advance { st with pending := rest } it.due) s' → Quiet i st s' :=
          fun s' q => ⟨by rw [q.1, f2.1], q.2⟩
        apply q2
        unfold invoke
        split
        · exact ⟨rfl, hs2⟩
        · split
          · rename_i k c hk
            unfold doCall
            cases c with
            | next v => exact (UFrame.trans (b := { (advance { st with pending := rest } it.due) with curCall := k, evs := (advance { st with pending := rest } it.due).evs ++ [EvR.call k (advance { st with pending := rest } it.due).clock (advance { st with pending := rest } it.due).observers.length (.next v)] }) ⟨rfl, rfl, rfl⟩ (emit_uframe cfg _ none _)).quiet hs2
            | error e => exact (UFrame.trans (b := { (advance { st with pending := rest } it.due) with curCall := k, evs := (advance { st with pending := rest } it.due).evs ++ [EvR.call k (advance { st with pending := rest } it.due).clock (advance { st with pending := rest } it.due).observers.length (.error e)] }) ⟨rfl, rfl, rfl⟩ (emit_uframe cfg _ none _)).quiet hs2
            | completed => exact (UFrame.trans (b := { (advance { st with pending := rest } it.due) with curCall := k, evs := (advance { st with pending := rest } it.due).evs ++ [EvR.call k (advance { st with pending := rest } it.due).clock (advance { st with pending := rest } it.due).observers.length .completed] }) ⟨rfl, rfl, rfl⟩ (emit_uframe cfg _ none _)).quiet hs2
            | sub j => exact ⟨rfl, hs2⟩
            | unsub j => exact ⟨rfl, hs2⟩
            | dispose => exact ⟨rfl, hs2⟩
          · exact soRun_quiet cfg _ i hs2

/-- …hence forever: along any continuation of the run. -/
theorem reach_silent {cfg : Cfg α} {calls : List (Nat × Call α)} {st : St α} (h : Reach cfg calls st) (i : Id)
    (hs : st.adoStopped i = true) (f : Nat) :
    (steps cfg f st).log i = st.log i ∧ (steps cfg f st).adoStopped i = true := by
  induction f generalizing st with
  | zero => exact ⟨rfl, hs⟩
  | succ f ih =>
    simp only [steps]
    split
    · exact ⟨rfl, hs⟩
    · have s1 := step_silent cfg (reach_inv h) i hs
      have := ih h.step s1.2
      exact ⟨this.1.trans s1.1, this.2⟩

end SubjReplay

namespace SubjReplay
open Subj (Action Call upd disposedExn upd_apply)
variable {α : Type}

/-! ## `enq` changes only at a subscription of that observer and at an accepted emission -/

theorem sadDispose_enq (st : St α) (i : Id) : (sadDispose st i).enq = st.enq := by
  unfold sadDispose removableDispose soDispose
  dsimp only
  repeat' split
  all_goals rfl

theorem soRun_enq (cfg : Cfg α) (st : St α) (i : Id) : (soRun cfg st i).enq = st.enq := by
  unfold soRun
  split
  · rfl
  · dsimp only
    have : ∀ (s : St α) n, (adoDeliver cfg s i n).1.enq = s.enq := by
      intro s n
      unfold adoDeliver callback
      dsimp only
      repeat' split
      all_goals first | rfl | exact sadDispose_enq _ _
    split
    · simp [this]
    · simp [this]

theorem doTask_enq (cfg : Cfg α) (st : St α) (t : Task α) (hsub : ∀ who j, t ≠ .act who (.base (.sub j)))
    (hemit : ∀ who n, t ≠ .act who (.emit n)) :
    (doTask cfg st t).enq = st.enq := by
  cases t with
  | act who a =>
    cases a with
    | emit n => exact absurd rfl (hemit who n)
    | base a =>
    cases a with
    | sub j => exact absurd rfl (hsub who j)
    | unsub j =>
      simp only [doTask, doUnsub]
      split
      · exact sadDispose_enq _ _
      · rfl
    | dispose => rfl
  | sadDispose i => exact sadDispose_enq _ _
  | resched i => rfl
  | handle j => rfl

theorem doSub_enq_other (cfg : Cfg α) (st : St α) (who : Option Id) (j k : Id) (hk : k ≠ j) :
    (doSub cfg st who j).1.enq k = st.enq k := by
  have p : ∀ (s : St α) n, (soPush s j n).enq k = s.enq k := by
    intro s n; rw [soPush_enq]; simp [hk]
  have pl : ∀ (ns : List (Notif α)) (s : St α), (pushList s j ns).enq k = s.enq k := by
    intro ns
    induction ns with
    | nil => intro s; rfl
    | cons n ns ih => intro s; simp only [pushList]; rw [ih, p]
  unfold doSub
  split
  · rfl
  · dsimp only
    split
    · split
      · simp [callback, hk]
      · cases who <;> simp [raiseTo, hk]
    · unfold subscribeCore
      dsimp only
      rw [ensureActive_enq]
      split
      · rw [p, pl]
      · split
        · rw [p, pl]
        · rw [pl]

end SubjReplay

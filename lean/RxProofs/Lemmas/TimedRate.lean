import RxModel.TimedRate
/-! Helper lemmas for C16 (rate limiting). -/

namespace Timed

/-! ### throttle_first -/

/-- inside the window opened by the element emitted at `l` -/
def tfWin {α} (w l : Nat) : Nat × Notif α → Bool := fun m => isNext m.2 && decide (m.1 < l + w)

theorem tfRun_dropWhile {α} (w l : Nat) (rest : TL α) :
    tfRun w (some l) rest = tfRun w (some l) (rest.dropWhile (tfWin w l)) := by
  induction rest with
  | nil => rfl
  | cons a r ih =>
    obtain ⟨t, n⟩ := a
    cases n with
    | next x =>
      by_cases h : t < l + w
      · have hn : ¬ (l + w ≤ t) := by omega
        simp only [List.dropWhile_cons, tfWin, isNext, h, decide_true, Bool.and_self, if_true]
        rw [← ih]
        simp [tfRun, tfOnNext, hn, at_]
      · simp [tfWin, isNext, h]
    | error e => simp [tfWin, isNext]
    | completed => simp [tfWin, isNext]

theorem tfRun_some_eq {α} (w : Nat) (n : Nat) : ∀ (rest : TL α), rest.length ≤ n → ∀ l,
    tfRun w (some l) rest = tfSpec w (rest.dropWhile (tfWin w l)) := by
  induction n with
  | zero =>
    intro rest hl l
    have : rest = [] := List.eq_nil_of_length_eq_zero (Nat.le_zero.1 hl)
    subst this
    simp [tfRun, tfSpec]
  | succ n ih =>
    intro rest hl l
    rw [tfRun_dropWhile]
    have hsub : (rest.dropWhile (tfWin w l)).length ≤ rest.length := (List.dropWhile_sublist _).length_le
    cases hL : rest.dropWhile (tfWin w l) with
    | nil => simp [tfRun, tfSpec]
    | cons a L' =>
      obtain ⟨t, m⟩ := a
      have hhead : tfWin w l (t, m) = false := by
        have := List.head?_dropWhile_not (tfWin w l) rest
        rw [hL] at this
        simpa using this
      have hlen : L'.length ≤ n := by
        rw [hL] at hsub; simp only [List.length_cons] at hsub; omega
      cases m with
      | next x =>
        have hn : l + w ≤ t := by
          simp [tfWin, isNext] at hhead; omega
        rw [tfSpec]
        simp only [tfRun, tfOnNext, hn, if_true, at_, List.map_cons, List.map_nil, List.singleton_append]
        rw [ih L' hlen t]
        rfl
      | error e => simp [tfRun, tfSpec]
      | completed => simp [tfRun, tfSpec]

theorem tf_run_eq_spec {α} (w : Nat) (msgs : TL α) : tfRun w none msgs = tfSpec w msgs := by
  cases msgs with
  | nil => simp [tfRun, tfSpec]
  | cons a r =>
    obtain ⟨t, n⟩ := a
    cases n with
    | next x =>
      rw [tfSpec]
      simp only [tfRun, tfOnNext, at_, List.map_cons, List.map_nil, List.singleton_append]
      rw [tfRun_some_eq w r.length r (Nat.le_refl _) t]
      rfl
    | error e => simp [tfRun, tfSpec]
    | completed => simp [tfRun, tfSpec]

/-! ### debounce -/

/-- the state while the element `x` that arrived at `t` is pending -/
def DebPending {α} (s : DebSt α) (t d : Nat) (x : α) : Prop :=
  s.hasValue = true ∧ s.value = some x ∧ s.timer = some (t + d, s.id)

theorem debOnNext_pending {α} (d t : Nat) (s : DebSt α) (x : α) : DebPending (debOnNext d t s x) t d x := by
  simp [DebPending, debOnNext]

theorem deb_pending {α} (d : Nat) (rest : TL α) (s : DebSt α) (t : Nat) (x : α) (h : DebPending s t d x) :
    debRun d s rest = debSpec d ((t, .next x) :: rest) := by
  induction rest generalizing s t x with
  | nil =>
    obtain ⟨h1, h2, h3⟩ := h
    simp [debRun, debSpec, h3, debAction, h1, debEmit, h2, at_]
  | cons a tl ih =>
    obtain ⟨t', n'⟩ := a
    obtain ⟨h1, h2, h3⟩ := h
    by_cases hlt : t + d < t'
    · cases n' with
      | next x' =>
        have := ih _ t' x' (debOnNext_pending d t' (debAdvance s t').1 x')
        simp only [debRun, this]
        simp [debSpec, hlt, debAdvance, h3, debAction, h1, debEmit, h2, at_]
      | error e =>
        simp [debRun, debSpec, hlt, debAdvance, h3, debAction, h1, debEmit, h2, at_, debOnError]
      | completed =>
        simp [debRun, debSpec, hlt, debAdvance, h3, debAction, h1, debEmit, h2, at_, debOnCompleted]
    · cases n' with
      | next x' =>
        have := ih _ t' x' (debOnNext_pending d t' (debAdvance s t').1 x')
        simp only [debRun, this]
        simp [debSpec, hlt, debAdvance, h3]
      | error e =>
        simp [debRun, debSpec, hlt, debAdvance, h3, at_, debOnError]
      | completed =>
        simp [debRun, debSpec, hlt, debAdvance, h3, at_, debOnCompleted, h1, debEmit, h2]

theorem deb_run_eq_spec {α} (d : Nat) (msgs : TL α) : debRun d {} msgs = debSpec d msgs := by
  cases msgs with
  | nil => simp [debRun, debSpec]
  | cons a tl =>
    obtain ⟨t, n⟩ := a
    cases n with
    | next x =>
      have := deb_pending d tl _ t x (debOnNext_pending d t (debAdvance ({} : DebSt α) t).1 x)
      simp only [debRun, this]
      simp [debAdvance]
    | error e => simp [debRun, debSpec, debAdvance, debOnError, at_]
    | completed => simp [debRun, debSpec, debAdvance, debOnCompleted, at_]

/-! ### sample -/

/-- the element waiting to be sampled -/
def pendOf {α} (s : SampSt α) : Option α := if s.hasValue then s.value else none

theorem sampTick_out {α} (k : Nat) (s : SampSt α) :
    at_ k (sampTick s).2 = emitAt k (pendOf s) ++ (if s.atEnd then [(k, .completed)] else []) := by
  cases hv : s.hasValue <;> cases hval : s.value <;> cases he : s.atEnd <;>
    simp [sampTick, pendOf, emitAt, at_, hv, hval, he]

theorem pendOf_tick {α} (s : SampSt α) : pendOf (sampTick s).1 = none := by simp [pendOf, sampTick]
theorem atEnd_tick {α} (s : SampSt α) : (sampTick s).1.atEnd = s.atEnd := by simp [sampTick]
theorem pendOf_onNext {α} (s : SampSt α) (v : α) : pendOf (sampOnNext s v) = some v := by simp [pendOf, sampOnNext]
theorem atEnd_onNext {α} (s : SampSt α) (v : α) : (sampOnNext s v).atEnd = s.atEnd := by simp [sampOnNext]

theorem sampRun_cons_cons {α} (tf : Bool) (s : SampSt α) (t : Nat) (n : Notif α) (rest : TL α) (k : Nat) (ev : SampEv)
    (ticks : List (Nat × SampEv)) :
    sampRun tf s ((t, n) :: rest) ((k, ev) :: ticks) =
      if timerBefore tf k t then
        match ev with
        | .tick => at_ k (sampTick s).2 ++ (if s.atEnd then [] else sampRun tf (sampTick s).1 ((t, n) :: rest) ticks)
        | .err e => [(k, .error e)]
      else
        match n with
        | .next v => sampRun tf (sampOnNext s v) rest ((k, ev) :: ticks)
        | .error e => [(t, .error e)]
        | .completed => sampRun tf (sampOnCompleted s) [] ((k, ev) :: ticks) := by
  rw [sampRun.eq_def]
  cases ev <;> cases n <;> rfl

/-- after the source completed: the next sampler event ends the sequence -/
theorem samp_run_atEnd {α} (tf : Bool) (s : SampSt α) (h : s.atEnd = true) (ticks : List (Nat × SampEv)) :
    sampRun tf s [] ticks =
      match ticks with
      | [] => []
      | (k, .tick) :: _ => emitAt k (pendOf s) ++ [(k, .completed)]
      | (k, .err e) :: _ => [(k, .error e)] := by
  cases ticks with
  | nil => simp [sampRun]
  | cons a tl =>
    obtain ⟨k, ev⟩ := a
    cases ev with
    | tick => simp [sampRun, sampTick_out, h]
    | err e => simp [sampRun]

theorem samp_run_no_ticks {α} (tf : Bool) (msgs : TL α) (s : SampSt α) :
    sampRun tf s msgs [] = sampSpec tf (pendOf s) msgs [] := by
  induction msgs generalizing s with
  | nil => simp [sampRun, sampSpec, firstTerminal]
  | cons a r ih =>
    obtain ⟨t, n⟩ := a
    cases n with
    | next v =>
      have := ih (sampOnNext s v)
      simp only [sampSpec, firstTerminal] at this ⊢
      rw [sampRun]; exact this
    | error e => simp [sampRun, sampSpec, firstTerminal]
    | completed => simp [sampRun, sampSpec, firstTerminal]

theorem samp_run_eq_spec {α} (tf : Bool) (ticks : List (Nat × SampEv)) : ∀ (msgs : TL α) (s : SampSt α),
    s.atEnd = false → sampRun tf s msgs ticks = sampSpec tf (pendOf s) msgs ticks := by
  induction ticks with
  | nil => intro msgs s _; exact samp_run_no_ticks tf msgs s
  | cons a ticks iht =>
    obtain ⟨k, ev⟩ := a
    intro msgs
    induction msgs with
    | nil =>
      intro s hs
      cases ev with
      | tick =>
        have := iht [] (sampTick s).1 (by rw [atEnd_tick]; exact hs)
        rw [pendOf_tick] at this
        simp [sampRun, sampSpec, firstTerminal, sampTick_out, hs, this, latestOf, nexts]
      | err e => simp [sampRun, sampSpec, firstTerminal]
    | cons b r ihm =>
      obtain ⟨t, n⟩ := b
      intro s hs
      rw [sampRun_cons_cons]
      by_cases hb : timerBefore tf k t = true
      · cases ev with
        | tick =>
          have := iht ((t, n) :: r) (sampTick s).1 (by rw [atEnd_tick]; exact hs)
          rw [pendOf_tick] at this
          simp [sampSpec, hb, firstTerminal, sampTick_out, hs, this, latestOf, nexts]
        | err e => simp [sampSpec, hb, firstTerminal]
      · simp only [Bool.not_eq_true] at hb
        cases n with
        | next v =>
          have := ihm (sampOnNext s v) (by rw [atEnd_onNext]; exact hs)
          rw [pendOf_onNext] at this
          simp only [hb, Bool.false_eq_true, if_false, this]
          simp [sampSpec, hb, firstTerminal, latestOf, nexts]
        | error e => simp [sampSpec, hb, firstTerminal]
        | completed =>
          simp only [hb, Bool.false_eq_true, if_false]
          rw [samp_run_atEnd tf _ (by simp [sampOnCompleted])]
          cases ev <;> simp [sampSpec, hb, firstTerminal, latestOf, nexts, pendOf, sampOnCompleted] <;> rfl

end Timed

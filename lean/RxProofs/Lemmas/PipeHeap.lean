import RxModel.PipeHeap
/-! Helper lemmas about `Pipe.settle` and the heap operations (used by C02 / C03). -/
namespace Pipe

theorem getElem?_zipIdx_map {α β} (l : List α) (f : α × Nat → β) (i : Nat) :
    ((l.zipIdx).map f)[i]? = (l[i]?).map (fun a => f (a, i)) := by
  simp [List.getElem?_map, List.getElem?_zipIdx]
  cases l[i]? <;> simp

theorem propDone_get (h : Heap) (i : Nat) : (propDone h)[i]? = (h[i]?).map (fun n => stepDone h (n, i)) :=
  getElem?_zipIdx_map h _ i

theorem propReleased_get (h : Heap) (i : Nat) : (propReleased h)[i]? = (h[i]?).map (fun n => stepReleased h (n, i)) :=
  getElem?_zipIdx_map h _ i

/-- the frame of propagation: kinds, owning edges and parents never change. -/
theorem propagate_get (h : Heap) (i : Nat) :
    (propagate h)[i]? = (h[i]?).map (fun n => stepReleased (propDone h) (stepDone h (n, i), i)) := by
  unfold propagate
  rw [propReleased_get, propDone_get]; cases h[i]? <;> simp

theorem propagate_fix_done (h : Heap) (hfix : propagate h = h) (i : Nat) (n : Node)
    (hn : h[i]? = some n) : ownedByFiring h i = true → n.done = true := by
  intro ho
  have := propagate_get h i
  rw [hfix, hn] at this
  simp only [Option.map_some, Option.some.injEq] at this
  have hd : n.done = (stepReleased (propDone h) (stepDone h (n, i), i)).done := by rw [← this]
  simp [stepReleased, stepDone, ho] at hd
  exact hd

theorem propDone_fix_of (h : Heap) (hfix : propagate h = h) : propDone h = h := by
  apply List.ext_getElem?
  intro i
  rw [propDone_get]
  cases hn : h[i]? with
  | none => rfl
  | some n =>
    simp only [Option.map_some, Option.some.injEq]
    obtain ⟨k, d, r, o, p⟩ := n
    have := propagate_fix_done h hfix i _ hn
    cases hf : ownedByFiring h i <;> simp_all [stepDone]

theorem propagate_fix_released (h : Heap) (hfix : propagate h = h) (i : Nat) (n : Node)
    (hn : h[i]? = some n) (hk : n.kind = .refcount) (hd : n.done = true) (hl : liveInners h i = 0) :
    n.released = true := by
  have hpd := propDone_fix_of h hfix
  have := propagate_get h i
  rw [hfix, hn] at this
  simp only [Option.map_some, Option.some.injEq] at this
  have hr : n.released = (stepReleased (propDone h) (stepDone h (n, i), i)).released := by rw [← this]
  rw [hpd] at hr
  simp [stepReleased, stepDone, hk, hd, hl] at hr
  first | exact hr | exact hr rfl | exact hr (by decide)

theorem settleFuel_fix (n : Nat) (h : Heap) (hp : pending h ≤ n) :
    propagate (settleFuel n h) = settleFuel n h := by
  induction n generalizing h with
  | zero =>
    simp only [settleFuel]
    by_cases hfix : propagate h = h
    · exact hfix
    · have := pending_propagate_lt h hfix; omega
  | succ n ih =>
    simp only [settleFuel]
    by_cases hfix : propagate h = h
    · simp [hfix]
    · simp only [hfix, if_false]
      have := pending_propagate_lt h hfix
      exact ih _ (by omega)

theorem settle_fix (h : Heap) : propagate (settle h) = settle h :=
  settleFuel_fix _ h (Nat.le_refl _)

/-- frame: `settle` keeps length, kinds, owning edges, parents; flags only go up. -/
structure Ext (a b : Node) : Prop where
  kind : b.kind = a.kind
  owned : b.owned = a.owned
  parent : b.parent = a.parent
  done : a.done = true → b.done = true
  released : a.released = true → b.released = true

theorem Ext.refl (a : Node) : Ext a a := ⟨rfl, rfl, rfl, id, id⟩
theorem Ext.trans {a b c : Node} (h1 : Ext a b) (h2 : Ext b c) : Ext a c :=
  ⟨h2.kind.trans h1.kind, h2.owned.trans h1.owned, h2.parent.trans h1.parent,
   fun h => h2.done (h1.done h), fun h => h2.released (h1.released h)⟩

def HeapExt (h h' : Heap) : Prop :=
  ∀ i : Nat, match (h[i]? : Option Node), (h'[i]? : Option Node) with
    | some a, some b => Ext a b
    | none, none => True
    | _, _ => False

theorem HeapExt.refl (h : Heap) : HeapExt h h := by
  intro i; cases h[i]? <;> simp [Ext.refl]

theorem HeapExt.trans {a b c : Heap} (h1 : HeapExt a b) (h2 : HeapExt b c) : HeapExt a c := by
  intro i
  have x := h1 i; have y := h2 i
  cases ha : a[i]? <;> cases hb : b[i]? <;> cases hc : c[i]? <;> simp_all
  exact Ext.trans x y

theorem propagate_ext (h : Heap) : HeapExt h (propagate h) := by
  intro i
  rw [propagate_get]
  cases h[i]? with
  | none => simp
  | some n =>
    simp only [Option.map_some]
    refine ⟨rfl, rfl, rfl, ?_, ?_⟩ <;> simp [stepReleased, stepDone] <;> intro hh <;> simp [hh]

theorem settleFuel_ext (n : Nat) (h : Heap) : HeapExt h (settleFuel n h) := by
  induction n generalizing h with
  | zero => exact HeapExt.refl h
  | succ n ih =>
    simp only [settleFuel]
    by_cases hfix : propagate h = h
    · simp [hfix]; exact HeapExt.refl h
    · simp only [hfix, if_false]; exact HeapExt.trans (propagate_ext h) (ih _)

theorem settle_ext (h : Heap) : HeapExt h (settle h) := settleFuel_ext _ h

theorem HeapExt.get {h h' : Heap} (he : HeapExt h h') {i : Nat} {a : Node} (ha : h[i]? = some a) :
    ∃ b, h'[i]? = some b ∧ Ext a b := by
  have := he i
  rw [ha] at this
  cases hb : h'[i]? with
  | none => simp [hb] at this
  | some b => simp [hb] at this; exact ⟨b, rfl, this⟩

theorem HeapExt.get' {h h' : Heap} (he : HeapExt h h') {i : Nat} {b : Node} (hb : h'[i]? = some b) :
    ∃ a, h[i]? = some a ∧ Ext a b := by
  have := he i
  rw [hb] at this
  cases ha : h[i]? with
  | none => simp [ha] at this
  | some a => simp [ha] at this; exact ⟨a, rfl, this⟩

end Pipe

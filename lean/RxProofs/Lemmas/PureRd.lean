import Mathlib.Tactic.Linarith
import Mathlib.Tactic.Positivity
import Mathlib.Tactic.Ring
import Mathlib.Tactic.FieldSimp
import Mathlib.Data.Nat.Log
import Mathlib.Algebra.Order.Field.Power
import Mathlib.Data.Rat.Defs
import RxProofs.Lemmas.PureTimeConv
/-! Helper lemmas for C36: the executable `rd` (IEEE-754 binary64 round-to-nearest-even on rationals, normal
range) is monotone, exact on integers up to 2^53 and has relative error ≤ 2^-53, i.e. `Rounding rd`.
(The only proof file of the Pure family that imports Mathlib modules.) -/
open Pure.TimeConv
namespace Pure.TimeConv

theorem pow2_eq (e : Int) : pow2 e = (2 : ℚ) ^ e := by
  unfold pow2
  split
  · rename_i h
    obtain ⟨n, rfl⟩ := Int.eq_ofNat_of_zero_le h
    simp
  · rename_i h
    obtain ⟨n, hn⟩ : ∃ n : ℕ, e = -(n : ℤ) := ⟨(-e).toNat, by omega⟩
    subst hn
    simp

theorem pow2_pos (e : Int) : 0 < pow2 e := by rw [pow2_eq]; positivity

theorem pow2_add (a b : Int) : pow2 (a + b) = pow2 a * pow2 b := by
  simp only [pow2_eq]; exact zpow_add₀ (by norm_num) a b

theorem pow2_mono {a b : Int} (h : a ≤ b) : pow2 a ≤ pow2 b := by
  simp only [pow2_eq]; exact zpow_le_zpow_right₀ (by norm_num) h

theorem pow2_lt {a b : Int} (h : pow2 a < pow2 b) : a < b := by
  by_contra hc
  have := pow2_mono (Int.not_lt.1 hc)
  linarith

theorem pow2_succ (a : Int) : pow2 (a + 1) = 2 * pow2 a := by
  rw [pow2_add]; simp [pow2_eq]; exact mul_comm _ _

/-- crude bounds from the bit lengths of numerator and denominator -/
theorem ilog2_crude (x : ℚ) (hx : 0 < x) :
    let k : Int := (Nat.log2 x.num.natAbs : Int) - (Nat.log2 x.den : Int)
    pow2 (k - 1) < x ∧ x < pow2 (k + 1) := by
  intro k
  have hnum : 0 < x.num := Rat.num_pos.2 hx
  set n := x.num.natAbs with hn
  set d := x.den with hd
  have hn0 : n ≠ 0 := by omega
  have hd0 : d ≠ 0 := x.den_nz
  have hxeq : x = (n : ℚ) / (d : ℚ) := by
    have h1 : (x.num : ℚ) = (n : ℚ) := by
      have : x.num = (n : ℤ) := by omega
      rw [this]; simp
    rw [← h1]; exact (Rat.num_div_den x).symm
  have a1 := Nat.pow_log_le_self 2 hn0
  have a2 := Nat.lt_pow_succ_log_self (b := 2) (by norm_num) n
  have b1 := Nat.pow_log_le_self 2 hd0
  have b2 := Nat.lt_pow_succ_log_self (b := 2) (by norm_num) d
  have hk : k = (Nat.log 2 n : ℤ) - (Nat.log 2 d : ℤ) := by
    simp only [k, Nat.log2_eq_log_two, hn, hd]
  have dpos : (0 : ℚ) < d := by exact_mod_cast Nat.pos_of_ne_zero hd0
  have A1 : ((2 : ℚ) ^ (Nat.log 2 n : ℤ)) ≤ n := by
    rw [zpow_natCast]; exact_mod_cast a1
  have A2 : (n : ℚ) < (2 : ℚ) ^ ((Nat.log 2 n : ℤ) + 1) := by
    have : (n : ℚ) < (2 : ℚ) ^ (Nat.log 2 n + 1) := by exact_mod_cast a2
    rw [show ((Nat.log 2 n : ℤ) + 1) = ((Nat.log 2 n + 1 : ℕ) : ℤ) by simp, zpow_natCast]; exact this
  have B1 : ((2 : ℚ) ^ (Nat.log 2 d : ℤ)) ≤ d := by
    rw [zpow_natCast]; exact_mod_cast b1
  have B2 : (d : ℚ) < (2 : ℚ) ^ ((Nat.log 2 d : ℤ) + 1) := by
    have : (d : ℚ) < (2 : ℚ) ^ (Nat.log 2 d + 1) := by exact_mod_cast b2
    rw [show ((Nat.log 2 d : ℤ) + 1) = ((Nat.log 2 d + 1 : ℕ) : ℤ) by simp, zpow_natCast]; exact this
  rw [hxeq, pow2_eq, pow2_eq, hk]
  constructor
  · -- 2^(a-b-1) * d < 2^(a-b-1) * 2^(b+1) = 2^a ≤ n
    rw [lt_div_iff₀ dpos]
    calc (2 : ℚ) ^ ((Nat.log 2 n : ℤ) - (Nat.log 2 d : ℤ) - 1) * d
        < (2 : ℚ) ^ ((Nat.log 2 n : ℤ) - (Nat.log 2 d : ℤ) - 1) * (2 : ℚ) ^ ((Nat.log 2 d : ℤ) + 1) := by
          apply mul_lt_mul_of_pos_left B2; positivity
      _ = (2 : ℚ) ^ (Nat.log 2 n : ℤ) := by
          rw [← zpow_add₀ (by norm_num : (2 : ℚ) ≠ 0)]; congr 1; ring
      _ ≤ n := A1
  · rw [div_lt_iff₀ dpos]
    calc (n : ℚ) < (2 : ℚ) ^ ((Nat.log 2 n : ℤ) + 1) := A2
      _ = (2 : ℚ) ^ ((Nat.log 2 n : ℤ) - (Nat.log 2 d : ℤ) + 1) * (2 : ℚ) ^ (Nat.log 2 d : ℤ) := by
          rw [← zpow_add₀ (by norm_num : (2 : ℚ) ≠ 0)]; congr 1; ring
      _ ≤ (2 : ℚ) ^ ((Nat.log 2 n : ℤ) - (Nat.log 2 d : ℤ) + 1) * d := by
          apply mul_le_mul_of_nonneg_left B1; positivity

theorem ilog2_spec (x : ℚ) (hx : 0 < x) : pow2 (ilog2 x) ≤ x ∧ x < pow2 (ilog2 x + 1) := by
  have h := ilog2_crude x hx
  simp only at h
  unfold ilog2
  simp only
  generalize ((Nat.log2 x.num.natAbs : Int) - (Nat.log2 x.den : Int)) = k at *
  split
  · rename_i h1
    split
    · rename_i h2
      exact absurd h.2 (not_lt.2 h2)
    · rename_i h2
      exact ⟨h1, not_le.1 h2⟩
  · rename_i h1
    refine ⟨le_of_lt h.1, ?_⟩
    have : k - 1 + 1 = k := by ring
    rw [this]; exact not_le.1 h1

/-- `rd` on a positive argument -/
def rdp (a : ℚ) : ℚ := (rhe (a / pow2 (ilog2 a - 52)) : ℚ) * pow2 (ilog2 a - 52)

theorem rd_zero : rd 0 = 0 := by simp [rd]
theorem rd_pos {x : ℚ} (h : 0 < x) : rd x = rdp x := by
  have h1 : x ≠ 0 := ne_of_gt h
  have h2 : ¬ x < 0 := not_lt.2 (le_of_lt h)
  simp [rd, rdp, h1, h2]
theorem rd_neg {x : ℚ} (h : x < 0) : rd x = -rdp (-x) := by
  have h1 : x ≠ 0 := ne_of_lt h
  simp [rd, rdp, h1, h]

theorem pow2_52 : pow2 52 = 4503599627370496 := by rw [pow2_eq]; norm_num
theorem pow2_53 : pow2 53 = 9007199254740992 := by rw [pow2_eq]; norm_num

/-- the scaled significand lies in [2^52, 2^53) -/
theorem scaled_range (a : ℚ) (ha : 0 < a) :
    (4503599627370496 : ℚ) ≤ a / pow2 (ilog2 a - 52) ∧ a / pow2 (ilog2 a - 52) < 9007199254740992 := by
  obtain ⟨h1, h2⟩ := ilog2_spec a ha
  have hp := pow2_pos (ilog2 a - 52)
  have e1 : pow2 (ilog2 a) = pow2 (ilog2 a - 52) * 4503599627370496 := by
    rw [← pow2_52, ← pow2_add]; congr 1; ring
  have e2 : pow2 (ilog2 a + 1) = pow2 (ilog2 a - 52) * 9007199254740992 := by
    rw [← pow2_53, ← pow2_add]; congr 1; ring
  constructor
  · rw [le_div_iff₀ hp]; linarith
  · rw [div_lt_iff₀ hp]; linarith

theorem mant_range (a : ℚ) (ha : 0 < a) :
    (4503599627370496 : ℤ) ≤ rhe (a / pow2 (ilog2 a - 52)) ∧ rhe (a / pow2 (ilog2 a - 52)) ≤ (9007199254740992 : ℤ) := by
  obtain ⟨h1, h2⟩ := scaled_range a ha
  have l := rhe_mono (x := ((4503599627370496 : ℤ) : ℚ)) (y := a / pow2 (ilog2 a - 52)) (by simpa using h1)
  have u := rhe_mono (x := a / pow2 (ilog2 a - 52)) (y := ((9007199254740992 : ℤ) : ℚ)) (by simpa using le_of_lt h2)
  rw [rhe_int] at l u
  exact ⟨l, u⟩

theorem rdp_pos (a : ℚ) (ha : 0 < a) : 0 < rdp a := by
  have := (mant_range a ha).1
  have hp := pow2_pos (ilog2 a - 52)
  unfold rdp
  apply mul_pos _ hp
  have : (4503599627370496 : ℚ) ≤ (rhe (a / pow2 (ilog2 a - 52)) : ℚ) := by exact_mod_cast this
  linarith

/-- relative error ≤ 2^-53 -/
theorem rdp_err (a : ℚ) (ha : 0 < a) :
    a - a / 9007199254740992 ≤ rdp a ∧ rdp a ≤ a + a / 9007199254740992 := by
  obtain ⟨s1, s2⟩ := scaled_range a ha
  have hn := rhe_near (a / pow2 (ilog2 a - 52))
  have hp := pow2_pos (ilog2 a - 52)
  unfold rdp
  set p := pow2 (ilog2 a - 52) with hpdef
  set m : ℚ := (rhe (a / p) : ℚ) with hm
  have ha' : a = (a / p) * p := by field_simp
  have hs : (4503599627370496 : ℚ) * p ≤ a := by
    rw [le_div_iff₀ hp] at s1; exact s1
  -- |m·p − a| = |m − a/p|·p ≤ p/2 ≤ a / 2^53
  constructor
  · have : (a / p - 1 / 2) * p ≤ m * p := mul_le_mul_of_nonneg_right hn.1 (le_of_lt hp)
    have e : (a / p - 1 / 2) * p = a - p / 2 := by field_simp
    rw [e] at this
    linarith
  · have : m * p ≤ (a / p + 1 / 2) * p := mul_le_mul_of_nonneg_right hn.2 (le_of_lt hp)
    have e : (a / p + 1 / 2) * p = a + p / 2 := by field_simp
    rw [e] at this
    linarith

theorem ilog2_mono {x y : ℚ} (hx : 0 < x) (h : x ≤ y) : ilog2 x ≤ ilog2 y := by
  have a := (ilog2_spec x hx).1
  have b := (ilog2_spec y (lt_of_lt_of_le hx h)).2
  have : ilog2 x < ilog2 y + 1 := pow2_lt (by linarith)
  omega

theorem rdp_mono {x y : ℚ} (hx : 0 < x) (h : x ≤ y) : rdp x ≤ rdp y := by
  have hy : 0 < y := lt_of_lt_of_le hx h
  have he := ilog2_mono hx h
  rcases lt_or_eq_of_le he with hlt | heq
  · -- different binades
    have mx := (mant_range x hx).2
    have my := (mant_range y hy).1
    have px := pow2_pos (ilog2 x - 52)
    have py := pow2_pos (ilog2 y - 52)
    have mx' : (rhe (x / pow2 (ilog2 x - 52)) : ℚ) ≤ 9007199254740992 := by exact_mod_cast mx
    have my' : (4503599627370496 : ℚ) ≤ (rhe (y / pow2 (ilog2 y - 52)) : ℚ) := by exact_mod_cast my
    have step : pow2 (ilog2 x - 52) * 9007199254740992 ≤ pow2 (ilog2 y - 52) * 4503599627370496 := by
      rw [← pow2_53, ← pow2_52, ← pow2_add, ← pow2_add]
      apply pow2_mono; omega
    unfold rdp
    calc (rhe (x / pow2 (ilog2 x - 52)) : ℚ) * pow2 (ilog2 x - 52)
        ≤ 9007199254740992 * pow2 (ilog2 x - 52) := mul_le_mul_of_nonneg_right mx' (le_of_lt px)
      _ = pow2 (ilog2 x - 52) * 9007199254740992 := mul_comm _ _
      _ ≤ pow2 (ilog2 y - 52) * 4503599627370496 := step
      _ = 4503599627370496 * pow2 (ilog2 y - 52) := mul_comm _ _
      _ ≤ (rhe (y / pow2 (ilog2 y - 52)) : ℚ) * pow2 (ilog2 y - 52) := mul_le_mul_of_nonneg_right my' (le_of_lt py)
  · unfold rdp
    rw [heq]
    have p := pow2_pos (ilog2 y - 52)
    have : x / pow2 (ilog2 y - 52) ≤ y / pow2 (ilog2 y - 52) := div_le_div_of_nonneg_right h (le_of_lt p)
    have := rhe_mono this
    have : (rhe (x / pow2 (ilog2 y - 52)) : ℚ) ≤ (rhe (y / pow2 (ilog2 y - 52)) : ℚ) := by exact_mod_cast this
    exact mul_le_mul_of_nonneg_right this (le_of_lt p)

theorem rd_mono (x y : ℚ) (h : x ≤ y) : rd x ≤ rd y := by
  rcases lt_trichotomy x 0 with hx | hx | hx
  · rcases lt_trichotomy y 0 with hy | hy | hy
    · rw [rd_neg hx, rd_neg hy]
      have := rdp_mono (x := -y) (y := -x) (by linarith) (by linarith)
      linarith
    · subst hy; rw [rd_neg hx, rd_zero]; have := rdp_pos (-x) (by linarith); linarith
    · rw [rd_neg hx, rd_pos hy]
      have := rdp_pos (-x) (by linarith); have := rdp_pos y hy; linarith
  · subst hx
    rcases lt_or_eq_of_le h with hy | hy
    · rw [rd_zero, rd_pos hy]; exact le_of_lt (rdp_pos y hy)
    · rw [← hy]
  · have hy : 0 < y := lt_of_lt_of_le hx h
    rw [rd_pos hx, rd_pos hy]; exact rdp_mono hx h

theorem rdp_int (k : ℤ) (h0 : 0 < k) (h1 : k ≤ 9007199254740992) : rdp (k : ℚ) = (k : ℚ) := by
  have hk : (0 : ℚ) < (k : ℚ) := by exact_mod_cast h0
  have hk1 : (k : ℚ) ≤ 9007199254740992 := by exact_mod_cast h1
  obtain ⟨s1, s2⟩ := ilog2_spec (k : ℚ) hk
  have hL : ilog2 (k : ℚ) ≤ 53 := by
    have : pow2 (ilog2 (k : ℚ)) < pow2 54 := by
      have : pow2 54 = 18014398509481984 := by rw [pow2_eq]; norm_num
      rw [this]; linarith
    have := pow2_lt this; omega
  have hp := pow2_pos (ilog2 (k : ℚ) - 52)
  -- the scaled value is an integer
  have hint : ∃ j : ℤ, (k : ℚ) / pow2 (ilog2 (k : ℚ) - 52) = (j : ℚ) := by
    rcases lt_or_eq_of_le hL with hlt | heq
    · -- exponent ≤ 0 : multiply by a natural power of two
      obtain ⟨n, hn⟩ : ∃ n : ℕ, ilog2 (k : ℚ) - 52 = -(n : ℤ) := ⟨(52 - ilog2 (k : ℚ)).toNat, by omega⟩
      refine ⟨k * 2 ^ n, ?_⟩
      rw [hn, pow2_eq, zpow_neg, zpow_natCast]
      push_cast
      field_simp
    · -- exponent 1 : k = 2^53
      have : (k : ℚ) = 9007199254740992 := by
        rw [heq, pow2_53] at s1; linarith
      refine ⟨4503599627370496, ?_⟩
      rw [heq, this]
      have : pow2 (53 - 52) = 2 := by rw [pow2_eq]; norm_num
      rw [this]; norm_num
  obtain ⟨j, hj⟩ := hint
  unfold rdp
  rw [hj, rhe_int, ← hj]
  field_simp

theorem rd_int (k : ℤ) (hlo : -9007199254740992 ≤ k) (hhi : k ≤ 9007199254740992) : rd (k : ℚ) = (k : ℚ) := by
  rcases lt_trichotomy k 0 with h | h | h
  · have hk : (k : ℚ) < 0 := by exact_mod_cast h
    rw [rd_neg hk]
    have := rdp_int (-k) (by omega) (by omega)
    push_cast at this
    rw [this]; ring
  · subst h; simp [rd_zero]
  · have hk : (0 : ℚ) < (k : ℚ) := by exact_mod_cast h
    rw [rd_pos hk]; exact rdp_int k h hhi

theorem rd_rounding : Rounding rd where
  mono := rd_mono
  fixInt := rd_int
  errPos := fun x h => by
    rcases lt_or_eq_of_le h with hx | hx
    · rw [rd_pos hx]; exact rdp_err x hx
    · rw [← hx, rd_zero]; norm_num
  errNeg := fun x h => by
    rcases lt_or_eq_of_le h with hx | hx
    · rw [rd_neg hx]
      have := rdp_err (-x) (by linarith)
      constructor <;> linarith [this.1, this.2]
    · rw [hx, rd_zero]; norm_num

end Pure.TimeConv

import RxProofs.Lemmas.WinGrp
/-!
# C02/C03 support: the grouping machines release every source subscription

`Released s` : neither the source subscription nor any duration subscription is live.
`R1 s`       : once the RefCountDisposable is disposed (= `group_disposable` disposed) everything is released.
`R1` is preserved by every step; together with the reference-count invariant `WinGrp.Inv` it gives the
theorems at the end (all for every event trace, by induction).
-/
namespace WinGrp
variable {α κ β : Type}

/-- neither the source subscription nor any duration subscription is live -/
def Released (s : St κ β) : Prop :=
  s.srcOpen = false ∧ ∀ (j : Nat) (r : Grp κ β), s.groups[j]? = some r → r.dur ≠ DurSt.live

def R1 (s : St κ β) : Prop := s.rcdDisposed = true → Released s

/-- duration subscriptions only ever close -/
def DM (s s' : St κ β) : Prop :=
  ∀ (j : Nat) (r' : Grp κ β), s'.groups[j]? = some r' → r'.dur = DurSt.live → ∃ r : Grp κ β, s.groups[j]? = some r ∧ r.dur = DurSt.live

theorem DM_of_DE {s s' : St κ β} (h : DE s s') : DM s s' := by
  intro j r' hr' hl; obtain ⟨r, hr, hd, _⟩ := h j r' hr'; exact ⟨r, hr, hd hl⟩

theorem released_mono {s s' : St κ β} (h : Released s) (hd : DM s s') (ho : s'.srcOpen = true → s.srcOpen = true) : Released s' := by
  refine ⟨?_, ?_⟩
  · cases h' : s'.srcOpen with
    | false => rfl
    | true => have := ho h'; rw [h.1] at this; cases this
  · intro j r' hr' hl
    obtain ⟨r, hr, hl'⟩ := hd j r' hr' hl
    exact h.2 j r hr hl'

/-- a transformer that does not dispose, does not open the source and only closes durations keeps `R1` -/
theorem R1_keep {s s' : St κ β} (h : R1 s) (hdis : s'.rcdDisposed = s.rcdDisposed) (hd : DM s s')
    (ho : s'.srcOpen = true → s.srcOpen = true) : R1 s' :=
  fun h' => released_mono (h (hdis ▸ h')) hd ho

theorem R1_emit {s : St κ β} (h : R1 s) (e) : R1 (emit s e) := R1_keep h rfl (DM_of_DE (DE_emit s e)) id

theorem DM_modGrp (s : St κ β) (g : Nat) (f : Grp κ β → Grp κ β) (hf : ∀ r, (f r).dur = .live → r.dur = .live) :
    DM s (modGrp s g f) := by
  intro j r' hr' hl
  simp only [modGrp_groups, List.getElem?_modify] at hr'
  cases h : s.groups[j]? with
  | none => simp [h] at hr'
  | some r =>
    refine ⟨r, rfl, ?_⟩
    by_cases hgj : g = j
    · simp only [h, hgj, if_true, Option.map_eq_map, Option.map_some, Option.some.injEq] at hr'; subst hr'; exact hf r hl
    · simp only [h, hgj, if_false, Option.map_eq_map, Option.map_some, Option.some.injEq] at hr'; subst hr'; exact hl

theorem R1_modGrp {s : St κ β} (h : R1 s) (g : Nat) (f : Grp κ β → Grp κ β) (hf : ∀ r, (f r).dur = .live → r.dur = .live) :
    R1 (modGrp s g f) := R1_keep h rfl (DM_modGrp s g f hf) id

theorem R1_closeDur {s : St κ β} (h : R1 s) (g : Nat) : R1 (closeDur s g) := by
  refine R1_keep h ?_ (DM_of_DE (DE_closeDur s g)) ?_
  · have := congrArg Core.rcdDisposed (core_closeDur s g); simpa using this
  · unfold closeDur; split
    · split <;> exact id
    · exact id

theorem R1_closeSrc {s : St κ β} (h : R1 s) : R1 (closeSrc s) := by
  refine R1_keep h ?_ (DM_of_DE (DE_closeSrc s)) ?_
  · have := congrArg Core.rcdDisposed (core_closeSrc s); simpa using this
  · unfold closeSrc; split
    · intro h'; simp at h'
    · exact id

/-- a live duration is listed by `liveDurs` -/
theorem mem_liveDurs (l : List (Grp κ β)) (i j : Nat) (r : Grp κ β) (h : l[j]? = some r) (hl : r.dur = .live) :
    (i + j) ∈ liveDurs l i := by
  induction l generalizing i j with
  | nil => simp at h
  | cons a l ih =>
    cases j with
    | zero =>
      simp only [List.getElem?_cons_zero, Option.some.injEq] at h; subst h
      simp [liveDurs, hl]
    | succ j =>
      simp only [List.getElem?_cons_succ] at h
      have := ih (i + 1) j h
      have e : i + 1 + j = i + (j + 1) := by omega
      rw [e] at this
      unfold liveDurs; split <;> simp_all

theorem srcOpen_closeDur (s : St κ β) (g : Nat) : (closeDur s g).srcOpen = s.srcOpen := by
  unfold closeDur; split
  · split <;> rfl
  · rfl

theorem srcOpen_foldl_closeDur (s : St κ β) (l : List Nat) : (l.foldl closeDur s).srcOpen = s.srcOpen := by
  induction l generalizing s with
  | nil => rfl
  | cons a l ih => simp only [List.foldl]; rw [ih, srcOpen_closeDur]

theorem foldl_closeDur_closes (s : St κ β) (l : List Nat) (j : Nat) (hj : j ∈ l) (r : Grp κ β)
    (hr : (l.foldl closeDur s).groups[j]? = some r) : r.dur ≠ .live := by
  induction l generalizing s with
  | nil => cases hj
  | cons a l ih =>
    simp only [List.foldl] at hr
    by_cases hjl : j ∈ l
    · exact ih _ hjl hr
    · have hja : j = a := by rcases List.mem_cons.mp hj with h | h; exact h; exact absurd h hjl
      subst hja
      intro hl
      obtain ⟨r0, hr0, hl0, _⟩ := DE_foldl_closeDur (closeDur s j) l j r hr
      exact closeDur_not_live s j r0 hr0 (hl0 hl)

/-- `group_disposable.dispose()` releases the source and every duration subscription -/
theorem gdDispose_released (s : St κ β) : Released (gdDispose s) := by
  unfold gdDispose
  refine ⟨?_, ?_⟩
  · rw [srcOpen_foldl_closeDur]; unfold closeSrc; split <;> simp_all
  · intro j r hr hl
    obtain ⟨r0, hr0, hl0, _⟩ := DE_foldl_closeDur _ _ j r hr
    have hmem := mem_liveDurs _ 0 j r0 hr0 (hl0 hl)
    rw [Nat.zero_add] at hmem
    exact foldl_closeDur_closes _ _ j hmem r hr hl

theorem rcdDisposed_gdDispose (s : St κ β) : (gdDispose s).rcdDisposed = s.rcdDisposed := by
  have := congrArg Core.rcdDisposed (core_gdDispose s); simpa [aGd] using this

theorem R1_rcdDispose {s : St κ β} (h : R1 s) : R1 (rcdDispose s) := by
  unfold rcdDispose; split
  · exact h
  · split
    · simp only; split
      · exact fun _ => gdDispose_released _
      · exact R1_keep h rfl (DM_of_DE (DE_of_groups_eq rfl)) id
    · exact h

theorem R1_rcdRelease {s : St κ β} (h : R1 s) : R1 (rcdRelease s) := by
  unfold rcdRelease; split
  · exact h
  · simp only; split
    · exact fun _ => gdDispose_released _
    · exact R1_keep h rfl (DM_of_DE (DE_of_groups_eq rfl)) id

theorem R1_scalar {s s' : St κ β} (h : R1 s) (h1 : s'.rcdDisposed = s.rcdDisposed) (h2 : s'.srcOpen = s.srcOpen)
    (h3 : s'.groups = s.groups) : R1 s' :=
  R1_keep h h1 (DM_of_DE (DE_of_groups_eq h3)) (by rw [h2]; exact id)

macro "r1" : tactic => `(tactic| repeat (first
  | assumption
  | exact R1_scalar (by assumption) rfl rfl rfl
  | apply R1_emit
  | (apply R1_modGrp; rotate_left; (intro _; exact id))))

theorem R1_subEnd {s : St κ β} (h : R1 s) (g : Nat) : R1 (subEnd s g) := by
  unfold subEnd; split
  · simp only; split
    · apply R1_rcdRelease; r1
    · r1
  · exact h

theorem R1_writerNext {s : St κ β} (h : R1 s) (g : Nat) (v : β) : R1 (writerNext s g v) := by
  unfold writerNext; split
  · split
    · exact h
    · simp only; split <;> r1
  · exact h

theorem R1_writerTerm {s : St κ β} (h : R1 s) (g : Nat) (n : Notif β) : R1 (writerTerm s g n) := by
  unfold writerTerm; split
  · split
    · exact h
    · simp only; split
      · apply R1_subEnd; r1
      · r1
  · exact h

theorem R1_foldl_writerTerm {s : St κ β} (h : R1 s) (l : List Nat) (n : Notif β) :
    R1 (l.foldl (fun s g => writerTerm s g n) s) := by
  induction l generalizing s with
  | nil => exact h
  | cons a l ih => exact ih (R1_writerTerm h a n)

theorem R1_termAll {s : St κ β} (h : R1 s) (n : Notif β) : R1 (termAll s n) := R1_foldl_writerTerm h _ n

theorem R1_outerTerm {s : St κ β} (h : R1 s) (n) : R1 (outerTerm s n) := by
  unfold outerTerm; split
  · exact h
  · apply R1_rcdDispose; r1

theorem R1_errorAll {s : St κ β} (h : R1 s) (e : Err) : R1 (errorAll s e) :=
  R1_outerTerm (R1_termAll (R1_scalar (s' := { s with failed := true }) h rfl rfl rfl) _) _

theorem R1_subscribeGroup {s : St κ β} (h : R1 s) (g : Nat) : R1 (subscribeGroup s g) := by
  unfold subscribeGroup; split
  · split
    · exact h
    · simp only; split
      · r1
      · apply R1_subEnd; r1
  · exact h

theorem R1_expire (cfg : Cfg α κ β) {s : St κ β} (h : R1 s) (g : Nat) : R1 (expire cfg s g) := by
  unfold expire; split
  · split
    · exact R1_emit h _
    · simp only; split
      · apply R1_writerTerm; r1
      · apply R1_closeDur; apply R1_writerTerm; r1
  · exact h

theorem R1_durFire (cfg : Cfg α κ β) {s : St κ β} (h : R1 s) (g : Nat) (n : Notif Unit) : R1 (durFire cfg s g n) := by
  cases n with
  | error e => exact R1_closeDur (R1_errorAll h e) g
  | next v => exact R1_closeDur (R1_expire cfg h g) g
  | completed => exact R1_closeDur (R1_expire cfg h g) g

theorem R1_pushElem (cfg : Cfg α κ β) {s : St κ β} (h : R1 s) (g : Nat) (x : α) : R1 (pushElem cfg s g x) := by
  unfold pushElem; split
  · exact R1_errorAll h _
  · exact R1_writerNext h g _

theorem R1_announce (cfg : Cfg α κ β) {s : St κ β} (h : R1 s) (g : Nat) (k : κ) : R1 (announce cfg s g k) := by
  unfold announce
  have ha : R1 (if s.outStopped then s else
      if cfg.imm g then subscribeGroup (emit (modGrp s g fun r => { r with announced := true }) (.outer (.next (g, k)))) g
      else emit (modGrp s g fun r => { r with announced := true }) (.outer (.next (g, k)))) := by
    have h1 : R1 (emit (modGrp s g fun r => { r with announced := true }) (.outer (.next (g, k)))) := by r1
    split
    · exact h
    · split
      · exact R1_subscribeGroup h1 g
      · exact h1
  generalize (if s.outStopped then s else
      if cfg.imm g then subscribeGroup (emit (modGrp s g fun r => { r with announced := true }) (.outer (.next (g, k)))) g
      else emit (modGrp s g fun r => { r with announced := true }) (.outer (.next (g, k)))) = s2 at ha
  split
  · exact R1_durFire cfg ha g _
  · -- the duration is subscribed; if group_disposable is already disposed the `sad` is disposed at once
    simp only
    split
    · rename_i hd
      intro _
      have hdis : (emit (modGrp s2 g fun r => { r with dur := .live }) (Eff.subDur g)).rcdDisposed = true := hd
      have hrel := ha (by simpa using hdis)
      refine ⟨?_, ?_⟩
      · rw [srcOpen_closeDur]; exact hrel.1
      · intro j r hr hl
        by_cases hjg : j = g
        · subst hjg; exact closeDur_not_live _ _ _ hr hl
        · obtain ⟨r1, hr1, hl1, _⟩ := DE_closeDur _ g j r hr
          simp only [emit_groups, modGrp_groups, List.getElem?_modify] at hr1
          cases h2 : s2.groups[j]? with
          | none => simp [h2] at hr1
          | some r2 =>
            have : ¬ g = j := fun e => hjg e.symm
            simp only [h2, this, if_false, Option.map_eq_map, Option.map_some, Option.some.injEq] at hr1
            subst hr1
            exact hrel.2 j _ h2 (hl1 hl)
    · rename_i hd
      intro h'
      exact absurd h' hd

theorem R1_addGroup {s : St κ β} (h : R1 s) (k : κ) : R1 (addGroup s k) := by
  intro hd
  obtain ⟨h1, h2⟩ := h hd
  refine ⟨h1, ?_⟩
  intro j r hr
  simp only [addGroup] at hr
  by_cases hj : j < s.groups.length
  · rw [List.getElem?_append_left hj] at hr; exact h2 j r hr
  · rw [List.getElem?_append_right (Nat.le_of_not_lt hj)] at hr
    cases hi : j - s.groups.length with
    | zero => simp [hi] at hr; subst hr; simp
    | succ m => simp [hi] at hr

theorem R1_srcNext (cfg : Cfg α κ β) {s : St κ β} (h : R1 s) (x : α) : R1 (srcNext cfg s x) := by
  unfold srcNext
  split
  · exact R1_errorAll h _
  · rename_i k _
    split
    · exact R1_pushElem cfg h _ x
    · simp only
      split
      · exact R1_errorAll h _
      · have h1 : R1 (addGroup s k) := R1_addGroup h k
        split
        · exact R1_errorAll h1 _
        · exact R1_pushElem cfg (R1_announce cfg h1 _ k) _ x

theorem R1_step (cfg : Cfg α κ β) {s : St κ β} (h : R1 s) (e : Ev α) : R1 (step cfg s e) := by
  cases e with
  | src n =>
    cases n with
    | next x => simp only [step]; split; exact h; exact R1_srcNext cfg h x
    | error e =>
      simp only [step]; split
      · exact h
      · apply R1_closeSrc; apply R1_errorAll; r1
    | completed =>
      simp only [step]; split
      · exact h
      · apply R1_closeSrc; apply R1_outerTerm; apply R1_termAll; r1
  | dur g n =>
    simp only [step, durEvent]
    split
    · split
      · exact R1_durFire cfg h g n
      · exact h
    · exact h
  | disposeOuter => simp only [step]; apply R1_rcdDispose; r1
  | subGroup g =>
    simp only [step]
    rcases subscribeLate_cases s g with e | e <;> rw [e]
    · exact h
    · exact R1_modGrp (R1_subscribeGroup h g) g _ (fun _ => id)
  | disposeGroup g =>
    simp only [step]
    split
    · split
      · exact R1_subEnd h g
      · exact h
    · exact h

theorem R1_run (cfg : Cfg α κ β) {s : St κ β} (h : R1 s) (evs : List (Ev α)) : R1 (run cfg s evs) := by
  induction evs generalizing s with
  | nil => exact h
  | cons e es ih => exact ih (R1_step cfg h e)

theorem R1_init : R1 (init : St κ β) := fun h => by simp [init] at h

/-! ### the theorems (group_by_until / group_by) -/

/-- **terminal_releases_all.**  For every event trace: if the outer subscriber is stopped (it received the
terminal — error or completion — or its subscription was disposed) and no group subscriber holds a reference of
the RefCountDisposable any more (every group handed out has terminated or its subscriber has unsubscribed), then
neither the source nor any duration observable is still subscribed. -/
theorem terminal_releases_all (cfg : Cfg α κ β) (hrefl : ∀ k, cfg.keyEq k k = true) (evs : List (Ev α)) :
    let s := run cfg (init : St κ β) evs
    s.outStopped = true → (∀ r ∈ s.groups, r.holdsRef = false) → Released s := by
  intro s ho hnone
  have hi := inv_reach hrefl (cfg := cfg) (β := β) evs
  have hr1 : R1 s := R1_run cfg R1_init evs
  apply hr1
  have hw := hi.wf
  have hprim : s.primary = true := hw.out_prim ho
  cases hd : s.rcdDisposed with
  | true => rfl
  | false =>
    exfalso
    have hc := hw.cnt hd
    simp only [core_count, core_gs] at hc
    have hz : (s.groups.map cg).countP (·.holdsRef) = 0 := by
      rw [List.countP_eq_zero]; intro r hr
      obtain ⟨a, ha, rfl⟩ := List.mem_map.mp hr
      simp [cg, hnone a ha]
    exact hw.prim_cnt hprim hd (by simp only [core_count]; rw [hc, hz])

/-- **dispose_releases_all.**  For every event trace: in every reached state in which the outer subscription is
disposed (`is_primary_disposed`) and the reference count is 0, neither the source nor any duration observable
is subscribed — i.e. the sources are released as soon as the last group subscriber is gone. -/
theorem dispose_releases_all (cfg : Cfg α κ β) (hrefl : ∀ k, cfg.keyEq k k = true) (evs : List (Ev α)) :
    let s := run cfg (init : St κ β) evs
    s.primary = true → s.count = 0 → Released s := by
  intro s hp hc
  have hi := inv_reach hrefl (cfg := cfg) (β := β) evs
  have hr1 : R1 s := R1_run cfg R1_init evs
  apply hr1
  cases hd : s.rcdDisposed with
  | true => rfl
  | false => exact absurd hc (hi.wf.prim_cnt hp hd)

/-- **holder_blocks_release** (the converse, what the code does).  While some group subscriber still holds a
reference, the RefCountDisposable is not disposed, the count is positive, and disposing the outer subscription
releases nothing: the source subscription and every duration subscription stay exactly as they are (only
`is_primary_disposed` is set; the release happens when the last holder goes, by `dispose_releases_all`). -/
theorem holder_blocks_release (cfg : Cfg α κ β) (hrefl : ∀ k, cfg.keyEq k k = true) (evs : List (Ev α))
    (r : Grp κ β) :
    let s := run cfg (init : St κ β) evs
    let s' := step cfg s .disposeOuter
    r ∈ s.groups → r.holdsRef = true →
      s.rcdDisposed = false ∧ 0 < s.count ∧ s'.rcdDisposed = false ∧ s'.primary = true ∧
      s'.srcOpen = s.srcOpen ∧ s'.srcStopped = s.srcStopped ∧ s'.groups = s.groups := by
  intro s s' hr hh
  have hi := inv_reach hrefl (cfg := cfg) (β := β) evs
  have hw := hi.wf
  have hd : s.rcdDisposed = false := by
    cases hd : s.rcdDisposed with
    | false => rfl
    | true =>
      have := hw.nr hd (cg r) (List.mem_map.mpr ⟨r, hr, rfl⟩)
      simp only [cg] at this; rw [hh] at this; cases this
  have hc := hw.cnt hd
  simp only [core_count, core_gs] at hc
  have hpos : 0 < s.count := by
    rw [hc]; exact List.countP_pos_iff.mpr ⟨cg r, List.mem_map.mpr ⟨r, hr, rfl⟩, hh⟩
  have hne : ¬ (s.count = 0) := by omega
  refine ⟨hd, hpos, ?_⟩
  have hs' : s' = rcdDispose { s with outStopped := true } := rfl
  rw [hs']
  unfold rcdDispose
  by_cases hp : s.primary <;> simp [hd, hp, hne]

/-! non-vacuity -/
def exCfg2 : Cfg Nat Nat Nat :=
  { keyEq := fun a b => a == b, keyMapper := fun x => .ok (x % 2), elemMapper := fun x => .ok x,
    subjMapper := fun _ => .ok (), durMapper := fun _ => .ok (), dsync := fun _ => none, imm := fun _ => true }

/-- outer disposed while two group subscribers hold references: nothing released; released once both are gone -/
example : (let s := run exCfg2 init [.src (.next 1), .src (.next 2), .disposeOuter]
    (s.primary, s.count, s.srcOpen, s.groups.map fun r => decide (r.dur = .live))) = (true, 2, true, [true, true]) := by decide
example : (let s := run exCfg2 init [.src (.next 1), .src (.next 2), .disposeOuter, .disposeGroup 0, .disposeGroup 1]
    (s.primary, s.count, s.srcOpen, s.groups.map fun r => decide (r.dur = .live))) = (true, 0, false, [false, false]) := by decide
/-- source completion: groups and outer terminate, everything released -/
example : (let s := run exCfg2 init [.src (.next 1), .src (.next 2), .src .completed]
    (s.outStopped, s.groups.map (·.holdsRef), s.srcOpen, s.groups.map fun r => decide (r.dur = .live))) =
    (true, [false, false], false, [false, false]) := by decide
end WinGrp

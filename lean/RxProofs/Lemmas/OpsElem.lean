import RxProofs.Lemmas.Ops
import RxModel.OpsElem
import RxModel.OpsRef
/-!
# Per-operator lemmas: `Op.sem` of every C05 operator equals its reference list semantics
-/
namespace Ops
variable {α β γ κ : Type}

theorem sem_simple (op : Op α β) (h1 : op.pre = []) (h2 : op.sub = true) (raw : List (Notif α)) :
    op.sem raw = cut (op.emitsSeq op.init (elems raw) (fin raw)) := by
  simp [sem_eq_seq, h1, h2]

@[simp] theorem cut_toNotifs (e : End) : cut (e.toNotifs : List (Notif β)) = e.toNotifs := by
  cases e <;> rfl

theorem outSeq_cons (y : β) (ys : List β) (e : End) : outSeq (y :: ys) e = .next y :: outSeq ys e := rfl
@[simp] theorem outSeq_nil (e : End) : outSeq ([] : List β) e = e.toNotifs := rfl

/-! ### the identity stage (`pipe()` of nothing / the observer added by a trailing `.subscribe(obv)`) -/
theorem emitsSeq_id (xs : List α) (e : End) : cut ((idOp (α := α)).emitsSeq () xs e) = outSeq xs e := by
  induction xs with
  | nil => cases e <;> simp [Op.emitsSeq, idOp, End.toNotifs]
  | cons x xs ih => simp_all [Op.emitsSeq, idOp, outSeq_cons]

theorem sem_idOp (raw : List (Notif α)) : (idOp (α := α)).sem raw = outSeq (elems raw) (fin raw) := by
  rw [sem_simple _ rfl rfl]; exact emitsSeq_id _ _

theorem sem_idOp_cut (raw : List (Notif α)) : (idOp (α := α)).sem raw = cut raw := by
  rw [sem_idOp, cut_eq_outSeq]

/-! ### map -/
theorem emitsSeq_map (f : α → Except Err β) (s : Unit) (xs : List α) (e : End) :
    cut ((mapOp f).emitsSeq s xs e) = refMap f xs e := by
  induction xs with
  | nil => cases e <;> simp [Op.emitsSeq, mapOp, refMap, passErr, passDone, End.toNotifs]
  | cons x xs ih =>
    simp only [Op.emitsSeq, refMap]
    cases h : f x <;> simp_all [mapOp, emit]

theorem sem_map (f : α → Except Err β) (raw : List (Notif α)) :
    (mapOp f).sem raw = refMap f (elems raw) (fin raw) := by
  rw [sem_simple _ rfl rfl]; exact emitsSeq_map f _ _ _

/-! ### filter -/
theorem emitsSeq_filter (p : α → Except Err Bool) (s : Unit) (xs : List α) (e : End) :
    cut ((filterOp p).emitsSeq s xs e) = refFilter p xs e := by
  induction xs with
  | nil => cases e <;> simp [Op.emitsSeq, filterOp, refFilter, passErr, passDone, End.toNotifs]
  | cons x xs ih =>
    simp only [Op.emitsSeq, refFilter]
    cases h : p x with
    | error er => simp_all [filterOp, emit]
    | ok b => cases b <;> simp_all [filterOp, emit]

theorem sem_filter (p : α → Except Err Bool) (raw : List (Notif α)) :
    (filterOp p).sem raw = refFilter p (elems raw) (fin raw) := by
  rw [sem_simple _ rfl rfl]; exact emitsSeq_filter p _ _ _

/-! ### filter_indexed -/
theorem emitsSeq_filterIndexed (p : α → Nat → Except Err Bool) (i : Nat) (xs : List α) (e : End) :
    cut ((filterIndexedOp (some p)).emitsSeq i xs e) = refFilterIdx p i xs e := by
  induction xs generalizing i with
  | nil => cases e <;> simp [Op.emitsSeq, filterIndexedOp, refFilterIdx, passErr, passDone, End.toNotifs]
  | cons x xs ih =>
    simp only [Op.emitsSeq, refFilterIdx]
    cases h : p x i with
    | error er => simp_all [filterIndexedOp, emit]
    | ok b => cases b <;> simp_all [filterIndexedOp, emit]

theorem sem_filterIndexed (p : α → Nat → Except Err Bool) (raw : List (Notif α)) :
    (filterIndexedOp (some p)).sem raw = refFilterIdx p 0 (elems raw) (fin raw) := by
  rw [sem_simple _ rfl rfl]; exact emitsSeq_filterIndexed p _ _ _

theorem emitsSeq_filterIndexed_none (i : Nat) (xs : List α) (e : End) :
    cut ((filterIndexedOp (α := α) none).emitsSeq i xs e) = outSeq xs e := by
  induction xs generalizing i with
  | nil => cases e <;> simp [Op.emitsSeq, filterIndexedOp, passErr, passDone, End.toNotifs]
  | cons x xs ih => simp_all [Op.emitsSeq, filterIndexedOp, emit, outSeq_cons]

theorem sem_filterIndexed_none (raw : List (Notif α)) :
    (filterIndexedOp (α := α) none).sem raw = outSeq (elems raw) (fin raw) := by
  rw [sem_simple _ rfl rfl]; exact emitsSeq_filterIndexed_none _ _ _

/-! ### take -/
theorem emitsSeq_takePos (c : Nat) (rem : Nat) (hr : 0 < rem) (xs : List α) (e : End) :
    cut ((takePosOp (α := α) c).emitsSeq rem xs e)
      = outSeq (xs.take rem) (if rem ≤ xs.length then .completed else e) := by
  induction xs generalizing rem with
  | nil =>
    have : ¬ rem ≤ 0 := by omega
    cases e <;> simp [Op.emitsSeq, takePosOp, passErr, passDone, End.toNotifs, this]
  | cons x xs ih =>
    obtain ⟨k, rfl⟩ : ∃ k, rem = k + 1 := ⟨rem - 1, by omega⟩
    cases k with
    | zero => simp [Op.emitsSeq, takePosOp, emit, outSeq, End.toNotifs]
    | succ k =>
      have := ih (k + 1) (by omega)
      simp [Op.emitsSeq, takePosOp, emit, outSeq_cons] at this ⊢
      exact this

theorem sem_take (n : Nat) (raw : List (Notif α)) :
    (takeOp n).sem raw = outSeq ((elems raw).take n) (if n ≤ (elems raw).length then .completed else fin raw) := by
  cases n with
  | zero => simp [takeOp, Op.sem, emptyOp, End.toNotifs]
  | succ n =>
    have : (takeOp (α := α) (n + 1)) = takePosOp (n + 1) := by simp [takeOp]
    rw [this, sem_simple _ rfl rfl]; exact emitsSeq_takePos (n + 1) (n + 1) (by omega) _ _

/-! ### skip -/
theorem emitsSeq_skip (c : Nat) (rem : Nat) (xs : List α) (e : End) :
    cut ((skipOp (α := α) c).emitsSeq rem xs e) = outSeq (xs.drop rem) e := by
  induction xs generalizing rem with
  | nil => cases e <;> simp [Op.emitsSeq, skipOp, passErr, passDone, End.toNotifs]
  | cons x xs ih =>
    cases rem with
    | zero => have := ih 0; simp [Op.emitsSeq, skipOp, emit, outSeq_cons] at this ⊢; exact this
    | succ k => have := ih k; simp [Op.emitsSeq, skipOp, emit] at this ⊢; exact this

theorem sem_skip (n : Nat) (raw : List (Notif α)) :
    (skipOp n).sem raw = outSeq ((elems raw).drop n) (fin raw) := by
  rw [sem_simple _ rfl rfl]; exact emitsSeq_skip _ _ _ _

/-! ### take_while -/
theorem emitsSeq_takeWhile (p : α → Except Err Bool) (incl : Bool) (xs : List α) (e : End) :
    cut ((takeWhileOp p incl).emitsSeq true xs e) = refTakeWhile p incl xs e := by
  induction xs with
  | nil => cases e <;> simp [Op.emitsSeq, takeWhileOp, refTakeWhile, passErr, passDone, End.toNotifs]
  | cons x xs ih =>
    simp only [Op.emitsSeq, refTakeWhile]
    cases h : p x with
    | error er => simp_all [takeWhileOp, emit]
    | ok b =>
      cases b
      · cases incl <;> simp_all [takeWhileOp, emit]
      · simp_all [takeWhileOp, emit]

theorem sem_takeWhile (p : α → Except Err Bool) (incl : Bool) (raw : List (Notif α)) :
    (takeWhileOp p incl).sem raw = refTakeWhile p incl (elems raw) (fin raw) := by
  rw [sem_simple _ rfl rfl]; exact emitsSeq_takeWhile p incl _ _

theorem emitsSeq_takeWhileIndexed (p : α → Nat → Except Err Bool) (incl : Bool) (i : Nat) (xs : List α) (e : End) :
    cut ((takeWhileIndexedOp p incl).emitsSeq (true, i) xs e) = refTakeWhileIdx p incl i xs e := by
  induction xs generalizing i with
  | nil => cases e <;> simp [Op.emitsSeq, takeWhileIndexedOp, refTakeWhileIdx, passErr, passDone, End.toNotifs]
  | cons x xs ih =>
    simp only [Op.emitsSeq, refTakeWhileIdx]
    cases h : p x i with
    | error er => simp_all [takeWhileIndexedOp, emit]
    | ok b =>
      cases b
      · cases incl <;> simp_all [takeWhileIndexedOp, emit]
      · simp_all [takeWhileIndexedOp, emit]

theorem sem_takeWhileIndexed (p : α → Nat → Except Err Bool) (incl : Bool) (raw : List (Notif α)) :
    (takeWhileIndexedOp p incl).sem raw = refTakeWhileIdx p incl 0 (elems raw) (fin raw) := by
  rw [sem_simple _ rfl rfl]; exact emitsSeq_takeWhileIndexed p incl _ _ _

/-! ### skip_while -/
theorem emitsSeq_skipWhile_running (p : α → Except Err Bool) (xs : List α) (e : End) :
    cut ((skipWhileOp p).emitsSeq true xs e) = outSeq xs e := by
  induction xs with
  | nil => cases e <;> simp [Op.emitsSeq, skipWhileOp, passErr, passDone, End.toNotifs]
  | cons x xs ih => simp_all [Op.emitsSeq, skipWhileOp, emit, outSeq_cons]

theorem emitsSeq_skipWhile (p : α → Except Err Bool) (xs : List α) (e : End) :
    cut ((skipWhileOp p).emitsSeq false xs e) = refSkipWhile p xs e := by
  induction xs with
  | nil => cases e <;> simp [Op.emitsSeq, skipWhileOp, refSkipWhile, passErr, passDone, End.toNotifs]
  | cons x xs ih =>
    simp only [Op.emitsSeq, refSkipWhile]
    cases h : p x with
    | error er => simp_all [skipWhileOp, emit]
    | ok b =>
      cases b
      · have := emitsSeq_skipWhile_running p xs e
        simp_all [skipWhileOp, emit, outSeq_cons]
      · simp_all [skipWhileOp, emit]

theorem sem_skipWhile (p : α → Except Err Bool) (raw : List (Notif α)) :
    (skipWhileOp p).sem raw = refSkipWhile p (elems raw) (fin raw) := by
  rw [sem_simple _ rfl rfl]; exact emitsSeq_skipWhile p _ _


/-! ### zip_with_iterable(infinite()), map_indexed, skip_while_indexed -/
theorem emitsSeq_zipIdx (i : Nat) (xs : List α) (e : End) :
    cut ((zipWithIterableOp (α := α) (fun i => some i)).emitsSeq i xs e) = outSeq (xs.zipIdx i) e := by
  induction xs generalizing i with
  | nil => cases e <;> simp [Op.emitsSeq, zipWithIterableOp, passErr, passDone, End.toNotifs]
  | cons x xs ih =>
    have := ih (i + 1)
    simp [Op.emitsSeq, zipWithIterableOp, emit, outSeq_cons] at this ⊢; exact this

theorem sem_zipIdx (raw : List (Notif α)) :
    (zipWithIterableOp (α := α) (fun i => some i)).sem raw = outSeq ((elems raw).zipIdx 0) (fin raw) := by
  rw [sem_simple _ rfl rfl]; exact emitsSeq_zipIdx _ _ _

theorem refMap_zipIdx (f : α → Nat → Except Err β) (i : Nat) (xs : List α) (e : End) :
    refMap (fun t : α × Nat => f t.1 t.2) (xs.zipIdx i) e = refMapIdx f i xs e := by
  induction xs generalizing i with
  | nil => rfl
  | cons x xs ih => simp only [List.zipIdx_cons, refMap, refMapIdx]; cases f x i <;> simp [ih]

theorem cut_refMapIdx (f : α → Nat → Except Err β) (i : Nat) (xs : List α) (e : End) :
    cut (refMapIdx f i xs e) = refMapIdx f i xs e := by
  induction xs generalizing i with
  | nil => simp [refMapIdx]
  | cons x xs ih => simp only [refMapIdx]; cases f x i <;> simp [ih]

theorem sem_mapIndexed (f : α → Nat → Except Err β) (raw : List (Notif α)) :
    (mapIndexedOp f).sem raw = refMapIdx f 0 (elems raw) (fin raw) := by
  rw [mapIndexedOp, sem_comp, sem_comp, sem_map, sem_zipIdx, sem_idOp_cut]
  simp only [elems_outSeq, fin_outSeq, refMap_zipIdx]
  exact cut_refMapIdx f 0 _ _

theorem refMapIdx_pair (i : Nat) (xs : List α) (e : End) :
    refMapIdx (fun x i => Except.ok (x, i)) i xs e = outSeq (xs.zipIdx i) e := by
  induction xs generalizing i with
  | nil => rfl
  | cons x xs ih => simp [refMapIdx, ih, outSeq_cons]

theorem refSkipWhile_zipIdx (p : α → Nat → Except Err Bool) (i : Nat) (xs : List α) (e : End) :
    refMap (fun t : α × Nat => Except.ok t.1)
        (elems (refSkipWhile (fun t : α × Nat => p t.1 t.2) (xs.zipIdx i) e))
        (fin (refSkipWhile (fun t : α × Nat => p t.1 t.2) (xs.zipIdx i) e))
      = refSkipWhileIdx p i xs e := by
  induction xs generalizing i with
  | nil => cases e <;> simp [refSkipWhile, refSkipWhileIdx, End.toNotifs, elems, fin, refMap]
  | cons x xs ih =>
    simp only [List.zipIdx_cons, refSkipWhile, refSkipWhileIdx]
    cases h : p x i with
    | error er => simp [elems, fin, refMap, End.toNotifs]
    | ok b =>
      cases b
      · simp only [Bool.false_eq_true, if_false, elems_outSeq, fin_outSeq]
        rw [← List.zipIdx_cons]
        generalize x :: xs = ys
        clear ih h
        induction ys generalizing i with
        | nil => simp [refMap]
        | cons y ys ih => simp [refMap, outSeq_cons, ih]
      · simpa using ih (i + 1)

theorem sem_skipWhileIndexed (p : α → Nat → Except Err Bool) (raw : List (Notif α)) :
    (skipWhileIndexedOp p).sem raw = refSkipWhileIdx p 0 (elems raw) (fin raw) := by
  rw [skipWhileIndexedOp, sem_comp, sem_comp, sem_map, sem_skipWhile, sem_mapIndexed, refMapIdx_pair]
  simp [refSkipWhile_zipIdx]

/-! ### distinct -/
theorem findMatch_eq_anyMatch (cmp : κ → κ → Except Err Bool) (k : κ) (seen : List κ) :
    findMatch cmp k seen = anyMatch cmp k seen := by
  induction seen with
  | nil => rfl
  | cons a rest ih =>
    cases h : cmp a k with
    | error er => simp [findMatch, anyMatch, h]
    | ok b => cases b <;> simp [findMatch, anyMatch, h, ih]

theorem emitsSeq_distinct (key : α → Except Err κ) (cmp : κ → κ → Except Err Bool) (seen : List κ) (xs : List α) (e : End) :
    cut ((distinctOp key cmp).emitsSeq seen xs e) = refDistinct key cmp seen xs e := by
  induction xs generalizing seen with
  | nil => cases e <;> simp [Op.emitsSeq, distinctOp, refDistinct, passErr, passDone, End.toNotifs]
  | cons x xs ih =>
    simp only [Op.emitsSeq, refDistinct]
    cases h : key x with
    | error er => simp_all [distinctOp, emit]
    | ok k =>
      cases hm : anyMatch cmp k seen with
      | error er => simp_all [distinctOp, emit, findMatch_eq_anyMatch]
      | ok b =>
        cases b
        · have := ih (seen ++ [k]); simp_all [distinctOp, emit, findMatch_eq_anyMatch]
        · have := ih seen; simp_all [distinctOp, emit, findMatch_eq_anyMatch]

theorem sem_distinct (key : α → Except Err κ) (cmp : κ → κ → Except Err Bool) (raw : List (Notif α)) :
    (distinctOp key cmp).sem raw = refDistinct key cmp [] (elems raw) (fin raw) := by
  rw [sem_simple _ rfl rfl]; exact emitsSeq_distinct key cmp _ _ _

/-! ### distinct_until_changed -/
theorem emitsSeq_duc (key : α → Except Err κ) (cmp : κ → κ → Except Err Bool) (cur : Option κ) (xs : List α) (e : End) :
    cut ((distinctUntilChangedOp key cmp).emitsSeq cur xs e) = refDUC key cmp cur xs e := by
  induction xs generalizing cur with
  | nil => cases e <;> simp [Op.emitsSeq, distinctUntilChangedOp, refDUC, passErr, passDone, End.toNotifs]
  | cons x xs ih =>
    simp only [Op.emitsSeq, refDUC]
    cases h : key x with
    | error er => simp_all [distinctUntilChangedOp, emit]
    | ok k =>
      cases cur with
      | none => have := ih (some k); simp_all [distinctUntilChangedOp, emit]
      | some c =>
        cases hc : cmp c k with
        | error er => simp_all [distinctUntilChangedOp, emit]
        | ok eq =>
          cases eq
          · have := ih (some k); simp_all [distinctUntilChangedOp, emit]
          · have := ih (some c); simp_all [distinctUntilChangedOp, emit]

theorem sem_duc (key : α → Except Err κ) (cmp : κ → κ → Except Err Bool) (raw : List (Notif α)) :
    (distinctUntilChangedOp key cmp).sem raw = refDUC key cmp none (elems raw) (fin raw) := by
  rw [sem_simple _ rfl rfl]; exact emitsSeq_duc key cmp _ _ _

/-! ### pairwise -/
theorem emitsSeq_pairwise_some (p : α) (xs : List α) (e : End) :
    cut ((pairwiseOp (α := α)).emitsSeq (some p) xs e) = outSeq ((p :: xs).zip xs) e := by
  induction xs generalizing p with
  | nil => cases e <;> simp [Op.emitsSeq, pairwiseOp, passErr, passDone, End.toNotifs]
  | cons x xs ih =>
    have := ih x
    simp [Op.emitsSeq, pairwiseOp, emit, outSeq_cons] at this ⊢; exact this

theorem sem_pairwise (raw : List (Notif α)) :
    (pairwiseOp (α := α)).sem raw = outSeq ((elems raw).zip (elems raw).tail) (fin raw) := by
  rw [sem_simple _ rfl rfl]
  cases h : elems raw with
  | nil => cases fin raw <;> simp [Op.emitsSeq, pairwiseOp, passErr, passDone, End.toNotifs]
  | cons x xs =>
    have := emitsSeq_pairwise_some x xs (fin raw)
    simp [Op.emitsSeq, pairwiseOp, emit] at this ⊢; exact this

/-! ### start_with, default_if_empty, ignore_elements -/
theorem emitsSeq_startWith (args : List α) (xs : List α) (e : End) :
    cut ((startWithOp args).emitsSeq () xs e) = outSeq xs e := by
  induction xs with
  | nil => cases e <;> simp [Op.emitsSeq, startWithOp, passErr, passDone, End.toNotifs]
  | cons x xs ih => simp_all [Op.emitsSeq, startWithOp, emit, outSeq_cons]

theorem sem_startWith (args : List α) (raw : List (Notif α)) :
    (startWithOp args).sem raw = outSeq (args ++ elems raw) (fin raw) := by
  rw [sem_eq_seq]
  have h1 : (startWithOp args).pre = args.map Notif.next := rfl
  have h2 : (startWithOp args).sub = true := rfl
  have h3 : (startWithOp args).init = () := rfl
  rw [h1, h2, h3, if_pos rfl, cut_map_next_append, emitsSeq_startWith]
  simp [outSeq]

theorem emitsSeq_defaultIfEmpty_found (d : α) (xs : List α) (e : End) :
    cut ((defaultIfEmptyOp d).emitsSeq true xs e) = outSeq xs e := by
  induction xs with
  | nil => cases e <;> simp [Op.emitsSeq, defaultIfEmptyOp, passErr, emit, End.toNotifs]
  | cons x xs ih => simp_all [Op.emitsSeq, defaultIfEmptyOp, emit, outSeq_cons]

theorem sem_defaultIfEmpty (d : α) (raw : List (Notif α)) :
    (defaultIfEmptyOp d).sem raw
      = outSeq (if (elems raw).isEmpty = true ∧ fin raw = .completed then [d] else elems raw) (fin raw) := by
  rw [sem_simple _ rfl rfl]
  cases h : elems raw with
  | nil => cases fin raw <;> simp [Op.emitsSeq, defaultIfEmptyOp, passErr, emit, End.toNotifs, outSeq]
  | cons x xs =>
    have := emitsSeq_defaultIfEmpty_found d xs (fin raw)
    simp [Op.emitsSeq, defaultIfEmptyOp, emit, outSeq_cons] at this ⊢; exact this

theorem sem_ignoreElements (raw : List (Notif α)) :
    (ignoreElementsOp (α := α)).sem raw = outSeq [] (fin raw) := by
  rw [sem_simple _ rfl rfl]
  generalize elems raw = xs
  induction xs with
  | nil => cases fin raw <;> simp [Op.emitsSeq, ignoreElementsOp, passErr, passDone, End.toNotifs]
  | cons x xs ih => simp_all [Op.emitsSeq, ignoreElementsOp, emit]


/-! ### take_last, skip_last, take_last_buffer -/
theorem lastN_append_lastN (n : Nat) (a b : List α) : lastN n (lastN n a ++ b) = lastN n (a ++ b) := by
  unfold lastN
  simp only [List.drop_append, List.drop_drop, List.length_drop, List.length_append]
  congr 1 <;> congr 1 <;> omega

theorem lastN_length_le (n : Nat) (a : List α) : (lastN n a).length ≤ n := by
  unfold lastN; simp; omega

theorem lastN_of_length_le (n : Nat) (a : List α) (h : a.length ≤ n) : lastN n a = a := by
  unfold lastN; simp [Nat.sub_eq_zero_of_le h]

theorem pushBounded_eq (q : List α) (x : α) (count : Int) (h : q.length ≤ count.toNat) :
    pushBounded q x count = lastN count.toNat (q ++ [x]) := by
  unfold pushBounded lastN
  simp only [List.length_append, List.length_singleton]
  split
  · have : q.length + 1 - count.toNat = 1 := by omega
    rw [this]; simp
  · have : q.length + 1 - count.toNat = 0 := by omega
    rw [this]; simp

theorem emitsSeq_takeLast (count : Int) (q : List α) (h : q.length ≤ count.toNat) (xs : List α) (e : End) :
    cut ((takeLastOp count).emitsSeq q xs e)
      = outSeq (if e = .completed then lastN count.toNat (q ++ xs) else []) e := by
  induction xs generalizing q with
  | nil =>
    cases e <;> simp [Op.emitsSeq, takeLastOp, passErr, emit, End.toNotifs, outSeq, cut_map_next_append,
      lastN_of_length_le _ _ h]
  | cons x xs ih =>
    have hq := pushBounded_eq q x count h
    have := ih (pushBounded q x count) (by rw [hq]; exact lastN_length_le _ _)
    rw [hq, lastN_append_lastN] at this
    simp [Op.emitsSeq, takeLastOp, emit, hq] at this ⊢; exact this

theorem sem_takeLast (count : Int) (raw : List (Notif α)) :
    (takeLastOp count).sem raw
      = outSeq (if fin raw = .completed then lastN count.toNat (elems raw) else []) (fin raw) := by
  rw [sem_simple _ rfl rfl]
  have h := emitsSeq_takeLast count [] (by simp) (elems raw) (fin raw)
  simp only [List.nil_append] at h; exact h

theorem emitsSeq_takeLastBuffer (count : Int) (q : List α) (h : q.length ≤ count.toNat) (xs : List α) (e : End) :
    cut ((takeLastBufferOp count).emitsSeq q xs e)
      = outSeq (if e = .completed then [lastN count.toNat (q ++ xs)] else []) e := by
  induction xs generalizing q with
  | nil =>
    cases e <;> simp [Op.emitsSeq, takeLastBufferOp, passErr, emit, End.toNotifs, outSeq,
      lastN_of_length_le _ _ h]
  | cons x xs ih =>
    have hq := pushBounded_eq q x count h
    have := ih (pushBounded q x count) (by rw [hq]; exact lastN_length_le _ _)
    rw [hq, lastN_append_lastN] at this
    simp [Op.emitsSeq, takeLastBufferOp, emit, hq] at this ⊢; exact this

theorem sem_takeLastBuffer (count : Int) (raw : List (Notif α)) :
    (takeLastBufferOp count).sem raw
      = outSeq (if fin raw = .completed then [lastN count.toNat (elems raw)] else []) (fin raw) := by
  rw [sem_simple _ rfl rfl]
  have h := emitsSeq_takeLastBuffer count [] (by simp) (elems raw) (fin raw)
  simp only [List.nil_append] at h; exact h

theorem butLastN_cons_full (n : Nat) (front : α) (rest xs : List α) (h : rest.length = n) :
    butLastN n (front :: (rest ++ xs)) = front :: butLastN n (rest ++ xs) := by
  unfold butLastN
  have h1 : (front :: (rest ++ xs)).length - n = xs.length + 1 := by simp; omega
  have h2 : (rest ++ xs).length - n = xs.length := by simp; omega
  rw [h1, h2]; rfl

theorem emitsSeq_skipLast (count : Int) (q : List α) (h : q.length ≤ count.toNat) (xs : List α) (e : End) :
    cut ((skipLastOp count).emitsSeq q xs e) = outSeq (butLastN count.toNat (q ++ xs)) e := by
  induction xs generalizing q with
  | nil =>
    have : butLastN count.toNat q = [] := by unfold butLastN; simp [Nat.sub_eq_zero_of_le h]
    cases e <;> simp [Op.emitsSeq, skipLastOp, passErr, passDone, End.toNotifs, this]
  | cons x xs ih =>
    by_cases hlen : ((q ++ [x]).length : Int) > count
    · cases hq : q ++ [x] with
      | nil => simp at hq
      | cons front rest =>
        have hl : (q ++ [x]).length = rest.length + 1 := by rw [hq]; rfl
        have hrest : rest.length = count.toNat := by
          simp only [List.length_append, List.length_singleton] at hl hlen; omega
        have := ih rest (by omega)
        have e1 : q ++ x :: xs = front :: (rest ++ xs) := by
          rw [show q ++ x :: xs = (q ++ [x]) ++ xs by simp, hq]; rfl
        rw [e1, butLastN_cons_full _ _ _ _ hrest]
        have hc : count < (rest.length : Int) + 1 := by
          simp only [List.length_append, List.length_singleton] at hl hlen; omega
        simp only [Op.emitsSeq]
        simp [skipLastOp, emit, hc, hq, outSeq_cons] at this ⊢; exact this
    · have hle : (q ++ [x]).length ≤ count.toNat := by
        simp only [List.length_append, List.length_singleton] at hlen ⊢; omega
      have := ih (q ++ [x]) hle
      have hc : ¬ count < (q.length : Int) + 1 := by
        simp only [List.length_append, List.length_singleton] at hlen; omega
      simp only [Op.emitsSeq]
      simp [skipLastOp, emit, hc] at this ⊢; exact this

theorem sem_skipLast (count : Int) (raw : List (Notif α)) :
    (skipLastOp count).sem raw = outSeq (butLastN count.toNat (elems raw)) (fin raw) := by
  rw [sem_simple _ rfl rfl]
  have h := emitsSeq_skipLast count [] (by simp) (elems raw) (fin raw)
  simp only [List.nil_append] at h; exact h

/-! ### element_at(_or_default) -/
theorem emitsSeq_elementAt (index : Nat) (dflt : Option α) (i : Nat) (xs : List α) (e : End) :
    cut ((elementAtOrDefaultOp index dflt).emitsSeq (i : Int) xs e) = refElementAt i dflt xs e := by
  induction xs generalizing i with
  | nil =>
    cases e <;> cases dflt <;>
      simp [Op.emitsSeq, elementAtOrDefaultOp, refElementAt, passErr, emit, End.toNotifs]
  | cons x xs ih =>
    cases i with
    | zero => simp [Op.emitsSeq, elementAtOrDefaultOp, refElementAt, emit]
    | succ k =>
      have := ih k
      have hpos : ((k + 1 : Nat) : Int) > 0 := by omega
      have hsub : ((k + 1 : Nat) : Int) - 1 = (k : Int) := by omega
      simp only [Op.emitsSeq, elementAtOrDefaultOp, emit, hpos, if_true, hsub, List.nil_append,
        Bool.false_eq_true, if_false] at this ⊢
      simpa [refElementAt] using this

theorem sem_elementAt (index : Nat) (dflt : Option α) (raw : List (Notif α)) :
    (elementAtOrDefaultOp index dflt).sem raw = refElementAt index dflt (elems raw) (fin raw) := by
  rw [sem_simple _ rfl rfl]; exact emitsSeq_elementAt _ _ _ _ _

/-! ### find / find_index -/
theorem emitsSeq_find (p : α → Nat → Except Err Bool) (yes : α → Nat → β) (no : β) (i : Nat) (xs : List α) (e : End) :
    cut ((findValueOp p yes no).emitsSeq (i, false) xs e) = refFind p yes no i xs e := by
  induction xs generalizing i with
  | nil => cases e <;> simp [Op.emitsSeq, findValueOp, refFind, passErr, emit, End.toNotifs]
  | cons x xs ih =>
    simp only [Op.emitsSeq, refFind]
    cases h : p x i with
    | error er => simp_all [findValueOp, emit]
    | ok b =>
      cases b
      · have := ih (i + 1); simp_all [findValueOp, emit]
      · simp_all [findValueOp, emit]

theorem sem_find (p : α → Nat → Except Err Bool) (yes : α → Nat → β) (no : β) (raw : List (Notif α)) :
    (findValueOp p yes no).sem raw = refFind p yes no 0 (elems raw) (fin raw) := by
  rw [sem_simple _ rfl rfl]; exact emitsSeq_find _ _ _ _ _ _

/-! ### materialize / dematerialize -/
theorem sem_materialize (raw : List (Notif α)) :
    (materializeOp (α := α)).sem raw = refMaterialize (elems raw) (fin raw) := by
  rw [sem_simple _ rfl rfl]
  generalize elems raw = xs
  induction xs with
  | nil => cases fin raw <;> simp [Op.emitsSeq, materializeOp, refMaterialize, emit]
  | cons x xs ih => simp_all [Op.emitsSeq, materializeOp, refMaterialize, emit]

theorem sem_dematerialize (raw : List (Notif (Notif α))) :
    (dematerializeOp (α := α)).sem raw = cut (elems raw ++ (fin raw).toNotifs) := by
  rw [sem_simple _ rfl rfl]
  generalize elems raw = ns
  induction ns with
  | nil => cases fin raw <;> simp [Op.emitsSeq, dematerializeOp, passErr, passDone, End.toNotifs]
  | cons n ns ih =>
    cases n <;> simp_all [Op.emitsSeq, dematerializeOp, emit]

theorem elems_refMaterialize (xs : List α) (e : End) :
    elems (refMaterialize xs e) ++ (fin (refMaterialize xs e)).toNotifs
      = outSeq xs e ++ (match e with | .open => [] | _ => [.completed]) := by
  induction xs with
  | nil => cases e <;> simp [refMaterialize, elems, fin, End.toNotifs]
  | cons x xs ih =>
    simp only [refMaterialize, List.map_cons, List.cons_append, elems, fin, outSeq_cons] at ih ⊢
    rw [ih]

@[simp] theorem elems_map_next (xs : List α) : elems (xs.map Notif.next) = xs := by
  have := elems_outSeq xs .open; simpa [outSeq, End.toNotifs] using this
@[simp] theorem fin_map_next (xs : List α) : fin (xs.map Notif.next) = .open := by
  have := fin_outSeq xs .open; simpa [outSeq, End.toNotifs] using this

theorem sem_dematerialize_materialize (raw : List (Notif α)) :
    ((materializeOp (α := α)).comp dematerializeOp).sem raw = cut raw := by
  rw [sem_comp, sem_dematerialize, sem_materialize, elems_refMaterialize, cut_eq_outSeq raw]
  generalize fin raw = e; generalize elems raw = xs
  cases e <;> simp [outSeq, cut_map_next_append, End.toNotifs, cut_of_no_terminal]

/-! ### scan (with seed) -/
theorem emitsSeq_scanSeed (f : β → α → Except Err β) (seed : β) (acc : Option β) (xs : List α) (e : End) :
    cut ((scanSeedOp f seed).emitsSeq acc xs e) = refScan f (acc.getD seed) xs e := by
  induction xs generalizing acc with
  | nil => cases e <;> simp [Op.emitsSeq, scanSeedOp, refScan, passErr, passDone, End.toNotifs]
  | cons x xs ih =>
    simp only [Op.emitsSeq, refScan]
    cases h : f (acc.getD seed) x with
    | error er => simp_all [scanSeedOp, emit]
    | ok a => have := ih (some a); simp_all [scanSeedOp, emit]

theorem sem_scanSeed (f : β → α → Except Err β) (seed : β) (raw : List (Notif α)) :
    (scanSeedOp f seed).sem raw = refScan f seed (elems raw) (fin raw) := by
  rw [sem_simple _ rfl rfl]; exact emitsSeq_scanSeed f seed none _ _


/-! ## Callbacks that do not raise: the reference loops are the standard list functions -/

theorem refMap_pure (g : α → β) (xs : List α) (e : End) :
    refMap (fun x => .ok (g x)) xs e = outSeq (xs.map g) e := by
  induction xs with
  | nil => rfl
  | cons x xs ih => simp [refMap, ih, outSeq_cons]

theorem refMapIdx_pure (g : α → Nat → β) (i : Nat) (xs : List α) (e : End) :
    refMapIdx (fun x i => .ok (g x i)) i xs e = outSeq ((xs.zipIdx i).map (fun t => g t.1 t.2)) e := by
  induction xs generalizing i with
  | nil => rfl
  | cons x xs ih => simp [refMapIdx, ih, outSeq_cons]

theorem refFilter_pure (q : α → Bool) (xs : List α) (e : End) :
    refFilter (fun x => .ok (q x)) xs e = outSeq (xs.filter q) e := by
  induction xs with
  | nil => rfl
  | cons x xs ih => cases h : q x <;> simp [refFilter, ih, h, outSeq_cons]

theorem refFilterIdx_pure (q : α → Nat → Bool) (i : Nat) (xs : List α) (e : End) :
    refFilterIdx (fun x i => .ok (q x i)) i xs e
      = outSeq (((xs.zipIdx i).filter (fun t => q t.1 t.2)).map (·.1)) e := by
  induction xs generalizing i with
  | nil => rfl
  | cons x xs ih => cases h : q x i <;> simp [refFilterIdx, ih, h, outSeq_cons]

theorem refTakeWhile_pure (q : α → Bool) (incl : Bool) (xs : List α) (e : End) :
    refTakeWhile (fun x => .ok (q x)) incl xs e
      = outSeq (xs.takeWhile q ++ (if incl then (xs.dropWhile q).take 1 else []))
          (if xs.all q then e else .completed) := by
  induction xs with
  | nil => cases incl <;> simp [refTakeWhile]
  | cons x xs ih =>
    cases h : q x
    · cases incl <;> simp [refTakeWhile, h, outSeq, End.toNotifs]
    · simp [refTakeWhile, ih, h, outSeq_cons]

theorem refTakeWhileIdx_pure (q : α → Nat → Bool) (incl : Bool) (i : Nat) (xs : List α) (e : End) :
    refTakeWhileIdx (fun x i => .ok (q x i)) incl i xs e
      = outSeq (((xs.zipIdx i).takeWhile (fun t => q t.1 t.2) ++
            (if incl then ((xs.zipIdx i).dropWhile (fun t => q t.1 t.2)).take 1 else [])).map (·.1))
          (if (xs.zipIdx i).all (fun t => q t.1 t.2) then e else .completed) := by
  induction xs generalizing i with
  | nil => cases incl <;> simp [refTakeWhileIdx]
  | cons x xs ih =>
    cases h : q x i
    · cases incl <;> simp [refTakeWhileIdx, h, outSeq, End.toNotifs]
    · have hall : ((x :: xs).zipIdx i).all (fun t => q t.1 t.2)
          = (xs.zipIdx (i + 1)).all (fun t => q t.1 t.2) := by simp [h]
      rw [hall]; simp [refTakeWhileIdx, ih, h, outSeq_cons]

theorem refSkipWhile_pure (q : α → Bool) (xs : List α) (e : End) :
    refSkipWhile (fun x => .ok (q x)) xs e = outSeq (xs.dropWhile q) e := by
  induction xs with
  | nil => rfl
  | cons x xs ih => cases h : q x <;> simp [refSkipWhile, ih, h]

theorem refSkipWhileIdx_pure (q : α → Nat → Bool) (i : Nat) (xs : List α) (e : End) :
    refSkipWhileIdx (fun x i => .ok (q x i)) i xs e
      = outSeq (((xs.zipIdx i).dropWhile (fun t => q t.1 t.2)).map (·.1)) e := by
  induction xs generalizing i with
  | nil => rfl
  | cons x xs ih =>
    cases h : q x i
    · have : ((xs.zipIdx (i + 1)).map (·.1)) = xs := by simp
      simp [refSkipWhileIdx, h, this]
    · simp [refSkipWhileIdx, ih, h]

theorem anyMatch_pure (c : κ → κ → Bool) (k : κ) (seen : List κ) :
    anyMatch (fun a b => .ok (c a b)) k seen = .ok (seen.any (fun a => c a k)) := by
  induction seen with
  | nil => rfl
  | cons a rest ih => cases h : c a k <;> simp [anyMatch, h, ih]

theorem refDistinct_loop (g : α → κ) (cmp : κ → κ → Bool) (xs bs : List α) (e : End) :
    outSeq (List.eraseDupsBy.loop (fun new old => cmp (g old) (g new)) xs bs) e
      = bs.reverse.map Notif.next ++
          refDistinct (fun x => .ok (g x)) (fun a b => .ok (cmp a b)) (bs.reverse.map g) xs e := by
  induction xs generalizing bs with
  | nil => simp [List.eraseDupsBy.loop, refDistinct, outSeq]
  | cons x xs ih =>
    have hany : ((bs.reverse.map g).any fun a => cmp a (g x)) = bs.any (fun old => cmp (g old) (g x)) := by
      simp [List.any_map, List.any_reverse, Function.comp_def]
    simp only [List.eraseDupsBy.loop, refDistinct, anyMatch_pure, hany]
    cases h : bs.any (fun old => cmp (g old) (g x))
    · simp only []
      rw [ih (x :: bs)]; simp
    · simp only []; rw [ih bs]

theorem refDistinct_pure (g : α → κ) (cmp : κ → κ → Bool) (xs : List α) (e : End) :
    refDistinct (fun x => .ok (g x)) (fun a b => .ok (cmp a b)) [] xs e
      = outSeq (xs.eraseDupsBy (fun new old => cmp (g old) (g new))) e := by
  have := refDistinct_loop g cmp xs [] e
  simpa [List.eraseDupsBy] using this.symm

theorem refDUC_loop (g : α → κ) (cmp : κ → κ → Bool) (a : α) (xs acc : List α) (e : End) :
    outSeq (List.eraseRepsBy.loop (fun x y => cmp (g x) (g y)) a xs acc) e
      = (acc.reverse ++ [a]).map Notif.next ++
          refDUC (fun x => .ok (g x)) (fun c k => .ok (cmp c k)) (some (g a)) xs e := by
  induction xs generalizing a acc with
  | nil => simp [List.eraseRepsBy.loop, refDUC, outSeq]
  | cons x xs ih =>
    simp only [List.eraseRepsBy.loop, refDUC]
    cases h : cmp (g a) (g x)
    · simp only [Bool.false_eq_true, if_false]; rw [ih x (a :: acc)]; simp
    · simp only [if_true]; rw [ih a acc]

theorem refDUC_pure (g : α → κ) (cmp : κ → κ → Bool) (xs : List α) (e : End) :
    refDUC (fun x => .ok (g x)) (fun c k => .ok (cmp c k)) none xs e
      = outSeq (xs.eraseRepsBy (fun x y => cmp (g x) (g y))) e := by
  cases xs with
  | nil => rfl
  | cons x xs =>
    have := refDUC_loop g cmp x xs [] e
    simp only [List.eraseRepsBy, refDUC]
    rw [this]; simp

theorem refFind_pure (q : α → Nat → Bool) (yes : α → Nat → β) (no : β) (i : Nat) (xs : List α) (e : End) :
    refFind (fun x i => .ok (q x i)) yes no i xs e
      = match (xs.zipIdx i).find? (fun t => q t.1 t.2) with
        | some t => [.next (yes t.1 t.2), .completed]
        | none => notFound no e := by
  induction xs generalizing i with
  | nil => cases e <;> simp [refFind, notFound]
  | cons x xs ih => cases h : q x i <;> simp [refFind, ih, h]

end Ops

import RxModel.PipeTramp
/-! Lemmas for the trampoline-merge model: a disposed run is frozen, a never-disposed run only appends, and the two run in
lockstep until the disposing notification. -/
namespace Pipe.Tramp

/-! ### `cut` / `notifs` -/

theorem notifs_nil : notifs [] = 0 := rfl

theorem notifs_append (a b : List Ev) : notifs (a ++ b) = notifs a + notifs b := by
  simp [notifs, List.filter_append]

theorem notifs_single (e : Ev) : notifs [e] = if e.isNotif then 1 else 0 := by
  unfold notifs; by_cases h : e.isNotif <;> simp [List.filter, h]

theorem cut_of_lt : ∀ (l : List Ev) (m : Nat), notifs l < m → cut m l = l
  | [], m, _ => by cases m <;> rfl
  | e :: es, 0, h => by omega
  | e :: es, m + 1, h => by
    have hc : notifs (e :: es) = (if e.isNotif then 1 else 0) + notifs es := by
      rw [show e :: es = [e] ++ es from rfl, notifs_append, notifs_single]
    by_cases hn : e.isNotif
    · simp only [cut, hn, if_true]
      rw [cut_of_lt es m (by simp [hn] at hc; omega)]
    · simp only [cut, hn]
      rw [cut_of_lt es (m + 1) (by simp [hn] at hc; omega)]
      simp

theorem cut_append_notif : ∀ (E : List Ev) (k : Nat) (e : Ev) (rest : List Ev), e.isNotif = true → notifs E = k →
    cut (k + 1) (E ++ e :: rest) = E ++ [e]
  | [], k, e, rest, he, hk => by
    have : k = 0 := by simpa [notifs] using hk.symm
    subst this
    cases rest <;> simp [cut, he]
  | x :: xs, k, e, rest, he, hk => by
    have hc : notifs (x :: xs) = (if x.isNotif then 1 else 0) + notifs xs := by
      rw [show x :: xs = [x] ++ xs from rfl, notifs_append, notifs_single]
    by_cases hn : x.isNotif
    · simp [hn] at hc
      obtain ⟨k', rfl⟩ : ∃ k', k = k' + 1 := ⟨notifs xs, by omega⟩
      have := cut_append_notif xs k' e rest he (by omega)
      simp [cut, hn, this]
    · simp [hn] at hc
      have := cut_append_notif xs k e rest he (by omega)
      simp [cut, hn, this]

/-! ### a disposed run is frozen -/

theorem runTurn_disposed (w : When) (p : Nat) (as : List Atom) (s : St) (h : s.disposed = true) : runTurn w p as s = s := by
  cases as <;> simp [runTurn, h]

theorem drain_disposed (w : When) : ∀ (f : Nat) (s : St), s.disposed = true →
    (drain w f s).evs = s.evs ∧ (drain w f s).disposed = true ∧ (drain w f s).seen = s.seen
  | 0, s, h => by simp [drain, h]
  | f + 1, s, h => by
    unfold drain
    split
    · simp [h]
    · exact drain_disposed w f _ h
    · rw [if_pos h]; exact drain_disposed w f _ h

/-! ### a never-disposed run only appends and never disposes -/

theorem deliver_never (e : Ev) (s : St) : (deliver .never e s).evs = s.evs ++ [e] ∧ (deliver .never e s).disposed = s.disposed := by
  simp [deliver, When.hits]

theorem atom_never (p : Nat) (a : Atom) (s : St) :
    (∃ r, (atom .never p a s).evs = s.evs ++ r) ∧ (atom .never p a s).disposed = s.disposed := by
  cases a with
  | cb t => exact ⟨⟨[.cb p t], rfl⟩, rfl⟩
  | emit j => exact ⟨⟨[.next p j], (deliver_never _ _).1⟩, (deliver_never _ _).2⟩
  | done =>
    simp only [atom]
    split
    · exact ⟨⟨[.completed], (deliver_never _ _).1⟩, (deliver_never _ _).2⟩
    · exact ⟨⟨[], by simp⟩, rfl⟩

theorem runTurn_never (p : Nat) : ∀ (as : List Atom) (s : St),
    (∃ r, (runTurn .never p as s).evs = s.evs ++ r) ∧ (runTurn .never p as s).disposed = s.disposed
  | [], s => ⟨⟨[], by simp [runTurn]⟩, rfl⟩
  | a :: as, s => by
    unfold runTurn
    split
    · exact ⟨⟨[], by simp⟩, rfl⟩
    · obtain ⟨⟨r1, h1⟩, d1⟩ := atom_never p a s
      obtain ⟨⟨r2, h2⟩, d2⟩ := runTurn_never p as (atom .never p a s)
      exact ⟨⟨r1 ++ r2, by rw [h2, h1, List.append_assoc]⟩, by rw [d2, d1]⟩

theorem requeue_evs (p : Nat) (ts : Producer) (s : St) :
    (requeue p ts s).evs = s.evs ∧ (requeue p ts s).disposed = s.disposed ∧ (requeue p ts s).seen = s.seen := by
  unfold requeue; split <;> simp

theorem drain_never : ∀ (f : Nat) (s : St),
    (∃ r, (drain .never f s).evs = s.evs ++ r) ∧ (drain .never f s).disposed = s.disposed
  | 0, s => ⟨⟨[], by simp [drain]⟩, rfl⟩
  | f + 1, s => by
    unfold drain
    split
    · exact ⟨⟨[], by simp⟩, rfl⟩
    · exact drain_never f _
    · split
      · exact drain_never f _
      · rename_i p t ts q _ _
        obtain ⟨⟨r1, h1⟩, d1⟩ := runTurn_never p t { s with queue := q }
        obtain ⟨⟨r2, h2⟩, d2⟩ := drain_never f (requeue p ts (runTurn .never p t { s with queue := q }))
        rw [(requeue_evs _ _ _).1] at h2
        rw [(requeue_evs _ _ _).2.1] at d2
        exact ⟨⟨r1 ++ r2, by rw [h2, h1, List.append_assoc]⟩, by rw [d2, d1]⟩

/-! ### lockstep until the disposing notification -/

/-- the disposing run stopped right at the k-th notification; the never-disposed run has the same events and then more -/
def CutAt (k : Nat) (a b : List Ev) : Prop :=
  ∃ E e rest, e.isNotif = true ∧ notifs E = k ∧ a = E ++ [e] ∧ b = E ++ e :: rest

theorem CutAt.extend {k : Nat} {a b : List Ev} (h : CutAt k a b) (more : List Ev) : CutAt k a (b ++ more) := by
  obtain ⟨E, e, rest, he, hk, ha, hb⟩ := h
  exact ⟨E, e, rest ++ more, he, hk, ha, by rw [hb]; simp⟩

/-- the live disposing run: counted notifications agree with the log and the disposing ordinal is still ahead -/
def Good (k : Nat) (s : St) : Prop := s.disposed = false ∧ notifs s.evs = s.seen ∧ s.seen ≤ k

/-- outcome of running the same piece of program under `during k` (D) and `never` (N) from the same live state -/
def Rel (k : Nat) (d n : St) : Prop :=
  (d = n ∧ Good k d) ∨ (d.disposed = true ∧ n.disposed = false ∧ d.seen = k + 1 ∧ CutAt k d.evs n.evs)

theorem deliver_rel (k : Nat) (e : Ev) (he : e.isNotif = true) (s : St) (g : Good k s) :
    Rel k (deliver (.during k) e s) (deliver .never e s) := by
  obtain ⟨gd, gn, gs⟩ := g
  by_cases hk : k = s.seen
  · right
    refine ⟨by simp [deliver, When.hits, hk], by simp [deliver, When.hits, gd], by simp [deliver, hk], ?_⟩
    exact ⟨s.evs, e, [], he, by omega, by simp [deliver], by simp [deliver]⟩
  · left
    have hb : (k == s.seen) = false := by simpa using hk
    refine ⟨by simp [deliver, When.hits, hb, gd], by simp [deliver, When.hits, hb, gd], ?_, ?_⟩
    · simp [deliver, notifs_append, notifs_single, he, gn]
    · simp [deliver]; omega

theorem atom_rel (k p : Nat) (a : Atom) (s : St) (g : Good k s) : Rel k (atom (.during k) p a s) (atom .never p a s) := by
  cases a with
  | cb t =>
    left
    refine ⟨rfl, g.1, ?_, g.2.2⟩
    simp [atom, notifs_append, notifs_single, Ev.isNotif, g.2.1]
  | emit j => exact deliver_rel k _ rfl s g
  | done =>
    simp only [atom]
    split
    · exact deliver_rel k _ rfl _ ⟨g.1, g.2.1, g.2.2⟩
    · exact Or.inl ⟨rfl, g.1, g.2.1, g.2.2⟩

theorem runTurn_rel (k p : Nat) : ∀ (as : List Atom) (s : St), Good k s →
    Rel k (runTurn (.during k) p as s) (runTurn .never p as s)
  | [], s, g => Or.inl ⟨rfl, g⟩
  | a :: as, s, g => by
    unfold runTurn
    simp only [g.1, Bool.false_eq_true, if_false]
    rcases atom_rel k p a s g with ⟨heq, g'⟩ | ⟨hd, hn, hs, hc⟩
    · rw [heq] at g' ⊢
      exact runTurn_rel k p as _ g'
    · right
      rw [runTurn_disposed _ _ _ _ hd]
      obtain ⟨⟨r, hr⟩, dn⟩ := runTurn_never p as (atom .never p a s)
      exact ⟨hd, by rw [dn, hn], hs, by rw [hr]; exact hc.extend r⟩

/-- final outcome: still in lockstep, or the disposing run stopped at the k-th notification -/
def Outcome (k : Nat) (d n : St) : Prop :=
  (d = n ∧ Good k d) ∨ (d.disposed = true ∧ CutAt k d.evs n.evs)

theorem good_requeue {k : Nat} {s : St} (p : Nat) (ts : Producer) (g : Good k s) : Good k (requeue p ts s) := by
  obtain ⟨e1, e2, e3⟩ := requeue_evs p ts s
  exact ⟨by rw [e2]; exact g.1, by rw [e1, e3]; exact g.2.1, by rw [e3]; exact g.2.2⟩

theorem outcome_of_disposed (k f p : Nat) (ts : Producer) (d n : St) (hd : d.disposed = true) (hc : CutAt k d.evs n.evs) :
    Outcome k (drain (.during k) f (requeue p ts d)) (drain .never f (requeue p ts n)) := by
  right
  obtain ⟨e1, e2, _⟩ := requeue_evs p ts d
  obtain ⟨f1, f2, _⟩ := drain_disposed (.during k) f (requeue p ts d) (by rw [e2]; exact hd)
  obtain ⟨⟨r, hr⟩, _⟩ := drain_never f (requeue p ts n)
  refine ⟨f2, ?_⟩
  rw [f1, e1, hr, (requeue_evs _ _ _).1]
  exact hc.extend r

theorem drain_rel (k : Nat) : ∀ (f : Nat) (s : St), Good k s → Outcome k (drain (.during k) f s) (drain .never f s)
  | 0, s, g => Or.inl ⟨rfl, g⟩
  | f + 1, s, g => by
    obtain ⟨queue, live, seen, disposed, evs⟩ := s
    have hd0 : disposed = false := g.1
    subst hd0
    unfold drain
    split
    · exact Or.inl ⟨rfl, g⟩
    · exact drain_rel k f _ ⟨g.1, g.2.1, g.2.2⟩
    · rename_i p t ts q _
      simp only [Bool.false_eq_true, if_false]
      rcases runTurn_rel k p t { queue := q, live := live, seen := seen, disposed := false, evs := evs } ⟨rfl, g.2.1, g.2.2⟩ with ⟨heq, g'⟩ | ⟨hd, hn, hs, hc⟩
      · rw [heq]
        rw [heq] at g'
        exact drain_rel k f _ (good_requeue p ts g')
      · exact outcome_of_disposed k f p ts _ _ hd hc

theorem outcome_cut {k : Nat} {d n : St} (h : Outcome k d n) : d.evs = cut (k + 1) n.evs := by
  rcases h with ⟨heq, g⟩ | ⟨_, E, e, rest, he, hk, ha, hb⟩
  · rw [← heq, cut_of_lt _ _ (by rw [g.2.1]; exact Nat.lt_succ_of_le g.2.2)]
  · rw [ha, hb, cut_append_notif E k e rest he hk]

theorem outcome_notifs {k : Nat} {d n : St} (h : Outcome k d n) : notifs d.evs ≤ k + 1 := by
  rcases h with ⟨_, g⟩ | ⟨_, E, e, rest, he, hk, ha, _⟩
  · rw [g.2.1]; exact Nat.le_succ_of_le g.2.2
  · rw [ha, notifs_append, notifs_single, hk]; simp [he]

/-- `final (.during k)` against `final .never` -/
theorem final_outcome (ps : List Producer) (k : Nat) : Outcome k (final (.during k) ps) (final .never ps) := by
  unfold final init
  have hw : ((When.during k) == When.atStart) = false := by simp
  have hn : (When.never == When.atStart) = false := by decide
  simp only [hw, hn]
  by_cases hp : ps.isEmpty = true
  · simp only [hp, Bool.not_false, Bool.and_self, if_true]
    rcases deliver_rel k .completed rfl
        { queue := enumFrom 0 ps, live := ps.length, seen := 0, disposed := false, evs := [] } ⟨rfl, rfl, Nat.zero_le k⟩ with
      ⟨heq, g⟩ | ⟨hd, _, _, hc⟩
    · rw [heq]; rw [heq] at g; exact drain_rel k _ _ g
    · right
      obtain ⟨f1, f2, _⟩ := drain_disposed (.during k) (turns (enumFrom 0 ps)) _ hd
      obtain ⟨⟨r, hr⟩, _⟩ := drain_never (turns (enumFrom 0 ps)) (deliver .never .completed
        { queue := enumFrom 0 ps, live := ps.length, seen := 0, disposed := false, evs := [] })
      exact ⟨f2, by rw [f1, hr]; exact hc.extend r⟩
  · simp only [hp, Bool.false_and, Bool.false_eq_true, if_false]
    exact drain_rel k _ _ ⟨rfl, rfl, Nat.zero_le k⟩

/-! ### the fuel is enough: the queue is empty at the end -/

theorem turns_append (q : List (Nat × Producer)) (p : Nat) (ts : Producer) : turns (q ++ [(p, ts)]) = turns q + ts.length + 1 := by
  induction q with
  | nil => simp [turns]
  | cons x q ih => obtain ⟨a, b⟩ := x; simp [turns, ih]; omega

theorem atom_queue (w : When) (p : Nat) (a : Atom) (s : St) : (atom w p a s).queue = s.queue := by
  cases a <;> simp [atom, deliver]
  split <;> rfl

theorem runTurn_queue (w : When) (p : Nat) : ∀ (as : List Atom) (s : St), (runTurn w p as s).queue = s.queue
  | [], _ => rfl
  | a :: as, s => by
    unfold runTurn
    split
    · rfl
    · rw [runTurn_queue w p as, atom_queue]

theorem drain_complete (w : When) : ∀ (f : Nat) (s : St), turns s.queue ≤ f → (drain w f s).queue = []
  | 0, s, h => by
    cases hq : s.queue with
    | nil => simp [drain, hq]
    | cons x q => obtain ⟨a, b⟩ := x; rw [hq] at h; simp [turns] at h
  | f + 1, s, h => by
    unfold drain
    split
    · assumption
    · rename_i p q hq
      rw [hq] at h; simp only [turns] at h
      exact drain_complete w f _ (by simp; omega)
    · rename_i p t ts q hq
      rw [hq] at h; simp only [turns, List.length_cons] at h
      split
      · exact drain_complete w f _ (by simp; omega)
      · apply drain_complete w f
        unfold requeue
        split
        · rw [runTurn_queue]; simp; omega
        · simp only [runTurn_queue, turns_append]; omega

end Pipe.Tramp

import RxModel.ThrEL
import RxProofs.Lemmas.ThrList
/-!
# EventLoopScheduler model: stack shapes, loop-frame counting, merge lemmas (C31)
-/
namespace Thr.EL
open Thr

def nLoop : List Frame → Nat
  | [] => 0
  | .loop _ _ :: rest => 1 + nLoop rest
  | _ :: rest => nLoop rest

/-- frames of a scheduled action being executed -/
def nRun : List Frame → Nat
  | [] => 0
  | .act (some _) _ :: rest => 1 + nRun rest
  | .chk (some _) _ _ :: rest => 1 + nRun rest
  | .enq (some _) _ _ :: rest => 1 + nRun rest
  | _ :: rest => nRun rest

def isClient : Frame → Bool
  | .act none _ => true
  | .chk none _ _ => true
  | .enq none _ _ => true
  | _ => false
def isInner : Frame → Bool
  | .act (some _) _ => true
  | .chk (some _) _ _ => true
  | .enq (some _) _ _ => true
  | _ => false

inductive Shape : List Frame → Prop where
  | nil : Shape []
  | client (m) : isClient m = true → Shape [m]
  | loop (ph ready) : (ph ≠ .exec → ready = []) → Shape [.loop ph ready]
  | inner (f ready) : isInner f = true → Shape [f, .loop .exec ready]

theorem thStep_shape (xie : Bool) (me nth : Nat) (sh : Sh) (th : Th) (h : Shape th.stack) :
    Shape (thStep xie me nth sh th).2.1.stack := by
  rcases th with ⟨stack⟩
  cases h with
  | nil => simp [thStep]; exact Shape.nil
  | client m hm =>
    cases m with
    | act id ops =>
      cases id with
      | some i => simp [isClient] at hm
      | none =>
        cases ops with
        | nil => simp [thStep]; exact Shape.nil
        | cons op ops =>
          cases op <;> simp only [thStep] <;> (try split) <;> exact Shape.client _ rfl
    | chk id it ops =>
      cases id with
      | some i => simp [isClient] at hm
      | none => simp only [thStep]; split <;> exact Shape.client _ rfl
    | enq id it ops =>
      cases id with
      | some i => simp [isClient] at hm
      | none => simp only [thStep]; exact Shape.client _ rfl
    | loop ph r => simp [isClient] at hm
  | loop ph ready hre =>
    cases ph with
    | top =>
      simp only [thStep]; split
      · exact Shape.nil
      · exact Shape.loop _ _ (by simp)
    | exec =>
      cases ready with
      | nil => simp only [thStep]; exact Shape.loop _ _ (by simp)
      | cons it ready =>
        simp only [thStep]; split
        · exact Shape.loop _ _ (by simp)
        · exact Shape.inner _ _ rfl
    | check =>
      have : ready = [] := hre (by simp)
      subst this
      simp only [thStep]
      split
      · exact Shape.loop _ _ (by simp)
      · split
        · split
          · exact Shape.loop _ _ (by simp)
          · exact Shape.loop _ _ (by simp)
        · split
          · exact Shape.nil
          · exact Shape.loop _ _ (by simp)
    | waitU =>
      have : ready = [] := hre (by simp)
      subst this
      simp only [thStep]; split
      · exact Shape.loop _ _ (by simp)
      · exact Shape.loop _ _ (by simp)
    | waitT =>
      have : ready = [] := hre (by simp)
      subst this
      simp only [thStep]; exact Shape.loop _ _ (by simp)
  | inner f ready hf =>
    cases f with
    | act id ops =>
      cases id with
      | none => simp [isInner] at hf
      | some i =>
        cases ops with
        | nil => simp only [thStep]; exact Shape.loop _ _ (by simp)
        | cons op ops =>
          cases op <;> simp only [thStep] <;> (try split) <;> exact Shape.inner _ _ rfl
    | chk id it ops =>
      cases id with
      | none => simp [isInner] at hf
      | some i => simp only [thStep]; split <;> exact Shape.inner _ _ rfl
    | enq id it ops =>
      cases id with
      | none => simp [isInner] at hf
      | some i => simp only [thStep]; exact Shape.inner _ _ rfl
    | loop ph r => simp [isInner] at hf

theorem shape_counts {st : List Frame} (h : Shape st) : nRun st ≤ nLoop st ∧ nLoop st ≤ 1 := by
  cases h with
  | nil => simp [nRun, nLoop]
  | client m hm =>
    cases m with
    | act id ops => cases id <;> simp_all [nRun, nLoop, isClient]
    | chk id it ops => cases id <;> simp_all [nRun, nLoop, isClient]
    | enq id it ops => cases id <;> simp_all [nRun, nLoop, isClient]
    | loop ph r => simp [isClient] at hm
  | loop ph ready _ => simp [nRun, nLoop]
  | inner f ready hf =>
    cases f with
    | act id ops => cases id <;> simp_all [nRun, nLoop, isInner]
    | chk id it ops => cases id <;> simp_all [nRun, nLoop, isInner]
    | enq id it ops => cases id <;> simp_all [nRun, nLoop, isInner]
    | loop ph r => simp [isInner] at hf

/-- what a step does to the loop-frame count, the spawn flag and `_thread` -/
theorem thStep_loops (xie : Bool) (me nth : Nat) (sh : Sh) (th : Th) :
    nLoop (thStep xie me nth sh th).2.1.stack ≤ nLoop th.stack ∧
    ((thStep xie me nth sh th).2.2 = true → sh.thread = none ∧ (thStep xie me nth sh th).1.thread ≠ none) ∧
    ((thStep xie me nth sh th).1.thread = none →
        (sh.thread = none ∧ (thStep xie me nth sh th).2.2 = false) ∨ nLoop (thStep xie me nth sh th).2.1.stack + 1 = nLoop th.stack) := by
  unfold thStep
  repeat' split
  all_goals simp_all [nLoop]
  all_goals (try omega)
  all_goals (try (intro h; split at h <;> simp_all))

theorem filter_take_drop {α} (p f : α → Bool) (l : List α) :
    (l.takeWhile p).filter f ++ (l.dropWhile p).filter f = l.filter f := by
  rw [← List.filter_append, List.takeWhile_append_dropWhile]

theorem merge_props (t : Int) (qs rl : List Item) (hr : ∀ r ∈ rl, r.imm = true) (hq : ∀ q ∈ qs, q.imm = false) :
    (merge t qs rl).1.filter (·.imm) = rl ∧
    (merge t qs rl).1.filter (fun x => !x.imm) ++ (merge t qs rl).2 = qs := by
  induction qs generalizing rl with
  | nil =>
    simp only [merge]
    refine ⟨List.filter_eq_self.mpr hr, ?_⟩
    simp only [List.append_nil, List.filter_eq_nil_iff]
    intro a ha; simp [hr a ha]
  | cons q qs ih =>
    have hq0 : q.imm = false := hq q (by simp)
    have hqs : ∀ x ∈ qs, x.imm = false := fun x hx => hq x (by simp [hx])
    have hsplit := List.takeWhile_append_dropWhile (p := fun r : Item => decide (q.due > r.due)) (l := rl)
    have hA : ∀ r ∈ rl.takeWhile (fun r => decide (q.due > r.due)), r.imm = true :=
      fun r hx => hr r ((List.takeWhile_sublist _).subset hx)
    have hD : ∀ r ∈ rl.dropWhile (fun r => decide (q.due > r.due)), r.imm = true :=
      fun r hx => hr r ((List.dropWhile_sublist _).subset hx)
    have fA : (rl.takeWhile (fun r => decide (q.due > r.due))).filter (·.imm) = rl.takeWhile (fun r => decide (q.due > r.due)) :=
      List.filter_eq_self.mpr hA
    have fA' : (rl.takeWhile (fun r => decide (q.due > r.due))).filter (fun x => !x.imm) = [] := by
      simp only [List.filter_eq_nil_iff]; intro a ha; simp [hA a ha]
    have fD : (rl.dropWhile (fun r => decide (q.due > r.due))).filter (·.imm) = rl.dropWhile (fun r => decide (q.due > r.due)) :=
      List.filter_eq_self.mpr hD
    have fD' : (rl.dropWhile (fun r => decide (q.due > r.due))).filter (fun x => !x.imm) = [] := by
      simp only [List.filter_eq_nil_iff]; intro a ha; simp [hD a ha]
    simp only [merge]
    split
    · simp only [hsplit]
      refine ⟨List.filter_eq_self.mpr hr, ?_⟩
      have : rl.filter (fun x => !x.imm) = [] := by
        simp only [List.filter_eq_nil_iff]; intro a ha; simp [hr a ha]
      simp [this]
    · obtain ⟨i1, i2⟩ := ih _ hD hqs
      simp only [List.filter_append, List.filter_cons, hq0, fA, fA', Bool.false_eq_true, if_false, Bool.not_false, if_true,
        List.nil_append, List.cons_append]
      refine ⟨?_, ?_⟩
      · rw [i1, hsplit]
      · rw [i2]

theorem merge_due (t : Int) (qs rl : List Item) (hr : ∀ r ∈ rl, r.due ≤ t) :
    ∀ x ∈ (merge t qs rl).1, x.due ≤ t := by
  induction qs generalizing rl with
  | nil => simpa [merge] using hr
  | cons q qs ih =>
    have hA : ∀ r ∈ rl.takeWhile (fun r => decide (q.due > r.due)), r.due ≤ t :=
      fun r hx => hr r ((List.takeWhile_sublist _).subset hx)
    have hD : ∀ r ∈ rl.dropWhile (fun r => decide (q.due > r.due)), r.due ≤ t :=
      fun r hx => hr r ((List.dropWhile_sublist _).subset hx)
    simp only [merge]
    split
    · intro x hx
      simp only [List.mem_append] at hx
      rcases hx with hx | hx
      · exact hA x hx
      · exact hD x hx
    · rename_i hle
      intro x hx
      simp only [List.mem_append, List.mem_cons] at hx
      rcases hx with hx | rfl | hx
      · exact hA x hx
      · omega
      · exact ih _ hD x hx
end Thr.EL

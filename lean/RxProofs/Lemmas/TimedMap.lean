import RxModel.TimedMap
/-! Helper lemmas for the `*_with_mapper` trace machines. -/

namespace Timed

/-- two machines related by a simulation produce the same output on every trace -/
theorem runTrace_sim {σ τ α β} (step1 : σ → MEv α → Step σ β) (step2 : τ → MEv α → Step τ β)
    (d1 : σ → Bool) (d2 : τ → Bool) (other : Nat → TL β) (R : σ → τ → Prop)
    (hdone : ∀ s a, R s a → d1 s = d2 a)
    (hstep : ∀ s a ev, R s a → d1 s = false →
      (step1 s ev).out = (step2 a ev).out ∧ (step1 s ev).switch = (step2 a ev).switch ∧ R (step1 s ev).st (step2 a ev).st)
    (tr : List (Nat × MEv α)) : ∀ s a, R s a → runTrace step1 d1 other s tr = runTrace step2 d2 other a tr := by
  induction tr with
  | nil => intro s a _; rfl
  | cons e rest ih =>
    obtain ⟨t, ev⟩ := e
    intro s a hR
    have hd := hdone s a hR
    cases h1 : d1 s with
    | true => simp [runTrace, h1, ← hd]
    | false =>
      obtain ⟨ho, hs, hR'⟩ := hstep s a ev hR h1
      have h2 : d2 a = false := by rw [← hd]; exact h1
      simp only [runTrace, h1, h2, Bool.false_eq_true, if_false, ho, hs]
      rw [ih _ _ hR']

/-! ### throttle_with_mapper -/

def TwmRel {α} (s : TwmSt α) (a : TwmAbs α) : Prop :=
  s.done = a.done ∧ s.count = a.count ∧
    match a.pend with
    | some (k, x) => s.live = some (k, s.id) ∧ s.hasValue = true ∧ s.value = some x
    | none => s.live = none ∧ s.hasValue = false

theorem twm_step_sim {α} (raises : Nat → α → Option Err) (s : TwmSt α) (a : TwmAbs α) (ev : MEv α) (hR : TwmRel s a) :
    (twmStep raises s ev).out = (twmAbsStep raises a ev).out ∧ (twmStep raises s ev).switch = (twmAbsStep raises a ev).switch
      ∧ TwmRel (twmStep raises s ev).st (twmAbsStep raises a ev).st := by
  obtain ⟨hd, hc, hp⟩ := hR
  unfold TwmRel
  cases hpend : a.pend with
  | none =>
    rw [hpend] at hp
    obtain ⟨hl, hv⟩ := hp
    cases ev with
    | src n =>
      cases n with
      | next x => cases hr : raises a.count x <;> simp [twmStep, twmAbsStep, hc, hr, hd, hpend, hl, hv]
      | error e => simp [twmStep, twmAbsStep, hc]
      | completed => simp [twmStep, twmAbsStep, hc, hv, hpend]
    | inner k sig => simp [twmStep, twmAbsStep, hc, hd, hpend, hl, hv]
    | sub sg => simp [twmStep, twmAbsStep, hc, hd, hpend, hl, hv]
  | some kx =>
    obtain ⟨k', y⟩ := kx
    rw [hpend] at hp
    obtain ⟨hl, hv, hval⟩ := hp
    cases ev with
    | src n =>
      cases n with
      | next x => cases hr : raises a.count x <;> simp [twmStep, twmAbsStep, hc, hr, hd, hpend, hl, hv, hval]
      | error e => simp [twmStep, twmAbsStep, hc]
      | completed => simp [twmStep, twmAbsStep, hc, hv, hpend, twmEmit, hval]
    | inner k sig =>
      by_cases hk : k' = k
      · cases sig <;> simp [twmStep, twmAbsStep, hc, hd, hpend, hl, hv, hval, hk, twmEmit]
      · simp [twmStep, twmAbsStep, hc, hd, hpend, hl, hv, hval, hk]
    | sub sg => simp [twmStep, twmAbsStep, hc, hd, hpend, hl, hv, hval]

/-! ### timeout_with_mapper -/

def TowmRel (s : TowmSt) (a : TowmAbs) : Prop :=
  s.done = a.done ∧ (s.done = false → s.count = a.count ∧ s.switched = false ∧
    match s.timer with
    | some (k, my) => my = s.id ∧ a.cur = some k
    | none => a.cur = none)

theorem towm_step_sim {α} (raises : Nat → α → Option Err) (s : TowmSt) (a : TowmAbs) (ev : MEv α) (hR : TowmRel s a)
    (hnd : s.done = false) :
    (towmStep raises s ev).out = (towmAbsStep raises a ev).out ∧ (towmStep raises s ev).switch = (towmAbsStep raises a ev).switch
      ∧ TowmRel (towmStep raises s ev).st (towmAbsStep raises a ev).st := by
  obtain ⟨hd, hrest⟩ := hR
  obtain ⟨hc, hsw, ht⟩ := hrest hnd
  have had : a.done = false := by rw [← hd]; exact hnd
  unfold TowmRel
  cases htm : s.timer with
  | none =>
    rw [htm] at ht
    cases ev with
    | src n =>
      cases n with
      | next x => cases hr : raises a.count x <;> simp [towmStep, towmAbsStep, hc, hr, hsw, hnd, had]
      | error e => simp [towmStep, towmAbsStep, hsw]
      | completed => simp [towmStep, towmAbsStep, hsw]
    | inner k sig => simp [towmStep, towmAbsStep, hc, hsw, hnd, had, htm, ht]
    | sub sg => simp [towmStep, towmAbsStep, hc, hsw, hnd, had, htm, ht]
  | some km =>
    obtain ⟨k', my⟩ := km
    rw [htm] at ht
    obtain ⟨hmy, hcur⟩ := ht
    cases ev with
    | src n =>
      cases n with
      | next x => cases hr : raises a.count x <;> simp [towmStep, towmAbsStep, hc, hr, hsw, hnd, had]
      | error e => simp [towmStep, towmAbsStep, hsw]
      | completed => simp [towmStep, towmAbsStep, hsw]
    | inner k sig =>
      by_cases hk : k' = k
      · cases sig <;> simp [towmStep, towmAbsStep, hc, hsw, hnd, had, htm, hmy, hcur, hk]
      · simp [towmStep, towmAbsStep, hc, hsw, hnd, had, htm, hmy, hcur, hk]
    | sub sg => simp [towmStep, towmAbsStep, hc, hsw, hnd, had, htm, hmy, hcur]

/-! ### delay_with_mapper -/

/-- every waiting element carries the ordinal of a source element already seen -/
def DwmOk {α} (s : DwmSt α) : Prop := ∀ p ∈ s.delays, p.1 < s.count

/-- element `k` has been seen and is no longer waiting (it was delivered, or its delay observable failed) -/
def DwmFired {α} (s : DwmSt α) (k : Nat) : Prop := k < s.count ∧ ∀ p ∈ s.delays, p.1 ≠ k

theorem dwm_ok_step {α} (raises : Nat → α → Option Err) (s : DwmSt α) (ev : MEv α) (h : DwmOk s) :
    DwmOk (dwmStep raises s ev).st := by
  unfold DwmOk at *
  cases ev with
  | sub sg =>
    cases hl : s.subLive <;> cases sg <;> simp only [dwmStep, hl, if_true, if_false, Bool.false_eq_true] <;> exact h
  | src n =>
    cases hl : s.srcLive
    · simp only [dwmStep, hl, if_false, Bool.false_eq_true]; exact h
    · cases n with
      | next x =>
        cases hr : raises s.count x with
        | some e =>
          simp only [dwmStep, hl, hr, if_true]
          intro p hp; exact Nat.lt_succ_of_lt (h p hp)
        | none =>
          simp only [dwmStep, hl, hr, if_true]
          intro p hp
          rcases List.mem_append.1 hp with hm | hm
          · exact Nat.lt_succ_of_lt (h p hm)
          · rw [List.mem_singleton] at hm; subst hm; exact Nat.lt_succ_self _
      | error e => simp only [dwmStep, hl, if_true]; exact h
      | completed => simp only [dwmStep, hl, if_true, dwmFinish]; exact h
  | inner k sig =>
    cases hf : s.delays.find? (fun p => p.1 == k) with
    | none => simp only [dwmStep, hf]; exact h
    | some kx =>
      obtain ⟨k', x⟩ := kx
      cases sig with
      | error e => simp only [dwmStep, hf]; exact h
      | next =>
        simp only [dwmStep, hf, dwmFinish]
        intro p hp; exact h p (List.mem_filter.1 hp).1
      | completed =>
        simp only [dwmStep, hf, dwmFinish]
        intro p hp; exact h p (List.mem_filter.1 hp).1

theorem dwm_fired_step {α} (raises : Nat → α → Option Err) (s : DwmSt α) (ev : MEv α) (k : Nat) (h : DwmFired s k) :
    DwmFired (dwmStep raises s ev).st k := by
  obtain ⟨hk, hn⟩ := h
  unfold DwmFired
  cases ev with
  | sub sg =>
    cases hl : s.subLive <;> cases sg <;> simp only [dwmStep, hl, if_true, if_false, Bool.false_eq_true] <;> exact ⟨hk, hn⟩
  | src n =>
    cases hl : s.srcLive
    · simp only [dwmStep, hl, if_false, Bool.false_eq_true]; exact ⟨hk, hn⟩
    · cases n with
      | next x =>
        cases hr : raises s.count x with
        | some e =>
          simp only [dwmStep, hl, hr, if_true]
          exact ⟨Nat.lt_succ_of_lt hk, hn⟩
        | none =>
          simp only [dwmStep, hl, hr, if_true]
          refine ⟨Nat.lt_succ_of_lt hk, ?_⟩
          intro p hp
          rcases List.mem_append.1 hp with hm | hm
          · exact hn p hm
          · rw [List.mem_singleton] at hm; subst hm; exact Nat.ne_of_gt hk
      | error e => simp only [dwmStep, hl, if_true]; exact ⟨hk, hn⟩
      | completed => simp only [dwmStep, hl, if_true, dwmFinish]; exact ⟨hk, hn⟩
  | inner j sig =>
    cases hf : s.delays.find? (fun p => p.1 == j) with
    | none => simp only [dwmStep, hf]; exact ⟨hk, hn⟩
    | some kx =>
      obtain ⟨k', x⟩ := kx
      cases sig with
      | error e => simp only [dwmStep, hf]; exact ⟨hk, hn⟩
      | next =>
        simp only [dwmStep, hf, dwmFinish]
        exact ⟨hk, fun p hp => hn p (List.mem_filter.1 hp).1⟩
      | completed =>
        simp only [dwmStep, hf, dwmFinish]
        exact ⟨hk, fun p hp => hn p (List.mem_filter.1 hp).1⟩

/-! ### delay_with_mapper: the code against the history rule -/

def DwmRel {α} (s : DwmSt α) (a : DwmAbs α) : Prop :=
  s.delays = a.seen.filter (fun p => !a.fired.contains p.1) ∧ s.atEnd = a.atEnd ∧ s.subLive = a.subLive ∧
    s.srcLive = a.srcLive ∧ s.count = a.count ∧ s.done = a.done

theorem filter_not_isEmpty {β} (c : β → Bool) (l : List β) : (l.filter (fun p => !c p)).isEmpty = l.all c := by
  induction l with
  | nil => rfl
  | cons x l ih => cases h : c x <;> simp [List.filter_cons, h, ih]

theorem find_congr {β} (p q : β → Bool) (l : List β) (h : ∀ x ∈ l, p x = q x) : l.find? p = l.find? q := by
  induction l with
  | nil => rfl
  | cons x l ih =>
    simp only [List.find?_cons, h x (List.mem_cons_self ..), ih (fun y hy => h y (List.mem_cons_of_mem _ hy))]

theorem find_filter_fired {α} (fired : List Nat) (k : Nat) (seen : List (Nat × α)) :
    (seen.filter (fun p => !fired.contains p.1)).find? (fun p => p.1 == k)
      = if fired.contains k then none else seen.find? (fun p => p.1 == k) := by
  rw [List.find?_filter]
  cases hf : fired.contains k
  · simp only [Bool.false_eq_true, if_false]
    apply find_congr
    intro p _
    cases hp : (p.1 == k)
    · simp
    · have : p.1 = k := by simpa using hp
      rw [this, hf]; rfl
  · simp only [if_true]
    rw [List.find?_eq_none]
    intro p _
    cases hp : (p.1 == k)
    · simp
    · have : p.1 = k := by simpa using hp
      rw [this, hf]; simp

theorem filter_fire {α} (fired : List Nat) (k : Nat) (seen : List (Nat × α)) :
    (seen.filter (fun p => !fired.contains p.1)).filter (fun p => !(p.1 == k))
      = seen.filter (fun p => !(k :: fired).contains p.1) := by
  rw [List.filter_filter]
  apply List.filter_congr
  intro p _
  rw [List.contains_cons]
  cases (p.1 == k) <;> cases fired.contains p.1 <;> rfl

theorem dwm_finish_sim {α} (s : DwmSt α) (a : DwmAbs α) (o : List (Notif α)) (h : DwmRel s a) :
    (dwmFinish s o).out = (dwmAbsFinish a o).out ∧ (dwmFinish s o).switch = (dwmAbsFinish a o).switch
      ∧ DwmRel (dwmFinish s o).st (dwmAbsFinish a o).st := by
  obtain ⟨h1, h2, h3, h4, h5, h6⟩ := h
  have hd : dwmDone s = dwmAbsDone a := by
    unfold dwmDone dwmAbsDone
    rw [h1, filter_not_isEmpty, h2]
  refine ⟨by simp [dwmFinish, dwmAbsFinish, hd], rfl, ?_⟩
  exact ⟨h1, h2, h3, h4, h5, by simp [dwmFinish, dwmAbsFinish, hd, h6]⟩

theorem dwm_step_sim {α} (raises : Nat → α → Option Err) (s : DwmSt α) (a : DwmAbs α) (ev : MEv α) (h : DwmRel s a)
    (hfc : ∀ k ∈ a.fired, k < a.count) :
    (dwmStep raises s ev).out = (dwmAbsStep raises a ev).out ∧ (dwmStep raises s ev).switch = (dwmAbsStep raises a ev).switch
      ∧ DwmRel (dwmStep raises s ev).st (dwmAbsStep raises a ev).st := by
  have h0 := h
  obtain ⟨h1, h2, h3, h4, h5, h6⟩ := h
  cases ev with
  | sub sg =>
    cases hl : a.subLive
    · have hl' : s.subLive = false := by rw [h3]; exact hl
      simp only [dwmStep, dwmAbsStep, hl, hl', Bool.false_eq_true, if_false]; first | exact ⟨rfl, rfl, h0⟩ | exact ⟨trivial, trivial, h0⟩
    · have hl' : s.subLive = true := by rw [h3]; exact hl
      cases sg <;> simp [dwmStep, dwmAbsStep, hl, hl', DwmRel, h1, h2, h4, h5, h6]
  | src n =>
    cases hl : a.srcLive
    · have hl' : s.srcLive = false := by rw [h4]; exact hl
      simp only [dwmStep, dwmAbsStep, hl, hl', Bool.false_eq_true, if_false]; first | exact ⟨rfl, rfl, h0⟩ | exact ⟨trivial, trivial, h0⟩
    · have hl' : s.srcLive = true := by rw [h4]; exact hl
      cases n with
      | next x =>
        have hnf : a.fired.contains a.count = false := by
          cases hcc : a.fired.contains a.count
          · rfl
          · have := hfc a.count (by simpa using hcc); omega
        cases hr : raises a.count x with
        | some e => simp [dwmStep, dwmAbsStep, hl, hl', h5, hr, DwmRel, h1, h2, h3, h6]
        | none =>
          simp only [dwmStep, dwmAbsStep, hl, hl', if_true, h5, hr]
          have e : (a.seen ++ [(a.count, x)]).filter (fun p => !a.fired.contains p.1)
              = a.seen.filter (fun p => !a.fired.contains p.1) ++ [(a.count, x)] := by
            simp only [List.filter_append, List.filter_cons, hnf, Bool.not_false, if_true, List.filter_nil]
          refine ⟨by trivial, by trivial, ?_⟩
          exact ⟨by rw [e, ← h1], h2, h3, rfl, rfl, h6⟩
      | error e => simp [dwmStep, dwmAbsStep, hl, hl', DwmRel, h1, h2, h3, h5]
      | completed =>
        simp only [dwmStep, dwmAbsStep, hl, hl', if_true]
        exact dwm_finish_sim _ _ [] ⟨h1, rfl, h3, rfl, h5, h6⟩
  | inner k sig =>
    simp only [dwmStep, dwmAbsStep, h1, find_filter_fired]
    cases hf : a.fired.contains k
    · simp only [Bool.false_eq_true, if_false]
      cases hfind : a.seen.find? (fun p => p.1 == k) with
      | none => first | exact ⟨rfl, rfl, h0⟩ | exact ⟨trivial, trivial, h0⟩
      | some kx =>
        obtain ⟨k', x⟩ := kx
        cases sig with
        | error e => simp [DwmRel, h2, h3, h4, h5]
        | next => exact dwm_finish_sim _ _ _ ⟨filter_fire a.fired k a.seen, h2, h3, h4, h5, h6⟩
        | completed => exact dwm_finish_sim _ _ _ ⟨filter_fire a.fired k a.seen, h2, h3, h4, h5, h6⟩
    · simp only [if_true]
      first | exact ⟨rfl, rfl, h0⟩ | exact ⟨trivial, trivial, h0⟩

/-- ordinals in the history are ordinals of elements already seen -/
def DwmAbsOk {α} (a : DwmAbs α) : Prop := (∀ p ∈ a.seen, p.1 < a.count) ∧ (∀ k ∈ a.fired, k < a.count)

theorem dwm_abs_ok_step {α} (raises : Nat → α → Option Err) (a : DwmAbs α) (ev : MEv α) (h : DwmAbsOk a) :
    DwmAbsOk (dwmAbsStep raises a ev).st := by
  obtain ⟨hs, hf⟩ := h
  cases ev with
  | sub sg =>
    cases hl : a.subLive <;> cases sg <;> simp only [dwmAbsStep, hl, if_true, if_false, Bool.false_eq_true] <;> exact ⟨hs, hf⟩
  | src n =>
    cases hl : a.srcLive
    · simp only [dwmAbsStep, hl, if_false, Bool.false_eq_true]; exact ⟨hs, hf⟩
    · cases n with
      | next x =>
        cases hr : raises a.count x with
        | some e =>
          simp only [dwmAbsStep, hl, hr, if_true]
          exact ⟨fun p hp => Nat.lt_succ_of_lt (hs p hp), fun k hk => Nat.lt_succ_of_lt (hf k hk)⟩
        | none =>
          simp only [dwmAbsStep, hl, hr, if_true]
          refine ⟨?_, fun k hk => Nat.lt_succ_of_lt (hf k hk)⟩
          intro p hp
          rcases List.mem_append.1 hp with hm | hm
          · exact Nat.lt_succ_of_lt (hs p hm)
          · rw [List.mem_singleton] at hm; subst hm; exact Nat.lt_succ_self _
      | error e => simp only [dwmAbsStep, hl, if_true]; exact ⟨hs, hf⟩
      | completed => simp only [dwmAbsStep, hl, if_true, dwmAbsFinish]; exact ⟨hs, hf⟩
  | inner k sig =>
    cases hc : a.fired.contains k
    · cases hfind : a.seen.find? (fun p => p.1 == k) with
      | none => simp only [dwmAbsStep, hc, hfind, Bool.false_eq_true, if_false]; exact ⟨hs, hf⟩
      | some kx =>
        obtain ⟨k', x⟩ := kx
        have hk' : k' = k := by have := List.find?_some hfind; simpa using this
        have hlt : k < a.count := by have := hs _ (List.mem_of_find?_eq_some hfind); rw [← hk']; exact this
        cases sig with
        | error e => simp only [dwmAbsStep, hc, hfind, Bool.false_eq_true, if_false]; exact ⟨hs, hf⟩
        | next =>
          simp only [dwmAbsStep, hc, hfind, Bool.false_eq_true, if_false, dwmAbsFinish]
          refine ⟨hs, ?_⟩
          intro j hj
          rcases List.mem_cons.1 hj with rfl | hj
          · exact hlt
          · exact hf j hj
        | completed =>
          simp only [dwmAbsStep, hc, hfind, Bool.false_eq_true, if_false, dwmAbsFinish]
          refine ⟨hs, ?_⟩
          intro j hj
          rcases List.mem_cons.1 hj with rfl | hj
          · exact hlt
          · exact hf j hj
    · simp only [dwmAbsStep, hc, if_true]; exact ⟨hs, hf⟩

theorem dwm_run_eq_spec {α} (raises : Nat → α → Option Err) (hasSubDelay : Bool) (tr : List (Nat × MEv α)) :
    dwmRun raises hasSubDelay tr = dwmSpec raises hasSubDelay tr := by
  unfold dwmRun dwmSpec
  apply runTrace_sim (dwmStep raises) (dwmAbsStep raises) (·.done) (·.done) (fun _ => [])
    (fun s a => DwmRel s a ∧ DwmAbsOk a)
  · intro s a h; exact h.1.2.2.2.2.2
  · intro s a ev h _
    obtain ⟨h1, h2, h3⟩ := dwm_step_sim raises s a ev h.1 h.2.2
    exact ⟨h1, h2, h3, dwm_abs_ok_step raises a ev h.2⟩
  · cases hasSubDelay <;> simp [dwmInit, dwmAbsInit, DwmRel, DwmAbsOk]

end Timed

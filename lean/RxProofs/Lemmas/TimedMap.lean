import RxModel.TimedMap
/-! Helper lemmas for the `*_with_mapper` trace machines. -/

namespace Timed

/-- two machines related by a simulation produce the same output on every trace -/
theorem runTrace_sim {σ τ α β} (step1 : σ → MEv α → Step σ β) (step2 : τ → MEv α → Step τ β)
    (d1 : σ → Bool) (d2 : τ → Bool) (other : Nat → TL β) (R : σ → τ → Prop)
    (hdone : ∀ s a, R s a → d1 s = d2 a)
    (hstep : ∀ s a ev, R s a → d1 s = false →
      (step1 s ev).out = (step2 a ev).out ∧ (step1 s ev).switch = (step2 a ev).switch ∧ R (step1 s ev).st (step2 a ev).st)
    (tr : List (Nat × MEv α)) : ∀ s a, R s a → runTrace step1 d1 other s tr = runTrace step2 d2 other a tr := by
  induction tr with
  | nil => intro s a _; rfl
  | cons e rest ih =>
    obtain ⟨t, ev⟩ := e
    intro s a hR
    have hd := hdone s a hR
    cases h1 : d1 s with
    | true => simp [runTrace, h1, ← hd]
    | false =>
      obtain ⟨ho, hs, hR'⟩ := hstep s a ev hR h1
      have h2 : d2 a = false := by rw [← hd]; exact h1
      simp only [runTrace, h1, h2, Bool.false_eq_true, if_false, ho, hs]
      rw [ih _ _ hR']

/-! ### throttle_with_mapper -/

def TwmRel {α} (s : TwmSt α) (a : TwmAbs α) : Prop :=
  s.done = a.done ∧ s.count = a.count ∧
    match a.pend with
    | some (k, x) => s.live = some (k, s.id) ∧ s.hasValue = true ∧ s.value = some x
    | none => s.live = none ∧ s.hasValue = false

theorem twm_step_sim {α} (raises : Nat → α → Option Err) (s : TwmSt α) (a : TwmAbs α) (ev : MEv α) (hR : TwmRel s a) :
    (twmStep raises s ev).out = (twmAbsStep raises a ev).out ∧ (twmStep raises s ev).switch = (twmAbsStep raises a ev).switch
      ∧ TwmRel (twmStep raises s ev).st (twmAbsStep raises a ev).st := by
  obtain ⟨hd, hc, hp⟩ := hR
  unfold TwmRel
  cases hpend : a.pend with
  | none =>
    rw [hpend] at hp
    obtain ⟨hl, hv⟩ := hp
    cases ev with
    | src n =>
      cases n with
      | next x => cases hr : raises a.count x <;> simp [twmStep, twmAbsStep, hc, hr, hd, hpend, hl, hv]
      | error e => simp [twmStep, twmAbsStep, hc]
      | completed => simp [twmStep, twmAbsStep, hc, hv, hpend]
    | inner k sig => simp [twmStep, twmAbsStep, hc, hd, hpend, hl, hv]
    | sub sg => simp [twmStep, twmAbsStep, hc, hd, hpend, hl, hv]
  | some kx =>
    obtain ⟨k', y⟩ := kx
    rw [hpend] at hp
    obtain ⟨hl, hv, hval⟩ := hp
    cases ev with
    | src n =>
      cases n with
      | next x => cases hr : raises a.count x <;> simp [twmStep, twmAbsStep, hc, hr, hd, hpend, hl, hv, hval]
      | error e => simp [twmStep, twmAbsStep, hc]
      | completed => simp [twmStep, twmAbsStep, hc, hv, hpend, twmEmit, hval]
    | inner k sig =>
      by_cases hk : k' = k
      · cases sig <;> simp [twmStep, twmAbsStep, hc, hd, hpend, hl, hv, hval, hk, twmEmit]
      · simp [twmStep, twmAbsStep, hc, hd, hpend, hl, hv, hval, hk]
    | sub sg => simp [twmStep, twmAbsStep, hc, hd, hpend, hl, hv, hval]

/-! ### timeout_with_mapper -/

def TowmRel (s : TowmSt) (a : TowmAbs) : Prop :=
  s.done = a.done ∧ (s.done = false → s.count = a.count ∧ s.switched = false ∧
    match s.timer with
    | some (k, my) => my = s.id ∧ a.cur = some k
    | none => a.cur = none)

theorem towm_step_sim {α} (raises : Nat → α → Option Err) (s : TowmSt) (a : TowmAbs) (ev : MEv α) (hR : TowmRel s a)
    (hnd : s.done = false) :
    (towmStep raises s ev).out = (towmAbsStep raises a ev).out ∧ (towmStep raises s ev).switch = (towmAbsStep raises a ev).switch
      ∧ TowmRel (towmStep raises s ev).st (towmAbsStep raises a ev).st := by
  obtain ⟨hd, hrest⟩ := hR
  obtain ⟨hc, hsw, ht⟩ := hrest hnd
  have had : a.done = false := by rw [← hd]; exact hnd
  unfold TowmRel
  cases htm : s.timer with
  | none =>
    rw [htm] at ht
    cases ev with
    | src n =>
      cases n with
      | next x => cases hr : raises a.count x <;> simp [towmStep, towmAbsStep, hc, hr, hsw, hnd, had]
      | error e => simp [towmStep, towmAbsStep, hsw]
      | completed => simp [towmStep, towmAbsStep, hsw]
    | inner k sig => simp [towmStep, towmAbsStep, hc, hsw, hnd, had, htm, ht]
    | sub sg => simp [towmStep, towmAbsStep, hc, hsw, hnd, had, htm, ht]
  | some km =>
    obtain ⟨k', my⟩ := km
    rw [htm] at ht
    obtain ⟨hmy, hcur⟩ := ht
    cases ev with
    | src n =>
      cases n with
      | next x => cases hr : raises a.count x <;> simp [towmStep, towmAbsStep, hc, hr, hsw, hnd, had]
      | error e => simp [towmStep, towmAbsStep, hsw]
      | completed => simp [towmStep, towmAbsStep, hsw]
    | inner k sig =>
      by_cases hk : k' = k
      · cases sig <;> simp [towmStep, towmAbsStep, hc, hsw, hnd, had, htm, hmy, hcur, hk]
      · simp [towmStep, towmAbsStep, hc, hsw, hnd, had, htm, hmy, hcur, hk]
    | sub sg => simp [towmStep, towmAbsStep, hc, hsw, hnd, had, htm, hmy, hcur]

/-! ### delay_with_mapper -/

/-- every waiting element carries the ordinal of a source element already seen -/
def DwmOk {α} (s : DwmSt α) : Prop := ∀ p ∈ s.delays, p.1 < s.count

/-- element `k` has been seen and is no longer waiting (it was delivered, or its delay observable failed) -/
def DwmFired {α} (s : DwmSt α) (k : Nat) : Prop := k < s.count ∧ ∀ p ∈ s.delays, p.1 ≠ k

theorem dwm_ok_step {α} (raises : Nat → α → Option Err) (s : DwmSt α) (ev : MEv α) (h : DwmOk s) :
    DwmOk (dwmStep raises s ev).st := by
  unfold DwmOk at *
  cases ev with
  | sub sg =>
    cases hl : s.subLive <;> cases sg <;> simp only [dwmStep, hl, if_true, if_false, Bool.false_eq_true] <;> exact h
  | src n =>
    cases hl : s.srcLive
    · simp only [dwmStep, hl, if_false, Bool.false_eq_true]; exact h
    · cases n with
      | next x =>
        cases hr : raises s.count x with
        | some e =>
          simp only [dwmStep, hl, hr, if_true]
          intro p hp; exact Nat.lt_succ_of_lt (h p hp)
        | none =>
          simp only [dwmStep, hl, hr, if_true]
          intro p hp
          rcases List.mem_append.1 hp with hm | hm
          · exact Nat.lt_succ_of_lt (h p hm)
          · rw [List.mem_singleton] at hm; subst hm; exact Nat.lt_succ_self _
      | error e => simp only [dwmStep, hl, if_true]; exact h
      | completed => simp only [dwmStep, hl, if_true, dwmFinish]; exact h
  | inner k sig =>
    cases hf : s.delays.find? (fun p => p.1 == k) with
    | none => simp only [dwmStep, hf]; exact h
    | some kx =>
      obtain ⟨k', x⟩ := kx
      cases sig with
      | error e => simp only [dwmStep, hf]; exact h
      | next =>
        simp only [dwmStep, hf, dwmFinish]
        intro p hp; exact h p (List.mem_filter.1 hp).1
      | completed =>
        simp only [dwmStep, hf, dwmFinish]
        intro p hp; exact h p (List.mem_filter.1 hp).1

theorem dwm_fired_step {α} (raises : Nat → α → Option Err) (s : DwmSt α) (ev : MEv α) (k : Nat) (h : DwmFired s k) :
    DwmFired (dwmStep raises s ev).st k := by
  obtain ⟨hk, hn⟩ := h
  unfold DwmFired
  cases ev with
  | sub sg =>
    cases hl : s.subLive <;> cases sg <;> simp only [dwmStep, hl, if_true, if_false, Bool.false_eq_true] <;> exact ⟨hk, hn⟩
  | src n =>
    cases hl : s.srcLive
    · simp only [dwmStep, hl, if_false, Bool.false_eq_true]; exact ⟨hk, hn⟩
    · cases n with
      | next x =>
        cases hr : raises s.count x with
        | some e =>
          simp only [dwmStep, hl, hr, if_true]
          exact ⟨Nat.lt_succ_of_lt hk, hn⟩
        | none =>
          simp only [dwmStep, hl, hr, if_true]
          refine ⟨Nat.lt_succ_of_lt hk, ?_⟩
          intro p hp
          rcases List.mem_append.1 hp with hm | hm
          · exact hn p hm
          · rw [List.mem_singleton] at hm; subst hm; exact Nat.ne_of_gt hk
      | error e => simp only [dwmStep, hl, if_true]; exact ⟨hk, hn⟩
      | completed => simp only [dwmStep, hl, if_true, dwmFinish]; exact ⟨hk, hn⟩
  | inner j sig =>
    cases hf : s.delays.find? (fun p => p.1 == j) with
    | none => simp only [dwmStep, hf]; exact ⟨hk, hn⟩
    | some kx =>
      obtain ⟨k', x⟩ := kx
      cases sig with
      | error e => simp only [dwmStep, hf]; exact ⟨hk, hn⟩
      | next =>
        simp only [dwmStep, hf, dwmFinish]
        exact ⟨hk, fun p hp => hn p (List.mem_filter.1 hp).1⟩
      | completed =>
        simp only [dwmStep, hf, dwmFinish]
        exact ⟨hk, fun p hp => hn p (List.mem_filter.1 hp).1⟩

end Timed

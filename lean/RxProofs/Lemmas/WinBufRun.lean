import RxProofs.Lemmas.WinPre2
/-!
# The buffer run (`Mach.runBuf` / `bufLog`) is the `flat_map(to_list)` view of a run of the same window machine;
the non-empty filter of `buffer_with_count`.
-/
namespace Win
variable {σ α : Type}

/-- the `flat_map(to_list)` view of a whole window log. -/
def viewOf (nonEmpty : Bool) (l : List (Nat × Out α)) : BufView α := l.foldl (BufView.feed nonEmpty) {}

namespace Mach

/-- the machine's log only grows. -/
def Grows (m : Mach σ α) : Prop := ∀ s t e, ∃ l, m.log (m.step s t e) = m.log s ++ l

theorem bufAfter_view (m : Mach σ α) (hg : m.Grows) (ne : Bool) (s0 : σ) (t : Nat) (e : Ev α) (t' : Nat) :
    (m.bufAfter ne (m.log s0).length t' (m.step s0 t e) (viewOf ne (m.log s0))).2
      = viewOf ne (m.log (m.bufAfter ne (m.log s0).length t' (m.step s0 t e) (viewOf ne (m.log s0))).1) := by
  obtain ⟨l, hl⟩ := hg s0 t e
  have h1 : ((m.log (m.step s0 t e)).drop (m.log s0).length).foldl (BufView.feed ne) (viewOf ne (m.log s0))
      = viewOf ne (m.log (m.step s0 t e)) := by
    rw [hl, List.drop_left, viewOf, viewOf, List.foldl_append]
  unfold bufAfter
  simp only [h1]
  split
  · obtain ⟨l2, hl2⟩ := hg (m.step s0 t e) t' (.dispose true)
    simp only []
    rw [hl2, List.drop_left, viewOf, viewOf, List.foldl_append]
  · rfl

/-- **the buffer run is the view of a window run**: along `runBuf`, the buffer subscriber's view is always the
`flat_map(to_list)` view of the window machine's own log. -/
theorem runBuf_view (m : Mach σ α) (hg : m.Grows) (ne : Bool) (horizon : Nat) :
    ∀ (fuel : Nat) (s : σ) (evs : List (Nat × Ev α)),
      (m.runBuf ne horizon fuel (s, viewOf ne (m.log s)) evs).2
        = viewOf ne (m.log (m.runBuf ne horizon fuel (s, viewOf ne (m.log s)) evs).1) := by
  intro fuel
  induction fuel with
  | zero => intro s evs; rfl
  | succ fuel ih =>
    intro s evs
    have step : ∀ (t : Nat) (e : Ev α) (t' : Nat) (es : List (Nat × Ev α)),
        (m.runBuf ne horizon fuel (m.bufAfter ne (m.log s).length t' (m.step s t e) (viewOf ne (m.log s))) es).2
          = viewOf ne (m.log (m.runBuf ne horizon fuel (m.bufAfter ne (m.log s).length t' (m.step s t e) (viewOf ne (m.log s))) es).1) := by
      intro t e t' es
      have hb := bufAfter_view m hg ne s t e t'
      generalize m.bufAfter ne (m.log s).length t' (m.step s t e) (viewOf ne (m.log s)) = p at hb
      obtain ⟨s1, v1⟩ := p
      simp only at hb; subst hb
      exact ih s1 es
    cases evs with
    | nil =>
      simp only [runBuf]
      cases m.pending s with
      | none => rfl
      | some d =>
        simp only []
        split
        · exact step d .tick d []
        · rfl
    | cons te es =>
      obtain ⟨t, e⟩ := te
      simp only [runBuf]
      cases m.pending s with
      | none => exact step t _ t es
      | some d =>
        simp only []
        split
        · exact step d .tick d _
        · exact step t _ t es

end Mach
end Win
namespace Win
variable {σ α : Type}

namespace Mach
theorem bufAfter_view' (m : Mach σ α) (hg : m.Grows) (ne : Bool) (s : σ) (L0 : List (Nat × Out α)) (t' : Nat)
    (hl : ∃ l, m.log s = L0 ++ l) :
    (m.bufAfter ne L0.length t' s (viewOf ne L0)).2 = viewOf ne (m.log (m.bufAfter ne L0.length t' s (viewOf ne L0)).1) := by
  obtain ⟨l, hl⟩ := hl
  have h1 : ((m.log s).drop L0.length).foldl (BufView.feed ne) (viewOf ne L0) = viewOf ne (m.log s) := by
    rw [hl, List.drop_left, viewOf, viewOf, List.foldl_append]
  unfold bufAfter
  simp only [h1]
  split
  · obtain ⟨l2, hl2⟩ := hg s t' (.dispose true)
    simp only []
    rw [hl2, List.drop_left, viewOf, viewOf, List.foldl_append]
  · rfl

/-- **buffer_run_is_view**: what the buffer subscriber sees (`bufLog`) is the `flat_map(to_list)` view of the log of a
run of the SAME window machine (the one `runBuf` performs: the input events, with a `dispose` fed when the view
delivers a terminal downstream). -/
theorem bufLog_is_view (m : Mach σ α) (hg : m.Grows) (ne : Bool) (horizon fuel t0 : Nat) (s0 : σ) (evs : List (Nat × Ev α)) :
    m.bufLog ne horizon fuel t0 s0 evs =
      (viewOf ne (m.log (m.runBuf ne horizon fuel (m.bufAfter ne 0 t0 s0 {}) evs).1)).out := by
  unfold bufLog
  have hb := bufAfter_view' m hg ne s0 [] t0 ⟨m.log s0, by simp⟩
  simp only [List.length_nil] at hb
  have hv : viewOf ne ([] : List (Nat × Out α)) = {} := rfl
  rw [hv] at hb
  generalize m.bufAfter ne 0 t0 s0 {} = p at hb
  obtain ⟨s1, v1⟩ := p
  simp only at hb; subst hb
  rw [runBuf_view m hg ne horizon fuel s1 evs]
end Mach

/-! the non-empty filter of `buffer_with_count` -/
def notEmptyBuf : Nat × BOut α → Bool
  | (_, .outer (.next [])) => false
  | _ => true

@[simp] theorem neb_sub (t k : Nat) : notEmptyBuf (α := α) (t, .sub k) = true := rfl
@[simp] theorem neb_unsub (t k : Nat) : notEmptyBuf (α := α) (t, .unsub k) = true := rfl
@[simp] theorem neb_esc (t : Nat) (e : Err) : notEmptyBuf (α := α) (t, .escaped e) = true := rfl
@[simp] theorem neb_err (t : Nat) (e : Err) : notEmptyBuf (α := α) (t, .outer (.error e)) = true := rfl
@[simp] theorem neb_comp (t : Nat) : notEmptyBuf (α := α) (t, .outer .completed) = true := rfl
@[simp] theorem neb_nil (t : Nat) : notEmptyBuf (α := α) (t, .outer (.next [])) = false := rfl
@[simp] theorem neb_cons (t : Nat) (a : α) (l : List α) : notEmptyBuf (t, .outer (.next (a :: l))) = true := rfl

theorem feed_filter (v1 v2 : BufView α) (ent : Nat × Out α)
    (h : v1.seen = v2.seen ∧ v1.active = v2.active ∧ v1.outerDone = v2.outerDone ∧ v1.stopped = v2.stopped ∧
         v1.out = v2.out.filter notEmptyBuf) :
    let w1 := BufView.feed true v1 ent
    let w2 := BufView.feed false v2 ent
    w1.seen = w2.seen ∧ w1.active = w2.active ∧ w1.outerDone = w2.outerDone ∧ w1.stopped = w2.stopped ∧
      w1.out = w2.out.filter notEmptyBuf := by
  obtain ⟨h1, h2, h3, h4, h5⟩ := h
  obtain ⟨t, o⟩ := ent
  cases o with
  | sub k => simp [BufView.feed, BufView.emit, h1, h2, h3, h4, h5, List.filter_cons, List.filter_nil, List.filter_append]
  | unsub k => simp [BufView.feed, BufView.emit, h1, h2, h3, h4, h5, List.filter_cons, List.filter_nil, List.filter_append]
  | escaped e => simp [BufView.feed, BufView.emit, h1, h2, h3, h4, h5, List.filter_cons, List.filter_nil, List.filter_append]
  | outer n =>
    cases n with
    | next id => simp only [BufView.feed, h1, h2, h3, h4]; split <;> simp [h5, List.filter_cons, List.filter_nil, List.filter_append]
    | error e =>
      simp only [BufView.feed, BufView.emit, h1, h2, h3, h4]; split <;> simp [h5, List.filter_cons, List.filter_nil, List.filter_append]
    | completed =>
      simp only [BufView.feed, BufView.emit, h1, h2, h3, h4]; split
      · simp [h5, List.filter_cons, List.filter_nil, List.filter_append]
      · split <;> simp [h5, List.filter_cons, List.filter_nil, List.filter_append]
  | win id n =>
    cases n with
    | next x => simp [BufView.feed, h1, h2, h3, h4, h5, List.filter_cons, List.filter_nil, List.filter_append]
    | error e =>
      simp only [BufView.feed, BufView.emit, h1, h2, h3, h4]; split <;> simp [h5, List.filter_cons, List.filter_nil, List.filter_append]
    | completed =>
      simp only [BufView.feed, BufView.emit, h1, h2, h3, h4]
      split
      · simp [h5, List.filter_cons, List.filter_nil, List.filter_append]
      · cases hI : itemsOf v2.seen id with
        | nil =>
          simp only [Bool.true_and, List.isEmpty_nil, if_true, Bool.false_and, Bool.false_eq_true, if_false]
          split <;> simp [h5, List.filter_cons, List.filter_nil, List.filter_append]
        | cons a l =>
          simp only [Bool.true_and, List.isEmpty_cons, Bool.false_eq_true, if_false, Bool.false_and]
          split <;> simp [h5, List.filter_cons, List.filter_nil, List.filter_append]

/-- **buffer_count_filter**: `buffer_with_count`'s view (`nonEmpty = true`) is the plain `flat_map(to_list)` view followed
by `filter(len > 0)`. -/
theorem view_filter (l : List (Nat × Out α)) :
    (viewOf true l).out = (viewOf false l).out.filter notEmptyBuf := by
  have : ∀ (l : List (Nat × Out α)) (v1 v2 : BufView α),
      (v1.seen = v2.seen ∧ v1.active = v2.active ∧ v1.outerDone = v2.outerDone ∧ v1.stopped = v2.stopped ∧
         v1.out = v2.out.filter notEmptyBuf) →
      (l.foldl (BufView.feed true) v1).out = (l.foldl (BufView.feed false) v2).out.filter notEmptyBuf := by
    intro l
    induction l with
    | nil => intro v1 v2 h; exact h.2.2.2.2
    | cons e l ih => intro v1 v2 h; exact ih _ _ (feed_filter v1 v2 e h)
  exact this l {} {} ⟨rfl, rfl, rfl, rfl, rfl⟩

end Win

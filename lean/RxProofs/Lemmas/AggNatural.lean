import RxProofs.Lemmas.AggOps
/-!
# Naturality of the aggregating operators (support for C08: falsy values are ordinary elements)

The models are polymorphic in the element type.  Renaming the elements by **any** `ρ : α → α'` (callbacks composed
accordingly; `ρ` may send `None, 0, 0.0, False, '', (), [], {}` anywhere) commutes with every operator: the output on the
renamed input is the renamed output — for every raw input and every disposal timing.  Where the operator compares
elements (`to_set`, `contains`, `sequence_equal`) the renamed comparer must agree with the original one on renamed values
(`eq' (ρ a) (ρ b) = eq a b`; for Python's `==` that is injectivity of `ρ` up to `==`).
-/
namespace Agg

def mapN {α α'} (ρ : α → α') (raw : List (Notif α)) : List (Notif α') := raw.map (Notif.map ρ)

theorem mapN_id {β} (l : List (Notif β)) : mapN id l = l := by
  induction l with
  | nil => rfl
  | cons n ns ih => simp only [mapN, List.map_cons] at ih ⊢; rw [ih]; cases n <;> rfl

theorem isTerminal_mapN {α α'} (ρ : α → α') (n : Notif α) : (n.map ρ).isTerminal = n.isTerminal := by cases n <;> rfl

theorem cut_mapN {α α'} (ρ : α → α') (l : List (Notif α)) : cut (mapN ρ l) = mapN ρ (cut l) := by
  induction l with
  | nil => rfl
  | cons n ns ih =>
    simp only [mapN, List.map_cons, cut, isTerminal_mapN] at ih ⊢
    cases n.isTerminal <;> simp [ih]

/-- handler-level commutation through a state map `φ` -/
structure Op.Nat {α α' β β'} (op : Op α β) (op' : Op α' β') (ρ : α → α') (σ : β → β') (φ : op.σ → op'.σ) : Prop where
  init : φ op.init = op'.init
  calls : ∀ s n, (op'.handle (φ s) (n.map ρ)).calls = mapN σ (op.handle s n).calls
  st : ∀ s n, (op'.handle (φ s) (n.map ρ)).st = φ (op.handle s n).st

theorem Op.Nat.feed {α α' β β'} {op : Op α β} {op' : Op α' β'} {ρ : α → α'} {σ : β → β'} {φ : op.σ → op'.σ}
    (h : Op.Nat op op' ρ σ φ) (s : op.σ) (ns : List (Notif α)) :
    op'.feed (φ s) (mapN ρ ns) = mapN σ (op.feed s ns) := by
  induction ns generalizing s with
  | nil => rfl
  | cons n ns ih =>
    simp only [mapN, List.map_cons, Op.feed, List.map_append] at ih ⊢
    rw [h.calls, h.st, ih]; rfl

/-- **naturality from handler commutation** -/
theorem Op.Nat.out {α α' β β'} {op : Op α β} {op' : Op α' β'} {ρ : α → α'} {σ : β → β'} {φ : op.σ → op'.σ}
    (h : Op.Nat op op' ρ σ φ) (lag : Bool) (raw : List (Notif α)) :
    op'.out lag (mapN ρ raw) = mapN σ (op.out lag raw) := by
  rw [Op.out_eq, Op.out_eq, cut_mapN, ← h.init, h.feed, cut_mapN]

/-- naturality composes along `⨾` -/
theorem natural_comp {α α' β β' γ γ'} {f : Op α β} {f' : Op α' β'} {g : Op β γ} {g' : Op β' γ'}
    {ρ : α → α'} {σ : β → β'} {τ : γ → γ'}
    (hf : ∀ lag raw, f'.out lag (mapN ρ raw) = mapN σ (f.out lag raw))
    (hg : ∀ lag raw, g'.out lag (mapN σ raw) = mapN τ (g.out lag raw)) (lag : Bool) (raw : List (Notif α)) :
    (f' ⨾ g').out lag (mapN ρ raw) = mapN τ ((f ⨾ g).out lag raw) := by
  rw [Op.out_comp f' g' lag lag lag, Op.out_comp f g lag lag lag, hf, hg]

/-! ### primitives -/
section Prims
variable {α α' β β' κ ν ν' : Type} (ρ : α → α')

theorem mapO_nat (σ : β → β') (f : α → Except Err β) (f' : α' → Except Err β') (hf : ∀ x, f' (ρ x) = (f x).map σ) :
    Op.Nat (mapO f) (mapO f') ρ σ id :=
  ⟨rfl, fun s n => by cases n <;> simp [Op.handle, mapO, Notif.map, mapN, hf] <;> (rename_i x; cases f x <;> simp [Except.map, Notif.map]),
   fun s n => rfl⟩

theorem filterO_nat (p : α → Except Err Bool) (p' : α' → Except Err Bool) (hp : ∀ x, p' (ρ x) = p x) :
    Op.Nat (filterO p) (filterO p') ρ ρ id :=
  ⟨rfl, fun s n => by
      cases n <;> simp [Op.handle, filterO, Notif.map, mapN, hp]
      rename_i x; cases p x with
      | error e => simp [Notif.map]
      | ok b => cases b <;> simp [Notif.map],
   fun s n => rfl⟩

theorem scanO_nat (σ : β → β') (f : β → α → Except Err β) (f' : β' → α' → Except Err β') (seed : Option β) (inj : α → β) (inj' : α' → β')
    (hf : ∀ a x, f' (σ a) (ρ x) = (f a x).map σ) (hinj : ∀ x, inj' (ρ x) = σ (inj x)) :
    Op.Nat (scanO f seed inj) (scanO f' (seed.map σ) inj') ρ σ (Option.map σ) := by
  have hproj : ∀ s x, scanProj f' (seed.map σ) inj' (s.map σ) (ρ x) = (scanProj f seed inj s x).map σ := by
    intro s x
    cases s with
    | some a => simp [scanProj, hf]
    | none => cases seed <;> simp [scanProj, hf, hinj, Except.map]
  refine ⟨rfl, fun (s : Option β) n => ?_, fun (s : Option β) n => ?_⟩
  · cases n <;> simp [Op.handle, scanO, Notif.map, mapN]
    rename_i x; rw [hproj]; cases scanProj f seed inj s x <;> simp [Except.map, Notif.map]
  · cases n <;> simp [Op.handle, scanO, Notif.map]
    rename_i x; rw [hproj]; cases scanProj f seed inj s x <;> simp [Except.map]

theorem lastOrDefaultO_nat (d : Option α) :
    Op.Nat (lastOrDefaultO d) (lastOrDefaultO (d.map ρ)) ρ ρ (fun s => (s.1.map ρ, s.2)) := by
  refine ⟨rfl, fun s n => ?_, fun s n => ?_⟩
  · obtain ⟨v, seen⟩ := s
    cases n <;> simp [Op.handle, lastOrDefaultO, Notif.map, mapN]
    cases seen <;> cases d <;> cases v <;> simp [Notif.map]
  · obtain ⟨v, seen⟩ := s
    cases n <;> simp [Op.handle, lastOrDefaultO, Notif.map]
    cases seen <;> cases d <;> cases v <;> simp

theorem firstOrDefaultO_nat (d : Option α) : Op.Nat (firstOrDefaultO d) (firstOrDefaultO (d.map ρ)) ρ ρ id :=
  ⟨rfl, fun (s : Bool) n => by cases s <;> cases n <;> cases d <;> simp [Op.handle, firstOrDefaultO, Notif.map, mapN],
   fun (s : Bool) n => by cases s <;> cases n <;> cases d <;> simp [Op.handle, firstOrDefaultO, Notif.map]⟩

theorem singleOrDefaultO_nat (d : Option α) :
    Op.Nat (singleOrDefaultO d) (singleOrDefaultO (d.map ρ)) ρ ρ (fun s => (s.1.map ρ, s.2)) := by
  refine ⟨rfl, fun s n => ?_, fun s n => ?_⟩
  · obtain ⟨v, seen⟩ := s
    cases n <;> simp [Op.handle, singleOrDefaultO, Notif.map, mapN]
    · cases seen <;> simp [Notif.map]
    · cases seen <;> cases d <;> cases v <;> simp [Notif.map]
  · obtain ⟨v, seen⟩ := s
    cases n <;> simp [Op.handle, singleOrDefaultO, Notif.map]
    · cases seen <;> simp
    · cases seen <;> cases d <;> cases v <;> simp

theorem someOp_nat : Op.Nat (someOp : Op α Bool) (someOp : Op α' Bool) ρ id id :=
  ⟨rfl, fun (s : Bool) n => by cases s <;> cases n <;> simp [Op.handle, someOp, Notif.map, mapN],
   fun (s : Bool) n => by cases s <;> cases n <;> simp [Op.handle, someOp, Notif.map]⟩

theorem toListO_nat : Op.Nat (toListO : Op α (List α)) (toListO : Op α' (List α')) ρ (List.map ρ) (List.map ρ) :=
  ⟨rfl, fun (s : List α) n => by cases n <;> simp [Op.handle, toListO, Notif.map, mapN],
   fun (s : List α) n => by cases n <;> simp [Op.handle, toListO, Notif.map]⟩

theorem setAdd_map (eq : α → α → Bool) (eq' : α' → α' → Bool) (heq : ∀ a b, eq' (ρ a) (ρ b) = eq a b) (s : List α) (x : α) :
    setAdd eq' (s.map ρ) (ρ x) = (setAdd eq s x).map ρ := by
  unfold setAdd
  have : (s.map ρ).any (fun y => eq' y (ρ x)) = s.any (fun y => eq y x) := by
    induction s with
    | nil => rfl
    | cons a s ih => simp [heq, ih]
  rw [this]; split <;> simp

theorem toSetO_nat (eq : α → α → Bool) (eq' : α' → α' → Bool) (heq : ∀ a b, eq' (ρ a) (ρ b) = eq a b) :
    Op.Nat (toSetO eq) (toSetO eq') ρ (List.map ρ) (List.map ρ) :=
  ⟨rfl, fun (s : List α) n => by cases n <;> simp [Op.handle, toSetO, Notif.map, mapN],
   fun (s : List α) n => by cases n <;> simp [Op.handle, toSetO, Notif.map, setAdd_map ρ eq eq' heq]⟩

theorem extremaByO_nat {κ' : Type} (κρ : κ → κ') (key : α → Except Err κ) (key' : α' → Except Err κ')
    (cmp : κ → κ → Except Err Int) (cmp' : κ' → κ' → Except Err Int)
    (hkey : ∀ x, key' (ρ x) = (key x).map κρ) (hcmp : ∀ a b, cmp' (κρ a) (κρ b) = cmp a b) :
    Op.Nat (extremaByO key cmp) (extremaByO key' cmp') ρ (List.map ρ) (fun s => (s.1.map κρ, s.2.map ρ)) := by
  have hstep : ∀ (s : Option κ × List α) x, extremaStep key' cmp' (s.1.map κρ, s.2.map ρ) (ρ x)
      = (extremaStep key cmp s x).map (fun s => (s.1.map κρ, s.2.map ρ)) := by
    intro s x
    obtain ⟨lk, items⟩ := s
    simp only [extremaStep, hkey]
    cases key x with
    | error e => rfl
    | ok k =>
      cases lk with
      | none => simp [Except.map]
      | some l =>
        simp only [Except.map, Option.map_some, hcmp]
        cases cmp k l with
        | error e => rfl
        | ok c => by_cases h1 : c > 0 <;> by_cases h2 : c ≥ 0 <;> simp [h1, h2]
  refine ⟨rfl, fun (s : Option κ × List α) n => ?_, fun (s : Option κ × List α) n => ?_⟩
  · cases n <;> simp [Op.handle, extremaByO, Notif.map, mapN]
    rename_i x; rw [hstep]; cases extremaStep key cmp s x <;> simp [Except.map, Notif.map]
  · cases n <;> simp [Op.handle, extremaByO, Notif.map]
    rename_i x; rw [hstep]; cases extremaStep key cmp s x <;> simp [Except.map]

theorem dictSet_map (eq : κ → κ → Bool) (τ : ν → ν') (m : List (κ × ν)) (k : κ) (v : ν) :
    dictSet eq (m.map (fun p => (p.1, τ p.2))) k (τ v) = (dictSet eq m k v).map (fun p => (p.1, τ p.2)) := by
  induction m with
  | nil => rfl
  | cons p m ih => obtain ⟨k0, v0⟩ := p; simp only [List.map_cons, dictSet]; split <;> simp [ih]

theorem toDictO_nat (eq : κ → κ → Bool) (τ : ν → ν') (key : α → Except Err κ) (key' : α' → Except Err κ)
    (elem : α → Except Err ν) (elem' : α' → Except Err ν') (hkey : ∀ x, key' (ρ x) = key x) (helem : ∀ x, elem' (ρ x) = (elem x).map τ) :
    Op.Nat (toDictO eq key elem) (toDictO eq key' elem') ρ (List.map (fun p => (p.1, τ p.2))) (List.map (fun p => (p.1, τ p.2))) := by
  have hstep : ∀ s x, dictStep eq key' elem' (s.map (fun p => (p.1, τ p.2))) (ρ x)
      = (dictStep eq key elem s x).map (List.map (fun p => (p.1, τ p.2))) := by
    intro s x
    simp only [dictStep, hkey, helem]
    cases key x with
    | error e => rfl
    | ok k => cases elem x with
      | error e => rfl
      | ok v => simp [Except.map, dictSet_map]
  refine ⟨rfl, fun (s : List (κ × ν)) n => ?_, fun (s : List (κ × ν)) n => ?_⟩
  · cases n <;> simp [Op.handle, toDictO, Notif.map, mapN]
    rename_i x; rw [hstep]; cases dictStep eq key elem s x <;> simp [Except.map, Notif.map]
  · cases n <;> simp [Op.handle, toDictO, Notif.map]
    rename_i x; rw [hstep]; cases dictStep eq key elem s x <;> simp [Except.map]
end Prims

end Agg

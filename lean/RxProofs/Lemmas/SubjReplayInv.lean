import RxProofs.Lemmas.SubjTrim
import RxProofs.Lemmas.SubjInv
/-!
# Invariants of the ReplaySubject machine (`RxModel/SubjReplay.lean`)
-/

namespace SubjReplay
open Subj (Action Call upd disposedExn upd_apply)
variable {α : Type}

/-- States reachable by `VirtualTimeScheduler.start()` from the scheduled history. -/
inductive Reach (cfg : Cfg α) (calls : List (Nat × Call α)) : St α → Prop
  | init : Reach cfg calls (schedule calls)
  | step {st : St α} : Reach cfg calls st → Reach cfg calls (step cfg st)

theorem steps_reach {cfg : Cfg α} {calls : List (Nat × Call α)} (f : Nat) {st : St α} (h : Reach cfg calls st) :
    Reach cfg calls (steps cfg f st) := by
  induction f generalizing st with
  | zero => exact h
  | succ f ih =>
    simp only [steps]
    split
    · exact h
    · exact ih h.step

theorem run_reach (cfg : Cfg α) (fuel : Nat) (calls : List (Nat × Call α)) : Reach cfg calls (run cfg fuel calls) :=
  steps_reach fuel Reach.init

/-! ## Safety invariant -/

structure RInv (cfg : Cfg α) (st : St α) : Prop where
  sorted : Sorted st.allVals
  bounded : ∀ x ∈ st.allVals, x.1 ≤ st.lastNow
  lastNow_le : st.lastNow ≤ st.clock
  retained : st.disposed = false → IsRetained cfg st.lastNow st.allVals st.queue
  fifo : ∀ i, st.faulted i = false → st.fed i ++ st.soQueue i = st.enq i
  nodup : st.observers.Nodup
  obsSeen : ∀ i ∈ st.observers, st.seen i = true
  fresh : ∀ i, st.seen i = false → st.soQueue i = [] ∧ st.enq i = [] ∧ st.fed i = [] ∧ st.soStopped i = false ∧
      st.log i = [] ∧ st.adoStopped i = false ∧ st.handle i = false ∧ st.faulted i = false ∧ st.held i = false
  live : st.stopped = false → ∀ i ∈ st.observers, st.soStopped i = false
  excStop : st.exception ≠ none → st.stopped = true
  dispStop : st.disposed = true → st.stopped = true ∧ st.observers = []
  agSeen : ∀ j, Task.handle j ∈ st.agenda → st.seen j = true
  crashFault : ∀ i, st.faulted i = true → st.crashed ≠ none

macro "rinv_crush" : tactic => `(tactic| (
  all_goals try dsimp only at *
  all_goals first
    | done
    | grind [Notif.isTerminal, List.erase_of_not_mem, List.Nodup.erase, List.mem_of_mem_erase,
        List.Nodup.mem_erase_iff, List.nodup_append, List.mem_singleton]))

/-- Fold principle for the per-observer loops. -/
theorem pushAll_ind {P : St α → Prop} (n : Notif α) (l : List Id) (st : St α)
    (hstep : ∀ st i, i ∈ l → P st → P (soPush st i n)) (h : P st) : P (pushAll n l st) := by
  induction l generalizing st with
  | nil => exact h
  | cons i is ih =>
    simp only [pushAll]
    exact ih _ (fun st k hk hp => hstep st k (by simp [hk]) hp) (hstep st i (by simp) h)

theorem ensureAll_ind {P : St α → Prop} (l : List Id) (st : St α)
    (hstep : ∀ st i, i ∈ l → P st → P (ensureActive st i)) (h : P st) : P (ensureAll l st) := by
  induction l generalizing st with
  | nil => exact h
  | cons i is ih =>
    simp only [ensureAll]
    exact ih _ (fun st k hk hp => hstep st k (by simp [hk]) hp) (hstep st i (by simp) h)

theorem pushEnsureAll_ind {P : St α → Prop} (n : Notif α) (l : List Id) (st : St α)
    (hpush : ∀ st i, i ∈ l → P st → P (soPush st i n))
    (hens : ∀ st i, i ∈ l → P st → P (ensureActive st i)) (h : P st) : P (pushEnsureAll n l st) := by
  induction l generalizing st with
  | nil => exact h
  | cons i is ih =>
    simp only [pushEnsureAll]
    exact ih _ (fun st k hk hp => hpush st k (by simp [hk]) hp) (fun st k hk hp => hens st k (by simp [hk]) hp)
      (hens _ i (by simp) (hpush st i (by simp) h))

theorem pushList_ind {P : St α → Prop} (j : Id) (ns : List (Notif α)) (st : St α)
    (hstep : ∀ st n, n ∈ ns → P st → P (soPush st j n)) (h : P st) : P (pushList st j ns) := by
  induction ns generalizing st with
  | nil => exact h
  | cons n ns ih =>
    simp only [pushList]
    exact ih _ (fun st k hk hp => hstep st k (by simp [hk]) hp) (hstep st n (by simp) h)

/-- Invariant + "nothing but the ScheduledObservers changed" (what the loops need to carry along). -/
structure Keeps (cfg : Cfg α) (st0 st : St α) : Prop where
  inv : RInv cfg st
  seen : st.seen = st0.seen
  stopped : st.stopped = st0.stopped
  observers : st.observers = st0.observers

theorem soPush_keeps {cfg : Cfg α} {st0 st : St α} (i : Id) (n : Notif α) (h : Keeps cfg st0 st)
    (hi : st.seen i = true) (hn : n.isTerminal = true → st.stopped = true) : Keeps cfg st0 (soPush st i n) := by
  obtain ⟨⟨a1,a2,a3,a4,a5,a6,a7,a8,a9,a10,a11,a12,a13⟩, b1, b2, b3⟩ := h
  unfold soPush
  split
  · exact ⟨⟨a1,a2,a3,a4,a5,a6,a7,a8,a9,a10,a11,a12,a13⟩, b1, b2, b3⟩
  · refine ⟨⟨?_,?_,?_,?_,?_,?_,?_,?_,?_,?_,?_,?_,?_⟩, ?_, ?_, ?_⟩
    rinv_crush

theorem RInv.congr {cfg : Cfg α} {st st' : St α} (h : RInv cfg st)
    (e1 : st'.allVals = st.allVals) (e2 : st'.lastNow = st.lastNow) (e3 : st.clock ≤ st'.clock)
    (e4 : st'.disposed = st.disposed) (e5 : st'.queue = st.queue) (e6 : st'.faulted = st.faulted)
    (e7 : st'.fed = st.fed) (e8 : st'.soQueue = st.soQueue) (e9 : st'.enq = st.enq)
    (e10 : st'.observers = st.observers) (e11 : st'.seen = st.seen) (e12 : st'.soStopped = st.soStopped)
    (e13 : st'.log = st.log) (e14 : st'.adoStopped = st.adoStopped) (e15 : st'.handle = st.handle)
    (e16 : st'.stopped = st.stopped) (e17 : st'.exception = st.exception) (e18 : st'.held = st.held)
    (e19 : ∀ j, Task.handle j ∈ st'.agenda → Task.handle j ∈ st.agenda)
    (e20 : st.crashed ≠ none → st'.crashed ≠ none) : RInv cfg st' := by
  obtain ⟨a1,a2,a3,a4,a5,a6,a7,a8,a9,a10,a11,a12,a13⟩ := h
  refine ⟨?_,?_,?_,?_,?_,?_,?_,?_,?_,?_,?_,?_,?_⟩
  all_goals first
    | (intro j hj; rw [e11]; exact a12 j (e19 j hj))
    | (intro i hi; rw [e6] at hi; exact e20 (a13 i hi))
    | (simp_all <;> omega)

theorem ensureActive_frame (st : St α) (i : Id) :
    let st' := ensureActive st i
    st'.allVals = st.allVals ∧ st'.lastNow = st.lastNow ∧ st'.clock = st.clock ∧ st'.disposed = st.disposed ∧
    st'.queue = st.queue ∧ st'.faulted = st.faulted ∧ st'.fed = st.fed ∧ st'.soQueue = st.soQueue ∧
    st'.enq = st.enq ∧ st'.observers = st.observers ∧ st'.seen = st.seen ∧ st'.soStopped = st.soStopped ∧
    st'.log = st.log ∧ st'.adoStopped = st.adoStopped ∧ st'.handle = st.handle ∧ st'.stopped = st.stopped ∧
    st'.exception = st.exception ∧ st'.agenda = st.agenda ∧ st'.crashed = st.crashed ∧ st'.evs = st.evs ∧
    st'.sadDisposed = st.sadDisposed ∧ st'.held = st.held ∧ st'.cbs = st.cbs ∧ st'.raised = st.raised ∧
    st'.xlog = st.xlog := by
  unfold ensureActive scheduleRun
  dsimp only
  repeat' split
  all_goals simp

theorem ensureActive_keeps {cfg : Cfg α} {st0 st : St α} (i : Id) (h : Keeps cfg st0 st) :
    Keeps cfg st0 (ensureActive st i) := by
  have f := ensureActive_frame st i
  obtain ⟨hI, b1, b2, b3⟩ := h
  simp only at f
  obtain ⟨f1,f2,f3,f4,f5,f6,f7,f8,f9,f10,f11,f12,f13,f14,f15,f16,f17,f18,f19,_,_,f22,_⟩ := f
  exact ⟨hI.congr f1 f2 (by omega) f4 f5 f6 f7 f8 f9 f10 f11 f12 f13 f14 f15 f16 f17 f22 (fun _ h => f18 ▸ h) (fun h => f19.symm ▸ h),
    f11.trans b1, f16.trans b2, f10.trans b3⟩

theorem Keeps.refl {cfg : Cfg α} {st : St α} (h : RInv cfg st) : Keeps cfg st st := ⟨h, rfl, rfl, rfl⟩

theorem removableDispose_inv {cfg : Cfg α} {st : St α} (i : Id) (h : RInv cfg st) (hi : st.seen i = true) :
    RInv cfg (removableDispose st i) := by
  obtain ⟨a1,a2,a3,a4,a5,a6,a7,a8,a9,a10,a11,a12,a13⟩ := h
  unfold removableDispose soDispose
  dsimp only
  repeat' split
  all_goals refine ⟨?_,?_,?_,?_,?_,?_,?_,?_,?_,?_,?_,?_,?_⟩
  rinv_crush

theorem sadDispose_inv {cfg : Cfg α} {st : St α} (i : Id) (h : RInv cfg st) (hi : st.seen i = true) :
    RInv cfg (sadDispose st i) := by
  unfold sadDispose
  dsimp only
  split
  · exact h
  · have h' : RInv cfg { st with sadDisposed := upd st.sadDisposed i true, held := upd st.held i false } := by
      obtain ⟨a1,a2,a3,a4,a5,a6,a7,a8,a9,a10,a11,a12,a13⟩ := h
      refine ⟨?_,?_,?_,?_,?_,?_,?_,?_,?_,?_,?_,?_,?_⟩
      rinv_crush
    split
    · exact removableDispose_inv i h' hi
    · exact h'

theorem callback_inv {cfg : Cfg α} {st : St α} (i : Id) (n : Notif α) (h : RInv cfg st) (hi : st.seen i = true) :
    RInv cfg (callback st i n) := by
  obtain ⟨a1,a2,a3,a4,a5,a6,a7,a8,a9,a10,a11,a12,a13⟩ := h
  unfold callback
  refine ⟨?_,?_,?_,?_,?_,?_,?_,?_,?_,?_,?_,?_,?_⟩
  rinv_crush

theorem subjDispose_inv {cfg : Cfg α} {st : St α} (h : RInv cfg st) : RInv cfg (subjDispose st) := by
  obtain ⟨a1,a2,a3,a4,a5,a6,a7,a8,a9,a10,a11,a12,a13⟩ := h
  unfold subjDispose
  refine ⟨?_,?_,?_,?_,?_,?_,?_,?_,?_,?_,?_,?_,?_⟩
  rinv_crush

theorem raiseTo_inv {cfg : Cfg α} {st : St α} (who : Option Id) (e : Err) (h : RInv cfg st) : RInv cfg (raiseTo who e st) := by
  unfold raiseTo
  split <;> exact h.congr rfl rfl (Nat.le_refl _) rfl rfl rfl rfl rfl rfl rfl rfl rfl rfl rfl rfl rfl rfl rfl (fun _ h => h) (fun h => h)

theorem doUnsub_inv {cfg : Cfg α} {st : St α} (j : Id) (h : RInv cfg st) : RInv cfg (doUnsub st j) := by
  unfold doUnsub
  split
  · rename_i hh
    have hj : st.seen j = true := by
      cases hs : st.seen j with
      | true => rfl
      | false => have := (h.fresh j hs).2.2.2.2.2.2.1; rw [this] at hh; exact absurd hh (by simp)
    refine sadDispose_inv j ?_ hj
    obtain ⟨a1,a2,a3,a4,a5,a6,a7,a8,a9,a10,a11,a12,a13⟩ := h
    refine ⟨?_,?_,?_,?_,?_,?_,?_,?_,?_,?_,?_,?_,?_⟩
    rinv_crush
  · exact h

theorem Keeps.trans {cfg : Cfg α} {a b c : St α} (h1 : Keeps cfg a b) (h2 : Keeps cfg b c) : Keeps cfg a c :=
  ⟨h2.inv, h2.seen.trans h1.seen, h2.stopped.trans h1.stopped, h2.observers.trans h1.observers⟩

theorem pushList_keeps {cfg : Cfg α} {st : St α} (j : Id) (ns : List (Notif α)) (h : RInv cfg st) (hj : st.seen j = true)
    (hn : ∀ n ∈ ns, n.isTerminal = false) : Keeps cfg st (pushList st j ns) := by
  apply pushList_ind (P := fun s => Keeps cfg st s) j ns st ?_ (Keeps.refl h)
  intro s n hmem hk
  exact soPush_keeps j n hk (by rw [hk.seen]; exact hj) (by intro ht; rw [hn n hmem] at ht; exact absurd ht (by simp))

theorem finishSub_inv {cfg : Cfg α} {st : St α} (j : Id) (h : RInv cfg st) (hj : st.seen j = true) :
    RInv cfg { st with held := upd st.held j true, handle := upd st.handle j true } := by
  obtain ⟨a1,a2,a3,a4,a5,a6,a7,a8,a9,a10,a11,a12,a13⟩ := h
  refine ⟨?_,?_,?_,?_,?_,?_,?_,?_,?_,?_,?_,?_,?_⟩
  rinv_crush

theorem subscribeCore_inv (cfg : Cfg α) {st : St α} (j : Id) (h : RInv cfg st) (hseen : st.seen j = true)
    (hjn : j ∉ st.observers) (hso : st.soStopped j = false) (hdisp : st.disposed = false) :
    RInv cfg (subscribeCore cfg st j) := by
  have hret := trim_of_retained h.sorted (h.retained hdisp) h.lastNow_le
  have h2 : RInv cfg { st with queue := trim cfg st.clock st.queue, lastNow := st.clock, observers := st.observers ++ [j] } := by
    obtain ⟨a1,a2,a3,a4,a5,a6,a7,a8,a9,a10,a11,a12,a13⟩ := h
    refine ⟨?_,?_,?_,?_,?_,?_,?_,?_,?_,?_,?_,?_,?_⟩
    rinv_crush
  have k1 := pushList_keeps (cfg := cfg) j ((trim cfg st.clock st.queue).map fun (it : Nat × α) => Notif.next it.2) h2
    hseen (by intro n hn; simp only [List.mem_map] at hn; obtain ⟨_, _, rfl⟩ := hn; rfl)
  unfold subscribeCore
  dsimp only
  generalize hs3 : pushList _ j _ = s3 at k1 ⊢
  have hs3seen : s3.seen j = true := by rw [k1.seen]; exact hseen
  have k2 : Keeps cfg s3 (match s3.exception with
      | some e => soPush s3 j (.error e)
      | none => if s3.stopped = true then soPush s3 j .completed else s3) := by
    split
    · rename_i e he
      exact soPush_keeps j _ (Keeps.refl k1.inv) hs3seen (fun _ => k1.inv.excStop (by simp [he]))
    · split
      · rename_i hst
        exact soPush_keeps j _ (Keeps.refl k1.inv) hs3seen (fun _ => hst)
      · exact Keeps.refl k1.inv
  have k3 := ensureActive_keeps j k2
  exact finishSub_inv j k3.inv ((congrFun k3.seen j).trans hs3seen)

theorem doSub_inv (cfg : Cfg α) {st : St α} (who : Option Id) (j : Id) (h : RInv cfg st) :
    RInv cfg (doSub cfg st who j).1 := by
  unfold doSub
  split
  · exact h
  · rename_i hseen
    have hseen : st.seen j = false := by simpa using hseen
    dsimp only
    split
    · -- disposed: fail path
      have hf := h.fresh j hseen
      have h2 : RInv cfg { st with seen := upd st.seen j true, evs := st.evs ++ [EvR.sub j st.clock], adoStopped := upd st.adoStopped j true, enq := upd st.enq j [.error disposedExn], fed := upd st.fed j [.error disposedExn] } := by
        obtain ⟨a1,a2,a3,a4,a5,a6,a7,a8,a9,a10,a11,a12,a13⟩ := h
        refine ⟨?_,?_,?_,?_,?_,?_,?_,?_,?_,?_,?_,?_,?_⟩
        rinv_crush
      split
      · exact callback_inv j _ h2 (by simp)
      · exact raiseTo_inv who _ h2
    · rename_i hdisp
      have hdisp : st.disposed = false := by simpa using hdisp
      have hjn : j ∉ st.observers := fun hm => by have := h.obsSeen j hm; rw [hseen] at this; exact absurd this (by simp)
      have hf := h.fresh j hseen
      have h2 : RInv cfg { st with seen := upd st.seen j true, evs := st.evs ++ [EvR.sub j st.clock] } := by
        obtain ⟨a1,a2,a3,a4,a5,a6,a7,a8,a9,a10,a11,a12,a13⟩ := h
        refine ⟨?_,?_,?_,?_,?_,?_,?_,?_,?_,?_,?_,?_,?_⟩
        rinv_crush
      exact subscribeCore_inv cfg j h2 (by simp) hjn hf.2.2.2.1 hdisp

theorem adoDeliver_inv (cfg : Cfg α) {st : St α} (i : Id) (n : Notif α) (h : RInv cfg st) (hi : st.seen i = true) :
    RInv cfg (adoDeliver cfg st i n).1 := by
  unfold adoDeliver
  split
  · exact h
  · have h2 : RInv cfg { st with adoStopped := upd st.adoStopped i true } := by
      obtain ⟨a1,a2,a3,a4,a5,a6,a7,a8,a9,a10,a11,a12,a13⟩ := h
      refine ⟨?_,?_,?_,?_,?_,?_,?_,?_,?_,?_,?_,?_,?_⟩
      rinv_crush
    split
    · exact callback_inv i _ h hi
    · exact callback_inv i _ h2 hi
    · dsimp only
      split
      · exact callback_inv i _ h2 hi
      · exact sadDispose_inv i h2 hi

theorem sadDispose_seen (st : St α) (i : Id) : (sadDispose st i).seen = st.seen := by
  unfold sadDispose removableDispose soDispose
  dsimp only
  repeat' split
  all_goals rfl

theorem adoDeliver_seen (cfg : Cfg α) (st : St α) (i : Id) (n : Notif α) : (adoDeliver cfg st i n).1.seen = st.seen := by
  unfold adoDeliver callback
  dsimp only
  repeat' split
  all_goals first | rfl | exact sadDispose_seen _ _

theorem reactions_nohandle (cfg : Cfg α) (st : St α) (i j : Id) : Task.handle j ∉ reactions cfg st i := by
  simp [reactions]

theorem adoDeliver_nohandle (cfg : Cfg α) (st : St α) (i : Id) (n : Notif α) (j : Id) :
    Task.handle j ∉ (adoDeliver cfg st i n).2.1 := by
  unfold adoDeliver
  dsimp only
  repeat' split
  all_goals simp [reactions]

theorem subscribeCore_seen (cfg : Cfg α) (st : St α) (j : Id) : (subscribeCore cfg st j).seen = st.seen := by
  have e : ∀ s : St α, (ensureActive s j).seen = s.seen := fun s => (ensureActive_frame s j).2.2.2.2.2.2.2.2.2.2.1
  have p : ∀ (s : St α) n, (soPush s j n).seen = s.seen := by
    intro s n; unfold soPush; split <;> rfl
  have pa : ∀ (ns : List (Notif α)) (s : St α), (pushList s j ns).seen = s.seen := by
    intro ns
    induction ns with
    | nil => intro s; rfl
    | cons n ns ih => intro s; simp only [pushList]; rw [ih, p]
  unfold subscribeCore
  simp only [e]
  split
  · rw [p, pa]
  · split
    · rw [p, pa]
    · rw [pa]

theorem doSub_handle (cfg : Cfg α) (st : St α) (who : Option Id) (j k : Id)
    (h : Task.handle k ∈ (doSub cfg st who j).2) : (doSub cfg st who j).1.seen k = true := by
  unfold doSub at h ⊢
  split at h
  · simp at h
  · dsimp only at h ⊢
    split at h
    · split at h
      · simp only [List.mem_append, List.mem_singleton, Task.handle.injEq] at h
        rcases h with h | h
        · exact absurd h (reactions_nohandle _ _ _ _)
        · subst h
          simp [*, callback]
      · simp at h
    · simp at h

theorem soRun_inv (cfg : Cfg α) {st : St α} (i : Id) (h : RInv cfg st) : RInv cfg (soRun cfg st i) := by
  unfold soRun
  split
  · exact h.congr rfl rfl (Nat.le_refl _) rfl rfl rfl rfl rfl rfl rfl rfl rfl rfl rfl rfl rfl rfl rfl (fun _ h => h) (fun h => h)
  · rename_i n rest hq
    have hi : st.seen i = true := by
      cases hs : st.seen i with
      | true => rfl
      | false => have := (h.fresh i hs).1; rw [this] at hq; exact absurd hq (by simp)
    have h2 : RInv cfg { st with soQueue := upd st.soQueue i rest, fed := upd st.fed i (st.fed i ++ [n]) } := by
      obtain ⟨a1,a2,a3,a4,a5,a6,a7,a8,a9,a10,a11,a12,a13⟩ := h
      refine ⟨?_,?_,?_,?_,?_,?_,?_,?_,?_,?_,?_,?_,?_⟩
      rinv_crush
    have h3 := adoDeliver_inv cfg i n h2 (by exact hi)
    have hseen3 : (adoDeliver cfg { st with soQueue := upd st.soQueue i rest, fed := upd st.fed i (st.fed i ++ [n]) } i n).1.seen i = true := by
      rw [adoDeliver_seen]; exact hi
    have hno := adoDeliver_nohandle cfg { st with soQueue := upd st.soQueue i rest, fed := upd st.fed i (st.fed i ++ [n]) } i n
    dsimp only
    generalize adoDeliver cfg _ i n = r at h3 hseen3 hno ⊢
    clear h2 h hq
    split
    · obtain ⟨a1,a2,a3,a4,a5,a6,a7,a8,a9,a10,a11,a12,a13⟩ := h3
      refine ⟨?_,?_,?_,?_,?_,?_,?_,?_,?_,?_,?_,?_,?_⟩
      rinv_crush
    · refine h3.congr rfl rfl (Nat.le_refl _) rfl rfl rfl rfl rfl rfl rfl rfl rfl rfl rfl rfl rfl rfl rfl ?_ (fun h => h)
      intro j hj
      simp only [List.mem_append, List.mem_singleton] at hj
      rcases hj with hj | hj
      · exact absurd hj (hno j)
      · exact absurd hj (by simp)

theorem pushAll_keeps {cfg : Cfg α} {st : St α} (n : Notif α) (l : List Id) (h : RInv cfg st)
    (hl : ∀ i ∈ l, st.seen i = true) (hn : n.isTerminal = true → st.stopped = true) : Keeps cfg st (pushAll n l st) := by
  apply pushAll_ind (P := fun s => Keeps cfg st s) n l st ?_ (Keeps.refl h)
  intro s i hmem hk
  exact soPush_keeps i n hk (by rw [hk.seen]; exact hl i hmem) (by rw [hk.stopped]; exact hn)

theorem ensureAll_keeps {cfg : Cfg α} {st0 st : St α} (l : List Id) (h : Keeps cfg st0 st) : Keeps cfg st0 (ensureAll l st) := by
  apply ensureAll_ind (P := fun s => Keeps cfg st0 s) l st ?_ h
  intro s i _ hk
  exact ensureActive_keeps i hk

theorem pushEnsureAll_keeps {cfg : Cfg α} {st : St α} (n : Notif α) (l : List Id) (h : RInv cfg st)
    (hl : ∀ i ∈ l, st.seen i = true) (hn : n.isTerminal = true → st.stopped = true) :
    Keeps cfg st (pushEnsureAll n l st) := by
  apply pushEnsureAll_ind (P := fun s => Keeps cfg st s) n l st ?_ ?_ (Keeps.refl h)
  · intro s i hmem hk
    exact soPush_keeps i n hk (by rw [hk.seen]; exact hl i hmem) (by rw [hk.stopped]; exact hn)
  · intro s i _ hk
    exact ensureActive_keeps i hk

theorem Sorted.append_one {l : List (Nat × α)} {x : Nat × α} (hs : Sorted l) (hb : ∀ y ∈ l, y.1 ≤ x.1) :
    Sorted (l ++ [x]) := by
  unfold Sorted at *
  rw [List.pairwise_append]
  refine ⟨hs, by simp, ?_⟩
  intro a ha b hb'
  simp only [List.mem_singleton] at hb'
  subst hb'
  exact hb a ha

theorem emit_inv (cfg : Cfg α) {st : St α} (who : Option Id) (n : Notif α) (h : RInv cfg st) : RInv cfg (emit cfg st who n) := by
  unfold emit
  split
  · exact raiseTo_inv who _ h
  · rename_i hdisp
    have hdisp : st.disposed = false := by simpa using hdisp
    split
    · exact h
    · rename_i hstop
      have hstop : st.stopped = false := by simpa using hstop
      dsimp only
      split
      · rename_i v
        have hsorted : Sorted (st.allVals ++ [(st.clock, v)]) :=
          h.sorted.append_one (fun y hy => Nat.le_trans (h.bounded y hy) h.lastNow_le)
        have hret := trim_append_of_retained (st.clock, v) hsorted (h.retained hdisp) h.lastNow_le
        have h2 : RInv cfg { st with queue := trim cfg st.clock (st.queue ++ [(st.clock, v)]), allVals := st.allVals ++ [(st.clock, v)], lastNow := st.clock } := by
          obtain ⟨a1,a2,a3,a4,a5,a6,a7,a8,a9,a10,a11,a12,a13⟩ := h
          refine ⟨?_,?_,?_,?_,?_,?_,?_,?_,?_,?_,?_,?_,?_⟩
          rinv_crush
        have k1 := pushAll_keeps (cfg := cfg) (.next v) st.observers h2 h.obsSeen (by intro ht; simp [Notif.isTerminal] at ht)
        exact (ensureAll_keeps st.observers k1).inv
      · rename_i hnn
        have hret := trim_of_retained h.sorted (h.retained hdisp) h.lastNow_le
        have h2 : ∀ exc, RInv cfg { st with stopped := true, observers := [], exception := exc, queue := trim cfg st.clock st.queue, lastNow := st.clock } := by
          intro exc
          obtain ⟨a1,a2,a3,a4,a5,a6,a7,a8,a9,a10,a11,a12,a13⟩ := h
          refine ⟨?_,?_,?_,?_,?_,?_,?_,?_,?_,?_,?_,?_,?_⟩
          rinv_crush
        exact (pushEnsureAll_keeps (cfg := cfg) n st.observers (h2 _) h.obsSeen (fun _ => rfl)).inv

theorem doTask_inv (cfg : Cfg α) {st : St α} (t : Task α) (h : RInv cfg st)
    (ht : ∀ j, t = .handle j → st.seen j = true) : RInv cfg (doTask cfg st t) := by
  cases t with
  | act who a =>
    cases a with
    | emit n =>
      simp only [doTask]
      refine emit_inv cfg who n ?_
      cases who with
      | none => exact h
      | some i => exact h.congr rfl rfl (Nat.le_refl _) rfl rfl rfl rfl rfl rfl rfl rfl rfl rfl rfl rfl rfl rfl rfl (fun _ h => h) (fun h => h)
    | base a =>
    cases a with
    | sub j =>
      have := doSub_inv cfg who j h
      simp only [doTask]
      obtain ⟨a1,a2,a3,a4,a5,a6,a7,a8,a9,a10,a11,a12,a13⟩ := this
      refine ⟨a1,a2,a3,a4,a5,a6,a7,a8,a9,a10,a11,?_,a13⟩
      intro k hk
      simp only [List.mem_append] at hk
      rcases hk with hk | hk
      · exact doSub_handle cfg st who j k hk
      · exact a12 k hk
    | unsub j => exact doUnsub_inv j h
    | dispose => exact subjDispose_inv h
  | sadDispose i =>
    simp only [doTask]
    by_cases hi : st.seen i = true
    · exact sadDispose_inv i h hi
    · have hi : st.seen i = false := by simpa using hi
      have := (h.fresh i hi).2.2.2.2.2.2.2.2
      unfold sadDispose
      split
      · exact h
      · simp only [this, Bool.false_eq_true, if_false]
        obtain ⟨a1,a2,a3,a4,a5,a6,a7,a8,a9,a10,a11,a12,a13⟩ := h
        refine ⟨?_,?_,?_,?_,?_,?_,?_,?_,?_,?_,?_,?_,?_⟩
        rinv_crush
  | resched i => exact h.congr rfl rfl (Nat.le_refl _) rfl rfl rfl rfl rfl rfl rfl rfl rfl rfl rfl rfl rfl rfl rfl (fun _ h => h) (fun h => h)
  | handle j =>
    simp only [doTask]
    have hj := ht j rfl
    obtain ⟨a1,a2,a3,a4,a5,a6,a7,a8,a9,a10,a11,a12,a13⟩ := h
    refine ⟨?_,?_,?_,?_,?_,?_,?_,?_,?_,?_,?_,?_,?_⟩
    rinv_crush

theorem doCall_inv (cfg : Cfg α) {st : St α} (k : Nat) (c : Call α) (h : RInv cfg st) (_hag : st.agenda = []) :
    RInv cfg (doCall cfg st k c) := by
  have h2 : RInv cfg { st with curCall := k, evs := st.evs ++ [EvR.call k st.clock st.observers.length c] } :=
    h.congr rfl rfl (Nat.le_refl _) rfl rfl rfl rfl rfl rfl rfl rfl rfl rfl rfl rfl rfl rfl rfl (fun _ h => h) (fun h => h)
  unfold doCall
  cases c with
  | next v => exact emit_inv cfg none _ h2
  | error e => exact emit_inv cfg none _ h2
  | completed => exact emit_inv cfg none _ h2
  | sub i => exact h2.congr rfl rfl (Nat.le_refl _) rfl rfl rfl rfl rfl rfl rfl rfl rfl rfl rfl rfl rfl rfl rfl (by simp) (fun h => h)
  | unsub i => exact h2.congr rfl rfl (Nat.le_refl _) rfl rfl rfl rfl rfl rfl rfl rfl rfl rfl rfl rfl rfl rfl rfl (by simp) (fun h => h)
  | dispose => exact h2.congr rfl rfl (Nat.le_refl _) rfl rfl rfl rfl rfl rfl rfl rfl rfl rfl rfl rfl rfl rfl rfl (by simp) (fun h => h)

theorem advance_inv (cfg : Cfg α) {st : St α} (due : Nat) (h : RInv cfg st) : RInv cfg (advance st due) := by
  unfold advance
  dsimp only
  repeat' split
  all_goals exact h.congr rfl rfl (by simp; try omega) rfl rfl rfl rfl rfl rfl rfl rfl rfl rfl rfl rfl rfl rfl rfl (fun _ h => h) (fun h => h)

theorem advance_agenda (st : St α) (due : Nat) : (advance st due).agenda = st.agenda := by
  unfold advance
  dsimp only
  repeat' split
  all_goals rfl

theorem invoke_inv (cfg : Cfg α) {st : St α} (it : Item α) (h : RInv cfg st) (hag : st.agenda = []) :
    RInv cfg (invoke cfg st it) := by
  unfold invoke
  split
  · exact h
  · split
    · exact doCall_inv cfg _ _ h hag
    · exact soRun_inv cfg _ h

/-- **Every step of the scheduler loop preserves the invariant.** -/
theorem step_inv (cfg : Cfg α) {st : St α} (h : RInv cfg st) : RInv cfg (step cfg st) := by
  unfold step
  split
  · exact h
  · split
    · rename_i t ts hag
      have h2 : RInv cfg { st with agenda := ts } :=
        h.congr rfl rfl (Nat.le_refl _) rfl rfl rfl rfl rfl rfl rfl rfl rfl rfl rfl rfl rfl rfl rfl
          (fun j hj => by rw [hag]; exact List.mem_cons_of_mem _ hj) (fun h => h)
      exact doTask_inv cfg t h2 (fun j hj => h.agSeen j (by rw [hag, hj]; simp))
    · rename_i hag
      split
      · exact h
      · rename_i it rest hp
        have h2 : RInv cfg { st with pending := rest } :=
          h.congr rfl rfl (Nat.le_refl _) rfl rfl rfl rfl rfl rfl rfl rfl rfl rfl rfl rfl rfl rfl rfl (fun _ h => h) (fun h => h)
        exact invoke_inv cfg it (advance_inv cfg it.due h2) (by rw [advance_agenda]; exact hag)

theorem schedule_go_inv (cfg : Cfg α) (cs : List (Nat × Call α)) (k : Nat) (st : St α) (h : RInv cfg st) :
    RInv cfg (schedule.go cs k st) := by
  induction cs generalizing k st with
  | nil => exact h
  | cons c cs ih =>
    obtain ⟨t, c⟩ := c
    simp only [schedule.go]
    exact ih _ _ (h.congr rfl rfl (Nat.le_refl _) rfl rfl rfl rfl rfl rfl rfl rfl rfl rfl rfl rfl rfl rfl rfl (fun _ h => h) (fun h => h))

theorem init_inv (cfg : Cfg α) (calls : List (Nat × Call α)) : RInv cfg (schedule calls) := by
  apply schedule_go_inv
  refine ⟨?_,?_,?_,?_,?_,?_,?_,?_,?_,?_,?_,?_,?_⟩
  all_goals simp [Sorted, IsRetained, Good]

theorem reach_inv {cfg : Cfg α} {calls : List (Nat × Call α)} {st : St α} (h : Reach cfg calls st) : RInv cfg st := by
  induction h with
  | init => exact init_inv cfg calls
  | step _ ih => exact step_inv cfg ih

end SubjReplay

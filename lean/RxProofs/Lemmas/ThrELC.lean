import RxProofs.Lemmas.ThrELB
/-!
# EventLoopScheduler model: system-level invariants, part 2 (order, time, cancellation, disposal) — C31
-/
namespace Thr.EL
open Thr

def readyOf : List Frame → List Item
  | [] => []
  | .loop _ r :: rest => r ++ readyOf rest
  | _ :: rest => readyOf rest
def readyT (th : Th) : List Item := readyOf th.stack
def readyAll (ths : List Th) : List Item := ths.flatMap readyT

def key (it : Item) : Int × Nat := (it.due, it.seq)
def EqR (a b : Int × Nat) : Prop := a.1 = b.1 → a.2 < b.2
def LeR (a b : Int × Nat) : Prop := a.1 ≤ b.1

/-- sequence numbers of the immediately-due submissions, oldest first -/
def immEnq : List Ev → List Nat
  | [] => []
  | .enq _ _ seq true _ :: r => immEnq r ++ [seq]
  | _ :: r => immEnq r
/-- sequence numbers of the immediately-due items taken out of the loop's batch (started, or found cancelled) -/
def immPop : List Ev → List Nat
  | [] => []
  | .start _ _ _ seq true _ :: r => immPop r ++ [seq]
  | .skip _ _ _ seq true :: r => immPop r ++ [seq]
  | _ :: r => immPop r
/-- (due, seq) of the timed items taken out of the loop's batch, oldest first -/
def tPop : List Ev → List (Int × Nat)
  | [] => []
  | .start _ _ due seq false _ :: r => tPop r ++ [(due, seq)]
  | .skip _ _ due seq false :: r => tPop r ++ [(due, seq)]
  | _ :: r => tPop r

def okCancel : List Ev → Prop
  | [] => True
  | .start _ id _ _ _ _ :: rest => (∀ t, Ev.cancel t id ∉ rest) ∧ okCancel rest
  | _ :: rest => okCancel rest

/-- after the (first) dispose no `schedule*` call passes the `_is_disposed` test and the loop gathers nothing -/
def okDisp : List Ev → Prop
  | [] => True
  | .passed _ _ :: rest => (∀ t, Ev.dispose t true ∉ rest) ∧ okDisp rest
  | .collect _ _ _ :: rest => (∀ t, Ev.dispose t true ∉ rest) ∧ okDisp rest
  | _ :: rest => okDisp rest

def neutral : Ev → Bool
  | .enq .. => false
  | .start .. => false
  | .skip .. => false
  | .collect .. => false
  | _ => true

theorem immEnq_neutral (e : Ev) (l : List Ev) (h : neutral e = true) : immEnq (e :: l) = immEnq l := by
  cases e <;> simp_all [neutral, immEnq]
theorem immPop_neutral (e : Ev) (l : List Ev) (h : neutral e = true) : immPop (e :: l) = immPop l := by
  cases e <;> simp_all [neutral, immPop]
theorem tPop_neutral (e : Ev) (l : List Ev) (h : neutral e = true) : tPop (e :: l) = tPop l := by
  cases e <;> simp_all [neutral, tPop]
theorem okCancel_neutral (e : Ev) (l : List Ev) (h : neutral e = true) : okCancel (e :: l) = okCancel l := by
  cases e <;> simp_all [neutral, okCancel]
theorem okDisp_neutral (e : Ev) (l : List Ev) (h : neutral e = true) (hp : ∀ t id, e ≠ .passed t id) :
    okDisp (e :: l) = okDisp l := by
  cases e <;> simp_all [neutral, okDisp]

structure E2 (s : Sys) : Prop where
  kinds : (∀ r ∈ s.sh.readyList, r.imm = true) ∧ (∀ q ∈ s.sh.queue, q.imm = false)
  due : ∀ it ∈ readyAll s.ths ++ s.sh.readyList, it.due ≤ s.sh.clock
  fifo : immEnq s.sh.log = immPop s.sh.log ++ ((readyAll s.ths).filter (·.imm)).map (·.seq) ++ s.sh.readyList.map (·.seq)
  qs : s.sh.queue.Pairwise (fun a b => a.due ≤ b.due)
  sq : ∀ k ∈ tPop s.sh.log ++ ((readyAll s.ths).filter (fun x => !x.imm) ++ s.sh.queue).map key, k.2 < s.sh.nsched
  eo : (tPop s.sh.log ++ ((readyAll s.ths).filter (fun x => !x.imm) ++ s.sh.queue).map key).Pairwise EqR
  lo : (tPop s.sh.log ++ ((readyAll s.ths).filter (fun x => !x.imm) ++ s.sh.queue).map key).Pairwise LeR
  tdc : ∀ k ∈ tPop s.sh.log, k.1 ≤ s.sh.clock
  nb : ∀ t id due seq imm clk, Ev.start t id due seq imm clk ∈ s.sh.log → due ≤ clk
  cl : ∀ t k, Ev.cancel t k ∈ s.sh.log → k ∈ s.sh.cancelled
  oc : okCancel s.sh.log
  dl : ∀ t, Ev.dispose t true ∈ s.sh.log → s.sh.disposed = true
  od : okDisp s.sh.log

theorem e2_frame (s s' : Sys) (h : E2 s) (es : List Ev)
    (hlog : s'.sh.log = es ++ s.sh.log) (hes : es = [] ∨ ∃ e, es = [e] ∧ neutral e = true)
    (hrl : s'.sh.readyList = s.sh.readyList) (hq : s'.sh.queue = s.sh.queue) (hra : readyAll s'.ths = readyAll s.ths)
    (hc : s.sh.clock ≤ s'.sh.clock) (hn : s'.sh.nsched = s.sh.nsched)
    (hcan : ∀ k, (k ∈ s.sh.cancelled ∨ ∃ t, Ev.cancel t k ∈ es) → k ∈ s'.sh.cancelled)
    (hd : (s.sh.disposed = true ∨ ∃ t, Ev.dispose t true ∈ es) → s'.sh.disposed = true)
    (hps : ∀ t id, Ev.passed t id ∈ es → s.sh.disposed = false) : E2 s' := by
  obtain ⟨kinds, due, fifo, qs, sq, eo, lo, tdc, nb, cl, oc, dl, od⟩ := h
  rcases hes with rfl | ⟨e, rfl, he⟩
  · simp only [List.nil_append] at hlog
    refine ⟨by rw [hrl, hq]; exact kinds, ?_, by rw [hlog, hra, hrl]; exact fifo, by rw [hq]; exact qs,
      by rw [hlog, hra, hq, hn]; exact sq, by rw [hlog, hra, hq]; exact eo, by rw [hlog, hra, hq]; exact lo, ?_,
      by rw [hlog]; exact nb, ?_, by rw [hlog]; exact oc, ?_, by rw [hlog]; exact od⟩
    · rw [hra, hrl]; intro it hi; have := due it hi; omega
    · rw [hlog]; intro k hk; have := tdc k hk; omega
    · rw [hlog]; intro t k hk; exact hcan k (Or.inl (cl t k hk))
    · rw [hlog]; intro t ht; exact hd (Or.inl (dl t ht))
  · simp only [List.singleton_append] at hlog
    refine ⟨by rw [hrl, hq]; exact kinds, ?_, ?_, by rw [hq]; exact qs, ?_, ?_, ?_, ?_, ?_, ?_, ?_, ?_, ?_⟩
    · rw [hra, hrl]; intro it hi; have := due it hi; omega
    · rw [hlog, hra, hrl, immEnq_neutral _ _ he, immPop_neutral _ _ he]; exact fifo
    · rw [hlog, hra, hq, hn, tPop_neutral _ _ he]; exact sq
    · rw [hlog, hra, hq, tPop_neutral _ _ he]; exact eo
    · rw [hlog, hra, hq, tPop_neutral _ _ he]; exact lo
    · rw [hlog, tPop_neutral _ _ he]; intro k hk; have := tdc k hk; omega
    · rw [hlog]; intro t id due seq imm clk hm
      simp only [List.mem_cons] at hm
      rcases hm with rfl | hm
      · simp [neutral] at he
      · exact nb _ _ _ _ _ _ hm
    · rw [hlog]; intro t k hk
      simp only [List.mem_cons] at hk
      rcases hk with rfl | hk
      · exact hcan k (Or.inr ⟨t, by simp⟩)
      · exact hcan k (Or.inl (cl t k hk))
    · rw [hlog, okCancel_neutral _ _ he]; exact oc
    · rw [hlog]; intro t ht
      simp only [List.mem_cons] at ht
      rcases ht with rfl | ht
      · exact hd (Or.inr ⟨t, by simp⟩)
      · exact hd (Or.inl (dl t ht))
    · rw [hlog]
      by_cases hp : ∃ t id, e = .passed t id
      · obtain ⟨t, id, rfl⟩ := hp
        simp only [okDisp]
        refine ⟨fun t' hm => ?_, od⟩
        have := dl t' hm
        rw [hps t id (by simp)] at this; cases this
      · rw [okDisp_neutral _ _ he (fun t id h => hp ⟨t, id, h⟩)]; exact od


/-! enqueue lemmas (same as for the trampoline's queue) -/
theorem enqueue_eq (q : List Item) (n : Item) :
    enqueue q n = q.takeWhile (fun x => decide (x.due ≤ n.due)) ++ n :: q.dropWhile (fun x => decide (x.due ≤ n.due)) := by
  induction q with
  | nil => rfl
  | cons x xs ih =>
    simp only [enqueue]
    by_cases h : x.due ≤ n.due
    · simp [h, ih]
    · simp [h]

theorem sorted_dropWhile_gt (q : List Item) (d : Int) (hq : q.Pairwise (fun a b => a.due ≤ b.due)) :
    ∀ x ∈ q.dropWhile (fun x => decide (x.due ≤ d)), d < x.due := by
  induction q with
  | nil => simp
  | cons x xs ih =>
    simp only [List.pairwise_cons] at hq
    by_cases h : x.due ≤ d
    · simp [h]; exact ih hq.2
    · simp [h]
      refine ⟨by omega, ?_⟩
      intro y hy; have := hq.1 y hy; omega

theorem takeWhile_le (q : List Item) (d : Int) : ∀ x ∈ q.takeWhile (fun x => decide (x.due ≤ d)), x.due ≤ d := by
  induction q with
  | nil => simp
  | cons y ys ih =>
    intro x hx
    by_cases h : y.due ≤ d
    · simp [h] at hx
      rcases hx with rfl | hx
      · exact h
      · exact ih x hx
    · simp [h] at hx

theorem enqueue_sorted (q : List Item) (n : Item) (hq : q.Pairwise (fun a b => a.due ≤ b.due)) :
    (enqueue q n).Pairwise (fun a b => a.due ≤ b.due) := by
  rw [enqueue_eq]
  have hsplit := List.takeWhile_append_dropWhile (p := fun x : Item => decide (x.due ≤ n.due)) (l := q)
  have hq' := hq
  rw [← hsplit] at hq'
  rw [List.pairwise_append] at hq' ⊢
  refine ⟨hq'.1, ?_, ?_⟩
  · rw [List.pairwise_cons]
    refine ⟨?_, hq'.2.1⟩
    intro y hy; have := sorted_dropWhile_gt q n.due hq y hy; omega
  · intro a ha b hb
    simp only [List.mem_cons] at hb
    rcases hb with rfl | hb
    · exact takeWhile_le q _ a ha
    · exact hq'.2.2 a ha b hb

theorem pairwise_enqueue {β} (R : β → β → Prop) (f : Item → β) (A : List β) (q : List Item) (n : Item)
    (hq : q.Pairwise (fun a b => a.due ≤ b.due))
    (h : (A ++ q.map f).Pairwise R)
    (hA : ∀ a ∈ A, R a (f n))
    (hle : ∀ x ∈ q, x.due ≤ n.due → R (f x) (f n))
    (hgt : ∀ x ∈ q, n.due < x.due → R (f n) (f x)) :
    (A ++ (enqueue q n).map f).Pairwise R := by
  rw [enqueue_eq]
  have hsplit := List.takeWhile_append_dropWhile (p := fun x : Item => decide (x.due ≤ n.due)) (l := q)
  rw [← hsplit] at h
  simp only [List.map_append, List.map_cons, List.pairwise_append, List.pairwise_cons, List.mem_append, List.mem_cons,
    List.mem_map, forall_exists_index, and_imp] at h ⊢
  obtain ⟨hA0, ⟨hT, hD, hTD⟩, hAq⟩ := h
  have mT : ∀ x, x ∈ q.takeWhile (fun x => decide (x.due ≤ n.due)) → x ∈ q := fun x hx => (List.takeWhile_sublist _).subset hx
  have mD : ∀ x, x ∈ q.dropWhile (fun x => decide (x.due ≤ n.due)) → x ∈ q := fun x hx => (List.dropWhile_sublist _).subset hx
  refine ⟨hA0, ⟨hT, ⟨?_, hD⟩, ?_⟩, ?_⟩
  · intro b x hx hb; subst hb
    exact hgt x (mD x hx) (sorted_dropWhile_gt q n.due hq x hx)
  · intro a x hx ha b hb; subst ha
    rcases hb with rfl | ⟨y, hy, rfl⟩
    · exact hle x (mT x hx) (takeWhile_le q _ x hx)
    · exact hTD _ x hx rfl _ y hy rfl
  · intro a ha b hb
    rcases hb with ⟨y, hy, rfl⟩ | rfl | ⟨y, hy, rfl⟩
    · exact hAq a ha _ (Or.inl ⟨y, hy, rfl⟩)
    · exact hA a ha
    · exact hAq a ha _ (Or.inr ⟨y, hy, rfl⟩)

theorem mem_enqueue (q : List Item) (n x : Item) : x ∈ enqueue q n ↔ x = n ∨ x ∈ q := by
  rw [enqueue_eq]
  have hsplit := List.takeWhile_append_dropWhile (p := fun x : Item => decide (x.due ≤ n.due)) (l := q)
  constructor
  · intro h
    simp only [List.mem_append, List.mem_cons] at h
    rcases h with h | h | h
    · right; exact (List.takeWhile_sublist _).subset h
    · left; exact h
    · right; exact (List.dropWhile_sublist _).subset h
  · intro h
    rcases h with h | h
    · simp [h]
    · rw [← hsplit] at h
      simp only [List.mem_append, List.mem_cons] at h ⊢
      rcases h with h | h
      · left; exact h
      · right; right; exact h

/-! readyAll under a step -/
theorem readyOf_of_nLoop_zero (st : List Frame) (h : nLoop st = 0) : readyOf st = [] := by
  induction st with
  | nil => rfl
  | cons f fs ih => cases f <;> simp_all [nLoop, readyOf] <;> omega

theorem readyT_of_zero (th : Th) (h : nLoopT th = 0) : readyT th = [] := readyOf_of_nLoop_zero _ h

theorem ra_append_new (l : List Th) : readyAll (l ++ [{ stack := [.loop .top []] }]) = readyAll l := by
  simp [readyAll, readyT, readyOf]

theorem ra_client (ths : List Th) (i : Nat) (th th' : Th) (hi : ths[i]? = some th)
    (h0 : nLoopT th = 0) (h1 : nLoopT th' = 0) : readyAll (ths.set i th') = readyAll ths :=
  flatMap_set_nil readyT ths i th th' hi (readyT_of_zero th h0) (readyT_of_zero th' h1)

theorem ra_loop (ths : List Th) (i : Nat) (th th' : Th) (hi : ths[i]? = some th)
    (h1 : 1 ≤ nLoopT th) (hs : sumBy nLoopT ths ≤ 1) : readyAll ths = readyT th ∧ readyAll (ths.set i th') = readyT th' :=
  flatMap_unique nLoopT readyT readyT_of_zero ths i th th' hi h1 hs


/-- the locked submission step -/
theorem e2_enq (s s' : Sys) (h : E2 s) (me : Nat) (it : Item) (sp : Option Nat) (c0 : Int)
    (hc0 : s.sh.clock ≤ c0) (hc : s'.sh.clock = c0)
    (hlog : s'.sh.log = Ev.enq me it.id s.sh.nsched (decide (it.due ≤ c0)) sp :: s.sh.log)
    (hrl : s'.sh.readyList = if decide (it.due ≤ c0) = true then s.sh.readyList ++ [{ it with seq := s.sh.nsched, imm := decide (it.due ≤ c0) }] else s.sh.readyList)
    (hq : s'.sh.queue = if decide (it.due ≤ c0) = true then s.sh.queue else enqueue s.sh.queue { it with seq := s.sh.nsched, imm := decide (it.due ≤ c0) })
    (hra : readyAll s'.ths = readyAll s.ths) (hn : s'.sh.nsched = s.sh.nsched + 1)
    (hcan : s'.sh.cancelled = s.sh.cancelled) (hd : s'.sh.disposed = s.sh.disposed) : E2 s' := by
  obtain ⟨kinds, due, fifo, qs, sq, eo, lo, tdc, nb, cl, oc, dl, od⟩ := h
  have hnb : ∀ t id due seq imm clk, Ev.start t id due seq imm clk ∈ s'.sh.log → due ≤ clk := by
    rw [hlog]; intro t id due seq imm clk hm
    simp only [List.mem_cons] at hm
    rcases hm with hm | hm
    · cases hm
    · exact nb _ _ _ _ _ _ hm
  have hcl : ∀ t k, Ev.cancel t k ∈ s'.sh.log → k ∈ s'.sh.cancelled := by
    rw [hlog, hcan]; intro t k hm
    simp only [List.mem_cons] at hm
    rcases hm with hm | hm
    · cases hm
    · exact cl _ _ hm
  have hoc : okCancel s'.sh.log := by rw [hlog]; simpa [okCancel] using oc
  have hdl : ∀ t, Ev.dispose t true ∈ s'.sh.log → s'.sh.disposed = true := by
    rw [hlog, hd]; intro t hm
    simp only [List.mem_cons] at hm
    rcases hm with hm | hm
    · cases hm
    · exact dl _ hm
  have hod : okDisp s'.sh.log := by rw [hlog]; simpa [okDisp] using od
  have htdc : ∀ k ∈ tPop s'.sh.log, k.1 ≤ s'.sh.clock := by
    rw [hlog, hc]; simp only [tPop]; intro k hk; have := tdc k hk; omega
  by_cases himm : it.due ≤ c0
  · simp only [himm, decide_true, if_true] at hrl hq hlog
    refine ⟨?_, ?_, ?_, by rw [hq]; exact qs, ?_, ?_, ?_, htdc, hnb, hcl, hoc, hdl, hod⟩
    · rw [hrl, hq]
      refine ⟨?_, kinds.2⟩
      intro r hr
      simp only [List.mem_append, List.mem_singleton] at hr
      rcases hr with hr | rfl
      · exact kinds.1 r hr
      · rfl
    · rw [hra, hrl, hc]; intro x hx
      simp only [List.mem_append, List.mem_singleton] at hx
      rcases hx with hx | hx | rfl
      · have := due x (by simp [hx]); omega
      · have := due x (by simp [hx]); omega
      · exact himm
    · rw [hlog, hra, hrl]
      simp only [immEnq, immPop, List.map_append, List.map_cons, List.map_nil]
      rw [fifo]; simp [List.append_assoc]
    · rw [hlog, hra, hq, hn]; simp only [tPop]; intro k hk; have := sq k hk; omega
    · rw [hlog, hra, hq]; simpa [tPop] using eo
    · rw [hlog, hra, hq]; simpa [tPop] using lo
  · have hlt : c0 < it.due := by omega
    simp only [himm, decide_false, Bool.false_eq_true, if_false] at hrl hq hlog
    have hkey : key { it with seq := s.sh.nsched, imm := false } = (it.due, s.sh.nsched) := rfl
    refine ⟨?_, ?_, ?_, by rw [hq]; exact enqueue_sorted _ _ qs, ?_, ?_, ?_, htdc, hnb, hcl, hoc, hdl, hod⟩
    · rw [hrl, hq]
      refine ⟨kinds.1, ?_⟩
      intro x hx
      rcases (mem_enqueue _ _ _).mp hx with rfl | hx
      · rfl
      · exact kinds.2 x hx
    · rw [hra, hrl, hc]; intro x hx; have := due x hx; omega
    · rw [hlog, hra, hrl]; simpa [immEnq, immPop] using fifo
    · rw [hlog, hra, hq, hn]
      simp only [tPop, List.map_append, List.mem_append, List.mem_map]
      intro k hk
      rcases hk with hk | ⟨x, hx, rfl⟩ | ⟨x, hx, rfl⟩
      · have := sq k (by simp [hk]); omega
      · have := sq (key x) (by simp only [List.map_append, List.mem_append, List.mem_map]; exact Or.inr (Or.inl ⟨x, hx, rfl⟩)); omega
      · rcases (mem_enqueue _ _ _).mp hx with rfl | hx
        · simp [key]
        · have := sq (key x) (by simp only [List.map_append, List.mem_append, List.mem_map]; exact Or.inr (Or.inr ⟨x, hx, rfl⟩)); omega
    · rw [hlog, hra, hq]
      simp only [tPop, List.map_append, ← List.append_assoc]
      simp only [List.map_append, ← List.append_assoc] at eo sq
      apply pairwise_enqueue EqR key _ _ _ qs eo
      · intro a ha
        have := sq a (by simp only [List.mem_append] at ha ⊢; exact Or.inl ha)
        intro _; show a.2 < s.sh.nsched; omega
      · intro x hx _
        have := sq (key x) (by simp only [List.mem_append, List.mem_map]; exact Or.inr ⟨x, hx, rfl⟩)
        intro _; show (key x).2 < s.sh.nsched; omega
      · intro x hx hl heq
        have h1 : it.due < x.due := hl
        have h2 : it.due = x.due := heq
        omega
    · rw [hlog, hra, hq]
      simp only [tPop, List.map_append, ← List.append_assoc]
      simp only [List.map_append, ← List.append_assoc] at lo
      apply pairwise_enqueue LeR key _ _ _ qs lo
      · intro a ha
        simp only [List.mem_append, List.mem_map, List.mem_filter] at ha
        show a.1 ≤ it.due
        rcases ha with ha | ⟨x, ⟨hx, _⟩, rfl⟩
        · have := tdc a ha; omega
        · have := due x (by simp [hx]); show x.due ≤ it.due; omega
      · intro x hx hle; exact hle
      · intro x hx hl
        have h1 : it.due < x.due := hl
        show it.due ≤ x.due; omega


/-- the loop's gathering step (not disposed) -/
theorem e2_collect (s s' : Sys) (h : E2 s) (me : Nat) (c0 : Int)
    (hc0 : s.sh.clock ≤ c0) (hc : s'.sh.clock = c0)
    (hnd : s.sh.disposed = false)
    (hlog : s'.sh.log = Ev.collect me ((merge c0 s.sh.queue s.sh.readyList).1.map (·.id)) c0 :: s.sh.log)
    (hrl : s'.sh.readyList = []) (hq : s'.sh.queue = (merge c0 s.sh.queue s.sh.readyList).2)
    (hra0 : readyAll s.ths = []) (hra : readyAll s'.ths = (merge c0 s.sh.queue s.sh.readyList).1)
    (hn : s'.sh.nsched = s.sh.nsched) (hcan : s'.sh.cancelled = s.sh.cancelled) (hd : s'.sh.disposed = s.sh.disposed) : E2 s' := by
  obtain ⟨kinds, due, fifo, qs, sq, eo, lo, tdc, nb, cl, oc, dl, od⟩ := h
  obtain ⟨mp1, mp2⟩ := merge_props c0 s.sh.queue s.sh.readyList kinds.1 kinds.2
  have hsub : (merge c0 s.sh.queue s.sh.readyList).2.Sublist s.sh.queue := by
    conv => rhs; rw [← mp2]
    exact List.sublist_append_right _ _
  rw [hra0] at due fifo sq eo lo
  simp only [List.nil_append, List.filter_nil, List.map_nil, List.append_nil] at due fifo sq eo lo
  refine ⟨?_, ?_, ?_, by rw [hq]; exact qs.sublist hsub, ?_, ?_, ?_, ?_, ?_, ?_, ?_, ?_, ?_⟩
  · rw [hrl, hq]; exact ⟨by simp, fun x hx => kinds.2 x (hsub.subset hx)⟩
  · rw [hra, hrl, hc]; simp only [List.append_nil]
    exact merge_due c0 _ _ (fun r hr => by have := due r hr; omega)
  · rw [hlog, hra, hrl, mp1]; simpa [immEnq, immPop] using fifo
  · rw [hlog, hra, hq, hn, mp2]; simpa [tPop] using sq
  · rw [hlog, hra, hq, mp2]; simpa [tPop] using eo
  · rw [hlog, hra, hq, mp2]; simpa [tPop] using lo
  · rw [hlog, hc]; simp only [tPop]; intro k hk; have := tdc k hk; omega
  · rw [hlog]; intro t id due seq imm clk hm
    simp only [List.mem_cons] at hm
    rcases hm with hm | hm
    · cases hm
    · exact nb _ _ _ _ _ _ hm
  · rw [hlog, hcan]; intro t k hm
    simp only [List.mem_cons] at hm
    rcases hm with hm | hm
    · cases hm
    · exact cl _ _ hm
  · rw [hlog]; simpa [okCancel] using oc
  · rw [hlog, hd]; intro t hm
    simp only [List.mem_cons] at hm
    rcases hm with hm | hm
    · cases hm
    · exact dl _ hm
  · rw [hlog]; simp only [okDisp]
    refine ⟨fun t hm => ?_, od⟩
    have := dl t hm; rw [hnd] at this; cases this

/-- the loop takes the head of its batch: `skip` (found cancelled) or `start` -/
theorem e2_pop (s s' : Sys) (h : E2 s) (me : Nat) (it : Item) (ready : List Item) (c0 : Int) (started : Bool)
    (hc0 : s.sh.clock ≤ c0) (hc : s'.sh.clock = c0)
    (hst : started = true → it.id ∉ s.sh.cancelled)
    (hlog : s'.sh.log = (if started then Ev.start me it.id it.due it.seq it.imm c0 else Ev.skip me it.id it.due it.seq it.imm) :: s.sh.log)
    (hrl : s'.sh.readyList = s.sh.readyList) (hq : s'.sh.queue = s.sh.queue)
    (hra0 : readyAll s.ths = it :: ready) (hra : readyAll s'.ths = ready)
    (hn : s'.sh.nsched = s.sh.nsched) (hcan : s'.sh.cancelled = s.sh.cancelled) (hd : s'.sh.disposed = s.sh.disposed) : E2 s' := by
  obtain ⟨kinds, due, fifo, qs, sq, eo, lo, tdc, nb, cl, oc, dl, od⟩ := h
  rw [hra0] at due fifo sq eo lo
  have hdue : it.due ≤ s.sh.clock := due it (by simp)
  have hip : immPop s'.sh.log = if it.imm then immPop s.sh.log ++ [it.seq] else immPop s.sh.log := by
    rw [hlog]; cases started <;> cases hi : it.imm <;> simp [immPop]
  have htp : tPop s'.sh.log = if it.imm then tPop s.sh.log else tPop s.sh.log ++ [key it] := by
    rw [hlog]; cases started <;> cases hi : it.imm <;> simp [tPop, key]
  have hie : immEnq s'.sh.log = immEnq s.sh.log := by
    rw [hlog]; cases started <;> simp [immEnq]
  refine ⟨by rw [hrl, hq]; exact kinds, ?_, ?_, by rw [hq]; exact qs, ?_, ?_, ?_, ?_, ?_, ?_, ?_, ?_, ?_⟩
  · rw [hra, hrl, hc]; intro x hx
    have := due x (by simp only [List.mem_append, List.mem_cons] at hx ⊢; rcases hx with hx | hx; exact Or.inl (Or.inr hx); exact Or.inr hx)
    omega
  · rw [hie, hip, hra, hrl, fifo]
    cases hi : it.imm <;> simp [List.filter_cons, hi]
  · rw [htp, hra, hq, hn]
    cases hi : it.imm
    · intro k hk; apply sq k
      simp only [List.filter_cons, hi, Bool.not_false, if_true, List.cons_append, List.map_cons, Bool.false_eq_true, if_false,
        List.append_assoc, List.singleton_append] at hk ⊢
      exact hk
    · intro k hk; apply sq k
      simp only [List.filter_cons, hi, Bool.not_true, Bool.false_eq_true, if_false, if_true] at hk ⊢
      exact hk
  · rw [htp, hra, hq]
    cases hi : it.imm
    · simpa [List.filter_cons, hi] using eo
    · simpa [List.filter_cons, hi] using eo
  · rw [htp, hra, hq]
    cases hi : it.imm
    · simpa [List.filter_cons, hi] using lo
    · simpa [List.filter_cons, hi] using lo
  · rw [htp, hc]
    cases hi : it.imm
    · simp only [Bool.false_eq_true, if_false, List.mem_append, List.mem_singleton]
      intro k hk
      rcases hk with hk | rfl
      · have := tdc k hk; omega
      · show it.due ≤ c0; omega
    · simp only [if_true]; intro k hk; have := tdc k hk; omega
  · rw [hlog]; intro t id due seq imm clk hm
    simp only [List.mem_cons] at hm
    rcases hm with hm | hm
    · cases started
      · simp at hm
      · simp only [if_true] at hm; cases hm; omega
    · exact nb _ _ _ _ _ _ hm
  · rw [hlog, hcan]; intro t k hm
    simp only [List.mem_cons] at hm
    rcases hm with hm | hm
    · cases started <;> simp at hm
    · exact cl _ _ hm
  · rw [hlog]
    cases started
    · simpa [okCancel] using oc
    · simp only [if_true, okCancel]
      exact ⟨fun t hm => hst rfl (cl t _ hm), oc⟩
  · rw [hlog, hd]; intro t hm
    simp only [List.mem_cons] at hm
    rcases hm with hm | hm
    · cases started <;> simp at hm
    · exact dl _ hm
  · rw [hlog]; cases started <;> simpa [okDisp] using od
end Thr.EL

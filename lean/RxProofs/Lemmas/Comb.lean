import RxModel.Comb
/-!
# Frame lemmas for the L2 trace machines (shared by C10–C13)
-/

namespace Comb

/-- the notifications a handler sends downstream, in program order -/
def actEmits {β} : List (Act β) → List (Notif β)
  | [] => []
  | .emit n :: r => n :: actEmits r
  | _ :: r => actEmits r

/-- a notification list cut after its first terminal (what a live `AutoDetachObserver` lets through) -/
def cut {β} : List (Notif β) → List (Notif β)
  | [] => []
  | n :: r => if n.isTerminal then [n] else n :: cut r

def nextVals {β} : List (Notif β) → List β
  | [] => []
  | .next v :: r => v :: nextVals r
  | _ :: r => nextVals r

/-- plumbing well-formedness: once the downstream observer is stopped nothing is live -/
def Plumb.WF (p : Plumb) : Prop := p.done = true → p.live = []

@[simp] theorem emits_nil {β} : emits ([] : List (Eff β)) = [] := rfl
@[simp] theorem outVals_nil {β} : outVals ([] : List (Eff β)) = [] := rfl
@[simp] theorem subsOf_nil {β} : subsOf ([] : List (Eff β)) = [] := rfl
@[simp] theorem unsubsOf_nil {β} : unsubsOf ([] : List (Eff β)) = [] := rfl

theorem emits_append {β} (a b : List (Eff β)) : emits (a ++ b) = emits a ++ emits b := by
  induction a with
  | nil => rfl
  | cons x xs ih => cases x <;> simp [emits, ih]

theorem outVals_append {β} (a b : List (Eff β)) : outVals (a ++ b) = outVals a ++ outVals b := by
  induction a with
  | nil => rfl
  | cons x xs ih =>
    cases x with
    | emit n => cases n <;> simp [outVals, ih]
    | sub k => simp [outVals, ih]
    | unsub k => simp [outVals, ih]

theorem subsOf_append {β} (a b : List (Eff β)) : subsOf (a ++ b) = subsOf a ++ subsOf b := by
  induction a with
  | nil => rfl
  | cons x xs ih => cases x <;> simp [subsOf, ih]

theorem unsubsOf_append {β} (a b : List (Eff β)) : unsubsOf (a ++ b) = unsubsOf a ++ unsubsOf b := by
  induction a with
  | nil => rfl
  | cons x xs ih => cases x <;> simp [unsubsOf, ih]

theorem outVals_eq_nextVals {β} (a : List (Eff β)) : outVals a = nextVals (emits a) := by
  induction a with
  | nil => rfl
  | cons x xs ih =>
    cases x with
    | emit n => cases n <;> simp [outVals, emits, nextVals, ih]
    | sub k => simp [outVals, emits, ih]
    | unsub k => simp [outVals, emits, ih]

@[simp] theorem emits_map_unsub {β} (l : List Nat) : emits (l.map (Eff.unsub (β := β))) = [] := by
  induction l with
  | nil => rfl
  | cons x xs ih => simp [emits, ih]

@[simp] theorem subsOf_map_unsub {β} (l : List Nat) : subsOf (l.map (Eff.unsub (β := β))) = [] := by
  induction l with
  | nil => rfl
  | cons x xs ih => simp [subsOf, ih]

@[simp] theorem unsubsOf_map_unsub {β} (l : List Nat) : unsubsOf (l.map (Eff.unsub (β := β))) = l := by
  induction l with
  | nil => rfl
  | cons x xs ih => simp [unsubsOf, ih]

/-! ### one action -/

theorem act_done_mono {β} (p : Plumb) (a : Act β) (h : p.done = true) : (p.act a).1.done = true := by
  cases a <;> simp [Plumb.act, h] <;> split <;> simp [h]

theorem act_WF {β} (p : Plumb) (a : Act β) (h : p.WF) : (p.act a).1.WF := by
  cases a with
  | emit n =>
    simp only [Plumb.act]
    split
    · exact h
    · split
      · intro _; rfl
      · exact h
  | sub k =>
    simp only [Plumb.act]
    split
    · exact h
    · rename_i hd; intro hd'; simp_all
  | unsub k =>
    simp only [Plumb.act]
    split
    · intro hd; have := h hd; simp_all
    · exact h

theorem acts_WF {β} (p : Plumb) (as : List (Act β)) (h : p.WF) : (p.acts as).1.WF := by
  induction as generalizing p with
  | nil => exact h
  | cons a as ih => exact ih _ (act_WF p a h)

theorem acts_done_mono {β} (p : Plumb) (as : List (Act β)) (h : p.done = true) : (p.acts as).1.done = true := by
  induction as generalizing p with
  | nil => exact h
  | cons a as ih => exact ih _ (act_done_mono p a h)

/-- a stopped downstream observer lets nothing through -/
theorem emits_acts_done {β} (p : Plumb) (as : List (Act β)) (h : p.done = true) : emits (p.acts as).2 = [] := by
  induction as generalizing p with
  | nil => rfl
  | cons a as ih =>
    have h' := act_done_mono p a h
    simp only [Plumb.acts, emits_append, ih _ h']
    cases a <;> simp [Plumb.act, h, emits]
    split <;> simp [emits]

/-- what goes out: the handler's downstream calls cut after the first terminal -/
theorem emits_acts {β} (p : Plumb) (as : List (Act β)) (h : p.done = false) :
    emits (p.acts as).2 = cut (actEmits as) := by
  induction as generalizing p with
  | nil => rfl
  | cons a as ih =>
    cases a with
    | emit n =>
      simp only [Plumb.acts, Plumb.act, h, Bool.false_eq_true, if_false, actEmits, cut, emits_append]
      cases ht : n.isTerminal
      · simp only [Bool.false_eq_true, if_false]
        rw [ih p h]; simp [emits]
      · simp only [if_true]
        rw [emits_acts_done _ _ rfl]; simp [emits]
    | sub k =>
      simp only [Plumb.acts, Plumb.act, h, Bool.false_eq_true, if_false, actEmits, emits_append]
      rw [ih _ (by simp [h])]; simp [emits]
    | unsub k =>
      simp only [Plumb.acts, Plumb.act, actEmits, emits_append]
      split
      · rw [ih _ (by simp [h])]; simp [emits]
      · rw [ih _ h]; simp [emits]

theorem done_acts {β} (p : Plumb) (as : List (Act β)) :
    (p.acts as).1.done = (p.done || (actEmits as).any Notif.isTerminal) := by
  induction as generalizing p with
  | nil => simp [Plumb.acts, actEmits]
  | cons a as ih =>
    simp only [Plumb.acts, ih]
    cases a with
    | emit n =>
      simp only [Plumb.act, actEmits, List.any_cons]
      cases hd : p.done <;> cases ht : n.isTerminal <;> simp [hd, ht]
    | sub k =>
      simp only [Plumb.act, actEmits]
      split <;> simp_all
    | unsub k =>
      simp only [Plumb.act, actEmits]
      split <;> simp

/-! ### steps and runs -/

theorem step_WF {σ ι β} (m : Machine σ ι β) (st : St σ) (e : Ev ι) (h : st.p.WF) : (step m st e).1.p.WF := by
  cases e with
  | src k n =>
    simp only [step]
    split
    · split
      · exact act_WF _ _ (acts_WF _ _ h)
      · exact acts_WF _ _ h
    · exact h
  | tick => exact acts_WF _ _ h
  | dispose => intro _; rfl

theorem final_WF {σ ι β} (m : Machine σ ι β) (st : St σ) (es : List (Ev ι)) (h : st.p.WF) : (final m st es).p.WF := by
  induction es generalizing st with
  | nil => exact h
  | cons e es ih => exact ih _ (step_WF m st e h)

theorem run_cons {σ ι β} (m : Machine σ ι β) (st : St σ) (e : Ev ι) (es : List (Ev ι)) :
    run m st (e :: es) = (step m st e).2 ++ run m (step m st e).1 es := by
  simp [run, runE]

@[simp] theorem run_nil {σ ι β} (m : Machine σ ι β) (st : St σ) : run m st [] = [] := rfl

theorem run_append {σ ι β} (m : Machine σ ι β) (st : St σ) (a b : List (Ev ι)) :
    run m st (a ++ b) = run m st a ++ run m (final m st a) b := by
  induction a generalizing st with
  | nil => simp [final]
  | cons e es ih => simp [run_cons, final, ih]

theorem final_append {σ ι β} (m : Machine σ ι β) (st : St σ) (a b : List (Ev ι)) :
    final m st (a ++ b) = final m (final m st a) b := by
  induction a generalizing st with
  | nil => rfl
  | cons e es ih => simp [final, ih]

/-- a live source means the downstream observer is not stopped -/
theorem not_done_of_live {p : Plumb} (h : p.WF) {k : Nat} (hk : k ∈ p.live) : p.done = false := by
  cases hd : p.done
  · rfl
  · have := h hd; simp_all

/-- notifications sent downstream by an accepted event: the handler's calls, cut at the first terminal -/
theorem emits_step_src {σ ι β} (m : Machine σ ι β) (st : St σ) (k : Nat) (n : Notif ι) (h : st.p.WF)
    (hk : k ∈ st.p.live) :
    emits (step m st (.src k n)).2 = cut (actEmits (m.handler st.s k n).2) := by
  have hd := not_done_of_live h hk
  simp only [step, hk, if_true]
  split
  · simp only [emits_append, emits_acts _ _ hd]
    simp only [Plumb.act]; split <;> simp [emits]
  · exact emits_acts _ _ hd

theorem step_src_not_live {σ ι β} (m : Machine σ ι β) (st : St σ) (k : Nat) (n : Notif ι)
    (hk : k ∉ st.p.live) : step m st (.src k n) = (st, []) := by
  simp [step, hk]

theorem step_src_state {σ ι β} (m : Machine σ ι β) (st : St σ) (k : Nat) (n : Notif ι)
    (hk : k ∈ st.p.live) : (step m st (.src k n)).1.s = (m.handler st.s k n).1 := by
  simp only [step, hk, if_true]; split <;> rfl

theorem emits_step_dispose {σ ι β} (m : Machine σ ι β) (st : St σ) :
    emits (step m st (.dispose)).2 = [] := by
  simp [step, Plumb.dispose]

/-- once the downstream observer is stopped a run is silent and the operator state is frozen for source events -/
theorem step_done_src {σ ι β} (m : Machine σ ι β) (st : St σ) (k : Nat) (n : Notif ι) (h : st.p.WF)
    (hd : st.p.done = true) : step m st (.src k n) = (st, []) := by
  apply step_src_not_live; rw [h hd]; simp

theorem live_sub_acts {β} (p : Plumb) (as : List (Act β)) (k : Nat) (hk : k ∈ (p.acts as).1.live) :
    k ∈ p.live ∨ Act.sub k ∈ as := by
  induction as generalizing p with
  | nil => exact Or.inl hk
  | cons a as ih =>
    rcases ih _ hk with h | h
    · cases a with
      | emit n =>
        simp only [Plumb.act] at h
        split at h
        · exact Or.inl h
        · split at h
          · simp at h
          · exact Or.inl h
      | sub j =>
        simp only [Plumb.act] at h
        split at h
        · exact Or.inl h
        · simp only [List.mem_append, List.mem_singleton] at h
          rcases h with h | h
          · exact Or.inl h
          · subst h; exact Or.inr (List.mem_cons_self ..)
      | unsub j =>
        simp only [Plumb.act] at h
        split at h
        · exact Or.inl (List.mem_of_mem_erase h)
        · exact Or.inl h
    · exact Or.inr (List.mem_cons_of_mem _ h)

end Comb

namespace Comb

/-- the part of `accepted` contributed by one event -/
def accOne {σ ι} (st : St σ) : Ev ι → List (Nat × Notif ι)
  | .src k n => if k ∈ st.p.live then [(k, n)] else []
  | _ => []

theorem accepted_cons {σ ι β} (m : Machine σ ι β) (st : St σ) (e : Ev ι) (es : List (Ev ι)) :
    accepted m st (e :: es) = accOne st e ++ accepted m (step m st e).1 es := by
  cases e <;> rfl

theorem valsOf_append {ι} (a b : List (Nat × Notif ι)) (i : Nat) :
    valsOf (a ++ b) i = valsOf a i ++ valsOf b i := by
  simp [valsOf]

@[simp] theorem valsOf_nil {ι} (i : Nat) : valsOf ([] : List (Nat × Notif ι)) i = [] := rfl

/-- where a live subscription after a step comes from -/
theorem live_step {σ ι β} (m : Machine σ ι β) (st : St σ) (e : Ev ι) (j : Nat)
    (hj : j ∈ (step m st e).1.p.live) :
    j ∈ st.p.live ∨ (∃ k n, e = .src k n ∧ k ∈ st.p.live ∧ Act.sub j ∈ (m.handler st.s k n).2)
      ∨ (e = .tick ∧ Act.sub j ∈ (m.tick st.s st.p.done).2) := by
  cases e with
  | src k n =>
    simp only [step] at hj
    split at hj
    · rename_i hk
      split at hj
      · simp only [Plumb.act] at hj
        split at hj
        · rcases live_sub_acts _ _ _ (List.mem_of_mem_erase hj) with h | h
          · exact Or.inl h
          · exact Or.inr (Or.inl ⟨k, n, rfl, hk, h⟩)
        · rcases live_sub_acts _ _ _ hj with h | h
          · exact Or.inl h
          · exact Or.inr (Or.inl ⟨k, n, rfl, hk, h⟩)
      · rcases live_sub_acts _ _ _ hj with h | h
        · exact Or.inl h
        · exact Or.inr (Or.inl ⟨k, n, rfl, hk, h⟩)
    · exact Or.inl hj
  | tick =>
    rcases live_sub_acts _ _ _ hj with h | h
    · exact Or.inl h
    · exact Or.inr (Or.inr ⟨rfl, h⟩)
  | dispose => simp [step, Plumb.dispose] at hj

theorem outVals_step_src {σ ι β} (m : Machine σ ι β) (st : St σ) (k : Nat) (n : Notif ι) (h : st.p.WF)
    (hk : k ∈ st.p.live) :
    outVals (step m st (.src k n)).2 = nextVals (cut (actEmits (m.handler st.s k n).2)) := by
  rw [outVals_eq_nextVals, emits_step_src m st k n h hk]

end Comb

namespace Comb

theorem step_done {σ ι β} (m : Machine σ ι β) (st : St σ) (e : Ev ι) (h : st.p.WF) (hd : st.p.done = true) :
    (step m st e).1.p.done = true := by
  cases e with
  | src k n => rw [step_done_src m st k n h hd]; exact hd
  | tick => exact acts_done_mono _ _ hd
  | dispose => rfl

theorem emits_step_done {σ ι β} (m : Machine σ ι β) (st : St σ) (e : Ev ι) (h : st.p.WF) (hd : st.p.done = true) :
    emits (step m st e).2 = [] := by
  cases e with
  | src k n => rw [step_done_src m st k n h hd]; rfl
  | tick => exact emits_acts_done _ _ hd
  | dispose => exact emits_step_dispose m st

/-- after the downstream observer stopped nothing is delivered to the handlers any more … -/
theorem accepted_done {σ ι β} (m : Machine σ ι β) (es : List (Ev ι)) : ∀ st : St σ, st.p.WF → st.p.done = true →
    accepted m st es = [] := by
  induction es with
  | nil => intro _ _ _; rfl
  | cons e es ih =>
    intro st h hd
    rw [accepted_cons, ih _ (step_WF m st e h) (step_done m st e h hd)]
    cases e with
    | src k n => simp [accOne, h hd]
    | tick => rfl
    | dispose => rfl

/-- … and nothing goes out -/
theorem emits_run_done {σ ι β} (m : Machine σ ι β) (es : List (Ev ι)) : ∀ st : St σ, st.p.WF → st.p.done = true →
    emits (run m st es) = [] := by
  induction es with
  | nil => intro _ _ _; rfl
  | cons e es ih =>
    intro st h hd
    rw [run_cons, emits_append, emits_step_done m st e h hd, ih _ (step_WF m st e h) (step_done m st e h hd)]; rfl

theorem step_src_done_of_terminal {σ ι β} (m : Machine σ ι β) (st : St σ) (k : Nat) (n : Notif ι)
    (hk : k ∈ st.p.live) (ht : (actEmits (m.handler st.s k n).2).any Notif.isTerminal = true) :
    (step m st (.src k n)).1.p.done = true := by
  simp only [step, hk, if_true]
  have : (st.p.acts (m.handler st.s k n).2).1.done = true := by rw [done_acts, ht]; simp
  split
  · exact act_done_mono _ _ this
  · exact this

/-- **first error**: if the handlers forward every error, the first error delivered by any live source is the last thing
that goes out. -/
theorem first_error_terminates {σ ι β} (m : Machine σ ι β)
    (herr : ∀ s k e, actEmits (m.handler s k (.error e)).2 = [Notif.error e])
    (st : St σ) (h : st.p.WF) (pre post : List (Ev ι)) (k : Nat) (e : Err)
    (hk : k ∈ (final m st pre).p.live) :
    emits (run m st (pre ++ .src k (.error e) :: post)) = emits (run m st pre) ++ [Notif.error e] := by
  have hwf := final_WF m st pre h
  rw [run_append, run_cons, emits_append, emits_append, emits_step_src m _ k _ hwf hk, herr]
  have hd := step_src_done_of_terminal m (final m st pre) k (.error e) hk (by rw [herr]; rfl)
  rw [emits_run_done m post _ (step_WF m _ _ hwf) hd]
  simp [cut, Notif.isTerminal]

end Comb

namespace Comb

/-- a declarative rule over the delivered notifications: a spec state `τ`, how a delivered notification changes it
and what goes out for it -/
def specRun {τ ι β} (sstep : τ → Nat × Notif ι → τ) (sout : τ → Nat × Notif ι → List β) :
    τ → List (Nat × Notif ι) → List β
  | _, [] => []
  | t, a :: r => sout t a ++ specRun sstep sout (sstep t a) r

theorem specRun_append {τ ι β} (sstep : τ → Nat × Notif ι → τ) (sout : τ → Nat × Notif ι → List β)
    (t : τ) (a b : List (Nat × Notif ι)) :
    specRun sstep sout t (a ++ b) = specRun sstep sout t a ++ specRun sstep sout (a.foldl sstep t) b := by
  induction a generalizing t with
  | nil => rfl
  | cons x xs ih => simp [specRun, ih, List.append_assoc]

/-- refinement: if every step (from a state satisfying a step-stable invariant) emits what the rule says for the
notification it accepted, and moves the abstraction accordingly, every run obeys the rule -/
theorem spec_run {σ ι β τ} (m : Machine σ ι β) (I : St σ → Prop) (abs : σ → τ)
    (sstep : τ → Nat × Notif ι → τ) (sout : τ → Nat × Notif ι → List β)
    (hinv : ∀ st e, I st → I (step m st e).1)
    (hstep : ∀ st e, I st → outVals (step m st e).2 = specRun sstep sout (abs st.s) (accOne st e) ∧
      abs (step m st e).1.s = (accOne st e).foldl sstep (abs st.s))
    (es : List (Ev ι)) : ∀ st, I st →
    outVals (run m st es) = specRun sstep sout (abs st.s) (accepted m st es) := by
  induction es with
  | nil => intro st _; rfl
  | cons e es ih =>
    intro st h
    have hs := hstep st e h
    rw [run_cons, outVals_append, accepted_cons, specRun_append, hs.1, ih _ (hinv st e h), hs.2]

end Comb

namespace Comb

/-- `spec_run` for all notifications (terminals included) -/
theorem spec_run_emits {σ ι β τ} (m : Machine σ ι β) (I : St σ → Prop) (abs : σ → τ)
    (sstep : τ → Nat × Notif ι → τ) (sout : τ → Nat × Notif ι → List (Notif β))
    (hinv : ∀ st e, I st → I (step m st e).1)
    (hstep : ∀ st e, I st → emits (step m st e).2 = specRun sstep sout (abs st.s) (accOne st e) ∧
      abs (step m st e).1.s = (accOne st e).foldl sstep (abs st.s))
    (es : List (Ev ι)) : ∀ st, I st →
    emits (run m st es) = specRun sstep sout (abs st.s) (accepted m st es) ∧
    abs (final m st es).s = (accepted m st es).foldl sstep (abs st.s) ∧ I (final m st es) := by
  induction es with
  | nil => intro st h; exact ⟨rfl, rfl, h⟩
  | cons e es ih =>
    intro st h
    have hs := hstep st e h
    have ih' := ih _ (hinv st e h)
    refine ⟨?_, ?_, ih'.2.2⟩
    · rw [run_cons, emits_append, accepted_cons, specRun_append, hs.1, ih'.1, hs.2]
    · rw [final, accepted_cons, List.foldl_append, ih'.2.1, hs.2]

end Comb

namespace Comb

theorem mem_of_mem_cut {β} (x : Notif β) (l : List (Notif β)) (h : x ∈ cut l) : x ∈ l := by
  induction l with
  | nil => simp [cut] at h
  | cons a r ih =>
    simp only [cut] at h
    split at h
    · simp at h; simp [h]
    · rcases List.mem_cons.mp h with h | h
      · simp [h]
      · exact List.mem_cons_of_mem _ (ih h)

/-- **completion rule.** A declarative fold over the delivered notifications (`sstep`) and a predicate `rule` on its state.
If, from every invariant state in which the rule does not hold yet, the handler of a delivered notification sends
`completed` exactly when the rule becomes true, then a run completes iff the rule holds for the notifications it
delivered. -/
theorem rule_run {σ ι β τ} (m : Machine σ ι β) (I : St σ → Prop) (abs : σ → τ)
    (sstep : τ → Nat × Notif ι → τ) (rule : τ → Prop)
    (hinv : ∀ st e, I st → I (step m st e).1)
    (hwf : ∀ st, I st → st.p.WF)
    (habs : ∀ st e, I st → abs (step m st e).1.s = (accOne st e).foldl sstep (abs st.s))
    (hstep : ∀ st k n, I st → k ∈ st.p.live → ¬ rule (abs st.s) →
      (Notif.completed ∈ cut (actEmits (m.handler st.s k n).2) ↔ rule (sstep (abs st.s) (k, n))))
    (htick : ∀ st, I st → Notif.completed ∉ emits (step m st .tick).2)
    (es : List (Ev ι)) : ∀ st, I st → ¬ rule (abs st.s) →
    (Notif.completed ∈ emits (run m st es) ↔ rule ((accepted m st es).foldl sstep (abs st.s))) := by
  induction es with
  | nil => intro st _ hr; simp [accepted, hr]
  | cons e es ih =>
    intro st h hr
    have hI' := hinv st e h
    have ha := habs st e h
    rw [run_cons, emits_append, List.mem_append, accepted_cons, List.foldl_append]
    cases e with
    | tick =>
      have ha' : abs (step m st Ev.tick).1.s = abs st.s := by simpa [accOne] using ha
      have := ih _ hI' (by rw [ha']; exact hr)
      rw [ha'] at this
      simp only [accOne, List.foldl_nil]
      constructor
      · rintro (h1 | h1)
        · exact absurd h1 (htick st h)
        · exact this.mp h1
      · intro h1; exact Or.inr (this.mpr h1)
    | dispose =>
      have ha' : abs (step m st Ev.dispose).1.s = abs st.s := by simpa [accOne] using ha
      have := ih _ hI' (by rw [ha']; exact hr)
      rw [ha'] at this
      simp only [accOne, List.foldl_nil, emits_step_dispose]
      simpa using this
    | src k n =>
      by_cases hk : k ∈ st.p.live
      · simp only [accOne, hk, if_true, List.foldl_cons, List.foldl_nil] at ha ⊢
        rw [emits_step_src m st k n (hwf st h) hk]
        have hs := hstep st k n h hk hr
        by_cases hr' : rule (sstep (abs st.s) (k, n))
        · have hc := hs.mpr hr'
          have hd := step_src_done_of_terminal m st k n hk
            (List.any_eq_true.mpr ⟨_, mem_of_mem_cut _ _ hc, rfl⟩)
          rw [accepted_done m es _ (hwf _ hI') hd]
          simp [hc, hr']
        · have hnc : Notif.completed ∉ cut (actEmits (m.handler st.s k n).2) := fun hc => hr' (hs.mp hc)
          have := ih _ hI' (by rw [ha]; exact hr')
          rw [ha] at this
          simp [hnc, this]
      · have hst : step m st (.src k n) = (st, []) := step_src_not_live m st k n hk
        rw [hst]
        simp only [accOne, hk, if_false, List.foldl_nil, emits_nil]
        simpa using ih st h hr

end Comb

namespace Comb

theorem final_abs {σ ι β τ} (m : Machine σ ι β) (I : St σ → Prop) (abs : σ → τ) (sstep : τ → Nat × Notif ι → τ)
    (hinv : ∀ st e, I st → I (step m st e).1)
    (habs : ∀ st e, I st → abs (step m st e).1.s = (accOne st e).foldl sstep (abs st.s))
    (es : List (Ev ι)) : ∀ st, I st →
    abs (final m st es).s = (accepted m st es).foldl sstep (abs st.s) ∧ I (final m st es) := by
  induction es with
  | nil => intro st h; exact ⟨rfl, h⟩
  | cons e es ih =>
    intro st h
    have := ih _ (hinv st e h)
    exact ⟨by rw [final, accepted_cons, List.foldl_append, this.1, habs st e h], this.2⟩

end Comb

import RxProofs.Lemmas.Win
import RxModel.WinBuf
/-!
# The log/state invariant `J`: what the subscriber of a window has received = what was pushed into it.
-/
namespace Win
variable {α : Type}

theorem itemsOf_append (l l' : List (Nat × Out α)) (id : Nat) : itemsOf (l ++ l') id = itemsOf l id ++ itemsOf l' id := by
  simp [itemsOf, List.filterMap_append]

theorem itemsOf_single (t : Nat) (o : Out α) (id : Nat) :
    itemsOf [(t, o)] id = match o with | .win i (.next x) => if i = id then [x] else [] | _ => [] := by
  cases o with
  | win i n =>
    cases n with
    | next x => by_cases h : i = id <;> simp [itemsOf, h]
    | error e => simp [itemsOf]
    | completed => simp [itemsOf]
  | _ => simp [itemsOf]

theorem endLogged_append (l l' : List (Nat × Out α)) (id : Nat) : endLogged (l ++ l') id ↔ endLogged l id ∨ endLogged l' id := by
  simp only [endLogged, List.mem_append]
  constructor
  · rintro ⟨t, n, h | h, hn⟩
    · exact Or.inl ⟨t, n, h, hn⟩
    · exact Or.inr ⟨t, n, h, hn⟩
  · rintro (⟨t, n, h, hn⟩ | ⟨t, n, h, hn⟩)
    · exact ⟨t, n, Or.inl h, hn⟩
    · exact ⟨t, n, Or.inr h, hn⟩

theorem endLogged_single (t : Nat) (o : Out α) (id : Nat) :
    endLogged [(t, o)] id ↔ ∃ n, o = .win id n ∧ n.isTerminal = true := by
  simp only [endLogged, List.mem_singleton, Prod.mk.injEq]
  constructor
  · rintro ⟨t', n, ⟨_, h⟩, hn⟩; exact ⟨n, h.symm, hn⟩
  · rintro ⟨n, h, hn⟩; exact ⟨t, n, ⟨rfl, h.symm⟩, hn⟩

/-- **the log / state invariant**: the subscriber of a window that is attached (or whose terminal was delivered)
has received exactly the elements pushed into the window. -/
structure J (b : Base α) : Prop where
  items : ∀ id w, b.wins[id]? = some w → (w.attached = true ∨ endLogged b.log id) → itemsOf b.log id = w.pushed
  ended : ∀ id, endLogged b.log id → ∃ w, b.wins[id]? = some w ∧ w.ended.isSome = true ∧ w.attached = false
  fresh : ∀ id, b.wins.length ≤ id → itemsOf b.log id = [] ∧ ¬ endLogged b.log id

/-- an operation that leaves the windows alone and logs only non-window entries. -/
theorem J_frame {b b' : Base α} (hw : b'.wins = b.wins) (l : List (Nat × Out α)) (hl : b'.log = b.log ++ l)
    (hnw : ∀ t o, (t, o) ∈ l → ∀ i n, o ≠ .win i n) (h : J b) : J b' := by
  have hit : ∀ id, itemsOf l id = [] := by
    intro id; simp only [itemsOf, List.filterMap_eq_nil_iff]
    rintro ⟨t, o⟩ hm
    cases o with
    | win i n => exact absurd rfl (hnw t _ hm i n)
    | _ => rfl
  have hel : ∀ id, ¬ endLogged l id := by
    rintro id ⟨t, n, hm, _⟩; exact hnw t _ hm id n rfl
  refine ⟨?_, ?_, ?_⟩
  · intro id w hg ha
    rw [hl, itemsOf_append, hit, List.append_nil]
    rw [hw] at hg
    apply h.items id w hg
    rcases ha with ha | ha
    · exact Or.inl ha
    · rw [hl, endLogged_append] at ha; exact Or.inr (ha.resolve_right (hel id))
  · intro id he
    rw [hl, endLogged_append] at he
    rw [hw]; exact h.ended id (he.resolve_right (hel id))
  · intro id hid
    rw [hw] at hid
    rw [hl, itemsOf_append, hit, List.append_nil, endLogged_append]
    exact ⟨(h.fresh id hid).1, fun e => (e.elim (h.fresh id hid).2 (hel id))⟩

namespace Base

theorem J_emit (b : Base α) (o : Out α) (ho : ∀ i n, o ≠ .win i n) (h : J b) : J (b.emit o) :=
  J_frame (b := b) (b' := b.emit o) rfl [(b.now, o)] rfl (by intro t o' hm i n; simp at hm; rw [hm.2]; exact ho i n) h

theorem J_now (b : Base α) (t : Nat) (h : J b) : J ({ b with now := t } : Base α) := ⟨h.items, h.ended, h.fresh⟩
theorem J_subscribe (b : Base α) (k) (h : J b) : J (b.subscribe k) :=
  J_frame (b := b) (b' := b.subscribe k) rfl [(b.now, .sub k)] rfl (by intro t o' hm i n; simp at hm; rw [hm.2]; exact fun e => by cases e) h

theorem J_unsub (b : Base α) (k) (h : J b) : J (b.unsub k) := by
  unfold unsub; split
  · exact J_frame (b := b) rfl [(b.now, .unsub k)] rfl (by intro t o' hm i n; simp at hm; rw [hm.2]; exact fun e => by cases e) h
  · exact h

theorem J_foldl_unsub (l : List Nat) (b : Base α) (h : J b) : J (l.foldl unsub b) := by
  induction l generalizing b with
  | nil => exact h
  | cons k l ih => exact ih _ (J_unsub b k h)

theorem J_disposeUnderlying (b : Base α) (h : J b) : J b.disposeUnderlying := J_foldl_unsub _ _ h

theorem J_flags (b : Base α) (p r os : Bool) (c : Nat) (h : J b) :
    J ({ b with primary := p, rcDisposed := r, outerStopped := os, count := c } : Base α) := ⟨h.items, h.ended, h.fresh⟩

theorem J_rcDispose (b : Base α) (h : J b) : J b.rcDispose := by
  unfold rcDispose; split; exact h; split; exact h
  simp only []; split
  · exact J_disposeUnderlying _ ⟨h.items, h.ended, h.fresh⟩
  · exact ⟨h.items, h.ended, h.fresh⟩

theorem J_rcRelease (b : Base α) (h : J b) : J b.rcRelease := by
  unfold rcRelease; split; exact h
  simp only []; split
  · exact J_disposeUnderlying _ ⟨h.items, h.ended, h.fresh⟩
  · exact ⟨h.items, h.ended, h.fresh⟩

theorem J_outerEnd (b : Base α) (e) (h : J b) : J (b.outerEnd e) := by
  unfold outerEnd; split; exact h
  apply J_rcDispose
  exact J_emit _ _ (fun i n e => by cases e) ⟨h.items, h.ended, h.fresh⟩

theorem J_outerDispose (b : Base α) (h : J b) : J b.outerDispose := by
  unfold outerDispose; exact J_rcDispose _ ⟨h.items, h.ended, h.fresh⟩

end Base
end Win
namespace Win
variable {α : Type}
namespace Base

theorem J_winNext (b : Base α) (i : Nat) (x : α) (h : J b) : J (b.winNext i x) := by
  unfold winNext
  cases hw : b.wins[i]? with
  | none => exact h
  | some w =>
    simp only []
    by_cases he : w.ended.isSome = true
    · simp only [he, if_true]; exact h
    · have he' : w.ended.isSome = false := by simpa using he
      simp only [he', Bool.false_eq_true, if_false]
      have hi : i < b.wins.length := (List.getElem?_eq_some_iff.mp hw).1
      have hnotlogged : ¬ endLogged b.log i := by
        intro hl; obtain ⟨w2, hw2, hs, _⟩ := h.ended i hl
        rw [hw] at hw2; cases hw2; exact he hs
      by_cases ha : w.attached = true
      · simp only [ha, if_true, emit]
        refine ⟨?_, ?_, ?_⟩
        · intro id w' hg hp
          simp only [] at hg hp ⊢
          rw [itemsOf_append, itemsOf_single]
          by_cases hid : i = id
          · subst hid
            rw [List.getElem?_set_self hi] at hg; cases hg
            simp only [if_true]
            rw [h.items i w hw (Or.inl ha)]
          · rw [List.getElem?_set_ne hid] at hg
            simp only [hid, if_false, List.append_nil]
            apply h.items id w' hg
            rcases hp with hp | hp
            · exact Or.inl hp
            · rw [endLogged_append, endLogged_single] at hp
              rcases hp with hp | ⟨n, hn, ht⟩
              · exact Or.inr hp
              · cases hn; cases ht
        · intro id hl
          simp only [] at hl ⊢
          rw [endLogged_append, endLogged_single] at hl
          rcases hl with hl | ⟨n, hn, ht⟩
          · obtain ⟨w2, hw2, hs, hat⟩ := h.ended id hl
            have hid : i ≠ id := by
              intro e; subst e; exact hnotlogged hl
            exact ⟨w2, by rw [List.getElem?_set_ne hid]; exact hw2, hs, hat⟩
          · cases hn; cases ht
        · intro id hid
          simp only [List.length_set] at hid ⊢
          rw [itemsOf_append, itemsOf_single, endLogged_append, endLogged_single]
          have : i ≠ id := by omega
          simp only [this, if_false, List.append_nil]
          refine ⟨(h.fresh id hid).1, ?_⟩
          rintro (hl | ⟨n, hn, ht⟩)
          · exact (h.fresh id hid).2 hl
          · cases hn; cases ht
      · have ha' : w.attached = false := by simpa using ha
        simp only [ha', Bool.false_eq_true, if_false]
        refine ⟨?_, ?_, ?_⟩
        · intro id w' hg hp
          simp only [] at hg hp ⊢
          by_cases hid : i = id
          · subst hid
            rw [List.getElem?_set_self hi] at hg; cases hg
            simp only [ha', Bool.false_eq_true, false_or] at hp
            exact absurd hp hnotlogged
          · rw [List.getElem?_set_ne hid] at hg
            exact h.items id w' hg hp
        · intro id hl
          simp only [] at hl ⊢
          obtain ⟨w2, hw2, hs, hat⟩ := h.ended id hl
          have hid : i ≠ id := by
            intro e; subst e; exact hnotlogged hl
          exact ⟨w2, by rw [List.getElem?_set_ne hid]; exact hw2, hs, hat⟩
        · intro id hid
          simp only [List.length_set] at hid ⊢
          exact h.fresh id hid

end Base
end Win
namespace Win
variable {α : Type}
namespace Base

theorem isTerminal_endNotif (e : Option Err) : (endNotif (α := α) e).isTerminal = true := by cases e <;> rfl

theorem J_winEnd (b : Base α) (i : Nat) (e : Option Err) (h : J b) : J (b.winEnd i e) := by
  unfold winEnd
  cases hw : b.wins[i]? with
  | none => exact h
  | some w =>
    simp only []
    by_cases he : w.ended.isSome = true
    · simp only [he, if_true]; exact h
    · have he' : w.ended.isSome = false := by simpa using he
      simp only [he', Bool.false_eq_true, if_false]
      have hi : i < b.wins.length := (List.getElem?_eq_some_iff.mp hw).1
      have hnotlogged : ¬ endLogged b.log i := by
        intro hl; obtain ⟨w2, hw2, hs, _⟩ := h.ended i hl
        rw [hw] at hw2; cases hw2; exact he hs
      by_cases ha : w.attached = true
      · simp only [ha, if_true]
        apply J_rcRelease
        simp only [emit]
        refine ⟨?_, ?_, ?_⟩
        · intro id w' hg hp
          simp only [] at hg hp ⊢
          rw [itemsOf_append, itemsOf_single]
          have hnil : (match (Out.win i (endNotif e) : Out α) with
              | .win i (.next x) => if i = id then [x] else [] | _ => []) = ([] : List α) := by
            cases e <;> rfl
          rw [hnil, List.append_nil]
          by_cases hid : i = id
          · subst hid
            rw [List.getElem?_set_self hi] at hg; cases hg
            exact h.items i w hw (Or.inl ha)
          · rw [List.getElem?_set_ne hid] at hg
            apply h.items id w' hg
            rcases hp with hp | hp
            · exact Or.inl hp
            · rw [endLogged_append, endLogged_single] at hp
              rcases hp with hp | ⟨n, hn, _⟩
              · exact Or.inr hp
              · cases hn; exact absurd rfl hid
        · intro id hl
          simp only [] at hl ⊢
          by_cases hid : i = id
          · subst hid
            exact ⟨_, List.getElem?_set_self hi, rfl, rfl⟩
          · rw [endLogged_append, endLogged_single] at hl
            rcases hl with hl | ⟨n, hn, _⟩
            · obtain ⟨w2, hw2, hs, hat⟩ := h.ended id hl
              exact ⟨w2, by rw [List.getElem?_set_ne hid]; exact hw2, hs, hat⟩
            · cases hn; exact absurd rfl hid
        · intro id hid
          simp only [List.length_set] at hid ⊢
          rw [itemsOf_append, itemsOf_single, endLogged_append, endLogged_single]
          have hne : i ≠ id := by omega
          have hnil : (match (Out.win i (endNotif e) : Out α) with
              | .win i (.next x) => if i = id then [x] else [] | _ => []) = ([] : List α) := by
            cases e <;> rfl
          rw [hnil, List.append_nil]
          refine ⟨(h.fresh id hid).1, ?_⟩
          rintro (hl | ⟨n, hn, _⟩)
          · exact (h.fresh id hid).2 hl
          · cases hn; exact hne rfl
      · have ha' : w.attached = false := by simpa using ha
        simp only [ha', Bool.false_eq_true, if_false]
        refine ⟨?_, ?_, ?_⟩
        · intro id w' hg hp
          simp only [] at hg hp ⊢
          by_cases hid : i = id
          · subst hid
            rw [List.getElem?_set_self hi] at hg; cases hg
            simp only [Bool.false_eq_true, false_or] at hp
            exact absurd hp hnotlogged
          · rw [List.getElem?_set_ne hid] at hg
            exact h.items id w' hg hp
        · intro id hl
          simp only [] at hl ⊢
          obtain ⟨w2, hw2, hs, hat⟩ := h.ended id hl
          have hid : i ≠ id := by
            intro e; subst e; exact hnotlogged hl
          exact ⟨w2, by rw [List.getElem?_set_ne hid]; exact hw2, hs, hat⟩
        · intro id hid
          simp only [List.length_set] at hid ⊢
          exact h.fresh id hid

theorem J_winDetach (b : Base α) (i : Nat) (h : J b) : J (b.winDetach i) := by
  unfold winDetach
  cases hw : b.wins[i]? with
  | none => exact h
  | some w =>
    simp only []
    split
    · rename_i ha
      apply J_rcRelease
      have hi : i < b.wins.length := (List.getElem?_eq_some_iff.mp hw).1
      refine ⟨?_, ?_, ?_⟩
      · intro id w' hg hp
        simp only [] at hg hp ⊢
        by_cases hid : i = id
        · subst hid
          rw [List.getElem?_set_self hi] at hg; cases hg
          exact h.items i w hw (Or.inl ha)
        · rw [List.getElem?_set_ne hid] at hg
          exact h.items id w' hg hp
      · intro id hl
        simp only [] at hl ⊢
        obtain ⟨w2, hw2, hs, hat⟩ := h.ended id hl
        by_cases hid : i = id
        · subst hid; rw [hw] at hw2; cases hw2; rw [ha] at hat; cases hat
        · exact ⟨w2, by rw [List.getElem?_set_ne hid]; exact hw2, hs, hat⟩
      · intro id hid
        simp only [List.length_set] at hid ⊢
        exact h.fresh id hid
    · exact h

theorem J_foldl {β : Type} (f : Base α → β → Base α) (hf : ∀ b x, J b → J (f b x)) (l : List β) (b : Base α) (h : J b) :
    J (l.foldl f b) := by
  induction l generalizing b with
  | nil => exact h
  | cons x l ih => exact ih _ (hf b x h)

theorem J_disposeEv (b : Base α) (w : Bool) (h : J b) : J (b.disposeEv w) := by
  unfold disposeEv; simp only []; split
  · exact J_foldl _ (fun b i hb => J_winDetach b i hb) _ _ (J_outerDispose b h)
  · exact J_outerDispose b h

theorem J_of_eq {b b' : Base α} (hw : b'.wins = b.wins) (hl : b'.log = b.log) (h : J b) : J b' :=
  ⟨by rw [hw, hl]; exact h.items, by rw [hw, hl]; exact h.ended, by rw [hw, hl]; exact h.fresh⟩

theorem J_attach (b : Base α) (i : Nat) (w : W α) (hw : b.wins[i]? = some w) (hit : itemsOf b.log i = w.pushed)
    (hnl : ¬ endLogged b.log i) (h : J b) :
    J ({ b with wins := b.wins.modify i fun w => { w with attached := true } } : Base α) := by
  refine ⟨?_, ?_, ?_⟩
  · intro id w' hg hp
    simp only [List.getElem?_modify] at hg
    by_cases hid : i = id
    · subst hid
      rw [hw] at hg; simp at hg; subst hg
      exact hit
    · cases hx : b.wins[id]? with
      | none => rw [hx] at hg; simp at hg
      | some w0 =>
        rw [hx] at hg; simp [hid] at hg; subst hg
        exact h.items id w0 hx hp
  · intro id hl
    obtain ⟨w2, hw2, hs, hat⟩ := h.ended id hl
    have hid : i ≠ id := by intro e; subst e; exact hnl hl
    refine ⟨w2, ?_, hs, hat⟩
    simp only [List.getElem?_modify, hw2]; simp [hid]
  · intro id hid
    simp only [List.length_modify] at hid
    exact h.fresh id hid

/-- `Subject()` + `observer.on_next(add_ref(...))` + the recorder attaching: the new window starts empty and attached. -/
theorem J_open (b : Base α) (h : J b) : J (b.newWin.1.outerNext b.newWin.2) := by
  have hnew : J b.newWin.1 := by
    refine ⟨?_, ?_, ?_⟩
    · intro id w hg hp
      simp only [newWin] at hg hp ⊢
      by_cases hid : id < b.wins.length
      · rw [List.getElem?_append_left hid] at hg; exact h.items id w hg hp
      · have hle : b.wins.length ≤ id := Nat.le_of_not_lt hid
        rw [List.getElem?_append_right hle] at hg
        have : w = {} := by
          have := List.mem_of_getElem? hg; simpa using this
        subst this
        simp only [Bool.false_eq_true, false_or] at hp
        exact absurd hp (h.fresh id hle).2
    · intro id hl
      simp only [newWin] at hl ⊢
      obtain ⟨w2, hw2, hs, hat⟩ := h.ended id hl
      have hid : id < b.wins.length := (List.getElem?_eq_some_iff.mp hw2).1
      exact ⟨w2, by rw [List.getElem?_append_left hid]; exact hw2, hs, hat⟩
    · intro id hid
      simp only [newWin, List.length_append, List.length_singleton] at hid ⊢
      exact h.fresh id (by omega)
  have hget : b.newWin.1.wins[b.wins.length]? = some {} := by simp [newWin]
  have hit : itemsOf b.newWin.1.log b.wins.length = [] := (h.fresh _ (Nat.le_refl _)).1
  have hnl : ¬ endLogged b.newWin.1.log b.wins.length := (h.fresh _ (Nat.le_refl _)).2
  show J (b.newWin.1.outerNext b.wins.length)
  generalize b.newWin.1 = b1 at hnew hget hit hnl
  unfold outerNext; split; exact hnew
  have key : ∀ b2 : Base α, b2.wins = b1.wins → b2.log = b1.log ++ [(b1.now, .outer (.next b.wins.length))] →
      J ({ b2 with wins := b2.wins.modify b.wins.length fun w => { w with attached := true } } : Base α) := by
    intro b2 hw2 hl2
    have hb2 : J b2 := J_frame hw2 _ hl2 (by intro t o hm i n; simp at hm; rw [hm.2]; exact fun e => by cases e) hnew
    apply J_attach b2 _ {} (by rw [hw2]; exact hget) _ _ hb2
    · rw [hl2, itemsOf_append, hit]; simp [itemsOf]
    · rw [hl2, endLogged_append, endLogged_single]
      rintro (hl | ⟨n, hn, _⟩)
      · exact hnl hl
      · cases hn
  simp only [emit]
  by_cases hr : b1.rcDisposed = true
  · simp only [hr, if_true]
    exact J_of_eq (by rfl) (by rfl) (key { b1 with log := b1.log ++ [(b1.now, .outer (.next b.wins.length))] } rfl rfl)
  · simp only [hr, Bool.false_eq_true, if_false]
    exact J_of_eq (by rfl) (by rfl) (key { b1 with log := b1.log ++ [(b1.now, .outer (.next b.wins.length))], count := b1.count + 1 } rfl rfl)

end Base
end Win

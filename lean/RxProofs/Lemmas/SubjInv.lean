import RxModel.Subj
/-!
# Invariants of the Subject / BehaviorSubject / AsyncSubject machine

`members` and `detached` are the *declarative* readings of the property text over the ghost trace
("subscribed and not unsubscribed at the time"); `SInv` ties the code-level state (observer list surgery,
AutoDetachObserver flags, SingleAssignmentDisposable contents) to them and is preserved by every step
of every history and every reaction script.
-/

namespace Subj
variable {α : Type}

/-- Observers *subscribed at the time*, in subscription order: subscribed, not unsubscribed since, the
subject neither terminated nor disposed since.  (Trace is newest-first.) -/
def members : List (Ev α) → List Id
  | [] => []
  | .sub i :: tr => members tr ++ [i]
  | .unsub i :: tr => (members tr).erase i
  | .emit n :: tr => if n.isTerminal then [] else members tr
  | .disp :: _ => []
  | .recv _ _ :: tr => members tr

/-- Observer `i` has been unsubscribed (its handle disposed) or has already been given a terminal. -/
def detached (i : Id) : List (Ev α) → Bool
  | [] => false
  | .unsub j :: tr => decide (j = i) || detached i tr
  | .recv j n :: tr => (decide (j = i) && n.isTerminal) || detached i tr
  | _ :: tr => detached i tr

/-- State invariant. -/
structure SInv (st : St α) : Prop where
  mem : st.observers = members st.tr
  det : ∀ i, st.adoStopped i = detached i st.tr
  dispStop : st.disposed = true → st.stopped = true
  stopEmpty : st.stopped = true → st.observers = []
  nodup : st.observers.Nodup
  obsSeen : ∀ i ∈ st.observers, st.seen i = true
  link : ∀ i ∈ st.observers, st.sadDisposed i = false ∧
      (st.cur i = some .inner ∨ (st.handle i = false ∧ st.cur i = none))
  fresh : ∀ i, st.seen i = false →
      st.adoStopped i = false ∧ st.handle i = false ∧ st.sadDisposed i = false ∧ st.cur i = none ∧ st.log i = []

/-- What a pending task needs from the state. -/
def TaskOK (st : St α) : Task α → Prop
  | .emit _ => True
  | .act _ _ => True
  | .deliver i n => st.seen i = true ∧ (n.isTerminal = true → st.stopped = true)
  | .finish j (some .inner) => st.seen j = true
  | .finish j _ => st.seen j = true ∧ st.stopped = true
  | .sadDispose i => st.seen i = true ∧ st.stopped = true

/-- Monotone part of the state. -/
def Mono (st st' : St α) : Prop :=
  (∀ i, st.seen i = true → st'.seen i = true) ∧ (st.stopped = true → st'.stopped = true)

theorem Mono.refl (st : St α) : Mono st st := ⟨fun _ h => h, fun h => h⟩

theorem Mono.trans {a b c : St α} (h1 : Mono a b) (h2 : Mono b c) : Mono a c :=
  ⟨fun i h => h2.1 i (h1.1 i h), fun h => h2.2 (h1.2 h)⟩

theorem TaskOK.mono {st st' : St α} (h : Mono st st') {t : Task α} (ht : TaskOK st t) : TaskOK st' t := by
  obtain ⟨h1, h2⟩ := h
  cases t with
  | emit n => trivial
  | act w a => trivial
  | deliver i n => exact ⟨h1 _ ht.1, fun hn => h2 (ht.2 hn)⟩
  | finish j h =>
    cases h with
    | none => exact ⟨h1 _ ht.1, h2 ht.2⟩
    | some h => cases h with
      | inner => exact h1 _ ht
      | noop => exact ⟨h1 _ ht.1, h2 ht.2⟩
  | sadDispose i => exact ⟨h1 _ ht.1, h2 ht.2⟩

@[simp, grind =] theorem upd_apply {β : Type} (f : Id → β) (i j : Id) (v : β) : upd f i v j = if j = i then v else f j := rfl

/-! ## Every primitive preserves the invariant -/

macro "sinv_crush" : tactic => `(tactic| (
  all_goals try dsimp only at *
  all_goals first
    | done
    | grind [members, detached, Notif.isTerminal, List.erase_of_not_mem, List.Nodup.erase, List.mem_of_mem_erase,
        List.Nodup.mem_erase_iff, List.nodup_append, List.mem_singleton]))

theorem reactions_ok (cfg : Cfg) (st st' : St α) (i : Id) : ∀ t ∈ reactions cfg st i, TaskOK st' t := by
  intro t ht
  simp only [reactions, List.mem_map] at ht
  obtain ⟨a, _, rfl⟩ := ht
  trivial

theorem subjDispose_inv {st : St α} (hI : SInv st) : SInv (subjDispose st) ∧ Mono st (subjDispose st) := by
  obtain ⟨h1,h2,h3,h4,h5,h6,h7,h8⟩ := hI
  unfold subjDispose Mono
  refine ⟨⟨?_,?_,?_,?_,?_,?_,?_,?_⟩, ?_⟩
  sinv_crush

theorem sadDispose_inv {st : St α} (i : Id) (hI : SInv st) (hs : st.stopped = true) (hi : st.seen i = true) :
    SInv (sadDispose st i) ∧ Mono st (sadDispose st i) := by
  obtain ⟨h1,h2,h3,h4,h5,h6,h7,h8⟩ := hI
  unfold sadDispose innerDispose Mono
  dsimp only
  repeat' split
  all_goals refine ⟨⟨?_,?_,?_,?_,?_,?_,?_,?_⟩, ?_⟩
  sinv_crush

theorem doUnsub_inv {st : St α} (j : Id) (hI : SInv st) : SInv (doUnsub st j) ∧ Mono st (doUnsub st j) := by
  obtain ⟨h1,h2,h3,h4,h5,h6,h7,h8⟩ := hI
  unfold doUnsub adoDispose sadDispose innerDispose Mono
  dsimp only
  repeat' split
  all_goals refine ⟨⟨?_,?_,?_,?_,?_,?_,?_,?_⟩, ?_⟩
  sinv_crush

theorem finish_inv {st : St α} (j : Id) (h : Option Held) (hI : SInv st) (ht : TaskOK st (.finish j h)) :
    SInv (finish st j h) ∧ Mono st (finish st j h) := by
  obtain ⟨h1,h2,h3,h4,h5,h6,h7,h8⟩ := hI
  unfold finish innerDispose Mono
  unfold TaskOK at ht
  dsimp only
  repeat' split
  all_goals refine ⟨⟨?_,?_,?_,?_,?_,?_,?_,?_⟩, ?_⟩
  sinv_crush

theorem deliver_inv (cfg : Cfg) {st : St α} (i : Id) (n : Notif α) (hI : SInv st) (ht : TaskOK st (.deliver i n)) :
    SInv (deliver cfg st i n).1 ∧ Mono st (deliver cfg st i n).1 := by
  obtain ⟨h1,h2,h3,h4,h5,h6,h7,h8⟩ := hI
  unfold TaskOK at ht
  unfold deliver callback sadDispose innerDispose Mono
  dsimp only
  repeat' split
  all_goals refine ⟨⟨?_,?_,?_,?_,?_,?_,?_,?_⟩, ?_⟩
  sinv_crush

theorem deliver_tasks (cfg : Cfg) {st : St α} (i : Id) (n : Notif α) (ht : TaskOK st (.deliver i n)) :
    ∀ t ∈ (deliver cfg st i n).2.1, TaskOK (deliver cfg st i n).1 t := by
  unfold TaskOK at ht
  unfold deliver callback
  dsimp only
  repeat' split
  all_goals intro t htt
  all_goals try dsimp only at *
  all_goals try simp only [List.mem_append, List.mem_cons, List.not_mem_nil, or_false] at htt
  · exact reactions_ok _ _ _ _ _ htt
  · rcases htt with htt | rfl
    · exact reactions_ok _ _ _ _ _ htt
    · simp [TaskOK, Notif.isTerminal] at ht ⊢; grind
  · rcases htt with htt | rfl
    · exact reactions_ok _ _ _ _ _ htt
    · simp [TaskOK, Notif.isTerminal] at ht ⊢; grind

theorem emit_inv (cfg : Cfg) {st : St α} (n : Notif α) (hI : SInv st) :
    SInv (emit cfg st n).1 ∧ Mono st (emit cfg st n).1 := by
  obtain ⟨h1,h2,h3,h4,h5,h6,h7,h8⟩ := hI
  unfold emit Mono
  dsimp only
  repeat' split
  all_goals refine ⟨⟨?_,?_,?_,?_,?_,?_,?_,?_⟩, ?_⟩
  sinv_crush

theorem emit_tasks (cfg : Cfg) {st : St α} (n : Notif α) (hI : SInv st) :
    ∀ t ∈ (emit cfg st n).2, TaskOK (emit cfg st n).1 t := by
  obtain ⟨h1,h2,h3,h4,h5,h6,h7,h8⟩ := hI
  unfold emit
  dsimp only
  repeat' split
  all_goals intro t htt
  all_goals try dsimp only at *
  all_goals simp only [List.mem_map, List.mem_flatMap, List.mem_cons, List.not_mem_nil, or_false] at htt
  all_goals first
    | (obtain ⟨a, ha, rfl⟩ := htt; simp [TaskOK, Notif.isTerminal]; grind)
    | (obtain ⟨a, ha, rfl | rfl⟩ := htt <;> simp [TaskOK, Notif.isTerminal] <;> grind)

theorem doSub_inv (cfg : Cfg) {st : St α} (who : Option Id) (j : Id) (hI : SInv st) :
    SInv (doSub cfg st who j).1 ∧ Mono st (doSub cfg st who j).1 := by
  obtain ⟨h1,h2,h3,h4,h5,h6,h7,h8⟩ := hI
  unfold doSub callback raiseTo Mono
  dsimp only
  repeat' split
  all_goals refine ⟨⟨?_,?_,?_,?_,?_,?_,?_,?_⟩, ?_⟩
  sinv_crush

theorem doSub_tasks (cfg : Cfg) {st : St α} (who : Option Id) (j : Id) (hI : SInv st) :
    ∀ t ∈ (doSub cfg st who j).2, TaskOK (doSub cfg st who j).1 t := by
  obtain ⟨h1,h2,h3,h4,h5,h6,h7,h8⟩ := hI
  unfold doSub callback raiseTo
  dsimp only
  repeat' split
  all_goals intro t htt
  all_goals try dsimp only at *
  all_goals simp only [List.mem_append, List.mem_cons, List.not_mem_nil, or_false] at htt
  · rcases htt with htt | rfl
    · exact reactions_ok _ _ _ _ _ htt
    · simp [TaskOK]; grind
  · rcases htt with rfl | rfl <;> simp [TaskOK, Notif.isTerminal]
  · subst htt; simp [TaskOK]
  · rcases htt with rfl | rfl <;> simp [TaskOK, Notif.isTerminal] <;> grind
  · rcases htt with rfl | rfl | rfl <;> simp [TaskOK, Notif.isTerminal] <;> grind
  · rcases htt with rfl | rfl <;> simp [TaskOK, Notif.isTerminal] <;> grind

/-- **Every step preserves the invariant**, keeps the pending tasks well-formed, and only moves the
monotone part of the state forward. -/
theorem step1_inv (cfg : Cfg) {st : St α} {t : Task α} (hI : SInv st) (ht : TaskOK st t) :
    SInv (step1 cfg st t).1 ∧ (∀ t' ∈ (step1 cfg st t).2.1, TaskOK (step1 cfg st t).1 t') ∧
      Mono st (step1 cfg st t).1 := by
  cases t with
  | emit n => exact ⟨(emit_inv cfg n hI).1, emit_tasks cfg n hI, (emit_inv cfg n hI).2⟩
  | act who a =>
    cases a with
    | sub j => exact ⟨(doSub_inv cfg who j hI).1, doSub_tasks cfg who j hI, (doSub_inv cfg who j hI).2⟩
    | unsub j => exact ⟨(doUnsub_inv j hI).1, by simp [step1], (doUnsub_inv j hI).2⟩
    | dispose => exact ⟨(subjDispose_inv hI).1, by simp [step1], (subjDispose_inv hI).2⟩
  | deliver i n => exact ⟨(deliver_inv cfg i n hI ht).1, deliver_tasks cfg i n ht, (deliver_inv cfg i n hI ht).2⟩
  | finish j h => exact ⟨(finish_inv j h hI ht).1, by simp [step1], (finish_inv j h hI ht).2⟩
  | sadDispose i =>
    have h := sadDispose_inv i hI ht.2 ht.1
    exact ⟨h.1, by simp [step1], h.2⟩

/-! ## Reachable configurations -/

/-- Configurations (state, agenda) reachable from `(s0, ag0)` by any history of top-level calls, any
reaction scripts (they are part of `cfg`), any amount of fuel. -/
inductive Reach (cfg : Cfg) (s0 : St α) (ag0 : List (Task α)) : St α → List (Task α) → Prop
  | init : Reach cfg s0 ag0 s0 ag0
  | call {st : St α} (c : Call α) : Reach cfg s0 ag0 st [] → Reach cfg s0 ag0 { st with raisedNow := none } [c.toTask]
  | step {st : St α} {t : Task α} {ts : List (Task α)} : Reach cfg s0 ag0 st (t :: ts) →
      Reach cfg s0 ag0 (step1 cfg st t).1 (nextAgenda (step1 cfg st t) ts)
  | oof {st : St α} {ag : List (Task α)} : Reach cfg s0 ag0 st ag → Reach cfg s0 ag0 { st with oof := true } []

/-- Reachable from a fresh subject (`v` = initial value of a BehaviorSubject). -/
abbrev Reachable (cfg : Cfg) (v : Option α) (st : St α) (ag : List (Task α)) : Prop :=
  Reach cfg (init cfg v) [] st ag

theorem Reach.trans {cfg : Cfg} {s0 s1 s2 : St α} {a0 a1 a2 : List (Task α)}
    (h1 : Reach cfg s0 a0 s1 a1) (h2 : Reach cfg s1 a1 s2 a2) : Reach cfg s0 a0 s2 a2 := by
  induction h2 with
  | init => exact h1
  | call c _ ih => exact ih.call c
  | step _ ih => exact ih.step
  | oof _ ih => exact ih.oof

theorem SInv.congr {st st' : St α} (h : SInv st) (h1 : st'.observers = st.observers) (h2 : st'.tr = st.tr)
    (h3 : st'.adoStopped = st.adoStopped) (h4 : st'.disposed = st.disposed) (h5 : st'.stopped = st.stopped)
    (h6 : st'.seen = st.seen) (h7 : st'.sadDisposed = st.sadDisposed) (h8 : st'.cur = st.cur)
    (h9 : st'.handle = st.handle) (h10 : st'.log = st.log) : SInv st' := by
  obtain ⟨a1,a2,a3,a4,a5,a6,a7,a8⟩ := h
  refine ⟨?_,?_,?_,?_,?_,?_,?_,?_⟩ <;> simp_all

theorem Call.toTask_ok (st : St α) (c : Call α) : TaskOK st c.toTask := by
  cases c <;> trivial

theorem reach_inv {cfg : Cfg} {s0 st : St α} {ag0 ag : List (Task α)} (h0 : SInv s0) (ha : ∀ t ∈ ag0, TaskOK s0 t)
    (h : Reach cfg s0 ag0 st ag) : SInv st ∧ ∀ t ∈ ag, TaskOK st t := by
  induction h with
  | init => exact ⟨h0, ha⟩
  | call c _ ih =>
    refine ⟨ih.1.congr rfl rfl rfl rfl rfl rfl rfl rfl rfl rfl, ?_⟩
    intro t ht
    simp only [List.mem_singleton] at ht
    subst ht
    exact Call.toTask_ok _ c
  | @step st t ts _ ih =>
    have hs := step1_inv cfg ih.1 (ih.2 t (by simp))
    refine ⟨hs.1, ?_⟩
    intro t' ht'
    unfold nextAgenda at ht'
    split at ht'
    · simp at ht'
    · rcases List.mem_append.mp ht' with h | h
      · exact hs.2.1 t' h
      · exact (ih.2 t' (by simp [h])).mono hs.2.2
  | oof _ ih => exact ⟨ih.1.congr rfl rfl rfl rfl rfl rfl rfl rfl rfl rfl, by simp⟩

theorem init_inv (cfg : Cfg) (v : Option α) : SInv (init cfg v) := by
  unfold init
  split <;> refine ⟨?_,?_,?_,?_,?_,?_,?_,?_⟩ <;> simp [members, detached]

theorem reachable_inv {cfg : Cfg} {v : Option α} {st : St α} {ag : List (Task α)} (h : Reachable cfg v st ag) :
    SInv st ∧ ∀ t ∈ ag, TaskOK st t :=
  reach_inv (init_inv cfg v) (by simp) h

theorem exec_reach {cfg : Cfg} {s0 : St α} {ag0 : List (Task α)} (f : Nat) {st : St α} {ag : List (Task α)}
    (h : Reach cfg s0 ag0 st ag) : Reach cfg s0 ag0 (exec cfg f st ag) [] := by
  induction f generalizing st ag with
  | zero =>
    cases ag with
    | nil => simpa [exec] using h
    | cons t ts => simpa [exec] using h.oof
  | succ f ih =>
    cases ag with
    | nil => simpa [exec] using h
    | cons t ts => simpa [exec] using ih h.step

theorem call_reach {cfg : Cfg} {s0 : St α} {ag0 : List (Task α)} (f : Nat) {st : St α} (c : Call α)
    (h : Reach cfg s0 ag0 st []) : Reach cfg s0 ag0 (call cfg f st c) [] := exec_reach f (h.call c)

theorem run_reach {cfg : Cfg} {s0 : St α} {ag0 : List (Task α)} (f : Nat) {st : St α} (cs : List (Call α))
    (h : Reach cfg s0 ag0 st []) : Reach cfg s0 ag0 (run cfg f st cs).1 [] := by
  induction cs generalizing st with
  | nil => simpa [run] using h
  | cons c cs ih => simpa [run] using ih (call_reach f c h)

end Subj

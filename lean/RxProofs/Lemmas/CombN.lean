import RxModel.CombN
import RxProofs.Lemmas.Comb
/-!
# Invariants of the static n-ary combinators (C13)
-/

namespace Comb

/-- i-th column of a list of tuples -/
def col {α} (i : Nat) (outs : List (List α)) : List α := outs.filterMap (·[i]?)

theorem col_append {α} (i : Nat) (a b : List (List α)) : col i (a ++ b) = col i a ++ col i b := by
  simp [col]

theorem fm_range {α} (f : Nat → Option α) (n : Nat) (h : ∀ j, j < n → ∃ v, f j = some v) :
    ((List.range n).filterMap f).length = n ∧ ∀ j, j < n → ((List.range n).filterMap f)[j]? = f j := by
  induction n with
  | zero => simp
  | succ n ih =>
    have ih' := ih (fun j hj => h j (Nat.lt_succ_of_lt hj))
    obtain ⟨v, hv⟩ := h n (Nat.lt_succ_self n)
    rw [List.range_succ, List.filterMap_append]
    simp only [List.filterMap_cons, hv, List.filterMap_nil, List.length_append, List.length_singleton]
    refine ⟨by omega, ?_⟩
    intro j hj
    by_cases hjn : j < n
    · rw [List.getElem?_append_left (by omega)]; exact ih'.2 j hjn
    · have : j = n := by omega
      subst this
      rw [List.getElem?_append_right (by omega)]
      simp [ih'.1, hv]

/-- no live subscription is ever added by an operator that never subscribes in a handler -/
theorem live_step_static {σ ι β} (m : Machine σ ι β) (st : St σ) (e : Ev ι)
    (hs : ∀ s k n j, Act.sub j ∉ (m.handler s k n).2) (ht : ∀ s d j, Act.sub j ∉ (m.tick s d).2)
    (j : Nat) (hj : j ∈ (step m st e).1.p.live) : j ∈ st.p.live := by
  rcases live_step m st e j hj with h | ⟨k, n, _, _, h⟩ | ⟨_, h⟩
  · exact h
  · exact absurd h (hs _ _ _ _)
  · exact absurd h (ht _ _ _)

/-! ## zip -/

structure ZInv {α} (n : Nat) (D : Nat → List α) (outs : List (List α)) (st : St (ZipSt α)) : Prop where
  wf : st.p.WF
  lv : ∀ k, k ∈ st.p.live → k < n
  hist : ∀ i, i < n → D i = col i outs ++ st.s.q i
  len : ∀ t, t ∈ outs → t.length = n
  emp : n = 0 ∨ ∃ i, i < n ∧ st.s.q i = []

theorem zip_no_sub {α} (n : Nat) (s : ZipSt α) (k : Nat) (x : Notif α) (j : Nat) :
    Act.sub j ∉ (zipHandler n s k x).2 := by
  cases x <;> simp only [zipHandler] <;> (try split) <;> simp <;> (try split) <;> simp

theorem zip_step_inv {α} (n : Nat) (D : Nat → List α) (outs : List (List α)) (st : St (ZipSt α))
    (e : Ev α) (h : ZInv n D outs st) :
    ZInv n (fun i => D i ++ valsOf (accOne st e) i) (outs ++ outVals (step (zipM n) st e).2)
      (step (zipM n) st e).1 := by
  have hlv : ∀ k, k ∈ (step (zipM n) st e).1.p.live → k < n := fun k hk =>
    h.lv k (live_step_static (zipM n) st e (fun s k x j => zip_no_sub n s k x j) (by intro s d j; simp [zipM]) k hk)
  have hwf := step_WF (zipM n) st e h.wf
  cases e with
  | tick =>
    refine ⟨hwf, hlv, ?_, ?_, ?_⟩ <;> simp [step, zipM, Plumb.acts, accOne] <;> first | exact h.hist | exact h.len | exact h.emp
  | dispose =>
    refine ⟨hwf, hlv, ?_, ?_, ?_⟩
    · simpa [step, Plumb.dispose, accOne, outVals_eq_nextVals, nextVals] using h.hist
    · simpa [step, Plumb.dispose, outVals_eq_nextVals, nextVals] using h.len
    · simpa [step] using h.emp
  | src k x =>
    by_cases hk : k ∈ st.p.live
    · have hkn := h.lv k hk
      have hs := step_src_state (zipM n) st k x hk
      have ho := outVals_step_src (zipM n) st k x h.wf hk
      cases x with
      | error er =>
        refine ⟨hwf, hlv, ?_, ?_, ?_⟩
        · intro i hi; rw [ho, hs]; simpa [zipM, zipHandler, accOne, hk, valsOf, actEmits, cut, nextVals, Notif.isTerminal] using h.hist i hi
        · rw [ho]; simpa [zipM, zipHandler, actEmits, cut, nextVals, Notif.isTerminal] using h.len
        · rw [hs]; simpa [zipM, zipHandler] using h.emp
      | completed =>
        refine ⟨hwf, hlv, ?_, ?_, ?_⟩
        · intro i hi; rw [ho, hs]
          simp only [zipM, zipHandler, accOne, hk, if_true, valsOf]
          split <;> simpa [actEmits, cut, nextVals, Notif.isTerminal] using h.hist i hi
        · rw [ho]; simp only [zipM, zipHandler]
          split <;> simpa [actEmits, cut, nextVals, Notif.isTerminal] using h.len
        · rw [hs]; simpa [zipM, zipHandler] using h.emp
      | next v =>
        by_cases hall : ((List.range n).all (fun j => !(upd st.s.q k (st.s.q k ++ [v]) j).isEmpty)) = true
        · -- all queues non-empty: one tuple goes out
          have hne : ∀ j, j < n → ∃ w, (upd st.s.q k (st.s.q k ++ [v]) j).head? = some w := by
            intro j hj
            have := (List.all_eq_true.mp hall) j (List.mem_range.mpr hj)
            cases hq : upd st.s.q k (st.s.q k ++ [v]) j with
            | nil => simp [hq] at this
            | cons w ws => exact ⟨w, rfl⟩
          have hfm := fm_range (fun j => (upd st.s.q k (st.s.q k ++ [v]) j).head?) n hne
          have hov : outVals (step (zipM n) st (.src k (.next v))).2
              = [(List.range n).filterMap (fun j => (upd st.s.q k (st.s.q k ++ [v]) j).head?)] := by
            rw [ho]; simp only [zipM, zipHandler, hall, if_true]
            split <;> simp [actEmits, cut, nextVals, Notif.isTerminal]
          have hst : (step (zipM n) st (.src k (.next v))).1.s.q = fun j => (upd st.s.q k (st.s.q k ++ [v]) j).tail := by
            rw [hs]; simp [zipM, zipHandler, hall]
          refine ⟨hwf, hlv, ?_, ?_, ?_⟩
          · intro i hi
            rw [hov, hst, col_append]
            obtain ⟨w, hw⟩ := hne i hi
            have hcol : col i [(List.range n).filterMap (fun j => (upd st.s.q k (st.s.q k ++ [v]) j).head?)] = [w] := by
              simp [col, hfm.2 i hi, hw]
            rw [hcol]
            have hq : upd st.s.q k (st.s.q k ++ [v]) i = w :: (upd st.s.q k (st.s.q k ++ [v]) i).tail := by
              cases hq : upd st.s.q k (st.s.q k ++ [v]) i with
              | nil => simp [hq] at hw
              | cons a as => simp [hq] at hw ⊢; exact hw
            have hD : D i ++ valsOf (accOne st (Ev.src k (Notif.next v))) i = col i outs ++ upd st.s.q k (st.s.q k ++ [v]) i := by
              simp only [accOne, hk, if_true, valsOf, upd]
              by_cases hik : i = k
              · subst hik; simp [h.hist i hi]
              · have : ¬ k = i := fun h => hik h.symm
                simp [hik, this, h.hist i hi]
            rw [hD]
            simp only [List.append_assoc, List.singleton_append]
            rw [← hq]
          · intro t ht
            rw [hov] at ht
            rcases List.mem_append.mp ht with ht | ht
            · exact h.len t ht
            · simp at ht; subst ht; exact hfm.1
          · -- the queue of k had to be empty before: it is empty again
            rcases h.emp with h0 | ⟨i0, hi0, hq0⟩
            · exact Or.inl h0
            · right
              rw [hst]
              have := (List.all_eq_true.mp hall) i0 (List.mem_range.mpr hi0)
              by_cases hik : i0 = k
              · subst hik; exact ⟨i0, hi0, by simp [upd, hq0]⟩
              · simp [upd, hik, hq0] at this
        · -- some queue still empty: nothing goes out
          have hov : outVals (step (zipM n) st (.src k (.next v))).2 = [] := by
            rw [ho]; simp [zipM, zipHandler, hall, actEmits, cut, nextVals]
          have hst : (step (zipM n) st (.src k (.next v))).1.s.q = upd st.s.q k (st.s.q k ++ [v]) := by
            rw [hs]; simp [zipM, zipHandler, hall]
          refine ⟨hwf, hlv, ?_, ?_, ?_⟩
          · intro i hi
            rw [hov, hst]
            simp only [accOne, hk, if_true, valsOf, upd, List.append_nil]
            by_cases hik : i = k
            · subst hik; simp [h.hist i hi]
            · have : ¬ k = i := fun h => hik h.symm
              simp [hik, this, h.hist i hi]
          · rw [hov]; simpa using h.len
          · rcases h.emp with h0 | _
            · exact Or.inl h0
            · right
              rw [hst]
              have hall' := Bool.eq_false_iff.mpr hall
              obtain ⟨j, hjm, hjq⟩ := List.all_eq_false.mp hall'
              refine ⟨j, List.mem_range.mp hjm, ?_⟩
              cases hq : upd st.s.q k (st.s.q k ++ [v]) j with
              | nil => rfl
              | cons a as => simp [hq] at hjq
    · rw [step_src_not_live _ _ _ _ hk]
      refine ⟨h.wf, h.lv, ?_, ?_, h.emp⟩
      · simpa [accOne, hk] using h.hist
      · simpa using h.len

theorem zip_run_inv {α} (n : Nat) (es : List (Ev α)) : ∀ (D : Nat → List α) (outs : List (List α)) (st : St (ZipSt α)),
    ZInv n D outs st →
    ZInv n (fun i => D i ++ valsOf (accepted (zipM n) st es) i) (outs ++ outVals (run (zipM n) st es))
      (final (zipM n) st es) := by
  induction es with
  | nil => intro D outs st h; simpa [accepted, final] using h
  | cons e es ih =>
    intro D outs st h
    have := ih _ _ _ (zip_step_inv n D outs st e h)
    simpa [accepted_cons, valsOf_append, run_cons, outVals_append, final, List.append_assoc] using this

theorem zip_init_inv {α} (n : Nat) : ZInv (α := α) n (fun _ => []) [] (zipInit n) := by
  refine ⟨?_, ?_, ?_, ?_, ?_⟩
  · intro h; simp [zipInit, startAll] at h
  · intro k hk; simpa [zipInit, startAll] using hk
  · intro i _; simp [col, zipInit, startAll]
  · intro t ht; simp at ht
  · cases n with
    | zero => exact Or.inl rfl
    | succ n => exact Or.inr ⟨0, Nat.succ_pos n, rfl⟩

end Comb

namespace Comb

theorem col_get {α} (i : Nat) (outs : List (List α)) (h : ∀ t, t ∈ outs → i < t.length) :
    (col i outs).length = outs.length ∧ ∀ k : Nat, (col i outs)[k]? = (outs[k]?).bind (fun (t : List α) => t[i]?) := by
  induction outs with
  | nil => simp [col]
  | cons t ts ih =>
    have ht := h t (List.mem_cons_self ..)
    have ih' := ih (fun t' ht' => h t' (List.mem_cons_of_mem _ ht'))
    have hti : t[i]? = some t[i] := List.getElem?_eq_getElem ht
    have hc : col i (t :: ts) = t[i] :: col i ts := by simp [col, hti]
    rw [hc]
    refine ⟨by simp [ih'.1], ?_⟩
    intro k
    cases k with
    | zero => simp [hti]
    | succ k => simpa using ih'.2 k

end Comb

namespace Comb

/-! ## amb -/

theorem acts_append {β} (a b : List (Act β)) : ∀ p : Plumb,
    p.acts (a ++ b) = ((( p.acts a).1.acts b).1, (p.acts a).2 ++ ((p.acts a).1.acts b).2) := by
  induction a with
  | nil => intro p; simp [Plumb.acts]
  | cons x xs ih => intro p; simp [Plumb.acts, ih, List.append_assoc]

/-- a handler that removes a list of distinct holders: exactly the live ones are unsubscribed, in list order -/
theorem acts_unsub_list {β} (L : List Nat) : ∀ (p : Plumb), L.Nodup → p.live.Nodup →
    (p.acts (β := β) (L.map Act.unsub)).2 = (L.filter (fun j => p.live.contains j)).map Eff.unsub ∧
    (p.acts (β := β) (L.map Act.unsub)).1.done = p.done ∧
    (p.acts (β := β) (L.map Act.unsub)).1.live.Nodup ∧
    ∀ x, x ∈ (p.acts (β := β) (L.map Act.unsub)).1.live ↔ (x ∈ p.live ∧ x ∉ L) := by
  induction L with
  | nil => intro p _ h; simp [Plumb.acts, h]
  | cons j L ih =>
    intro p hL hnd
    have hL' := (List.nodup_cons.mp hL)
    by_cases hj : j ∈ p.live
    · have ih' := ih { p with live := p.live.erase j } hL'.2 (hnd.erase j)
      have hfil : L.filter (fun x => (p.live.erase j).contains x) = L.filter (fun x => p.live.contains x) := by
        apply List.filter_congr
        intro x hx
        have : x ≠ j := fun h => hL'.1 (h ▸ hx)
        simp [List.mem_erase_of_ne this]
      simp only [List.map_cons, Plumb.acts, Plumb.act, hj, if_true, List.filter_cons, List.contains_iff_mem,
        decide_true]
      refine ⟨by rw [ih'.1, hfil]; simp, ih'.2.1, ih'.2.2.1, ?_⟩
      intro x
      rw [ih'.2.2.2 x]
      simp only [List.mem_cons, not_or]
      constructor
      · rintro ⟨h1, h2⟩
        exact ⟨List.mem_of_mem_erase h1, fun hx => by subst hx; exact (hnd.not_mem_erase) h1, h2⟩
      · rintro ⟨h1, h2, h3⟩
        exact ⟨(List.mem_erase_of_ne h2).mpr h1, h3⟩
    · have ih' := ih p hL'.2 hnd
      simp only [List.map_cons, Plumb.acts, Plumb.act, hj, if_false, List.filter_cons, List.contains_iff_mem,
        decide_false, Bool.false_eq_true]
      refine ⟨by simpa using ih'.1, ih'.2.1, ih'.2.2.1, ?_⟩
      intro x
      rw [ih'.2.2.2 x]
      simp only [List.mem_cons, not_or]
      constructor
      · rintro ⟨h1, h2⟩; exact ⟨h1, fun hx => hj (hx ▸ h1), h2⟩
      · rintro ⟨h1, _, h3⟩; exact ⟨h1, h3⟩

/-- the sources that lose when `i` notifies first, in the order in which the nested binary ambs dispose them -/
def ambLosers (n i : Nat) : List Nat := (List.range i).reverse ++ (List.range n).filter (fun j => i < j)

theorem ambLosers_nodup (n i : Nat) : (ambLosers n i).Nodup := by
  simp only [ambLosers]
  rw [List.nodup_append]
  have hrev : (List.range i).reverse.Nodup := by
    unfold List.Nodup; rw [List.pairwise_reverse]
    exact (List.nodup_range (n := i)).imp (fun h => Ne.symm h)
  refine ⟨hrev, List.nodup_range.filter _, ?_⟩
  intro a ha b hb
  simp at ha hb
  omega

theorem mem_ambLosers (n i j : Nat) (hi : i < n) : j ∈ ambLosers n i ↔ j < n ∧ j ≠ i := by
  simp [ambLosers]; omega

structure AInv (n : Nat) (st : St AmbSt) : Prop where
  wf : st.p.WF
  nd : st.p.live.Nodup
  lt : ∀ k, k ∈ st.p.live → k < n
  ch : ∀ w, st.s.choice = some w → ∀ k, k ∈ st.p.live → k = w

/-- the choice step, in full: the live losers are unsubscribed in loser order, then the notification goes out -/
theorem amb_choice_step {α} (n : Nat) (st : St AmbSt) (k : Nat) (x : Notif α) (h : AInv n st)
    (hk : k ∈ st.p.live) (hc : st.s.choice = none) :
    (step (ambM (α := α) n) st (.src k x)).2
      = ((ambLosers n k).filter (fun j => st.p.live.contains j)).map Eff.unsub ++ [Eff.emit x]
        ++ (if x.isTerminal then [Eff.unsub k] else []) ∧
    (step (ambM (α := α) n) st (.src k x)).1.s.choice = some k ∧
    (step (ambM (α := α) n) st (.src k x)).1.p.live = (if x.isTerminal then [] else [k]) := by
  have hnd := not_done_of_live h.wf hk
  have hkn := h.lt k hk
  have hu := acts_unsub_list (β := α) (ambLosers n k) st.p (ambLosers_nodup n k) h.nd
  have hacts : (ambHandler (α := α) n st.s k x).2 = (ambLosers n k).map Act.unsub ++ [Act.emit x] := by
    simp [ambHandler, hc, ambLosers]
  have hs : (ambHandler (α := α) n st.s k x).1.choice = some k := by simp [ambHandler, hc]
  -- after the removals exactly k is live
  have hlive1 : (st.p.acts (β := α) ((ambLosers n k).map Act.unsub)).1.live = [k] := by
    have hmem := hu.2.2.2
    have hnd1 := hu.2.2.1
    have hk1 : k ∈ (st.p.acts (β := α) ((ambLosers n k).map Act.unsub)).1.live :=
      (hmem k).mpr ⟨hk, fun hh => ((mem_ambLosers n k k hkn).mp hh).2 rfl⟩
    have hall : ∀ j, j ∈ (st.p.acts (β := α) ((ambLosers n k).map Act.unsub)).1.live → j = k := by
      intro j hj
      have := (hmem j).mp hj
      by_cases hjk : j = k
      · exact hjk
      · exact absurd ((mem_ambLosers n k j hkn).mpr ⟨h.lt j this.1, hjk⟩) this.2
    generalize (st.p.acts (β := α) ((ambLosers n k).map Act.unsub)).1.live = l at hk1 hall hnd1
    match l, hk1, hall, hnd1 with
    | [a], hk1, hall, _ => simp [hall a (by simp)]
    | a :: b :: r, _, hall, hnd1 =>
      have ha := hall a (by simp); have hb := hall b (by simp)
      subst ha; subst hb; simp at hnd1
  have hdone1 : (st.p.acts (β := α) ((ambLosers n k).map Act.unsub)).1.done = false := by rw [hu.2.1, hnd]
  refine ⟨?_, ?_, ?_⟩
  · simp only [step, hk, if_true, ambM, hacts, acts_append, hu.1]
    cases ht : x.isTerminal
    · simp [Plumb.acts, Plumb.act, hdone1, ht, hlive1]
    · simp [Plumb.acts, Plumb.act, hdone1, ht, hlive1]
  · rw [step_src_state _ _ _ _ hk]; exact hs
  · simp only [step, hk, if_true, ambM, hacts, acts_append]
    cases ht : x.isTerminal
    · simp [Plumb.acts, Plumb.act, hdone1, ht, hlive1]
    · simp [Plumb.acts, Plumb.act, hdone1, ht, hlive1]

theorem amb_step_inv {α} (n : Nat) (st : St AmbSt) (e : Ev α) (h : AInv n st) :
    AInv n (step (ambM (α := α) n) st e).1 := by
  have hwf := step_WF (ambM (α := α) n) st e h.wf
  cases e with
  | tick => exact ⟨hwf, by simpa [step, ambM, Plumb.acts] using h.nd, by simpa [step, ambM, Plumb.acts] using h.lt,
      by simpa [step, ambM, Plumb.acts] using h.ch⟩
  | dispose => exact ⟨hwf, by simp [step, Plumb.dispose], by simp [step, Plumb.dispose], by simp [step, Plumb.dispose]⟩
  | src k x =>
    by_cases hk : k ∈ st.p.live
    · have hnd := not_done_of_live h.wf hk
      cases hc : st.s.choice with
      | none =>
        have hcs := amb_choice_step n st k x h hk hc
        refine ⟨hwf, ?_, ?_, ?_⟩
        · rw [hcs.2.2]; split <;> simp
        · rw [hcs.2.2]; split
          · simp
          · intro j hj; simp at hj; subst hj; exact h.lt _ hk
        · intro w hw j hj
          rw [hcs.2.1] at hw; cases hw
          rw [hcs.2.2] at hj; split at hj <;> simp at hj; exact hj
      | some w =>
        have hkw : k = w := h.ch w hc k hk
        subst hkw
        have hst : (step (ambM (α := α) n) st (.src k x)).1.s = st.s := by
          rw [step_src_state _ _ _ _ hk]; simp [ambM, ambHandler, hc]
        have hsub : ∀ j, j ∈ (step (ambM (α := α) n) st (.src k x)).1.p.live → j ∈ st.p.live := by
          intro j hj
          simp only [step, hk, if_true, ambM, ambHandler, hc, Plumb.acts, Plumb.act, hnd] at hj
          cases ht : x.isTerminal <;> simp [ht] at hj
          exact hj
        have hndp : (step (ambM (α := α) n) st (.src k x)).1.p.live.Nodup := by
          simp only [step, hk, if_true, ambM, ambHandler, hc, Plumb.acts, Plumb.act, hnd]
          cases ht : x.isTerminal <;> simp [ht, h.nd]
        refine ⟨hwf, hndp, fun j hj => h.lt j (hsub j hj), ?_⟩
        intro w hw j hj
        rw [hst] at hw
        exact h.ch w hw j (hsub j hj)
    · rw [step_src_not_live _ _ _ _ hk]; exact h

end Comb

namespace Comb

theorem actEmits_map_unsub {β} (L : List Nat) : actEmits (L.map (Act.unsub (β := β))) = [] := by
  induction L with
  | nil => rfl
  | cons a as ih => simp [actEmits, ih]

theorem actEmits_append {β} (a b : List (Act β)) : actEmits (a ++ b) = actEmits a ++ actEmits b := by
  induction a with
  | nil => rfl
  | cons x xs ih => cases x <;> simp [actEmits, ih]

theorem amb_init_inv (n : Nat) : AInv n (ambInit n) := by
  refine ⟨by intro h; simp [ambInit] at h, ?_, ?_, by simp [ambInit]⟩
  · simp only [ambInit]
    unfold List.Nodup; rw [List.pairwise_reverse]
    exact (List.nodup_range (n := n)).imp (fun h => Ne.symm h)
  · intro k hk; simpa [ambInit] using hk

theorem amb2_init_inv : AInv 2 amb2Init := by
  refine ⟨by intro h; simp [amb2Init, startAll] at h, by simpa [amb2Init, startAll] using List.nodup_range (n := 2), ?_, by simp [amb2Init, startAll]⟩
  intro k hk; simpa [amb2Init, startAll] using hk

theorem amb_final_inv {α} (n : Nat) (es : List (Ev α)) : ∀ st, AInv n st → AInv n (final (ambM (α := α) n) st es) := by
  induction es with
  | nil => intro st h; exact h
  | cons e es ih => intro st h; exact ih _ (amb_step_inv n st e h)

/-- every accepted notification goes out unchanged, in the step that delivers it -/
theorem amb_step_emits {α} (n : Nat) (st : St AmbSt) (e : Ev α) (h : AInv n st) :
    emits (step (ambM (α := α) n) st e).2 = (accOne st e).map (·.2) := by
  cases e with
  | tick => simp [step, ambM, Plumb.acts, accOne]
  | dispose => simp [emits_step_dispose, accOne]
  | src k x =>
    by_cases hk : k ∈ st.p.live
    · rw [emits_step_src _ _ _ _ h.wf hk]
      simp only [accOne, hk, if_true, List.map_cons, List.map_nil, ambM]
      have hcut : cut [x] = [x] := by simp only [cut]; split <;> rfl
      cases hc : st.s.choice with
      | none =>
        have hacts : (ambHandler (α := α) n st.s k x).2 = (ambLosers n k).map Act.unsub ++ [Act.emit x] := by
          simp [ambHandler, hc, ambLosers]
        rw [hacts, actEmits_append, actEmits_map_unsub]
        simpa [actEmits] using hcut
      | some w =>
        have := h.ch w hc k hk
        simpa [ambHandler, hc, this, actEmits] using hcut
    · simp [step_src_not_live _ _ _ _ hk, accOne, hk]

theorem amb_run_emits {α} (n : Nat) (es : List (Ev α)) : ∀ st, AInv n st →
    emits (run (ambM (α := α) n) st es) = (accepted (ambM (α := α) n) st es).map (·.2) := by
  induction es with
  | nil => intro st _; rfl
  | cons e es ih =>
    intro st h
    rw [run_cons, emits_append, accepted_cons, List.map_append, amb_step_emits n st e h, ih _ (amb_step_inv n st e h)]

theorem amb_choice_keeps {α} (n : Nat) (st : St AmbSt) (e : Ev α) (h : AInv n st) (w : Nat) (hw : st.s.choice = some w) :
    (step (ambM (α := α) n) st e).1.s.choice = some w := by
  cases e with
  | tick => simpa [step, ambM] using hw
  | dispose => simpa [step] using hw
  | src k x =>
    by_cases hk : k ∈ st.p.live
    · rw [step_src_state _ _ _ _ hk]
      have := h.ch w hw k hk
      simp [ambM, ambHandler, hw, this]
    · rw [step_src_not_live _ _ _ _ hk]; exact hw

theorem amb_acc_chosen {α} (n : Nat) (es : List (Ev α)) : ∀ st, AInv n st → ∀ w, st.s.choice = some w →
    ∀ kn, kn ∈ accepted (ambM (α := α) n) st es → kn.1 = w := by
  induction es with
  | nil => intro st _ w _ kn hkn; simp [accepted] at hkn
  | cons e es ih =>
    intro st h w hw kn hkn
    rw [accepted_cons, List.mem_append] at hkn
    rcases hkn with hkn | hkn
    · cases e with
      | src k x =>
        simp only [accOne] at hkn
        split at hkn
        · rename_i hk; simp at hkn; subst hkn; exact h.ch w hw k hk
        · simp at hkn
      | tick => simp [accOne] at hkn
      | dispose => simp [accOne] at hkn
    · exact ih _ (amb_step_inv n st e h) w (amb_choice_keeps n st e h w hw) kn hkn

theorem amb_acc_one_source {α} (n : Nat) (es : List (Ev α)) : ∀ st, AInv n st →
    ∃ w, ∀ kn, kn ∈ accepted (ambM (α := α) n) st es → kn.1 = w := by
  induction es with
  | nil => intro st _; exact ⟨0, fun kn hkn => by simp [accepted] at hkn⟩
  | cons e es ih =>
    intro st h
    cases hc : st.s.choice with
    | some w => exact ⟨w, amb_acc_chosen n (e :: es) st h w hc⟩
    | none =>
      have hinv := amb_step_inv n st e h
      cases e with
      | src k x =>
        by_cases hk : k ∈ st.p.live
        · have hcs := amb_choice_step n st k x h hk hc
          refine ⟨k, ?_⟩
          intro kn hkn
          rw [accepted_cons, List.mem_append] at hkn
          rcases hkn with hkn | hkn
          · simp [accOne, hk] at hkn; subst hkn; rfl
          · exact amb_acc_chosen n es _ hinv k hcs.2.1 kn hkn
        · obtain ⟨w, hw⟩ := ih _ hinv
          exact ⟨w, fun kn hkn => by
            rw [accepted_cons] at hkn; simp [accOne, hk] at hkn; exact hw kn hkn⟩
      | tick =>
        obtain ⟨w, hw⟩ := ih _ hinv
        exact ⟨w, fun kn hkn => by rw [accepted_cons] at hkn; simp [accOne] at hkn; exact hw kn hkn⟩
      | dispose =>
        obtain ⟨w, hw⟩ := ih _ hinv
        exact ⟨w, fun kn hkn => by rw [accepted_cons] at hkn; simp [accOne] at hkn; exact hw kn hkn⟩

end Comb

namespace Comb

/-! ## combine_latest -/

/-- the rule: remember the latest element of every source; an element goes out as the tuple of latest values as
soon as every source has one -/
def clStep {α} (vals : Nat → Option α) : Nat × Notif α → Nat → Option α
  | (i, .next x) => upd vals i (some x)
  | _ => vals

def clOut {α} (n : Nat) (vals : Nat → Option α) : Nat × Notif α → List (List α)
  | (i, .next x) =>
    if (List.range n).all (fun j => (upd vals i (some x) j).isSome) then
      [(List.range n).filterMap (upd vals i (some x))] else []
  | _ => []

structure ClInv {α} (n : Nat) (st : St (ClSt α)) : Prop where
  wf : st.p.WF
  has : ∀ j, st.s.has j = (st.s.vals j).isSome
  all : st.s.hasAll = (List.range n).all st.s.has

theorem cl_no_sub {α} (n : Nat) (s : ClSt α) (k : Nat) (x : Notif α) (j : Nat) :
    Act.sub j ∉ (clHandler n s k x).2 := by
  cases x <;> simp only [clHandler] <;> (try split) <;> simp <;> (try split) <;> simp

theorem cl_step_inv {α} (n : Nat) (st : St (ClSt α)) (e : Ev α) (h : ClInv n st) :
    ClInv n (step (clM n) st e).1 := by
  have hwf := step_WF (clM n) st e h.wf
  cases e with
  | tick => exact ⟨hwf, by simpa [step, clM] using h.has, by simpa [step, clM] using h.all⟩
  | dispose => exact ⟨hwf, by simpa [step] using h.has, by simpa [step] using h.all⟩
  | src k x =>
    by_cases hk : k ∈ st.p.live
    · refine ⟨hwf, ?_, ?_⟩ <;> rw [step_src_state _ _ _ _ hk]
      · cases x with
        | next v =>
          intro j
          have : ((clHandler n st.s k (.next v)).1).has j = (((clHandler n st.s k (.next v)).1).vals j).isSome := by
            simp only [clHandler]
            split
            · simp only [upd]; split <;> simp [h.has j]
            · split <;> (simp only [upd]; split <;> simp [h.has j])
          simpa [clM] using this
        | error er => simpa [clM, clHandler] using h.has
        | completed => simpa [clM, clHandler] using h.has
      · cases x with
        | next v =>
          have hmono : (List.range n).all st.s.has = true → (List.range n).all (upd st.s.has k true) = true := by
            intro ha
            rw [List.all_eq_true] at ha ⊢
            intro j hj
            simp only [upd]; split
            · rfl
            · exact ha j hj
          have : ((clHandler n st.s k (.next v)).1).hasAll = (List.range n).all ((clHandler n st.s k (.next v)).1).has := by
            simp only [clHandler]
            have hall := h.all
            cases hA : (List.range n).all (upd st.s.has k true)
            · have : st.s.hasAll = false := by
                cases hh : st.s.hasAll
                · rfl
                · rw [hh] at hall; have := hmono hall.symm; rw [hA] at this; cases this
              simp [this, hA]; split <;> simp [hA]
            · simp [hA]
          simpa [clM] using this
        | error er => simpa [clM, clHandler] using h.all
        | completed => simpa [clM, clHandler] using h.all
    · rw [step_src_not_live _ _ _ _ hk]; exact h

end Comb

namespace Comb

theorem cl_step_out {α} (n : Nat) (st : St (ClSt α)) (e : Ev α) (h : ClInv n st) :
    outVals (step (clM n) st e).2 = specRun clStep (clOut n) st.s.vals (accOne st e) ∧
    (step (clM n) st e).1.s.vals = (accOne st e).foldl clStep st.s.vals := by
  cases e with
  | tick => simp [step, clM, Plumb.acts, accOne, specRun]
  | dispose => simp [step, Plumb.dispose, accOne, specRun, outVals_eq_nextVals, nextVals]
  | src k x =>
    by_cases hk : k ∈ st.p.live
    · rw [outVals_step_src _ _ _ _ h.wf hk, step_src_state _ _ _ _ hk]
      simp only [accOne, hk, if_true, specRun, List.append_nil, List.foldl, clM]
      cases x with
      | error er => simp [clHandler, actEmits, cut, nextVals, clOut, clStep, Notif.isTerminal]
      | completed =>
        simp only [clHandler, clOut, clStep]
        split <;> simp [actEmits, cut, nextVals, Notif.isTerminal]
      | next v =>
        have hhas : ∀ j, upd st.s.has k true j = (upd st.s.vals k (some v) j).isSome := by
          intro j; simp only [upd]; split <;> simp [h.has j]
        have hall : (st.s.hasAll || (List.range n).all (upd st.s.has k true))
            = (List.range n).all (fun j => (upd st.s.vals k (some v) j).isSome) := by
          have e1 : (List.range n).all (upd st.s.has k true)
              = (List.range n).all (fun j => (upd st.s.vals k (some v) j).isSome) := by
            exact congrArg (fun f => (List.range n).all f) (funext hhas)
          rw [← e1]
          cases hh : st.s.hasAll
          · simp
          · have := h.all; rw [hh] at this
            have hm : (List.range n).all (upd st.s.has k true) = true := by
              rw [List.all_eq_true]; intro j hj
              have := (List.all_eq_true.mp this.symm) j hj
              simp only [upd]; split
              · rfl
              · exact this
            simp [hm]
        simp only [clHandler, clOut, clStep, hall]
        split
        · simp [actEmits, cut, nextVals, Notif.isTerminal]
        · split <;> simp [actEmits, cut, nextVals, Notif.isTerminal]
    · simp [step_src_not_live _ _ _ _ hk, accOne, hk, specRun]

/-- `combine_latest()` without sources raises ValueError: n ≥ 1 -/
theorem cl_init_inv {α} (n : Nat) (hn : 0 < n) : ClInv (α := α) n (clInit n) := by
  refine ⟨by intro h; simp [clInit, startAll] at h, by intro j; simp [clInit, startAll], ?_⟩
  simp only [clInit, startAll]
  symm
  rw [List.all_eq_false]
  exact ⟨0, List.mem_range.mpr hn, by simp⟩

end Comb

namespace Comb

theorem valsOf_cons_error {α} (k : Nat) (er : Err) (r : List (Nat × Notif α)) (i : Nat) :
    valsOf ((k, Notif.error er) :: r) i = valsOf r i := by
  by_cases h : k = i <;> simp [valsOf, h]

theorem valsOf_cons_completed {α} (k : Nat) (r : List (Nat × Notif α)) (i : Nat) :
    valsOf ((k, Notif.completed) :: r) i = valsOf r i := by
  by_cases h : k = i <;> simp [valsOf, h]

theorem valsOf_cons_next {α} (k : Nat) (v : α) (r : List (Nat × Notif α)) (i : Nat) :
    valsOf ((k, Notif.next v) :: r) i = (if k = i then [v] else []) ++ valsOf r i := by
  by_cases h : k = i <;> simp [valsOf, h]

theorem cl_spec_silent {α} (n i : Nat) (hi : i < n) (acc : List (Nat × Notif α)) : ∀ vals : Nat → Option α,
    vals i = none → valsOf acc i = [] → specRun clStep (clOut n) vals acc = [] := by
  induction acc with
  | nil => intro _ _ _; rfl
  | cons a r ih =>
    intro vals hv hacc
    obtain ⟨k, x⟩ := a
    cases x with
    | next v =>
      rw [valsOf_cons_next] at hacc
      have hki : k ≠ i := by
        intro hk; simp [hk] at hacc
      have hv' : upd vals k (some v) i = none := by simp [upd, Ne.symm hki, hv]
      have hacc' : valsOf r i = [] := by simpa [hki] using hacc
      have hout : clOut n vals (k, Notif.next v) = [] := by
        simp only [clOut]
        split
        · rename_i hall
          have := (List.all_eq_true.mp hall) i (List.mem_range.mpr hi)
          rw [hv'] at this; cases this
        · rfl
      simp only [specRun, hout, List.nil_append, clStep]
      exact ih _ hv' hacc'
    | error er =>
      rw [valsOf_cons_error] at hacc
      simpa [specRun, clOut, clStep] using ih vals hv hacc
    | completed =>
      rw [valsOf_cons_completed] at hacc
      simpa [specRun, clOut, clStep] using ih vals hv hacc

end Comb

namespace Comb

/-! ## with_latest_from -/

def wlfStep {α} (vals : Nat → Option α) : Nat × Notif α → Nat → Option α
  | (i, .next x) => if i = 0 then vals else upd vals i (some x)
  | _ => vals

/-- only an element of the primary source (id 0) produces an output, and only when every other source has a value -/
def wlfOut {α} (m : Nat) (vals : Nat → Option α) : Nat × Notif α → List (List α)
  | (i, .next x) =>
    if i = 0 ∧ (List.range m).all (fun j => (vals (j + 1)).isSome) then
      [x :: (List.range m).filterMap (fun j => vals (j + 1))] else []
  | _ => []

theorem wlf_step_out {α} (m : Nat) (st : St (WlfSt α)) (e : Ev α) (h : st.p.WF) :
    outVals (step (wlfM m) st e).2 = specRun wlfStep (wlfOut m) st.s.vals (accOne st e) ∧
    (step (wlfM m) st e).1.s.vals = (accOne st e).foldl wlfStep st.s.vals := by
  cases e with
  | tick => simp [step, wlfM, Plumb.acts, accOne, specRun]
  | dispose => simp [step, Plumb.dispose, accOne, specRun, outVals_eq_nextVals, nextVals]
  | src k x =>
    by_cases hk : k ∈ st.p.live
    · rw [outVals_step_src _ _ _ _ h hk, step_src_state _ _ _ _ hk]
      simp only [accOne, hk, if_true, specRun, List.append_nil, List.foldl, wlfM]
      cases x with
      | error er => simp [wlfHandler, actEmits, cut, nextVals, wlfOut, wlfStep, Notif.isTerminal]
      | completed =>
        simp only [wlfHandler, wlfOut, wlfStep]
        split <;> simp [actEmits, cut, nextVals, Notif.isTerminal]
      | next v =>
        by_cases hk0 : k = 0
        · simp only [wlfHandler, wlfOut, wlfStep, hk0, if_true, true_and]
          split <;> simp [actEmits, cut, nextVals, Notif.isTerminal]
        · simp [wlfHandler, wlfOut, wlfStep, hk0, actEmits, cut, nextVals]
    · simp [step_src_not_live _ _ _ _ hk, accOne, hk, specRun]

theorem wlfInit_WF {α} (m : Nat) : (wlfInit (α := α) m).p.WF := by
  intro h; simp [wlfInit] at h

/-- the first components of the outputs are primary elements, in order, each at most once -/
theorem wlf_spec_heads {α} (m : Nat) (acc : List (Nat × Notif α)) : ∀ vals : Nat → Option α,
    ((specRun wlfStep (wlfOut m) vals acc).filterMap List.head?).Sublist (valsOf acc 0) := by
  induction acc with
  | nil => intro _; simp [specRun, valsOf]
  | cons a r ih =>
    intro vals
    obtain ⟨k, x⟩ := a
    cases x with
    | error er => rw [valsOf_cons_error]; simpa [specRun, wlfOut, wlfStep] using ih vals
    | completed => rw [valsOf_cons_completed]; simpa [specRun, wlfOut, wlfStep] using ih vals
    | next v =>
      rw [valsOf_cons_next]
      simp only [specRun, List.filterMap_append]
      by_cases hk0 : k = 0
      · simp only [wlfOut, hk0, true_and, wlfStep, if_true]
        split
        · simpa using (ih vals).cons₂ v
        · simpa using (ih vals).cons v
      · simpa [wlfOut, hk0, wlfStep] using ih (upd vals k (some v))

end Comb

namespace Comb

/-! ## fork_join -/

structure FjSpec (α : Type) where
  last : Nat → Option α := fun _ => none
  dn : Nat → Bool := fun _ => false

def fjStep {α} (t : FjSpec α) : Nat × Notif α → FjSpec α
  | (i, .next x) => { t with last := upd t.last i (some x) }
  | (i, .completed) => { t with dn := upd t.dn i true }
  | _ => t

/-- the rule: an error goes out; a completion of a source that never delivered an element completes at once; the completion
that makes all sources complete emits the tuple of last values (if all have one) and completes; nothing else -/
def fjOut {α} (n : Nat) (t : FjSpec α) : Nat × Notif α → List (Notif (List α))
  | (_, .next _) => []
  | (_, .error e) => [.error e]
  | (i, .completed) =>
    if (t.last i).isNone then [.completed]
    else if (List.range n).all (upd t.dn i true) then
      (if (List.range n).all (fun j => (t.last j).isSome) then [.next ((List.range n).filterMap t.last), .completed]
       else [.completed])
    else []

structure FjInv {α} (st : St (FjSt α)) : Prop where
  wf : st.p.WF
  has : ∀ j, st.s.has j = (st.s.vals j).isSome

def fjAbs {α} (s : FjSt α) : FjSpec α := { last := s.vals, dn := s.isDone }

theorem fj_step_inv {α} (n : Nat) (st : St (FjSt α)) (e : Ev α) (h : FjInv st) : FjInv (step (fjM n) st e).1 := by
  have hwf := step_WF (fjM n) st e h.wf
  cases e with
  | tick => exact ⟨hwf, by simpa [step, fjM] using h.has⟩
  | dispose => exact ⟨hwf, by simpa [step] using h.has⟩
  | src k x =>
    by_cases hk : k ∈ st.p.live
    · refine ⟨hwf, ?_⟩
      rw [step_src_state _ _ _ _ hk]
      cases x with
      | next v => intro j; simp only [fjM, fjHandler, upd]; split <;> simp [h.has j]
      | error er => simpa [fjM, fjHandler] using h.has
      | completed =>
        intro j
        have : ((fjHandler n st.s k .completed).1).has j = st.s.has j ∧ ((fjHandler n st.s k .completed).1).vals j = st.s.vals j := by
          simp only [fjHandler]; split
          · exact ⟨rfl, rfl⟩
          · split
            · split <;> exact ⟨rfl, rfl⟩
            · exact ⟨rfl, rfl⟩
        simp only [fjM]; rw [this.1, this.2]; exact h.has j
    · rw [step_src_not_live _ _ _ _ hk]; exact h

theorem cut_two {β} (a b : Notif β) (ha : a.isTerminal = false) (hb : b.isTerminal = true) : cut [a, b] = [a, b] := by
  simp [cut, ha, hb]

theorem fj_step_out {α} (n : Nat) (st : St (FjSt α)) (e : Ev α) (h : FjInv st) :
    emits (step (fjM n) st e).2 = specRun fjStep (fjOut n) (fjAbs st.s) (accOne st e) ∧
    fjAbs (step (fjM n) st e).1.s = (accOne st e).foldl fjStep (fjAbs st.s) := by
  cases e with
  | tick => simp [step, fjM, Plumb.acts, accOne, specRun]
  | dispose => exact ⟨emits_step_dispose _ _, rfl⟩
  | src k x =>
    by_cases hk : k ∈ st.p.live
    · rw [emits_step_src _ _ _ _ h.wf hk, step_src_state _ _ _ _ hk]
      simp only [accOne, hk, if_true, specRun, List.append_nil, List.foldl, fjM]
      cases x with
      | next v => simp [fjHandler, actEmits, cut, fjOut, fjStep, fjAbs]
      | error er => simp [fjHandler, actEmits, cut, fjOut, fjStep, fjAbs, Notif.isTerminal]
      | completed =>
        have hhas : (List.range n).all st.s.has = (List.range n).all (fun j => (st.s.vals j).isSome) :=
          congrArg (fun f => (List.range n).all f) (funext h.has)
        have hk1 : (!st.s.has k) = (st.s.vals k).isNone := by rw [h.has k]; cases st.s.vals k <;> rfl
        refine ⟨?_, ?_⟩
        · simp only [fjHandler, fjOut, fjAbs, hk1, hhas]
          by_cases hA : (st.s.vals k).isNone = true
          · simp only [hA, if_true]; simp [actEmits, cut, Notif.isTerminal]
          · simp only [hA, if_false, Bool.false_eq_true]
            by_cases hB : (List.range n).all (upd st.s.isDone k true) = true
            · simp only [hB, if_true]
              by_cases hC : (List.range n).all (fun j => (st.s.vals j).isSome) = true
              · simp only [hC, if_true]; simp [actEmits, cut, Notif.isTerminal]
              · simp only [hC, if_false, Bool.false_eq_true]; simp [actEmits, cut, Notif.isTerminal]
            · simp only [hB, if_false, Bool.false_eq_true]; simp [actEmits, cut]
        · have : ((fjHandler n st.s k .completed).1).isDone = upd st.s.isDone k true ∧ ((fjHandler n st.s k .completed).1).vals = st.s.vals := by
            simp only [fjHandler]; split
            · exact ⟨rfl, rfl⟩
            · split
              · split <;> exact ⟨rfl, rfl⟩
              · exact ⟨rfl, rfl⟩
          simp only [fjAbs, fjStep, this.1, this.2]
    · simp [step_src_not_live _ _ _ _ hk, accOne, hk, specRun]

theorem fj_init_inv {α} (n : Nat) : FjInv (α := α) (fjInit n) :=
  ⟨by intro h; simp [fjInit, startAll] at h, by intro j; simp [fjInit, startAll]⟩

/-- what the rule remembers as "last value of source k" is the last element it delivered -/
theorem fj_fold_last {α} (k : Nat) (acc : List (Nat × Notif α)) : ∀ t : FjSpec α,
    (acc.foldl fjStep t).last k = ((valsOf acc k).getLast?).or (t.last k) := by
  induction acc with
  | nil => intro t; simp [valsOf]
  | cons a r ih =>
    intro t
    obtain ⟨i, x⟩ := a
    cases x with
    | error er => rw [valsOf_cons_error]; simpa [fjStep] using ih t
    | completed => rw [valsOf_cons_completed]; simpa [fjStep] using ih _
    | next v =>
      rw [valsOf_cons_next, List.foldl_cons, ih]
      by_cases hik : i = k
      · subst hik
        simp only [fjStep, upd, if_true]
        cases hr : valsOf r i with
        | nil => simp
        | cons b bs =>
          obtain ⟨z, hz⟩ : ∃ z, (b :: bs).getLast? = some z := ⟨_, List.getLast?_eq_some_getLast (by simp)⟩
          simp [List.getLast?_cons_cons]
          rw [hz]; rfl
      · simp [fjStep, upd, hik, Ne.symm hik]

end Comb

namespace Comb

/-! ## zip: completion -/

structure ZC {α} (n : Nat) (acc : List (Nat × Notif α)) (ems : List (Notif (List α))) (st : St (ZipSt α)) : Prop where
  cmp : ∀ i, i < n → (st.s.comp i = true ↔ (i, Notif.completed) ∈ acc)
  nd : st.p.done = false → ∀ i, i < n → st.s.comp i = true → st.s.q i ≠ []
  cd : Notif.completed ∈ ems → st.p.done = true
  fin : Notif.completed ∈ ems → ∃ i, i < n ∧ st.s.comp i = true ∧ st.s.q i = []

theorem zc_step {α} (n : Nat) (acc : List (Nat × Notif α)) (ems : List (Notif (List α))) (st : St (ZipSt α))
    (e : Ev α) (hwf : st.p.WF) (hlv : ∀ k, k ∈ st.p.live → k < n) (h : ZC n acc ems st) :
    ZC n (acc ++ accOne st e) (ems ++ emits (step (zipM n) st e).2) (step (zipM n) st e).1 := by
  cases e with
  | tick =>
    have : step (zipM (α := α) n) st .tick = (st, []) := by simp [step, zipM, Plumb.acts]
    simpa [this, accOne] using h
  | dispose =>
    refine ⟨by simpa [accOne, step] using h.cmp, by intro hd; simp [step, Plumb.dispose] at hd, by intro _; rfl, ?_⟩
    intro hc; simp only [emits_step_dispose, List.append_nil] at hc
    simpa [step] using h.fin hc
  | src k x =>
    by_cases hk : k ∈ st.p.live
    · have hnd := not_done_of_live hwf hk
      have hkn := hlv k hk
      have hnc : Notif.completed ∉ ems := fun hc => by have := h.cd hc; rw [hnd] at this; cases this
      have hem := emits_step_src (zipM n) st k x hwf hk
      have hs := step_src_state (zipM n) st k x hk
      have hdone : (step (zipM n) st (.src k x)).1.p.done
          = (actEmits ((zipM n).handler st.s k x).2).any Notif.isTerminal := by
        simp only [step, hk, if_true]
        split
        · simp only [Plumb.act]; split <;> simp [done_acts, hnd]
        · simp [done_acts, hnd]
      cases x with
      | error er =>
        refine ⟨?_, ?_, ?_, ?_⟩
        · intro i hi; rw [hs]; simpa [zipM, zipHandler, accOne, hk] using h.cmp i hi
        · intro hd; rw [hdone] at hd; simp [zipM, zipHandler, actEmits, Notif.isTerminal] at hd
        · intro _; rw [hdone]; simp [zipM, zipHandler, actEmits, Notif.isTerminal]
        · intro hc; rw [hem] at hc
          simp [zipM, zipHandler, actEmits, cut, Notif.isTerminal] at hc
          exact absurd hc hnc
      | completed =>
        refine ⟨?_, ?_, ?_, ?_⟩
        · intro i hi; rw [hs]
          simp only [zipM, zipHandler, accOne, hk, if_true, upd, List.mem_append, List.mem_singleton, Prod.mk.injEq, and_true]
          by_cases hik : i = k
          · simp [hik]
          · simpa [hik] using h.cmp i hi
        · intro hd i hi hci
          rw [hdone] at hd
          rw [hs] at hci ⊢
          simp only [zipM, zipHandler] at hd hci ⊢
          by_cases hq : (st.s.q k).isEmpty = true
          · simp [hq, actEmits, Notif.isTerminal] at hd
          · by_cases hik : i = k
            · subst hik; intro h0; simp [h0] at hq
            · simp only [upd, hik, if_false] at hci; exact h.nd hnd i hi hci
        · intro hc; rw [hem] at hc; rw [hdone]
          simp only [zipM, zipHandler] at hc ⊢
          by_cases hq : (st.s.q k).isEmpty = true
          · simp [hq, actEmits, Notif.isTerminal]
          · simp [hq, actEmits, cut] at hc; exact absurd hc hnc
        · intro hc; rw [hem] at hc; rw [hs]
          simp only [zipM, zipHandler] at hc ⊢
          by_cases hq : (st.s.q k).isEmpty = true
          · exact ⟨k, hkn, by simp [upd], by simpa using hq⟩
          · simp [hq, actEmits, cut] at hc; exact absurd hc hnc
      | next v =>
        by_cases hall : ((List.range n).all (fun j => !(upd st.s.q k (st.s.q k ++ [v]) j).isEmpty)) = true
        · by_cases hfin : ((List.range n).any (fun j => st.s.comp j && ((upd st.s.q k (st.s.q k ++ [v]) j).tail).isEmpty)) = true
          · refine ⟨?_, ?_, ?_, ?_⟩
            · intro i hi; rw [hs]; simpa [zipM, zipHandler, hall, accOne, hk] using h.cmp i hi
            · intro hd; rw [hdone] at hd; simp [zipM, zipHandler, hall, hfin, actEmits, Notif.isTerminal] at hd
            · intro _; rw [hdone]; simp [zipM, zipHandler, hall, hfin, actEmits, Notif.isTerminal]
            · intro _; rw [hs]
              obtain ⟨j, hj, hjc⟩ := List.any_eq_true.mp hfin
              simp only [Bool.and_eq_true] at hjc
              refine ⟨j, List.mem_range.mp hj, by simpa [zipM, zipHandler, hall] using hjc.1, ?_⟩
              have := hjc.2
              simp only [zipM, zipHandler, hall, if_true]
              simpa using this
          · refine ⟨?_, ?_, ?_, ?_⟩
            · intro i hi; rw [hs]; simpa [zipM, zipHandler, hall, accOne, hk] using h.cmp i hi
            · intro _ i hi hci
              rw [hs] at hci ⊢
              simp only [zipM, zipHandler, hall, if_true] at hci ⊢
              intro h0
              apply hfin
              exact List.any_eq_true.mpr ⟨i, List.mem_range.mpr hi, by simp [hci, h0]⟩
            · intro hc; rw [hem] at hc
              simp [zipM, zipHandler, hall, hfin, actEmits, cut, Notif.isTerminal] at hc
              exact absurd hc hnc
            · intro hc; rw [hem] at hc
              simp [zipM, zipHandler, hall, hfin, actEmits, cut, Notif.isTerminal] at hc
              exact absurd hc hnc
        · refine ⟨?_, ?_, ?_, ?_⟩
          · intro i hi; rw [hs]; simpa [zipM, zipHandler, hall, accOne, hk] using h.cmp i hi
          · intro _ i hi hci
            rw [hs] at hci ⊢
            simp only [zipM, zipHandler, hall] at hci ⊢
            have := h.nd hnd i hi (by simpa using hci)
            by_cases hik : i = k
            · subst hik; simp [upd]
            · simpa [upd, hik] using this
          · intro hc; rw [hem] at hc
            simp [zipM, zipHandler, hall, actEmits, cut] at hc
            exact absurd hc hnc
          · intro hc; rw [hem] at hc
            simp [zipM, zipHandler, hall, actEmits, cut] at hc
            exact absurd hc hnc
    · simpa [step_src_not_live _ _ _ _ hk, accOne, hk] using h

end Comb

namespace Comb

theorem zc_run {α} (n : Nat) (es : List (Ev α)) : ∀ (D : Nat → List α) (outs : List (List α))
    (acc : List (Nat × Notif α)) (ems : List (Notif (List α))) (st : St (ZipSt α)),
    ZInv n D outs st → ZC n acc ems st →
    ZC n (acc ++ accepted (zipM n) st es) (ems ++ emits (run (zipM n) st es)) (final (zipM n) st es) := by
  induction es with
  | nil => intro D outs acc ems st _ h; simpa [accepted, final] using h
  | cons e es ih =>
    intro D outs acc ems st hz h
    have h1 := zc_step n acc ems st e hz.wf hz.lv h
    have := ih _ _ _ _ _ (zip_step_inv n D outs st e hz) h1
    simpa [accepted_cons, run_cons, emits_append, final, List.append_assoc] using this

theorem zc_init {α} (n : Nat) : ZC (α := α) n [] [] (zipInit n) :=
  ⟨by intro i _; simp [zipInit, startAll], by intro _ i _ hc; simp [zipInit, startAll] at hc,
   by intro hc; simp at hc, by intro hc; simp at hc⟩

end Comb

namespace Comb

/-! ## nested amb = flattened amb -/

theorem range'_eq_filter_gt (n k : Nat) : List.range' (k + 1) (n - (k + 1)) = (List.range n).filter (fun j => k < j) := by
  induction n with
  | zero => simp
  | succ n ih =>
    rw [List.range_succ, List.filter_append, ← ih]
    by_cases hk : k < n
    · have : n + 1 - (k + 1) = (n - (k + 1)) + 1 := by omega
      rw [this, List.range'_concat]
      simp [hk]; omega
    · have h1 : n + 1 - (k + 1) = 0 := by omega
      have h2 : n - (k + 1) = 0 := by omega
      simp [h1, h2, hk]

/-- climbing through levels that have not chosen yet: each of them chooses "R" and closes its own source -/
theorem ambUp_none {β} (f : Nat) : ∀ (j : Nat) (ch : Nat → Option Bool), (∀ i, j ≤ i → i < j + f → ch i = none) →
    ambUp (β := β) f j ch
      = (fun i => if j ≤ i ∧ i < j + f then some false else ch i, (List.range' j f).map Act.unsub, true) := by
  induction f with
  | zero => intro j ch _; simp [ambUp]; funext i; simp; omega
  | succ f ih =>
    intro j ch h
    have hj : ch j = none := h j (Nat.le_refl _) (by omega)
    have ih' := ih (j + 1) (upd ch j (some false)) (by
      intro i h1 h2
      have : ¬ i = j := by omega
      simp only [upd, this, if_false]; exact h i (by omega) (by omega))
    simp only [ambUp, hj, ih', List.range'_succ, List.map_cons]
    refine Prod.ext ?_ rfl
    funext i
    simp only [upd]
    by_cases h1 : i = j
    · subst h1; simp
    · simp only [h1, if_false]
      by_cases h2 : j + 1 ≤ i ∧ i < j + 1 + f
      · have : j ≤ i ∧ i < j + (f + 1) := by omega
        simp [h2, this]
      · have : ¬ (j ≤ i ∧ i < j + (f + 1)) := by omega
        simp [h2, this]

/-- climbing through levels that already chose "R": forwarded untouched -/
theorem ambUp_false {β} (f : Nat) : ∀ (j : Nat) (ch : Nat → Option Bool), (∀ i, j ≤ i → i < j + f → ch i = some false) →
    ambUp (β := β) f j ch = (ch, [], true) := by
  induction f with
  | zero => intro j ch _; rfl
  | succ f ih =>
    intro j ch h
    have hj : ch j = some false := h j (Nat.le_refl _) (by omega)
    simp only [ambUp, hj]
    exact ih (j + 1) ch (fun i h1 h2 => h i (by omega) (by omega))

/-- the simulation relation: no level has chosen / the winner's level chose its own source and every level above chose "R" -/
def AmbSim (n : Nat) (s1 : AmbNSt) (s2 : AmbSt) : Prop :=
  match s2.choice with
  | none => ∀ j, s1.ch j = none
  | some w => s1.ch w = some true ∧ ∀ j, w < j → j < n → s1.ch j = some false

theorem amb_handler_sim {α} (n : Nat) (s1 : AmbNSt) (s2 : AmbSt) (k : Nat) (x : Notif α) (hk : k < n)
    (hsim : AmbSim n s1 s2) (hw : ∀ w, s2.choice = some w → k = w) :
    (ambNestedHandler n s1 k x).2 = (ambHandler n s2 k x).2 ∧
    AmbSim n (ambNestedHandler n s1 k x).1 (ambHandler n s2 k x).1 := by
  cases hc : s2.choice with
  | none =>
    simp only [AmbSim, hc] at hsim
    have hup := ambUp_none (β := α) (n - (k + 1)) (k + 1) (upd s1.ch k (some true)) (by
      intro i h1 h2
      have : ¬ i = k := by omega
      simp only [upd, this, if_false]; exact hsim i)
    simp only [ambNestedHandler, hsim k, hup, ambHandler, hc, if_true, range'_eq_filter_gt, List.map_append]
    refine ⟨by simp, ?_⟩
    simp only [AmbSim]
    refine ⟨?_, ?_⟩
    · have : ¬ (k + 1 ≤ k ∧ k < k + 1 + (n - (k + 1))) := by omega
      simp [this, upd]
    · intro j h1 h2
      have : k + 1 ≤ j ∧ j < k + 1 + (n - (k + 1)) := by omega
      simp [this]
  | some w =>
    have hkw := hw w hc
    subst hkw
    simp only [AmbSim, hc] at hsim
    have hup := ambUp_false (β := α) (n - (k + 1)) (k + 1) s1.ch (fun i h1 h2 => hsim.2 i (by omega) (by omega))
    simp only [ambNestedHandler, hsim.1, hup, ambHandler, hc, if_true]
    refine ⟨by simp, ?_⟩
    simp only [AmbSim, hc]; exact hsim

/-- two machines whose handlers agree (on the actions) run the plumbing identically -/
theorem step_congr {σ1 σ2 ι β} (m1 : Machine σ1 ι β) (m2 : Machine σ2 ι β) (st1 : St σ1) (st2 : St σ2) (k : Nat) (n : Notif ι)
    (hp : st1.p = st2.p) (ha : (m1.handler st1.s k n).2 = (m2.handler st2.s k n).2) :
    (step m1 st1 (.src k n)).2 = (step m2 st2 (.src k n)).2 ∧ (step m1 st1 (.src k n)).1.p = (step m2 st2 (.src k n)).1.p := by
  simp only [step, hp, ha]
  split
  · split <;> exact ⟨rfl, rfl⟩
  · exact ⟨rfl, hp⟩

theorem amb_nested_run {α} (n : Nat) (es : List (Ev α)) : ∀ (st1 : St AmbNSt) (st2 : St AmbSt),
    st1.p = st2.p → AmbSim n st1.s st2.s → AInv n st2 →
    run (ambNestedM (α := α) n) st1 es = run (ambM (α := α) n) st2 es := by
  induction es with
  | nil => intro _ _ _ _ _; rfl
  | cons e es ih =>
    intro st1 st2 hp hsim hinv
    rw [run_cons, run_cons]
    have hinv' := amb_step_inv n st2 e hinv
    cases e with
    | tick =>
      have e1 : step (ambNestedM (α := α) n) st1 .tick = (st1, []) := by simp [step, ambNestedM, Plumb.acts]
      have e2 : step (ambM (α := α) n) st2 .tick = (st2, []) := by simp [step, ambM, Plumb.acts]
      rw [e1, e2]; simpa using ih st1 st2 hp hsim hinv
    | dispose =>
      have e1 : (step (ambNestedM (α := α) n) st1 .dispose).2 = (step (ambM (α := α) n) st2 .dispose).2 := by
        simp [step, Plumb.dispose, hp]
      rw [e1, ih _ _ (by simp [step, Plumb.dispose]) (by simpa [step] using hsim) hinv']
    | src k x =>
      by_cases hk : k ∈ st2.p.live
      · have hkn := hinv.lt k hk
        have hh := amb_handler_sim (α := α) n st1.s st2.s k x hkn hsim (fun w hw => hinv.ch w hw k hk)
        have hc := step_congr (ambNestedM (α := α) n) (ambM (α := α) n) st1 st2 k x hp hh.1
        rw [hc.1]
        congr 1
        apply ih _ _ hc.2 _ hinv'
        rw [step_src_state _ _ _ _ (hp ▸ hk), step_src_state _ _ _ _ hk]
        exact hh.2
      · have hk1 : k ∉ st1.p.live := hp ▸ hk
        rw [step_src_not_live _ _ _ _ hk1, step_src_not_live _ _ _ _ hk]
        simpa using ih st1 st2 hp hsim hinv

end Comb

import RxProofs.Lemmas.DispHeap
import RxProofs.Lemmas.DispC26A
/-!
# Refinement lemmas: one call of a container class (run to completion in the 1-thread system of `RxModel/Disp.lean`)
versus `Pipe.apply` on the heap `leaves ++ [container]` (C26Heap)
-/
namespace Disp
open Pipe

/-- one thread runs `n` steps -/
def Reach {σ π} (f : σ → π → σ × π) (s s' : Sys σ π) : Prop := ∃ n, s.run f (List.replicate n 0) = s'

theorem Reach.refl {σ π} (f : σ → π → σ × π) (s : Sys σ π) : Reach f s s := ⟨0, rfl⟩

theorem Reach.trans {σ π} {f : σ → π → σ × π} {a b c : Sys σ π} (h1 : Reach f a b) (h2 : Reach f b c) : Reach f a c := by
  obtain ⟨n, hn⟩ := h1
  obtain ⟨m, hm⟩ := h2
  refine ⟨n + m, ?_⟩
  rw [← List.replicate_append_replicate, Sys.run, List.foldl_append]
  simp only [Sys.run] at hn hm
  rw [hn, hm]

theorem Reach.one {σ π} (f : σ → π → σ × π) (sh : σ) (t : π) :
    Reach f ⟨sh, [t]⟩ ⟨(f sh t).1, [(f sh t).2]⟩ := ⟨1, by simp [Sys.run, Sys.step]⟩

/-- outcome of one call as the heap model reports it -/
def resOf : List Ev → List Res
  | [] => []
  | .ret _ :: l => .ok :: resOf l
  | .raised :: l => .rejected :: resOf l
  | _ :: l => resOf l

theorem resOf_append (a b : List Ev) : resOf (a ++ b) = resOf a ++ resOf b := by
  induction a with
  | nil => rfl
  | cons e a ih => cases e <;> simp [resOf, ih]

def bumpAll (c : Nat → Nat) (l : List Nat) : Nat → Nat := l.foldl bump c

theorem bumpAll_pos (c : Nat → Nat) (l : List Nat) (i : Nat) : 0 < bumpAll c l i ↔ (0 < c i ∨ i ∈ l) := by
  induction l generalizing c with
  | nil => simp [bumpAll]
  | cons x l ih =>
    simp only [bumpAll, List.foldl_cons] at ih ⊢
    rw [ih]
    by_cases h : i = x
    · subst h; simp
    · simp [bump, h]

/-- what the rest of a call leaves behind: flags, items unchanged; counters bumped along `l`; exactly one `ret` -/
structure CAfter (s s' : CSh) (l : List Nat) : Prop where
  cnt : s'.cnt = bumpAll s.cnt l
  disp : s'.isDisposed = s.isDisposed
  items : s'.items = s.items
  log : ∃ evs, s'.log = s.log ++ evs ∧ resOf evs = [Res.ok]

theorem c_drain (l : List Nat) (i : Nat) (s : CSh) (r : RV) (p : List COp) :
    ∃ s', Reach cStep ⟨s, [(.pend (i :: l) r, p)]⟩ ⟨s', [(.idle, p)]⟩ ∧ CAfter s s' (i :: l) := by
  induction l generalizing s i with
  | nil =>
    refine ⟨_, Reach.one cStep s _, ?_⟩
    simp only [cStep]
    exact ⟨rfl, rfl, rfl, ⟨_, rfl, by simp [resOf]⟩⟩
  | cons j l ih =>
    obtain ⟨s', hr, ha⟩ := ih j { s with cnt := bump s.cnt i, log := s.log ++ [.disp i] }
    refine ⟨s', Reach.trans (Reach.one cStep s _) (by simpa [cStep] using hr), ?_⟩
    obtain ⟨h1, h2, h3, evs, h4, h5⟩ := ha
    refine ⟨by simpa [bumpAll] using h1, h2, h3, ⟨[.disp i] ++ evs, by simp [h4], by simpa [resOf] using h5⟩⟩

theorem c_out (s : CSh) (ev : Ev) (hev : resOf [ev] = []) (l : List Nat) (r : RV) (p : List COp) :
    ∃ s', Reach cStep ⟨(CSh.out s ev l r p).1, [(CSh.out s ev l r p).2]⟩ ⟨s', [(.idle, p)]⟩ ∧ CAfter s s' l := by
  cases l with
  | nil =>
    refine ⟨_, Reach.refl _ _, ?_⟩
    simp only [CSh.out]
    refine ⟨rfl, rfl, rfl, ⟨[ev, .ret r], rfl, ?_⟩⟩
    have : resOf ([ev] ++ [Ev.ret r]) = [Res.ok] := by rw [resOf_append, hev]; rfl
    simpa using this
  | cons i l =>
    obtain ⟨s', hr, h1, h2, h3, evs, h4, h5⟩ := c_drain l i { s with log := s.log ++ [ev] } r p
    refine ⟨s', by simpa [CSh.out] using hr, h1, h2, h3, ⟨[ev] ++ evs, by simp [h4], ?_⟩⟩
    rw [resOf_append, hev, h5]; rfl


def HeapRel (K : Kind) (k : Nat) (dis : Bool) (held : List Nat) (cnt : Nat → Nat) (h : Heap) : Prop :=
  ∃ co, h = mkH K k (fun i => decide (0 < cnt i)) dis co ∧ (∀ x ∈ co, x < k) ∧
    (dis = false → co = held) ∧ (dis = true → held = [] ∧ ∀ x ∈ co, 0 < cnt x)

theorem mkH_rel (K : Kind) (k : Nat) (cnt' : Nat → Nat) (df : Nat → Bool) (cd : Bool) (co : List Nat)
    (h : ∀ j, j < k → (df j = true ↔ 0 < cnt' j)) :
    mkH K k df cd co = mkH K k (fun i => decide (0 < cnt' i)) cd co := by
  apply mkH_congr
  intro j hj
  have := h j hj
  cases hdf : df j <;> simp_all

def cOk (k : Nat) : COp → Prop
  | .add i => i < k
  | .remove i => i < k
  | .clear => True
  | .dispose => True
  | _ => False

def cToPipe (k : Nat) : COp → Pipe.Op
  | .add i => .add k i
  | .remove i => .remove k i
  | .clear => .clear k
  | _ => .dispose k

theorem c_op (k : Nat) (s : CSh) (op : COp) (p : List COp) (hop : cOk k op) (h : Heap)
    (hr : HeapRel .comp k s.isDisposed s.items s.cnt h) :
    ∃ s', Reach cStep ⟨s, [(.idle, op :: p)]⟩ ⟨s', [(.idle, p)]⟩ ∧
      HeapRel .comp k s'.isDisposed s'.items s'.cnt (Pipe.apply h (cToPipe k op)).1 ∧
      ∃ evs, s'.log = s.log ++ evs ∧ resOf evs = [(Pipe.apply h (cToPipe k op)).2] := by
  obtain ⟨co, rfl, hco, hlive, hdead⟩ := hr
  cases op with
  | add i =>
    simp only [cOk] at hop
    have hco' : ∀ x ∈ co ++ [i], x < k := by
      intro x hx; rcases List.mem_append.mp hx with h | h
      · exact hco x h
      · simp at h; omega
    simp only [cToPipe]
    rw [apply_add k _ _ co i hco hop]
    cases hd : s.isDisposed
    · obtain ⟨s', hreach, ha⟩ := c_out { s with items := s.items ++ [i], given := bump s.given i } (.lock 0) rfl [] .unit p
      refine ⟨s', Reach.trans (Reach.one cStep s _) (by simpa [cStep, hd] using hreach), ?_, ha.log⟩
      refine ⟨co ++ [i], ?_, hco', ?_, ?_⟩
      · rw [ha.disp, ha.cnt]
        dsimp only; (try simp only [hd]); apply mkH_rel; intro j _; simp [bumpAll]
      · intro _; rw [ha.items, hlive hd]
      · intro hx; rw [ha.disp] at hx; simp [hd] at hx
    · obtain ⟨s', hreach, ha⟩ := c_out { s with given := bump s.given i } (.lock 0) rfl [i] .unit p
      refine ⟨s', Reach.trans (Reach.one cStep s _) (by simpa [cStep, hd] using hreach), ?_, ha.log⟩
      have hd' := (hdead hd)
      refine ⟨co ++ [i], ?_, hco', ?_, ?_⟩
      · rw [ha.disp, ha.cnt]
        dsimp only; (try simp only [hd]); apply mkH_rel; intro j _
        rw [bumpAll_pos]
        simp only [Bool.true_and, Bool.or_eq_true, decide_eq_true_eq, List.contains_eq_mem, List.mem_append]
        constructor
        · rintro (h | h | h)
          · exact Or.inl h
          · exact Or.inl (hd'.2 j h)
          · exact Or.inr h
        · rintro (h | h)
          · exact Or.inl h
          · exact Or.inr (Or.inr h)
      · intro hx; rw [ha.disp] at hx; simp [hd] at hx
      · intro _
        refine ⟨by rw [ha.items]; exact hd'.1, ?_⟩
        intro x hx
        rw [ha.cnt, bumpAll_pos]
        rcases List.mem_append.mp hx with h | h
        · exact Or.inl (hd'.2 x h)
        · exact Or.inr h
  | remove i =>
    simp only [cOk] at hop
    simp only [cToPipe]
    cases hd : s.isDisposed
    · have hitems := hlive hd
      by_cases hmem : i ∈ s.items
      · have hco' : ∀ x ∈ co.erase i, x < k := fun x hx => hco x (List.mem_of_mem_erase hx)
        rw [apply_remove_hit k _ co i hco hop (by rw [hitems]; exact hmem)]
        obtain ⟨s', hreach, ha⟩ := c_out { s with items := s.items.erase i, log := s.log ++ [.rd false] } (.lock 0) rfl [i] (.bool true) p
        refine ⟨s', Reach.trans (Reach.one cStep s _) (Reach.trans (by simpa [cStep, hd] using Reach.one cStep _ _)
          (by simpa [cStep, hd, hmem] using hreach)), ?_, ?_⟩
        · refine ⟨co.erase i, ?_, hco', ?_, ?_⟩
          · rw [ha.disp, ha.cnt]
            dsimp only; (try simp only [hd]); apply mkH_rel; intro j _
            rw [bumpAll_pos]
            simp
          · intro _; rw [ha.items, hitems]
          · intro hx; rw [ha.disp] at hx; simp [hd] at hx
        · obtain ⟨evs, h1, h2⟩ := ha.log
          refine ⟨[.rd false] ++ evs, ?_, ?_⟩
          · simp [h1]
          · rw [resOf_append, h2]; rfl
      · rw [apply_remove_miss k _ false co i hco (Or.inr (by rw [hitems]; exact hmem))]
        obtain ⟨s', hreach, ha⟩ := c_out { s with log := s.log ++ [.rd false] } (.lock 0) rfl [] (.bool false) p
        refine ⟨s', Reach.trans (Reach.one cStep s _) (Reach.trans (by simpa [cStep, hd] using Reach.one cStep _ _)
          (by simpa [cStep, hd, hmem] using hreach)), ?_, ?_⟩
        · refine ⟨co, ?_, hco, ?_, ?_⟩
          · rw [ha.disp, ha.cnt]
            dsimp only; (try simp only [hd]); apply mkH_rel; intro j _; simp [bumpAll]
          · intro _; rw [ha.items, hitems]
          · intro hx; rw [ha.disp] at hx; simp [hd] at hx
        · obtain ⟨evs, h1, h2⟩ := ha.log
          refine ⟨[.rd false] ++ evs, ?_, ?_⟩
          · simp [h1]
          · rw [resOf_append, h2]; rfl
    · have hd' := hdead hd
      rw [apply_remove_miss k _ true co i hco (Or.inl rfl)]
      obtain ⟨s', hreach, ha⟩ := c_out s (.rd true) rfl [] (.bool false) p
      refine ⟨s', Reach.trans (Reach.one cStep s _) (by simpa [cStep, hd] using hreach), ?_, ha.log⟩
      refine ⟨co, ?_, hco, ?_, ?_⟩
      · rw [ha.disp, ha.cnt]
        dsimp only; (try simp only [hd]); apply mkH_rel; intro j _
        simp [bumpAll]
        intro hj; exact hd'.2 j hj
      · intro hx; rw [ha.disp] at hx; simp [hd] at hx
      · intro _; rw [ha.items, ha.cnt]; exact ⟨hd'.1, fun x hx => by simpa [bumpAll] using hd'.2 x hx⟩
  | clear =>
    simp only [cToPipe]
    rw [apply_clear k _ _ co hco]
    obtain ⟨s', hreach, ha⟩ := c_out { s with items := [] } (.lock 0) rfl s.items .unit p
    refine ⟨s', Reach.trans (Reach.one cStep s _) (by simpa [cStep] using hreach), ?_, ha.log⟩
    cases hd : s.isDisposed
    · have hitems := hlive hd
      refine ⟨[], ?_, by simp, ?_, ?_⟩
      · rw [ha.disp, ha.cnt]
        dsimp only; (try simp only [hd]); apply mkH_rel; intro j _
        rw [bumpAll_pos, hitems]; simp
      · intro _; rw [ha.items]
      · intro hx; rw [ha.disp] at hx; simp [hd] at hx
    · have hd' := hdead hd
      refine ⟨co, ?_, hco, ?_, ?_⟩
      · rw [ha.disp, ha.cnt]
        dsimp only; (try simp only [hd]); apply mkH_rel; intro j _
        rw [bumpAll_pos, hd'.1]; simp
        intro hj; exact hd'.2 j hj
      · intro hx; rw [ha.disp] at hx; simp [hd] at hx
      · intro _; rw [ha.items, ha.cnt]
        exact ⟨rfl, fun x hx => by rw [bumpAll_pos]; exact Or.inl (hd'.2 x hx)⟩
  | dispose =>
    simp only [cToPipe]
    rw [apply_dispose .comp (Or.inl rfl) k _ _ co hco]
    cases hd : s.isDisposed
    · have hitems := hlive hd
      obtain ⟨s', hreach, ha⟩ := c_out { s with isDisposed := true, items := [], dcalls := s.dcalls + 1, log := s.log ++ [.rd false] } (.lock 0) rfl s.items .unit p
      refine ⟨s', Reach.trans (Reach.one cStep s _) (Reach.trans (by simpa [cStep, hd] using Reach.one cStep _ _)
        (by simpa [cStep] using hreach)), ?_, ?_⟩
      · refine ⟨co, ?_, hco, ?_, ?_⟩
        · rw [ha.disp, ha.cnt]
          dsimp only; (try simp only [hd]); apply mkH_rel; intro j _
          rw [bumpAll_pos, hitems]; simp
        · intro hx; rw [ha.disp] at hx; simp [hd] at hx
        · intro _; rw [ha.items, ha.cnt]
          exact ⟨rfl, fun x hx => by rw [bumpAll_pos]; exact Or.inr (by rw [← hitems]; exact hx)⟩
      · obtain ⟨evs, h1, h2⟩ := ha.log
        refine ⟨[.rd false] ++ evs, ?_, ?_⟩
        · simp [h1]
        · rw [resOf_append, h2]; rfl
    · have hd' := hdead hd
      obtain ⟨s', hreach, ha⟩ := c_out { s with dcalls := s.dcalls + 1 } (.rd true) rfl [] .unit p
      refine ⟨s', Reach.trans (Reach.one cStep s _) (by simpa [cStep, hd] using hreach), ?_, ha.log⟩
      refine ⟨co, ?_, hco, ?_, ?_⟩
      · rw [ha.disp, ha.cnt]
        dsimp only; (try simp only [hd]); apply mkH_rel; intro j _
        simp [bumpAll]
        intro hj; exact hd'.2 j hj
      · intro hx; rw [ha.disp] at hx; simp [hd] at hx
      · intro _; rw [ha.items, ha.cnt]; exact ⟨hd'.1, fun x hx => by simpa [bumpAll] using hd'.2 x hx⟩
  | len => exact absurd hop (by simp [cOk])
  | contains i => exact absurd hop (by simp [cOk])


/-- a whole history on a CompositeDisposable, call by call -/
theorem c_hist (k : Nat) (ops : List COp) (hops : ∀ op ∈ ops, cOk k op) (s : CSh) (h : Heap)
    (hr : HeapRel .comp k s.isDisposed s.items s.cnt h) :
    ∃ s', Reach cStep ⟨s, [(.idle, ops)]⟩ ⟨s', [(.idle, [])]⟩ ∧
      HeapRel .comp k s'.isDisposed s'.items s'.cnt (Pipe.run h (ops.map (cToPipe k))) ∧
      ∃ evs, s'.log = s.log ++ evs ∧ resOf evs = Pipe.runRes h (ops.map (cToPipe k)) := by
  induction ops generalizing s h with
  | nil => exact ⟨s, Reach.refl _ _, hr, [], by simp, rfl⟩
  | cons op ops ih =>
    obtain ⟨s1, hreach1, hr1, evs1, hl1, hres1⟩ := c_op k s op ops (hops op (by simp)) h hr
    obtain ⟨s2, hreach2, hr2, evs2, hl2, hres2⟩ := ih (fun o ho => hops o (by simp [ho])) s1 _ hr1
    refine ⟨s2, Reach.trans hreach1 hreach2, by simpa [Pipe.run] using hr2, evs1 ++ evs2, by simp [hl2, hl1], ?_⟩
    rw [resOf_append, hres1, hres2]; rfl

/-! ### Serial / SingleAssignment (fixed) / MultipleAssignment -/

structure AAfter (s s' : ASh) (l : List Nat) : Prop where
  cnt : s'.cnt = bumpAll s.cnt l
  disp : s'.isDisposed = s.isDisposed
  current : s'.current = s.current
  log : ∃ evs, s'.log = s.log ++ evs ∧ resOf evs = [Res.ok]

theorem a_pend (f : ASh → ATh → ASh × ATh) (hf : IsAStep f) (s : ASh) (l : List Nat) (r : RV) (p : List AOp) :
    f s (.pend l r, p) = aCommon s (.pend l r, p) := by
  rcases hf with rfl | rfl | rfl <;> rfl

theorem a_drain (f : ASh → ATh → ASh × ATh) (hf : IsAStep f) (l : List Nat) (i : Nat) (s : ASh) (r : RV) (p : List AOp) :
    ∃ s', Reach f ⟨s, [(.pend (i :: l) r, p)]⟩ ⟨s', [(.idle, p)]⟩ ∧ AAfter s s' (i :: l) := by
  induction l generalizing s i with
  | nil =>
    have h1 := Reach.one f s (.pend [i] r, p)
    rw [a_pend f hf] at h1
    refine ⟨_, by simpa [aCommon] using h1, ?_⟩
    exact ⟨rfl, rfl, rfl, ⟨_, rfl, by simp [resOf]⟩⟩
  | cons j l ih =>
    obtain ⟨s', hr, ha⟩ := ih j { s with cnt := bump s.cnt i, log := s.log ++ [.disp i] }
    have h0 := Reach.one f s (.pend (i :: j :: l) r, p)
    rw [a_pend f hf] at h0
    refine ⟨s', Reach.trans (by simpa [aCommon] using h0) hr, ?_⟩
    obtain ⟨h1, h2, h3, evs, h4, h5⟩ := ha
    refine ⟨by simpa [bumpAll] using h1, h2, h3, ⟨[.disp i] ++ evs, by simp [h4], by simpa [resOf] using h5⟩⟩

theorem a_out (f : ASh → ATh → ASh × ATh) (hf : IsAStep f) (s : ASh) (ev : Ev) (hev : resOf [ev] = []) (l : List Nat)
    (r : RV) (p : List AOp) :
    ∃ s', Reach f ⟨(ASh.out s ev l r p).1, [(ASh.out s ev l r p).2]⟩ ⟨s', [(.idle, p)]⟩ ∧ AAfter s s' l := by
  cases l with
  | nil =>
    refine ⟨_, Reach.refl _ _, ?_⟩
    simp only [ASh.out]
    refine ⟨rfl, rfl, rfl, ⟨[ev, .ret r], rfl, ?_⟩⟩
    have : resOf ([ev] ++ [Ev.ret r]) = [Res.ok] := by rw [resOf_append, hev]; rfl
    simpa using this
  | cons i l =>
    obtain ⟨s', hr, h1, h2, h3, evs, h4, h5⟩ := a_drain f hf l i { s with log := s.log ++ [ev] } r p
    refine ⟨s', by simpa [ASh.out] using hr, h1, h2, h3, ⟨[ev] ++ evs, by simp [h4], ?_⟩⟩
    rw [resOf_append, hev, h5]; rfl

def aOk (k : Nat) : AOp → Prop
  | .set i => i < k
  | .dispose => True
  | .get => False

def aToPipe (k : Nat) : AOp → Pipe.Op
  | .set i => .assign k i
  | _ => .dispose k

/-- the heap kind of each of the three classes -/
def AKind (f : ASh → ATh → ASh × ATh) (K : Kind) : Prop :=
  (f = serStep ∧ K = .serial) ∨ (f = madStep ∧ K = .multi) ∨ (f = sadStep ∧ K = .single)

theorem AKind.isA {f K} (h : AKind f K) : IsAStep f := by
  rcases h with ⟨h, _⟩ | ⟨h, _⟩ | ⟨h, _⟩ <;> simp [IsAStep, h]

theorem AKind.isCont {f K} (h : AKind f K) : IsCont K := by
  rcases h with ⟨_, h⟩ | ⟨_, h⟩ | ⟨_, h⟩ <;> simp [IsCont, h]

theorem a_dispose_step (f : ASh → ATh → ASh × ATh) (hf : IsAStep f) (s : ASh) (p : List AOp) :
    f s (.idle, .dispose :: p) = aCommon s (.idle, .dispose :: p) := by
  rcases hf with rfl | rfl | rfl <;> rfl

theorem a_op (f : ASh → ATh → ASh × ATh) (K : Kind) (hfK : AKind f K) (k : Nat) (s : ASh) (op : AOp) (p : List AOp)
    (hop : aOk k op) (h : Heap) (hr : HeapRel K k s.isDisposed s.current.toList s.cnt h) :
    ∃ s', Reach f ⟨s, [(.idle, op :: p)]⟩ ⟨s', [(.idle, p)]⟩ ∧
      HeapRel K k s'.isDisposed s'.current.toList s'.cnt (Pipe.apply h (aToPipe k op)).1 ∧
      ∃ evs, s'.log = s.log ++ evs ∧ resOf evs = [(Pipe.apply h (aToPipe k op)).2] := by
  obtain ⟨co, rfl, hco, hlive, hdead⟩ := hr
  have hf := hfK.isA
  have hKc := hfK.isCont
  cases op with
  | get => exact absurd hop (by simp [aOk])
  | dispose =>
    simp only [aToPipe]
    rw [apply_dispose K hKc k _ _ co hco]
    cases hd : s.isDisposed
    · have hheld := hlive hd
      obtain ⟨s', hreach, ha⟩ := a_out f hf { s with isDisposed := true, current := none, tookSome := s.tookSome || s.current.isSome, dcalls := s.dcalls + 1 } (.lock 0) rfl s.current.toList .unit p
      refine ⟨s', Reach.trans (Reach.one f s _) (by rw [a_dispose_step f hf]; simpa [aCommon, hd] using hreach), ?_, ha.log⟩
      refine ⟨co, ?_, hco, ?_, ?_⟩
      · rw [ha.disp, ha.cnt]
        dsimp only; apply mkH_rel; intro j _
        rw [bumpAll_pos, hheld]; simp
      · intro hx; rw [ha.disp] at hx; simp at hx
      · intro _; rw [ha.current, ha.cnt]
        exact ⟨rfl, fun x hx => by rw [bumpAll_pos]; exact Or.inr (by rw [← hheld]; exact hx)⟩
    · have hd' := hdead hd
      obtain ⟨s', hreach, ha⟩ := a_out f hf { s with dcalls := s.dcalls + 1 } (.lock 0) rfl [] .unit p
      refine ⟨s', Reach.trans (Reach.one f s _) (by rw [a_dispose_step f hf]; simpa [aCommon, hd] using hreach), ?_, ha.log⟩
      refine ⟨co, ?_, hco, ?_, ?_⟩
      · rw [ha.disp, ha.cnt]
        dsimp only; simp only [hd]; apply mkH_rel; intro j _
        simp [bumpAll]
        intro hj; exact hd'.2 j hj
      · intro hx; rw [ha.disp] at hx; simp [hd] at hx
      · intro _; rw [ha.current, ha.cnt]; exact ⟨hd'.1, fun x hx => by simpa [bumpAll] using hd'.2 x hx⟩
  | set i =>
    simp only [aOk] at hop
    simp only [aToPipe]
    have hco' : ∀ x ∈ co ++ [i], x < k := by
      intro x hx; rcases List.mem_append.mp hx with h | h
      · exact hco x h
      · simp at h; omega
    cases hd : s.isDisposed
    · have hheld := hlive hd
      rcases hfK with ⟨rfl, rfl⟩ | ⟨rfl, rfl⟩ | ⟨rfl, rfl⟩
      · -- Serial: the previous item is disposed
        rw [apply_assign_serial k _ co i hco hop]
        obtain ⟨s', hreach, ha⟩ := a_out serStep hf { s with current := some i, given := bump s.given i, accepted := s.accepted + 1 } (.lock 0) rfl s.current.toList .unit p
        refine ⟨s', Reach.trans (Reach.one serStep s _) (by simpa [serStep, hd] using hreach), ?_, ha.log⟩
        refine ⟨[i], ?_, by simp; omega, ?_, ?_⟩
        · rw [ha.disp, ha.cnt]
          dsimp only; simp only [hd]; apply mkH_rel; intro j _
          rw [bumpAll_pos, hheld]; simp
        · intro _; rw [ha.current]; rfl
        · intro hx; rw [ha.disp] at hx; simp [hd] at hx
      · -- MultipleAssignment: the previous item is dropped
        rw [apply_assign_multi k _ co i hop]
        have hstep : ∃ s1 : ASh, madStep s (.idle, .set i :: p) = ASh.out s1 (.lock 0) [] .unit p ∧ s1.cnt = s.cnt ∧
            s1.isDisposed = s.isDisposed ∧ s1.current = some i ∧ s1.log = s.log := by
          simp only [madStep, hd, Bool.false_eq_true, if_false]
          exact ⟨_, rfl, rfl, rfl, rfl, rfl⟩
        obtain ⟨s1, hs1, e1, e2, e3, e4⟩ := hstep
        obtain ⟨s', hreach, ha⟩ := a_out madStep hf s1 (.lock 0) rfl [] .unit p
        refine ⟨s', Reach.trans (Reach.one madStep s _) (by rw [hs1]; exact hreach), ?_, by rw [← e4]; exact ha.log⟩
        refine ⟨[i], ?_, by simp; omega, ?_, ?_⟩
        · rw [ha.disp, ha.cnt, e1, e2]
          simp only [hd]; apply mkH_rel; intro j _
          simp [bumpAll]
        · intro _; rw [ha.current, e3]; rfl
        · intro hx; rw [ha.disp, e2] at hx; simp [hd] at hx
      · -- SingleAssignment (fixed): stored if unassigned, rejected otherwise
        cases hc : s.current with
        | none =>
          have hco0 : co = [] := by rw [hheld, hc]; rfl
          subst hco0
          rw [apply_assign_single_empty k _ i hop]
          obtain ⟨s', hreach, ha⟩ := a_out sadStep hf { s with current := some i, given := bump s.given i, accepted := s.accepted + 1 } (.lock 0) rfl [] .unit p
          refine ⟨s', Reach.trans (Reach.one sadStep s _) (by simpa [sadStep, hd, hc] using hreach), ?_, ha.log⟩
          refine ⟨[i], ?_, by simp; omega, ?_, ?_⟩
          · rw [ha.disp, ha.cnt]
            dsimp only; simp only [hd]; apply mkH_rel; intro j _
            simp [bumpAll]
          · intro _; rw [ha.current]; rfl
          · intro hx; rw [ha.disp] at hx; simp [hd] at hx
        | some c =>
          have hco1 : co = [c] := by rw [hheld, hc]; rfl
          subst hco1
          rw [apply_assign_single_full k _ c [] i hco]
          refine ⟨{ s with rej := bump s.rej i, log := s.log ++ [.lock 0, .raised] },
            by simpa [sadStep, hc] using Reach.one sadStep s (.idle, .set i :: p), ?_, ⟨[.lock 0, .raised], rfl, rfl⟩⟩
          refine ⟨[c], ?_, hco, ?_, ?_⟩
          · simp only [hd]
          · intro _; simp [hc]
          · intro hx; simp [hd] at hx
    · -- assigned after the disposal: disposed on the spot (all three classes)
      have hd' := hdead hd
      have hK3 : K = .serial ∨ K = .single ∨ K = .multi := by
        rcases hfK with ⟨_, h⟩ | ⟨_, h⟩ | ⟨_, h⟩ <;> simp [h]
      rw [apply_assign_dead K hK3 k _ co i hco hop]
      have hcur : s.current = none := by
        have := hd'.1; cases hc : s.current <;> simp_all
      have hstep : ∃ s1 : ASh, f s (.idle, .set i :: p) = ASh.out s1 (.lock 0) [i] .unit p ∧ s1.cnt = s.cnt ∧
          s1.isDisposed = s.isDisposed ∧ s1.current = s.current ∧ s1.log = s.log := by
        rcases hfK with ⟨rfl, _⟩ | ⟨rfl, _⟩ | ⟨rfl, _⟩
        · exact ⟨{ s with given := bump s.given i }, by simp [serStep, hd], rfl, rfl, rfl, rfl⟩
        · exact ⟨{ s with given := bump s.given i }, by simp [madStep, hd], rfl, rfl, rfl, rfl⟩
        · exact ⟨{ s with given := bump s.given i }, by simp [sadStep, hd, hcur], rfl, rfl, rfl, rfl⟩
      obtain ⟨s1, hs1, e1, e2, e3, e4⟩ := hstep
      obtain ⟨s', hreach, ha⟩ := a_out f hf s1 (.lock 0) rfl [i] .unit p
      refine ⟨s', Reach.trans (Reach.one f s _) (by rw [hs1]; exact hreach), ?_, by rw [← e4]; exact ha.log⟩
      refine ⟨co ++ [i], ?_, hco', ?_, ?_⟩
      · rw [ha.disp, ha.cnt, e1, e2]
        simp only [hd]; apply mkH_rel; intro j _
        rw [bumpAll_pos]
        simp only [Bool.or_eq_true, decide_eq_true_eq, List.contains_eq_mem, List.mem_append]
        constructor
        · rintro (h | h | h)
          · exact Or.inl h
          · exact Or.inl (hd'.2 j h)
          · exact Or.inr h
        · rintro (h | h)
          · exact Or.inl h
          · exact Or.inr (Or.inr h)
      · intro hx; rw [ha.disp, e2] at hx; simp [hd] at hx
      · intro _
        refine ⟨by rw [ha.current, e3]; exact hd'.1, ?_⟩
        intro x hx
        rw [ha.cnt, e1, bumpAll_pos]
        rcases List.mem_append.mp hx with h | h
        · exact Or.inl (hd'.2 x h)
        · exact Or.inr h

theorem a_hist (f : ASh → ATh → ASh × ATh) (K : Kind) (hfK : AKind f K) (k : Nat) (ops : List AOp)
    (hops : ∀ op ∈ ops, aOk k op) (s : ASh) (h : Heap) (hr : HeapRel K k s.isDisposed s.current.toList s.cnt h) :
    ∃ s', Reach f ⟨s, [(.idle, ops)]⟩ ⟨s', [(.idle, [])]⟩ ∧
      HeapRel K k s'.isDisposed s'.current.toList s'.cnt (Pipe.run h (ops.map (aToPipe k))) ∧
      ∃ evs, s'.log = s.log ++ evs ∧ resOf evs = Pipe.runRes h (ops.map (aToPipe k)) := by
  induction ops generalizing s h with
  | nil => exact ⟨s, Reach.refl _ _, hr, [], by simp, rfl⟩
  | cons op ops ih =>
    obtain ⟨s1, hreach1, hr1, evs1, hl1, hres1⟩ := a_op f K hfK k s op ops (hops op (by simp)) h hr
    obtain ⟨s2, hreach2, hr2, evs2, hl2, hres2⟩ := ih (fun o ho => hops o (by simp [ho])) s1 _ hr1
    refine ⟨s2, Reach.trans hreach1 hreach2, by simpa [Pipe.run] using hr2, evs1 ++ evs2, by simp [hl2, hl1], ?_⟩
    rw [resOf_append, hres1, hres2]; rfl

end Disp

import RxModel.ThrTramp
import RxProofs.Lemmas.ThrList
namespace Thr.Tramp

def key (it : Item) : Int × Nat := (it.due, it.seq)

theorem enqueue_eq (q : List Item) (n : Item) :
    enqueue q n = q.takeWhile (fun x => decide (x.due ≤ n.due)) ++ n :: q.dropWhile (fun x => decide (x.due ≤ n.due)) := by
  induction q with
  | nil => rfl
  | cons x xs ih =>
    simp only [enqueue]
    by_cases h : x.due ≤ n.due
    · simp [h, ih]
    · simp [h]

theorem sorted_dropWhile_gt (q : List Item) (d : Int) (hq : q.Pairwise (fun a b => a.due ≤ b.due)) :
    ∀ x ∈ q.dropWhile (fun x => decide (x.due ≤ d)), d < x.due := by
  induction q with
  | nil => simp
  | cons x xs ih =>
    simp only [List.pairwise_cons] at hq
    by_cases h : x.due ≤ d
    · simp [h]; exact ih hq.2
    · simp [h]
      refine ⟨by omega, ?_⟩
      intro y hy; have := hq.1 y hy; omega

theorem takeWhile_le (q : List Item) (d : Int) : ∀ x ∈ q.takeWhile (fun x => decide (x.due ≤ d)), x.due ≤ d := by
  induction q with
  | nil => simp
  | cons y ys ih =>
    intro x hx
    by_cases h : y.due ≤ d
    · simp [List.takeWhile_cons, h] at hx
      rcases hx with rfl | hx
      · exact h
      · exact ih x hx
    · simp [List.takeWhile_cons, h] at hx

theorem enqueue_sorted (q : List Item) (n : Item) (hq : q.Pairwise (fun a b => a.due ≤ b.due)) :
    (enqueue q n).Pairwise (fun a b => a.due ≤ b.due) := by
  rw [enqueue_eq]
  have hsplit := List.takeWhile_append_dropWhile (p := fun x : Item => decide (x.due ≤ n.due)) (l := q)
  have hq' := hq
  rw [← hsplit] at hq'
  rw [List.pairwise_append] at hq' ⊢
  refine ⟨hq'.1, ?_, ?_⟩
  · rw [List.pairwise_cons]
    refine ⟨?_, hq'.2.1⟩
    intro y hy; have := sorted_dropWhile_gt q n.due hq y hy; omega
  · intro a ha b hb
    simp only [List.mem_cons] at hb
    rcases hb with rfl | hb
    · exact takeWhile_le q _ a ha
    · exact hq'.2.2 a ha b hb

/-- inserting `n` into the middle of the last segment: pairwise facts for a relation `R`. -/
theorem pairwise_enqueue {β} (R : β → β → Prop) (f : Item → β) (A : List β) (q : List Item) (n : Item)
    (hq : q.Pairwise (fun a b => a.due ≤ b.due))
    (h : (A ++ q.map f).Pairwise R)
    (hA : ∀ a ∈ A, R a (f n))
    (hle : ∀ x ∈ q, x.due ≤ n.due → R (f x) (f n))
    (hgt : ∀ x ∈ q, n.due < x.due → R (f n) (f x)) :
    (A ++ (enqueue q n).map f).Pairwise R := by
  rw [enqueue_eq]
  have hsplit := List.takeWhile_append_dropWhile (p := fun x : Item => decide (x.due ≤ n.due)) (l := q)
  rw [← hsplit] at h
  simp only [List.map_append, List.map_cons, List.pairwise_append, List.pairwise_cons, List.mem_append, List.mem_cons,
    List.mem_map, forall_exists_index, and_imp] at h ⊢
  obtain ⟨hA0, ⟨hT, hD, hTD⟩, hAq⟩ := h
  have mT : ∀ x, x ∈ q.takeWhile (fun x => decide (x.due ≤ n.due)) → x ∈ q := fun x hx => (List.takeWhile_sublist _).subset hx
  have mD : ∀ x, x ∈ q.dropWhile (fun x => decide (x.due ≤ n.due)) → x ∈ q := fun x hx => (List.dropWhile_sublist _).subset hx
  refine ⟨hA0, ⟨hT, ⟨?_, hD⟩, ?_⟩, ?_⟩
  · intro b x hx hb; subst hb
    exact hgt x (mD x hx) (sorted_dropWhile_gt q n.due hq x hx)
  · intro a x hx ha b hb; subst ha
    rcases hb with rfl | ⟨y, hy, rfl⟩
    · exact hle x (mT x hx) (takeWhile_le q _ x hx)
    · exact hTD _ x hx rfl _ y hy rfl
  · intro a ha b hb
    rcases hb with ⟨y, hy, rfl⟩ | rfl | ⟨y, hy, rfl⟩
    · exact hAq a ha _ (Or.inl ⟨y, hy, rfl⟩)
    · exact hA a ha
    · exact hAq a ha _ (Or.inr ⟨y, hy, rfl⟩)

theorem mem_enqueue (q : List Item) (n x : Item) : x ∈ enqueue q n ↔ x = n ∨ x ∈ q := by
  rw [enqueue_eq]
  have hsplit := List.takeWhile_append_dropWhile (p := fun x : Item => decide (x.due ≤ n.due)) (l := q)
  constructor
  · intro h
    simp only [List.mem_append, List.mem_cons] at h
    rcases h with h | h | h
    · right; exact (List.takeWhile_sublist _).subset h
    · left; exact h
    · right; exact (List.dropWhile_sublist _).subset h
  · intro h
    rcases h with h | h
    · simp [h]
    · rw [← hsplit] at h
      simp only [List.mem_append, List.mem_cons] at h ⊢
      rcases h with h | h
      · left; exact h
      · right; right; exact h

def wb : List Ev → Option (Option Nat)
  | [] => some none
  | .start a _ _ _ :: rest =>
    match wb rest with
    | some none => some (some a)
    | _ => none
  | .fin b :: rest =>
    match wb rest with
    | some (some a) => if a = b then some none else none
    | _ => none
  | .raised b :: rest =>
    match wb rest with
    | some (some a) => if a = b then some none else none
    | _ => none
  | _ :: rest => wb rest

def isMain : Frame → Bool
  | .act none _ => true
  | .enq none _ _ => true
  | _ => false

/-- the possible shapes of the call stack, with the value `idle` must have. -/
inductive Shape : Bool → List Frame → Option Nat → Prop where
  | nil : Shape true [] none
  | main (m) : isMain m = true → Shape true [m] none
  | drain (ph ready ops) : (ph ≠ .exec → ready = []) → Shape false [.drain ph ready, .act none ops] none
  | inAct (i ops ready mops) : Shape false [.act (some i) ops, .drain .exec ready, .act none mops] (some i)
  | inEnq (i it ops ready mops) : Shape false [.enq (some i) it ops, .drain .exec ready, .act none mops] (some i)

structure Inv1 (s : St) : Prop where
  shape : ∃ o, Shape s.tr.idle s.th.stack o ∧ wb s.th.log = some o

theorem step_inv1 (fixed : Bool) (s : St) (dt : Nat) (h : Inv1 s) : Inv1 (step fixed s dt) := by
  obtain ⟨o, hs, hw⟩ := h
  rcases s with ⟨⟨idle, queue, rg⟩, g, ⟨stack, log⟩⟩
  simp only at hs hw
  cases hs with
  | nil => exact ⟨none, by simp [step, thStep]; exact Shape.nil, by simp [step, thStep, hw]⟩
  | main m hm =>
    cases m with
    | act id ops =>
      cases id with
      | some i => simp [isMain] at hm
      | none =>
        cases ops with
        | nil => exact ⟨none, by simp [step, thStep]; exact Shape.nil, by simp [step, thStep, hw]⟩
        | cons op ops =>
          cases op <;> refine ⟨none, ?_, ?_⟩ <;> simp [step, thStep, wb, hw] <;> exact Shape.main _ rfl
    | enq id it ops =>
      cases id with
      | some i => simp [isMain] at hm
      | none => exact ⟨none, by simp [step, thStep]; exact Shape.drain _ _ _ (by simp_all), by simp [step, thStep, wb, hw]⟩
    | drain ph r => simp [isMain] at hm
  | drain ph ready ops hre =>
    cases ph with
    | collect => exact ⟨none, by simp [step, thStep]; exact Shape.drain _ _ _ (by simp_all), by simp [step, thStep, wb, hw]⟩
    | exec =>
      cases ready with
      | nil => exact ⟨none, by simp [step, thStep]; exact Shape.drain _ _ _ (by simp_all), by simp [step, thStep, wb, hw]⟩
      | cons it ready =>
        by_cases hc : it.id ∈ g.cancelled
        · exact ⟨none, by simp [step, thStep, hc]; exact Shape.drain _ _ _ (by simp_all), by simp [step, thStep, hc, wb, hw]⟩
        · exact ⟨some it.id, by simp [step, thStep, hc]; exact Shape.inAct _ _ _ _, by simp [step, thStep, hc, wb, hw]⟩
    | check =>
      cases queue with
      | nil =>
        cases fixed
        · exact ⟨none, by simp [step, thStep]; exact Shape.drain _ _ _ (by simp_all), by simp [step, thStep, wb, hw]⟩
        · exact ⟨none, by simp [step, thStep]; exact Shape.main _ rfl, by simp [step, thStep, wb, hw]⟩
      | cons it q =>
        by_cases hd : it.due > g.clock + dt
        · exact ⟨none, by simp [step, thStep, hd]; exact Shape.drain _ _ _ (by simp_all), by simp [step, thStep, hd, wb, hw]⟩
        · exact ⟨none, by simp [step, thStep, hd]; exact Shape.drain _ _ _ (by simp_all), by simp [step, thStep, hd, wb, hw]⟩
    | final => exact ⟨none, by simp [step, thStep]; exact Shape.main _ rfl, by simp [step, thStep, wb, hw]⟩
    | abort => exact ⟨none, by simp [step, thStep]; exact Shape.main _ rfl, by simp [step, thStep, wb, hw]⟩
    | waiting =>
      have hr0 : ready = [] := hre (by simp)
      subst hr0
      exact ⟨none, by simp [step, thStep]; exact Shape.drain _ _ _ (by simp), by simp [step, thStep, wb, hw]⟩
  | inAct i ops ready mops =>
    cases ops with
    | nil => exact ⟨none, by simp [step, thStep]; exact Shape.drain _ _ _ (by simp_all), by simp [step, thStep, wb, hw]⟩
    | cons op ops =>
      cases op
      case tick => exact ⟨some i, by simp [step, thStep]; exact Shape.inAct _ _ _ _, by simp [step, thStep, wb, hw]⟩
      case cancel => exact ⟨some i, by simp [step, thStep]; exact Shape.inAct _ _ _ _, by simp [step, thStep, wb, hw]⟩
      case raise_ => exact ⟨none, by simp [step, thStep]; exact Shape.drain _ _ _ (by simp), by simp [step, thStep, wb, hw]⟩
      all_goals exact ⟨some i, by simp [step, thStep]; exact Shape.inEnq _ _ _ _ _, by simp [step, thStep, wb, hw]⟩
  | inEnq i it ops ready mops =>
    exact ⟨some i, by simp [step, thStep]; exact Shape.inAct _ _ _ _, by simp [step, thStep, wb, hw]⟩


def startsL : List Ev → List (Int × Nat)
  | [] => []
  | .start _ due seq _ :: rest => startsL rest ++ [(due, seq)]
  | _ :: rest => startsL rest

def readyOf : List Frame → List Item
  | [] => []
  | .drain _ r :: rest => r ++ readyOf rest
  | _ :: rest => readyOf rest

def pendOf : List Frame → Option Item
  | .enq _ it _ :: _ => some it
  | _ => none

def EqR (a b : Int × Nat) : Prop := a.1 = b.1 → a.2 < b.2
def LeR (a b : Int × Nat) : Prop := a.1 ≤ b.1

/-- no action was scheduled with a due time that was already in the past -/
def NoPast (log : List Ev) : Prop := ∀ id due clk kind, Ev.sched id due clk kind ∈ log → clk ≤ due

structure Inv2 (s : St) : Prop where
  qs : s.tr.queue.Pairwise (fun a b => a.due ≤ b.due)
  sq : ∀ k ∈ startsL s.th.log ++ (readyOf s.th.stack ++ s.tr.queue).map key, k.2 < s.g.nsched
  eo : (startsL s.th.log ++ (readyOf s.th.stack ++ s.tr.queue).map key).Pairwise EqR
  dc : ∀ k ∈ startsL s.th.log ++ (readyOf s.th.stack).map key, k.1 ≤ s.g.clock
  so : NoPast s.th.log →
        (startsL s.th.log ++ (readyOf s.th.stack ++ s.tr.queue).map key).Pairwise LeR ∧
        ∀ it, pendOf s.th.stack = some it → ∀ k ∈ startsL s.th.log ++ (readyOf s.th.stack).map key, k.1 ≤ it.due

theorem noPast_cons {e : Ev} {log : List Ev} (h : NoPast (e :: log)) : NoPast log := by
  intro id due clk kind hm; exact h id due clk kind (List.mem_cons_of_mem _ hm)



theorem inv2_frame (s s' : St) (h : Inv2 s)
    (hq : s'.tr.queue = s.tr.queue) (hn : s'.g.nsched = s.g.nsched)
    (hl : startsL s'.th.log = startsL s.th.log) (hr : readyOf s'.th.stack = readyOf s.th.stack)
    (hc : s.g.clock ≤ s'.g.clock) (hp : NoPast s'.th.log → NoPast s.th.log)
    (hpend : NoPast s'.th.log → ∀ it, pendOf s'.th.stack = some it →
      ∀ k ∈ startsL s.th.log ++ (readyOf s.th.stack).map key, k.1 ≤ it.due) : Inv2 s' := by
  obtain ⟨qs, sq, eo, dc, so⟩ := h
  refine ⟨by rw [hq]; exact qs, by rw [hl, hr, hq, hn]; exact sq, by rw [hl, hr, hq]; exact eo, ?_, ?_⟩
  · rw [hl, hr]; intro k hk; have := dc k hk; omega
  · intro np
    rw [hl, hr, hq]
    exact ⟨(so (hp np)).1, hpend np⟩


macro "frame_tac" h:ident : tactic => `(tactic| (
  apply inv2_frame _ _ $h
  all_goals (try simp [step, thStep, pendOf, readyOf, startsL])
  all_goals (try omega)
  all_goals (try exact noPast_cons)))

/-- the `Trampoline.run(item)` step (`enq` frame on top), whatever is below it. -/
theorem enq_inv2 (fixed : Bool) (idle : Bool) (queue : List Item) (rg : Bool) (g : Glob) (id : Option Nat) (it : Item) (ops : List Op)
    (rest : List Frame) (log : List Ev) (dt : Nat)
    (h : Inv2 { tr := { idle := idle, queue := queue, raisedG := rg }, g := g, th := { stack := .enq id it ops :: rest, log := log } }) :
    Inv2 (step fixed { tr := { idle := idle, queue := queue, raisedG := rg }, g := g, th := { stack := .enq id it ops :: rest, log := log } } dt) := by
  obtain ⟨qs, sq, eo, dc, so⟩ := h
  simp only [readyOf, pendOf, List.map_append, ← List.append_assoc] at sq eo dc so
  have key_eq : key { it with seq := g.nsched } = (it.due, g.nsched) := rfl
  have hstack : ∀ b : Bool, readyOf (if b then Frame.drain Phase.collect [] :: Frame.act id ops :: rest else Frame.act id ops :: rest) = readyOf rest := by
    intro b; cases b <;> simp [readyOf]
  cases idle
  all_goals
    simp only [step, thStep, Bool.false_eq_true, if_false, if_true, ↓reduceIte]
    refine ⟨enqueue_sorted _ _ qs, ?_, ?_, ?_, ?_⟩
    · simp only [readyOf, startsL, List.map_append, ← List.append_assoc, List.nil_append]
      intro k hk
      simp only [List.mem_append, List.mem_map, mem_enqueue] at hk
      rcases hk with hk | ⟨x, hx | hx, rfl⟩
      · have := sq k (by simp only [List.mem_append]; left; simpa [List.mem_append] using hk); omega
      · subst hx; simp [key]
      · have := sq (key x) (by simp only [List.mem_append, List.mem_map]; right; exact ⟨x, hx, rfl⟩); omega
    · simp only [readyOf, startsL, List.map_append, ← List.append_assoc, List.nil_append]
      apply pairwise_enqueue EqR key _ _ _ qs eo
      · intro a ha; have := sq a (by simp only [List.mem_append]; left; simpa [List.mem_append] using ha)
        intro _; show a.2 < g.nsched; omega
      · intro x hx _; have := sq (key x) (by simp only [List.mem_append, List.mem_map]; right; exact ⟨x, hx, rfl⟩)
        intro _; show (key x).2 < g.nsched; omega
      · intro x hx hlt heq
        have h1 : it.due < x.due := hlt
        have h2 : it.due = x.due := heq
        omega
    · simp only [readyOf, startsL, List.nil_append]
      intro k hk; have := dc k hk; omega
    · intro np
      have np' := noPast_cons np
      obtain ⟨so1, so2⟩ := so np'
      simp only [readyOf, startsL, pendOf, List.map_append, ← List.append_assoc, List.nil_append]
      refine ⟨?_, by simp⟩
      apply pairwise_enqueue LeR key _ _ _ qs so1
      · intro a ha; exact so2 it rfl a ha
      · intro x hx hle; simpa [LeR, key] using hle
      · intro x hx hlt
        have h1 : it.due < x.due := hlt
        show it.due ≤ x.due; omega

theorem takeWhile_isDue (q : List Item) (c : Int) : ∀ x ∈ q.takeWhile (isDue c), x.due ≤ c := by
  induction q with
  | nil => simp
  | cons y ys ih =>
    intro x hx
    by_cases h : y.due ≤ c
    · simp [List.takeWhile_cons, isDue, h] at hx
      rcases hx with rfl | hx
      · exact h
      · exact ih x (by simpa [isDue] using hx)
    · simp [List.takeWhile_cons, isDue, h] at hx

theorem step_inv2 (fixed : Bool) (s : St) (dt : Nat) (h1 : Inv1 s) (h : Inv2 s) : Inv2 (step fixed s dt) := by
  obtain ⟨o, hs, hw⟩ := h1
  rcases s with ⟨⟨idle, queue, rg⟩, g, ⟨stack, log⟩⟩
  simp only at hs hw
  cases hs with
  | nil => frame_tac h
  | main m hm =>
    cases m with
    | act id ops =>
      cases id with
      | some i => simp [isMain] at hm
      | none =>
        cases ops with
        | nil => frame_tac h
        | cons op ops =>
          cases op
          case tick d => frame_tac h
          case cancel k => frame_tac h
          case raise_ => frame_tac h
          all_goals
            frame_tac h
            intro np a b hk
            have h1 := h.dc (a, b) (by simp [readyOf, hk])
            have h2 := np _ _ _ _ (List.mem_cons_self)
            simp at h1; omega
    | enq id it ops =>
      cases id with
      | some i => simp [isMain] at hm
      | none => exact enq_inv2 fixed _ _ _ _ _ _ _ _ _ dt h
    | drain ph r => simp [isMain] at hm
  | drain ph ready ops hre =>
    cases ph with
    | collect =>
      obtain ⟨qs, sq, eo, dc, so⟩ := h
      have hsplit := List.takeWhile_append_dropWhile (p := isDue (g.clock + dt)) (l := queue)
      have e1 : (ready ++ List.takeWhile (isDue (g.clock + ↑dt)) queue) ++ List.dropWhile (isDue (g.clock + ↑dt)) queue = ready ++ queue := by
        rw [List.append_assoc, hsplit]
      simp only [readyOf, pendOf, List.append_nil] at sq eo dc so
      simp only [step, thStep]
      refine ⟨qs.sublist (List.dropWhile_sublist _), ?_, ?_, ?_, ?_⟩
      · simp only [readyOf, startsL, List.append_nil, e1]; exact sq
      · simp only [readyOf, startsL, List.append_nil, e1]; exact eo
      · simp only [readyOf, startsL, List.append_nil, List.map_append, List.mem_append]
        intro k hk
        rcases hk with hk | hk | hk
        · have := dc k (by simp [hk]); omega
        · have := dc k (by simp [hk]); omega
        · simp only [List.mem_map] at hk
          obtain ⟨x, hx, rfl⟩ := hk
          exact takeWhile_isDue _ _ x hx
      · intro np
        simp only [readyOf, startsL, List.append_nil, e1, pendOf]
        exact ⟨(so (noPast_cons np)).1, by simp⟩
    | exec =>
      cases ready with
      | nil => frame_tac h
      | cons it ready =>
        obtain ⟨qs, sq, eo, dc, so⟩ := h
        simp only [readyOf, pendOf, List.append_nil] at sq eo dc so
        by_cases hc : it.id ∈ g.cancelled
        · have hsub : (startsL log ++ List.map key (ready ++ queue)).Sublist (startsL log ++ List.map key (it :: ready ++ queue)) := by
            apply List.Sublist.append_left
            simp
          simp only [step, thStep, hc, if_true]
          refine ⟨qs, ?_, ?_, ?_, ?_⟩
          · simp only [readyOf, startsL, List.append_nil]
            intro k hk; exact sq k (hsub.subset hk)
          · simp only [readyOf, startsL, List.append_nil]; exact eo.sublist hsub
          · simp only [readyOf, startsL, List.append_nil]
            intro k hk
            have := dc k (by
              simp only [List.mem_append, List.map_cons, List.mem_cons] at hk ⊢
              rcases hk with hk | hk
              · exact Or.inl hk
              · exact Or.inr (Or.inr hk))
            omega
          · intro np
            simp only [readyOf, startsL, List.append_nil, pendOf]
            exact ⟨((so (noPast_cons np)).1).sublist hsub, by simp⟩
        · have e1 : startsL log ++ [(it.due, it.seq)] ++ List.map key (ready ++ queue) = startsL log ++ List.map key (it :: ready ++ queue) := by
            simp [key]
          simp only [step, thStep, hc, if_false]
          refine ⟨qs, ?_, ?_, ?_, ?_⟩
          · simp only [readyOf, startsL, List.append_nil, e1]; exact sq
          · simp only [readyOf, startsL, List.append_nil, e1]; exact eo
          · simp only [readyOf, startsL, List.append_nil]
            intro k hk
            have := dc k (by
              simp only [List.mem_append, List.map_cons, List.mem_cons, List.mem_singleton] at hk ⊢
              rcases hk with (hk | hk | hk) | hk
              · exact Or.inl hk
              · exact Or.inr (Or.inl hk)
              · simp at hk
              · exact Or.inr (Or.inr hk))
            omega
          · intro np
            have np' : NoPast log := noPast_cons np
            simp only [readyOf, startsL, List.append_nil, pendOf, e1]
            exact ⟨(so np').1, by simp⟩
    | check =>
      cases queue with
      | nil =>
        have hr0 : ready = [] := hre (by simp)
        subst hr0
        cases fixed <;> frame_tac h
      | cons it q =>
        by_cases hd : it.due > g.clock + dt
        · apply inv2_frame _ _ h
          all_goals (try simp [step, thStep, hd, pendOf, readyOf, startsL])
          all_goals (try omega)
          all_goals (try exact noPast_cons)
        · apply inv2_frame _ _ h
          all_goals (try simp [step, thStep, hd, pendOf, readyOf, startsL])
          all_goals (try omega)
    | final =>
      have hr0 : ready = [] := hre (by simp)
      subst hr0
      obtain ⟨qs, sq, eo, dc, so⟩ := h
      simp only [readyOf, pendOf, List.append_nil, List.nil_append] at sq eo dc so
      have hsub : (startsL log ++ List.map key ([] : List Item)).Sublist (startsL log ++ List.map key queue) := by
        apply List.Sublist.append_left; simp
      simp only [step, thStep]
      refine ⟨List.Pairwise.nil, ?_, ?_, ?_, ?_⟩
      · simp only [readyOf, startsL, List.append_nil]
        intro k hk; exact sq k (hsub.subset hk)
      · simp only [readyOf, startsL, List.append_nil]; exact eo.sublist hsub
      · simp only [readyOf, startsL, List.append_nil]
        intro k hk; have := dc k hk; omega
      · intro np
        simp only [readyOf, startsL, List.append_nil, pendOf]
        exact ⟨((so (noPast_cons np)).1).sublist hsub, by simp⟩
    | waiting => frame_tac h
    | abort =>
      have hr0 : ready = [] := hre (by simp)
      subst hr0
      obtain ⟨qs, sq, eo, dc, so⟩ := h
      simp only [readyOf, pendOf, List.append_nil, List.nil_append] at sq eo dc so
      have hsub : (startsL log ++ List.map key ([] : List Item)).Sublist (startsL log ++ List.map key queue) := by
        apply List.Sublist.append_left; simp
      simp only [step, thStep]
      refine ⟨List.Pairwise.nil, ?_, ?_, ?_, ?_⟩
      · simp only [readyOf, startsL, List.append_nil]
        intro k hk; exact sq k (hsub.subset hk)
      · simp only [readyOf, startsL, List.append_nil]; exact eo.sublist hsub
      · simp only [readyOf, startsL, List.append_nil]
        intro k hk; have := dc k hk; omega
      · intro np
        simp only [readyOf, startsL, List.append_nil, pendOf]
        exact ⟨((so (noPast_cons np)).1).sublist hsub, by simp⟩
  | inAct i ops ready mops =>
    cases ops with
    | nil => frame_tac h
    | cons op ops =>
      cases op
      case tick d => frame_tac h
      case cancel k => frame_tac h
      case raise_ =>
        -- the exception discards the loop's local batch: everything still listed is a sub-list of what was listed
        obtain ⟨qs, sq, eo, dc, so⟩ := h
        simp only [readyOf, pendOf, List.append_nil] at sq eo dc so
        have hsub : (startsL log ++ List.map key queue).Sublist (startsL log ++ List.map key (ready ++ queue)) := by
          apply List.Sublist.append_left
          simp
        simp only [step, thStep]
        refine ⟨qs, ?_, ?_, ?_, ?_⟩
        · simp only [readyOf, startsL, List.append_nil, List.nil_append]
          intro k hk; exact sq k (hsub.subset hk)
        · simp only [readyOf, startsL, List.append_nil, List.nil_append]; exact eo.sublist hsub
        · simp only [readyOf, startsL, List.append_nil, List.nil_append, List.map_nil]
          intro k hk; have := dc k (by simp only [List.mem_append] at hk ⊢; exact Or.inl hk); omega
        · intro np
          simp only [readyOf, startsL, List.append_nil, List.nil_append, pendOf]
          exact ⟨((so (noPast_cons np)).1).sublist hsub, by simp⟩
      all_goals
        frame_tac h
        intro np a b hk
        have h1 := h.dc (a, b) (by simp [readyOf]; exact hk)
        have h2 := np _ _ _ _ (List.mem_cons_self)
        simp at h1; omega
  | inEnq i it ops ready mops => exact enq_inv2 fixed _ _ _ _ _ _ _ _ _ dt h

end Thr.Tramp

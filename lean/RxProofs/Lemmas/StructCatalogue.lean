import RxModel.Ops
import RxModel.OpsElem
import RxModel.OpsSlice
import RxModel.AggBase
import RxModel.AggOps
import RxModel.StructCaptures
import RxProofs.Lemmas.StructFrame
/-!
# The frame theorem for the operator-handler catalogues of the other families (C04 / C44)

The element-wise operators (`RxModel/Ops*.lean`, property C05/C07/C08) and the aggregating operators
(`RxModel/Agg*.lean`, C06) are records `⟨σ, init, onNext, onError, onCompleted⟩`: the state type and
its initial value are fields of the record, i.e. the state is allocated when a subscription starts
(`op.start`), never when the operator is built or applied.  `ofOps` / `ofAgg` turn any such record
into a family of subscriptions (`Struct.Frame.Sys` with trivial shared state); the family's
single-instance run is the record's own run function (`ofOps_runI`, `ofAgg_runI`).  (Read-only use of
the other families' model files.)
-/

namespace Struct.Catalogue
open Struct.Frame

variable {α β : Type}

/-- an element-wise operator record as a family of subscriptions -/
def ofOps (lag : Bool) (op : Ops.Op α β) : Sys Unit (Ops.RS op.σ) (Notif α) (Notif β) where
  create := fun _ => ((op.start lag).1, ())
  step := fun _ s n => ((), (op.step lag s n).1, (op.step lag s n).2.vis)
  createOut := fun _ => (op.start lag).2.vis

theorem ofOps_framed (lag : Bool) (op : Ops.Op α β) : Framed (ofOps lag op) := ⟨fun _ => rfl, fun _ _ _ => rfl⟩

theorem ofOps_runI_from (lag : Bool) (op : Ops.Op α β) : ∀ (evs : List (Notif α)) (st : Ops.RS op.σ),
    runI (ofOps lag op) () (some st) (evs.map some) = Ops.visible (op.runFrom lag st evs) := by
  intro evs
  induction evs with
  | nil => intro st; rfl
  | cons n rest ih =>
    intro st
    simp only [List.map_cons, runI, Ops.Op.runFrom, Ops.visible, List.flatMap_cons]
    congr 1
    exact ih _

/-- one subscription alone = the operator's own run function (`Ops.Op.run`) -/
theorem ofOps_runI (lag : Bool) (op : Ops.Op α β) (evs : List (Notif α)) :
    runI (ofOps lag op) () none (none :: evs.map some) = Ops.visible (op.run lag evs) := by
  simp only [runI, Ops.Op.run, Ops.visible, List.flatMap_cons]
  congr 1
  exact ofOps_runI_from lag op evs _

/-- an aggregating operator record as a family of subscriptions -/
def ofAgg (lag : Bool) (op : Agg.Op α β) : Sys Unit (Agg.RunSt op.σ) (Notif α) (Notif β) where
  create := fun _ => (op.start, ())
  step := fun _ s n => ((), (op.step lag s n).st, (op.step lag s n).out)

theorem ofAgg_framed (lag : Bool) (op : Agg.Op α β) : Framed (ofAgg lag op) := ⟨fun _ => rfl, fun _ _ _ => rfl⟩

theorem ofAgg_runI_from (lag : Bool) (op : Agg.Op α β) : ∀ (evs : List (Notif α)) (st : Agg.RunSt op.σ),
    runI (ofAgg lag op) () (some st) (evs.map some) = (op.steps lag st evs).flatMap (·.out) := by
  intro evs
  induction evs with
  | nil => intro st; rfl
  | cons n rest ih =>
    intro st
    simp only [List.map_cons, runI, Agg.Op.steps, List.flatMap_cons]
    congr 1
    exact ih _

/-- one subscription alone = the operator's own run function (`Agg.Op.out`) -/
theorem ofAgg_runI (lag : Bool) (op : Agg.Op α β) (evs : List (Notif α)) :
    runI (ofAgg lag op) () none (none :: evs.map some) = op.out lag evs := by
  simp only [runI, ofAgg, List.nil_append]
  exact ofAgg_runI_from lag op evs _

end Struct.Catalogue

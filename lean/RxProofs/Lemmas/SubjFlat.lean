import RxProofs.Lemmas.SubjThm
/-!
# Flat histories (no reactions): a closed form for every observer's log (plain Subject)

When callbacks do nothing but record, observers do not interact: what observer `i` sees is determined by
its own reading of the history — a three-state fold (`fresh → live → done`) that is the property text
itself: "subscribed and not unsubscribed when the call is made", terminal-only for late subscribers,
`DisposedException` after `dispose()`.
-/

namespace Subj
variable {α : Type}

inductive OState where
  | fresh | live | done
deriving DecidableEq, Repr

/-- What observer `i` needs to know: its own state and the subject's (terminated? disposed?). -/
structure Flat (α : Type) where
  o : OState := .fresh
  term : Option (Notif α) := none
  disp : Bool := false

/-- One history call, read by observer `i`: new state and what `i` is handed by this call. -/
def flatStep (i : Id) (s : Flat α) : Call α → Flat α × List (Notif α)
  | .sub j =>
    if j = i ∧ s.o = .fresh then
      if s.disp then ({ s with o := .done }, [.error disposedExn])
      else
        match s.term with
        | some t => ({ s with o := .done }, [t])
        | none => ({ s with o := .live }, [])
    else (s, [])
  | .unsub j => if j = i ∧ s.o = .live then ({ s with o := .done }, []) else (s, [])
  | .next v =>
    if s.disp ∨ s.term.isSome then (s, [])
    else (s, if s.o = .live then [.next v] else [])
  | .error e =>
    if s.disp ∨ s.term.isSome then (s, [])
    else ({ s with term := some (.error e), o := if s.o = .live then .done else s.o }, if s.o = .live then [.error e] else [])
  | .completed =>
    if s.disp ∨ s.term.isSome then (s, [])
    else ({ s with term := some .completed, o := if s.o = .live then .done else s.o }, if s.o = .live then [.completed] else [])
  | .dispose => ({ s with disp := true, o := if s.o = .live then .done else s.o }, [])

def flatLog (i : Id) : Flat α → List (Call α) → List (Notif α)
  | _, [] => []
  | s, c :: cs => (flatStep i s c).2 ++ flatLog i (flatStep i s c).1 cs

/-- No reactions, every observer has an `on_error` handler. -/
structure FlatCfg (cfg : Cfg) : Prop where
  kind : cfg.kind = .subject
  react : ∀ i k, cfg.react i k = []
  err : ∀ i, cfg.hasErr i = true

/-! ### big-step delivery loops -/

def bcastNext (n : Notif α) : List Id → St α → St α
  | [], st => st
  | k :: ks, st => bcastNext n ks (if st.adoStopped k then st else callback st k n)

def bcastTerm (n : Notif α) : List Id → St α → St α
  | [], st => st
  | k :: ks, st =>
    bcastTerm n ks (if st.adoStopped k then st
      else sadDispose (callback { st with adoStopped := upd st.adoStopped k true } k n) k)

theorem reactions_nil {cfg : Cfg} (hc : FlatCfg cfg) (st : St α) (i : Id) : reactions cfg st i = [] := by
  simp [reactions, hc.react]

theorem exec_nil (cfg : Cfg) (f : Nat) (st : St α) : exec cfg f st [] = st := by
  cases f <;> rfl

theorem exec_bcastNext {cfg : Cfg} (hc : FlatCfg cfg) (v : α) (l : List Id) (st : St α) (f : Nat) (hf : l.length ≤ f) :
    exec cfg f st (l.map (Task.deliver · (.next v))) = bcastNext (.next v) l st := by
  induction l generalizing st f with
  | nil => simp [exec_nil, bcastNext]
  | cons k ks ih =>
    cases f with
    | zero => simp at hf
    | succ f =>
      simp only [List.map_cons, exec, bcastNext]
      have hf' : ks.length ≤ f := by simpa using hf
      by_cases hs : st.adoStopped k = true
      · simp only [step1, deliver, hs, if_true, nextAgenda, Bool.false_eq_true, if_false, List.nil_append]
        exact ih st f hf'
      · have hs' : st.adoStopped k = false := by simpa using hs
        simp only [step1, deliver, hs', Bool.false_eq_true, if_false, nextAgenda, reactions_nil hc, List.nil_append]
        exact ih _ f hf'

theorem exec_bcastTerm {cfg : Cfg} (hc : FlatCfg cfg) (n : Notif α) (hn : n.isTerminal = true) (l : List Id) (st : St α)
    (f : Nat) (hf : 2 * l.length ≤ f) :
    exec cfg f st (l.map (Task.deliver · n)) = bcastTerm n l st := by
  induction l generalizing st f with
  | nil => simp [exec_nil, bcastTerm]
  | cons k ks ih =>
    cases f with
    | zero => simp at hf
    | succ f =>
      simp only [List.map_cons, exec, bcastTerm]
      by_cases hs : st.adoStopped k = true
      · simp only [step1, deliver, hs, if_true, nextAgenda, Bool.false_eq_true, if_false, List.nil_append]
        exact ih st f (by simp at hf; omega)
      · have hs' : st.adoStopped k = false := by simpa using hs
        cases f with
        | zero => simp at hf; omega
        | succ f =>
          have hf' : 2 * ks.length ≤ f := by simp at hf; omega
          cases n with
          | next x => simp [Notif.isTerminal] at hn
          | completed =>
            simp only [step1, deliver, hs', Bool.false_eq_true, if_false, nextAgenda, reactions_nil hc, List.nil_append,
              List.singleton_append, exec]
            exact ih _ f hf'
          | error e =>
            simp only [step1, deliver, hs', Bool.false_eq_true, if_false, nextAgenda, reactions_nil hc, List.nil_append,
              List.singleton_append, exec, hc.err k, if_true]
            exact ih _ f hf'

end Subj

namespace Subj
variable {α : Type}

/-! ### what the loops do to the fields an observer can see -/

theorem bcastNext_frame (n : Notif α) (l : List Id) (st : St α) :
    (bcastNext n l st).observers = st.observers ∧ (bcastNext n l st).seen = st.seen ∧
    (bcastNext n l st).handle = st.handle ∧ (bcastNext n l st).stopped = st.stopped ∧
    (bcastNext n l st).disposed = st.disposed ∧ (bcastNext n l st).exception = st.exception ∧
    (bcastNext n l st).adoStopped = st.adoStopped := by
  induction l generalizing st with
  | nil => simp [bcastNext]
  | cons k ks ih =>
    simp only [bcastNext]
    by_cases hs : st.adoStopped k = true
    · simp only [hs, if_true]; exact ih st
    · have hs' : st.adoStopped k = false := by simpa using hs
      simp only [hs', Bool.false_eq_true, if_false]
      have := ih (callback st k n)
      simpa [callback] using this

theorem bcastNext_log (n : Notif α) (l : List Id) (hl : l.Nodup) (st : St α) (i : Id) :
    (bcastNext n l st).log i = if i ∈ l ∧ st.adoStopped i = false then st.log i ++ [n] else st.log i := by
  induction l generalizing st with
  | nil => simp [bcastNext]
  | cons k ks ih =>
    simp only [bcastNext]
    have hk : k ∉ ks := (List.nodup_cons.mp hl).1
    rw [ih (List.nodup_cons.mp hl).2]
    by_cases hs : st.adoStopped k = true
    · simp only [hs, if_true]
      by_cases hik : i = k
      · subst hik; simp [hs, hk]
      · simp [hik]
    · have hs' : st.adoStopped k = false := by simpa using hs
      simp only [hs', Bool.false_eq_true, if_false]
      by_cases hik : i = k
      · subst hik; simp [callback, hs', hk]
      · simp [callback, hik]

theorem bcastTerm_frame (n : Notif α) (l : List Id) (st : St α) (ho : st.observers = []) :
    (bcastTerm n l st).observers = [] ∧ (bcastTerm n l st).seen = st.seen ∧
    (bcastTerm n l st).handle = st.handle ∧ (bcastTerm n l st).stopped = st.stopped ∧
    (bcastTerm n l st).disposed = st.disposed ∧ (bcastTerm n l st).exception = st.exception := by
  induction l generalizing st with
  | nil => simp [bcastTerm, ho]
  | cons k ks ih =>
    simp only [bcastTerm]
    by_cases hs : st.adoStopped k = true
    · simp only [hs, if_true]; exact ih st ho
    · have hs' : st.adoStopped k = false := by simpa using hs
      simp only [hs', Bool.false_eq_true, if_false]
      have hstep : ∀ s : St α, s.observers = [] →
          (sadDispose s k).observers = [] ∧ (sadDispose s k).seen = s.seen ∧ (sadDispose s k).handle = s.handle ∧
          (sadDispose s k).stopped = s.stopped ∧ (sadDispose s k).disposed = s.disposed ∧
          (sadDispose s k).exception = s.exception := by
        intro s hso
        unfold sadDispose innerDispose
        dsimp only
        repeat' split
        all_goals simp [hso]
      have h1 := hstep (callback { st with adoStopped := upd st.adoStopped k true } k n) (by simpa [callback] using ho)
      have h2 := ih _ h1.1
      refine ⟨h2.1, ?_, ?_, ?_, ?_, ?_⟩
      · rw [h2.2.1, h1.2.1]; rfl
      · rw [h2.2.2.1, h1.2.2.1]; rfl
      · rw [h2.2.2.2.1, h1.2.2.2.1]; rfl
      · rw [h2.2.2.2.2.1, h1.2.2.2.2.1]; rfl
      · rw [h2.2.2.2.2.2, h1.2.2.2.2.2]; rfl

theorem sadDispose_log_ado (s : St α) (k : Id) : (sadDispose s k).log = s.log ∧ (sadDispose s k).adoStopped = s.adoStopped := by
  unfold sadDispose innerDispose
  dsimp only
  repeat' split
  all_goals simp

theorem bcastTerm_log (n : Notif α) (l : List Id) (hl : l.Nodup) (st : St α) (i : Id) :
    (bcastTerm n l st).log i = (if i ∈ l ∧ st.adoStopped i = false then st.log i ++ [n] else st.log i) ∧
    ((bcastTerm n l st).adoStopped i = (st.adoStopped i || decide (i ∈ l))) := by
  induction l generalizing st with
  | nil => simp [bcastTerm]
  | cons k ks ih =>
    simp only [bcastTerm]
    have hk : k ∉ ks := (List.nodup_cons.mp hl).1
    have ih' := ih (List.nodup_cons.mp hl).2
    by_cases hs : st.adoStopped k = true
    · simp only [hs, if_true]
      have := ih' st
      by_cases hik : i = k
      · subst hik; simp [hs, hk, this]
      · simp [hik, this]
    · have hs' : st.adoStopped k = false := by simpa using hs
      simp only [hs', Bool.false_eq_true, if_false]
      have e := sadDispose_log_ado (callback { st with adoStopped := upd st.adoStopped k true } k n) k
      have := ih' (sadDispose (callback { st with adoStopped := upd st.adoStopped k true } k n) k)
      rw [this.1, this.2, e.1, e.2]
      by_cases hik : i = k
      · subst hik; simp [callback, hs', hk]
      · simp [callback, hik]

end Subj

namespace Subj
variable {α : Type}

/-- The machine state agrees with observer `i`'s own reading of the history so far. -/
structure Sim (i : Id) (st : St α) (s : Flat α) : Prop where
  disp : st.disposed = s.disp
  stop : st.stopped = (s.disp || s.term.isSome)
  term : s.disp = false → ∀ t, s.term = some t → termOf st = t
  fresh : s.o = .fresh ↔ st.seen i = false
  live : s.o = .live ↔ i ∈ st.observers
  liveOk : s.o = .live → st.adoStopped i = false ∧ st.handle i = true
  noexc : st.stopped = false → st.exception = none

theorem termOf_congr {a b : St α} (h : a.exception = b.exception) : termOf a = termOf b := by
  unfold termOf; rw [h]

theorem Sim.congr {i : Id} {st st' : St α} {s : Flat α} (h : Sim i st s) (e1 : st'.disposed = st.disposed)
    (e2 : st'.stopped = st.stopped) (e3 : st'.exception = st.exception) (e4 : st'.seen i = st.seen i)
    (e5 : i ∈ st'.observers ↔ i ∈ st.observers) (e6 : st'.adoStopped i = st.adoStopped i) (e7 : st'.handle i = st.handle i) :
    Sim i st' s :=
  ⟨e1.trans h.disp, e2.trans h.stop, fun hd t ht => by have := h.term hd t ht; simpa [termOf, e3] using this,
   by rw [e4]; exact h.fresh, by rw [e5]; exact h.live, fun ho => by rw [e6, e7]; exact h.liveOk ho,
   by rw [e2, e3]; exact h.noexc⟩

theorem exec_one (cfg : Cfg) (f : Nat) (st : St α) (t : Task α) (ts : List (Task α)) :
    exec cfg (f + 1) st (t :: ts) = exec cfg f (step1 cfg st t).1 (nextAgenda (step1 cfg st t) ts) := rfl

/-! ### the result of each kind of call on a flat configuration -/

theorem call_emit_disposed (cfg : Cfg) (st : St α) (n : Notif α) (f : Nat) (hd : st.disposed = true) (c : Call α)
    (hcn : c.toTask = .emit n) :
    call cfg (f + 1) st c = { st with raisedNow := some disposedExn } := by
  unfold call
  rw [hcn, exec_one]
  have : step1 cfg { st with raisedNow := none } (.emit n) = ({ st with raisedNow := some disposedExn }, [], false) := by
    simp [step1, emit, hd]
  rw [this]
  simp [nextAgenda, exec_nil]

theorem call_emit_stopped (cfg : Cfg) (st : St α) (n : Notif α) (f : Nat) (hd : st.disposed = false) (hs : st.stopped = true)
    (c : Call α) (hcn : c.toTask = .emit n) :
    call cfg (f + 1) st c = { st with raisedNow := none } := by
  unfold call
  rw [hcn, exec_one]
  have : step1 cfg { st with raisedNow := none } (.emit n) = ({ st with raisedNow := none }, [], false) := by
    simp [step1, emit, hd, hs]
  rw [this]
  simp [nextAgenda, exec_nil]

theorem call_next_live {cfg : Cfg} (hc : FlatCfg cfg) (st : St α) (v : α) (f : Nat) (hd : st.disposed = false)
    (hs : st.stopped = false) (hf : st.observers.length ≤ f) :
    call cfg (f + 1) st (.next v) =
      bcastNext (.next v) st.observers { st with raisedNow := none, tr := .emit (.next v) :: st.tr } := by
  unfold call
  rw [show (Call.next v : Call α).toTask = .emit (.next v) from rfl, exec_one]
  have : step1 cfg { st with raisedNow := none } (.emit (.next v)) =
      ({ st with raisedNow := none, tr := .emit (.next v) :: st.tr }, st.observers.map (Task.deliver · (.next v)), false) := by
    simp [step1, emit, hd, hs, hc.kind]
  rw [this]
  simp only [nextAgenda, Bool.false_eq_true, if_false, List.append_nil]
  exact exec_bcastNext hc v st.observers _ f hf

/-- The subject right after accepting a terminal notification (before the delivery loop). -/
def termState (st : St α) (n : Notif α) : St α :=
  { st with raisedNow := none, tr := .emit n :: st.tr, stopped := true, observers := [], exception := (match n with | .error e => some e | _ => st.exception) }

theorem call_term_live {cfg : Cfg} (hc : FlatCfg cfg) (st : St α) (n : Notif α) (hn : n.isTerminal = true) (c : Call α)
    (hcn : c.toTask = .emit n) (f : Nat) (hd : st.disposed = false) (hs : st.stopped = false)
    (hf : 2 * st.observers.length ≤ f) :
    call cfg (f + 1) st c = bcastTerm n st.observers (termState st n) := by
  unfold call
  rw [hcn, exec_one]
  have : step1 cfg { st with raisedNow := none } (.emit n) =
      (termState st n, st.observers.map (Task.deliver · n), false) := by
    cases n with
    | next x => simp [Notif.isTerminal] at hn
    | error e => simp [step1, emit, hd, hs, termState]
    | completed => simp [step1, emit, hd, hs, hc.kind, termState]
  rw [this]
  simp only [nextAgenda, Bool.false_eq_true, if_false, List.append_nil]
  exact exec_bcastTerm hc n hn st.observers _ f hf

set_option linter.unusedSimpArgs false in
theorem call_sub_eq {cfg : Cfg} (hc : FlatCfg cfg) (st : St α) (hI : SInv st) (j : Id) (f : Nat) :
    call cfg (f + 4) st (.sub j) =
      if st.seen j then { st with raisedNow := none }
      else if st.disposed then
        finish (callback { st with raisedNow := none, seen := upd st.seen j true, adoStopped := upd st.adoStopped j true } j (.error disposedExn)) j none
      else if !st.stopped then
        finish { st with raisedNow := none, seen := upd st.seen j true, observers := st.observers ++ [j], tr := .sub j :: st.tr } j (some .inner)
      else
        finish (sadDispose (callback { st with raisedNow := none, seen := upd st.seen j true, adoStopped := upd st.adoStopped j true } j (termOf st)) j) j (some .noop) := by
  unfold call
  rw [show (Call.sub j : Call α).toTask = .act none (.sub j) from rfl]
  by_cases hj : st.seen j = true
  · simp [exec_one, step1, doSub, hj, nextAgenda, exec_nil]
  · have hj' : st.seen j = false := by simpa using hj
    by_cases hd : st.disposed = true
    · simp [exec_one, step1, doSub, hj', hd, hc.err, nextAgenda, exec_nil, reactions_nil hc]
    · have hd' : st.disposed = false := by simpa using hd
      by_cases hs : st.stopped = true
      · have hfr := (hI.fresh j hj').1
        cases hx : st.exception with
        | none =>
          simp [exec_one, step1, doSub, hj', hd', hs, hx, hc.kind, nextAgenda, exec_nil, reactions_nil hc, deliver, termOf, hfr]
        | some e =>
          simp [exec_one, step1, doSub, hj', hd', hs, hx, hc.kind, nextAgenda, exec_nil, reactions_nil hc, deliver, termOf, hfr, hc.err]
      · have hs' : st.stopped = false := by simpa using hs
        simp [exec_one, step1, doSub, hj', hd', hs', hc.kind, nextAgenda, exec_nil]

theorem call_unsub_eq (cfg : Cfg) (st : St α) (j : Id) (f : Nat) :
    call cfg (f + 1) st (.unsub j) = doUnsub { st with raisedNow := none } j := by
  simp [call, Call.toTask, exec_one, step1, nextAgenda, exec_nil]

theorem call_dispose_eq (cfg : Cfg) (st : St α) (f : Nat) :
    call cfg (f + 1) st .dispose = subjDispose { st with raisedNow := none } := by
  simp [call, Call.toTask, exec_one, step1, nextAgenda, exec_nil]

/-- `finish` / `sadDispose` of another observer do not touch what observer `i` can see. -/
theorem finish_view (st : St α) (j : Id) (h : Option Held) :
    (finish st j h).disposed = st.disposed ∧ (finish st j h).stopped = st.stopped ∧
    (finish st j h).exception = st.exception ∧ (finish st j h).seen = st.seen ∧
    (finish st j h).adoStopped = st.adoStopped ∧ (finish st j h).log = st.log ∧
    (∀ i, i ≠ j → (finish st j h).handle i = st.handle i) ∧ (finish st j h).handle j = true ∧
    ((finish st j h).observers = st.observers ∨ (finish st j h).observers = st.observers.erase j) := by
  unfold finish innerDispose
  dsimp only
  repeat' split
  all_goals simp_all

theorem sadDispose_view (st : St α) (j : Id) :
    (sadDispose st j).disposed = st.disposed ∧ (sadDispose st j).stopped = st.stopped ∧
    (sadDispose st j).exception = st.exception ∧ (sadDispose st j).seen = st.seen ∧
    (sadDispose st j).adoStopped = st.adoStopped ∧ (sadDispose st j).log = st.log ∧
    (sadDispose st j).handle = st.handle ∧
    ((sadDispose st j).observers = st.observers ∨ (sadDispose st j).observers = st.observers.erase j) := by
  unfold sadDispose innerDispose
  dsimp only
  repeat' split
  all_goals simp_all

/-- One history call keeps the agreement and hands `i` exactly what its own reading says. -/
theorem call_sim {cfg : Cfg} (hc : FlatCfg cfg) (i : Id) {st : St α} {s : Flat α} (hI : SInv st)
    (h : Sim i st s) (c : Call α) (fuel : Nat) (hf : 2 * st.observers.length + 4 ≤ fuel) :
    Sim i (call cfg fuel st c) (flatStep i s c).1 ∧
    (call cfg fuel st c).log i = st.log i ++ (flatStep i s c).2 ∧
    (call cfg fuel st c).observers.length ≤ st.observers.length + 1 := by
  obtain ⟨f, rfl⟩ : ∃ f, fuel = f + 4 := ⟨fuel - 4, by omega⟩
  have hnotlive : s.o ≠ .live → i ∉ st.observers := fun ho hm => ho (h.live.mpr hm)
  -- emissions on a disposed / terminated subject change nothing
  have hdead : ∀ (n : Notif α) (c : Call α), c.toTask = .emit n → (s.disp ∨ s.term.isSome = true) →
      (flatStep i s c = (s, []) → Sim i (call cfg (f + 4) st c) (flatStep i s c).1 ∧
        (call cfg (f + 4) st c).log i = st.log i ++ (flatStep i s c).2 ∧
        (call cfg (f + 4) st c).observers.length ≤ st.observers.length + 1) := by
    intro n c hcn hdt hfs
    rw [hfs]
    by_cases hd : st.disposed = true
    · rw [call_emit_disposed cfg st n (f + 3) hd c hcn]
      exact ⟨h.congr rfl rfl rfl rfl Iff.rfl rfl rfl, by simp, by simp⟩
    · have hd' : st.disposed = false := by simpa using hd
      have hs : st.stopped = true := by
        rw [h.stop]
        rcases hdt with h' | h'
        · simp [h']
        · simp [h']
      rw [call_emit_stopped cfg st n (f + 3) hd' hs c hcn]
      exact ⟨h.congr rfl rfl rfl rfl Iff.rfl rfl rfl, by simp, by simp⟩
  -- an accepted terminal
  have hterm : ∀ (n : Notif α) (c : Call α), n.isTerminal = true → c.toTask = .emit n → s.disp = false → s.term = none →
      (flatStep i s c = ({ s with term := some n, o := if s.o = .live then .done else s.o }, if s.o = .live then [n] else []) →
        Sim i (call cfg (f + 4) st c) (flatStep i s c).1 ∧
        (call cfg (f + 4) st c).log i = st.log i ++ (flatStep i s c).2 ∧
        (call cfg (f + 4) st c).observers.length ≤ st.observers.length + 1) := by
    intro n c hn hcn hsd hst hfs
    rw [hfs]
    have hd' : st.disposed = false := by rw [h.disp]; exact hsd
    have hs' : st.stopped = false := by rw [h.stop, hsd, hst]; rfl
    rw [call_term_live hc st n hn c hcn (f + 3) hd' hs' (by omega)]
    have fr := bcastTerm_frame n st.observers (termState st n) rfl
    have lg := bcastTerm_log n st.observers hI.nodup (termState st n) i
    obtain ⟨f1, f2, f3, f4, f5, f6⟩ := fr
    have hexc : (termState st n).exception = match n with | .error e => some e | _ => none := by
      have := h.noexc hs'
      cases n <;> simp [termState, this]
    refine ⟨⟨?_, ?_, ?_, ?_, ?_, ?_, ?_⟩, ?_, ?_⟩
    · rw [f5]; simpa [termState] using h.disp
    · rw [f4]; simp [termState]
    · intro _ t ht
      simp only [Option.some.injEq] at ht
      subst ht
      unfold termOf
      rw [f6, hexc]
      cases n with
      | next x => simp [Notif.isTerminal] at hn
      | error e => rfl
      | completed => rfl
    · rw [f2]
      simp only [termState]
      constructor
      · intro ho
        by_cases hl : s.o = .live
        · simp [hl] at ho
        · simp only [hl, if_false] at ho; exact h.fresh.mp ho
      · intro hseen
        have := h.fresh.mpr hseen
        simp [this]
    · rw [f1]
      simp only [List.not_mem_nil, iff_false]
      by_cases hl : s.o = .live <;> simp [hl]
    · intro ho
      by_cases hl : s.o = .live <;> simp [hl] at ho
    · rw [f4]; simp [termState]
    · rw [lg.1]
      by_cases hl : s.o = .live
      · have := h.liveOk hl
        simp [hl, h.live.mp hl, termState, this.1]
      · simp [hl, hnotlive hl, termState]
    · rw [f1]; simp
  cases c with
  | next v =>
    by_cases hdt : s.disp = true ∨ s.term.isSome = true
    · exact hdead (.next v) (.next v) rfl hdt (by simp [flatStep, hdt])
    · have hsd : s.disp = false := by
        cases hh : s.disp with
        | false => rfl
        | true => exact absurd (Or.inl hh) hdt
      have hst : s.term.isSome = false := by
        cases hh : s.term.isSome with
        | false => rfl
        | true => exact absurd (Or.inr hh) hdt
      have hd' : st.disposed = false := by rw [h.disp]; exact hsd
      have hs' : st.stopped = false := by rw [h.stop, hsd, hst]; rfl
      rw [call_next_live hc st v (f + 3) hd' hs' (by omega)]
      have fr := bcastNext_frame (.next v) st.observers { st with raisedNow := none, tr := .emit (.next v) :: st.tr }
      have lg := bcastNext_log (.next v) st.observers hI.nodup { st with raisedNow := none, tr := .emit (.next v) :: st.tr } i
      obtain ⟨f1, f2, f3, f4, f5, f6, f7⟩ := fr
      have hfs : flatStep i s (.next v) = (s, if s.o = .live then [.next v] else []) := by
        simp [flatStep, hsd, hst]
      rw [hfs]
      refine ⟨h.congr f5 f4 f6 (by rw [f2]) (by rw [f1]) (by rw [f7]) (by rw [f3]), ?_, by rw [f1]; simp⟩
      rw [lg]
      by_cases hl : s.o = .live
      · have := h.liveOk hl
        simp [hl, h.live.mp hl, this.1]
      · simp [hl, hnotlive hl]
  | error e =>
    by_cases hdt : s.disp = true ∨ s.term.isSome = true
    · exact hdead (.error e) (.error e) rfl hdt (by simp [flatStep, hdt])
    · have hsd : s.disp = false := by
        cases hh : s.disp with
        | false => rfl
        | true => exact absurd (Or.inl hh) hdt
      have hst : s.term = none := by
        cases hh : s.term with
        | none => rfl
        | some t => exact absurd (Or.inr (by simp [hh])) hdt
      exact hterm (.error e) (.error e) rfl rfl hsd hst (by simp [flatStep, hsd, hst])
  | completed =>
    by_cases hdt : s.disp = true ∨ s.term.isSome = true
    · exact hdead .completed .completed rfl hdt (by simp [flatStep, hdt])
    · have hsd : s.disp = false := by
        cases hh : s.disp with
        | false => rfl
        | true => exact absurd (Or.inl hh) hdt
      have hst : s.term = none := by
        cases hh : s.term with
        | none => rfl
        | some t => exact absurd (Or.inr (by simp [hh])) hdt
      exact hterm .completed .completed rfl rfl hsd hst (by simp [flatStep, hsd, hst])
  | dispose =>
    rw [call_dispose_eq cfg st (f + 3)]
    simp only [flatStep, List.append_nil]
    refine ⟨⟨by simp [subjDispose], by simp [subjDispose], by simp, ?_, ?_, ?_, by simp [subjDispose]⟩,
      by simp [subjDispose], by simp [subjDispose]⟩
    · simp only [subjDispose]
      constructor
      · intro ho
        by_cases hl : s.o = .live
        · simp [hl] at ho
        · simp only [hl, if_false] at ho; exact h.fresh.mp ho
      · intro hseen
        have := h.fresh.mpr hseen
        simp [this]
    · simp only [subjDispose, List.not_mem_nil, iff_false]
      by_cases hl : s.o = .live <;> simp [hl]
    · intro ho
      by_cases hl : s.o = .live <;> simp [hl] at ho
  | unsub j =>
    rw [call_unsub_eq cfg st j (f + 3)]
    unfold doUnsub
    by_cases hh : st.handle j = true
    · simp only [hh, if_true]
      unfold adoDispose
      have hv := sadDispose_view { st with raisedNow := none, tr := .unsub j :: st.tr, adoStopped := upd st.adoStopped j true } j
      obtain ⟨v1, v2, v3, v4, v5, v6, v7, v8⟩ := hv
      by_cases hji : j = i
      · subst hji
        by_cases hl : s.o = .live
        · -- the live observer unsubscribes: it is removed
          have hmem := h.live.mp hl
          have hlink := hI.link j hmem
          have hcur : st.cur j = some .inner := by
            rcases hlink.2 with h' | h'
            · exact h'
            · rw [hh] at h'; exact absurd h'.1 (by simp)
          have hnd : st.disposed = false := by
            cases hd : st.disposed with
            | false => rfl
            | true =>
              have := hI.stopEmpty (hI.dispStop hd)
              rw [this] at hmem; exact absurd hmem (by simp)
          have hobs : (sadDispose { st with raisedNow := none, tr := .unsub j :: st.tr, adoStopped := upd st.adoStopped j true } j).observers = st.observers.erase j := by
            simp [sadDispose, innerDispose, hlink.1, hcur, hnd]
          simp only [flatStep, hl, and_self, if_true, List.append_nil]
          refine ⟨⟨by rw [v1]; exact h.disp, by rw [v2]; exact h.stop, ?_, ?_, ?_, by simp, by rw [v2, v3]; exact h.noexc⟩,
            by rw [v6], by rw [hobs]; exact Nat.le_trans (List.length_erase_le) (Nat.le_succ _)⟩
          · intro hd t ht
            have := h.term hd t ht
            simpa [termOf, v3] using this
          · rw [v4]
            simp only [reduceCtorEq, false_iff]
            have := hI.obsSeen j hmem
            simp [this]
          · rw [hobs]
            simp only [reduceCtorEq, false_iff]
            exact fun hm => (List.Nodup.mem_erase_iff hI.nodup).mp hm |>.1 rfl
        · have hfs : flatStep j s (.unsub j) = (s, []) := by simp [flatStep, hl]
          rw [hfs]
          have hnm := hnotlive hl
          have hobs : j ∈ (sadDispose { st with raisedNow := none, tr := .unsub j :: st.tr, adoStopped := upd st.adoStopped j true } j).observers ↔ j ∈ st.observers := by
            rcases v8 with h' | h'
            · rw [h']
            · rw [h']
              constructor
              · exact fun hm => List.mem_of_mem_erase hm
              · exact fun hm => absurd hm hnm
          refine ⟨⟨by rw [v1]; exact h.disp, by rw [v2]; exact h.stop, ?_, by rw [v4]; exact h.fresh, by rw [hobs]; exact h.live,
            fun ho => absurd ho hl, by rw [v2, v3]; exact h.noexc⟩, by rw [v6]; simp, ?_⟩
          · intro hd t ht
            have := h.term hd t ht
            simpa [termOf, v3] using this
          · rcases v8 with h' | h' <;> rw [h']
            · simp
            · exact Nat.le_trans (List.length_erase_le) (Nat.le_succ _)
      · -- somebody else unsubscribes
        have hfs : flatStep i s (.unsub j) = (s, []) := by simp [flatStep, hji]
        rw [hfs]
        have hobs : i ∈ (sadDispose { st with raisedNow := none, tr := .unsub j :: st.tr, adoStopped := upd st.adoStopped j true } j).observers ↔ i ∈ st.observers := by
          rcases v8 with h' | h'
          · rw [h']
          · rw [h']
            exact List.mem_erase_of_ne (fun e => hji e.symm)
        have hij : i ≠ j := fun e => hji e.symm
        refine ⟨⟨by rw [v1]; exact h.disp, by rw [v2]; exact h.stop, ?_, by rw [v4]; exact h.fresh, by rw [hobs]; exact h.live,
          ?_, by rw [v2, v3]; exact h.noexc⟩, by rw [v6]; simp, ?_⟩
        · intro hd t ht
          have := h.term hd t ht
          simpa [termOf, v3] using this
        · intro ho
          rw [v5, v7]
          simpa [hij] using h.liveOk ho
        · rcases v8 with h' | h' <;> rw [h']
          · simp
          · exact Nat.le_trans (List.length_erase_le) (Nat.le_succ _)
    · have hh' : st.handle j = false := by simpa using hh
      simp only [hh', Bool.false_eq_true, if_false]
      have hfs : flatStep i s (.unsub j) = (s, []) := by
        simp only [flatStep]
        split
        · rename_i hc'
          obtain ⟨rfl, hl⟩ := hc'
          have := (h.liveOk hl).2
          rw [hh'] at this; exact absurd this (by simp)
        · rfl
      rw [hfs]
      exact ⟨h.congr rfl rfl rfl rfl Iff.rfl rfl rfl, by simp, by simp⟩
  | sub j =>
    rw [call_sub_eq hc st hI j f]
    by_cases hj : st.seen j = true
    · -- a second subscribe of the same observer id: ignored
      rw [if_pos hj]
      have hfs : flatStep i s (.sub j) = (s, []) := by
        simp only [flatStep]
        split
        · rename_i hc'
          obtain ⟨rfl, ho⟩ := hc'
          have := h.fresh.mp ho
          rw [hj] at this; exact absurd this (by simp)
        · rfl
      rw [hfs]
      exact ⟨h.congr rfl rfl rfl rfl Iff.rfl rfl rfl, by simp, by simp⟩
    · have hj' : st.seen j = false := by simpa using hj
      have hfr := hI.fresh j hj'
      have hjobs : j ∉ st.observers := fun hm => by
        have := hI.obsSeen j hm; rw [hj'] at this; exact absurd this (by simp)
      rw [if_neg hj]
      -- what i's own reading says
      have hfs_other : j ≠ i → flatStep i s (.sub j) = (s, []) := by
        intro hji; simp [flatStep, hji]
      by_cases hd : st.disposed = true
      · rw [if_pos hd]
        have fv := finish_view (callback { st with raisedNow := none, seen := upd st.seen j true, adoStopped := upd st.adoStopped j true } j (.error disposedExn)) j none
        obtain ⟨v1, v2, v3, v4, v5, v6, v7, v7', v8⟩ := fv
        have hobs : (finish (callback { st with raisedNow := none, seen := upd st.seen j true, adoStopped := upd st.adoStopped j true } j (.error disposedExn)) j none).observers = st.observers := by
          rcases v8 with h' | h'
          · rw [h']; rfl
          · rw [h']; simp only [callback]; exact List.erase_of_not_mem hjobs
        by_cases hji : j = i
        · subst hji
          have hso : s.o = .fresh := h.fresh.mpr hj'
          have hsd : s.disp = true := by rw [← h.disp]; exact hd
          have hfs : flatStep j s (.sub j) = ({ s with o := .done }, [.error disposedExn]) := by
            simp [flatStep, hso, hsd]
          rw [hfs]
          refine ⟨⟨by rw [v1]; exact h.disp, by rw [v2]; exact h.stop, ?_, ?_, ?_, by simp, by rw [v2, v3]; exact h.noexc⟩, ?_, by rw [hobs]; simp⟩
          · intro hdd; rw [hsd] at hdd; exact absurd hdd (by simp)
          · rw [v4]; simp [callback]
          · rw [hobs]; simp [hjobs]
          · rw [v6]; simp [callback]
        · rw [hfs_other hji]
          have hij : i ≠ j := fun e => hji e.symm
          refine ⟨h.congr v1 v2 v3 (by rw [v4]; simp [callback, hij]) (by rw [hobs]) (by rw [v5]; simp [callback, hij])
            (by rw [v7 i hij]; rfl), by rw [v6]; simp [callback, hij], by rw [hobs]; simp⟩
      · have hd' : st.disposed = false := by simpa using hd
        have hsd : s.disp = false := by rw [← h.disp]; exact hd'
        rw [if_neg hd]
        by_cases hs : st.stopped = true
        · -- late subscriber
          rw [if_neg (by simp [hs])]
          have sv := sadDispose_view (callback { st with raisedNow := none, seen := upd st.seen j true, adoStopped := upd st.adoStopped j true } j (termOf st)) j
          have fv := finish_view (sadDispose (callback { st with raisedNow := none, seen := upd st.seen j true, adoStopped := upd st.adoStopped j true } j (termOf st)) j) j (some .noop)
          obtain ⟨w1, w2, w3, w4, w5, w6, w7, w8⟩ := sv
          obtain ⟨v1, v2, v3, v4, v5, v6, v7, v7', v8⟩ := fv
          have hobs0 : st.observers = [] := hI.stopEmpty hs
          have hobs : (finish (sadDispose (callback { st with raisedNow := none, seen := upd st.seen j true, adoStopped := upd st.adoStopped j true } j (termOf st)) j) j (some .noop)).observers = [] := by
            have e1 : (sadDispose (callback { st with raisedNow := none, seen := upd st.seen j true, adoStopped := upd st.adoStopped j true } j (termOf st)) j).observers = [] := by
              rcases w8 with h' | h' <;> rw [h'] <;> simp [callback, hobs0]
            rcases v8 with h' | h' <;> rw [h', e1] <;> simp
          by_cases hji : j = i
          · subst hji
            have hso : s.o = .fresh := h.fresh.mpr hj'
            have hterm : ∃ t, s.term = some t := by
              have := h.stop
              rw [hs, hsd] at this
              cases ht : s.term with
              | none => simp [ht] at this
              | some t => exact ⟨t, rfl⟩
            obtain ⟨t, ht⟩ := hterm
            have htt : termOf st = t := h.term hsd t ht
            have hfs : flatStep j s (.sub j) = ({ s with o := .done }, [t]) := by
              simp [flatStep, hso, hsd, ht]
            rw [hfs]
            refine ⟨⟨by rw [v1, w1]; exact h.disp, by rw [v2, w2]; exact h.stop, ?_, ?_, ?_, by simp, by rw [v2, w2, v3, w3]; exact h.noexc⟩, ?_, by rw [hobs]; simp⟩
            · intro hdd t' ht'
              have := h.term hdd t' ht'
              rw [termOf_congr (show _ = st.exception by rw [v3, w3]; rfl)]
              exact this
            · rw [v4, w4]; simp [callback]
            · rw [hobs]; simp
            · rw [v6, w6, htt]; simp [callback]
          · rw [hfs_other hji]
            have hij : i ≠ j := fun e => hji e.symm
            refine ⟨h.congr (by rw [v1, w1]; rfl) (by rw [v2, w2]; rfl) (by rw [v3, w3]; rfl) (by rw [v4, w4]; simp [callback, hij])
              (by rw [hobs, hobs0]) (by rw [v5, w5]; simp [callback, hij]) (by rw [v7 i hij, w7]; rfl),
              by rw [v6, w6]; simp [callback, hij], by rw [hobs]; simp⟩
        · -- live subscription
          have hs' : st.stopped = false := by simpa using hs
          rw [if_pos (by simp [hs'])]
          have hfin : finish { st with raisedNow := none, seen := upd st.seen j true, observers := st.observers ++ [j], tr := .sub j :: st.tr } j (some .inner) =
              { st with raisedNow := none, seen := upd st.seen j true, observers := st.observers ++ [j], tr := .sub j :: st.tr, cur := upd st.cur j (some .inner), handle := upd st.handle j true } := by
            simp [finish, hfr.2.2.1]
          rw [hfin]
          by_cases hji : j = i
          · subst hji
            have hso : s.o = .fresh := h.fresh.mpr hj'
            have hst : s.term = none := by
              have := h.stop
              rw [hs', hsd] at this
              cases ht : s.term with
              | none => rfl
              | some t => simp [ht] at this
            have hfs : flatStep j s (.sub j) = ({ s with o := .live }, []) := by
              simp [flatStep, hso, hsd, hst]
            rw [hfs]
            refine ⟨⟨h.disp, h.stop, ?_, by simp, by simp, fun _ => ⟨hfr.1, by simp⟩, h.noexc⟩, by simp, by simp⟩
            intro hdd t ht
            rw [hst] at ht; exact absurd ht (by simp)
          · rw [hfs_other hji]
            have hij : i ≠ j := fun e => hji e.symm
            refine ⟨h.congr rfl rfl rfl (by simp [hij]) (by simp [hij]) rfl (by simp [hij]), by simp, by simp⟩

end Subj

namespace Subj
variable {α : Type}

theorem run_flat_aux {cfg : Cfg} (hc : FlatCfg cfg) (i : Id) (fuel : Nat) (v : Option α) (cs : List (Call α)) :
    ∀ (st : St α) (s : Flat α), Reachable cfg v st [] → Sim i st s →
      2 * (st.observers.length + cs.length) + 4 ≤ fuel →
      (run cfg fuel st cs).1.log i = st.log i ++ flatLog i s cs := by
  induction cs with
  | nil => intro st s _ _ _; simp [run, flatLog]
  | cons c cs ih =>
    intro st s hr hs hf
    have hI := (reachable_inv hr).1
    have hcall := call_sim hc i hI hs c fuel (by simp at hf; omega)
    have hr' : Reachable cfg v (call cfg fuel st c) [] := call_reach fuel c hr
    have := ih (call cfg fuel st c) (flatStep i s c).1 hr' hcall.1 (by
      have := hcall.2.2
      simp only [List.length_cons] at hf
      omega)
    simp only [run, flatLog]
    rw [this, hcall.2.1, List.append_assoc]

/-- **Closed form for flat histories.**  For a plain Subject whose observers' callbacks only record
(no reactions, every observer has an `on_error` handler), after *any* history (with enough fuel to run
it) every observer has seen exactly what its own three-state reading of the history says. -/
theorem run_flat {cfg : Cfg} (hc : FlatCfg cfg) (i : Id) (calls : List (Call α)) (fuel : Nat)
    (hf : 2 * calls.length + 4 ≤ fuel) :
    (run cfg fuel (init cfg none) calls).1.log i = flatLog i {} calls := by
  have hinit : (init cfg (none : Option α)) = {} := by simp [init, hc.kind]
  have hsim : Sim i (init cfg (none : Option α)) ({} : Flat α) := by
    rw [hinit]
    exact ⟨rfl, rfl, fun _ t ht => by simp at ht, by simp, by simp, fun ho => by simp at ho, fun _ => rfl⟩
  have := run_flat_aux hc i fuel none calls (init cfg none) {} Reach.init hsim (by rw [hinit]; simp; omega)
  rw [this, hinit]
  simp

end Subj

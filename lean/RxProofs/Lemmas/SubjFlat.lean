import RxProofs.Lemmas.SubjThm
/-!
# Flat histories (no reactions): a closed form for every observer's log (plain Subject)

When callbacks do nothing but record, observers do not interact: what observer `i` sees is determined by
its own reading of the history — a three-state fold (`fresh → live → done`) that is the property text
itself: "subscribed and not unsubscribed when the call is made", terminal-only for late subscribers,
`DisposedException` after `dispose()`.
-/

namespace Subj
variable {α : Type}

inductive OState where
  | fresh | live | done
deriving DecidableEq, Repr

/-- What observer `i` needs to know: its own state and the subject's (terminated? disposed?). -/
structure Flat (α : Type) where
  o : OState := .fresh
  term : Option (Notif α) := none
  disp : Bool := false

/-- One history call, read by observer `i`: new state and what `i` is handed by this call. -/
def flatStep (i : Id) (s : Flat α) : Call α → Flat α × List (Notif α)
  | .sub j =>
    if j = i ∧ s.o = .fresh then
      if s.disp then ({ s with o := .done }, [.error disposedExn])
      else
        match s.term with
        | some t => ({ s with o := .done }, [t])
        | none => ({ s with o := .live }, [])
    else (s, [])
  | .unsub j => if j = i ∧ s.o = .live then ({ s with o := .done }, []) else (s, [])
  | .next v =>
    if s.disp ∨ s.term.isSome then (s, [])
    else (s, if s.o = .live then [.next v] else [])
  | .error e =>
    if s.disp ∨ s.term.isSome then (s, [])
    else ({ s with term := some (.error e), o := if s.o = .live then .done else s.o }, if s.o = .live then [.error e] else [])
  | .completed =>
    if s.disp ∨ s.term.isSome then (s, [])
    else ({ s with term := some .completed, o := if s.o = .live then .done else s.o }, if s.o = .live then [.completed] else [])
  | .dispose => ({ s with disp := true, o := if s.o = .live then .done else s.o }, [])

def flatLog (i : Id) : Flat α → List (Call α) → List (Notif α)
  | _, [] => []
  | s, c :: cs => (flatStep i s c).2 ++ flatLog i (flatStep i s c).1 cs

/-- No reactions, every observer has an `on_error` handler. -/
structure FlatCfg (cfg : Cfg) : Prop where
  kind : cfg.kind = .subject
  react : ∀ i k, cfg.react i k = []
  err : ∀ i, cfg.hasErr i = true

/-! ### big-step delivery loops -/

def bcastNext (n : Notif α) : List Id → St α → St α
  | [], st => st
  | k :: ks, st => bcastNext n ks (if st.adoStopped k then st else callback st k n)

def bcastTerm (n : Notif α) : List Id → St α → St α
  | [], st => st
  | k :: ks, st =>
    bcastTerm n ks (if st.adoStopped k then st
      else sadDispose (callback { st with adoStopped := upd st.adoStopped k true } k n) k)

theorem reactions_nil {cfg : Cfg} (hc : FlatCfg cfg) (st : St α) (i : Id) : reactions cfg st i = [] := by
  simp [reactions, hc.react]

theorem exec_nil (cfg : Cfg) (f : Nat) (st : St α) : exec cfg f st [] = st := by
  cases f <;> rfl

theorem exec_bcastNext {cfg : Cfg} (hc : FlatCfg cfg) (v : α) (l : List Id) (st : St α) (f : Nat) (hf : l.length ≤ f) :
    exec cfg f st (l.map (Task.deliver · (.next v))) = bcastNext (.next v) l st := by
  induction l generalizing st f with
  | nil => simp [exec_nil, bcastNext]
  | cons k ks ih =>
    cases f with
    | zero => simp at hf
    | succ f =>
      simp only [List.map_cons, exec, bcastNext]
      have hf' : ks.length ≤ f := by simpa using hf
      by_cases hs : st.adoStopped k = true
      · simp only [step1, deliver, hs, if_true, nextAgenda, Bool.false_eq_true, if_false, List.nil_append]
        exact ih st f hf'
      · have hs' : st.adoStopped k = false := by simpa using hs
        simp only [step1, deliver, hs', Bool.false_eq_true, if_false, nextAgenda, reactions_nil hc, List.nil_append]
        exact ih _ f hf'

theorem exec_bcastTerm {cfg : Cfg} (hc : FlatCfg cfg) (n : Notif α) (hn : n.isTerminal = true) (l : List Id) (st : St α)
    (f : Nat) (hf : 2 * l.length ≤ f) :
    exec cfg f st (l.map (Task.deliver · n)) = bcastTerm n l st := by
  induction l generalizing st f with
  | nil => simp [exec_nil, bcastTerm]
  | cons k ks ih =>
    cases f with
    | zero => simp at hf
    | succ f =>
      simp only [List.map_cons, exec, bcastTerm]
      by_cases hs : st.adoStopped k = true
      · simp only [step1, deliver, hs, if_true, nextAgenda, Bool.false_eq_true, if_false, List.nil_append]
        exact ih st f (by simp at hf; omega)
      · have hs' : st.adoStopped k = false := by simpa using hs
        cases f with
        | zero => simp at hf; omega
        | succ f =>
          have hf' : 2 * ks.length ≤ f := by simp at hf; omega
          cases n with
          | next x => simp [Notif.isTerminal] at hn
          | completed =>
            simp only [step1, deliver, hs', Bool.false_eq_true, if_false, nextAgenda, reactions_nil hc, List.nil_append,
              List.singleton_append, exec]
            exact ih _ f hf'
          | error e =>
            simp only [step1, deliver, hs', Bool.false_eq_true, if_false, nextAgenda, reactions_nil hc, List.nil_append,
              List.singleton_append, exec, hc.err k, if_true]
            exact ih _ f hf'

end Subj

namespace Subj
variable {α : Type}

/-! ### what the loops do to the fields an observer can see -/

theorem bcastNext_frame (n : Notif α) (l : List Id) (st : St α) :
    (bcastNext n l st).observers = st.observers ∧ (bcastNext n l st).seen = st.seen ∧
    (bcastNext n l st).handle = st.handle ∧ (bcastNext n l st).stopped = st.stopped ∧
    (bcastNext n l st).disposed = st.disposed ∧ (bcastNext n l st).exception = st.exception ∧
    (bcastNext n l st).adoStopped = st.adoStopped := by
  induction l generalizing st with
  | nil => simp [bcastNext]
  | cons k ks ih =>
    simp only [bcastNext]
    by_cases hs : st.adoStopped k = true
    · simp only [hs, if_true]; exact ih st
    · have hs' : st.adoStopped k = false := by simpa using hs
      simp only [hs', Bool.false_eq_true, if_false]
      have := ih (callback st k n)
      simpa [callback] using this

theorem bcastNext_log (n : Notif α) (l : List Id) (hl : l.Nodup) (st : St α) (i : Id) :
    (bcastNext n l st).log i = if i ∈ l ∧ st.adoStopped i = false then st.log i ++ [n] else st.log i := by
  induction l generalizing st with
  | nil => simp [bcastNext]
  | cons k ks ih =>
    simp only [bcastNext]
    have hk : k ∉ ks := (List.nodup_cons.mp hl).1
    rw [ih (List.nodup_cons.mp hl).2]
    by_cases hs : st.adoStopped k = true
    · simp only [hs, if_true]
      by_cases hik : i = k
      · subst hik; simp [hs, hk]
      · simp [hik]
    · have hs' : st.adoStopped k = false := by simpa using hs
      simp only [hs', Bool.false_eq_true, if_false]
      by_cases hik : i = k
      · subst hik; simp [callback, hs', hk]
      · simp [callback, hik]

theorem bcastTerm_frame (n : Notif α) (l : List Id) (st : St α) (ho : st.observers = []) :
    (bcastTerm n l st).observers = [] ∧ (bcastTerm n l st).seen = st.seen ∧
    (bcastTerm n l st).handle = st.handle ∧ (bcastTerm n l st).stopped = st.stopped ∧
    (bcastTerm n l st).disposed = st.disposed ∧ (bcastTerm n l st).exception = st.exception := by
  induction l generalizing st with
  | nil => simp [bcastTerm, ho]
  | cons k ks ih =>
    simp only [bcastTerm]
    by_cases hs : st.adoStopped k = true
    · simp only [hs, if_true]; exact ih st ho
    · have hs' : st.adoStopped k = false := by simpa using hs
      simp only [hs', Bool.false_eq_true, if_false]
      have hstep : ∀ s : St α, s.observers = [] →
          (sadDispose s k).observers = [] ∧ (sadDispose s k).seen = s.seen ∧ (sadDispose s k).handle = s.handle ∧
          (sadDispose s k).stopped = s.stopped ∧ (sadDispose s k).disposed = s.disposed ∧
          (sadDispose s k).exception = s.exception := by
        intro s hso
        unfold sadDispose innerDispose
        dsimp only
        repeat' split
        all_goals simp [hso]
      have h1 := hstep (callback { st with adoStopped := upd st.adoStopped k true } k n) (by simpa [callback] using ho)
      have h2 := ih _ h1.1
      refine ⟨h2.1, ?_, ?_, ?_, ?_, ?_⟩
      · rw [h2.2.1, h1.2.1]; rfl
      · rw [h2.2.2.1, h1.2.2.1]; rfl
      · rw [h2.2.2.2.1, h1.2.2.2.1]; rfl
      · rw [h2.2.2.2.2.1, h1.2.2.2.2.1]; rfl
      · rw [h2.2.2.2.2.2, h1.2.2.2.2.2]; rfl

theorem sadDispose_log_ado (s : St α) (k : Id) : (sadDispose s k).log = s.log ∧ (sadDispose s k).adoStopped = s.adoStopped := by
  unfold sadDispose innerDispose
  dsimp only
  repeat' split
  all_goals simp

theorem bcastTerm_log (n : Notif α) (l : List Id) (hl : l.Nodup) (st : St α) (i : Id) :
    (bcastTerm n l st).log i = (if i ∈ l ∧ st.adoStopped i = false then st.log i ++ [n] else st.log i) ∧
    ((bcastTerm n l st).adoStopped i = (st.adoStopped i || decide (i ∈ l))) := by
  induction l generalizing st with
  | nil => simp [bcastTerm]
  | cons k ks ih =>
    simp only [bcastTerm]
    have hk : k ∉ ks := (List.nodup_cons.mp hl).1
    have ih' := ih (List.nodup_cons.mp hl).2
    by_cases hs : st.adoStopped k = true
    · simp only [hs, if_true]
      have := ih' st
      by_cases hik : i = k
      · subst hik; simp [hs, hk, this]
      · simp [hik, this]
    · have hs' : st.adoStopped k = false := by simpa using hs
      simp only [hs', Bool.false_eq_true, if_false]
      have e := sadDispose_log_ado (callback { st with adoStopped := upd st.adoStopped k true } k n) k
      have := ih' (sadDispose (callback { st with adoStopped := upd st.adoStopped k true } k n) k)
      rw [this.1, this.2, e.1, e.2]
      by_cases hik : i = k
      · subst hik; simp [callback, hs', hk]
      · simp [callback, hik]

end Subj

namespace Subj
variable {α : Type}

/-- The machine state agrees with observer `i`'s own reading of the history so far. -/
structure Sim (i : Id) (st : St α) (s : Flat α) : Prop where
  disp : st.disposed = s.disp
  stop : st.stopped = (s.disp || s.term.isSome)
  term : s.disp = false → ∀ t, s.term = some t → termOf st = t
  fresh : s.o = .fresh ↔ st.seen i = false
  live : s.o = .live ↔ i ∈ st.observers
  liveOk : s.o = .live → st.adoStopped i = false ∧ st.handle i = true

theorem Sim.congr {i : Id} {st st' : St α} {s : Flat α} (h : Sim i st s) (e1 : st'.disposed = st.disposed)
    (e2 : st'.stopped = st.stopped) (e3 : st'.exception = st.exception) (e4 : st'.seen i = st.seen i)
    (e5 : st'.observers = st.observers) (e6 : st'.adoStopped i = st.adoStopped i) (e7 : st'.handle i = st.handle i) :
    Sim i st' s :=
  ⟨e1.trans h.disp, e2.trans h.stop, fun hd t ht => by have := h.term hd t ht; simpa [termOf, e3] using this,
   by rw [e4]; exact h.fresh, by rw [e5]; exact h.live, fun ho => by rw [e6, e7]; exact h.liveOk ho⟩

theorem exec_one (cfg : Cfg) (f : Nat) (st : St α) (t : Task α) (ts : List (Task α)) :
    exec cfg (f + 1) st (t :: ts) = exec cfg f (step1 cfg st t).1 (nextAgenda (step1 cfg st t) ts) := rfl

/-! ### the result of each kind of call on a flat configuration -/

theorem call_emit_disposed (cfg : Cfg) (st : St α) (n : Notif α) (f : Nat) (hd : st.disposed = true) (c : Call α)
    (hcn : c.toTask = .emit n) :
    call cfg (f + 1) st c = { st with raisedNow := some disposedExn } := by
  unfold call
  rw [hcn, exec_one]
  have : step1 cfg { st with raisedNow := none } (.emit n) = ({ st with raisedNow := some disposedExn }, [], false) := by
    simp [step1, emit, hd]
  rw [this]
  simp [nextAgenda, exec_nil]

theorem call_emit_stopped (cfg : Cfg) (st : St α) (n : Notif α) (f : Nat) (hd : st.disposed = false) (hs : st.stopped = true)
    (c : Call α) (hcn : c.toTask = .emit n) :
    call cfg (f + 1) st c = { st with raisedNow := none } := by
  unfold call
  rw [hcn, exec_one]
  have : step1 cfg { st with raisedNow := none } (.emit n) = ({ st with raisedNow := none }, [], false) := by
    simp [step1, emit, hd, hs]
  rw [this]
  simp [nextAgenda, exec_nil]

theorem call_next_live {cfg : Cfg} (hc : FlatCfg cfg) (st : St α) (v : α) (f : Nat) (hd : st.disposed = false)
    (hs : st.stopped = false) (hf : st.observers.length ≤ f) :
    call cfg (f + 1) st (.next v) =
      bcastNext (.next v) st.observers { st with raisedNow := none, tr := .emit (.next v) :: st.tr } := by
  unfold call
  rw [show (Call.next v : Call α).toTask = .emit (.next v) from rfl, exec_one]
  have : step1 cfg { st with raisedNow := none } (.emit (.next v)) =
      ({ st with raisedNow := none, tr := .emit (.next v) :: st.tr }, st.observers.map (Task.deliver · (.next v)), false) := by
    simp [step1, emit, hd, hs, hc.kind]
  rw [this]
  simp only [nextAgenda, Bool.false_eq_true, if_false, List.append_nil]
  exact exec_bcastNext hc v st.observers _ f hf

/-- The subject right after accepting a terminal notification (before the delivery loop). -/
def termState (st : St α) (n : Notif α) : St α :=
  { st with raisedNow := none, tr := .emit n :: st.tr, stopped := true, observers := [], exception := (match n with | .error e => some e | _ => st.exception) }

theorem call_term_live {cfg : Cfg} (hc : FlatCfg cfg) (st : St α) (n : Notif α) (hn : n.isTerminal = true) (c : Call α)
    (hcn : c.toTask = .emit n) (f : Nat) (hd : st.disposed = false) (hs : st.stopped = false)
    (hf : 2 * st.observers.length ≤ f) :
    call cfg (f + 1) st c = bcastTerm n st.observers (termState st n) := by
  unfold call
  rw [hcn, exec_one]
  have : step1 cfg { st with raisedNow := none } (.emit n) =
      (termState st n, st.observers.map (Task.deliver · n), false) := by
    cases n with
    | next x => simp [Notif.isTerminal] at hn
    | error e => simp [step1, emit, hd, hs, termState]
    | completed => simp [step1, emit, hd, hs, hc.kind, termState]
  rw [this]
  simp only [nextAgenda, Bool.false_eq_true, if_false, List.append_nil]
  exact exec_bcastTerm hc n hn st.observers _ f hf

end Subj

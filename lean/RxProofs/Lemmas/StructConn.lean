import RxModel.Conn
/-!
# Invariants of the Connectable model (C24)

`ConnInv`: the source subscriptions that are open are at most the one owned by the live connection
handle.  Every primitive of the model preserves it, hence so does every history.
-/

namespace Conn
namespace World
variable {α : Type}

/-- not connected: nothing open, no live handle; connected: a live handle owning source
subscription `sid`, which is the only one that can be open. -/
def ConnInv (w : World α) : Prop :=
  (w.hasSub = false → w.srcOpen = [] ∧ w.curHandle = none ∧ w.curSrc = none) ∧
  (w.hasSub = true → w.curHandle.isSome = true ∧
    ∃ sid, w.curSrc = some sid ∧ (w.srcOpen = [] ∨ ∃ p, w.srcOpen = [⟨sid, p⟩]))

theorem ConnInv.length_le_one {w : World α} (h : ConnInv w) : w.srcOpen.length ≤ 1 := by
  cases hs : w.hasSub with
  | false => simp [(h.1 hs).1]
  | true =>
    obtain ⟨_, sid, _, h3⟩ := h.2 hs
    rcases h3 with h3 | ⟨p, h3⟩ <;> simp [h3]

/-- `ConnInv` only looks at four fields -/
theorem ConnInv.congr {w w' : World α} (h : ConnInv w) (h1 : w'.hasSub = w.hasSub)
    (h2 : w'.srcOpen = w.srcOpen) (h3 : w'.curHandle = w.curHandle) (h4 : w'.curSrc = w.curSrc) :
    ConnInv w' := by
  unfold ConnInv at *
  rw [h1, h2, h3, h4]; exact h

theorem closeSrc_inv {w : World α} (h : ConnInv w) (t sid : Nat) : ConnInv (w.closeSrc t sid) := by
  unfold closeSrc
  split
  · refine ⟨fun hs => ?_, fun hs => ?_⟩
    · simp only at hs
      have := h.1 hs
      simp [this.1, this.2]
    · simp only at hs
      obtain ⟨hh, sid', hc, ho⟩ := h.2 hs
      refine ⟨hh, sid', hc, ?_⟩
      rcases ho with ho | ⟨p, ho⟩
      · left; simp [ho]
      · by_cases he : sid' = sid
        · left; simp [ho, he]
        · right; exact ⟨p, by simp [ho, he]⟩
  · exact h

theorem connect_inv {w : World α} (h : ConnInv w) (t : Nat) : ConnInv (w.connect t) := by
  unfold connect
  split
  · exact h
  · rename_i hs
    have hs' : w.hasSub = false := by simpa using hs
    have := h.1 hs'
    refine ⟨fun hc => by simp at hc, fun _ => ?_⟩
    refine ⟨rfl, w.nextSrc, rfl, Or.inr ⟨(match w.hot with
      | some _ => []
      | none => w.coldMsgs.map (fun m => (t + m.1, m.2))), ?_⟩⟩
    simp only [this.1, List.nil_append]
    rfl

theorem disposeHandle_inv {w : World α} (h : ConnInv w) (t k : Nat) : ConnInv (w.disposeHandle t k) := by
  unfold disposeHandle
  split
  · rename_i hk
    cases hs : w.hasSub with
    | false =>
      have := h.1 hs
      rw [this.2.1] at hk; cases hk
    | true =>
      obtain ⟨_, sid, hc, ho⟩ := h.2 hs
      refine ⟨fun _ => ?_, fun hc' => by simp at hc'⟩
      simp only [hc, and_self, and_true]
      unfold closeSrc
      rcases ho with ho | ⟨p, ho⟩
      · simp [ho]
      · simp [ho]
  · exact h

/-! field lemmas: what `closeSrc` / `disposeHandle` / `connect` leave alone -/
section fields
variable (w : World α) (t sid h : Nat)

@[simp] theorem closeSrc_hasSub : (w.closeSrc t sid).hasSub = w.hasSub := by unfold closeSrc; split <;> rfl
@[simp] theorem closeSrc_curHandle : (w.closeSrc t sid).curHandle = w.curHandle := by unfold closeSrc; split <;> rfl
@[simp] theorem closeSrc_curSrc : (w.closeSrc t sid).curSrc = w.curSrc := by unfold closeSrc; split <;> rfl
@[simp] theorem closeSrc_count : (w.closeSrc t sid).count = w.count := by unfold closeSrc; split <;> rfl
@[simp] theorem closeSrc_live : (w.closeSrc t sid).live = w.live := by unfold closeSrc; split <;> rfl
@[simp] theorem closeSrc_wrap : (w.closeSrc t sid).wrap = w.wrap := by unfold closeSrc; split <;> rfl
@[simp] theorem closeSrc_connSub : (w.closeSrc t sid).connSub = w.connSub := by unfold closeSrc; split <;> rfl
@[simp] theorem closeSrc_isConnected : (w.closeSrc t sid).isConnected = w.isConnected := by unfold closeSrc; split <;> rfl

@[simp] theorem disposeHandle_count : (w.disposeHandle t h).count = w.count := by
  unfold disposeHandle; split <;> (try split) <;> simp
@[simp] theorem disposeHandle_live : (w.disposeHandle t h).live = w.live := by
  unfold disposeHandle; split <;> (try split) <;> simp
@[simp] theorem disposeHandle_wrap : (w.disposeHandle t h).wrap = w.wrap := by
  unfold disposeHandle; split <;> (try split) <;> simp
@[simp] theorem disposeHandle_connSub : (w.disposeHandle t h).connSub = w.connSub := by
  unfold disposeHandle; split <;> (try split) <;> simp
@[simp] theorem disposeHandle_isConnected : (w.disposeHandle t h).isConnected = w.isConnected := by
  unfold disposeHandle; split <;> (try split) <;> simp
theorem disposeHandle_hasSub_cur (hc : w.curHandle = some h) : (w.disposeHandle t h).hasSub = false := by
  unfold disposeHandle; simp only [hc, if_true]
theorem disposeHandle_other (hc : w.curHandle ≠ some h) : w.disposeHandle t h = w := by
  unfold disposeHandle; simp only [hc, if_false]

@[simp] theorem closeLog_length (log : List (Nat × Nat × Option Nat)) (sid t : Nat) :
    (closeLog log sid t).length = log.length := by simp [closeLog]
@[simp] theorem closeSrc_srcLog_length : (w.closeSrc t sid).srcLog.length = w.srcLog.length := by
  unfold closeSrc; split <;> simp
@[simp] theorem disposeHandle_srcLog_length : (w.disposeHandle t h).srcLog.length = w.srcLog.length := by
  unfold disposeHandle; split <;> (try split) <;> simp

@[simp] theorem connect_count : (w.connect t).count = w.count := by unfold connect; split <;> rfl
@[simp] theorem connect_live : (w.connect t).live = w.live := by unfold connect; split <;> rfl
@[simp] theorem connect_wrap : (w.connect t).wrap = w.wrap := by unfold connect; split <;> rfl
@[simp] theorem connect_connSub : (w.connect t).connSub = w.connSub := by unfold connect; split <;> rfl
@[simp] theorem connect_isConnected : (w.connect t).isConnected = w.isConnected := by unfold connect; split <;> rfl
@[simp] theorem connect_hasSub : (w.connect t).hasSub = true := by
  unfold connect; split
  · assumption
  · rfl
theorem connect_of_hasSub (hs : w.hasSub = true) : w.connect t = w := by unfold connect; simp only [hs, if_true]
end fields

theorem disposeSub_srcLog_length (w : World α) (t i : Nat) : (w.disposeSub t i).srcLog.length = w.srcLog.length := by
  unfold disposeSub
  split
  · split
    · rfl
    · simp only []
      split
      · split
        · split
          · simp
          · rfl
        · rfl
      · rfl
    · rfl
  · rfl

theorem disposeSub_inv {w : World α} (h : ConnInv w) (t i : Nat) : ConnInv (w.disposeSub t i) := by
  unfold disposeSub
  split
  · split
    · exact h.congr rfl rfl rfl rfl
    · simp only []
      split
      · split
        · split
          · apply disposeHandle_inv; exact h.congr rfl rfl rfl rfl
          · exact h.congr rfl rfl rfl rfl
        · exact h.congr rfl rfl rfl rfl
      · exact h.congr rfl rfl rfl rfl
    · exact h.congr rfl rfl rfl rfl
  · exact h

theorem deliver_inv (t : Nat) (dl : List (Nat × Notif α)) : ∀ {w : World α}, ConnInv w → ConnInv (w.deliver t dl) := by
  induction dl with
  | nil => intro w h; exact h
  | cons d rest ih =>
    intro w h
    obtain ⟨i, n⟩ := d
    simp only [deliver]
    apply ih
    have h1 : ConnInv ({ w with out := w.out ++ [(i, t, n)] } : World α) := h.congr rfl rfl rfl rfl
    split
    · exact disposeSub_inv h1 t i
    · exact h1

theorem record_inv {w : World α} (h : ConnInv w) (t : Nat) (dl : List (Nat × Notif α)) : ConnInv (w.record t dl) :=
  h.congr rfl rfl rfl rfl

theorem opSub_inv {w : World α} (h : ConnInv w) (t i : Nat) : ConnInv (w.opSub t i) := by
  unfold opSub
  split
  · simp only []
    split
    · apply disposeSub_inv; exact h.congr rfl rfl rfl rfl
    · exact h.congr rfl rfl rfl rfl
  · simp only []
    have h1 : ConnInv (({ w with count := w.count + 1, subj := (w.subj.subscribe i).1, live := w.live ++ [i] } : World α).record t (w.subj.subscribe i).2) :=
      h.congr rfl rfl rfl rfl
    split
    · split
      · apply disposeSub_inv; exact (connect_inv h1 t).congr rfl rfl rfl rfl
      · exact disposeSub_inv h1 t i
    · split
      · exact (connect_inv h1 t).congr rfl rfl rfl rfl
      · exact h1
  · simp only []
    have h1 : ConnInv (({ w with count := w.count + 1, subj := (w.subj.subscribe i).1, live := w.live ++ [i] } : World α).record t (w.subj.subscribe i).2) :=
      h.congr rfl rfl rfl rfl
    split
    · split
      · apply disposeSub_inv; exact (connect_inv h1 t).congr rfl rfl rfl rfl
      · exact disposeSub_inv h1 t i
    · split
      · exact (connect_inv h1 t).congr rfl rfl rfl rfl
      · exact h1

theorem srcDeliver_inv {w : World α} (h : ConnInv w) (t sid : Nat) (n : Notif α) : ConnInv (w.srcDeliver t sid n) := by
  unfold srcDeliver
  have h1 : ConnInv (({ w with subj := (w.subj.onNotif n).1 } : World α).deliver t (w.subj.onNotif n).2) :=
    deliver_inv t _ (h.congr rfl rfl rfl rfl)
  split
  · exact closeSrc_inv h1 t sid
  · exact h1

theorem popCold_shape (subs : List (SrcSub α)) (sid sid' : Nat) :
    (subs = [] → popCold subs sid' = []) ∧
    (∀ p, subs = [⟨sid, p⟩] → ∃ p', popCold subs sid' = [⟨sid, p'⟩]) := by
  refine ⟨fun h => by simp [h, popCold], fun p h => ?_⟩
  subst h
  by_cases he : sid = sid'
  · exact ⟨p.drop 1, by simp [popCold, he]⟩
  · exact ⟨p, by simp [popCold, he]⟩

theorem popCold_inv {w : World α} (h : ConnInv w) (sid' : Nat) :
    ConnInv ({ w with srcOpen := popCold w.srcOpen sid' } : World α) := by
  refine ⟨fun hs => ?_, fun hs => ?_⟩
  · have := h.1 hs
    exact ⟨by simp [this.1, popCold], this.2.1, this.2.2⟩
  · obtain ⟨hh, sid, hc, ho⟩ := h.2 hs
    refine ⟨hh, sid, hc, ?_⟩
    rcases ho with ho | ⟨p, ho⟩
    · left; exact (popCold_shape w.srcOpen sid sid').1 ho
    · right; exact (popCold_shape w.srcOpen sid sid').2 p ho

theorem foldl_srcDeliver_inv (t : Nat) (n : Notif α) (subs : List (SrcSub α)) :
    ∀ {w : World α}, ConnInv w →
      ConnInv (subs.foldl (fun (acc : World α) (s : SrcSub α) => acc.srcDeliver t s.id n) w) := by
  induction subs with
  | nil => intro w h; exact h
  | cons s rest ih => intro w h; exact ih (srcDeliver_inv h t s.id n)

theorem advance_inv (limit : Nat) : ∀ (fuel : Nat) {w : World α}, ConnInv w → ConnInv (advance limit fuel w) := by
  intro fuel
  induction fuel with
  | zero => intro w h; exact h
  | succ k ih =>
    intro w h
    unfold advance
    simp only []
    split
    · exact h
    · apply ih
      apply foldl_srcDeliver_inv
      exact h.congr rfl rfl rfl rfl
    · apply ih
      apply srcDeliver_inv
      exact popCold_inv h _
    · split
      · apply ih
        apply foldl_srcDeliver_inv
        exact h.congr rfl rfl rfl rfl
      · apply ih
        apply srcDeliver_inv
        exact popCold_inv h _

theorem applyOp_inv {w : World α} (h : ConnInv w) (hs : List (Option Nat)) (t : Nat) (op : Op) :
    ConnInv (w.applyOp hs t op).1 := by
  cases op with
  | sub i => exact opSub_inv h t i
  | unsub i => exact disposeSub_inv h t i
  | connect => exact connect_inv h t
  | disconnect k =>
    simp only [applyOp]
    split
    · exact disposeHandle_inv h t _
    · exact h

theorem runOps_inv (ops : List (Nat × Op)) : ∀ {w : World α} (hs : List (Option Nat)), ConnInv w →
    ConnInv (w.runOps hs ops).1 := by
  induction ops with
  | nil => intro w hs h; exact h
  | cons o rest ih =>
    intro w hs h
    obtain ⟨t, op⟩ := o
    simp only [runOps]
    exact ih _ (applyOp_inv (advance_inv t _ h) hs t op)

theorem foldl_disposeSub_inv (t : Nat) (l : List Nat) : ∀ {w : World α}, ConnInv w →
    ConnInv (l.foldl (fun (acc : World α) i => acc.disposeSub t i) w) := by
  induction l with
  | nil => intro w h; exact h
  | cons i rest ih => intro w h; exact ih (disposeSub_inv h t i)

/-- a freshly built multicast observable: not connected, no source subscription -/
def Fresh (w : World α) : Prop :=
  w.hasSub = false ∧ w.srcOpen = [] ∧ w.curHandle = none ∧ w.curSrc = none ∧ w.count = 0 ∧ w.live = [] ∧
    w.isConnected = false ∧ w.connSub = none

theorem Fresh.inv {w : World α} (h : Fresh w) : ConnInv w :=
  ⟨fun _ => ⟨h.2.1, h.2.2.1, h.2.2.2.1⟩, fun hs => by rw [h.1] at hs; cases hs⟩

theorem run_inv {w : World α} (h : ConnInv w) (ops : List (Nat × Op)) (horizon : Nat) :
    ConnInv (w.run ops horizon) := by
  unfold run
  simp only []
  have h0 : ConnInv (match w.wrap with
      | .autoConnect 0 => { (w.connect 0) with isConnected := true }
      | _ => w) := by
    split
    · exact (connect_inv h 0).congr rfl rfl rfl rfl
    · exact h
  split
  · apply disposeHandle_inv
    apply foldl_disposeSub_inv
    apply advance_inv
    exact runOps_inv ops [] h0
  · apply foldl_disposeSub_inv
    apply advance_inv
    exact runOps_inv ops [] h0

end World
end Conn

import RxProofs.Lemmas.AggBase
import RxModel.AggSeqEq
/-!
# `sequence_equal`: the event machine equals the declarative decision function `seqSpec`
-/

namespace Agg

def specOut : Option Bool → List (Notif Bool)
  | some b => decided b
  | none => []

/-- elements a side still contributes: nothing once its observer is stopped -/
def restE {α} (stopped : Bool) (evs : List (Notif α)) : List α := if stopped then [] else elems evs
def isDone {α} (evs : List (Notif α)) : Bool := ending evs == .done

theorem seqOutFrom_cons {α} (cmp : α → α → Except Err Bool) (lag : Bool) (st : SeqRun α) (ev) (tr) :
    seqOutFrom cmp lag st (ev :: tr) = (seqStep cmp lag st ev).out ++ seqOutFrom cmp lag (seqStep cmp lag st ev).st tr := by
  simp [seqOutFrom, seqSteps]

theorem seqOutFrom_down {α} (cmp : α → α → Except Err Bool) (lag : Bool) (st : SeqRun α) (h : st.down = true)
    (tr : List (Side × Notif α)) : seqOutFrom cmp lag st tr = [] := by
  induction tr generalizing st with
  | nil => rfl
  | cons ev tr ih =>
    rw [seqOutFrom_cons]
    unfold seqStep
    split
    · simp [ih st h]
    · simp only [h, deliver_true, List.nil_append]
      apply ih; rfl

@[simp] theorem sideOf_nil {α} (sd : Side) : sideOf sd ([] : List (Side × Notif α)) = [] := rfl
theorem sideOf_cons_same {α} (sd : Side) (n : Notif α) (tr) : sideOf sd ((sd, n) :: tr) = n :: sideOf sd tr := by
  simp [sideOf]
@[simp] theorem sideOf_L_consL {α} (n : Notif α) (tr) : sideOf .L ((.L, n) :: tr) = n :: sideOf .L tr := by simp [sideOf]
@[simp] theorem sideOf_R_consR {α} (n : Notif α) (tr) : sideOf .R ((.R, n) :: tr) = n :: sideOf .R tr := by simp [sideOf]
@[simp] theorem sideOf_L_consR {α} (n : Notif α) (tr) : sideOf .L ((.R, n) :: tr) = sideOf .L tr := by simp [sideOf]
@[simp] theorem sideOf_R_consL {α} (n : Notif α) (tr) : sideOf .R ((.L, n) :: tr) = sideOf .R tr := by simp [sideOf]

@[simp] theorem seqSpec_nil_cons_done {α} (eq : α → α → Bool) (y : α) (rs) (dr) :
    seqSpec eq [] (y :: rs) true dr = some false := rfl
@[simp] theorem seqSpec_cons_nil_done {α} (eq : α → α → Bool) (x : α) (ls) (dl) :
    seqSpec eq (x :: ls) [] dl true = some false := rfl
@[simp] theorem seqSpec_nil_nil {α} (eq : α → α → Bool) (dl dr) :
    seqSpec eq ([] : List α) [] dl dr = if dl && dr then some true else none := rfl
@[simp] theorem seqSpec_cons_cons {α} (eq : α → α → Bool) (x y : α) (ls rs) (dl dr) :
    seqSpec eq (x :: ls) (y :: rs) dl dr = if eq x y then seqSpec eq ls rs dl dr else some false := rfl

@[simp] theorem side_LR : (Side.L == Side.R) = false := by decide
@[simp] theorem side_RL : (Side.R == Side.L) = false := by decide
@[simp] theorem isTerminal_next {α} (v : α) : (Notif.next v).isTerminal = false := rfl
@[simp] theorem isTerminal_completed {α} : (Notif.completed : Notif α).isTerminal = true := rfl
@[simp] theorem isTerminal_error {α} (e : Err) : (Notif.error e : Notif α).isTerminal = true := rfl

@[simp] theorem restE_true {α} (evs : List (Notif α)) : restE true evs = [] := rfl
@[simp] theorem restE_false {α} (evs : List (Notif α)) : restE false evs = elems evs := rfl
@[simp] theorem isDone_completed {α} (ns : List (Notif α)) : isDone (.completed :: ns) = true := rfl
@[simp] theorem isDone_next {α} (v : α) (ns : List (Notif α)) : isDone (.next v :: ns) = isDone ns := rfl

theorem seqSpec_mismatch {α} (eq : α → α → Bool) (pl pr : List α) (x y : α) (ls rs : List α) (dl dr : Bool)
    (hp : listEq eq pl pr = true) (hxy : eq x y = false) :
    seqSpec eq (pl ++ x :: ls) (pr ++ y :: rs) dl dr = some false := by
  induction pl generalizing pr with
  | nil =>
    cases pr with
    | nil => simp [hxy]
    | cons b pr => simp [listEq] at hp
  | cons a pl ih =>
    cases pr with
    | nil => simp [listEq] at hp
    | cons b pr =>
      simp only [listEq, Bool.and_eq_true] at hp
      simp only [List.cons_append, seqSpec_cons_cons, hp.1, if_true]
      exact ih pr hp.2

/-- Main invariant theorem: from any *undecided* state (`down = false`, each side's observer stopped iff it
completed, at most one queue non-empty, a completed side never faces a non-empty queue of the other, not both
completed) and for every error-free continuation, the output is the decision of `seqSpec` on
queued ++ future elements. -/
theorem seqOutFrom_spec {α} (eq : α → α → Bool) (hsym : ∀ a b, eq a b = eq b a) (lag : Bool)
    (tr : List (Side × Notif α)) (hne : ∀ ev ∈ tr, ∀ e, ev.2 ≠ .error e)
    (dl dr : Bool) (ql qr : List α)
    (hone : ql = [] ∨ qr = []) (hdl : dl = true → qr = []) (hdr : dr = true → ql = [])
    (hnb : ¬ (dl = true ∧ dr = true)) :
    seqOutFrom (fun a b => .ok (eq a b)) lag ⟨dl, dr, ⟨dl, dr, ql, qr, false⟩, false⟩ tr
      = specOut (seqSpec eq (ql ++ restE dl (sideOf .L tr)) (qr ++ restE dr (sideOf .R tr))
          (dl || isDone (sideOf .L tr)) (dr || isDone (sideOf .R tr))) := by
  induction tr generalizing dl dr ql qr with
  | nil =>
    have h1 : restE dl (sideOf Side.L ([] : List (Side × Notif α))) = [] := by cases dl <;> rfl
    have h2 : restE dr (sideOf Side.R ([] : List (Side × Notif α))) = [] := by cases dr <;> rfl
    simp only [sideOf_nil, isDone, ending]
    cases ql with
    | nil =>
      cases qr with
      | nil => cases dl <;> cases dr <;> simp_all [seqOutFrom, seqSteps, specOut]
      | cons y qr => cases dl <;> simp_all [seqOutFrom, seqSteps, specOut, seqSpec]
    | cons x ql =>
      cases qr with
      | nil => cases dr <;> simp_all [seqOutFrom, seqSteps, specOut, seqSpec]
      | cons y qr => simp at hone
  | cons ev tr ih =>
    have hne' : ∀ ev ∈ tr, ∀ e, ev.2 ≠ .error e := fun ev h => hne ev (List.mem_cons_of_mem _ h)
    obtain ⟨sd, n⟩ := ev
    rw [seqOutFrom_cons]
    cases sd with
    | L =>
      cases n with
      | error e => exact absurd rfl (hne _ List.mem_cons_self e)
      | next x =>
        cases dl with
        | true =>
          -- left observer already stopped: ignored
          have := ih hne' true dr ql qr hone hdl hdr hnb
          simpa [seqStep, SeqRun.up] using this
        | false =>
          cases qr with
          | cons v qr' =>
            have hql : ql = [] := by rcases hone with h | h; exact h; cases h
            subst hql
            by_cases hv : eq v x = true
            · have hx : eq x v = true := by rw [hsym]; exact hv
              have := ih hne' false dr [] qr' (Or.inl rfl) (by simp) (by simp) (by simp)
              simpa [seqStep, SeqRun.up, seqHandle, seqHandleU, emitD, hv, hx] using this
            · have hx : eq x v = false := by rw [hsym]; simpa using hv
              simp only [Bool.not_eq_true] at hv
              have hd := seqOutFrom_down (fun a b => (.ok (eq a b) : Except Err Bool)) lag
              simp [seqStep, SeqRun.up, seqHandle, seqHandleU, emitD, hv, hx, decided, deliver, Notif.isTerminal, hd, specOut]
          | nil =>
            cases dr with
            | true =>
              have hql : ql = [] := hdr rfl
              subst hql
              have hd := seqOutFrom_down (fun a b => (.ok (eq a b) : Except Err Bool)) lag
              simp [seqStep, SeqRun.up, seqHandle, seqHandleU, emitD, decided, deliver, Notif.isTerminal, hd, specOut]
            | false =>
              have := ih hne' false false (ql ++ [x]) [] (Or.inr rfl) (by simp) (by simp) (by simp)
              simpa [seqStep, SeqRun.up, seqHandle, seqHandleU, emitD] using this
      | completed =>
        cases dl with
        | true =>
          have := ih hne' true dr ql qr hone hdl hdr hnb
          simpa [seqStep, SeqRun.up] using this
        | false =>
          cases ql with
          | nil =>
            cases qr with
            | cons v qr' =>
              have hd := seqOutFrom_down (fun a b => (.ok (eq a b) : Except Err Bool)) lag
              simp [seqStep, SeqRun.up, seqHandle, seqHandleU, emitD, decided, deliver, Notif.isTerminal, hd, specOut]
            | nil =>
              cases dr with
              | true =>
                have hd := seqOutFrom_down (fun a b => (.ok (eq a b) : Except Err Bool)) lag
                simp [seqStep, SeqRun.up, seqHandle, seqHandleU, emitD, decided, deliver, Notif.isTerminal, hd, specOut]
              | false =>
                have := ih hne' true false [] [] (Or.inl rfl) (by simp) (by simp) (by simp)
                simpa [seqStep, SeqRun.up, seqHandle, seqHandleU, emitD, Notif.isTerminal] using this
          | cons y ql' =>
            have hqr : qr = [] := by rcases hone with h | h; cases h; exact h
            subst hqr
            have hdr' : dr = false := by cases dr; rfl; exact absurd (hdr rfl) (by simp)
            subst hdr'
            have := ih hne' true false (y :: ql') [] (Or.inr rfl) (by simp) (by simp) (by simp)
            simpa [seqStep, SeqRun.up, seqHandle, seqHandleU, emitD, Notif.isTerminal] using this
    | R =>
      cases n with
      | error e => exact absurd rfl (hne _ List.mem_cons_self e)
      | next x =>
        cases dr with
        | true =>
          have := ih hne' dl true ql qr hone hdl hdr hnb
          simpa [seqStep, SeqRun.up] using this
        | false =>
          cases ql with
          | cons v ql' =>
            have hqr : qr = [] := by rcases hone with h | h; cases h; exact h
            subst hqr
            by_cases hv : eq v x = true
            · have := ih hne' dl false ql' [] (Or.inr rfl) (by simp) (by simp) (by simp)
              simpa [seqStep, SeqRun.up, seqHandle, seqHandleU, emitD, hv] using this
            · simp only [Bool.not_eq_true] at hv
              have hd := seqOutFrom_down (fun a b => (.ok (eq a b) : Except Err Bool)) lag
              simp [seqStep, SeqRun.up, seqHandle, seqHandleU, emitD, hv, decided, deliver, Notif.isTerminal, hd, specOut]
          | nil =>
            cases dl with
            | true =>
              have hqr : qr = [] := hdl rfl
              subst hqr
              have hd := seqOutFrom_down (fun a b => (.ok (eq a b) : Except Err Bool)) lag
              simp [seqStep, SeqRun.up, seqHandle, seqHandleU, emitD, decided, deliver, Notif.isTerminal, hd, specOut]
            | false =>
              have := ih hne' false false [] (qr ++ [x]) (Or.inl rfl) (by simp) (by simp) (by simp)
              simpa [seqStep, SeqRun.up, seqHandle, seqHandleU, emitD] using this
      | completed =>
        cases dr with
        | true =>
          have := ih hne' dl true ql qr hone hdl hdr hnb
          simpa [seqStep, SeqRun.up] using this
        | false =>
          cases qr with
          | nil =>
            cases ql with
            | cons v ql' =>
              have hd := seqOutFrom_down (fun a b => (.ok (eq a b) : Except Err Bool)) lag
              simp [seqStep, SeqRun.up, seqHandle, seqHandleU, emitD, decided, deliver, Notif.isTerminal, hd, specOut]
            | nil =>
              cases dl with
              | true =>
                have hd := seqOutFrom_down (fun a b => (.ok (eq a b) : Except Err Bool)) lag
                simp [seqStep, SeqRun.up, seqHandle, seqHandleU, emitD, decided, deliver, Notif.isTerminal, hd, specOut]
              | false =>
                have := ih hne' false true [] [] (Or.inl rfl) (by simp) (by simp) (by simp)
                simpa [seqStep, SeqRun.up, seqHandle, seqHandleU, emitD, Notif.isTerminal] using this
          | cons y qr' =>
            have hql : ql = [] := by rcases hone with h | h; exact h; cases h
            subst hql
            have hdl' : dl = false := by cases dl; rfl; exact absurd (hdl rfl) (by simp)
            subst hdl'
            have := ih hne' false true [] (y :: qr') (Or.inl rfl) (by simp) (by simp) (by simp)
            simpa [seqStep, SeqRun.up, seqHandle, seqHandleU, emitD, Notif.isTerminal] using this

theorem seqSpec_done {α} (eq : α → α → Bool) (ls rs : List α) :
    seqSpec eq ls rs true true = some (listEq eq ls rs) := by
  induction ls generalizing rs with
  | nil => cases rs <;> simp [listEq, seqSpec]
  | cons x ls ih =>
    cases rs with
    | nil => simp [listEq]
    | cons y rs => simp only [seqSpec_cons_cons, listEq, ih]; cases eq x y <;> simp

def specOutOr (e : Err) : Option Bool → List (Notif Bool)
  | some b => decided b
  | none => [.error e]

/-- Error forwarding: after an error-free prefix `pre` from an undecided state, an `on_error` of a side that has not
completed reaches the subscriber iff nothing was decided during `pre`; nothing follows in either case. -/
theorem seqOutFrom_error {α} (eq : α → α → Bool) (hsym : ∀ a b, eq a b = eq b a) (lag : Bool)
    (sd : Side) (e : Err) (post : List (Side × Notif α))
    (pre : List (Side × Notif α)) (hne : ∀ ev ∈ pre, ∀ e, ev.2 ≠ .error e)
    (hnc : ∀ ev ∈ pre, ev ≠ (sd, .completed))
    (dl dr : Bool) (ql qr : List α)
    (hone : ql = [] ∨ qr = []) (hdl : dl = true → qr = []) (hdr : dr = true → ql = [])
    (hnb : ¬ (dl = true ∧ dr = true))
    (hliveL : sd = .L → dl = false) (hliveR : sd = .R → dr = false) :
    seqOutFrom (fun a b => .ok (eq a b)) lag ⟨dl, dr, ⟨dl, dr, ql, qr, false⟩, false⟩ (pre ++ (sd, .error e) :: post)
      = specOutOr e (seqSpec eq (ql ++ restE dl (sideOf .L pre)) (qr ++ restE dr (sideOf .R pre))
          (dl || isDone (sideOf .L pre)) (dr || isDone (sideOf .R pre))) := by
  have hd := seqOutFrom_down (fun a b => (.ok (eq a b) : Except Err Bool)) lag
  induction pre generalizing dl dr ql qr with
  | nil =>
    simp only [List.nil_append, sideOf_nil, isDone, ending]
    rw [seqOutFrom_cons]
    have hspec : seqSpec eq (ql ++ restE dl ([] : List (Notif α))) (qr ++ restE dr ([] : List (Notif α)))
        (dl || (Ending.open == Ending.done)) (dr || (Ending.open == Ending.done)) = none := by
      have h1 : restE dl ([] : List (Notif α)) = [] := by cases dl <;> rfl
      have h2 : restE dr ([] : List (Notif α)) = [] := by cases dr <;> rfl
      rw [h1, h2]
      cases ql with
      | nil =>
        cases qr with
        | nil => cases dl <;> cases dr <;> simp_all
        | cons y qr => cases dl <;> simp_all [seqSpec]
      | cons x ql =>
        cases qr with
        | nil => cases dr <;> simp_all [seqSpec]
        | cons y qr => simp at hone
    rw [hspec]
    cases sd with
    | L =>
      have : dl = false := hliveL rfl
      subst this
      simp [seqStep, SeqRun.up, seqHandle, seqHandleU, emitD, deliver, hd, specOutOr]
    | R =>
      have : dr = false := hliveR rfl
      subst this
      simp [seqStep, SeqRun.up, seqHandle, seqHandleU, emitD, deliver, hd, specOutOr]
  | cons ev tr ih =>
    have hne' : ∀ ev ∈ tr, ∀ e, ev.2 ≠ .error e := fun ev h => hne ev (List.mem_cons_of_mem _ h)
    have hnc' : ∀ ev ∈ tr, ev ≠ (sd, .completed) := fun ev h => hnc ev (List.mem_cons_of_mem _ h)
    obtain ⟨sd', n⟩ := ev
    rw [List.cons_append, seqOutFrom_cons]
    cases sd' with
    | L =>
      cases n with
      | error e' => exact absurd rfl (hne _ List.mem_cons_self e')
      | next x =>
        cases dl with
        | true =>
          have := ih hne' hnc' true dr ql qr hone hdl hdr hnb hliveL hliveR
          simpa [seqStep, SeqRun.up] using this
        | false =>
          cases qr with
          | cons v qr' =>
            have hql : ql = [] := by rcases hone with h | h; exact h; cases h
            subst hql
            by_cases hv : eq v x = true
            · have hx : eq x v = true := by rw [hsym]; exact hv
              have := ih hne' hnc' false dr [] qr' (Or.inl rfl) (by simp) (by simp) (by simp) (by simp) hliveR
              simpa [seqStep, SeqRun.up, seqHandle, seqHandleU, emitD, hv, hx] using this
            · have hx : eq x v = false := by rw [hsym]; simpa using hv
              simp only [Bool.not_eq_true] at hv
              simp [seqStep, SeqRun.up, seqHandle, seqHandleU, emitD, hv, hx, decided, deliver, hd, specOutOr]
          | nil =>
            cases dr with
            | true =>
              have hql : ql = [] := hdr rfl
              subst hql
              simp [seqStep, SeqRun.up, seqHandle, seqHandleU, emitD, decided, deliver, hd, specOutOr]
            | false =>
              have := ih hne' hnc' false false (ql ++ [x]) [] (Or.inr rfl) (by simp) (by simp) (by simp) (by simp) (by simp)
              simpa [seqStep, SeqRun.up, seqHandle, seqHandleU, emitD] using this
      | completed =>
        have hsd : sd ≠ .L := fun h => hnc (.L, .completed) List.mem_cons_self (by rw [h])
        have hL' : sd = .L → true = false := fun h => absurd h hsd
        cases dl with
        | true =>
          have := ih hne' hnc' true dr ql qr hone hdl hdr hnb hliveL hliveR
          simpa [seqStep, SeqRun.up] using this
        | false =>
          cases ql with
          | nil =>
            cases qr with
            | cons v qr' => simp [seqStep, SeqRun.up, seqHandle, seqHandleU, emitD, decided, deliver, hd, specOutOr]
            | nil =>
              cases dr with
              | true => simp [seqStep, SeqRun.up, seqHandle, seqHandleU, emitD, decided, deliver, hd, specOutOr]
              | false =>
                have := ih hne' hnc' true false [] [] (Or.inl rfl) (by simp) (by simp) (by simp) hL' (by simp)
                simpa [seqStep, SeqRun.up, seqHandle, seqHandleU, emitD] using this
          | cons y ql' =>
            have hqr : qr = [] := by rcases hone with h | h; cases h; exact h
            subst hqr
            have hdr' : dr = false := by cases dr; rfl; exact absurd (hdr rfl) (by simp)
            subst hdr'
            have := ih hne' hnc' true false (y :: ql') [] (Or.inr rfl) (by simp) (by simp) (by simp) hL' (by simp)
            simpa [seqStep, SeqRun.up, seqHandle, seqHandleU, emitD] using this
    | R =>
      cases n with
      | error e' => exact absurd rfl (hne _ List.mem_cons_self e')
      | next x =>
        cases dr with
        | true =>
          have := ih hne' hnc' dl true ql qr hone hdl hdr hnb hliveL hliveR
          simpa [seqStep, SeqRun.up] using this
        | false =>
          cases ql with
          | cons v ql' =>
            have hqr : qr = [] := by rcases hone with h | h; cases h; exact h
            subst hqr
            by_cases hv : eq v x = true
            · have := ih hne' hnc' dl false ql' [] (Or.inr rfl) (by simp) (by simp) (by simp) hliveL (by simp)
              simpa [seqStep, SeqRun.up, seqHandle, seqHandleU, emitD, hv] using this
            · simp only [Bool.not_eq_true] at hv
              simp [seqStep, SeqRun.up, seqHandle, seqHandleU, emitD, hv, decided, deliver, hd, specOutOr]
          | nil =>
            cases dl with
            | true =>
              have hqr : qr = [] := hdl rfl
              subst hqr
              simp [seqStep, SeqRun.up, seqHandle, seqHandleU, emitD, decided, deliver, hd, specOutOr]
            | false =>
              have := ih hne' hnc' false false [] (qr ++ [x]) (Or.inl rfl) (by simp) (by simp) (by simp) (by simp) (by simp)
              simpa [seqStep, SeqRun.up, seqHandle, seqHandleU, emitD] using this
      | completed =>
        have hsd : sd ≠ .R := fun h => hnc (.R, .completed) List.mem_cons_self (by rw [h])
        have hR' : sd = .R → true = false := fun h => absurd h hsd
        cases dr with
        | true =>
          have := ih hne' hnc' dl true ql qr hone hdl hdr hnb hliveL hliveR
          simpa [seqStep, SeqRun.up] using this
        | false =>
          cases qr with
          | nil =>
            cases ql with
            | cons v ql' => simp [seqStep, SeqRun.up, seqHandle, seqHandleU, emitD, decided, deliver, hd, specOutOr]
            | nil =>
              cases dl with
              | true => simp [seqStep, SeqRun.up, seqHandle, seqHandleU, emitD, decided, deliver, hd, specOutOr]
              | false =>
                have := ih hne' hnc' false true [] [] (Or.inl rfl) (by simp) (by simp) (by simp) (by simp) hR'
                simpa [seqStep, SeqRun.up, seqHandle, seqHandleU, emitD] using this
          | cons y qr' =>
            have hql : ql = [] := by rcases hone with h | h; exact h; cases h
            subst hql
            have hdl' : dl = false := by cases dl; rfl; exact absurd (hdl rfl) (by simp)
            subst hdl'
            have := ih hne' hnc' false true [] (y :: qr') (Or.inl rfl) (by simp) (by simp) (by simp) (by simp) hR'
            simpa [seqStep, SeqRun.up, seqHandle, seqHandleU, emitD] using this

/-- the output of the two-source machine does not depend on how promptly the sources are disposed -/
theorem seqOutFrom_lag {α} (cmp : α → α → Except Err Bool) (tr : List (Side × Notif α)) (st1 st2 : SeqRun α)
    (hs : st1.s = st2.s) (hdn : st1.down = st2.down)
    (hup : st1.down = false → st1.upL = st2.upL ∧ st1.upR = st2.upR) :
    seqOutFrom cmp true st1 tr = seqOutFrom cmp false st2 tr := by
  induction tr generalizing st1 st2 with
  | nil => rfl
  | cons ev tr ih =>
    cases hd1 : st1.down with
    | true => rw [seqOutFrom_down _ _ _ hd1, seqOutFrom_down _ _ _ (hdn ▸ hd1)]
    | false =>
      obtain ⟨hL, hR⟩ := hup hd1
      have hd2 : st2.down = false := hdn ▸ hd1
      rw [seqOutFrom_cons, seqOutFrom_cons]
      obtain ⟨sd, n⟩ := ev
      have hupsd : st1.up sd = st2.up sd := by cases sd <;> simp [SeqRun.up, hL, hR]
      unfold seqStep
      simp only [hupsd]
      split
      · simp only [List.nil_append]
        exact ih st1 st2 hs hdn hup
      · simp only [hs, hd1, hd2, Bool.not_true, Bool.false_and, Bool.or_false, Bool.not_false, Bool.true_and]
        congr 1
        apply ih
        · rfl
        · rfl
        · intro h
          simp only at h
          simp [h, hL, hR]

end Agg

import RxProofs.Lemmas.OpsElem
import RxModel.OpsSlice
/-!
# Lemmas for C07: list facts about clamped segments, the stage list of `slice_`, the stages as operators
-/
namespace Ops.Slice
open Ops
variable {α : Type}

/-! ### list facts -/

theorem filter_lt_zipIdx (ys : List α) (o stop : Nat) :
    ((ys.zipIdx o).filter (fun t => decide (t.2 < stop))).map (·.1) = ys.take (stop - o) := by
  induction ys generalizing o with
  | nil => simp
  | cons y ys ih =>
    simp only [List.zipIdx_cons, List.filter_cons]
    by_cases h : o < stop
    · obtain ⟨d, hd⟩ : ∃ d, stop - o = d + 1 := ⟨stop - o - 1, by omega⟩
      simp [h, ih, hd, show stop - (o + 1) = d by omega]
    · have h0 : stop - o = 0 := by omega
      have h1 : stop - (o + 1) = 0 := by omega
      simp [h, ih, h0, h1]

theorem drop_zipIdx (xs : List α) (o d : Nat) : (xs.zipIdx o).drop d = (xs.drop d).zipIdx (o + d) := by
  induction xs generalizing o d with
  | nil => simp
  | cons x xs ih =>
    cases d with
    | zero => simp
    | succ d => simp [List.zipIdx_cons, ih, Nat.add_assoc, Nat.add_comm 1 d]

theorem taggedTail_eq (k stop : Nat) (xs : List α) :
    ((lastN k (xs.zipIdx 0)).filter (fun t => decide (t.2 < stop))).map (·.1)
      = (xs.take stop).drop (xs.length - k) := by
  unfold lastN
  rw [List.length_zipIdx, drop_zipIdx, filter_lt_zipIdx, List.drop_take]
  simp

theorem drop_min_length (xs : List α) (n : Nat) : xs.drop (min n xs.length) = xs.drop n := by
  by_cases h : n ≤ xs.length
  · rw [Nat.min_eq_left h]
  · rw [Nat.min_eq_right (by omega), List.drop_of_length_le (by omega), List.drop_of_length_le (by omega)]

theorem take_min_length (xs : List α) (n : Nat) : xs.take (min n xs.length) = xs.take n := by
  by_cases h : n ≤ xs.length
  · rw [Nat.min_eq_left h]
  · rw [Nat.min_eq_right (by omega), List.take_of_length_le (by omega), List.take_of_length_le (by omega)]

/-- the list a stage produces on a completed sequence -/
def evalList : Stage → List α → List α
  | .take n, xs => xs.take n
  | .skip n, xs => xs.drop n
  | .takeLast n, xs => lastN n xs
  | .skipLast n, xs => butLastN n xs
  | .everyNth step, xs => stride step xs
  | .taggedTail k stop, xs => (xs.take stop).drop (xs.length - k)

theorem evalSeq_completed (s : Stage) (xs : List α) :
    s.evalSeq (xs, .completed) = (evalList s xs, .completed) := by
  cases s <;> simp [Stage.evalSeq, evalList, taggedTail_eq]

theorem evalSeqStages_completed (stages : List Stage) (xs : List α) :
    evalSeqStages stages (xs, .completed) = (stages.foldl (fun acc s => evalList s acc) xs, .completed) := by
  induction stages generalizing xs with
  | nil => rfl
  | cons s rest ih => simp only [evalSeqStages, List.foldl_cons, evalSeq_completed] at ih ⊢; exact ih _

theorem evalStages_eq (stages : List Stage) (xs : List α) :
    evalStages stages xs = stages.foldl (fun acc s => evalList s acc) xs := by
  simp [evalStages, evalSeqStages_completed]

/-- head and tail stages cut out exactly the clamped contiguous segment -/
theorem segment_eq (xs : List α) (start stop : Option Int) (hlen : (xs.length : Int) ≤ maxsize) :
    (headStages true start stop ++ tailStages stop).foldl (fun acc s => evalList s acc) xs
      = (xs.take (clampIdx xs.length stop xs.length)).drop (clampIdx xs.length start 0) := by
  unfold maxsize at hlen
  rcases stop with _ | stop <;> rcases start with _ | start
  · -- [:]  take(maxsize)
    simp [headStages, tailStages, clampIdx, maxsize, evalList]
    exact List.take_of_length_le (by omega)
  · -- [a:]
    rcases Int.lt_trichotomy start 0 with h | h | h
    · have h1 : ¬ 0 < start := by omega
      simp [headStages, tailStages, clampIdx, maxsize, evalList, h, h1, lastN]
      rw [List.take_of_length_le (by omega)]
      congr 1; omega
    · subst h
      simp [headStages, tailStages, clampIdx, maxsize, evalList]
      exact List.take_of_length_le (by omega)
    · have h1 : ¬ start < 0 := by omega
      simp [headStages, tailStages, clampIdx, maxsize, evalList, h, h1]
      rw [List.take_of_length_le (by omega), drop_min_length]
  · -- [:b]
    by_cases h0 : stop < 0
    · have h1 : ¬ (0 ≤ stop) := by omega
      simp [headStages, tailStages, clampIdx, maxsize, evalList, h0, h1, butLastN]
      congr 1; omega
    · have h1 : 0 ≤ stop := by omega
      simp [headStages, tailStages, clampIdx, maxsize, evalList, h0, h1, take_min_length]
  · -- [a:b]
    rcases Int.lt_trichotomy start 0 with hs | hs | hs <;> rcases Int.lt_trichotomy stop 0 with ht | ht | ht
    · -- neg, neg: take_last(k) | skip_last(m)
      have a1 : ¬ 0 ≤ stop := by omega
      have a2 : ¬ 0 < start := by omega
      have a3 : ¬ 0 < stop := by omega
      simp [headStages, tailStages, clampIdx, maxsize, evalList, hs, ht, a1, a2, a3, lastN, butLastN, List.drop_take]
      congr 1
      · omega
      · congr 1; omega
    · -- neg, zero
      subst ht
      have a2 : ¬ 0 < start := by omega
      simp [headStages, tailStages, clampIdx, maxsize, evalList, hs, a2, lastN]
    · -- neg, pos: the tagged tail
      have a1 : ¬ stop < 0 := by omega
      have a3 : 0 ≤ stop := by omega
      simp [headStages, tailStages, clampIdx, maxsize, evalList, hs, ht, a1, a3, take_min_length]
      congr 1; omega
    · -- zero, neg
      subst hs
      have a1 : ¬ 0 ≤ stop := by omega
      have a3 : ¬ 0 < stop := by omega
      simp [headStages, tailStages, clampIdx, maxsize, evalList, ht, a1, a3, butLastN]
      congr 1; omega
    · subst hs; subst ht
      simp [headStages, tailStages, clampIdx, maxsize, evalList]
    · subst hs
      have a1 : ¬ stop < 0 := by omega
      have a2 : 0 ≤ stop := by omega
      simp [headStages, tailStages, clampIdx, maxsize, evalList, a1, a2, ht, take_min_length]
    · -- pos, neg: skip(s) | skip_last(m)
      have a1 : ¬ 0 ≤ stop := by omega
      have a2 : ¬ start < 0 := by omega
      have a3 : ¬ 0 < stop := by omega
      simp [headStages, tailStages, clampIdx, maxsize, evalList, hs, ht, a1, a2, a3, butLastN, List.drop_take, drop_min_length]
      congr 1; omega
    · subst ht
      have a2 : ¬ start < 0 := by omega
      simp [headStages, tailStages, clampIdx, maxsize, evalList, hs, a2]
    · have a1 : ¬ stop < 0 := by omega
      have a2 : ¬ start < 0 := by omega
      have a3 : 0 ≤ stop := by omega
      simp [headStages, tailStages, clampIdx, maxsize, evalList, hs, ht, a1, a2, a3, take_min_length]
      omega

theorem stride_one (ys : List α) : stride 1 ys = ys := by
  unfold stride
  have hf : (ys.zipIdx 0).filter (fun t => t.2 % 1 == 0) = ys.zipIdx 0 :=
    List.filter_eq_self.mpr (by intro a _; simp [Nat.mod_one])
  rw [hf]; simp

/-- **The stage list of the (fixed) `slice_` evaluates, with the C05 list semantics, to Python's slice.** -/
theorem pipeline_eval_eq_pySlice (xs : List α) (start stop step : Option Int)
    (hstep : 1 ≤ step.getD 1) (hlen : (xs.length : Int) ≤ maxsize) :
    ∃ stages, pipeline true start stop step = .ok stages ∧
      evalStages stages xs = pySlice xs start stop (step.getD 1) := by
  by_cases h1 : step.getD 1 > 1
  · refine ⟨headStages true start stop ++ tailStages stop ++ [.everyNth (step.getD 1).toNat], by simp [pipeline, h1], ?_⟩
    rw [evalStages_eq, List.foldl_append, segment_eq xs start stop hlen]
    simp [evalList, pySlice]
  · have h2 : step.getD 1 = 1 := by omega
    refine ⟨headStages true start stop ++ tailStages stop, by simp [pipeline, h2], ?_⟩
    rw [evalStages_eq, segment_eq xs start stop hlen, h2]
    simp [pySlice, stride_one]

/-! ### the stages as real operators -/

/-- the tagging function of the fix, on index/element pairs -/
def tagOf (t : α × Nat) : Int × Option α := ((t.2 : Int), some t.1)

theorem refScan_tag (j : Nat) (o : Option α) (xs : List α) (e : End) :
    refScan (tag (α := α)) ((j : Int) - 1, o) xs e = outSeq ((xs.zipIdx j).map tagOf) e := by
  induction xs generalizing j o with
  | nil => rfl
  | cons x xs ih =>
    have := ih (j + 1) (some x)
    simp only [refScan, tag, List.zipIdx_cons, List.map_cons, outSeq_cons, tagOf] at this ⊢
    rw [show ((j : Int) - 1 + 1) = (j : Int) by omega]
    rw [show (((j + 1 : Nat) : Int) - 1) = (j : Int) by omega] at this
    rw [this]

theorem refMap_untag (zs : List (α × Nat)) (e : End) :
    refMap untag (zs.map tagOf) e = outSeq (zs.map (·.1)) e := by
  induction zs with
  | nil => rfl
  | cons z zs ih => simp [refMap, untag, tagOf, ih, outSeq_cons]

theorem lastN_map {β γ : Type} (f : β → γ) (k : Nat) (zs : List β) : lastN k (zs.map f) = (lastN k zs).map f := by
  simp [lastN, List.map_drop]

theorem sem_taggedTail (k stop : Nat) (raw : List (Notif α)) :
    (stageOp (α := α) (.taggedTail k stop)).sem raw
      = outSeq (if fin raw = .completed then
            ((lastN k ((elems raw).zipIdx 0)).filter (fun t => decide (t.2 < stop))).map (·.1) else [])
          (fin raw) := by
  simp only [stageOp]
  rw [sem_comp, sem_comp, sem_comp, sem_map, sem_filter, sem_takeLast, sem_scanSeed]
  rw [show ((-1 : Int), (none : Option α)) = (((0 : Nat) : Int) - 1, none) by simp, refScan_tag]
  simp only [elems_outSeq, fin_outSeq, Int.toNat_natCast]
  by_cases hc : fin raw = .completed
  · simp only [hc, if_true, lastN_map]
    rw [refFilter_pure (fun t : Int × Option α => decide (t.1 < (stop : Int)))]
    simp only [elems_outSeq, fin_outSeq, List.filter_map]
    rw [refMap_untag]
    congr 2
    apply List.filter_congr
    intro t _
    simp [tagOf, Function.comp]
  · simp only [hc, if_false]
    cases hf : fin raw <;> simp_all [refFilter, refMap, outSeq, End.toNotifs, elems, fin]

theorem sem_stage (s : Stage) (raw : List (Notif α)) :
    (stageOp s).sem raw = outSeq (s.evalSeq (elems raw, fin raw)).1 (s.evalSeq (elems raw, fin raw)).2 := by
  cases s with
  | take n => simp [stageOp, Stage.evalSeq, sem_take]
  | skip n => simp [stageOp, Stage.evalSeq, sem_skip]
  | takeLast n => simp [stageOp, Stage.evalSeq, sem_takeLast]
  | skipLast n => simp [stageOp, Stage.evalSeq, sem_skipLast]
  | everyNth step =>
    simp only [stageOp, Stage.evalSeq, stride]
    rw [sem_filterIndexed, refFilterIdx_pure (fun _ i => i % step == 0)]
  | taggedTail k stop => simp only [Stage.evalSeq]; exact sem_taggedTail k stop raw

theorem sem_pipeOp (stages : List Stage) (raw : List (Notif α)) :
    (pipeOp stages).sem raw
      = outSeq (evalSeqStages stages (elems raw, fin raw)).1 (evalSeqStages stages (elems raw, fin raw)).2 := by
  induction stages generalizing raw with
  | nil => simp [pipeOp, sem_idOp, evalSeqStages]
  | cons s rest ih =>
    cases rest with
    | nil => simp [pipeOp, sem_stage, evalSeqStages]
    | cons s2 rest =>
      rw [pipeOp, sem_comp, ih, sem_stage]
      simp [evalSeqStages]

/-! ### the stride form of `pySlice` is the index comprehension -/

theorem filterMap_congr' {β γ : Type} {f g : β → Option γ} {l : List β} (h : ∀ a, a ∈ l → f a = g a) :
    l.filterMap f = l.filterMap g := by
  induction l with
  | nil => rfl
  | cons a l ih =>
    simp only [List.filterMap_cons, h a (List.mem_cons_self ..)]
    rw [ih (fun b hb => h b (List.mem_cons_of_mem _ hb))]

theorem filter_zipIdx_eq_range' (q : Nat → Bool) (ys : List α) (o : Nat) :
    ((ys.zipIdx o).filter (fun t => q t.2)).map (·.1)
      = (List.range' o ys.length).filterMap (fun i => if q i then ys[i - o]? else none) := by
  induction ys generalizing o with
  | nil => simp
  | cons y ys ih =>
    simp only [List.zipIdx_cons, List.length_cons, List.range'_succ, List.filterMap_cons, Nat.sub_self,
      List.getElem?_cons_zero, List.filter_cons]
    have htail : (List.range' (o + 1) ys.length).filterMap (fun i => if q i then (y :: ys)[i - o]? else none)
        = (List.range' (o + 1) ys.length).filterMap (fun i => if q i then ys[i - (o + 1)]? else none) := by
      apply filterMap_congr'
      intro i hi
      have : o + 1 ≤ i := (List.mem_range'_1.mp hi).1
      obtain ⟨d, hd⟩ : ∃ d, i - o = d + 1 := ⟨i - o - 1, by omega⟩
      rw [hd, List.getElem?_cons_succ, show i - (o + 1) = d by omega]
    cases hq : q o
    · simp only [Bool.false_eq_true, if_false]; rw [htail, ← ih (o + 1)]
    · simp only [if_true, List.map_cons]; rw [htail, ← ih (o + 1)]

theorem clampIdx_le (len : Nat) (i : Option Int) (d : Nat) (hd : d ≤ len) : clampIdx len i d ≤ len := by
  unfold clampIdx
  cases i with
  | none => exact hd
  | some i => simp only; split <;> omega

/-- the stride form and the index-comprehension form of Python's slice agree -/
theorem pySlice_eq_idx (xs : List α) (start stop : Option Int) (step : Int) :
    pySlice xs start stop step = pySliceIdx xs start stop step := by
  unfold pySlice pySliceIdx stride
  have he := clampIdx_le xs.length stop xs.length (Nat.le_refl _)
  generalize clampIdx xs.length start 0 = s at *
  generalize clampIdx xs.length stop xs.length = e at *
  simp only []
  rw [filter_zipIdx_eq_range' (fun i => i % step.toNat == 0)]
  simp only [List.length_drop, List.length_take, Nat.min_eq_left he]
  rw [List.range'_eq_map_range (s := s), List.range'_eq_map_range (s := 0), List.filterMap_map, List.filterMap_map]
  apply filterMap_congr'
  intro i hi
  have hi' : i < e - s := List.mem_range.mp hi
  simp only [Function.comp, Nat.sub_zero, Nat.zero_add, Nat.add_sub_cancel_left]
  cases (i % step.toNat == 0)
  · rfl
  · simp only [if_true, List.getElem?_drop, List.getElem?_take]
    rw [if_pos (by omega)]

end Ops.Slice

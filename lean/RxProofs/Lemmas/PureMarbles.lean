import RxModel.PureMarbles
/-! Helper lemmas for C38 (marble diagrams): unfolding lemmas of the scanner per token kind, and
`scan_render`: the scanner on the rendering of a well-formed token list equals the documented reading. -/
open Pure.Marbles
namespace Pure.Marbles

theorem exc_eta {ε α} (x : Except ε α) :
    (match x with | .error e => Except.error e | .ok v => Except.ok v) = x := by
  cases x <;> rfl

theorem scan_nil {α} (cfg : Cfg α) (f st) : scan cfg [] f st = .ok [] := by
  rw [scan]

theorem scan_tick {α} (cfg : Cfg α) (r : List Char) (f : Nat) (st : Bool) :
    scan cfg ('-' :: r) f st = scan cfg r (f + 1) st := by
  rw [scan]
  simp only [show ('-' : Char) ≠ '(' by decide, if_false, if_true]
  cases r with
  | nil => simp [scan_nil]
  | cons c r =>
    by_cases h : c = '-'
    · subst h
      conv => rhs; rw [scan]
      simp [show ('-' : Char) ≠ '(' by decide]
      congr 1; omega
    · simp [h]

theorem scan_ticks {α} (cfg : Cfg α) (n : Nat) (r : List Char) (f : Nat) (st : Bool) :
    scan cfg (List.replicate n '-' ++ r) f st = scan cfg r (f + n) st := by
  induction n generalizing f with
  | zero => simp
  | succ n ih =>
    rw [List.replicate_succ, List.cons_append, scan_tick, ih]; congr 1; omega

theorem scan_comma {α} (cfg : Cfg α) (r : List Char) (f : Nat) (st : Bool) :
    scan cfg (',' :: r) f st = .error .comma := by
  rw [scan]; simp [show (',' : Char) ≠ '(' by decide, show (',' : Char) ≠ '-' by decide]

theorem scan_term {α} (cfg : Cfg α) (c : Char) (hc : c = '#' ∨ c = '|') (r : List Char) (f : Nat) (st : Bool) :
    scan cfg (c :: r) f st =
      match checkStopped cfg st [c] with
      | .error e => .error e
      | .ok st' =>
        match scan cfg r (f + 1) st' with
        | .error e => .error e
        | .ok ms => .ok (mapElement cfg (time cfg f) [c] :: ms) := by
  rw [scan]
  rcases hc with h | h <;> subst h <;> simp (decide := true) <;> rfl

theorem scan_close {α} (cfg : Cfg α) (r : List Char) (f : Nat) (st : Bool) :
    scan cfg (')' :: r) f st = scan cfg r f st := by
  rw [scan]; simp (decide := true)

theorem scan_open_unclosed {α} (cfg : Cfg α) (r : List Char) (h : findClose r = none) (f : Nat) (st : Bool) :
    scan cfg ('(' :: r) f st = scan cfg r f st := by
  rw [scan]; simp [h]

theorem take_drop_while_stop {β} (p : β → Bool) (l r : List β) (hl : ∀ x ∈ l, p x = true)
    (hr : r = [] ∨ ∃ c r', r = c :: r' ∧ p c = false) :
    (l ++ r).takeWhile p = l ∧ (l ++ r).dropWhile p = r := by
  induction l with
  | nil =>
    rcases hr with h | ⟨c, r', h, hc⟩ <;> subst h <;> simp [*]
  | cons x l ih =>
    have hx := hl x (by simp)
    have := ih (fun y hy => hl y (by simp [hy]))
    simp [hx, this]

theorem scan_elem {α} (cfg : Cfg α) (cs r : List Char) (hne : cs ≠ [])
    (hall : ∀ c ∈ cs, isSpecial c = false)
    (hr : r = [] ∨ ∃ c r', r = c :: r' ∧ isSpecial c = true) (f : Nat) (st : Bool) :
    scan cfg (cs ++ r) f st =
      match checkStopped cfg st cs with
      | .error e => .error e
      | .ok st' =>
        match scan cfg r (f + cs.length) st' with
        | .error e => .error e
        | .ok ms => .ok (mapElement cfg (time cfg f) cs :: ms) := by
  cases cs with
  | nil => exact absurd rfl hne
  | cons c cs =>
    have hc := hall c (by simp)
    have hc' : c ≠ '(' ∧ c ≠ '-' ∧ c ≠ ',' ∧ c ≠ '#' ∧ c ≠ '|' ∧ c ≠ ')' := by
      simp [isSpecial] at hc; simp [hc]
    obtain ⟨h1, h2, h3, h4, h5, h6⟩ := hc'
    have htd := take_drop_while_stop (fun x => !isSpecial x) cs r
      (fun x hx => by simp [hall x (by simp [hx])])
      (by rcases hr with h | ⟨c, r', h, hc⟩
          · exact Or.inl h
          · exact Or.inr ⟨c, r', h, by simp [hc]⟩)
    rw [List.cons_append, scan]
    simp only [h1, h2, h3, h4, h5, h6, if_false, or_self, htd.1, htd.2, List.length_cons]
    rfl

theorem findClose_body (body r : List Char) (h : ∀ c ∈ body, c ≠ ')' ∧ c ≠ '\n') :
    findClose (body ++ ')' :: r) = some body := by
  induction body with
  | nil => simp [findClose]
  | cons c b ih =>
    have hc := h c (by simp)
    have := ih (fun x hx => h x (by simp [hx]))
    simp [findClose, hc.1, hc.2, this]

theorem splitComma_nocomma (x : List Char) (h : ∀ c ∈ x, c ≠ ',') : splitComma x = [x] := by
  induction x with
  | nil => rfl
  | cons c x ih =>
    have := ih (fun y hy => h y (by simp [hy]))
    simp [splitComma, h c (by simp), this]

theorem splitComma_append (x rest : List Char) (h : ∀ c ∈ x, c ≠ ',') :
    splitComma (x ++ ',' :: rest) = x :: splitComma rest := by
  induction x with
  | nil => simp [splitComma]
  | cons c x ih =>
    have := ih (fun y hy => h y (by simp [hy]))
    simp [splitComma, h c (by simp), this]

theorem splitComma_join (items : List (List Char)) (hne : items ≠ [])
    (h : ∀ it ∈ items, ∀ c ∈ it, c ≠ ',') : splitComma (joinComma items) = items := by
  induction items with
  | nil => exact absurd rfl hne
  | cons x r ih =>
    cases r with
    | nil => simpa [joinComma] using splitComma_nocomma x (h x (by simp))
    | cons y r =>
      have := ih (by simp) (fun it hit => h it (by simp [hit]))
      simp only [joinComma]
      rw [splitComma_append _ _ (h x (by simp)), this]

theorem joinComma_chars (items : List (List Char)) (P : Char → Prop) (hc : P ',')
    (h : ∀ it ∈ items, ∀ c ∈ it, P c) : ∀ c ∈ joinComma items, P c := by
  induction items with
  | nil => simp [joinComma]
  | cons x r ih =>
    cases r with
    | nil => simpa [joinComma] using h x (by simp)
    | cons y r =>
      intro c hcm
      simp only [joinComma, List.mem_append, List.mem_cons] at hcm
      rcases hcm with h1 | h1 | h1
      · exact h x (by simp) c h1
      · subst h1; exact hc
      · exact ih (fun it hit => h it (by simp [hit])) c h1

theorem itemOK_iff (cs : List Char) :
    itemOK cs = true ↔ ∀ c ∈ cs, c ≠ ',' ∧ c ≠ ')' ∧ c ≠ '\n' ∧ c ≠ ' ' := by
  simp [itemOK, and_assoc]

theorem scan_group {α} (cfg : Cfg α) (items : List (List Char)) (hne : items ≠ [])
    (hok : ∀ it ∈ items, itemOK it = true) (r : List Char) (f : Nat) (st : Bool) :
    scan cfg ('(' :: (joinComma items ++ ')' :: r)) f st =
      match checkAll cfg st items with
      | .error e => .error e
      | .ok st' =>
        match scan cfg r (f + ((joinComma items).length + 2)) st' with
        | .error e => .error e
        | .ok ms => .ok ((items.filter (fun e => !e.isEmpty)).map (mapElement cfg (time cfg f)) ++ ms) := by
  have hfc : findClose (joinComma items ++ ')' :: r) = some (joinComma items) := by
    apply findClose_body
    apply joinComma_chars items (fun c => c ≠ ')' ∧ c ≠ '\n') (by decide)
    intro it hit c hc
    have := (itemOK_iff it).1 (hok it hit) c hc
    exact ⟨this.2.1, this.2.2.1⟩
  have hsp : splitComma (joinComma items) = items :=
    splitComma_join items hne (fun it hit c hc => ((itemOK_iff it).1 (hok it hit) c hc).1)
  rw [scan]
  simp only [if_true, hfc, hsp]
  have hd : List.drop ((joinComma items).length + 1) (joinComma items ++ ')' :: r) = r := by
    rw [List.drop_append]; simp
  rw [hd]
  rfl

theorem WF_cons (t : Tok) (ts : List Tok) (h : WF (t :: ts) = true) :
    tokOK t = true ∧ WF ts = true ∧
      (isElemTok t = true → ts = [] ∨ ∃ u r, ts = u :: r ∧ isElemTok u = false) ∧
      (t = .strayOpen → findClose (render ts) = none) := by
  cases ts with
  | nil => refine ⟨by simpa [WF] using h, rfl, fun _ => Or.inl rfl, fun _ => rfl⟩
  | cons u r =>
    simp only [WF, Bool.and_eq_true, Bool.not_eq_true', Bool.and_eq_false_iff] at h
    refine ⟨h.1.1.1, h.2, fun ht => Or.inr ⟨u, r, rfl, ?_⟩, fun ht => ?_⟩
    · rcases h.1.1.2 with h' | h'
      · rw [ht] at h'; cases h'
      · exact h'
    · have := h.1.2
      subst ht
      simpa using this

theorem render_head_special (ts : List Tok) (hwf : WF ts = true)
    (h : ts = [] ∨ ∃ u r, ts = u :: r ∧ isElemTok u = false) :
    render ts = [] ∨ ∃ c r', render ts = c :: r' ∧ isSpecial c = true := by
  rcases h with h | ⟨u, r, h, hu⟩
  · subst h; exact Or.inl rfl
  · subst h
    have hok := (WF_cons u r hwf).1
    right
    cases u with
    | ticks n =>
      simp only [tokOK, decide_eq_true_eq] at hok
      obtain ⟨m, rfl⟩ : ∃ m, n = m + 1 := ⟨n - 1, by omega⟩
      exact ⟨'-', List.replicate m '-' ++ render r, by simp [render, render1, List.replicate_succ], by decide⟩
    | elem cs => simp [isElemTok] at hu
    | completed => exact ⟨'|', render r, by simp [render, render1], by decide⟩
    | error => exact ⟨'#', render r, by simp [render, render1], by decide⟩
    | group items => exact ⟨'(', _, by simp [render, render1]; rfl, by decide⟩
    | comma => exact ⟨',', render r, by simp [render, render1], by decide⟩
    | strayClose => exact ⟨')', render r, by simp [render, render1], by decide⟩
    | strayOpen => exact ⟨'(', render r, by simp [render, render1], by decide⟩

theorem checkAll_single {α} (cfg : Cfg α) (st : Bool) (cs : List Char) :
    checkAll cfg st [cs] = checkStopped cfg st cs := by
  simp only [checkAll]
  cases checkStopped cfg st cs <;> rfl

/-- the scanner on the rendering of a well-formed token list is the documented reading -/
theorem scan_render {α} (cfg : Cfg α) (toks : List Tok) (h : WF toks = true) (p : Nat) (st : Bool) :
    scan cfg (render toks) p st = specGo cfg toks p st := by
  induction toks generalizing p st with
  | nil => simp [render, specGo, scan_nil]
  | cons t ts ih =>
    obtain ⟨hok, hwf, hnext, hopen⟩ := WF_cons t ts h
    have ih' := ih hwf
    cases t with
    | ticks n =>
      simp only [render, render1, specGo, marblesOf, width, scan_ticks, ih', checkAll, List.length_replicate,
        List.filter_nil, List.map_nil, List.nil_append, reduceCtorEq, if_false]
      cases specGo cfg ts (p + n) st <;> rfl
    | elem cs =>
      simp only [tokOK, Bool.and_eq_true, Bool.not_eq_true', List.all_eq_true] at hok
      have hne : cs ≠ [] := by
        intro h0; subst h0; simp at hok
      have hall : ∀ c ∈ cs, isSpecial c = false := fun c hc => by
        have := hok.2 c hc; simp at this; exact this.1
      have hr := render_head_special ts hwf (hnext rfl)
      simp only [render, render1, specGo, marblesOf, width, reduceCtorEq, if_false, checkAll_single]
      rw [scan_elem cfg cs (render ts) hne hall hr]
      cases checkStopped cfg st cs with
      | error e => rfl
      | ok st' =>
        simp only [ih']
        cases specGo cfg ts (p + cs.length) st' with
        | error e => rfl
        | ok ms => simp [List.filter, hok.1]
    | completed =>
      simp only [render, render1, specGo, marblesOf, width, reduceCtorEq, if_false, checkAll_single, List.cons_append,
        List.nil_append]
      rw [scan_term cfg '|' (Or.inr rfl)]
      cases checkStopped cfg st ['|'] with
      | error e => rfl
      | ok st' =>
        simp only [ih', List.length_cons, List.length_nil]
        cases specGo cfg ts (p + (0 + 1)) st' <;> simp [List.filter]
    | error =>
      simp only [render, render1, specGo, marblesOf, width, reduceCtorEq, if_false, checkAll_single, List.cons_append,
        List.nil_append]
      rw [scan_term cfg '#' (Or.inl rfl)]
      cases checkStopped cfg st ['#'] with
      | error e => rfl
      | ok st' =>
        simp only [ih', List.length_cons, List.length_nil]
        cases specGo cfg ts (p + (0 + 1)) st' <;> simp [List.filter]
    | group items =>
      simp only [tokOK, Bool.and_eq_true, Bool.not_eq_true', List.all_eq_true] at hok
      have hne : items ≠ [] := by
        intro h0; subst h0; simp at hok
      simp only [render, render1, specGo, marblesOf, width, reduceCtorEq, if_false, List.cons_append, List.append_assoc,
        List.nil_append]
      rw [scan_group cfg items hne hok.2]
      cases checkAll cfg st items with
      | error e => rfl
      | ok st' =>
        simp only [ih', List.length_cons, List.length_append, List.length_nil]
        have : p + ((joinComma items).length + 2) = p + ((joinComma items).length + (0 + 1) + 1) := by omega
        rw [this]
        rfl
    | comma =>
      simp [render, render1, specGo, scan_comma]
    | strayClose =>
      simp only [render, render1, specGo, marblesOf, width, width, List.cons_append, List.nil_append, scan_close, ih',
        checkAll, List.filter_nil, List.map_nil, reduceCtorEq, if_false, Nat.add_zero]
      cases specGo cfg ts p st <;> rfl
    | strayOpen =>
      simp only [render, render1, specGo, marblesOf, width, width, List.cons_append, List.nil_append,
        scan_open_unclosed cfg _ (hopen rfl), ih', checkAll, List.filter_nil, List.map_nil, reduceCtorEq, if_false,
        Nat.add_zero]
      cases specGo cfg ts p st <;> rfl


/-! ## spec characterisations -/


/-! ### no spaces in a well-formed rendering -/
theorem WF_all (toks : List Tok) (h : WF toks = true) : ∀ t ∈ toks, tokOK t = true := by
  induction toks with
  | nil => simp
  | cons t ts ih =>
    obtain ⟨h1, h2, _⟩ := WF_cons t ts h
    intro u hu
    rcases List.mem_cons.1 hu with rfl | hu
    · exact h1
    · exact ih h2 u hu

theorem render1_nospace (t : Tok) (h : tokOK t = true) : ∀ c ∈ render1 t, c ≠ ' ' := by
  cases t with
  | ticks n => intro c hc; simp [render1] at hc; rw [hc.2]; decide
  | elem cs =>
    simp only [tokOK, Bool.and_eq_true, List.all_eq_true] at h
    intro c hc; have := h.2 c hc; simp at this; exact this.2
  | completed => intro c hc; simp [render1] at hc; subst hc; decide
  | error => intro c hc; simp [render1] at hc; subst hc; decide
  | group items =>
    simp only [tokOK, Bool.and_eq_true, List.all_eq_true] at h
    intro c hc
    simp only [render1, List.mem_cons, List.mem_append, List.mem_nil_iff, or_false] at hc
    rcases hc with rfl | hc | rfl
    · decide
    · exact joinComma_chars items (fun c => c ≠ ' ') (by decide)
        (fun it hit c hc => ((itemOK_iff it).1 (h.2 it hit) c hc).2.2.2) c hc
    · decide
  | comma => intro c hc; simp [render1] at hc; subst hc; decide
  | strayClose => intro c hc; simp [render1] at hc; subst hc; decide
  | strayOpen => intro c hc; simp [render1] at hc; subst hc; decide

theorem render_nospace (toks : List Tok) (h : WF toks = true) :
    (render toks).filter (· != ' ') = render toks := by
  rw [List.filter_eq_self]
  intro c hc
  have hall := WF_all toks h
  suffices c ≠ ' ' by simpa using this
  induction toks with
  | nil => simp [render] at hc
  | cons t ts ih =>
    simp only [render, List.mem_append] at hc
    rcases hc with hc | hc
    · exact render1_nospace t (hall t (by simp)) c hc
    · exact ih (WF_cons t ts h).2.1 hc (fun u hu => hall u (by simp [hu]))

/-! ### spec: positions -/
theorem specGo_append {α} (cfg : Cfg α) (pre post : List Tok) (p : Nat) (st : Bool) (ms : List (Msg α))
    (h : specGo cfg (pre ++ post) p st = .ok ms) :
    ∃ st' ms1 ms2, specGo cfg post (p + frame pre) st' = .ok ms2 ∧ ms = ms1 ++ ms2 := by
  induction pre generalizing p st ms with
  | nil => exact ⟨st, [], ms, by simpa [frame] using h, rfl⟩
  | cons t ts ih =>
    simp only [List.cons_append, specGo] at h
    split at h
    · cases h
    · split at h
      · cases h
      · rename_i st1 _
        split at h
        · cases h
        · rename_i ms' hms'
          obtain ⟨st', ms1, ms2, h2, rfl⟩ := ih _ _ _ hms'
          cases h
          refine ⟨st', _, ms2, ?_, (List.append_assoc _ ms1 ms2).symm⟩
          simpa [frame, Nat.add_assoc] using h2

theorem frame_eq_length (toks : List Tok) (h : noStray toks = true) : frame toks = (render toks).length := by
  induction toks with
  | nil => rfl
  | cons t ts ih =>
    simp only [noStray, List.all_cons, Bool.and_eq_true, decide_eq_true_eq] at h
    have := ih (by simpa [noStray] using h.2)
    simp only [frame, render, List.length_append, this]
    congr 1
    cases t <;> simp_all [width]

/-! ### spec without commas = checks over the flattened marble list -/
theorem checkAll_append {α} (cfg : Cfg α) (st : Bool) (a b : List (List Char)) :
    checkAll cfg st (a ++ b) =
      match checkAll cfg st a with
      | .error e => .error e
      | .ok st' => checkAll cfg st' b := by
  induction a generalizing st with
  | nil => simp [checkAll]
  | cons x a ih =>
    simp only [List.cons_append, checkAll]
    cases checkStopped cfg st x with
    | error e => rfl
    | ok st' => exact ih st'

def emit {α} (cfg : Cfg α) (l : List (Nat × List Char)) : List (Msg α) :=
  (l.filter (fun pm => !pm.2.isEmpty)).map (fun pm => mapElement cfg (time cfg pm.1) pm.2)

theorem emit_append {α} (cfg : Cfg α) (a b : List (Nat × List Char)) :
    emit cfg (a ++ b) = emit cfg a ++ emit cfg b := by simp [emit]

theorem emit_map {α} (cfg : Cfg α) (p : Nat) (ms : List (List Char)) :
    emit cfg (ms.map (fun m => (p, m))) = (ms.filter (fun e => !e.isEmpty)).map (mapElement cfg (time cfg p)) := by
  induction ms with
  | nil => rfl
  | cons m r ih =>
    simp only [emit, List.map_cons, List.filter_cons] at ih ⊢
    split <;> simp_all

theorem specGo_noComma {α} (cfg : Cfg α) (toks : List Tok) (hc : noComma toks = true) (p : Nat) (st : Bool) :
    specGo cfg toks p st =
      match checkAll cfg st ((allMarbles toks p).map (·.2)) with
      | .error e => .error e
      | .ok _ => .ok (emit cfg (allMarbles toks p)) := by
  induction toks generalizing p st with
  | nil => simp [specGo, allMarbles, checkAll, emit]
  | cons t ts ih =>
    simp only [noComma, List.all_cons, Bool.and_eq_true] at hc
    have ih' := ih (by simpa [noComma] using hc.2)
    have hne : t ≠ Tok.comma := by simpa using hc.1
    simp only [specGo, if_neg hne, allMarbles, List.map_append, List.map_map, checkAll_append, emit_append]
    have : (List.map ((fun x => x.snd) ∘ fun m => (p, m)) (marblesOf t)) = marblesOf t := by
      simp [Function.comp_def]
    rw [this]
    cases checkAll cfg st (marblesOf t) with
    | error e => rfl
    | ok st' =>
      simp only [ih', emit_map]
      cases checkAll cfg st' (List.map (fun x => x.snd) (allMarbles ts (p + width t))) <;> rfl

theorem checkAll_noraise {α} (cfg : Cfg α) (h : cfg.raiseStopped = false) (st : Bool) (ms : List (List Char)) :
    checkAll cfg st ms = .ok st := by
  induction ms with
  | nil => rfl
  | cons m r ih => simp [checkAll, checkStopped, h, ih]

theorem checkAll_true {α} (cfg : Cfg α) (h : cfg.raiseStopped = true) (ms : List (List Char)) (hne : ms ≠ []) :
    checkAll cfg true ms = .error .stopped := by
  cases ms with
  | nil => exact absurd rfl hne
  | cons m r => simp [checkAll, checkStopped, h]

theorem checkAll_after_term {α} (cfg : Cfg α) (h : cfg.raiseStopped = true) (a : List (List Char)) (b : List Char)
    (c : List (List Char)) (hb : isTerm b = true) (hc : c ≠ []) (st : Bool) :
    checkAll cfg st (a ++ b :: c) = .error .stopped := by
  induction a generalizing st with
  | nil =>
    cases st with
    | true => exact checkAll_true cfg h _ (by simp)
    | false =>
      have : (b == ['#'] || b == ['|']) = true := hb
      simp [checkAll, checkStopped, h, this, checkAll_true cfg h c hc]
  | cons x a ih =>
    cases st with
    | true => exact checkAll_true cfg h _ (by simp)
    | false => simp [checkAll, checkStopped, h, ih]

theorem checkAll_ok_of_no_term_before_last {α} (cfg : Cfg α) (ms : List (List Char))
    (h : ms.dropLast.all (fun m => !isTerm m) = true) :
    ∃ st', checkAll cfg false ms = .ok st' := by
  cases hrs : cfg.raiseStopped with
  | false => exact ⟨false, checkAll_noraise cfg hrs false ms⟩
  | true =>
    induction ms with
    | nil => exact ⟨false, rfl⟩
    | cons m r ih =>
      cases r with
      | nil => exact ⟨(m == ['#'] || m == ['|']), by simp [checkAll, checkStopped, hrs]⟩
      | cons m2 r2 =>
        simp only [List.dropLast_cons_cons, List.all_cons, Bool.and_eq_true, Bool.not_eq_true'] at h
        obtain ⟨st', hst⟩ := ih h.2
        have hm : (m == ['#'] || m == ['|']) = false := h.1
        refine ⟨st', ?_⟩
        rw [← hst]
        simp [checkAll, checkStopped, hrs, hm]

/-! ## induction over the scanner itself (any string) -/


theorem checkStopped_noraise {α} (cfg : Cfg α) (h : cfg.raiseStopped = false) (st : Bool) (m : List Char) :
    checkStopped cfg st m = .ok st := by simp [checkStopped, h]

theorem checkAll_noraise' {α} (cfg : Cfg α) (h : cfg.raiseStopped = false) (st : Bool) (ms : List (List Char)) :
    checkAll cfg st ms = .ok st := by
  induction ms with
  | nil => rfl
  | cons m r ih => simp [checkAll, checkStopped, h, ih]

theorem scan_noraise {α} (cfg : Cfg α) (h : cfg.raiseStopped = false) (s : List Char) (f : Nat) (st : Bool) :
    scan cfg s f st ≠ .error .stopped := by
  fun_induction scan cfg s f st <;> simp_all [checkStopped_noraise, checkAll_noraise']

theorem mapElement_fst {α} (cfg : Cfg α) (t : Int) (m : List Char) : (mapElement cfg t m).1 = t := by
  simp only [mapElement]; split
  · rfl
  · split <;> rfl

theorem time_mono {α} (cfg : Cfg α) (h : 0 ≤ cfg.timespan) {f g : Nat} (hfg : f ≤ g) :
    time cfg f ≤ time cfg g := by
  simp only [time]
  have : (f : Int) * cfg.timespan ≤ (g : Int) * cfg.timespan :=
    Int.mul_le_mul_of_nonneg_right (by omega) h
  omega

theorem sorted_prepend {α} (t : Int) (pre ms : List (Msg α)) (hpre : ∀ m ∈ pre, m.1 = t)
    (hms : ∀ m ∈ ms, t ≤ m.1) (hp : ms.Pairwise (fun a b => a.1 ≤ b.1)) :
    (∀ m ∈ pre ++ ms, t ≤ m.1) ∧ (pre ++ ms).Pairwise (fun a b => a.1 ≤ b.1) := by
  refine ⟨fun m hm => ?_, ?_⟩
  · rcases List.mem_append.1 hm with h | h
    · rw [hpre m h]; exact Int.le_refl t
    · exact hms m h
  · rw [List.pairwise_append]
    refine ⟨?_, hp, fun a ha b hb => by rw [hpre a ha]; exact hms b hb⟩
    apply List.Pairwise.imp_of_mem (R := fun _ _ => True)
    · intro a b ha hb _; rw [hpre a ha, hpre b hb]; exact Int.le_refl t
    · exact List.pairwise_of_forall (fun _ _ => trivial)

/-- all messages produced from frame `f` on carry times ≥ `time f`, in non-decreasing order -/
theorem scan_sorted {α} (cfg : Cfg α) (h : 0 ≤ cfg.timespan) (s : List Char) (f : Nat) (st : Bool)
    (ms : List (Msg α)) (hs : scan cfg s f st = .ok ms) :
    (∀ m ∈ ms, time cfg f ≤ m.1) ∧ ms.Pairwise (fun a b => a.1 ≤ b.1) := by
  fun_induction scan cfg s f st generalizing ms
  all_goals simp_all
  · -- group
    rename_i f _ body _ _ _ _ ms' _ ih
    subst hs
    have := sorted_prepend (time cfg f)
      (List.map (mapElement cfg (time cfg f)) (List.filter (fun e => !e.isEmpty) (splitComma body))) ms'
      (by intro m hm; simp only [List.mem_map] at hm; obtain ⟨e, _, rfl⟩ := hm; exact mapElement_fst _ _ _)
      (fun m hm => Int.le_trans (time_mono cfg h (by omega)) (ih.1 m.1 m.2 hm)) ih.2
    exact ⟨fun a b hab => this.1 (a, b) hab, this.2⟩
  · rename_i ih; exact ih.1
  · rename_i ih
    exact fun a b hab => Int.le_trans (time_mono cfg h (by omega)) (ih.1 a b hab)
  · rename_i c _ f _ _ _ _ _ _ _ ms' _ ih
    subst hs
    have := sorted_prepend (time cfg f) [mapElement cfg (time cfg f) [c]] ms'
      (by intro m hm; simp only [List.mem_singleton] at hm; subst hm; exact mapElement_fst _ _ _)
      (fun m hm => Int.le_trans (time_mono cfg h (by omega)) (ih.1 m.1 m.2 hm)) ih.2
    exact ⟨fun a b hab => this.1 (a, b) hab, this.2⟩
  · rename_i ih; exact ih.1
  · rename_i c cs f _ _ _ _ _ _ ms' _ _ _ _ ih
    subst hs
    have := sorted_prepend (time cfg f) [mapElement cfg (time cfg f) (c :: List.takeWhile (fun x => !isSpecial x) cs)] ms'
      (by intro m hm; simp only [List.mem_singleton] at hm; subst hm; exact mapElement_fst _ _ _)
      (fun m hm => Int.le_trans (time_mono cfg h (by omega)) (ih.1 m.1 m.2 hm)) ih.2
    exact ⟨fun a b hab => this.1 (a, b) hab, this.2⟩

/-! ## delivery and try_number -/


/-! ### the scheduler queue on sorted input -/
theorem enqueue_last {β} (q : List (Int × β)) (x : Int × β) (h : ∀ y ∈ q, y.1 ≤ x.1) :
    enqueue q x = q ++ [x] := by
  induction q with
  | nil => rfl
  | cons y r ih =>
    have hy := h y (by simp)
    have : ¬ x.1 < y.1 := by omega
    simp [enqueue, this, ih (fun z hz => h z (by simp [hz]))]

theorem enqueueAll_sorted {β} (q xs : List (Int × β))
    (h : (q ++ xs).Pairwise (fun a b => a.1 ≤ b.1)) : enqueueAll q xs = q ++ xs := by
  induction xs generalizing q with
  | nil => simp [enqueueAll]
  | cons x r ih =>
    have hq : ∀ y ∈ q, y.1 ≤ x.1 := by
      intro y hy
      rw [List.pairwise_append] at h
      exact h.2.2 y hy x (by simp)
    have := ih (q ++ [x]) (by simpa using h)
    simp only [enqueueAll, List.foldl_cons] at this ⊢
    rw [enqueue_last q x hq, this]; simp

theorem runQueue_sorted {β} (now : Int) (q : List (Int × β)) (h : q.Pairwise (fun a b => a.1 ≤ b.1)) :
    runQueue now q = q.map (fun dx => (if dx.1 > now then dx.1 else now, dx.2)) := by
  induction q generalizing now with
  | nil => rfl
  | cons dx r ih =>
    obtain ⟨d, x⟩ := dx
    rw [List.pairwise_cons] at h
    simp only [runQueue, List.map_cons, ih _ h.2]
    congr 1
    apply List.map_congr_left
    intro dy hdy
    have := h.1 dy hdy
    simp only at this
    congr 1
    repeat' split
    all_goals omega

theorem map_sorted {α} (msgs : List (Msg α)) (c : Int) (h : msgs.Pairwise (fun a b => a.1 ≤ b.1)) :
    (msgs.map fun (tn : Msg α) => (c + tn.1, tn.2)).Pairwise (fun a b => a.1 ≤ b.1) := by
  rw [List.pairwise_map]
  exact h.imp (fun hab => by simp only; omega)

theorem coldDeliver_sorted {α} (msgs : List (Msg α)) (sub disp : Int)
    (hs : msgs.Pairwise (fun a b => a.1 ≤ b.1)) (h0 : ∀ m ∈ msgs, 0 ≤ m.1) :
    coldDeliver msgs sub disp =
      (msgs.map fun m => (sub + m.1, m.2)).filter (fun m => m.1 < disp) := by
  have hm := map_sorted msgs sub hs
  simp only [coldDeliver]
  rw [enqueueAll_sorted [] _ (by simpa using hm), List.nil_append, runQueue_sorted sub _ hm]
  congr 1
  rw [List.map_map]
  apply List.map_congr_left
  intro m hm'
  have := h0 m hm'
  simp only [Function.comp]
  congr 1
  split <;> omega

theorem filter_clamp {β} (created sub disp : Int) (hc : created ≤ sub) (q : List (Int × β)) :
    (q.map (fun dx => (if dx.1 > created then dx.1 else created, dx.2))).filter
        (fun m => decide (sub < m.1) && decide (m.1 ≤ disp)) =
      q.filter (fun m => decide (sub < m.1) && decide (m.1 ≤ disp)) := by
  induction q with
  | nil => rfl
  | cons dx r ih =>
    obtain ⟨d, x⟩ := dx
    simp only [List.map_cons, List.filter_cons, ih]
    by_cases hd : d > created
    · simp only [hd, if_true]
    · have h1 : ¬ (sub < d) := by omega
      have h2 : ¬ (sub < created) := by omega
      simp [hd, h1, h2]

theorem hotDeliver_sorted {α} (msgs : List (Msg α)) (created sub disp : Int)
    (hs : msgs.Pairwise (fun a b => a.1 ≤ b.1)) (hc : created ≤ sub) :
    hotDeliver msgs created sub disp =
      (msgs.map fun m => (created + m.1, m.2)).filter (fun m => decide (sub < m.1) && decide (m.1 ≤ disp)) := by
  have hm := map_sorted msgs created hs
  simp only [hotDeliver]
  rw [enqueueAll_sorted [] _ (by simpa using hm), List.nil_append, runQueue_sorted created _ hm]
  exact filter_clamp created sub disp hc _

theorem hotDeliverLate_sorted {α} (msgs : List (Msg α)) (created sub disp : Int)
    (hs : msgs.Pairwise (fun a b => a.1 ≤ b.1)) :
    hotDeliverLate msgs created sub disp =
      (msgs.map fun m => (created + m.1, m.2)).filter (fun m => decide (sub ≤ m.1) && decide (m.1 < disp)) := by
  have hm := map_sorted msgs created hs
  simp only [hotDeliverLate]
  rw [enqueueAll_sorted [] _ (by simpa using hm), List.nil_append]

/-! ### the delivery loop of `hot` -/
theorem loopFixed_all (terminal : Bool) (snapshot live : List Nat) : loopFixed terminal snapshot live = snapshot := by
  induction snapshot generalizing live with
  | nil => rfl
  | cons o r ih => simp [loopFixed, ih]

/-! ### try_number on plain digit strings -/
theorem usOK_digits (prev : Char) (hp : prev ≠ '_') (ds : List Char) (h : ∀ c ∈ ds, c.isDigit = true) :
    usOK prev ds = true := by
  induction ds generalizing prev with
  | nil => simp [usOK, hp]
  | cons c r ih =>
    have hc := h c (by simp)
    have hne : c ≠ '_' := by intro h0; subst h0; simp [Char.isDigit] at hc
    have : (c == '_') = false := by simp [hne]
    simp [usOK, this, hc, ih c hne (fun x hx => h x (by simp [hx]))]

theorem isDigit_toNat (c : Char) (h : c.isDigit = true) : 48 ≤ c.toNat ∧ c.toNat ≤ 57 := by
  simp only [Char.isDigit, Bool.and_eq_true, decide_eq_true_eq, ge_iff_le, UInt32.le_iff_toNat_le] at h
  exact ⟨h.1, h.2⟩

theorem isDigit_not_ws (c : Char) (h : c.isDigit = true) : isPyWs c = false := by
  have hb := isDigit_toNat c h
  have hne : (c == ' ') = false := by
    cases hc : c == ' ' with
    | false => rfl
    | true =>
      have : c = ' ' := by simpa using hc
      subst this
      exact absurd hb.1 (by decide)
  simp only [isPyWs, hne, Bool.false_or, Bool.or_eq_false_iff, Bool.and_eq_false_iff, decide_eq_false_iff_not]
  exact ⟨Or.inr (by omega), Or.inr (by omega)⟩

theorem dropWhile_head_false {β} (p : β → Bool) (l : List β) (h : ∀ x, l.head? = some x → p x = false) :
    l.dropWhile p = l := by
  cases l with
  | nil => rfl
  | cons x r => simp [List.dropWhile, h x rfl]

theorem pyStrip_digits (ds : List Char) (h : ∀ c ∈ ds, c.isDigit = true) : pyStrip ds = ds := by
  have h1 : ds.dropWhile isPyWs = ds :=
    dropWhile_head_false _ _ (fun x hx => isDigit_not_ws x (h x (List.mem_of_mem_head? hx)))
  have h2 : ds.reverse.dropWhile isPyWs = ds.reverse :=
    dropWhile_head_false _ _ (fun x hx => isDigit_not_ws x (h x (by
      have := List.mem_of_mem_head? hx; simpa using this)))
  simp [pyStrip, h1, h2]

theorem stripSign_digit (c : Char) (r : List Char) (h : c.isDigit = true) : stripSign (c :: r) = (false, c :: r) := by
  have hb := isDigit_toNat c h
  have h1 : c ≠ '+' := by intro h0; subst h0; exact absurd hb.1 (by decide)
  have h2 : c ≠ '-' := by intro h0; subst h0; exact absurd hb.1 (by decide)
  unfold stripSign
  split
  · rename_i heq; cases heq; exact absurd rfl h1
  · rename_i heq; cases heq; exact absurd rfl h2
  · rfl

theorem tryNumber_digits' (ds : List Char) (hne : ds ≠ []) (h : ∀ c ∈ ds, c.isDigit = true) :
    tryNumber ds = .int (Int.ofNat (natOfDigits ds)) := by
  cases ds with
  | nil => exact absurd rfl hne
  | cons c r =>
    have hs := stripSign_digit c r (h c (by simp))
    have hu := usOK_digits '\x00' (by decide) (c :: r) h
    have hall : (c :: r).all (fun c => c.isDigit || c == '_') = true := by
      rw [List.all_eq_true]; intro x hx; simp [h x hx]
    simp [tryNumber, pyInt?, pyStrip_digits (c :: r) h, hs, intBody, hu, hall]


/-! ## change of time unit -/


/-- the same diagram read in a unit `k` times finer (e.g. `k = 4`: quarter seconds) -/
def scaleCfg {α} (k : Int) (cfg : Cfg α) : Cfg α :=
  { cfg with timespan := k * cfg.timespan, shift := k * cfg.shift }

def scaleMsgs {α} (k : Int) (ms : List (Msg α)) : List (Msg α) := ms.map (fun m => (k * m.1, m.2))

theorem time_scale {α} (k : Int) (cfg : Cfg α) (f : Nat) : time (scaleCfg k cfg) f = k * time cfg f := by
  simp only [time, scaleCfg, Int.mul_add, Int.mul_left_comm]

theorem mapElement_scale {α} (k : Int) (cfg : Cfg α) (t : Int) (m : List Char) :
    mapElement (scaleCfg k cfg) (k * t) m = (k * (mapElement cfg t m).1, (mapElement cfg t m).2) := by
  simp only [mapElement, scaleCfg]
  split
  · rfl
  · split <;> rfl

theorem checkStopped_scale {α} (k : Int) (cfg : Cfg α) (st : Bool) (m : List Char) :
    checkStopped (scaleCfg k cfg) st m = checkStopped cfg st m := rfl

theorem checkAll_scale {α} (k : Int) (cfg : Cfg α) (st : Bool) (ms : List (List Char)) :
    checkAll (scaleCfg k cfg) st ms = checkAll cfg st ms := by
  induction ms generalizing st with
  | nil => rfl
  | cons m r ih => simp only [checkAll, checkStopped_scale]; cases checkStopped cfg st m <;> simp [ih]

theorem scan_scale {α} (k : Int) (cfg : Cfg α) (s : List Char) (f : Nat) (st : Bool) :
    scan (scaleCfg k cfg) s f st = (scan cfg s f st).map (scaleMsgs k) := by
  fun_induction scan cfg s f st
  all_goals simp_all +zetaDelta [scan, checkAll_scale, checkStopped_scale, time_scale, mapElement_scale, scaleMsgs, Except.map]

end Pure.Marbles

import RxModel.SubjReplay
import RxProofs.Lemmas.SubjNat
/-!
# Naturality of the ReplaySubject machine in the value type

Renaming all values of a history by an arbitrary `g` renames queue, logs and pending calls and changes
nothing else: `_trim` only looks at times and counts, nothing ever inspects a value.
-/
set_option linter.unusedSimpArgs false

namespace SubjReplay
open Subj (Action Call upd disposedExn upd_apply)
variable {α β : Type}

def tv (g : α → β) (p : Nat × α) : Nat × β := (p.1, g p.2)
def tn (g : α → β) (p : Nat × Notif α) : Nat × Notif β := (p.1, p.2.map g)

def ItemKind.map (g : α → β) : ItemKind α → ItemKind β
  | .call k c => .call k (c.map g)
  | .run i => .run i

def Item.map (g : α → β) (it : Item α) : Item β :=
  { due := it.due, id := it.id, kind := it.kind.map g, cancelled := it.cancelled }

def St.map (g : α → β) (st : St α) : St β :=
  { stopped := st.stopped, disposed := st.disposed, observers := st.observers, exception := st.exception,
    queue := st.queue.map (tv g), seen := st.seen, handle := st.handle, cbs := st.cbs,
    log := fun i => (st.log i).map (tn g), adoStopped := st.adoStopped, sadDisposed := st.sadDisposed, held := st.held,
    soStopped := st.soStopped, soQueue := fun i => (st.soQueue i).map (Notif.map g), acquired := st.acquired,
    faulted := st.faulted, serDisposed := st.serDisposed, serCur := st.serCur, clock := st.clock, spin := st.spin,
    nextId := st.nextId, pending := st.pending.map (Item.map g), crashed := st.crashed, agenda := st.agenda,
    curCall := st.curCall, raised := st.raised, xlog := st.xlog,
    enq := fun i => (st.enq i).map (Notif.map g), fed := fun i => (st.fed i).map (Notif.map g),
    allVals := st.allVals.map (tv g), lastNow := st.lastNow, evs := st.evs }

theorem St.ext' {a b : St α} (h1 : a.stopped = b.stopped) (h2 : a.disposed = b.disposed) (h3 : a.observers = b.observers)
    (h4 : a.exception = b.exception) (h5 : a.queue = b.queue) (h6 : a.seen = b.seen) (h7 : a.handle = b.handle)
    (h8 : a.cbs = b.cbs) (h9 : ∀ i, a.log i = b.log i) (h10 : a.adoStopped = b.adoStopped)
    (h11 : a.sadDisposed = b.sadDisposed) (h12 : a.held = b.held) (h13 : a.soStopped = b.soStopped)
    (h14 : ∀ i, a.soQueue i = b.soQueue i) (h15 : a.acquired = b.acquired) (h16 : a.faulted = b.faulted)
    (h17 : a.serDisposed = b.serDisposed) (h18 : a.serCur = b.serCur) (h19 : a.clock = b.clock) (h20 : a.spin = b.spin)
    (h21 : a.nextId = b.nextId) (h22 : a.pending = b.pending) (h23 : a.crashed = b.crashed) (h24 : a.agenda = b.agenda)
    (h25 : a.curCall = b.curCall) (h26 : a.raised = b.raised) (h27 : a.xlog = b.xlog) (h28 : ∀ i, a.enq i = b.enq i)
    (h29 : ∀ i, a.fed i = b.fed i) (h30 : a.allVals = b.allVals) (h31 : a.lastNow = b.lastNow) (h32 : a.evs = b.evs) :
    a = b := by
  cases a; cases b
  simp only [St.mk.injEq]
  simp_all
  exact ⟨funext h9, funext h14, funext h28, funext h29⟩

/-- prove `f (st.map g) = (f st).map g` field by field -/
macro "rnat_fields" : tactic => `(tactic| (
  apply St.ext'
  all_goals first
    | rfl
    | (intro j; simp only [St.map, Subj.upd_apply]; split <;> simp [tn, tv])
    | (intro j; simp [St.map, Subj.upd_apply, tn, tv])
    | simp [St.map, tn, tv]))

theorem trimCount_map (g : α → β) (bs : Option Nat) (q : List (Nat × α)) :
    trimCount bs (q.map (tv g)) = (trimCount bs q).map (tv g) := by
  induction q with
  | nil => simp [trimCount]
  | cons x xs ih =>
    cases bs with
    | none => simp [trimCount]
    | some n =>
      simp only [List.map_cons, trimCount, List.length_cons, List.length_map]
      split
      · exact ih
      · simp

theorem trimAge_map (g : α → β) (w : Option Nat) (now : Nat) (q : List (Nat × α)) :
    trimAge w now (q.map (tv g)) = (trimAge w now q).map (tv g) := by
  induction q with
  | nil => simp [trimAge]
  | cons x xs ih =>
    cases w with
    | none => simp [trimAge]
    | some w' =>
      simp only [List.map_cons, trimAge, tv]
      split
      · exact ih
      · simp [tv]

theorem trim_map (cfg : Cfg) (g : α → β) (now : Nat) (q : List (Nat × α)) :
    trim cfg now (q.map (tv g)) = (trim cfg now q).map (tv g) := by
  simp [trim, trimCount_map, trimAge_map]

theorem pqInsert_map (g : α → β) (it : Item α) (p : List (Item α)) :
    pqInsert (it.map g) (p.map (Item.map g)) = (pqInsert it p).map (Item.map g) := by
  induction p with
  | nil => simp [pqInsert]
  | cons x xs ih =>
    simp only [List.map_cons, pqInsert]
    have : (Item.map g it).due = it.due ∧ (Item.map g x).due = x.due := ⟨rfl, rfl⟩
    rw [this.1, this.2]
    split
    · simp
    · simp [ih]

theorem cancelItem_map (g : α → β) (id : Nat) (p : List (Item α)) :
    cancelItem id (p.map (Item.map g)) = (cancelItem id p).map (Item.map g) := by
  simp only [cancelItem, List.map_map]
  apply List.map_congr_left
  intro it _
  simp only [Function.comp]
  have : (Item.map g it).id = it.id := rfl
  rw [this]
  split <;> rfl

theorem scheduleRun_map (g : α → β) (st : St α) (i : Id) :
    scheduleRun (st.map g) i = ((scheduleRun st i).1.map g, (scheduleRun st i).2) := by
  unfold scheduleRun
  have := pqInsert_map g { due := st.clock, id := st.nextId, kind := .run i } st.pending
  simp only [Item.map, ItemKind.map] at this
  simp only [Prod.mk.injEq]
  refine ⟨?_, rfl⟩
  apply St.ext'
  all_goals first
    | rfl
    | (intro i; rfl)
    | (simp only [St.map]; exact this)

theorem soPush_map (g : α → β) (st : St α) (i : Id) (n : Notif α) :
    soPush (st.map g) i (n.map g) = (soPush st i n).map g := by
  unfold soPush
  by_cases hs : st.soStopped i = true
  · rw [if_pos (show (st.map g).soStopped i = true from hs), if_pos hs]
  · rw [if_neg (show ¬(st.map g).soStopped i = true from hs), if_neg hs]
    have ht : (n.map g).isTerminal = n.isTerminal := by cases n <;> rfl
    rw [ht]
    rnat_fields

end SubjReplay

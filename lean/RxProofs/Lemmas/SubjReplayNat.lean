import RxModel.SubjReplay
import RxProofs.Lemmas.SubjNat
/-!
# Naturality of the ReplaySubject machine in the value type

Renaming all values of a history by an arbitrary `g` renames queue, logs and pending calls and changes
nothing else: `_trim` only looks at times and counts, nothing ever inspects a value.
-/
set_option linter.unusedSimpArgs false

namespace SubjReplay
open Subj (Action Call upd disposedExn)
variable {α β : Type}

theorem updE {γ : Type} (f : Id → γ) (i j : Id) (v : γ) : upd f i v j = if j = i then v else f j := rfl

def RAction.map (g : α → β) : RAction α → RAction β
  | .base a => .base a
  | .emit n => .emit (n.map g)

def Task.map (g : α → β) : Task α → Task β
  | .act w a => .act w (a.map g)
  | .sadDispose i => .sadDispose i
  | .resched i => .resched i
  | .handle j => .handle j

def EvR.map (g : α → β) : EvR α → EvR β
  | .emit i now n => .emit i now (n.map g)
  | .call k now nobs c => .call k now nobs (c.map g)
  | .sub j now => .sub j now
  | .unsub j => .unsub j
  | .dispose => .dispose
  | .cb i now => .cb i now

/-- the same reaction scripts, emitting renamed values -/
def Cfg.map (g : α → β) (cfg : Cfg α) : Cfg β :=
  { bufferSize := cfg.bufferSize, window := cfg.window, hasErr := cfg.hasErr,
    react := fun i k => (cfg.react i k).map (RAction.map g) }

def tv (g : α → β) (p : Nat × α) : Nat × β := (p.1, g p.2)
def tn (g : α → β) (p : Nat × Notif α) : Nat × Notif β := (p.1, p.2.map g)

def ItemKind.map (g : α → β) : ItemKind α → ItemKind β
  | .call k c => .call k (c.map g)
  | .run i => .run i

def Item.map (g : α → β) (it : Item α) : Item β :=
  { due := it.due, id := it.id, kind := it.kind.map g, cancelled := it.cancelled }

def St.map (g : α → β) (st : St α) : St β :=
  { stopped := st.stopped, disposed := st.disposed, observers := st.observers, exception := st.exception,
    queue := st.queue.map (tv g), seen := st.seen, handle := st.handle, cbs := st.cbs,
    log := fun i => (st.log i).map (tn g), adoStopped := st.adoStopped, sadDisposed := st.sadDisposed, held := st.held,
    soStopped := st.soStopped, soQueue := fun i => (st.soQueue i).map (Notif.map g), acquired := st.acquired,
    faulted := st.faulted, serDisposed := st.serDisposed, serCur := st.serCur, clock := st.clock, spin := st.spin,
    nextId := st.nextId, pending := st.pending.map (Item.map g), crashed := st.crashed, agenda := st.agenda.map (Task.map g),
    curCall := st.curCall, raised := st.raised, xlog := st.xlog,
    enq := fun i => (st.enq i).map (Notif.map g), fed := fun i => (st.fed i).map (Notif.map g),
    allVals := st.allVals.map (tv g), lastNow := st.lastNow, evs := st.evs.map (EvR.map g) }

theorem St.ext' {a b : St α} (h1 : a.stopped = b.stopped) (h2 : a.disposed = b.disposed) (h3 : a.observers = b.observers)
    (h4 : a.exception = b.exception) (h5 : a.queue = b.queue) (h6 : a.seen = b.seen) (h7 : a.handle = b.handle)
    (h8 : a.cbs = b.cbs) (h9 : ∀ i, a.log i = b.log i) (h10 : a.adoStopped = b.adoStopped)
    (h11 : a.sadDisposed = b.sadDisposed) (h12 : a.held = b.held) (h13 : a.soStopped = b.soStopped)
    (h14 : ∀ i, a.soQueue i = b.soQueue i) (h15 : a.acquired = b.acquired) (h16 : a.faulted = b.faulted)
    (h17 : a.serDisposed = b.serDisposed) (h18 : a.serCur = b.serCur) (h19 : a.clock = b.clock) (h20 : a.spin = b.spin)
    (h21 : a.nextId = b.nextId) (h22 : a.pending = b.pending) (h23 : a.crashed = b.crashed) (h24 : a.agenda = b.agenda)
    (h25 : a.curCall = b.curCall) (h26 : a.raised = b.raised) (h27 : a.xlog = b.xlog) (h28 : ∀ i, a.enq i = b.enq i)
    (h29 : ∀ i, a.fed i = b.fed i) (h30 : a.allVals = b.allVals) (h31 : a.lastNow = b.lastNow) (h32 : a.evs = b.evs) :
    a = b := by
  cases a; cases b
  simp only [St.mk.injEq]
  simp_all
  exact ⟨funext h9, funext h14, funext h28, funext h29⟩

/-- prove `f (st.map g) = (f st).map g` field by field -/
macro "rnat_fields" : tactic => `(tactic| (
  apply St.ext'
  all_goals first
    | rfl
    | (intro j; simp only [St.map, updE]; split <;> simp [tn, tv, Notif.map])
    | (intro j; simp [St.map, updE, tn, tv])
    | simp [St.map, tn, tv, EvR.map, Task.map]))

theorem trimCount_map (g : α → β) (bs : Option Nat) (q : List (Nat × α)) :
    trimCount bs (q.map (tv g)) = (trimCount bs q).map (tv g) := by
  induction q with
  | nil => simp [trimCount]
  | cons x xs ih =>
    cases bs with
    | none => simp [trimCount]
    | some n =>
      simp only [List.map_cons, trimCount, List.length_cons, List.length_map]
      split
      · exact ih
      · simp

theorem trimAge_map (g : α → β) (w : Option Nat) (now : Nat) (q : List (Nat × α)) :
    trimAge w now (q.map (tv g)) = (trimAge w now q).map (tv g) := by
  induction q with
  | nil => simp [trimAge]
  | cons x xs ih =>
    cases w with
    | none => simp [trimAge]
    | some w' =>
      simp only [List.map_cons, trimAge, tv]
      split
      · exact ih
      · simp [tv]

theorem trim_map (cfg : Cfg α) (g : α → β) (now : Nat) (q : List (Nat × α)) :
    trim (cfg.map g) now (q.map (tv g)) = (trim cfg now q).map (tv g) := by
  simp [trim, Cfg.map, trimCount_map, trimAge_map]

theorem pqInsert_map (g : α → β) (it : Item α) (p : List (Item α)) :
    pqInsert (it.map g) (p.map (Item.map g)) = (pqInsert it p).map (Item.map g) := by
  induction p with
  | nil => simp [pqInsert]
  | cons x xs ih =>
    simp only [List.map_cons, pqInsert]
    have : (Item.map g it).due = it.due ∧ (Item.map g x).due = x.due := ⟨rfl, rfl⟩
    rw [this.1, this.2]
    split
    · simp
    · simp [ih]

theorem cancelItem_map (g : α → β) (id : Nat) (p : List (Item α)) :
    cancelItem id (p.map (Item.map g)) = (cancelItem id p).map (Item.map g) := by
  simp only [cancelItem, List.map_map]
  apply List.map_congr_left
  intro it _
  simp only [Function.comp]
  have : (Item.map g it).id = it.id := rfl
  rw [this]
  split <;> rfl

theorem scheduleRun_map (g : α → β) (st : St α) (i : Id) :
    scheduleRun (st.map g) i = ((scheduleRun st i).1.map g, (scheduleRun st i).2) := by
  unfold scheduleRun
  have := pqInsert_map g { due := st.clock, id := st.nextId, kind := .run i } st.pending
  simp only [Item.map, ItemKind.map] at this
  simp only [Prod.mk.injEq]
  refine ⟨?_, rfl⟩
  apply St.ext'
  all_goals first
    | rfl
    | (intro i; rfl)
    | (simp only [St.map]; exact this)

theorem soPush_map (g : α → β) (st : St α) (i : Id) (n : Notif α) :
    soPush (st.map g) i (n.map g) = (soPush st i n).map g := by
  unfold soPush
  by_cases hs : st.soStopped i = true
  · rw [if_pos (show (st.map g).soStopped i = true from hs), if_pos hs]
  · rw [if_neg (show ¬(st.map g).soStopped i = true from hs), if_neg hs]
    have ht : (n.map g).isTerminal = n.isTerminal := by cases n <;> rfl
    rw [ht]
    rnat_fields

@[simp] theorem m_faulted (g : α → β) (st : St α) : (st.map g).faulted = st.faulted := rfl
@[simp] theorem m_acquired (g : α → β) (st : St α) : (st.map g).acquired = st.acquired := rfl
@[simp] theorem m_serDisposed (g : α → β) (st : St α) : (st.map g).serDisposed = st.serDisposed := rfl
@[simp] theorem m_serCur (g : α → β) (st : St α) : (st.map g).serCur = st.serCur := rfl
@[simp] theorem m_soStopped (g : α → β) (st : St α) : (st.map g).soStopped = st.soStopped := rfl
@[simp] theorem m_soQueue (g : α → β) (st : St α) (i : Id) : (st.map g).soQueue i = (st.soQueue i).map (Notif.map g) := rfl
@[simp] theorem m_disposed (g : α → β) (st : St α) : (st.map g).disposed = st.disposed := rfl
@[simp] theorem m_stopped (g : α → β) (st : St α) : (st.map g).stopped = st.stopped := rfl
@[simp] theorem m_observers (g : α → β) (st : St α) : (st.map g).observers = st.observers := rfl
@[simp] theorem m_exception (g : α → β) (st : St α) : (st.map g).exception = st.exception := rfl
@[simp] theorem m_seen (g : α → β) (st : St α) : (st.map g).seen = st.seen := rfl
@[simp] theorem m_handle (g : α → β) (st : St α) : (st.map g).handle = st.handle := rfl
@[simp] theorem m_held (g : α → β) (st : St α) : (st.map g).held = st.held := rfl
@[simp] theorem m_sadDisposed (g : α → β) (st : St α) : (st.map g).sadDisposed = st.sadDisposed := rfl
@[simp] theorem m_adoStopped (g : α → β) (st : St α) : (st.map g).adoStopped = st.adoStopped := rfl
@[simp] theorem m_clock (g : α → β) (st : St α) : (st.map g).clock = st.clock := rfl
@[simp] theorem m_crashed (g : α → β) (st : St α) : (st.map g).crashed = st.crashed := rfl
@[simp] theorem m_agenda (g : α → β) (st : St α) : (st.map g).agenda = st.agenda.map (Task.map g) := rfl
@[simp] theorem m_pending (g : α → β) (st : St α) : (st.map g).pending = st.pending.map (Item.map g) := rfl
@[simp] theorem m_queue (g : α → β) (st : St α) : (st.map g).queue = st.queue.map (tv g) := rfl
@[simp] theorem m_cbs (g : α → β) (st : St α) : (st.map g).cbs = st.cbs := rfl
@[simp] theorem m_spin (g : α → β) (st : St α) : (st.map g).spin = st.spin := rfl

/-- the serial-disposable part of `ensure_active`, after the new `run` item `id` was scheduled -/
def serialAssign (st : St α) (i : Id) (id : Nat) : St α :=
  if st.serDisposed i then { st with pending := cancelItem id st.pending }
  else
    let st' := { st with serCur := upd st.serCur i (some id) }
    match st.serCur i with
    | some old => { st' with pending := cancelItem old st'.pending }
    | none => st'

def acquire (st : St α) (i : Id) : St α := { st with acquired := upd st.acquired i true }
theorem acquire_map (g : α → β) (st : St α) (i : Id) : acquire (st.map g) i = (acquire st i).map g := rfl

theorem ensureActive_eq (st : St α) (i : Id) :
    ensureActive st i =
      if (!st.faulted i && !(st.soQueue i).isEmpty) = true then
        if st.acquired i = true then st
        else serialAssign (scheduleRun (acquire st i) i).1 i (scheduleRun (acquire st i) i).2
      else st := rfl

theorem serialAssign_map (g : α → β) (st : St α) (i : Id) (id : Nat) :
    serialAssign (st.map g) i id = (serialAssign st i id).map g := by
  unfold serialAssign
  simp only [m_serDisposed, m_serCur, m_pending]
  by_cases hd : st.serDisposed i = true
  · simp only [hd, if_true, cancelItem_map]; rfl
  · simp only [hd, if_false, Bool.false_eq_true]
    cases hcur : st.serCur i with
    | none => rfl
    | some old => simp only [cancelItem_map]; rfl

theorem ensureActive_map (g : α → β) (st : St α) (i : Id) : ensureActive (st.map g) i = (ensureActive st i).map g := by
  rw [ensureActive_eq, ensureActive_eq]
  have hq : ((st.map g).soQueue i).isEmpty = (st.soQueue i).isEmpty := by simp
  rw [hq, acquire_map, scheduleRun_map, serialAssign_map]
  simp only [m_faulted, m_acquired, apply_ite (St.map g)]
  rfl

def stopSo (st : St α) (i : Id) : St α := { st with soStopped := upd st.soStopped i true }
theorem stopSo_map (g : α → β) (st : St α) (i : Id) : stopSo (st.map g) i = (stopSo st i).map g := rfl

def serialOff (st : St α) (i : Id) : St α :=
  let st' := { st with serDisposed := upd st.serDisposed i true, serCur := upd st.serCur i none }
  match st.serCur i with
  | some old => { st' with pending := cancelItem old st'.pending }
  | none => st'

theorem serialOff_map (g : α → β) (st : St α) (i : Id) : serialOff (st.map g) i = (serialOff st i).map g := by
  unfold serialOff
  simp only [m_serCur, m_pending]
  cases hcur : st.serCur i with
  | none => rfl
  | some old => simp only [cancelItem_map]; rfl

theorem soDispose_eq (st : St α) (i : Id) :
    soDispose st i = if st.serDisposed i = true then stopSo st i else serialOff (stopSo st i) i := rfl

theorem soDispose_map (g : α → β) (st : St α) (i : Id) : soDispose (st.map g) i = (soDispose st i).map g := by
  rw [soDispose_eq, soDispose_eq, stopSo_map, serialOff_map]
  simp only [m_serDisposed, apply_ite (St.map g)]
  rfl

def eraseObs (st : St α) (i : Id) : St α := { st with observers := st.observers.erase i }
theorem eraseObs_map (g : α → β) (st : St α) (i : Id) : eraseObs (st.map g) i = (eraseObs st i).map g := rfl

theorem removableDispose_eq (st : St α) (i : Id) :
    removableDispose st i =
      if (!(soDispose st i).disposed && (soDispose st i).observers.contains i) = true then eraseObs (soDispose st i) i
      else soDispose st i := rfl

theorem removableDispose_map (g : α → β) (st : St α) (i : Id) :
    removableDispose (st.map g) i = (removableDispose st i).map g := by
  rw [removableDispose_eq, removableDispose_eq, soDispose_map, eraseObs_map]
  simp only [m_disposed, m_observers, apply_ite (St.map g)]
  rfl

def sadOff (st : St α) (i : Id) : St α := { st with sadDisposed := upd st.sadDisposed i true, held := upd st.held i false }
theorem sadOff_map (g : α → β) (st : St α) (i : Id) : sadOff (st.map g) i = (sadOff st i).map g := rfl

theorem sadDispose_eq (st : St α) (i : Id) :
    sadDispose st i =
      if st.sadDisposed i = true then st
      else if st.held i = true then removableDispose (sadOff st i) i else sadOff st i := rfl

theorem sadDispose_map (g : α → β) (st : St α) (i : Id) : sadDispose (st.map g) i = (sadDispose st i).map g := by
  rw [sadDispose_eq, sadDispose_eq, sadOff_map, removableDispose_map]
  simp only [m_sadDisposed, m_held, apply_ite (St.map g)]
  rfl

theorem pushAll_map (g : α → β) (n : Notif α) (l : List Id) (st : St α) :
    pushAll (n.map g) l (st.map g) = (pushAll n l st).map g := by
  induction l generalizing st with
  | nil => rfl
  | cons i is ih => simp only [pushAll]; rw [soPush_map, ih]

theorem ensureAll_map (g : α → β) (l : List Id) (st : St α) : ensureAll l (st.map g) = (ensureAll l st).map g := by
  induction l generalizing st with
  | nil => rfl
  | cons i is ih => simp only [ensureAll]; rw [ensureActive_map, ih]

theorem pushEnsureAll_map (g : α → β) (n : Notif α) (l : List Id) (st : St α) :
    pushEnsureAll (n.map g) l (st.map g) = (pushEnsureAll n l st).map g := by
  induction l generalizing st with
  | nil => rfl
  | cons i is ih => simp only [pushEnsureAll]; rw [soPush_map, ensureActive_map, ih]

theorem pushList_map (g : α → β) (j : Id) (ns : List (Notif α)) (st : St α) :
    pushList (st.map g) j (ns.map (Notif.map g)) = (pushList st j ns).map g := by
  induction ns generalizing st with
  | nil => rfl
  | cons n ns ih => simp only [List.map_cons, pushList]; rw [soPush_map, ih]

theorem raiseTo_map (g : α → β) (who : Option Id) (e : Err) (st : St α) :
    raiseTo who e (st.map g) = (raiseTo who e st).map g := by
  cases who <;> rfl

theorem callback_map (g : α → β) (st : St α) (i : Id) (n : Notif α) :
    callback (st.map g) i (n.map g) = (callback st i n).map g := by
  unfold callback
  rnat_fields

theorem reactions_map (cfg : Cfg α) (g : α → β) (st : St α) (i : Id) :
    reactions (cfg.map g) (st.map g) i = (reactions cfg st i).map (Task.map g) := by
  simp [reactions, Cfg.map, Task.map, Function.comp_def]

theorem subjDispose_map (g : α → β) (st : St α) : subjDispose (st.map g) = (subjDispose st).map g := by
  unfold subjDispose
  rnat_fields

/-! ### the subject -/

def acceptNext (cfg : Cfg α) (st : St α) (v : α) : St α :=
  { st with queue := trim cfg st.clock (st.queue ++ [(st.clock, v)]), allVals := st.allVals ++ [(st.clock, v)], lastNow := st.clock }

theorem acceptNext_map (cfg : Cfg α) (g : α → β) (st : St α) (v : α) :
    acceptNext (cfg.map g) (st.map g) (g v) = (acceptNext cfg st v).map g := by
  unfold acceptNext
  apply St.ext'
  all_goals first
    | rfl
    | (intro j; rfl)
    | (simp only [St.map]; rw [← trim_map]; simp [tv])
    | simp [St.map, tv]

def acceptTerm (cfg : Cfg α) (st : St α) (exc : Option Err) : St α :=
  { st with stopped := true, observers := [], exception := exc, queue := trim cfg st.clock st.queue, lastNow := st.clock }

theorem acceptTerm_map (cfg : Cfg α) (g : α → β) (st : St α) (exc : Option Err) :
    acceptTerm (cfg.map g) (st.map g) exc = (acceptTerm cfg st exc).map g := by
  unfold acceptTerm
  apply St.ext'
  all_goals first
    | rfl
    | (intro j; rfl)
    | (simp only [St.map]; rw [← trim_map])

theorem emit_next_eq (cfg : Cfg α) (st : St α) (who : Option Id) (v : α) :
    emit cfg st who (.next v) =
      if st.disposed = true then raiseTo who disposedExn st
      else if st.stopped = true then st
      else ensureAll st.observers (pushAll (.next v) st.observers (acceptNext cfg st v)) := rfl

theorem emit_error_eq (cfg : Cfg α) (st : St α) (who : Option Id) (e : Err) :
    emit cfg st who (.error e) =
      if st.disposed = true then raiseTo who disposedExn st
      else if st.stopped = true then st
      else pushEnsureAll (.error e) st.observers (acceptTerm cfg st (some e)) := rfl

theorem emit_completed_eq (cfg : Cfg α) (st : St α) (who : Option Id) :
    emit cfg st who .completed =
      if st.disposed = true then raiseTo who disposedExn st
      else if st.stopped = true then st
      else pushEnsureAll .completed st.observers (acceptTerm cfg st st.exception) := rfl

theorem emit_map (cfg : Cfg α) (g : α → β) (st : St α) (who : Option Id) (n : Notif α) :
    emit (cfg.map g) (st.map g) who (n.map g) = (emit cfg st who n).map g := by
  cases n with
  | next v =>
    show emit (cfg.map g) (st.map g) who (.next (g v)) = _
    rw [emit_next_eq, emit_next_eq, acceptNext_map]
    have := pushAll_map g (.next v) st.observers (acceptNext cfg st v)
    simp only [Notif.map] at this
    simp only [m_observers, this, ensureAll_map, raiseTo_map, m_disposed, m_stopped, apply_ite (St.map g)]
  | error e =>
    show emit (cfg.map g) (st.map g) who (.error e) = _
    rw [emit_error_eq, emit_error_eq, acceptTerm_map]
    have := pushEnsureAll_map g (.error e) st.observers (acceptTerm cfg st (some e))
    simp only [Notif.map] at this
    simp only [m_observers, this, raiseTo_map, m_disposed, m_stopped, apply_ite (St.map g)]
  | completed =>
    show emit (cfg.map g) (st.map g) who .completed = _
    rw [emit_completed_eq, emit_completed_eq, m_exception, acceptTerm_map]
    have := pushEnsureAll_map g .completed st.observers (acceptTerm cfg st st.exception)
    simp only [Notif.map] at this
    simp only [m_observers, this, raiseTo_map, m_disposed, m_stopped, apply_ite (St.map g)]

def adoStop (st : St α) (j : Id) : St α := { st with adoStopped := upd st.adoStopped j true }
theorem adoStop_map (g : α → β) (st : St α) (j : Id) : adoStop (st.map g) j = (adoStop st j).map g := rfl

def logUnsub (st : St α) (j : Id) : St α := { st with adoStopped := upd st.adoStopped j true, evs := st.evs ++ [EvR.unsub j] }
theorem logUnsub_map (g : α → β) (st : St α) (j : Id) : logUnsub (st.map g) j = (logUnsub st j).map g := by
  unfold logUnsub
  rnat_fields

theorem doUnsub_eq (st : St α) (j : Id) :
    doUnsub st j = if st.handle j = true then sadDispose (logUnsub st j) j else st := rfl

theorem doUnsub_map (g : α → β) (st : St α) (j : Id) : doUnsub (st.map g) j = (doUnsub st j).map g := by
  rw [doUnsub_eq, doUnsub_eq, logUnsub_map, sadDispose_map]
  simp only [m_handle, apply_ite (St.map g)]
  rfl

def subStart (cfg : Cfg α) (st : St α) (j : Id) : St α :=
  { st with queue := trim cfg st.clock st.queue, lastNow := st.clock, observers := st.observers ++ [j] }

theorem subStart_map (cfg : Cfg α) (g : α → β) (st : St α) (j : Id) :
    subStart (cfg.map g) (st.map g) j = (subStart cfg st j).map g := by
  unfold subStart
  apply St.ext'
  all_goals first
    | rfl
    | (intro j; rfl)
    | (simp only [St.map]; rw [← trim_map])

def subTerminal (st : St α) (j : Id) : St α :=
  match st.exception with
  | some e => soPush st j (.error e)
  | none => if st.stopped then soPush st j .completed else st

theorem subTerminal_map (g : α → β) (st : St α) (j : Id) : subTerminal (st.map g) j = (subTerminal st j).map g := by
  unfold subTerminal
  simp only [m_exception, m_stopped]
  cases hx : st.exception with
  | some e => exact soPush_map g st j (.error e)
  | none =>
    simp only
    have := soPush_map g st j .completed
    simp only [Notif.map] at this
    simp only [this, apply_ite (St.map g)]

def subFinish (st : St α) (j : Id) : St α := { st with held := upd st.held j true, handle := upd st.handle j true }
theorem subFinish_map (g : α → β) (st : St α) (j : Id) : subFinish (st.map g) j = (subFinish st j).map g := rfl

theorem subscribeCore_eq (cfg : Cfg α) (st : St α) (j : Id) :
    subscribeCore cfg st j =
      subFinish (ensureActive (subTerminal (pushList (subStart cfg st j) j
        ((subStart cfg st j).queue.map fun (it : Nat × α) => Notif.next it.2)) j) j) j := rfl

theorem subscribeCore_map (cfg : Cfg α) (g : α → β) (st : St α) (j : Id) :
    subscribeCore (cfg.map g) (st.map g) j = (subscribeCore cfg st j).map g := by
  rw [subscribeCore_eq, subscribeCore_eq, subStart_map]
  have hq : ((subStart cfg st j).map g).queue.map (fun (it : Nat × β) => Notif.next it.2) =
      ((subStart cfg st j).queue.map fun (it : Nat × α) => Notif.next it.2).map (Notif.map g) := by
    simp [St.map, tv, Notif.map, Function.comp_def]
  rw [hq, pushList_map, subTerminal_map, ensureActive_map, subFinish_map]

def markSub (st : St α) (j : Id) : St α := { st with seen := upd st.seen j true, evs := st.evs ++ [EvR.sub j st.clock] }
theorem markSub_map (g : α → β) (st : St α) (j : Id) : markSub (st.map g) j = (markSub st j).map g := by
  unfold markSub
  rnat_fields

def failMark (st : St α) (j : Id) : St α :=
  { st with adoStopped := upd st.adoStopped j true, enq := upd st.enq j [.error disposedExn], fed := upd st.fed j [.error disposedExn] }
theorem failMark_map (g : α → β) (st : St α) (j : Id) : failMark (st.map g) j = (failMark st j).map g := by
  unfold failMark
  rnat_fields

theorem doSub_eq (cfg : Cfg α) (st : St α) (who : Option Id) (j : Id) :
    doSub cfg st who j =
      if st.seen j = true then (st, [])
      else if (markSub st j).disposed = true then
        if cfg.hasErr j = true then
          (callback (failMark (markSub st j) j) j (.error disposedExn), reactions cfg (failMark (markSub st j) j) j ++ [.handle j])
        else (raiseTo who disposedExn (failMark (markSub st j) j), [])
      else (subscribeCore cfg (markSub st j) j, []) := rfl

theorem doSub_map (cfg : Cfg α) (g : α → β) (st : St α) (who : Option Id) (j : Id) :
    doSub (cfg.map g) (st.map g) who j = ((doSub cfg st who j).1.map g, (doSub cfg st who j).2.map (Task.map g)) := by
  rw [doSub_eq, doSub_eq, markSub_map, failMark_map, subscribeCore_map, raiseTo_map, reactions_map]
  have hc := callback_map g (failMark (markSub st j) j) j (.error disposedExn)
  simp only [Notif.map] at hc
  rw [hc]
  simp only [m_seen, m_disposed]
  have hh : (cfg.map g).hasErr j = cfg.hasErr j := rfl
  rw [hh]
  by_cases h1 : st.seen j = true
  · simp [h1]
  · by_cases h2 : (markSub st j).disposed = true
    · by_cases h3 : cfg.hasErr j = true <;> simp [h1, h2, h3, Task.map]
    · simp [h1, h2]

theorem adoDeliver_next_eq (cfg : Cfg α) (st : St α) (i : Id) (v : α) :
    adoDeliver cfg st i (.next v) =
      if st.adoStopped i = true then (st, [], none) else (callback st i (.next v), reactions cfg st i, none) := rfl

theorem adoDeliver_completed_eq (cfg : Cfg α) (st : St α) (i : Id) :
    adoDeliver cfg st i .completed =
      if st.adoStopped i = true then (st, [], none)
      else (callback (adoStop st i) i .completed, reactions cfg st i ++ [.sadDispose i], none) := rfl

theorem adoDeliver_error_eq (cfg : Cfg α) (st : St α) (i : Id) (e : Err) :
    adoDeliver cfg st i (.error e) =
      if st.adoStopped i = true then (st, [], none)
      else if cfg.hasErr i = true then (callback (adoStop st i) i (.error e), reactions cfg (adoStop st i) i ++ [.sadDispose i], none)
      else (sadDispose (adoStop st i) i, [], some e) := rfl

theorem adoDeliver_map (cfg : Cfg α) (g : α → β) (st : St α) (i : Id) (n : Notif α) :
    adoDeliver (cfg.map g) (st.map g) i (n.map g) =
      ((adoDeliver cfg st i n).1.map g, (adoDeliver cfg st i n).2.1.map (Task.map g), (adoDeliver cfg st i n).2.2) := by
  have hh : (cfg.map g).hasErr i = cfg.hasErr i := rfl
  cases n with
  | next v =>
    show adoDeliver (cfg.map g) (st.map g) i (.next (g v)) = _
    rw [adoDeliver_next_eq, adoDeliver_next_eq, reactions_map]
    have hc := callback_map g st i (.next v)
    simp only [Notif.map] at hc
    rw [hc]
    simp only [m_adoStopped]
    by_cases h1 : st.adoStopped i = true <;> simp [h1]
  | completed =>
    show adoDeliver (cfg.map g) (st.map g) i .completed = _
    rw [adoDeliver_completed_eq, adoDeliver_completed_eq, reactions_map, adoStop_map]
    have hc := callback_map g (adoStop st i) i .completed
    simp only [Notif.map] at hc
    rw [hc]
    simp only [m_adoStopped]
    by_cases h1 : st.adoStopped i = true <;> simp [h1, Task.map]
  | error e =>
    show adoDeliver (cfg.map g) (st.map g) i (.error e) = _
    rw [adoDeliver_error_eq, adoDeliver_error_eq, adoStop_map, reactions_map, sadDispose_map, hh]
    have hc := callback_map g (adoStop st i) i (.error e)
    simp only [Notif.map] at hc
    rw [hc]
    simp only [m_adoStopped]
    by_cases h1 : st.adoStopped i = true
    · simp [h1]
    · by_cases h2 : cfg.hasErr i = true <;> simp [h1, h2, Task.map]

/-! ### the scheduler loop -/

def release (st : St α) (i : Id) : St α := { st with acquired := upd st.acquired i false }
theorem release_map (g : α → β) (st : St α) (i : Id) : release (st.map g) i = (release st i).map g := rfl

def popped (st : St α) (i : Id) (n : Notif α) (rest : List (Notif α)) : St α :=
  { st with soQueue := upd st.soQueue i rest, fed := upd st.fed i (st.fed i ++ [n]) }
theorem popped_map (g : α → β) (st : St α) (i : Id) (n : Notif α) (rest : List (Notif α)) :
    popped (st.map g) i (n.map g) (rest.map (Notif.map g)) = (popped st i n rest).map g := by
  unfold popped
  rnat_fields

def finishRun (i : Id) (r : St α × List (Task α) × Option Err) : St α :=
  match r.2.2 with
  | some e => { r.1 with soQueue := upd r.1.soQueue i [], faulted := upd r.1.faulted i true, crashed := some e }
  | none => { r.1 with agenda := r.2.1 ++ [.resched i] }

theorem finishRun_map (g : α → β) (i : Id) (r : St α × List (Task α) × Option Err) :
    finishRun i (r.1.map g, r.2.1.map (Task.map g), r.2.2) = (finishRun i r).map g := by
  unfold finishRun
  cases hx : r.2.2 with
  | some e => simp only; rnat_fields
  | none => simp only; rnat_fields

theorem soRun_nil (cfg : Cfg α) (st : St α) (i : Id) (h : st.soQueue i = []) : soRun cfg st i = release st i := by
  unfold soRun; rw [h]; rfl

theorem soRun_cons (cfg : Cfg α) (st : St α) (i : Id) (n : Notif α) (rest : List (Notif α)) (h : st.soQueue i = n :: rest) :
    soRun cfg st i = finishRun i (adoDeliver cfg (popped st i n rest) i n) := by
  unfold soRun; rw [h]; rfl

theorem soRun_map (cfg : Cfg α) (g : α → β) (st : St α) (i : Id) : soRun (cfg.map g) (st.map g) i = (soRun cfg st i).map g := by
  cases hq : st.soQueue i with
  | nil =>
    rw [soRun_nil cfg st i hq, soRun_nil (cfg.map g) (st.map g) i (by simp [hq]), release_map]
  | cons n rest =>
    rw [soRun_cons cfg st i n rest hq, soRun_cons (cfg.map g) (st.map g) i (n.map g) (rest.map (Notif.map g)) (by simp [hq]),
      popped_map, adoDeliver_map, finishRun_map]

def logEmit (st : St α) (who : Option Id) (n : Notif α) : St α :=
  match who with
  | some i => { st with evs := st.evs ++ [EvR.emit i st.clock n] }
  | none => st

theorem logEmit_map (g : α → β) (st : St α) (who : Option Id) (n : Notif α) :
    logEmit (st.map g) who (n.map g) = (logEmit st who n).map g := by
  cases who with
  | none => rfl
  | some i => simp only [logEmit]; rnat_fields

def pushAgenda (r : St α × List (Task α)) : St α := { r.1 with agenda := r.2 ++ r.1.agenda }
theorem pushAgenda_map (g : α → β) (r : St α × List (Task α)) :
    pushAgenda (r.1.map g, r.2.map (Task.map g)) = (pushAgenda r).map g := by
  unfold pushAgenda
  rnat_fields

def setHandle (st : St α) (j : Id) : St α := { st with handle := upd st.handle j true }
theorem setHandle_map (g : α → β) (st : St α) (j : Id) : setHandle (st.map g) j = (setHandle st j).map g := rfl

theorem doTask_map (cfg : Cfg α) (g : α → β) (st : St α) (t : Task α) :
    doTask (cfg.map g) (st.map g) (t.map g) = (doTask cfg st t).map g := by
  cases t with
  | act who a =>
    cases a with
    | emit n =>
      show emit (cfg.map g) (logEmit (st.map g) who (n.map g)) who (n.map g) = (emit cfg (logEmit st who n) who n).map g
      rw [logEmit_map, emit_map]
    | base a =>
      cases a with
      | sub j =>
        show pushAgenda (doSub (cfg.map g) (st.map g) who j) = (pushAgenda (doSub cfg st who j)).map g
        rw [doSub_map, pushAgenda_map]
      | unsub j => exact doUnsub_map g st j
      | dispose => exact subjDispose_map g st
  | sadDispose i => exact sadDispose_map g st i
  | resched i =>
    show (scheduleRun (st.map g) i).1 = ((scheduleRun st i).1).map g
    rw [scheduleRun_map]
  | handle j => exact setHandle_map g st j

def startCall (st : St α) (k : Nat) (c : Call α) : St α := { st with curCall := k, evs := st.evs ++ [EvR.call k st.clock st.observers.length c] }
theorem startCall_map (g : α → β) (st : St α) (k : Nat) (c : Call α) : startCall (st.map g) k (c.map g) = (startCall st k c).map g := by
  unfold startCall
  rnat_fields

def setAgenda (st : St α) (ag : List (Task α)) : St α := { st with agenda := ag }
theorem setAgenda_map (g : α → β) (st : St α) (ag : List (Task α)) :
    setAgenda (st.map g) (ag.map (Task.map g)) = (setAgenda st ag).map g := rfl

theorem doCall_map (cfg : Cfg α) (g : α → β) (st : St α) (k : Nat) (c : Call α) :
    doCall (cfg.map g) (st.map g) k (c.map g) = (doCall cfg st k c).map g := by
  cases c with
  | next v =>
    show emit (cfg.map g) (startCall (st.map g) k (Call.map g (.next v))) none (.next (g v)) = (emit cfg (startCall st k (.next v)) none (.next v)).map g
    rw [startCall_map]; exact emit_map cfg g _ none (.next v)
  | error e =>
    show emit (cfg.map g) (startCall (st.map g) k (Call.map g (.error e))) none (.error e) = (emit cfg (startCall st k (.error e)) none (.error e)).map g
    rw [startCall_map]; exact emit_map cfg g _ none (.error e)
  | completed =>
    show emit (cfg.map g) (startCall (st.map g) k (Call.map g .completed)) none .completed = (emit cfg (startCall st k .completed) none .completed).map g
    rw [startCall_map]; exact emit_map cfg g _ none .completed
  | sub i =>
    show setAgenda (startCall (st.map g) k (Call.map g (.sub i))) [Task.act none (.base (.sub i))] = _
    rw [startCall_map]; exact setAgenda_map g _ [Task.act none (.base (.sub i))]
  | unsub i =>
    show setAgenda (startCall (st.map g) k (Call.map g (.unsub i))) [Task.act none (.base (.unsub i))] = _
    rw [startCall_map]; exact setAgenda_map g _ [Task.act none (.base (.unsub i))]
  | dispose =>
    show setAgenda (startCall (st.map g) k (Call.map g .dispose)) [Task.act none (.base .dispose)] = _
    rw [startCall_map]; exact setAgenda_map g _ [Task.act none (.base .dispose)]

def setClock (st : St α) (c s : Nat) : St α := { st with clock := c, spin := s }
def bumpSpin (st : St α) : St α := { st with spin := st.spin + 1 }
theorem setClock_map (g : α → β) (st : St α) (c s : Nat) : setClock (st.map g) c s = (setClock st c s).map g := rfl
theorem bumpSpin_map (g : α → β) (st : St α) : bumpSpin (st.map g) = (bumpSpin st).map g := rfl

theorem advance_eq (st : St α) (due : Nat) :
    advance st due = bumpSpin (if due > st.clock then setClock st due 0
      else if st.spin > 100 then setClock st (st.clock + 1) 0 else st) := rfl

theorem advance_map (g : α → β) (st : St α) (due : Nat) : advance (st.map g) due = (advance st due).map g := by
  rw [advance_eq, advance_eq, setClock_map, setClock_map]
  simp only [m_clock, m_spin]
  rw [← bumpSpin_map]
  simp only [apply_ite (St.map g)]
  rfl

theorem invoke_map (cfg : Cfg α) (g : α → β) (st : St α) (it : Item α) :
    invoke (cfg.map g) (st.map g) (it.map g) = (invoke cfg st it).map g := by
  unfold invoke
  have hc : (it.map g).cancelled = it.cancelled := rfl
  rw [hc]
  by_cases h : it.cancelled = true
  · simp [h]
  · simp only [h, if_false, Bool.false_eq_true]
    cases hk : it.kind with
    | call k c =>
      have : (it.map g).kind = .call k (c.map g) := by simp [Item.map, ItemKind.map, hk]
      rw [this]
      exact doCall_map cfg g st k c
    | run i =>
      have : (it.map g).kind = .run i := by simp [Item.map, ItemKind.map, hk]
      rw [this]
      exact soRun_map cfg g st i

def withAgenda (st : St α) (ts : List (Task α)) : St α := { st with agenda := ts }
def withPending (st : St α) (p : List (Item α)) : St α := { st with pending := p }

theorem step_crashed (cfg : Cfg α) (st : St α) (e : Err) (h : st.crashed = some e) : step cfg st = st := by
  unfold step
  split
  · rfl
  · rename_i hn; rw [h] at hn; cases hn

theorem step_task (cfg : Cfg α) (st : St α) (t : Task α) (ts : List (Task α)) (hc : st.crashed = none)
    (ha : st.agenda = t :: ts) : step cfg st = doTask cfg (withAgenda st ts) t := by
  unfold step
  split
  · rename_i e he; rw [hc] at he; cases he
  · split
    · rename_i t' ts' h'; rw [ha] at h'; cases h'; rfl
    · rename_i h'; rw [ha] at h'; cases h'

theorem step_idle (cfg : Cfg α) (st : St α) (hc : st.crashed = none) (ha : st.agenda = []) (hp : st.pending = []) :
    step cfg st = st := by
  unfold step
  split
  · rfl
  · split
    · rename_i t' ts' h'; rw [ha] at h'; cases h'
    · split
      · rfl
      · rename_i it rest h'; rw [hp] at h'; cases h'

theorem step_pop (cfg : Cfg α) (st : St α) (it : Item α) (rest : List (Item α)) (hc : st.crashed = none)
    (ha : st.agenda = []) (hp : st.pending = it :: rest) :
    step cfg st = invoke cfg (advance (withPending st rest) it.due) it := by
  unfold step
  split
  · rename_i e he; rw [hc] at he; cases he
  · split
    · rename_i t' ts' h'; rw [ha] at h'; cases h'
    · split
      · rename_i h'; rw [hp] at h'; cases h'
      · rename_i it' rest' h'; rw [hp] at h'; cases h'; rfl

theorem withAgenda_map (g : α → β) (st : St α) (ts : List (Task α)) :
    withAgenda (st.map g) (ts.map (Task.map g)) = (withAgenda st ts).map g := rfl
theorem withPending_map (g : α → β) (st : St α) (p : List (Item α)) :
    withPending (st.map g) (p.map (Item.map g)) = (withPending st p).map g := rfl

theorem step_map (cfg : Cfg α) (g : α → β) (st : St α) : step (cfg.map g) (st.map g) = (step cfg st).map g := by
  cases hc : st.crashed with
  | some e => rw [step_crashed cfg st e hc, step_crashed (cfg.map g) (st.map g) e hc]
  | none =>
    have hc' : (st.map g).crashed = none := hc
    cases ha : st.agenda with
    | cons t ts =>
      rw [step_task cfg st t ts hc ha, step_task (cfg.map g) (st.map g) (t.map g) (ts.map (Task.map g)) hc' (by simp [ha]),
        withAgenda_map, doTask_map]
    | nil =>
      have ha' : (st.map g).agenda = [] := by simp [ha]
      cases hp : st.pending with
      | nil => rw [step_idle cfg st hc ha hp, step_idle (cfg.map g) (st.map g) hc' ha' (by simp [hp])]
      | cons it rest =>
        rw [step_pop cfg st it rest hc ha hp,
          step_pop (cfg.map g) (st.map g) (it.map g) (rest.map (Item.map g)) hc' ha' (by simp [hp]),
          withPending_map]
        have hd : (it.map g).due = it.due := rfl
        rw [hd, advance_map, invoke_map]

theorem idle_map (g : α → β) (st : St α) : idle (st.map g) = idle st := by
  simp [idle]

theorem steps_map (cfg : Cfg α) (g : α → β) (f : Nat) (st : St α) :
    steps (cfg.map g) f (st.map g) = (steps cfg f st).map g := by
  induction f generalizing st with
  | zero => rfl
  | succ f ih =>
    simp only [steps, idle_map]
    split
    · rfl
    · rw [step_map, ih]

def tc (g : α → β) (p : Nat × Call α) : Nat × Call β := (p.1, p.2.map g)

theorem schedule_go_map (g : α → β) (cs : List (Nat × Call α)) (k : Nat) (st : St α) :
    schedule.go (cs.map (tc g)) k (st.map g) = (schedule.go cs k st).map g := by
  induction cs generalizing k st with
  | nil => rfl
  | cons c cs ih =>
    obtain ⟨t, c⟩ := c
    simp only [List.map_cons, tc, schedule.go]
    have hp := pqInsert_map g { due := t, id := st.nextId, kind := .call k c } st.pending
    simp only [Item.map, ItemKind.map] at hp
    have : ({ st.map g with pending := pqInsert { due := t, id := (st.map g).nextId, kind := .call k (c.map g) } (st.map g).pending, nextId := (st.map g).nextId + 1 } : St β) =
        ({ st with pending := pqInsert { due := t, id := st.nextId, kind := .call k c } st.pending, nextId := st.nextId + 1 } : St α).map g := by
      apply St.ext'
      all_goals first
        | rfl
        | (intro j; rfl)
        | (simp only [St.map]; exact hp)
    rw [← ih]
    congr 1

/-- **Naturality of whole runs**: renaming every value of the history (and of the re-entrant emissions in
the reaction scripts) by any `g` renames queue, logs and everything value-carrying, and changes nothing else. -/
theorem run_map (cfg : Cfg α) (g : α → β) (fuel : Nat) (calls : List (Nat × Call α)) :
    run (cfg.map g) fuel (calls.map (tc g)) = (run cfg fuel calls).map g := by
  unfold run schedule
  have : schedule.go (calls.map (tc g)) 0 ({} : St β) = (schedule.go calls 0 ({} : St α)).map g :=
    schedule_go_map g calls 0 {}
  rw [this, steps_map]

theorem run_natural_log (cfg : Cfg α) (g : α → β) (fuel : Nat) (calls : List (Nat × Call α)) (i : Id) :
    (run (cfg.map g) fuel (calls.map (tc g))).log i = ((run cfg fuel calls).log i).map (tn g) ∧
    (run (cfg.map g) fuel (calls.map (tc g))).raised = (run cfg fuel calls).raised ∧
    (run (cfg.map g) fuel (calls.map (tc g))).xlog = (run cfg fuel calls).xlog ∧
    (run (cfg.map g) fuel (calls.map (tc g))).crashed = (run cfg fuel calls).crashed ∧
    (run (cfg.map g) fuel (calls.map (tc g))).queue = (run cfg fuel calls).queue.map (tv g) := by
  rw [run_map]
  exact ⟨rfl, rfl, rfl, rfl, rfl⟩

end SubjReplay

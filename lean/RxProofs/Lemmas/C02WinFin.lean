import RxProofs.Lemmas.WinFin
/-!
# Release of the source subscription by the WinFin operators (support for C02 / C03)

`using`, `finally_action`, `do_finally`, `do_action` and the `do_*` family (`RxModel/WinFin.lean`): what happens to the
subscription object returned by the source's subscribe body (`Eff.srcDispose` = its `dispose()` was called;
`St.u.cur` = `U`'s SingleAssignmentDisposable still holds it, i.e. it is live), to `throw`'s subscription on
`using`'s factory-failure path (the same object in the model) and to `using`'s resource.
-/
namespace WinFin

/-- number of `dispose()` calls on the source's subscription -/
def srcCount {α} (l : List (Eff α)) : Nat := (l.filter Eff.isSrcDispose).length

@[simp] theorem srcCount_append {α} (a b : List (Eff α)) : srcCount (a ++ b) = srcCount a + srcCount b := by
  simp [srcCount]
@[simp] theorem srcCount_nil {α} : srcCount ([] : List (Eff α)) = 0 := rfl
@[simp] theorem srcCount_cons {α} (e : Eff α) (l : List (Eff α)) : srcCount (e :: l) = e.isSrcDispose.toNat + srcCount l := by
  cases h : e.isSrcDispose <;> simp [srcCount, List.filter, h] <;> omega
@[simp] theorem srcCount_single {α} (e : Eff α) : srcCount [e] = e.isSrcDispose.toNat := by
  cases e <;> simp [srcCount, Eff.isSrcDispose, List.filter]

/-- what the accounting invariant looks at -/
def srcAbs {α} (s : St α) : Bool × Bool × Bool × Nat := (s.u.cur, s.u.live, s.u.sad, srcCount s.log)

/-- `p` neither touches `U`'s SingleAssignmentDisposable nor disposes the source subscription -/
def Frame {α} (p : P α) : Prop := ∀ s, srcAbs (p s).1 = srcAbs s

/-- `p` preserves `I` (whatever exceptions fly) -/
def Pres {α} (I : St α → Prop) (p : P α) : Prop := ∀ s, I s → I (p s).1

theorem pres_seq {α} {I : St α → Prop} {a b : P α} (ha : Pres I a) (hb : Pres I b) : Pres I (seq a b) := by
  intro s h
  have h1 := ha s h
  simp only [seq]
  rcases hx : a s with ⟨s1, _ | e⟩ <;> rw [hx] at h1
  · exact hb _ h1
  · exact h1

theorem pres_tryFinally {α} {I : St α → Prop} {a b : P α} (ha : Pres I a) (hb : Pres I b) : Pres I (tryFinally a b) := by
  intro s h
  rw [tryFinally_fst]
  exact hb _ (ha s h)

theorem pres_tryCatch {α} {I : St α → Prop} {a : P α} {h : Err → P α} (ha : Pres I a) (hh : ∀ e, Pres I (h e)) :
    Pres I (tryCatch a h) := by
  intro s hs
  have h1 := ha s hs
  simp only [tryCatch]
  rcases hx : a s with ⟨s1, _ | e⟩ <;> rw [hx] at h1
  · exact h1
  · exact hh e _ h1

/-- an invariant that only looks at `srcAbs` is preserved by every `Frame` -/
def AbsInv {α} (I : St α → Prop) : Prop := ∀ s t : St α, srcAbs s = srcAbs t → I s → I t

theorem pres_of_frame {α} {I : St α → Prop} (hI : AbsInv I) {p : P α} (hp : Frame p) : Pres I p :=
  fun s h => hI s _ (hp s).symm h

theorem frame_action {α} (c : Cfg) (k : ActK) (a : Option (Notif α)) : Frame (action c k a) := by
  intro s; simp [srcAbs, action, Eff.isSrcDispose]

theorem frame_userCb {α} (c : Cfg) (n : Notif α) : Frame (userCb c n) := by
  intro s; simp [srcAbs, userCb, Eff.isSrcDispose]

theorem frame_logE {α} (e : Eff α) (he : e.isSrcDispose = false) : Frame (logE e) := by
  intro s; simp [srcAbs, logE, he]


/-- **accounting invariant**: the source's subscription is held by `U` only if the source's subscribe body returned
it and `U` is not disposed; and `dispose()` has been called on it exactly once iff it was returned and is no longer held -/
def SrcK {α} (s : St α) : Prop :=
  (s.u.cur = true → s.u.live = true ∧ s.u.sad = false) ∧ srcCount s.log = (s.u.live && !s.u.cur).toNat

/-- the same while the source's subscribe body has not returned -/
def SrcK0 {α} (s : St α) : Prop := SrcK s ∧ s.u.live = false

theorem absInv_K {α} : AbsInv (SrcK (α := α)) := by
  intro s t h hk
  simp only [srcAbs, Prod.mk.injEq] at h
  obtain ⟨h1, h2, h3, h4⟩ := h
  simp only [SrcK] at hk ⊢
  rw [← h1, ← h2, ← h3, ← h4]; exact hk

theorem absInv_K0 {α} : AbsInv (SrcK0 (α := α)) := by
  intro s t h ⟨hk, hl⟩
  refine ⟨absInv_K s t h hk, ?_⟩
  simp only [srcAbs, Prod.mk.injEq] at h
  rw [← h.2.1]; exact hl

/-- the two invariants share everything except the leaf lemmas -/
structure SrcInv {α} (c : Cfg) (I : St α → Prop) : Prop where
  abs : AbsInv I
  udisp : Pres I (uDispose c)

theorem pres_uDispose_K {α} (c : Cfg) : Pres (SrcK (α := α)) (uDispose c) := by
  intro s ⟨h1, h2⟩
  rw [uDispose_fst]
  simp only [SrcK, uDisp]
  cases hsad : s.u.sad <;> cases hcur : s.u.cur <;> cases hl : s.u.live <;> simp_all [srcIf, Eff.isSrcDispose]

theorem pres_uDispose_K0 {α} (c : Cfg) : Pres (SrcK0 (α := α)) (uDispose c) := by
  intro s ⟨hk, hl⟩
  refine ⟨pres_uDispose_K c s hk, ?_⟩
  rw [uDispose_fst]; simpa [uDisp] using hl

theorem srcInv_K {α} (c : Cfg) : SrcInv (α := α) c SrcK := ⟨absInv_K, pres_uDispose_K c⟩
theorem srcInv_K0 {α} (c : Cfg) : SrcInv (α := α) c SrcK0 := ⟨absInv_K0, pres_uDispose_K0 c⟩

section generic
variable {α : Type} {c : Cfg} {I : St α → Prop} (hI : SrcInv c I)
include hI

/-- a state update that leaves `srcAbs` alone, followed by `p` -/
theorem pres_upd {p : P α} (hp : Pres I p) (f : St α → St α) (hf : ∀ s, srcAbs (f s) = srcAbs s) :
    Pres I (fun s => p (f s)) :=
  fun s h => hp _ (hI.abs s _ (hf s).symm h)

theorem pres_uSubDispose : Pres I (uSubDispose c) := by
  intro s h
  simp only [uSubDispose]
  split
  · exact h
  · exact hI.udisp _ (hI.abs s _ (by simp [srcAbs]) h)

theorem pres_action (k : ActK) (a : Option (Notif α)) : Pres I (action c k a) :=
  pres_of_frame hI.abs (frame_action c k a)

theorem pres_finGuard : Pres I (finGuard c) := by
  intro s h
  simp only [finGuard]
  split
  · simp only [finGuardAsIs]
    split
    · exact h
    · exact pres_seq (pres_action hI _ _) (fun s h => hI.abs s _ (by simp [srcAbs]) h) s h
  · simp only [finGuardFixed]
    split
    · exact h
    · exact pres_action hI _ _ _ (hI.abs s _ (by simp [srcAbs]) h)

theorem pres_resDisposeP : Pres I (resDisposeP c) := by
  apply pres_of_frame hI.abs
  intro s
  simp only [resDisposeP]; split <;> simp [srcAbs, logE, Eff.isSrcDispose]

theorem pres_rDispose : Pres I (rDispose c) := by
  have hu := pres_uSubDispose hI
  have ha := fun k => pres_of_frame hI.abs (frame_action (α := α) c k none)
  intro s h
  have hs : ∀ t : St α, srcAbs { t with o.rDisposed := true } = srcAbs t := fun t => by simp [srcAbs]
  cases hop : c.oper <;> simp only [rDispose, hop]
  case «using» => split; exact h; exact pres_seq hu (pres_resDisposeP hI) _ (hI.abs s _ (hs s).symm h)
  case finallyAction => split; exact h; exact pres_tryFinally hu (ha _) _ (hI.abs s _ (hs s).symm h)
  case doFinally => split; exact h; exact pres_seq (pres_finGuard hI) hu _ (hI.abs s _ (hs s).symm h)
  case doOnDispose => split; exact h; exact pres_seq (ha _) hu _ (hI.abs s _ (hs s).symm h)
  all_goals exact hu s h

theorem pres_dDispose : Pres I (dDispose c) := by
  intro s h
  simp only [dDispose]
  split
  · exact hI.abs s _ (by simp [srcAbs]) h
  · split
    · exact pres_rDispose hI _ (hI.abs s _ (by simp [srcAbs]) h)
    · exact hI.abs s _ (by simp [srcAbs]) h

theorem pres_userCb (n : Notif α) : Pres I (userCb c n) := pres_of_frame hI.abs (frame_userCb c n)

theorem pres_dNext (v : α) : Pres I (dNext c v) := by
  intro s h; simp only [dNext]; split
  · exact h
  · exact pres_userCb hI _ s h

theorem pres_dTerminal (n : Notif α) : Pres I (dTerminal c n) := by
  intro s h; simp only [dTerminal]; split
  · exact h
  · exact pres_tryFinally (pres_userCb hI n) (pres_dDispose hI) _ (hI.abs s _ (by simp [srcAbs]) h)

theorem pres_hNext (v : α) : Pres I (hNext c v) := by
  cases hop : c.oper <;> simp only [hNext, hop]
  case doAction =>
    split
    · exact pres_dNext hI v
    · exact pres_seq (pres_tryCatch (pres_action hI _ _) (fun e => pres_dTerminal hI _)) (pres_dNext hI v)
  case doAfterNext =>
    exact pres_tryCatch (pres_seq (pres_dNext hI v) (pres_action hI _ _)) (fun e => pres_dTerminal hI _)
  all_goals exact pres_dNext hI v

theorem pres_matchAction (k : ActK) (q : Err → P α) (x : P α) (hx : Pres I x) (hq : ∀ e, Pres I (q e)) :
    Pres I (fun s => match action c k none s with | (s', none) => x s' | (s', some e') => q e' s') := by
  intro s h
  have h1 := pres_action hI k none s h
  show I (match action c k none s with | (s', none) => x s' | (s', some e') => q e' s').1
  rcases ha : action c k none s with ⟨s1, _ | e⟩ <;> rw [ha] at h1
  · exact hx _ h1
  · exact hq e _ h1

theorem pres_hError (e : Err) : Pres I (hError (α := α) c e) := by
  have ht := fun n => pres_dTerminal hI (α := α) n
  cases hop : c.oper <;> simp only [hError, hop]
  case doAction =>
    split
    · exact ht _
    · exact pres_seq (pres_tryCatch (pres_action hI _ _) (fun e => ht _)) (ht _)
  case doOnTerminate => exact pres_matchAction hI .terminate _ _ (ht _) (fun e' => ht _)
  case doAfterTerminate => exact pres_seq (ht _) (pres_tryCatch (pres_action hI _ _) (fun e => ht _))
  case doFinally => exact pres_seq (ht _) (pres_tryCatch (pres_finGuard hI) (fun e => ht _))
  all_goals exact ht _

theorem pres_hCompleted : Pres I (hCompleted (α := α) c) := by
  have ht := fun n => pres_dTerminal hI (α := α) n
  cases hop : c.oper <;> simp only [hCompleted, hop]
  case doAction =>
    split
    · exact ht _
    · exact pres_seq (pres_tryCatch (pres_action hI _ _) (fun e => ht _)) (ht _)
  case doOnTerminate => exact pres_matchAction hI .terminate _ _ (ht _) (fun e' => ht _)
  case doAfterTerminate => exact pres_seq (ht _) (pres_tryCatch (pres_action hI _ _) (fun e => ht _))
  case doFinally => exact pres_seq (ht _) (pres_tryCatch (pres_finGuard hI) (fun e => ht _))
  all_goals exact ht _

theorem pres_uNotify (n : Notif α) : Pres I (uNotify c n) := by
  intro s h
  simp only [uNotify]
  split
  · exact h
  · cases n with
    | next v => exact pres_hNext hI v s h
    | error e =>
      exact pres_tryFinally (pres_hError hI e) hI.udisp _ (hI.abs s _ (by simp [srcAbs]) h)
    | completed =>
      exact pres_tryFinally (pres_hCompleted hI) hI.udisp _ (hI.abs s _ (by simp [srcAbs]) h)

theorem pres_esc (x : Option Err) (s : St α) (h : I s) : I (esc x s) := by
  cases x with
  | none => exact h
  | some e => exact hI.abs s _ (by simp [srcAbs, esc, Eff.isSrcDispose]) h

theorem pres_emitSync (prop : Bool) (ns : List (Notif α)) : Pres I (emitSync c prop ns) := by
  induction ns with
  | nil => intro s h; exact h
  | cons n ns ih =>
    intro s h
    have h1 := pres_uNotify hI n s h
    simp only [emitSync]
    rcases hn : uNotify c n s with ⟨s1, _ | e⟩ <;> rw [hn] at h1
    · exact ih _ h1
    · cases prop
      · exact ih _ (pres_esc hI (some e) s1 h1)
      · exact h1

end generic

theorem srcK_of_K0 {α} {s : St α} (h : SrcK0 s) : SrcK s := h.1

theorem srcK_srcSubscribe {α} (c : Cfg) (sp : SyncPhase α) (s : St α) (h : SrcK0 s) :
    SrcK (srcSubscribe c sp s).1 := by
  have h1 := pres_emitSync (srcInv_K0 c) sp.propagate sp.emits s h
  simp only [srcSubscribe]
  have body : ∀ (e : Err) (s1 : St α), SrcK0 s1 →
      SrcK (if s1.u.stopped = true then (s1, some e) else hError c e { s1 with u.stopped := true }).1 := by
    intro e s1 h1
    split
    · exact h1.1
    · exact (pres_hError (srcInv_K0 c) e _ (absInv_K0 s1 _ (by simp [srcAbs]) h1)).1
  rcases he : emitSync c sp.propagate sp.emits s with ⟨s1, _ | e⟩ <;> rw [he] at h1
  · simp only
    cases hx : sp.exn with
    | some e => exact body e s1 h1
    | none =>
      obtain ⟨⟨k1, k2⟩, hl⟩ := h1
      simp only at k1 k2 hl
      have hc : s1.u.cur = false := by cases hc : s1.u.cur <;> simp_all
      simp only
      split
      · simp only [srcDisposeP, SrcK]
        simp_all [Eff.isSrcDispose]
      · simp only [SrcK]
        simp_all
  · exact body e s1 h1

theorem srcK0_init {α} : SrcK0 ({} : St α) := ⟨⟨fun h => (by cases h), rfl⟩, rfl⟩

theorem srcK_opSubscribe {α} (c : Cfg) (sp : SyncPhase α) : SrcK (opSubscribe c sp ({} : St α)).1 := by
  have hlog : ∀ (e : Eff α), e.isSrcDispose = false → SrcK0 ({ log := [e] } : St α) := by
    intro e he
    exact absInv_K0 ({} : St α) _ (by simp [srcAbs, he]) srcK0_init
  cases hop : c.oper <;> simp only [opSubscribe, hop]
  case «using» =>
    cases c.resf <;> simp only [seq, logE]
    · cases c.obsfRaises <;>
        exact srcK_srcSubscribe c _ _ (absInv_K0 ({} : St α) _ (by simp [srcAbs, Eff.isSrcDispose]) srcK0_init)
    · cases c.obsfRaises <;>
        exact srcK_srcSubscribe c _ _ (absInv_K0 ({} : St α) _ (by simp [srcAbs, Eff.isSrcDispose]) srcK0_init)
    · exact srcK_srcSubscribe c _ _ (absInv_K0 ({} : St α) _ (by simp [srcAbs, Eff.isSrcDispose]) srcK0_init)
  case finallyAction =>
    have h1 := srcK_srcSubscribe c sp ({} : St α) srcK0_init
    rcases hs : srcSubscribe c sp ({} : St α) with ⟨s1, _ | e⟩ <;> rw [hs] at h1
    · exact h1
    · have h2 := pres_action (srcInv_K c) .fin none s1 h1
      simp only
      rcases ha : action c .fin none s1 with ⟨s2, _ | e2⟩ <;> rw [ha] at h2 <;> exact h2
  case doOnSubscribe =>
    have h0 := pres_action (srcInv_K0 c) (α := α) .subscribe none _ srcK0_init
    simp only [seq]
    rcases ha : action c .subscribe none ({} : St α) with ⟨s1, _ | e⟩ <;> rw [ha] at h0
    · exact srcK_srcSubscribe c sp s1 h0
    · exact h0.1
  all_goals exact srcK_srcSubscribe c sp _ srcK0_init

theorem srcK_subscribePhase {α} (c : Cfg) (sp : SyncPhase α) : SrcK (subscribePhase c sp : St α) := by
  have h := srcK_opSubscribe (α := α) c sp
  simp only [subscribePhase, outerSubscribe]
  rcases ho : opSubscribe c sp ({} : St α) with ⟨s1, _ | e⟩ <;> rw [ho] at h <;> simp only at h ⊢
  · cases hsad : s1.d.sad <;> simp only [Bool.false_eq_true, if_false, if_true]
    · exact absInv_K s1 _ (by simp [srcAbs]) h
    · have h2 := pres_rDispose (srcInv_K c) s1 h
      rcases hr : rDispose c s1 with ⟨s2, _ | e2⟩ <;> rw [hr] at h2
      · exact absInv_K s2 _ (by simp [srcAbs]) h2
      · exact absInv_K s2 _ (by simp [srcAbs, Eff.isSrcDispose]) h2
  · cases hst : s1.d.stopped <;> simp only [Bool.false_eq_true, if_false, if_true]
    · have h2 := pres_userCb (srcInv_K c) (.error e) _ (absInv_K s1 { s1 with d.stopped := true } (by simp [srcAbs]) h)
      rcases hu : userCb c (.error e) { s1 with d.stopped := true } with ⟨s2, _ | e2⟩ <;> rw [hu] at h2
      · exact absInv_K s2 _ (by simp [srcAbs]) h2
      · exact absInv_K s2 _ (by simp [srcAbs, Eff.isSrcDispose]) h2
    · exact absInv_K s1 _ (by simp [srcAbs, Eff.isSrcDispose]) h

theorem srcK_step {α} (c : Cfg) (s : St α) (e : Ev α) (h : SrcK s) : SrcK (step c s e) := by
  cases e with
  | src n =>
    simp only [step]
    split
    · rw [swallow_eq]; exact pres_esc (srcInv_K c) _ _ (pres_uNotify (srcInv_K c) n s h)
    · exact h
  | dispose =>
    simp only [step, swallow_eq]
    apply pres_esc (srcInv_K c)
    simp only [handleDispose]
    split
    · exact h
    · exact pres_dDispose (srcInv_K c) _ (absInv_K s _ (by simp [srcAbs]) h)

theorem srcK_run {α} (c : Cfg) (sp : SyncPhase α) (evs : List (Ev α)) : SrcK (run c sp evs) := by
  simp only [run]
  have h0 := srcK_subscribePhase (α := α) c sp
  generalize subscribePhase c sp = s at h0
  induction evs generalizing s with
  | nil => exact h0
  | cons e es ih => exact ih _ (srcK_step c s e h0)

/-! ## the operator-free pipeline (`Cfg.ident`): `D` disposed ⇒ `U` disposed -/

theorem direct_ident (c : Cfg) : Direct c.ident := Or.inr (Or.inr (Or.inr ⟨rfl, rfl, rfl, rfl⟩))

theorem rDispose_ident' {α} (c : Cfg) (s : St α) : rDispose c.ident s = uSubDispose c.ident s := by
  simp [rDispose, Cfg.ident]

/-- invariant of the operator-free pipeline at event boundaries once `subscribe` has returned a handle -/
structure IdInv {α} (s : St α) (b : Bool) : Prop where
  sub : s.d.sad = s.u.subDisposed
  cur : s.d.cur = !s.d.sad
  dst : s.d.stopped = s.d.sad
  ust : s.u.stopped = true → s.d.sad = true
  trg : s.d.sad = (hasTerm s.log || s.d.retDisposed)
  hdl : s.d.handle = true
  ret : s.d.retDisposed = b
  sad2 : s.d.sad = true → s.u.sad = true

theorem id_dispose_inv {α} (c : Cfg) [NoSrcFault c] (s : St α) (b : Bool)
    (h : IdInv s b) : IdInv (step c.ident s .dispose) true := by
  obtain ⟨sub, cur, dst, ust, trg, hdl, ret, sad2⟩ := h
  cases hrd : s.d.retDisposed
  · cases hsad : s.d.sad <;>
    (rw [hsad] at cur dst sub
     simp [step, swallow, handleDispose, dDispose, rDispose_ident', uSubDispose_eq, hdl, hrd, hsad, cur, ← sub]
     constructor <;> simp_all)
  · simp [step, swallow, handleDispose, hrd]
    exact ⟨sub, cur, dst, ust, trg, hdl, hrd, sad2⟩

theorem id_src_inv {α} (c : Cfg) [NoSrcFault c] (s : St α) (n : Notif α) (b : Bool)
    (h : IdInv s b) : IdInv (step c.ident s (.src n)) b := by
  obtain ⟨sub, cur, dst, ust, trg, hdl, ret, sad2⟩ := h
  have hid : c.ident.oper = .doAction ∧ c.ident.hasNext = false ∧ c.ident.hasError = false ∧ c.ident.hasCompleted = false :=
    ⟨rfl, rfl, rfl, rfl⟩
  obtain ⟨ho, h1, h2, h3⟩ := hid
  cases hl : s.u.live
  · simp [step, hl]; exact ⟨sub, cur, dst, ust, trg, hdl, ret, sad2⟩
  cases hus : s.u.stopped
  · cases hds : s.d.stopped <;> cases hr : c.ident.subRaises s.d.cbs <;> cases n <;>
    (have hsad := dst.symm; rw [hds] at hsad; rw [hsad] at cur sub
     simp [step, swallow, uNotify, hNext, hTerminal, hError, hCompleted, dNext, dTerminal, userCb, tryFinally, ho, h1, h2, h3,
      dDispose, rDispose_ident', uSubDispose_eq, uDispose_eq, hus, hds, hr, hsad, cur, hl, ← sub]
     constructor <;> simp_all [uDisp])
  · simp [step, swallow, uNotify, hus, hl]; exact ⟨sub, cur, dst, ust, trg, hdl, ret, sad2⟩

theorem id_run_inv {α} (c : Cfg) [NoSrcFault c] (evs : List (Ev α)) (s : St α) (b : Bool)
    (h : IdInv s b) : IdInv (runFrom c.ident s evs) (b || hasDispose evs) := by
  induction evs generalizing s b with
  | nil => simpa [runFrom, hasDispose] using h
  | cons e es ih =>
    cases e with
    | src n =>
      have := ih _ _ (id_src_inv c s n b h)
      simpa [runFrom, hasDispose] using this
    | dispose =>
      have := ih _ _ (id_dispose_inv c s b h)
      simpa [runFrom, hasDispose] using this

theorem id_subscribePhase {α} (c : Cfg) [NoSrcFault c] (sp : SyncPhase α) :
    IdInv (subscribePhase c.ident sp : St α) false ∨
    (Frozen (subscribePhase c.ident sp : St α) ∧
      ((subscribePhase c.ident sp : St α).u.live = false ∨ (subscribePhase c.ident sp : St α).u.sad = true)) := by
  have h := using_srcSubscribe (α := α) c.ident (direct_ident c) sp {} usingSync_init
  have hop : opSubscribe c.ident sp ({} : St α) = srcSubscribe c.ident sp {} := by simp [opSubscribe, Cfg.ident]
  simp only [subscribePhase, outerSubscribe, hop]
  rcases ho : srcSubscribe c.ident sp ({} : St α) with ⟨s1, _ | e⟩
  · rw [ho] at h
    obtain ⟨cur, rd, cnt, dst, trg, ust, ret, hdl, exn, nrm, nsub, usd, exl⟩ := h
    simp only at cur rd cnt dst trg ust ret hdl nrm nsub usd
    left
    cases hsad : s1.d.sad
    · simp only [hsad]
      constructor <;> simp_all
    · simp only [hsad, rDispose_ident', uSubDispose_eq]
      constructor <;> simp_all
  · rw [ho] at h
    obtain ⟨cur, rd, cnt, dst, trg, ust, ret, hdl, exn, nrm, nsub, usd, exl⟩ := h
    obtain ⟨hst, hlive⟩ := exn e rfl
    simp only at cur rd cnt dst trg ust ret hdl hst hlive
    have hl := exl e rfl
    simp only at hl
    right
    simp only [hst]
    exact ⟨⟨by simp_all, by simp_all⟩, by simpa using hl⟩

/-- from the accounting invariant: `U` disposed (or the source's subscribe body never returned a subscription)
means nothing is held and the subscription, if any, was disposed exactly once -/
theorem released_of_sad {α} (s : St α) (hk : SrcK s) (h : s.u.sad = true ∨ s.u.live = false) :
    s.u.cur = false ∧ srcCount s.log = s.u.live.toNat := by
  obtain ⟨k1, k2⟩ := hk
  have hc : s.u.cur = false := by
    cases hc : s.u.cur
    · rfl
    · obtain ⟨a, b⟩ := k1 hc
      rcases h with h | h <;> simp_all
  exact ⟨hc, by rw [k2, hc]; simp⟩

theorem hasTerm_view {α} (l : List (Eff α)) : hasTerm (view l) = hasTerm l := by
  induction l with
  | nil => rfl
  | cons e l ih => cases e <;> simp_all [view, List.filter, Eff.common, hasTerm]

theorem srcCount_view {α} (l : List (Eff α)) : srcCount (view l) = srcCount l := by
  induction l with
  | nil => rfl
  | cons e l ih => cases e <;> simp_all [view, List.filter, Eff.common, srcCount, Eff.isSrcDispose]

/-- the operator-free pipeline releases the source at a delivered terminal and at `dispose` -/
theorem id_releases {α} (c : Cfg) [NoSrcFault c] (sp : SyncPhase α) (evs : List (Ev α))
    (h : hasTerm (run c.ident sp evs).log = true ∨
         ((subscribePhase c.ident sp : St α).d.handle = true ∧ hasDispose evs = true)) :
    (run c.ident sp evs).u.sad = true ∨ (run c.ident sp evs).u.live = false := by
  rcases id_subscribePhase (α := α) c sp with hi | ⟨hf, hl⟩
  · have hr := id_run_inv c evs _ _ hi
    simp only [run] at h ⊢
    left
    apply hr.sad2
    rw [hr.trg, hr.ret]
    rcases h with h | ⟨_, h⟩ <;> simp [h]
  · simp only [run, frozen_run c.ident _ evs hf] at h ⊢
    rcases hl with hl | hl
    · exact Or.inr hl
    · exact Or.inl hl


/-! ## the theorems -/

/-- **source_disposed_at_most_once.** Every operator of the model, every history, whichever callbacks raise, with or
without the fault "the inner `dispose()` raises": `dispose()` is called on the source's subscription at most once —
exactly once iff the source's subscribe body returned one (`live`) and `U` no longer holds it; and `U` holds it
(`cur`: it is live) only while `U` is not disposed. -/
theorem source_disposed_at_most_once {α} (c : Cfg) (sp : SyncPhase α) (evs : List (Ev α)) :
    srcCount (run c sp evs).log ≤ 1 ∧
    (srcCount (run c sp evs).log = 1 ↔ ((run c sp evs).u.live = true ∧ (run c sp evs).u.cur = false)) ∧
    ((run c sp evs).u.cur = true → (run c sp evs).u.live = true ∧ (run c sp evs).u.sad = false) := by
  obtain ⟨k1, k2⟩ := srcK_run c sp evs
  refine ⟨?_, ?_, k1⟩
  · rw [k2]; cases (run c sp evs).u.live <;> cases (run c sp evs).u.cur <;> simp
  · rw [k2]; cases (run c sp evs).u.live <;> cases (run c sp evs).u.cur <;> simp

/-- both release theorems for the operators whose callbacks do not raise (`Quiet c`), by simulation against the
operator-free pipeline -/
theorem quiet_releases {α} (c : Cfg) (q : Quiet c) (sp : SyncPhase α) (evs : List (Ev α))
    (h : hasTerm (run c sp evs).log = true ∨
         ((subscribePhase c sp : St α).d.handle = true ∧ hasDispose evs = true)) :
    (run c sp evs).u.cur = false ∧ srcCount (run c sp evs).log = (run c sp evs).u.live.toNat := by
  haveI : NoSrcFault c := ⟨q.sd⟩
  have hr := sim_run c q sp evs
  have hs := sim_subscribePhase c q sp
  apply released_of_sad _ (srcK_run c sp evs)
  rw [hr.u]
  apply id_releases c sp evs
  rcases h with h | ⟨h1, h2⟩
  · left; rw [← hasTerm_view, ← hr.v, hasTerm_view]; exact h
  · right; exact ⟨by rw [← hs.d]; exact h1, h2⟩

/-- **terminal_releases_all_partial.** Every operator of the model (`using` with succeeding factories,
`finally_action`, `do_finally`, `do_action`/`do`, `do_after_next`, `do_on_subscribe`, `do_on_dispose`,
`do_on_terminate`, `do_after_terminate`), `Quiet c` (no callback of the operator raises; `do_after_next`: the
subscriber's callbacks do not raise; the inner `dispose()` does not raise), every history: once a terminal
notification has been delivered to the subscriber, the source's subscription is no longer held and — if the source's
subscribe body returned one — it has been disposed exactly once.  (`_partial`: the hypothesis `Quiet.nr` is used by
the proof (simulation) but is not known to be necessary for this statement; for `using` with failing factories and
`finally_action` with raising callbacks see `using_releases_all`, `finally_action_releases_all`.) -/
theorem terminal_releases_all_partial {α} (c : Cfg) (q : Quiet c) (sp : SyncPhase α) (evs : List (Ev α))
    (ht : hasTerm (run c sp evs).log = true) :
    (run c sp evs).u.cur = false ∧ srcCount (run c sp evs).log = (run c sp evs).u.live.toNat :=
  quiet_releases c q sp evs (Or.inl ht)

/-- **dispose_releases_all.** Same operators and hypotheses: after the subscriber called `dispose()` on the handle
returned by `subscribe` (anywhere in the history: before, at, after a terminal; once or several times) the source's
subscription is no longer held and has been disposed exactly once.  `Quiet.nr` is necessary for `do_on_dispose` /
`do_finally`: `dispose_leaks_source_when_hook_raises`. -/
theorem dispose_releases_all {α} (c : Cfg) (q : Quiet c) (sp : SyncPhase α) (evs : List (Ev α))
    (hh : (subscribePhase c sp : St α).d.handle = true) (hd : hasDispose evs = true) :
    (run c sp evs).u.cur = false ∧ srcCount (run c sp evs).log = (run c sp evs).u.live.toNat :=
  quiet_releases c q sp evs (Or.inr ⟨hh, hd⟩)

/-- **using_releases_all.** `using`, every factory outcome (resource / `None` / raising resource factory; raising
observable factory, where the subscribed source is `throw`), any raising pattern of the subscriber's callbacks, inner
`dispose()` not raising, `subscribe` having returned a handle: after a delivered terminal or a `dispose` of the handle,
the source's (resp. `throw`'s) subscription is no longer held, was disposed exactly once if it exists, and the
resource — if one was created — was disposed exactly once. -/
theorem using_releases_all {α} (c : Cfg) (hc : c.oper = .using) (hsd : c.srcDisposeRaises = false)
    (sp : SyncPhase α) (evs : List (Ev α)) (hh : (subscribePhase c sp : St α).d.handle = true)
    (h : hasTerm (run c sp evs).log = true ∨ hasDispose evs = true) :
    (run c sp evs).u.cur = false ∧ srcCount (run c sp evs).log = (run c sp evs).u.live.toNat ∧
    resCount (run c sp evs).log = c.hasRes.toNat := by
  haveI : NoSrcFault c := ⟨hsd⟩
  rcases using_subscribePhase (α := α) c hc sp with hi | ⟨hf, _⟩
  · have hr := using_run_inv c hc evs _ _ hi
    have hsad : (run c sp evs).d.sad = true := by
      simp only [run]; rw [hr.trg, hr.ret]; rcases h with h | h <;> simp_all [run]
    have h1 := released_of_sad _ (srcK_run c sp evs) (Or.inl (hr.sad2 hsad))
    refine ⟨h1.1, h1.2, ?_⟩
    simp only [run] at hsad ⊢
    rw [hr.cnt, ← hr.sad, hsad]; simp
  · rw [hf.hdl] at hh; cases hh

/-- **finally_action_releases_all.** `finally_action`, every history, whichever callbacks raise (the action included),
with or without the fault "the inner `dispose()` raises" (`try: subscription.dispose() finally: action()`): after a
delivered terminal, or a `dispose` of the handle, the source's subscription is no longer held and was disposed exactly
once if it exists. -/
theorem finally_action_releases_all {α} (c : Cfg) (hc : c.oper = .finallyAction)
    (sp : SyncPhase α) (evs : List (Ev α))
    (h : hasTerm (run c sp evs).log = true ∨
         ((subscribePhase c sp : St α).d.handle = true ∧ hasDispose evs = true)) :
    (run c sp evs).u.cur = false ∧ srcCount (run c sp evs).log = (run c sp evs).u.live.toNat := by
  apply released_of_sad _ (srcK_run c sp evs)
  rcases fin_subscribePhase (α := α) c hc sp with hi | hf
  · have hr := fin_run_inv c hc evs _ _ hi
    left
    simp only [run] at h ⊢
    apply hr.sad2
    rw [hr.trg, hr.ret]
    rcases h with h | ⟨h1, h2⟩
    · simp [h]
    · cases hx : (runFrom c (subscribePhase c sp) evs).d.handle
      · have := hr.nh hx; rw [hr.trg, hr.ret, hx] at this; simpa using this
      · simp [h2]
  · simp only [run, frozen_run c _ evs hf.frz]
    rcases hf.rel with h | h
    · exact Or.inr h
    · exact Or.inl h

/-! ### witnesses: the hypotheses that are necessary -/

/-- `Quiet.nr` is necessary for `dispose_releases_all`: `do_on_dispose` / `do_finally` put their `OnDispose` hook first
into the `CompositeDisposable`; if the hook raises on an explicit `dispose()`, the loop over the items is left and the
source subscription stays live (held, never disposed) — a later source element is still processed by the operator. -/
theorem dispose_leaks_source_when_hook_raises :
    (let r := run (α := Nat) { oper := .doOnDispose, actRaises := fun k => k == 0 } {} [.dispose]
     r.d.handle = true ∧ r.u.cur = true ∧ srcCount r.log = 0) ∧
    (let r := run (α := Nat) { oper := .doFinally, actRaises := fun k => k == 0 } {} [.dispose, .dispose]
     r.d.handle = true ∧ r.u.cur = true ∧ srcCount r.log = 0) := by decide

/-- …whereas at a terminal the source is released even then (`U`'s own `finally: dispose()`) -/
example : (let r := run (α := Nat) { oper := .doOnDispose, actRaises := fun k => k == 0 } {} [.src .completed]
     r.u.cur = false ∧ srcCount r.log = 1) := by decide

/-- the inner `dispose()` raising: still called exactly once, nothing held (finally_action) -/
example : (let r := run (α := Nat) { oper := .finallyAction, srcDisposeRaises := true } {} [.src (.next 1), .dispose, .dispose]
     r.u.cur = false ∧ srcCount r.log = 1 ∧ actCount .fin r.log = 1) := by decide

/-! non-vacuity -/
example : (let r := run (α := Nat) { oper := .doAction } {} [.src (.next 1), .dispose, .src .completed, .dispose]
     hasDispose [Ev.src (Notif.next 1), .dispose, .src .completed, .dispose] = true ∧ r.d.handle = true ∧
     r.u.cur = false ∧ r.u.live = true ∧ srcCount r.log = 1) := by decide
example : (let r := run (α := Nat) { oper := .using, obsfRaises := true } { emits := [.error "obsf"], propagate := true } []
     hasTerm r.log = true ∧ r.d.handle = true ∧ r.u.cur = false ∧ srcCount r.log = 1 ∧ resCount r.log = 1) := by decide
example : (let r := run (α := Nat) { oper := .doFinally } { emits := [.next 1, .completed] } [.dispose]
     hasTerm r.log = true ∧ r.u.cur = false ∧ r.u.live = true ∧ srcCount r.log = 1) := by decide
example : (let r := run (α := Nat) { oper := .doAfterTerminate } {} [.src (.next 1)]
     r.u.cur = true ∧ srcCount r.log = 0) := by decide

end WinFin

import RxModel.CombPhase
import RxProofs.Lemmas.CombN
import RxProofs.Lemmas.CombSeq
/-!
# The subscription phase (`phased`) — lifting lemmas
-/

namespace Comb

/-- a source notification is handled by the phased machine exactly as by the plain one -/
theorem phased_step_src {σ ι β} (m : Machine σ ι β) (s : σ) (pend : List Nat) (p : Plumb) (k : Nat) (n : Notif ι) :
    (step (phased m) ⟨⟨s, pend⟩, p⟩ (.src k n)).2 = (step m ⟨s, p⟩ (.src k n)).2 ∧
    (step (phased m) ⟨⟨s, pend⟩, p⟩ (.src k n)).1.p = (step m ⟨s, p⟩ (.src k n)).1.p ∧
    (step (phased m) ⟨⟨s, pend⟩, p⟩ (.src k n)).1.s.s = (step m ⟨s, p⟩ (.src k n)).1.s ∧
    (step (phased m) ⟨⟨s, pend⟩, p⟩ (.src k n)).1.s.pending = pend := by
  simp only [step, phased]
  split
  · split <;> exact ⟨rfl, rfl, rfl, rfl⟩
  · exact ⟨rfl, rfl, rfl, rfl⟩

/-- once the loop is over the phased machine IS the plain machine (whose own `tick` does nothing) -/
theorem phased_after_loop {σ ι β} (m : Machine σ ι β) (htick : ∀ s d, m.tick s d = (s, [])) (es : List (Ev ι)) :
    ∀ (s : σ) (p : Plumb), run (phased m) ⟨⟨s, []⟩, p⟩ es = run m ⟨s, p⟩ es := by
  induction es with
  | nil => intro _ _; rfl
  | cons e es ih =>
    intro s p
    rw [run_cons, run_cons]
    cases e with
    | tick =>
      have e1 : step (phased m) ⟨⟨s, []⟩, p⟩ .tick = (⟨⟨s, []⟩, p⟩, []) := by simp [step, phased, Plumb.acts]
      have e2 : step m ⟨s, p⟩ .tick = (⟨s, p⟩, []) := by simp [step, htick, Plumb.acts]
      rw [e1, e2]; simpa using ih s p
    | dispose =>
      have e1 : step (phased m) ⟨⟨s, []⟩, p⟩ .dispose = (⟨⟨s, []⟩, (p.dispose (β := β)).1⟩, (p.dispose (β := β)).2) := rfl
      have e2 : step m ⟨s, p⟩ .dispose = (⟨s, (p.dispose (β := β)).1⟩, (p.dispose (β := β)).2) := rfl
      rw [e1, e2]; simp only; rw [ih]
    | src k n =>
      have h := phased_step_src m s [] p k n
      have hst : (step (phased m) ⟨⟨s, []⟩, p⟩ (.src k n)).1
          = ⟨⟨(step m ⟨s, p⟩ (.src k n)).1.s, []⟩, (step m ⟨s, p⟩ (.src k n)).1.p⟩ := by
        cases hh : (step (phased m) ⟨⟨s, []⟩, p⟩ (.src k n)).1 with
        | mk ps pp =>
          cases ps with
          | mk s' pend' =>
            have h2 := h.2; rw [hh] at h2
            simp only at h2
            rw [h2.1, h2.2.1, h2.2.2]
      rw [h.1, hst, ih]

/-- the loop itself, undisturbed: `order.length` ticks subscribe the sources in order -/
theorem phased_loop {σ ι β} (m : Machine σ ι β) (s : σ) : ∀ (order live : List Nat),
    run (phased m) ⟨⟨s, order⟩, { done := false, live := live }⟩ (List.replicate order.length (Ev.tick (ι := ι)))
      = order.map Eff.sub ∧
    final (phased m) ⟨⟨s, order⟩, { done := false, live := live }⟩ (List.replicate order.length (Ev.tick (ι := ι)))
      = ⟨⟨s, []⟩, { done := false, live := live ++ order }⟩ := by
  intro order
  induction order with
  | nil => intro live; simp [final]
  | cons k r ih =>
    intro live
    have e1 : step (phased m) ⟨⟨s, k :: r⟩, { done := false, live := live }⟩ (Ev.tick (ι := ι))
        = (⟨⟨s, r⟩, { done := false, live := live ++ [k] }⟩, [Eff.sub k]) := by
      simp [step, phased, Plumb.acts, Plumb.act]
    simp only [List.length_cons, List.replicate_succ, run_cons, final, e1, List.map_cons]
    have := ih (live ++ [k])
    refine ⟨by rw [this.1]; rfl, by rw [this.2]; simp⟩

/-- **phased = plain** when no source notifies inside the loop: the loop's subscribe effects, then the plain machine started
with everything subscribed (live list in subscription order) -/
theorem phased_eq_plain {σ ι β} (m : Machine σ ι β) (htick : ∀ s d, m.tick s d = (s, [])) (s : σ) (order : List Nat)
    (es : List (Ev ι)) :
    run (phased m) (phasedInit s order) (List.replicate order.length (Ev.tick (ι := ι)) ++ es)
      = order.map Eff.sub ++ run m ⟨s, { done := false, live := order }⟩ es := by
  have h := phased_loop (ι := ι) m s order []
  rw [run_append]
  simp only [phasedInit] at h ⊢
  rw [h.1, h.2, phased_after_loop m htick]
  simp

/-- a subscription made by the loop AFTER the result terminated is closed in the same step -/
theorem phased_late_subscription {σ ι β} (m : Machine σ ι β) (s : σ) (k : Nat) (r : List Nat) (p : Plumb) (hd : p.done = true) :
    (step (phased m) ⟨⟨s, k :: r⟩, p⟩ (Ev.tick (ι := ι))).2 = [Eff.sub k, Eff.unsub k] ∧
    (step (phased m) ⟨⟨s, k :: r⟩, p⟩ (Ev.tick (ι := ι))).1 = ⟨⟨s, r⟩, p⟩ := by
  simp [step, phased, Plumb.acts, Plumb.act, hd]

end Comb

namespace Comb

/-! ## with_latest_from: phased machine = rule; plain machine = the self-contained reference -/

theorem wlf_phased_step_out {α} (m : Nat) (st : St (PhSt (WlfSt α))) (e : Ev α) (h : st.p.WF) :
    outVals (step (phased (wlfM m)) st e).2 = specRun wlfStep (wlfOut m) st.s.s.vals (accOne st e) ∧
    (step (phased (wlfM m)) st e).1.s.s.vals = (accOne st e).foldl wlfStep st.s.s.vals := by
  obtain ⟨⟨s, pend⟩, p⟩ := st
  cases e with
  | tick =>
    cases pend with
    | nil => simp [step, phased, Plumb.acts, accOne, specRun]
    | cons k r =>
      simp only [step, phased, accOne, specRun, List.foldl_nil, and_true]
      rw [outVals_acts]; split <;> simp [actEmits, cut, nextVals]
  | dispose => simp [step, Plumb.dispose, accOne, specRun, outVals_eq_nextVals, nextVals]
  | src k n =>
    have hl := phased_step_src (wlfM (α := α) m) s pend p k n
    have hp := wlf_step_out m ⟨s, p⟩ (.src k n) h
    have hacc : accOne (⟨⟨s, pend⟩, p⟩ : St (PhSt (WlfSt α))) (Ev.src k n) = accOne (⟨s, p⟩ : St (WlfSt α)) (Ev.src k n) := rfl
    rw [hl.1, hl.2.2.1, hacc]; exact hp

/-- the reference: latest values, which sources are finished, whether the result is finished — no plumbing -/
structure WRef (α : Type) where
  vals : Nat → Option α := fun _ => none
  dead : Nat → Bool := fun _ => false
  fin : Bool := false

/-- a notification of a source that is still running, while the result is still running -/
def wlfRefLive {α} (m : Nat) (r : WRef α) (k : Nat) : Notif α → WRef α × List (Notif (List α))
  | .next x =>
    if k = 0 then
      (r, if (List.range m).all (fun j => (r.vals (j + 1)).isSome) then
            [.next (x :: (List.range m).filterMap (fun j => r.vals (j + 1)))] else [])
    else ({ r with vals := upd r.vals k (some x) }, [])
  | .error e => ({ r with fin := true }, [.error e])
  | .completed =>
    if k = 0 then ({ r with fin := true }, [.completed]) else ({ r with dead := upd r.dead k true }, [])

def wlfRefStep {α} (m : Nat) (r : WRef α) : Ev α → WRef α × List (Notif (List α))
  | .tick => (r, [])
  | .dispose => ({ r with fin := true }, [])
  | .src k n =>
    if r.fin || r.dead k || decide (m < k) then (r, [])      -- result finished / that source finished / not a source
    else wlfRefLive m r k n

def wlfRefRun {α} (m : Nat) : WRef α → List (Ev α) → List (Notif (List α))
  | _, [] => []
  | r, e :: es => (wlfRefStep m r e).2 ++ wlfRefRun m (wlfRefStep m r e).1 es

structure WSim {α} (m : Nat) (r : WRef α) (st : St (WlfSt α)) : Prop where
  wf : st.p.WF
  nd : st.p.live.Nodup
  vals : st.s.vals = r.vals
  fin : st.p.done = r.fin
  live : r.fin = false → ∀ k, (k ∈ st.p.live ↔ (k ≤ m ∧ r.dead k = false))

theorem wlf_ref_step {α} (m : Nat) (r : WRef α) (st : St (WlfSt α)) (e : Ev α) (h : WSim m r st) :
    emits (step (wlfM m) st e).2 = (wlfRefStep m r e).2 ∧ WSim m (wlfRefStep m r e).1 (step (wlfM m) st e).1 := by
  have hwf' := step_WF (wlfM m) st e h.wf
  cases e with
  | tick =>
    have : step (wlfM (α := α) m) st .tick = (st, []) := by simp [step, wlfM, Plumb.acts]
    rw [this]; exact ⟨rfl, h⟩
  | dispose =>
    refine ⟨emits_step_dispose _ _, hwf', by simp [step, Plumb.dispose], by simpa [step, wlfRefStep] using h.vals,
      by simp [step, Plumb.dispose, wlfRefStep], by simp [wlfRefStep]⟩
  | src k n =>
    by_cases hk : k ∈ st.p.live
    · have hnd := not_done_of_live h.wf hk
      have hfin : r.fin = false := by rw [← h.fin]; exact hnd
      have hkl := (h.live hfin k).mp hk
      have hcond : (r.fin || r.dead k || decide (m < k)) = false := by
        simp [hfin, hkl.2]; omega
      have hem := emits_step_src (wlfM m) st k n h.wf hk
      have hs := step_src_state (wlfM m) st k n hk
      have hstep : wlfRefStep m r (Ev.src k n) = wlfRefLive m r k n := by simp only [wlfRefStep, hcond]; rfl
      rw [hstep]
      cases n with
      | next x =>
        by_cases hk0 : k = 0
        · subst hk0
          have hp : (step (wlfM m) st (.src 0 (.next x))).1.p = st.p := by
            by_cases hall : (List.range m).all (fun j => (st.s.vals (j + 1)).isSome) = true
            · simp [step, hk, wlfM, wlfHandler, hall, Notif.isTerminal, Plumb.acts, Plumb.act, hnd]
            · simp [step, hk, wlfM, wlfHandler, hall, Notif.isTerminal, Plumb.acts]
          refine ⟨?_, hwf', by rw [hp]; exact h.nd, by rw [hs]; simp only [wlfM, wlfHandler, wlfRefLive, if_true]; split <;> exact h.vals,
            by rw [hp]; simpa [wlfRefLive] using h.fin, by rw [hp]; simpa [wlfRefLive] using h.live⟩
          rw [hem]; simp only [wlfM, wlfHandler, wlfRefLive, if_true, h.vals]
          split <;> simp [actEmits, cut, Notif.isTerminal]
        · have hp : (step (wlfM m) st (.src k (.next x))).1.p = st.p := by
            simp [step, hk, wlfM, wlfHandler, hk0, Notif.isTerminal, Plumb.acts]
          refine ⟨by rw [hem]; simp [wlfM, wlfHandler, wlfRefLive, hk0, actEmits, cut], hwf', by rw [hp]; exact h.nd,
            by rw [hs]; simp [wlfM, wlfHandler, wlfRefLive, hk0, h.vals],
            by rw [hp]; simpa [wlfRefLive, hk0] using h.fin, by rw [hp]; simpa [wlfRefLive, hk0] using h.live⟩
      | error er =>
        have hd := step_src_done_of_terminal (wlfM m) st k (.error er) hk (by simp [wlfM, wlfHandler, actEmits, Notif.isTerminal])
        refine ⟨by rw [hem]; simp [wlfM, wlfHandler, wlfRefLive, actEmits, cut, Notif.isTerminal], hwf',
          by rw [hwf' hd]; exact List.nodup_nil, by rw [hs]; simpa [wlfM, wlfHandler, wlfRefLive] using h.vals,
          by rw [hd]; simp [wlfRefLive], by simp [wlfRefLive]⟩
      | completed =>
        by_cases hk0 : k = 0
        · subst hk0
          have hd := step_src_done_of_terminal (wlfM m) st 0 .completed hk (by simp [wlfM, wlfHandler, actEmits, Notif.isTerminal])
          refine ⟨by rw [hem]; simp [wlfM, wlfHandler, wlfRefLive, actEmits, cut, Notif.isTerminal], hwf',
            by rw [hwf' hd]; exact List.nodup_nil, by rw [hs]; simpa [wlfM, wlfHandler, wlfRefLive] using h.vals,
            by rw [hd]; simp [wlfRefLive], by simp [wlfRefLive]⟩
        · have hp : (step (wlfM m) st (.src k .completed)).1.p = { st.p with live := st.p.live.erase k } := by
            simp [step, hk, wlfM, wlfHandler, hk0, Notif.isTerminal, Plumb.acts, Plumb.act]
          refine ⟨by rw [hem]; simp [wlfM, wlfHandler, wlfRefLive, hk0, actEmits, cut], hwf',
            by rw [hp]; exact h.nd.erase k, by rw [hs]; simpa [wlfM, wlfHandler, wlfRefLive, hk0] using h.vals,
            by rw [hp]; simpa [wlfRefLive, hk0] using h.fin, ?_⟩
          intro hf j
          rw [hp]
          simp only [wlfRefLive, hk0, if_false, upd]
          by_cases hjk : j = k
          · subst hjk; simp [h.nd.not_mem_erase]
          · simp only [hjk, if_false]
            rw [List.mem_erase_of_ne hjk]; exact h.live hfin j
    · rw [step_src_not_live _ _ _ _ hk]
      have hno : (wlfRefStep m r (Ev.src k n)) = (r, []) := by
        cases hf : r.fin
        · have : ¬ (k ≤ m ∧ r.dead k = false) := fun hh => hk ((h.live hf k).mpr hh)
          simp only [wlfRefStep]
          have : (r.fin || r.dead k || decide (m < k)) = true := by
            by_cases hkm : k ≤ m
            · have hd : r.dead k = true := by
                cases hd : r.dead k
                · exact absurd ⟨hkm, hd⟩ this
                · rfl
              simp [hd]
            · simp; right; omega
          simp [this]
        · simp [wlfRefStep, hf]
      rw [hno]; exact ⟨rfl, h⟩

theorem wlf_ref_run {α} (m : Nat) (es : List (Ev α)) : ∀ (r : WRef α) (st : St (WlfSt α)), WSim m r st →
    emits (run (wlfM m) st es) = wlfRefRun m r es := by
  induction es with
  | nil => intro _ _ _; rfl
  | cons e es ih =>
    intro r st h
    have hs := wlf_ref_step m r st e h
    rw [run_cons, emits_append, hs.1, ih _ _ hs.2]; rfl

theorem wlf_init_sim {α} (m : Nat) : WSim (α := α) m {} (wlfInit m) := by
  refine ⟨wlfInit_WF m, by simpa [wlfInit] using List.nodup_range, rfl, rfl, ?_⟩
  intro _ k; simp [wlfInit]; omega

end Comb

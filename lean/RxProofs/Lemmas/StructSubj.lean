import RxModel.Conn
/-!
# What a subscriber of the (minimal) subject sees (C24)
-/

namespace Conn
namespace Subj
variable {α : Type}

theorem seenBy_append (i : Nat) (a b : List (Nat × Notif α)) : seenBy i (a ++ b) = seenBy i a ++ seenBy i b := by
  simp [seenBy, List.filterMap_append]

theorem seenBy_map_obs (i : Nat) (n : Notif α) (obs : List Nat) :
    seenBy i (obs.map (fun k => (k, n))) = List.replicate (obs.count i) n := by
  induction obs with
  | nil => rfl
  | cons k rest ih =>
    by_cases hk : k = i
    · subst hk
      simp only [List.map_cons, seenBy, List.filterMap_cons, if_true, List.count_cons_self, List.replicate_succ] at ih ⊢
      rw [ih]
    · have hc : (k :: rest).count i = rest.count i := by
        simp [hk]
      simp only [List.map_cons, seenBy, List.filterMap_cons, hk, if_false, hc] at ih ⊢
      exact ih

/-- everything `subscribe` hands out goes to the new subscriber -/
theorem subscribe_ids (s : Subj α) (i : Nat) : ∀ d ∈ (s.subscribe i).2, d.1 = i := by
  intro d hd
  unfold subscribe at hd
  split at hd
  · simp only [List.mem_append, List.mem_map] at hd
    rcases hd with ⟨v, _, rfl⟩ | hd
    · rfl
    · split at hd
      · simp at hd; rw [hd]
      · cases hd
  · split at hd
    · simp at hd; rw [hd]
    · split at hd
      · split at hd
        · simp at hd; rw [hd]
        · cases hd
      · cases hd

theorem seenBy_self (i : Nat) (l : List (Nat × Notif α)) (h : ∀ d ∈ l, d.1 = i) : seenBy i l = l.map (·.2) := by
  induction l with
  | nil => rfl
  | cons d rest ih =>
    have hd := h d (by simp)
    simp only [seenBy, List.filterMap_cons, hd, if_true, List.map_cons]
    congr 1
    exact ih (fun d' hd' => h d' (by simp [hd']))

theorem seenBy_other (i j : Nat) (hne : j ≠ i) (l : List (Nat × Notif α)) (h : ∀ d ∈ l, d.1 = j) : seenBy i l = [] := by
  induction l with
  | nil => rfl
  | cons d rest ih =>
    have hd := h d (by simp)
    have : ¬ d.1 = i := by rw [hd]; exact hne
    simp only [seenBy, List.filterMap_cons, this, if_false]
    exact ih (fun d' hd' => h d' (by simp [hd']))

/-- subscribing `j` to a running subject adds `j` and nothing else -/
theorem afterSub_running (s : Subj α) (j : Nat) (ht : s.term = none) :
    (s.afterSub j).term = none ∧ (s.afterSub j).obs = s.obs ++ [j] := by
  unfold afterSub subscribe
  by_cases hr : s.isReplay = true
  · simp [hr, ht, Notif.isTerminal]
  · by_cases hb : s.isBehavior = true
    · cases hv : s.value <;> simp [hr, hb, ht, Notif.isTerminal]
    · simp [hr, hb, ht]

theorem subscribe_count (s : Subj α) (i j : Nat) (hne : j ≠ i) : (s.subscribe j).1.obs.count i = s.obs.count i := by
  have happ : (s.obs ++ [j]).count i = s.obs.count i := by
    simp [List.count_append, hne]
  unfold subscribe
  split
  · exact happ
  · split
    · rfl
    · split <;> exact happ

theorem subscribe_term (s : Subj α) (j : Nat) : (s.subscribe j).1.term = s.term := by
  unfold subscribe
  split
  · rfl
  · split
    · rfl
    · split <;> rfl

/-- `afterSub j` leaves the observers other than `j` alone -/
theorem afterSub_count (s : Subj α) (i j : Nat) (hne : j ≠ i) : (s.afterSub j).obs.count i = s.obs.count i := by
  unfold afterSub
  split
  · simp only [unsubscribe]
    rw [List.count_erase_of_ne (Ne.symm hne)]
    exact subscribe_count s i j hne
  · exact subscribe_count s i j hne

theorem afterSub_term (s : Subj α) (j : Nat) : (s.afterSub j).term = s.term := by
  unfold afterSub
  split
  · exact subscribe_term s j
  · exact subscribe_term s j

/-- **absent**: a subscriber that is not among the observers, and does not subscribe, sees nothing -/
theorem absent_sees_nothing (i : Nat) : ∀ (evs : List (SEv α)) (s : Subj α),
    s.obs.count i = 0 → noSub i evs = true → seenBy i (runEv s evs) = [] := by
  intro evs
  induction evs with
  | nil => intro s _ _; rfl
  | cons e rest ih =>
    intro s hc hn
    cases e with
    | sub j =>
      simp only [noSub, Bool.and_eq_true, bne_iff_ne, ne_eq] at hn
      simp only [runEv, seenBy_append]
      rw [seenBy_other i j hn.1 _ (subscribe_ids s j), List.nil_append]
      exact ih _ (by rw [afterSub_count s i j hn.1]; exact hc) hn.2
    | unsub j =>
      simp only [noSub] at hn
      simp only [runEv]
      apply ih _ _ hn
      simp only [unsubscribe]
      by_cases hj : j = i
      · subst hj
        have : j ∉ s.obs := List.count_eq_zero.mp hc
        rw [List.erase_of_not_mem this]; exact hc
      · rw [List.count_erase_of_ne (Ne.symm hj)]; exact hc
    | inp n =>
      simp only [noSub] at hn
      simp only [runEv, seenBy_append]
      have hdl : seenBy i (s.onNotif n).2 = [] := by
        unfold onNotif
        split
        · rfl
        · split <;> (simp only []; rw [seenBy_map_obs, hc]; rfl)
      rw [hdl, List.nil_append]
      apply ih _ _ hn
      unfold onNotif
      split
      · exact hc
      · split
        · exact hc
        · simp

/-- **member**: a subscriber that is among the observers of a running subject sees the subject's
input from now on, up to the first terminal or its own unsubscription -/
theorem member_sees_suffix (i : Nat) : ∀ (evs : List (SEv α)) (s : Subj α),
    s.term = none → s.obs.count i = 1 → noSub i evs = true → seenBy i (runEv s evs) = suffixFor i evs := by
  intro evs
  induction evs with
  | nil => intro s _ _ _; rfl
  | cons e rest ih =>
    intro s ht hc hn
    cases e with
    | sub j =>
      simp only [noSub, Bool.and_eq_true, bne_iff_ne, ne_eq] at hn
      simp only [runEv, seenBy_append, suffixFor]
      rw [seenBy_other i j hn.1 _ (subscribe_ids s j), List.nil_append]
      exact ih _ (afterSub_running s j ht).1 (by rw [afterSub_count s i j hn.1]; exact hc) hn.2
    | unsub j =>
      simp only [noSub] at hn
      simp only [runEv, suffixFor]
      by_cases hj : j = i
      · subst hj
        simp only [if_true]
        apply absent_sees_nothing j rest _ _ hn
        simp only [unsubscribe]
        rw [List.count_erase_self, hc]
      · simp only [hj, if_false]
        apply ih (s.unsubscribe j) ht _ hn
        simp only [unsubscribe]
        rw [List.count_erase_of_ne (Ne.symm hj)]; exact hc
    | inp n =>
      simp only [noSub] at hn
      simp only [runEv, seenBy_append, suffixFor]
      have hnt : s.term.isSome = false := by rw [ht]; rfl
      cases n with
      | next v =>
        have h1 : (s.onNotif (.next v)).2 = s.obs.map (fun k => (k, Notif.next v)) := by
          simp [onNotif, hnt]
        have h2 : (s.onNotif (.next v)).1.obs = s.obs ∧ (s.onNotif (.next v)).1.term = none := by
          simp [onNotif, ht]
        rw [h1, seenBy_map_obs, hc]
        simp only [Notif.isTerminal, Bool.false_eq_true, if_false, List.replicate_one, List.singleton_append]
        congr 1
        exact ih _ h2.2 (by rw [h2.1]; exact hc) hn
      | error e =>
        have h1 : (s.onNotif (.error e)).2 = s.obs.map (fun k => (k, Notif.error e)) := by
          simp [onNotif, hnt]
        have h2 : (s.onNotif (.error e)).1.obs = [] := by simp [onNotif, hnt]
        rw [h1, seenBy_map_obs, hc]
        simp only [Notif.isTerminal, if_true, List.replicate_one]
        rw [absent_sees_nothing i rest _ (by rw [h2]; rfl) hn]; rfl
      | completed =>
        have h1 : (s.onNotif .completed).2 = s.obs.map (fun k => (k, Notif.completed)) := by
          simp [onNotif, hnt]
        have h2 : (s.onNotif .completed).1.obs = [] := by simp [onNotif, hnt]
        rw [h1, seenBy_map_obs, hc]
        simp only [Notif.isTerminal, if_true, List.replicate_one]
        rw [absent_sees_nothing i rest _ (by rw [h2]; rfl) hn]; rfl

end Subj
end Conn

import RxProofs.Lemmas.TimedFeedback
import RxProofs.Lemmas.TimedSim
/-! debounce with re-entrant feedback: the scheduler simulation with echoes (`simRunFb (debOp d)`) against the rule. -/

namespace Timed

/-- the echo the consumer pushes on receiving `x` as its `k`-th delivery (echoes do not echo) -/
def echoFor {α} (echo : Nat → Option α) (isEcho : α → Bool) (k : Nat) (x : α) : Option α :=
  if isEcho x then none else echo k

/-- what the pending element (arrived at `t`) and its echo do before a source notification at `t'`:
(emitted, new delivery counter, what is pending at `t'`) -/
def debPre {α} (d : Nat) (echo : Nat → Option α) (isEcho : α → Bool) (k : Nat) (pend : Option (Nat × α)) (t' : Nat) :
    TL α × Nat × Option (Nat × α) :=
  match pend with
  | none => ([], k, none)
  | some (t, x) =>
    if t + d < t' then
      match echoFor echo isEcho k x with
      | some e =>
        if t + d + d < t' then ([(t + d, .next x), (t + d + d, .next e)], k + 2, none)
        else ([(t + d, .next x)], k + 1, some (t + d, e))
      | none => ([(t + d, .next x)], k + 1, none)
    else ([], k, some (t, x))

/-- **The rule with feedback.**  An element is emitted `d` after its arrival iff the next source notification is later;
the echo the consumer pushes at that emission arrives at that instant and is emitted `d` later under the same condition;
a completion flushes what is pending, an error drops it. -/
def debSpecFb {α} (d : Nat) (echo : Nat → Option α) (isEcho : α → Bool) : Nat → Option (Nat × α) → TL α → TL α
  | _, none, [] => []
  | k, some (t, x), [] =>
    (t + d, .next x) :: (match echoFor echo isEcho k x with | some e => [(t + d + d, .next e)] | none => [])
  | k, pend, (t', n') :: tl =>
    (debPre d echo isEcho k pend t').1 ++
      match n' with
      | .next x' => debSpecFb d echo isEcho (debPre d echo isEcho k pend t').2.1 (some (t', x')) tl
      | .error e => [(t', .error e)]
      | .completed =>
        (match (debPre d echo isEcho k pend t').2.2 with | some (_, x) => [(t', Notif.next x)] | none => []) ++ [(t', .completed)]

/-- the source notification itself, once what was pending has (or has not) fired -/
def debMsgSpec {α} (d : Nat) (echo : Nat → Option α) (isEcho : α → Bool) (k : Nat) (pend : Option (Nat × α)) (t' : Nat)
    (n' : Notif α) (tl : TL α) : TL α :=
  match n' with
  | .next x' => debSpecFb d echo isEcho k (some (t', x')) tl
  | .error e => [(t', .error e)]
  | .completed => (match pend with | some (_, x) => [(t', Notif.next x)] | none => []) ++ [(t', .completed)]

theorem debSpecFb_cons {α} (d : Nat) (echo : Nat → Option α) (isEcho : α → Bool) (k : Nat) (pend : Option (Nat × α))
    (t' : Nat) (n' : Notif α) (tl : TL α) :
    debSpecFb d echo isEcho k pend ((t', n') :: tl) =
      (debPre d echo isEcho k pend t').1 ++
        debMsgSpec d echo isEcho (debPre d echo isEcho k pend t').2.1 (debPre d echo isEcho k pend t').2.2 t' n' tl := by
  cases pend <;> cases n' <;> simp [debSpecFb, debMsgSpec]

theorem simRunFb_nil {σ α β P} (op : SimOp σ α β P) (other : Nat → TL β) (echo : Nat → Option α) (isEcho : β → Bool)
    (fuel k clk : Nat) (s : σ) : simRunFb op other echo isEcho fuel k clk [] s = [] := by
  cases fuel <;> rfl

/-- the state while nothing is pending -/
def DebIdle {α} (s : DebSt α) : Prop := s.timer = none ∧ s.hasValue = false

theorem debAction_pending {α} (s : DebSt α) (t d : Nat) (x : α) (h : DebPending s t d x) :
    (debAction s s.id).2 = [Notif.next x] ∧ DebIdle (debAction s s.id).1 := by
  obtain ⟨h1, h2, _⟩ := h
  simp [debAction, h1, debEmit, h2, DebIdle]

section
variable {α : Type} (d : Nat) (other : Nat → TL α) (echo : Nat → Option α) (isEcho : α → Bool)

/-- one source element: `on_next` re-arms the timer (SerialDisposable: the previous action is cancelled) -/
theorem deb_fb_step_next (f k clk t' : Nat) (x' : α) (q : SQueue α Nat) (s : DebSt α) (hc : clk ≤ t') :
    simRunFb (debOp d) other echo isEcho (f + 1) k clk ((t', SItem.src (Notif.next x')) :: q) s =
      simRunFb (debOp d) other echo isEcho f k t'
        (insertEv (t' + d, SItem.timer (s.id + 1)) (cancelTimers q)) (debOnNext d t' s x') := by
  have e0 : (debOp d).onSrc t' s (Notif.next x') = (debOnNext d t' s x', [], TEff.arm (t' + d) (s.id + 1)) := rfl
  simp only [simRunFb, Nat.max_eq_right hc, e0, echoesOf, hasTerm, List.any_nil, Bool.false_eq_true, if_false, at_,
    List.map_nil, List.nil_append, applyEff]

/-- the timer of a pending element fires: the element is delivered, the consumer may push its echo -/
theorem deb_fb_step_timer (f k clk t : Nat) (x : α) (q : SQueue α Nat) (s : DebSt α) (hp : DebPending s t d x)
    (hc : clk ≤ t + d) :
    simRunFb (debOp d) other echo isEcho (f + 1) k clk ((t + d, SItem.timer s.id) :: q) s =
      (t + d, Notif.next x) ::
        simRunFb (debOp d) other echo isEcho f (k + 1) (t + d)
          ((match echoFor echo isEcho k x with
            | some e => [(t + d, SItem.src (Notif.next e))]
            | none => []) ++ q) (debAction s s.id).1 := by
  obtain ⟨ho, _⟩ := debAction_pending s t d x hp
  have e0 : (debOp d).onTimer (t + d) s s.id = ((debAction s s.id).1, (debAction s s.id).2, false) := rfl
  simp only [simRunFb, Nat.max_eq_right hc, e0, ho, Bool.false_eq_true, if_false, hasTerm, List.any_cons, List.any_nil,
    isNext, Bool.not_true, Bool.or_false, at_, List.map_cons, List.map_nil, List.singleton_append]
  unfold echoFor
  cases hx : isEcho x
  · cases he : echo k <;> simp [echoesOf, hx, he]
  · simp [echoesOf, hx]

theorem deb_fb_idle_onNext_pending (t' : Nat) (s : DebSt α) (x' : α) : DebPending (debOnNext d t' s x') t' d x' :=
  debOnNext_pending d t' s x'

end

section
variable {α : Type} (d : Nat) (other : Nat → TL α) (echo : Nat → Option α) (isEcho : α → Bool)

theorem deb_fb_step_error (f k clk t' : Nat) (e : Err) (q : SQueue α Nat) (s : DebSt α) (hc : clk ≤ t') :
    simRunFb (debOp d) other echo isEcho (f + 1) k clk ((t', SItem.src (Notif.error e)) :: q) s = [(t', .error e)] := by
  have e0 : (debOp d).onSrc t' s (Notif.error e) = ((debOnError s e).1, (debOnError s e).2, TEff.cancel) := rfl
  simp [simRunFb, Nat.max_eq_right hc, e0, debOnError, hasTerm, isNext, at_]

theorem deb_fb_step_completed (f k clk t' : Nat) (q : SQueue α Nat) (s : DebSt α) (hc : clk ≤ t') :
    simRunFb (debOp d) other echo isEcho (f + 1) k clk ((t', SItem.src Notif.completed) :: q) s
      = at_ t' (debOnCompleted s).2 := by
  have e0 : (debOp d).onSrc t' s (Notif.completed) = ((debOnCompleted s).1, (debOnCompleted s).2, TEff.cancel) := rfl
  have hterm : hasTerm (debOnCompleted s).2 = true := by simp [debOnCompleted, hasTerm, isNext]
  simp only [simRunFb, Nat.max_eq_right hc, e0, hterm, if_true, List.append_nil]

/-- the pending element as the simulation holds it: nothing, or a pending element with its timer in the queue -/
def DebHolds (s : DebSt α) : Option (Nat × α) → Prop
  | none => DebIdle s
  | some (t, x) => DebPending s t d x

def debTm (s : DebSt α) : Option (Nat × α) → Option (Nat × Nat)
  | none => none
  | some (t, _) => some (t + d, s.id)

end

section
variable {α : Type} (d : Nat) (other : Nat → TL α) (echo : Nat → Option α) (isEcho : α → Bool)

/-- the three claims proved together: idle state; an echo pending; any element pending -/
def DebFbClaims (msgs : TL α) : Prop :=
  (∀ lo, Mono lo msgs → ∀ fuel k clk (s : DebSt α), 4 * msgs.length ≤ fuel → DebIdle s → clk ≤ lo →
      simRunFb (debOp d) other echo isEcho fuel k clk (srcItems msgs) s = debSpecFb d echo isEcho k none msgs)
  ∧ (∀ lo, Mono lo msgs → ∀ fuel k clk (s : DebSt α) t x, 4 * msgs.length + 1 ≤ fuel → isEcho x = true →
      DebPending s t d x → clk ≤ t → t ≤ lo →
      simRunFb (debOp d) other echo isEcho fuel k clk (simQueue msgs (some (t + d, s.id))) s
        = debSpecFb d echo isEcho k (some (t, x)) msgs)
  ∧ (∀ lo, Mono lo msgs → ∀ fuel k clk (s : DebSt α) t x, 4 * msgs.length + 3 ≤ fuel →
      DebPending s t d x → clk ≤ t → t ≤ lo →
      simRunFb (debOp d) other echo isEcho fuel k clk (simQueue msgs (some (t + d, s.id))) s
        = debSpecFb d echo isEcho k (some (t, x)) msgs)

theorem deb_fb_claims (hE : ∀ k e, echo k = some e → isEcho e = true) (msgs : TL α) :
    DebFbClaims d other echo isEcho msgs := by
  induction msgs with
  | nil =>
    have pE : ∀ fuel k clk (s : DebSt α) t x, 1 ≤ fuel → isEcho x = true → DebPending s t d x → clk ≤ t →
        simRunFb (debOp d) other echo isEcho fuel k clk (simQueue ([] : TL α) (some (t + d, s.id))) s
          = debSpecFb d echo isEcho k (some (t, x)) [] := by
      intro fuel k clk s t x hf hx hp hc
      obtain ⟨f, rfl⟩ : ∃ f, fuel = f + 1 := ⟨fuel - 1, by omega⟩
      have hq : simQueue ([] : TL α) (some (t + d, s.id)) = [(t + d, SItem.timer s.id)] := rfl
      rw [hq, deb_fb_step_timer d other echo isEcho f k clk t x [] s hp (by omega)]
      simp [echoFor, hx, simRunFb_nil, debSpecFb]
    refine ⟨?_, ?_, ?_⟩
    · intro lo _ fuel k clk s _ _ _
      simp [srcItems, simRunFb_nil, debSpecFb]
    · intro lo _ fuel k clk s t x hf hx hp hc _
      exact pE fuel k clk s t x (by omega) hx hp hc
    · intro lo _ fuel k clk s t x hf hp hc _
      obtain ⟨f, rfl⟩ : ∃ f, fuel = f + 1 := ⟨fuel - 1, by omega⟩
      have hq : simQueue ([] : TL α) (some (t + d, s.id)) = [(t + d, SItem.timer s.id)] := rfl
      rw [hq, deb_fb_step_timer d other echo isEcho f k clk t x [] s hp (by omega)]
      cases he : echoFor echo isEcho k x with
      | none => simp [simRunFb_nil, debSpecFb, he]
      | some e =>
        have hee : isEcho e = true := by
          unfold echoFor at he
          cases hx : isEcho x <;> simp [hx] at he
          exact hE k e he
        obtain ⟨f', rfl⟩ : ∃ f', f = f' + 1 := ⟨f - 1, by omega⟩
        simp only [List.append_nil]
        rw [deb_fb_step_next d other echo isEcho f' (k + 1) (t + d) (t + d) e [] _ (Nat.le_refl _)]
        have hq2 : insertEv (t + d + d, SItem.timer ((debAction s s.id).1.id + 1)) (cancelTimers ([] : SQueue α Nat))
            = simQueue ([] : TL α) (some (t + d + d, (debOnNext d (t + d) (debAction s s.id).1 e).id)) := rfl
        rw [hq2, pE f' (k + 1) (t + d) _ (t + d) e (by omega) hee (debOnNext_pending d (t + d) _ e) (Nat.le_refl _)]
        have he2 : echoFor echo isEcho (k + 1) e = none := by simp [echoFor, hee]
        simp only [debSpecFb, he, he2]
  | cons a tl ih =>
    obtain ⟨t', n'⟩ := a
    obtain ⟨ihI, ihE, ihG⟩ := ih
    -- the source notification at `t'`, handled in a state whose pending element (if any) does not fire before it
    have Q : ∀ lo, Mono lo ((t', n') :: tl) → ∀ fuel k clk (s : DebSt α) (pend : Option (Nat × α)),
        4 * tl.length + 4 ≤ fuel → DebHolds d s pend → (∀ t x, pend = some (t, x) → ¬ t + d < t') → clk ≤ t' →
        simRunFb (debOp d) other echo isEcho fuel k clk (simQueue ((t', n') :: tl) (debTm d s pend)) s =
          debMsgSpec d echo isEcho k pend t' n' tl := by
      intro lo hm fuel k clk s pend hf hh hnf hc
      obtain ⟨f, rfl⟩ : ∃ f, fuel = f + 1 := ⟨fuel - 1, by omega⟩
      have hq : ∃ q, simQueue ((t', n') :: tl) (debTm d s pend) = (t', SItem.src n') :: q ∧ cancelTimers q = srcItems tl := by
        cases pend with
        | none => exact ⟨srcItems tl, rfl, cancelTimers_srcItems tl⟩
        | some tx =>
          obtain ⟨t, x⟩ := tx
          have := hnf t x rfl
          refine ⟨insertEv (t + d, SItem.timer s.id) (srcItems tl), ?_, cancelTimers_insert _ _ tl⟩
          simp [debTm, simQueue, srcItems, insertEv, this]
      obtain ⟨q, hq1, hq2⟩ := hq
      rw [hq1]
      unfold debMsgSpec
      cases n' with
      | next x' =>
        rw [deb_fb_step_next d other echo isEcho f k clk t' x' q s hc, hq2]
        have hq3 : insertEv (t' + d, SItem.timer (s.id + 1)) (srcItems tl)
            = simQueue tl (some (t' + d, (debOnNext d t' s x').id)) := rfl
        rw [hq3]
        exact ihG t' hm.2 f k t' _ t' x' (by omega) (debOnNext_pending d t' s x') (Nat.le_refl _) (Nat.le_refl _)
      | error e => exact deb_fb_step_error d other echo isEcho f k clk t' e q s hc
      | completed =>
        rw [deb_fb_step_completed d other echo isEcho f k clk t' q s hc]
        cases pend with
        | none =>
          obtain ⟨_, h2⟩ := hh
          simp [debOnCompleted, h2, at_]
        | some tx =>
          obtain ⟨t, x⟩ := tx
          obtain ⟨h1, h2, _⟩ := hh
          simp [debOnCompleted, h1, debEmit, h2, at_]
    have PI : ∀ lo, Mono lo ((t', n') :: tl) → ∀ fuel k clk (s : DebSt α), 4 * ((t', n') :: tl).length ≤ fuel → DebIdle s →
        clk ≤ lo → simRunFb (debOp d) other echo isEcho fuel k clk (srcItems ((t', n') :: tl)) s
          = debSpecFb d echo isEcho k none ((t', n') :: tl) := by
      intro lo hm fuel k clk s hf hi hc
      have := Q lo hm fuel k clk s none (by simp only [List.length_cons] at hf; omega) hi (by intro t x h; cases h)
        (Nat.le_trans hc hm.1)
      rw [debSpecFb_cons]
      simp only [debPre, List.nil_append]
      exact this
    -- the pending element fires before `t'`
    have fire : ∀ lo, Mono lo ((t', n') :: tl) → ∀ f k clk (s : DebSt α) t x, DebPending s t d x → clk ≤ t → t + d < t' →
        simRunFb (debOp d) other echo isEcho (f + 1) k clk (simQueue ((t', n') :: tl) (some (t + d, s.id))) s =
          (t + d, Notif.next x) ::
            simRunFb (debOp d) other echo isEcho f (k + 1) (t + d)
              ((match echoFor echo isEcho k x with
                | some e => [(t + d, SItem.src (Notif.next e))]
                | none => []) ++ srcItems ((t', n') :: tl)) (debAction s s.id).1 := by
      intro lo hm f k clk s t x hp hc hlt
      have hq : simQueue ((t', n') :: tl) (some (t + d, s.id)) = (t + d, SItem.timer s.id) :: srcItems ((t', n') :: tl) := by
        simp [simQueue, srcItems, insertEv, hlt]
      rw [hq]
      exact deb_fb_step_timer d other echo isEcho f k clk t x _ s hp (by omega)
    have PE : ∀ lo, Mono lo ((t', n') :: tl) → ∀ fuel k clk (s : DebSt α) t x, 4 * ((t', n') :: tl).length + 1 ≤ fuel →
        isEcho x = true → DebPending s t d x → clk ≤ t → t ≤ lo →
        simRunFb (debOp d) other echo isEcho fuel k clk (simQueue ((t', n') :: tl) (some (t + d, s.id))) s
          = debSpecFb d echo isEcho k (some (t, x)) ((t', n') :: tl) := by
      intro lo hm fuel k clk s t x hf hx hp hc hlo
      simp only [List.length_cons] at hf
      rw [debSpecFb_cons]
      by_cases hlt : t + d < t'
      · obtain ⟨f, rfl⟩ : ∃ f, fuel = f + 1 := ⟨fuel - 1, by omega⟩
        rw [fire lo hm f k clk s t x hp hc hlt]
        have he : echoFor echo isEcho k x = none := by simp [echoFor, hx]
        have hidle := (debAction_pending s t d x hp).2
        simp only [he, List.nil_append, debPre, hlt, if_true, List.singleton_append]
        congr 1
        have := Q t' ⟨Nat.le_refl _, hm.2⟩ f (k + 1) (t + d) _ none (by omega) hidle (by intro t x h; cases h) (Nat.le_of_lt hlt)
        exact this
      · have := Q lo hm fuel k clk s (some (t, x)) (by omega) hp (by intro t2 x2 h; cases h; exact hlt)
          (Nat.le_trans hc (Nat.le_trans hlo hm.1))
        simp only [debPre, hlt, if_false, List.nil_append]
        exact this
    refine ⟨PI, PE, ?_⟩
    intro lo hm fuel k clk s t x hf hp hc hlo
    simp only [List.length_cons] at hf
    by_cases hlt : t + d < t'
    · obtain ⟨f, rfl⟩ : ∃ f, fuel = f + 1 := ⟨fuel - 1, by omega⟩
      rw [fire lo hm f k clk s t x hp hc hlt, debSpecFb_cons]
      have hidle := (debAction_pending s t d x hp).2
      cases he : echoFor echo isEcho k x with
      | none =>
        simp only [List.nil_append, debPre, hlt, if_true, he, List.singleton_append]
        congr 1
        exact Q t' ⟨Nat.le_refl _, hm.2⟩ f (k + 1) (t + d) _ none (by omega) hidle (by intro t x h; cases h) (Nat.le_of_lt hlt)
      | some e =>
        have hee : isEcho e = true := by
          unfold echoFor at he
          cases hx : isEcho x <;> simp [hx] at he
          exact hE k e he
        obtain ⟨f', rfl⟩ : ∃ f', f = f' + 1 := ⟨f - 1, by omega⟩
        simp only [List.singleton_append]
        rw [deb_fb_step_next d other echo isEcho f' (k + 1) (t + d) (t + d) e _ _ (Nat.le_refl _), cancelTimers_srcItems]
        have hq3 : insertEv (t + d + d, SItem.timer ((debAction s s.id).1.id + 1)) (srcItems ((t', n') :: tl))
            = simQueue ((t', n') :: tl) (some (t + d + d, (debOnNext d (t + d) (debAction s s.id).1 e).id)) := rfl
        rw [hq3, PE t' ⟨Nat.le_refl _, hm.2⟩ f' (k + 1) (t + d) _ (t + d) e (by simp only [List.length_cons]; omega) hee
          (debOnNext_pending d (t + d) _ e) (Nat.le_refl _) (Nat.le_of_lt hlt), debSpecFb_cons]
        have he2 : echoFor echo isEcho (k + 1) e = none := by simp [echoFor, hee]
        by_cases hlt2 : t + d + d < t'
        · simp [debPre, hlt, he, hlt2, he2]
        · simp [debPre, hlt, he, hlt2]
    · have := Q lo hm fuel k clk s (some (t, x)) (by omega) hp (by intro t2 x2 h; cases h; exact hlt)
        (Nat.le_trans hc (Nat.le_trans hlo hm.1))
      rw [debSpecFb_cons]
      simp only [debPre, hlt, if_false, List.nil_append]
      exact this

end

end Timed

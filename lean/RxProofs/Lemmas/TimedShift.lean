import RxModel.TimedShift
import RxProofs.Lemmas.TimedWin
/-! Helper lemmas for C15 (time shifting). -/

namespace Timed

theorem ts_run_eq_spec {α} (msgs : TL α) : tsRun msgs = tsSpec msgs := by
  induction msgs with
  | nil => rfl
  | cons a r ih =>
    obtain ⟨t, n⟩ := a
    cases n with
    | next v => simp only [tsSpec] at ih; simp [tsRun, tsSpec, conform, Notif.map, ih]
    | error e => simp [tsRun, tsSpec, conform, Notif.map]
    | completed => simp [tsRun, tsSpec, conform, Notif.map]

theorem ti_run_eq_spec {α} (msgs : TL α) (last : Nat) : tiRun last msgs = tiSpec last msgs := by
  induction msgs generalizing last with
  | nil => simp [tiRun, tiSpec, nexts, firstTerminal]
  | cons a r ih =>
    obtain ⟨t, n⟩ := a
    cases n with
    | next v =>
      have := ih t
      simp only [tiSpec] at this
      simp [tiRun, tiSpec, nexts, firstTerminal, this]
    | error e => simp [tiRun, tiSpec, nexts, firstTerminal, Notif.map]
    | completed => simp [tiRun, tiSpec, nexts, firstTerminal, Notif.map]

/-- a timeline as its elements followed by its first terminal -/
theorem conform_eq {α} (msgs : TL α) :
    conform msgs = (nexts msgs).map emitEl ++ (firstTerminal msgs).toList := by
  induction msgs with
  | nil => rfl
  | cons a r ih =>
    obtain ⟨t, n⟩ := a
    cases n <;> simp [conform, nexts, firstTerminal, emitEl, ih]

/-! ### delay_subscription -/

def dsG {α} (pend : List (Nat × α)) (msgs : TL α) : TL α :=
  match firstTerminal msgs with
  | some (te, .error e) => ((pend ++ nexts msgs).filter (fun x => decide (x.1 < te))).map emitEl ++ [(te, .error e)]
  | some (tc, .completed) => (pend ++ nexts msgs).map emitEl ++ [(tc, .completed)]
  | _ => (pend ++ nexts msgs).map emitEl

theorem takeWhile_eq_filter_sorted {α} (t : Nat) (q : List (Nat × α)) (hs : SortedQ q) :
    q.takeWhile (fun e => decide (e.1 < t)) = q.filter (fun e => decide (e.1 < t)) := by
  induction q with
  | nil => rfl
  | cons a q ih =>
    have hs' := List.pairwise_cons.1 hs
    by_cases h : a.1 < t
    · simp [h, ih hs'.2]
    · have : q.filter (fun e => decide (e.1 < t)) = [] := by
        rw [List.filter_eq_nil_iff]; intro e he; have := hs'.1 e he; simp; omega
      simp [h, this]

theorem mem_takeWhile_lt {α} (t : Nat) (q : List (Nat × α)) :
    ∀ e ∈ q.takeWhile (fun e => decide (e.1 < t)), e.1 < t := by
  induction q with
  | nil => intro e he; cases he
  | cons a q ih =>
    intro e he
    by_cases h : a.1 < t
    · simp only [List.takeWhile_cons, h, decide_true, if_true, List.mem_cons] at he
      rcases he with rfl | he
      · exact h
      · exact ih e he
    · simp [List.takeWhile_cons, h] at he

theorem ds_run_eq_G {α} (msgs : TL α) (pend : List (Nat × α)) (lo : Nat) (h : Mono lo msgs)
    (hs : SortedQ pend) (hp : ∀ e ∈ pend, e.1 ≤ lo) : dsRun pend msgs = dsG pend msgs := by
  induction msgs generalizing pend lo with
  | nil => simp [dsRun, dsG, firstTerminal, nexts]
  | cons a r ih =>
    obtain ⟨t, n⟩ := a
    have hsplit := List.takeWhile_append_dropWhile (p := fun e : Nat × α => decide (e.1 < t)) (l := pend)
    cases n with
    | next x =>
      have hdw : (pend.dropWhile (fun e => decide (e.1 < t))).Sublist pend := List.dropWhile_sublist _
      have hs' : SortedQ (pend.dropWhile (fun e => decide (e.1 < t)) ++ [(t, x)]) :=
        sortedQ_snoc x (List.Pairwise.sublist hdw hs) (fun e he => Nat.le_trans (hp e (hdw.subset he)) h.1)
      have hp' : ∀ e ∈ pend.dropWhile (fun e => decide (e.1 < t)) ++ [(t, x)], e.1 ≤ t := by
        intro e he
        rcases List.mem_append.1 he with hm | hm
        · exact Nat.le_trans (hp e (hdw.subset hm)) h.1
        · rw [List.mem_singleton] at hm; subst hm; exact Nat.le_refl _
      rw [dsRun, ih _ t h.2 hs' hp']
      simp only [dsG, firstTerminal, nexts]
      cases hf : firstTerminal r with
      | none =>
        simp only [← List.map_append, List.append_assoc, List.singleton_append]
        rw [← List.append_assoc, hsplit]
      | some Tn =>
        obtain ⟨T, m⟩ := Tn
        have hT : t ≤ T := firstTerminal_ge h.2 hf
        cases m with
        | next v =>
          simp only [← List.map_append, List.append_assoc, List.singleton_append]
          rw [← List.append_assoc, hsplit]
        | completed =>
          simp only [List.append_assoc, List.singleton_append]
          rw [← List.append_assoc, ← List.map_append, ← List.append_assoc, hsplit]
        | error e =>
          have e1 : (pend.takeWhile (fun e => decide (e.1 < t))).filter (fun x => decide (x.1 < T))
              = pend.takeWhile (fun e => decide (e.1 < t)) := by
            rw [List.filter_eq_self]; intro e he
            have := mem_takeWhile_lt t pend e he
            simp; omega
          conv => rhs; rw [← hsplit]
          simp only [List.filter_append, List.map_append, List.append_assoc, e1, List.singleton_append]
    | error e =>
      simp only [dsRun, dsG, firstTerminal, nexts, List.append_nil, takeWhile_eq_filter_sorted t pend hs]
    | completed =>
      simp only [dsRun, dsG, firstTerminal, nexts, List.append_nil]
      rw [← List.append_assoc, ← List.map_append, hsplit]

end Timed
